#!/bin/bash
# Build the whole Coq development from files on disk (offline). Used as MANIFEST.setup_cmd.
cd "$(dirname "$(readlink -f "$0")")" || exit 2
export PYTHONPATH=/repo:/verif PYTHONHASHSEED=0 FDAPY_VERIF=1 MPLBACKEND=Agg
exec /venv/bin/python - <<'PY'
import sys
from harness import common as C
bad = C.scan_forbidden()
if bad:
    print("forbidden constructs:", bad); sys.exit(1)
ok, out = C.build(verbose=False)
print(out[-2000:])
print("setup:", "ok" if ok else "some files failed to compile (each check re-verifies its own Props file and fails closed)")
import glob
sys.exit(0 if glob.glob(str(C.COQ / "Base" / "Num.vo")) else 1)
PY
