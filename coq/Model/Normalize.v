(* Model/Normalize.v — definitions only (proofs: Lemmas/Normalize.v) — standardised sampling points of irregular data (C11: "standardised sampling
   points track the sampling points").  argvals.py:IrregularArgvals.normalization maps every observation's
   points affinely with the GLOBAL minimum and maximum over all observations of the object:
        x |-> (x - min) / (max - min)          ([0] for every observation when min = max).
   A derived object (subset, concatenation) is a new dataset: its standardised points are those of ITS OWN
   points.  They coincide with the restriction of the parent's exactly when the subset has the parent's
   range ([norm_select_same_range]) and differ otherwise ([norm_select_refuted] — the behaviour of the
   seeded change C11_14, which copies the parent's standardised points into the subset). *)
From Coq Require Import List Bool QArith Qminmax Qabs.
Import ListNotations.
Local Open Scope Q_scope.

Definition qmin_list (l : list Q) : Q := match l with [] => 0 | x :: r => fold_left Qmin r x end.
Definition qmax_list (l : list Q) : Q := match l with [] => 0 | x :: r => fold_left Qmax r x end.
Definition gmin (obs : list (list Q)) : Q := qmin_list (concat obs).
Definition gmax (obs : list (list Q)) : Q := qmax_list (concat obs).

Definition norm_with (mn mx : Q) (xs : list Q) : list Q :=
  if Qeq_bool mn mx then [0] else map (fun x => Qred ((x - mn) / (mx - mn))) xs.
Definition norm_irr (obs : list (list Q)) : list (list Q) := map (norm_with (gmin obs) (gmax obs)) obs.

(* dense data (argvals.py:DenseArgvals.normalization): every dimension's grid mapped affinely with ITS OWN minimum and maximum *)
Definition norm_dense (points : list Q) : list Q :=
  map (fun x => Qred ((x - qmin_list points) / (qmax_list points - qmin_list points))) points.

(* observations at the given positions (all valid), in the given order *)
Definition select (idx : list nat) (obs : list (list Q)) : list (list Q) := map (fun i => nth i obs []) idx.

(* otherwise they differ: parent on [0, 4], the subset {observation 1} on [1, 3] *)
Definition c11_parent : list (list Q) := [[0; 1]; [1; 2; 3]; [4]].
