(* Model/Poly.v — definitions only.  Polynomials as coefficient lists (constant term first), the
   Legendre polynomials built by Bonnet's recurrence ON POLYNOMIALS, exact integration over [-1,1]. *)
From Coq Require Import List Bool.
From FDAV Require Import Base.Num Base.Vec.
From Param Require Import Param.
Import ListNotations.

Section Poly.
  Context {T : Type} (o : ops T).
  Fixpoint padd (p : list T) : list T -> list T :=
    match p with
    | [] => fun q => q
    | a :: p' => fun q => match q with [] => a :: p' | b :: q' => oadd o a b :: padd p' q' end
    end.
  Definition pscale (c : T) (p : list T) : list T := map (omul o c) p.
  Definition pmulx (p : list T) : list T := o0 o :: p.
  Fixpoint pmul (p : list T) : list T -> list T :=
    match p with
    | [] => fun _ => []
    | a :: p' => fun q => padd (pscale a q) (pmulx (pmul p' q))
    end.
  Fixpoint peval (p : list T) : T -> T :=
    match p with [] => fun _ => o0 o | a :: p' => fun x => oadd o a (omul o x (peval p' x)) end.

  (* (P_k, P_{k-1}) as polynomials *)
  Fixpoint leg_poly_pair (k : nat) : list T * list T :=
    match k with
    | O => ([o1 o], [])
    | S k' =>
        let '(pk, pk1) := leg_poly_pair k' in
        (pscale (odiv o (o1 o) (oofnat o (S k')))
                (padd (pscale (oofnat o (2 * k' + 1)) (pmulx pk)) (pscale (oopp o (oofnat o k')) pk1)), pk)
    end.
  Definition leg_poly (k : nat) : list T := fst (leg_poly_pair k).

  (* antiderivative with zero constant term, and the exact integral over [-1, 1] *)
  Fixpoint anti_from (p : list T) : nat -> list T :=
    match p with [] => fun _ => [] | a :: p' => fun i => odiv o a (oofnat o (S i)) :: anti_from p' (S i) end.
  Definition anti (p : list T) : list T := o0 o :: anti_from p 0.
  Definition pint11 (p : list T) : T := osub o (peval (anti p) (o1 o)) (peval (anti p) (oopp o (o1 o))).
End Poly.

Parametricity Recursive pmul.
Parametricity Recursive peval.
Parametricity Recursive leg_poly.
Parametricity Recursive pint11.
