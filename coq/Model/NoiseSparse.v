(* Model/NoiseSparse.v — definitions only.
   Model of FDApy/simulation/simulation.py: _add_noise_univariate_data,
   _sparsify_univariate_data (with the minimum of two retained samples) and
   Simulation.add_noise / sparsify / add_noise_and_sparsify.

   Oracles: the square root of the noise variance is a value [s] (hypotheses
   0 <= s, s*s = sigma2 live in the theorems); the drawn noise [z], the drawn
   mask and the two fallback indices are arbitrary values handed to the model
   (the RNG is an oracle).

   The numeric part is polymorphic in [T] (theorems at opsR, execution at opsQ);
   sparsification is polymorphic in the cell type; the fault machine is discrete
   and polymorphic in the dataset types. *)
From Coq Require Import List Bool Arith.
From FDAV Require Import Base.Num Base.Vec.
From Param Require Import Param.
Import ListNotations.

(* ---------- noise:  Y = X + sqrt(sigma2) * Z ---------- *)
Section Noise.
  Context {T : Type} (o : ops T).

  (* one curve *)
  Definition add_noise (s : T) (z x : list T) : list T := vadd o x (vscale o s z).
  (* all curves of a univariate dataset (rows = observations) *)
  Definition add_noise_m (s : T) (Z X : list (list T)) : list (list T) :=
    map2 (add_noise s) Z X.
  (* a dataset = (grid, curves): the grid is handed over unchanged *)
  Definition add_noise_ds (s : T) (Z : list (list T)) (d : list T * list (list T)) :
    list T * list (list T) := (fst d, add_noise_m s Z (snd d)).
  (* multivariate data: one draw matrix per component, same s *)
  Definition add_noise_mv (s : T) (ZZ : list (list (list T)))
             (dd : list (list T * list (list T))) : list (list T * list (list T)) :=
    map2 (add_noise_ds s) ZZ dd.

  (* executable check of the square-root oracle (used by the correspondence run) *)
  Definition is_sqrt_of (s v : T) : bool := oleb o (o0 o) s && oeqb o (omul o s s) v.
End Noise.

Parametricity Recursive add_noise.
Parametricity Recursive add_noise_m.
Parametricity Recursive add_noise_ds.
Parametricity Recursive add_noise_mv.
Parametricity Recursive is_sqrt_of.

(* ---------- sparsification: cells are [Some v] (kept) or [None] (missing / NaN) ---------- *)
Section Sparse.
  Context {A : Type}.

  Definition sparsify (mask : list bool) (x : list A) : list (option A) :=
    map2 (fun (b : bool) v => if b then Some v else None) mask x.

  Fixpoint set_true (m : list bool) : nat -> list bool :=
    match m with
    | [] => fun _ => []
    | b :: m' => fun i => match i with O => true :: m' | S i' => b :: set_true m' i' end
    end.

  Definition count_true (m : list bool) : nat := length (filter (fun b : bool => b) m).
  Definition is_some (c : option A) : bool := match c with Some _ => true | None => false end.
  Definition count_kept (l : list (option A)) : nat := length (filter is_some l).

  (* the minimum-of-two rule: when the drawn mask keeps fewer than two samples,
     the two fallback indices [p] are switched on *)
  Definition min_two (mask : list bool) (p : nat * nat) : list bool :=
    if count_true mask <? 2 then set_true (set_true mask (fst p)) (snd p) else mask.

  Definition sparsify_curve (mask : list bool) (p : nat * nat) (x : list A) : list (option A) :=
    sparsify (min_two mask p) x.

  (* what the fallback oracle may return.  Correct behaviour: two DISTINCT
     positions of the curve.  Defect F13(b): two positions drawn with replacement. *)
  Definition distinct_pair (n : nat) (p : nat * nat) : bool :=
    (fst p <? n) && (snd p <? n) && negb (fst p =? snd p).
  Definition any_pair (n : nat) (p : nat * nat) : bool := (fst p <? n) && (snd p <? n).

  (* all curves of a dataset: one mask and one fallback pair per curve *)
  Definition sparsify_m (masks : list (list bool)) (ps : list (nat * nat)) (X : list (list A)) :=
    map2 (fun mp x => sparsify_curve (fst mp) (snd mp) x) (combine masks ps) X.
End Sparse.

(* ---------- the simulator as a machine with fault points ---------- *)
Section Machine.
  Context {D Sp : Type}.
  Context (noisef : D -> D).           (* add_noise with its draws fixed *)
  Context (sparsef : D -> option Sp).   (* sparsify with its draws fixed; None = it raises *)
  Context (is2d : D -> bool).          (* _check_dimension refuses this dataset *)

  Record sim := { data : option D; noisy : option D; sparse : option Sp }.
  Definition set_data (s : sim) (d : option D) : sim :=
    {| data := d; noisy := noisy s; sparse := sparse s |}.

  (* internal calls.  [ICall] is any internal call without effect on the three
     fields (generator draws, numpy functions, constructors, property getters):
     it only matters as a point where an exception can be raised. *)
  Inductive instr := ICall | ICheckData | ICheckDim | IAddNoise | ISparsify.

  Inductive outcome := Done (s : sim) | Raised (s : sim).
  Definition final (r : outcome) : sim := match r with Done s => s | Raised s => s end.
  Definition raised (r : outcome) : bool := match r with Done _ => false | Raised _ => true end.

  Definition exec1 (i : instr) (s : sim) : outcome :=
    match i with
    | ICall => Done s
    | ICheckData => match data s with None => Raised s | Some _ => Done s end
    | ICheckDim =>
        match data s with
        | Some d => if is2d d then Raised s else Done s
        | None => Raised s
        end
    | IAddNoise =>
        match data s with
        | Some d => Done {| data := data s; noisy := Some (noisef d); sparse := sparse s |}
        | None => Raised s
        end
    | ISparsify =>
        match data s with
        | Some d => match sparsef d with
                    | Some r => Done {| data := data s; noisy := noisy s; sparse := Some r |}
                    | None => Raised s
                    end
        | None => Raised s
        end
    end.

  Definition pred_fault (k : option nat) : option nat :=
    match k with Some (S n) => Some n | _ => None end.

  (* [run p k s]: execute the calls of [p]; the fault schedule [k = Some n] makes
     the n-th call from now raise INSTEAD of executing; natural failures raise
     too.  Returns the outcome and what is left of the schedule. *)
  Fixpoint run (p : list instr) : option nat -> sim -> outcome * option nat :=
    match p with
    | [] => fun k s => (Done s, k)
    | i :: p' => fun k s =>
        match k with
        | Some O => (Raised s, None)
        | _ => match exec1 i s with
               | Raised s' => (Raised s', None)
               | Done s' => run p' (pred_fault k) s'
               end
        end
    end.

  (* add_noise_and_sparsify, as it has to behave:
       self.add_noise(..); tmp = self.data; self.data = self.noisy_data
       try: self.sparsify(..)  finally: self.data = tmp                     *)
  Definition combined (p1 p2 : list instr) (k : option nat) (s : sim) : outcome :=
    match run p1 k s with
    | (Raised s1, _) => Raised s1
    | (Done s1, k1) =>
        let tmp := data s1 in
        match run p2 k1 (set_data s1 (noisy s1)) with
        | (Raised s2, _) => Raised (set_data s2 tmp)
        | (Done s2, _) => Done (set_data s2 tmp)
        end
    end.

  (* defect F13(a): the current code has no try/finally *)
  Definition combined_nofinally (p1 p2 : list instr) (k : option nat) (s : sim) : outcome :=
    match run p1 k s with
    | (Raised s1, _) => Raised s1
    | (Done s1, k1) =>
        let tmp := data s1 in
        match run p2 k1 (set_data s1 (noisy s1)) with
        | (Raised s2, _) => Raised s2
        | (Done s2, _) => Done (set_data s2 tmp)
        end
    end.

  (* the bodies of the two public methods; [a], [b] = numbers of effect-free internal calls *)
  Definition add_noise_body (a : nat) : list instr := ICheckData :: repeat ICall a ++ [IAddNoise].
  Definition sparsify_body (b : nat) : list instr :=
    ICheckData :: ICheckDim :: repeat ICall b ++ [ISparsify].

  (* histories of public calls, each with its own fault schedule; the simulator
     survives an exception and is used again *)
  Inductive call := CAddNoise (a : nat) | CSparsify (b : nat) | CCombined (a b : nat).
  Definition do_call (c : call * option nat) (s : sim) : outcome :=
    match fst c with
    | CAddNoise a => fst (run (add_noise_body a) (snd c) s)
    | CSparsify b => fst (run (sparsify_body b) (snd c) s)
    | CCombined a b => combined (add_noise_body a) (sparsify_body b) (snd c) s
    end.
  Definition run_calls (cs : list (call * option nat)) (s : sim) : sim :=
    fold_left (fun st c => final (do_call c st)) cs s.
End Machine.

Arguments sim : clear implicits.
Arguments outcome : clear implicits.
