(* Model/Scores.v — definitions only.  Scores and reconstruction of (U)FPCA
   (ufpca.py: transform / inverse_transform and their helpers). *)
From Coq Require Import List Bool.
From FDAV Require Import Base.Num Base.Vec Base.Quad.
From Param Require Import Param.
Import ListNotations.

Section Scores.
  Context {T : Type} (o : ops T).

  (* preparation of a curve: centre with the stored mean, divide by s = sqrt(rescaling weight)
     (s = 1 when normalize = False) *)
  Definition prep (mu : list T) (s : T) (x : list T) : list T :=
    map (fun v => odiv o v s) (vsub o x mu).
  (* what the unrepaired transform(data) does with normalize = True (finding F2): the
     rescaling is applied to the UNCENTRED curve *)
  Definition prep_uncentred (s : T) (x : list T) : list T := map (fun v => odiv o v s) x.

  (* numerical-integration scores: xi_ik = int xtilde_i phi_k  (trapezoid rule on grid t) *)
  Definition scores_numint (t : list T) (Xt : list (list T)) (phis : list (list T)) : list (list T) :=
    map (fun xi => map (fun phi => inner o t xi phi) phis) Xt.
  (* Gram-based scores: xi_ik = r_k v_ik with r_k = sqrt(n lambda_k) (oracle roots), vs = eigenvectors *)
  Definition scores_innpro (rs : list T) (vs : list (list T)) : list (list T) :=
    map2 (fun r v => vscale o r v) rs vs.          (* one list per COMPONENT *)

  (* inverse_transform: mean + s * sum_k xi_k phi_k *)
  Definition inverse (m : nat) (mu : list T) (s : T) (phis : list (list T)) (xi : list T) : list T :=
    vadd o mu (vscale o s (mtv o m phis xi)).
End Scores.

Parametricity Recursive prep.
Parametricity Recursive prep_uncentred.
Parametricity Recursive scores_numint.
Parametricity Recursive scores_innpro.
Parametricity Recursive inverse.
