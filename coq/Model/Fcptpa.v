(* Model/Fcptpa.v — definitions only.
   Model of FDApy/preprocessing/dim_reduction/fcp_tpa.py:FCPTPA.fit.

   Part 1 (discrete): the iteration loop of one component,

       n_iter = 0
       while any(norm(v - v_old)/norm(v) > tolerance ...):        (* the TEST *)
           v_old = v ; v, alphas = _update_components(...)        (* one UPDATE *)
           n_iter = n_iter + 1
           if n_iter > max_iteration:
               if adapt_tolerance and (n_iter < 2 * max_iteration): tolerance = 10 * tolerance
               else: v_old = v                                    (* forced exit *)
       if adapt_tolerance and (n_iter >= max_iteration): tolerance = tolerance_old

   The test is an ARBITRARY oracle [conv n_iter level] ([true] = "converged", the
   while-test is false); [level] counts how often the tolerance was multiplied
   by 10.  After the forced exit [v_old = v], so the test is [0 > tolerance],
   false for every tolerance >= 0 (and false as well if the vectors are NaN):
   the flag [l_forced].  [n_iter] is incremented exactly once per update, so it
   IS the number of updates.

   Part 2 (numeric, polymorphic in the number type): per component normalise the
   three vectors by their Euclidean norms (square roots are oracle values),
   coefficient = <residual, u(x)v(x)w>, residual' = residual - coef * u(x)v(x)w;
   scores, eigenimages, reconstruction and the final [normalize] option.
   3-way arrays are flattened in C order, so u(x)v(x)w = kron u (kron v w). *)
From Coq Require Import List Bool Arith.
From FDAV Require Import Base.Num Base.Vec Base.Quad.
From Param Require Import Param.
Import ListNotations.

(* ------------------------------------------------------------------ *)
(* 1. the loop skeleton                                                *)
(* ------------------------------------------------------------------ *)
Record lstate := mkL { l_iter : nat; l_level : nat; l_forced : bool }.

Definition l_init (level : nat) : lstate := mkL 0 level false.

(* the while-test: [true] = enter the body once more *)
Definition loop_test (conv : nat -> nat -> bool) (st : lstate) : bool :=
  negb (l_forced st) && negb (conv (l_iter st) (l_level st)).

(* one pass through the body (the update itself is an oracle and leaves no trace here) *)
Definition loop_body (maxit : nat) (adapt : bool) (st : lstate) : lstate :=
  let n := S (l_iter st) in
  if maxit <? n then
    if adapt && (n <? 2 * maxit)
    then mkL n (S (l_level st)) (l_forced st)        (* tolerance = 10 * tolerance *)
    else mkL n (l_level st) true                     (* vectors_old = vectors      *)
  else mkL n (l_level st) (l_forced st).

(* big-step semantics: [Runs conv maxit adapt st k st'] = starting in [st] the loop
   performs exactly [k] updates and leaves in [st'].  No fuel. *)
Inductive Runs (conv : nat -> nat -> bool) (maxit : nat) (adapt : bool) :
  lstate -> nat -> lstate -> Prop :=
| Runs_exit : forall st, loop_test conv st = false -> Runs conv maxit adapt st 0 st
| Runs_step : forall st k st', loop_test conv st = true ->
    Runs conv maxit adapt (loop_body maxit adapt st) k st' ->
    Runs conv maxit adapt st (S k) st'.

(* executable version: explicit fuel; Lemmas/Fcptpa.v shows that [loop_fuel maxit]
   is always enough, i.e. [None] is never returned by [component_loop] *)
Fixpoint run_loop (fuel : nat) (conv : nat -> nat -> bool) (maxit : nat) (adapt : bool)
         (st : lstate) : option lstate :=
  match fuel with
  | O => None
  | S f => if loop_test conv st then run_loop f conv maxit adapt (loop_body maxit adapt st)
           else Some st
  end.

Definition loop_fuel (maxit : nat) : nat := 2 * maxit + 2.
Definition component_loop conv maxit adapt (level : nat) : option lstate :=
  run_loop (loop_fuel maxit) conv maxit adapt (l_init level).

(* the bound: 2*max updates with adapt_tolerance (max >= 1), max+1 without *)
Definition loop_bound (maxit : nat) (adapt : bool) : nat :=
  if adapt then Nat.max (2 * maxit) (maxit + 1) else maxit + 1.

(* "Reset tolerance if necessary" *)
Definition restore (maxit : nat) (adapt : bool) (level_old : nat) (st : lstate) : nat :=
  if adapt && (maxit <=? l_iter st) then level_old else l_level st.

(* all components: [convs k] is the oracle of the k-th component; the tolerance
   variable is threaded through as the code does.  Result: numbers of updates
   per component and the tolerance level left at the end. *)
Fixpoint fit_loop_from (ncomp : nat) (k : nat) (convs : nat -> nat -> nat -> bool)
         (maxit : nat) (adapt : bool) (level : nat) : option (list nat * nat) :=
  match ncomp with
  | O => Some ([], level)
  | S n' =>
      match component_loop (convs k) maxit adapt level with
      | None => None
      | Some st =>
          match fit_loop_from n' (S k) convs maxit adapt (restore maxit adapt level st) with
          | None => None
          | Some (l, lv) => Some (l_iter st :: l, lv)
          end
      end
  end.
Definition fit_loop ncomp convs maxit adapt := fit_loop_from ncomp 0 convs maxit adapt 0.

(* ------------------------------------------------------------------ *)
(* 2. deflation, scores, eigenimages, normalisation                    *)
(* ------------------------------------------------------------------ *)
Section Num.
  Context {T : Type} (o : ops T).

  Definition vdivs (s : T) (x : list T) : list T := map (fun a => odiv o a s) x.
  Definition sqnorm (x : list T) : T := dot o x x.
  Definition rank1 (u v w : list T) : list T := kron o u (kron o v w).

  (* residual' = residual - <residual,e> e *)
  Definition deflate1 (r e : list T) : list T := vsub o r (vscale o (dot o r e) e).
  Definition deflate_step (acc : list T * list T) (e : list T) : list T * list T :=
    (fst acc ++ [dot o (snd acc) e], deflate1 (snd acc) e).
  (* (coefficients c_1..c_K, final residual) *)
  Definition deflate_seq (X : list T) (es : list (list T)) : list T * list T :=
    fold_left deflate_step es ([], X).
  Definition coefs (X : list T) (es : list (list T)) : list T := fst (deflate_seq X es).
  Definition residual (X : list T) (es : list (list T)) : list T := snd (deflate_seq X es).
  (* sum_k c_k e_k   (tensors of n entries) *)
  Definition recon (n : nat) (cs : list T) (es : list (list T)) : list T := mtv o n es cs.

  (* what the update loop hands over for one component: raw vectors (u,v,w) — any
     non-zero vectors — and the oracle values (su,sv,sw) of their Euclidean norms *)
  Definition rawcomp : Type := (list T * list T * list T) * (T * T * T).
  Definition unit_u (c : rawcomp) : list T := vdivs (fst (fst (snd c))) (fst (fst (fst c))).
  Definition unit_v (c : rawcomp) : list T := vdivs (snd (fst (snd c))) (snd (fst (fst c))).
  Definition unit_w (c : rawcomp) : list T := vdivs (snd (snd c)) (snd (fst c)).
  Definition unit_tensor (c : rawcomp) : list T := rank1 (unit_u c) (unit_v c) (unit_w c).

  Definition fit_num (X : list T) (comps : list rawcomp) : list T * list T :=
    deflate_seq X (map unit_tensor comps).

  (* results saved by fit: score columns c_k u_k, eigenimages v_k (x) w_k *)
  Definition score_cols (cs : list T) (us : list (list T)) : list (list T) := map2 (vscale o) cs us.
  Definition eigenimage (v w : list T) : list (list T) := outer o v w.
  Definition fit_scores (X : list T) (comps : list rawcomp) : list (list T) :=
    score_cols (fst (fit_num X comps)) (map unit_u comps).
  Definition fit_images (comps : list rawcomp) : list (list (list T)) :=
    map (fun c => eigenimage (unit_v c) (unit_w c)) comps.

  (* inverse_transform(scores): sum_k S_k (x) image_k, flattened; images flattened *)
  Definition recon_scores (n : nat) (S : list (list T)) (imgs : list (list T)) : list T :=
    fold_right (vadd o) (zeros o n) (map2 (kron o) S imgs).

  (* the normalize option: images / norm_k, scores * norm_k *)
  Definition norm_image (s : T) (F : list (list T)) : list (list T) := map (vdivs s) F.
  Definition norm_scores (ns : list T) (S : list (list T)) : list (list T) := map2 (vscale o) ns S.
  Definition norm_images_flat (ns : list T) (imgs : list (list T)) : list (list T) := map2 vdivs ns imgs.
  (* squared L2 norm of an image on the grid x1 x x2 (iterated trapezoid rule) *)
  Definition image_normsq (x1 x2 : list T) (F : list (list T)) : T := inner2 o x1 x2 F F.
End Num.
Arguments rawcomp T : clear implicits.

Parametricity Recursive vdivs.
Parametricity Recursive sqnorm.
Parametricity Recursive rank1.
Parametricity Recursive deflate_seq.
Parametricity Recursive recon.
Parametricity Recursive fit_num.
Parametricity Recursive fit_scores.
Parametricity Recursive fit_images.
Parametricity Recursive recon_scores.
Parametricity Recursive norm_image.
Parametricity Recursive norm_scores.
Parametricity Recursive norm_images_flat.
Parametricity Recursive image_normsq.
