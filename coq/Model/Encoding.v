(* Model/Encoding.v — definitions only.
   Irregularly sampled data and their two encodings (C15).

   ABSTRACT CONTENT: per curve, the list of observed (t, y) pairs in order.
   [enc_nan grid ct]   the sparsifier's encoding (simulation.py:_sparsify_univariate_data):
                       every curve on the COMMON grid, unobserved cells missing
                       (NaN in the code, [None] here);
   [enc_ragged ct]     the CSV loader's encoding (loader.py:_read_csv_irregular):
                       per-curve sampling points and per-curve values.
   [dec_nan], [dec_ragged] read the content back (what `to_long().dropna()` /
   the `~np.isnan` masks of the code do).  [A] = abscissae (decidable equality
   [eqb]), [V] = values; numbers are only moved. *)
From Coq Require Import List Bool QArith.
Import ListNotations.
Local Close Scope Q_scope.

Section Encoding.
  Context {A V : Type} (eqb : A -> A -> bool).

  Definition curve := list (A * V).
  Definition content := list curve.

  (* value of curve c at abscissa t, if observed (first match) *)
  Fixpoint lookup (t : A) (c : curve) : option V :=
    match c with
    | [] => None
    | (t', v) :: c' => if eqb t' t then Some v else lookup t c'
    end.

  (* ---- NaN-on-a-common-grid encoding ---- *)
  Definition enc_row (grid : list A) (c : curve) : list (option V) := map (fun t => lookup t c) grid.
  Definition enc_nan (grid : list A) (ct : content) : list (list (option V)) := map (enc_row grid) ct.

  Definition dec_row (grid : list A) (row : list (option V)) : curve :=
    flat_map (fun tv => match snd tv with Some v => [(fst tv, v)] | None => [] end) (combine grid row).
  Definition dec_nan (grid : list A) (rows : list (list (option V))) : content := map (dec_row grid) rows.

  (* ---- per-curve sampling points ---- *)
  Definition enc_ragged (ct : content) : list (list A * list V) :=
    map (fun c => (map fst c, map snd c)) ct.
  Definition dec_ragged (e : list (list A * list V)) : content :=
    map (fun p => combine (fst p) (snd p)) e.

  (* ---- things defined on the content ---- *)
  (* long format: one row (abscissa, curve number, value) per observed sample, curve by curve *)
  Definition to_long (ct : content) : list (A * nat * V) :=
    concat (map (fun ic => map (fun tv => (fst tv, fst ic, snd tv)) (snd ic))
                (combine (seq 0 (length ct)) ct)).
  (* the dense dataset a complete content is: one row of values per curve (on the grid) *)
  Definition dense_values (ct : content) : list (list V) := map (map snd) ct.
  (* the union of the sampling points, in grid order (`argvals.to_dense()`): grid points observed at least once *)
  Definition observed_points (grid : list A) (ct : content) : list A :=
    filter (fun t => existsb (fun c => existsb (fun p => eqb (fst p) t) c) ct) grid.
  Definition n_samples (ct : content) : list nat := map (@length _) ct.
End Encoding.

(* ---- specification vocabulary ---- *)
(* l1 is an ordered sub-sequence of l2 (a curve is sampled on part of the grid, in grid order) *)
Inductive subseq {A : Type} : list A -> list A -> Prop :=
| subseq_nil : subseq [] []
| subseq_take : forall x l1 l2, subseq l1 l2 -> subseq (x :: l1) (x :: l2)
| subseq_skip : forall x l1 l2, subseq l1 l2 -> subseq l1 (x :: l2).

(* ---- the pooled mean and the defect model of finding F14 ----
   `IrregularFunctionalData.mean(method_smoothing="PS")` first lays the long table out on
   the grid of distinct abscissae (psplines.py:_format_data) and hands (y_grid, weights) to
   the P-spline fit (property C05).
   [format_pooled]: what a mean requires — per grid point the MEAN of the values observed
                    there, weighted by their NUMBER (the penalised least-squares fit of the
                    pooled observations);
   [format_last]  : what the unrepaired code does — per grid point the LAST value observed
                    there (long-table order: curve by curve), weight 1, except weight 0 where
                    that value is exactly 0 or nothing is observed. *)
Definition obs_at {A V : Type} (eqb : A -> A -> bool) (t : A) (ct : @content A V) : list V :=
  flat_map (fun c => match lookup eqb t c with Some v => [v] | None => [] end) ct.
Definition last_opt {V : Type} (l : list V) : option V :=
  match rev l with [] => None | v :: _ => Some v end.
Local Open Scope Q_scope.
Definition qsum (l : list Q) : Q := fold_right Qplus 0 l.

Definition format_pooled (eqb : Q -> Q -> bool) (grid : list Q) (ct : @content Q Q) : list (Q * Q) :=
  map (fun t => let vs := obs_at eqb t ct in
                match vs with
                | [] => (0, 0)
                | _ => let n := inject_Z (Z.of_nat (length vs)) in (Qred (qsum vs / n), n)
                end) grid.
Definition format_last (eqb : Q -> Q -> bool) (grid : list Q) (ct : @content Q Q) : list (Q * Q) :=
  map (fun t => match last_opt (obs_at eqb t ct) with
                | Some v => (v, if Qeq_bool v 0 then 0 else 1)
                | None => (0, 0)
                end) grid.
Definition mean_pooled eqb grid ct : list Q := map fst (format_pooled eqb grid ct).
Definition mean_last eqb grid ct : list Q := map fst (format_last eqb grid ct).
