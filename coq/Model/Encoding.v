(* Model/Encoding.v — definitions only.
   Irregularly sampled data and their two encodings (C15).

   ABSTRACT CONTENT: per curve, the list of observed (t, y) pairs in order.
   [enc_nan grid ct]   the sparsifier's encoding (simulation.py:_sparsify_univariate_data):
                       every curve on the COMMON grid, unobserved cells missing
                       (NaN in the code, [None] here);
   [enc_ragged ct]     the CSV loader's encoding (loader.py:_read_csv_irregular):
                       per-curve sampling points and per-curve values.
   [dec_nan], [dec_ragged] read the content back (what `to_long().dropna()` /
   the `~np.isnan` masks of the code do).  [A] = abscissae (decidable equality
   [eqb]), [V] = values; numbers are only moved. *)
From Coq Require Import List Bool.
Import ListNotations.

Section Encoding.
  Context {A V : Type} (eqb : A -> A -> bool).

  Definition curve := list (A * V).
  Definition content := list curve.

  (* value of curve c at abscissa t, if observed (first match) *)
  Fixpoint lookup (t : A) (c : curve) : option V :=
    match c with
    | [] => None
    | (t', v) :: c' => if eqb t' t then Some v else lookup t c'
    end.

  (* ---- NaN-on-a-common-grid encoding ---- *)
  Definition enc_row (grid : list A) (c : curve) : list (option V) := map (fun t => lookup t c) grid.
  Definition enc_nan (grid : list A) (ct : content) : list (list (option V)) := map (enc_row grid) ct.

  Definition dec_row (grid : list A) (row : list (option V)) : curve :=
    flat_map (fun tv => match snd tv with Some v => [(fst tv, v)] | None => [] end) (combine grid row).
  Definition dec_nan (grid : list A) (rows : list (list (option V))) : content := map (dec_row grid) rows.

  (* ---- per-curve sampling points ---- *)
  Definition enc_ragged (ct : content) : list (list A * list V) :=
    map (fun c => (map fst c, map snd c)) ct.
  Definition dec_ragged (e : list (list A * list V)) : content :=
    map (fun p => combine (fst p) (snd p)) e.

  (* ---- things defined on the content ---- *)
  (* long format: one row (abscissa, curve number, value) per observed sample, curve by curve *)
  Definition to_long (ct : content) : list (A * nat * V) :=
    concat (map (fun ic => map (fun tv => (fst tv, fst ic, snd tv)) (snd ic))
                (combine (seq 0 (length ct)) ct)).
  (* the dense dataset a complete content is: one row of values per curve (on the grid) *)
  Definition dense_values (ct : content) : list (list V) := map (map snd) ct.
  (* the union of the sampling points, in grid order (`argvals.to_dense()`): grid points observed at least once *)
  Definition observed_points (grid : list A) (ct : content) : list A :=
    filter (fun t => existsb (fun c => existsb (fun p => eqb (fst p) t) c) ct) grid.
  Definition n_samples (ct : content) : list nat := map (@length _) ct.
End Encoding.

(* ---- specification vocabulary ---- *)
(* l1 is an ordered sub-sequence of l2 (a curve is sampled on part of the grid, in grid order) *)
Inductive subseq {A : Type} : list A -> list A -> Prop :=
| subseq_nil : subseq [] []
| subseq_take : forall x l1 l2, subseq l1 l2 -> subseq (x :: l1) (x :: l2)
| subseq_skip : forall x l1 l2, subseq l1 l2 -> subseq l1 (x :: l2).
