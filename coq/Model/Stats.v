(* Model/Stats.v — definitions only.  Sample statistics and the transformations
   built on them (properties C09 and C10).  A dataset is a list of rows
   (observations), each a list of m values on the grid; [cols] is its transpose. *)
From Coq Require Import List Bool.
From FDAV Require Import Base.Num Base.Vec Base.Quad.
From Param Require Import Param.
Import ListNotations.

Section Stats.
  Context {T : Type} (o : ops T).

  Definition avg (l : list T) : T := odiv o (vsum o l) (oofnat o (length l)).
  Definition cols (m : nat) (X : list (list T)) : list (list T) := transpose m X.

  (* ---------- C09: mean, covariance ---------- *)
  Definition mean (m : nat) (X : list (list T)) : list T := colmean o m X.

  (* unbiased sample covariance from the columns of the CENTRED data:
     np.dot(data.values.T, data.values) / (n_obs - 1) *)
  Definition cov_of_cols (n : nat) (Ct : list (list T)) : list (list T) :=
    map (fun cs => map (fun ct => odiv o (dot o cs ct) (oofnat o (pred n))) Ct) Ct.
  Definition cov (m : nat) (X : list (list T)) : list (list T) :=
    cov_of_cols (length X) (cols m (center_rows o m X)).

  (* (S + S^T) / 2, entrywise *)
  Definition symmetrise (n : nat) (S : list (list T)) : list (list T) :=
    map (fun i => map (fun j =>
      ohalf o (oadd o (nth j (nth i S []) (o0 o)) (nth i (nth j S []) (o0 o))))
      (seq 0 n)) (seq 0 n).

  (* ---------- C09: difference-based noise variance (Hall, Kay, Titterington) ---------- *)
  Fixpoint windows (x : list T) : nat -> list (list T) :=
    match x with
    | [] => fun _ => []
    | a :: x' => fun k =>
        if Nat.leb k (S (length x')) then firstn k (a :: x') :: windows x' k else []
    end.
  Definition noise_var1 (d x : list T) : T :=
    if Nat.ltb (length x) (length d) then o0 o
    else avg (map (fun w => osq o (dot o d w)) (windows x (length d))).
  Definition noise_var (d : list T) (X : list (list T)) : T := avg (map (noise_var1 d) X).

  (* ---------- C10: centring, normalising, standardising, rescaling ---------- *)
  Definition center (m : nat) (X : list (list T)) : list (list T) := center_rows o m X.

  (* normalise: row_i / r_i, r_i being the (oracle) norm of row_i *)
  Definition normalize (rs : list T) (X : list (list T)) : list (list T) :=
    map2 (fun r row => map (fun v => odiv o v r) row) rs X.

  (* population variance of a column (np.var / np.std use ddof = 0) *)
  Definition pvar (c : list T) : T :=
    let mu := avg c in avg (map (fun v => osq o (osub o v mu)) c).
  Definition pvars (m : nat) (X : list (list T)) : list T := map pvar (cols m X).

  (* standardise: (x - mean) / sd, guarded: 0 where the sd is 0 (sd = oracle root of pvar) *)
  Definition gdiv (v s : T) : T := if oeqb o s (o0 o) then o0 o else odiv o v s.
  Definition standardize (m : nat) (sds : list T) (X : list (list T)) : list (list T) :=
    map (fun row => map2 gdiv row sds) (center_rows o m X).

  (* standardize(center=False): the values themselves over the same pointwise sd *)
  Definition standardize_nc (sds : list T) (X : list (list T)) : list (list T) :=
    map (fun row => map2 gdiv row sds) X.

  (* rescale: weight = integral of the pointwise variance; values / sqrt(weight) *)
  Definition rescale_weight (x : list T) (X : list (list T)) : T :=
    trapz o x (pvars (length x) X).
  Definition rescale (s : T) (X : list (list T)) : list (list T) :=
    map (map (fun v => odiv o v s)) X.
End Stats.

Parametricity Recursive avg.
Parametricity Recursive mean.
Parametricity Recursive cov.
Parametricity Recursive symmetrise.
Parametricity Recursive noise_var.
Parametricity Recursive center.
Parametricity Recursive normalize.
Parametricity Recursive pvars.
Parametricity Recursive standardize.
Parametricity Recursive standardize_nc.
Parametricity Recursive rescale_weight.
Parametricity Recursive rescale.
