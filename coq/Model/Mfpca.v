(* Model/Mfpca.v — definitions only.  Multivariate FPCA by the covariance method
   (mfpca.py:_fit_covariance_multivariate): univariate scores S (n rows, M = sum of the univariate sizes),
   block-diagonal Gram matrix G of the univariate bases, score covariance Q, eigenpairs (nu, c) of the
   NON-symmetric product G Q (oracle), multivariate eigenfunction coefficients a_k = Q' c_k nf_k / sqrt(nu_k)
   split per component. *)
From Coq Require Import List Bool.
From FDAV Require Import Base.Num Base.Vec Model.Stats.
From Param Require Import Param.
Import ListNotations.

Section Mfpca.
  Context {T : Type} (o : ops T).

  (* block-diagonal assembly of square blocks (utils._block_diag) *)
  Fixpoint blockdiag (Gs : list (list (list T))) : list (list T) :=
    match Gs with
    | [] => []
    | G :: Gs' =>
        let rest := blockdiag Gs' in
        let k := length G in
        let r := length rest in
        map (fun row => row ++ zeros o r) G ++ map (fun row => zeros o k ++ row) rest
    end.

  (* uncentred second moment S^T S / (n-1) from the columns of S, and the covariance (centred) *)
  Definition second_moment (n : nat) (cols_S : list (list T)) : list (list T) := cov_of_cols o n cols_S.

  (* coefficients of the k-th multivariate eigenfunction on the concatenated univariate bases:
     a_k = (nf_k / r_k) * (Q' c_k),  r_k = sqrt(nu_k) (oracle),  nf_k = normalising factor (oracle) *)
  Definition mfpca_coef (Q' : list (list T)) (c : list T) (nf r : T) : list T :=
    vscale o (odiv o nf r) (mv o Q' c).
  (* multivariate scores: S c_k * r_k * nf_k *)
  Definition mfpca_scores (S : list (list T)) (c : list T) (nf r : T) : list T :=
    vscale o (omul o r nf) (mv o S c).
  (* split a concatenated coefficient vector into the per-component pieces (sizes = univariate sizes) *)
  Fixpoint split_sizes (sizes : list nat) : list T -> list (list T) :=
    match sizes with
    | [] => fun _ => []
    | k :: sizes' => fun a => firstn k a :: split_sizes sizes' (skipn k a)
    end.
  (* product-space inner product: sum over components of a_p^T G_p b_p *)
  Definition prod_inner (Gs : list (list (list T))) (As Bs : list (list T)) : T :=
    vsum o (map2 (fun G ab => dot o (fst ab) (mv o G (snd ab))) Gs (combine As Bs)).
End Mfpca.

Parametricity Recursive blockdiag.
Parametricity Recursive mfpca_coef.
Parametricity Recursive mfpca_scores.
Parametricity Recursive split_sizes.
Parametricity Recursive prod_inner.
