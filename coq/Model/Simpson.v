(* Model/Simpson.v — scipy.integrate.simpson(y, x=x) as FDApy calls it (definitions only).
   simp3   : the three-point rule on two adjacent intervals of different lengths (scipy _basic_simpson)
   cart    : Cartwright's correction for the last interval when the number of points is even
   simpson : N = 2 -> trapezoid; N odd -> sum of three-point rules; N even -> three-point rules on the
             first N-1 points + correction for the last interval
   simpson2/simpson3 : FDApy _integrate(Y, x1, x2[, x3], method="simpson"): the rule over axis 0, then
             over the remaining axes in turn. *)
From Coq Require Import List Bool Arith.
From FDAV Require Import Base.Num Base.Vec.
From Param Require Import Param.
Import ListNotations.

Section Simpson.
  Context {T : Type} (o : ops T).

  Definition simp3 (x0 x1 x2 y0 y1 y2 : T) : T :=
    let h0 := osub o x1 x0 in
    let h1 := osub o x2 x1 in
    let hs := oadd o h0 h1 in
    omul o (odiv o hs (oofnat o 6))
      (oadd o (oadd o (omul o y0 (osub o (oofnat o 2) (odiv o h1 h0)))
                      (omul o y1 (odiv o (omul o hs hs) (omul o h0 h1))))
              (omul o y2 (osub o (oofnat o 2) (odiv o h0 h1)))).

  Definition cart (x0 x1 x2 y0 y1 y2 : T) : T :=
    let h0 := osub o x1 x0 in
    let h1 := osub o x2 x1 in
    let alpha := odiv o (oadd o (omul o (oofnat o 2) (omul o h1 h1)) (omul o (oofnat o 3) (omul o h0 h1)))
                        (omul o (oofnat o 6) (oadd o h1 h0)) in
    let beta := odiv o (oadd o (omul o h1 h1) (omul o (oofnat o 3) (omul o h0 h1))) (omul o (oofnat o 6) h0) in
    let eta := odiv o (omul o h1 (omul o h1 h1)) (omul o (omul o (oofnat o 6) h0) (oadd o h0 h1)) in
    osub o (oadd o (omul o alpha y2) (omul o beta y1)) (omul o eta y0).

  (* three-point rules over (0,1,2), (2,3,4), ...; an unpaired last interval is ignored *)
  Fixpoint simp_pairs (x : list T) : list T -> T :=
    match x with
    | [] => fun _ => o0 o
    | x0 :: xs1 => fun y =>
        match xs1, y with
        | x1 :: ((x2 :: _) as xs2), y0 :: y1 :: ((y2 :: _) as ys2) =>
            oadd o (simp3 x0 x1 x2 y0 y1 y2) (simp_pairs xs2 ys2)
        | _, _ => o0 o
        end
    end.

  (* the correction, evaluated on the LAST three points *)
  Fixpoint cart_last (x : list T) : list T -> T :=
    match x with
    | [] => fun _ => o0 o
    | x0 :: xs1 => fun y =>
        match xs1, y with
        | [x1; x2], [y0; y1; y2] => cart x0 x1 x2 y0 y1 y2
        | _ :: _, _ :: ys1 => cart_last xs1 ys1
        | _, _ => o0 o
        end
    end.

  Definition simpson (x y : list T) : T :=
    match x, y with
    | [x0; x1], [y0; y1] => ohalf o (omul o (osub o x1 x0) (oadd o y0 y1))
    | _, _ => if Nat.even (length x) then oadd o (simp_pairs x y) (cart_last x y) else simp_pairs x y
    end.

  (* axis 0 of a matrix whose rows are indexed by x1: one integral per column *)
  Definition simpson_rows (x1 : list T) (Y : list (list T)) (n : nat) : list T :=
    map (simpson x1) (transpose n Y).
  Definition simpson2 (x1 x2 : list T) (Y : list (list T)) : T :=
    simpson x2 (simpson_rows x1 Y (length x2)).
End Simpson.

Parametricity Recursive simpson.
Parametricity Recursive simpson2.
