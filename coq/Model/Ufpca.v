(* Model/Ufpca.v — definitions only.  The algebra around the eigen-solver in
   FDApy/preprocessing/dim_reduction/ufpca.py (_fit_covariance, _fit_inner_product) and
   utils._compute_covariance.  The solver itself is an oracle (pairs (lambda, u)). *)
From Coq Require Import List Bool.
From FDAV Require Import Base.Num Base.Vec Base.Quad.
From Param Require Import Param.
Import ListNotations.

Section Ufpca.
  Context {T : Type} (o : ops T).

  (* the matrix handed to the solver, W^{1/2} C W^{1/2}, as rows (s = sqrt of the weights) *)
  Definition sym_scale (s : list T) (C : list (list T)) : list (list T) :=
    map2 (fun si row => vscale o si (vmul o row s)) s C.
  (* eigenfunction = W^{-1/2} u *)
  Definition back (s u : list T) : list T := map2 (fun ui si => odiv o ui si) u s.
  (* Mercer sum  sum_k lambda_k phi_k phi_k^T  (utils._compute_covariance) as a matrix of m rows *)
  Definition mercer (m : nat) (lams : list T) (phis : list (list T)) : list (list T) :=
    fold_right (madd o) (repeat (zeros o m) m)
      (map2 (fun l phi => mscale o l (outer o phi phi)) lams phis).
  (* ... and as a linear map  z |-> sum_k lambda_k (phi_k . z) phi_k *)
  Definition mercer_map (m : nat) (lams : list T) (phis : list (list T)) (z : list T) : list T :=
    mtv o m phis (vmul o lams (mv o phis z)).

  (* Gram route: phi_k = X^T v_k / r_k   (r_k = sqrt of the Gram eigenvalue, oracle) *)
  Definition gram_phi (m : nat) (X : list (list T)) (v : list T) (r : T) : list T :=
    map (fun a => odiv o a r) (mtv o m X v).
End Ufpca.

Parametricity Recursive sym_scale.
Parametricity Recursive back.
Parametricity Recursive mercer.
Parametricity Recursive mercer_map.
Parametricity Recursive gram_phi.
