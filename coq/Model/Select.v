(* Model/Select.v — definitions only.
   Sub-selection, iteration and concatenation of functional datasets (C13).

   A dataset is a list of labelled observations, in iteration order.  An
   observation [obs] is opaque: it stands for "the sampling points and the
   values of one curve" and is only ever moved, never looked into.  Labels are
   the integer keys of the per-observation dictionaries of irregular data; a
   FRESHLY BUILT dataset has labels 0..n-1 ([fresh]).  Dense / basis data have
   no explicit labels: their observations are addressed by position, which is
   the same thing as always being [fresh].

   CORRECT behaviour (what property C13 requires):
     [getitem], [iter], [concatenate]  — positional selection with Python
     semantics, results relabelled sequentially.
   DEFECT models (what the unrepaired irregular code does — finding F9):
     [getitem_keep_labels]  label look-ups, parent labels kept, dict semantics;
     [relabel_shift]        `new[len(new) + key] = value` concatenation;
     [analysis_keyerror]    methods pairing enumerate() positions with label
                            look-ups raise KeyError at the first position whose
                            label differs from it;
     [seq_iter]             the old-style sequence iteration protocol (used by
                            MultivariateFunctionalData, a UserList). *)
From Coq Require Import ZArith List Bool.
From FDAV Require Import Model.PyIndex.
Import ListNotations.
Local Open Scope Z_scope.

Definition label := Z.

Inductive index :=
| IInt (i : Z)                 (* fdata[i] *)
| ISlice (s : pyslice)         (* fdata[a:b:c] *)
| IArr (a : list Z).           (* fdata[np.array([...])] *)

Inductive err :=
| IndexError
| KeyError (k : Z)
| TypeError
| ValueError.

Inductive res (A : Type) :=
| Ok (a : A)
| Err (e : err).
Arguments Ok {A}. Arguments Err {A}.

Section Select.
  Context {obs : Type}.

  Definition dataset := list (label * obs).

  Definition content (d : dataset) : list obs := map snd d.
  Definition labels (d : dataset) : list label := map fst d.
  Definition fresh_labels (n : nat) : list label := map Z.of_nat (seq 0 n).

  (* a freshly built dataset with the given content *)
  Definition fresh (l : list obs) : dataset := combine (fresh_labels (length l)) l.

  (* observations at the given positions, in the given order *)
  Definition pick (l : list obs) (ps : list Z) : list obs :=
    flat_map (fun p => match nth_error l (Z.to_nat p) with Some x => [x] | None => [] end) ps.

  (* positions selected by an index on a dataset with n observations *)
  Definition select_positions (n : nat) (ix : index) : res (list Z) :=
    match ix with
    | IInt i => match wrap_index (Z.of_nat n) i with
                | Some p => Ok [p]
                | None => Err IndexError
                end
    | ISlice s => match slice_positions (Z.of_nat n) s with
                  | Some ps => Ok ps
                  | None => Err ValueError
                  end
    | IArr a => match wrap_all (Z.of_nat n) a with
                | Some ps => Ok ps
                | None => Err IndexError
                end
    end.

  (* ---------------------------------------------------------------- correct *)
  Definition getitem (d : dataset) (ix : index) : res dataset :=
    match select_positions (length d) ix with
    | Ok ps => Ok (fresh (pick (content d) ps))
    | Err e => Err e
    end.

  Definition iter (d : dataset) : list dataset := map (fun x => fresh [x]) (content d).

  Definition concatenate (ds : list dataset) : dataset :=
    fresh (concat (map content ds)).

  (* consecutive pieces cut at c0 <= c1 <= ... : [c0:c1], [c1:c2], ... *)
  Definition slice_ab (a b : Z) : index := ISlice (mkslice (Some a) (Some b) None).
  Fixpoint pieces (d : dataset) (a : Z) (cuts : list Z) : list (res dataset) :=
    match cuts with
    | [] => []
    | b :: cuts' => getitem d (slice_ab a b) :: pieces d b cuts'
    end.
  (* evaluate left to right; the first error wins (a list comprehension) *)
  Fixpoint res_all {A} (l : list (res A)) : res (list A) :=
    match l with
    | [] => Ok []
    | Ok a :: l' => match res_all l' with Ok r => Ok (a :: r) | Err e => Err e end
    | Err e :: _ => Err e
    end.

  (* multivariate data: a list of components with the same n_obs (the container
     constructor checks it and raises ValueError otherwise);
     `MultivariateFunctionalData([component[index] for component in self.data])`,
     one getter per component *)
  Definition same_nobs (comps : list dataset) : bool :=
    match comps with
    | [] => true
    | c :: cs => forallb (fun d => Nat.eqb (length d) (length c)) cs
    end.
  Definition multi_make (comps : list dataset) : res (list dataset) :=
    if same_nobs comps then Ok comps else Err ValueError.
  Definition getitem_multi (gets : list (index -> res dataset)) (ix : index) : res (list dataset) :=
    match res_all (map (fun g => g ix) gets) with
    | Ok comps => multi_make comps
    | Err e => Err e
    end.

  (* the old-style sequence iteration protocol: call get 0, get 1, ... until IndexError *)
  Fixpoint seq_iter {A} (fuel : nat) (get : Z -> res A) (i : Z) : res (list A) :=
    match fuel with
    | O => Err ValueError                       (* fuel exhausted: never reached with fuel > length *)
    | S f =>
        match get i with
        | Ok a => match seq_iter f get (i + 1) with
                  | Ok r => Ok (a :: r)
                  | Err e => Err e
                  end
        | Err IndexError => Ok []
        | Err e => Err e
        end
    end.

  (* ----------------------------------------------------------- defect: F9 *)
  (* insertion-ordered dictionary: assignment to an existing key keeps its place *)
  Fixpoint dict_set (k : label) (v : obs) (d : dataset) : dataset :=
    match d with
    | [] => [(k, v)]
    | (k', v') :: d' => if k' =? k then (k, v) :: d' else (k', v') :: dict_set k v d'
    end.
  Fixpoint dict_get (k : label) (d : dataset) : option obs :=
    match d with
    | [] => None
    | (k', v') :: d' => if k' =? k then Some v' else dict_get k d'
    end.

  (* {key: self.get(key) for key in keys}; a missing key gives None, which the
     container constructor refuses with TypeError *)
  Fixpoint gather (d : dataset) (keys : list Z) (acc : dataset) : res dataset :=
    match keys with
    | [] => Ok acc
    | k :: keys' =>
        match dict_get k d with
        | Some v => gather d keys' (dict_set k v acc)
        | None => Err TypeError
        end
    end.

  Definition getitem_keep_labels (d : dataset) (ix : index) : res dataset :=
    match ix with
    | IInt i => match dict_get i d with
                | Some v => Ok [(i, v)]
                | None => Err (KeyError i)
                end
    | ISlice s => match slice_positions (Z.of_nat (length d)) s with
                  | Some ps => gather d ps []
                  | None => Err ValueError
                  end
    | IArr a => gather d a []
    end.

  (* iteration visits the keys in order and yields self[key]: labels kept *)
  Definition iter_keep_labels (d : dataset) : list dataset := map (fun kv => [kv]) d.

  (* IrregularArgvals/IrregularValues.concatenate:
       for el in pieces: temp = len(new); for key, v in el.items(): new[temp + key] = v *)
  Definition shift_into (acc el : dataset) : dataset :=
    let temp := Z.of_nat (length acc) in
    fold_left (fun a kv => dict_set (temp + fst kv) (snd kv) a) el acc.
  Definition relabel_shift (ds : list dataset) : dataset := fold_left shift_into ds [].

  (* MultivariateFunctionalData.concatenate: component by component (one concatenation
     rule per component), then the container constructor *)
  Definition concatenate_multi (cats : list (list dataset -> dataset))
             (pieces : list (list dataset)) : res (list dataset) :=
    multi_make (map (fun cp => fst cp (snd cp)) (combine cats pieces)).
End Select.

(* `for idx, obs in enumerate(self): ... obs.argvals[idx]`: the first position
   whose label is not the position raises KeyError(position) *)
Fixpoint analysis_keyerror_from (p : Z) (ls : list label) : option Z :=
  match ls with
  | [] => None
  | l :: ls' => if l =? p then analysis_keyerror_from (p + 1) ls' else Some p
  end.
Definition analysis_keyerror (ls : list label) : option Z := analysis_keyerror_from 0 ls.
