(* Model/Repr.v — definitions only.  Changing representation (C14): basis expansions evaluated on
   their grid, long-format tables, CSV loading decisions (misc/loader.py). *)
From Coq Require Import List Bool.
From FDAV Require Import Base.Num Base.Vec Base.Quad.
From Param Require Import Param.
Import ListNotations.

Section Repr.
  Context {T : Type} (o : ops T).

  (* BasisFunctionalData.to_grid: curve_i = sum_k c_ik phi_k  (Phi: K rows of m values) *)
  Definition to_grid (m : nat) (Phi : list (list T)) (C : list (list T)) : list (list T) :=
    map (mtv o m Phi) C.
  (* statistics computed from the coefficients *)
  Definition coef_mean (K : nat) (C : list (list T)) : list T := colmean o K C.
  Definition coef_center (K : nat) (C : list (list T)) : list (list T) := center_rows o K C.
  Definition coef_inner (G : list (list T)) (c c' : list T) : T := dot o c (mv o G c').
  Definition coef_gram (G : list (list T)) (C : list (list T)) : list (list T) :=
    map (fun c => map (fun c' => coef_inner G c c') C) C.

  (* long format of dense data: every (observation, point, value) once, row-major *)
  Definition to_long (m : nat) (X : list (list T)) : list (nat * nat * T) :=
    flat_map (fun ir => map (fun j => (fst ir, j, nth j (snd ir) (o0 o))) (seq 0 m))
             (combine (seq 0 (length X)) X).
End Repr.

(* CSV loading decisions — discrete, on cells that are present (Some v) or missing (None) *)
Section Csv.
  Context {V : Type}.
  Definition csv_abscissae (hdr_ints : option (list nat)) (ncol : nat) : list nat :=
    match hdr_ints with Some l => l | None => seq 0 ncol end.
  Definition is_present (c : option V) : bool := match c with Some _ => true | None => false end.
  Definition csv_complete (rows : list (list (option V))) : bool := forallb (forallb is_present) rows.
  Fixpoint ragged (absc : list nat) (row : list (option V)) : list (nat * V) :=
    match absc, row with
    | t :: absc', Some v :: row' => (t, v) :: ragged absc' row'
    | _ :: absc', None :: row' => ragged absc' row'
    | _, _ => []
    end.
End Csv.

Parametricity Recursive to_grid.
Parametricity Recursive coef_mean.
Parametricity Recursive coef_center.
Parametricity Recursive coef_gram.
Parametricity Recursive to_long.

(* covariance computed from the coefficients (BasisFunctionalData.covariance: centred coefficients,
   C^T C / n) and its evaluation at a pair of grid points s, t *)
Section CovCoef.
  Context {T : Type} (o : ops T).
  Definition cov_coef (K : nat) (C : list (list T)) : list (list T) :=
    let Ct := transpose K (center_rows o K C) in
    map (fun ck => map (fun cl => odiv o (dot o ck cl) (oofnat o (length C))) Ct) Ct.
  Definition basis_at (Phi : list (list T)) (s : nat) : list T := map (fun phi => nth s phi (o0 o)) Phi.
  Definition cov_coef_at (K : nat) (Phi C : list (list T)) (s t : nat) : T :=
    dot o (basis_at Phi s) (mv o (cov_coef K C) (basis_at Phi t)).
End CovCoef.
Parametricity Recursive cov_coef_at.
