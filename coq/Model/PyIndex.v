(* Model/PyIndex.v — definitions only.
   Python indexing semantics over Z, as used by every `__getitem__` of FDApy
   (NumPy basic/advanced indexing on the first axis, `slice.indices`, `range`).

   [slice_indices n s]  = `slice(start, stop, step).indices(n)` (CPython
                          sliceobject.c: defaults, negative wrap, clamping);
                          [None] is CPython's `ValueError: slice step cannot be zero`.
   [range_list i j k]   = `list(range(i, j, k))`.
   [slice_positions n s]= `list(range(n))[start:stop:step]`.
   [wrap_index n i]     = integer index with negative wrap; [None] = IndexError. *)
From Coq Require Import ZArith List Bool.
Import ListNotations.
Local Open Scope Z_scope.

Record pyslice := mkslice { sl_start : option Z; sl_stop : option Z; sl_step : option Z }.

Definition step_of (s : pyslice) : Z :=
  match sl_step s with None => 1 | Some k => k end.

(* bounds between which start/stop are clamped: [0, n] for k > 0, [-1, n-1] for k < 0 *)
Definition lower_bound (k : Z) : Z := if 0 <? k then 0 else -1.
Definition upper_bound (n k : Z) : Z := if 0 <? k then n else n - 1.

(* one bound of the slice: [dflt] when omitted, otherwise wrapped then clamped *)
Definition norm_bound (n k : Z) (dflt : Z) (o : option Z) : Z :=
  match o with
  | None => dflt
  | Some a =>
      if a <? 0
      then (if a + n <? lower_bound k then lower_bound k else a + n)
      else (if upper_bound n k <? a then upper_bound n k else a)
  end.

Definition slice_indices (n : Z) (s : pyslice) : option (Z * Z * Z) :=
  let k := step_of s in
  if k =? 0 then None
  else
    let lo := lower_bound k in
    let up := upper_bound n k in
    let i := norm_bound n k (if 0 <? k then lo else up) (sl_start s) in
    let j := norm_bound n k (if 0 <? k then up else lo) (sl_stop s) in
    Some (i, j, k).

(* len(range(i, j, k)) for k <> 0 *)
Definition range_len (i j k : Z) : nat :=
  if 0 <? k
  then (if i <? j then Z.to_nat ((j - i + k - 1) / k) else 0%nat)
  else (if j <? i then Z.to_nat ((i - j - k - 1) / (- k)) else 0%nat).

Definition range_list (i j k : Z) : list Z :=
  map (fun m => i + Z.of_nat m * k) (seq 0 (range_len i j k)).

Definition slice_positions (n : Z) (s : pyslice) : option (list Z) :=
  match slice_indices n s with
  | None => None
  | Some (i, j, k) => Some (range_list i j k)
  end.

(* integer index: negative values count from the end; out of range = IndexError *)
Definition wrap_index (n i : Z) : option Z :=
  let i' := if i <? 0 then i + n else i in
  if (0 <=? i') && (i' <? n) then Some i' else None.

(* index array: every entry wrapped; one bad entry = IndexError for the whole access *)
Fixpoint wrap_all (n : Z) (a : list Z) : option (list Z) :=
  match a with
  | [] => Some []
  | i :: a' =>
      match wrap_index n i, wrap_all n a' with
      | Some p, Some ps => Some (p :: ps)
      | _, _ => None
      end
  end.

(* ---- specification vocabulary (Python Language Reference, "slicings" /
   "common sequence operations" note 5), used by the statements in Lemmas ---- *)
(* i resp. j of the reference: omitted -> an "end" value depending on the sign
   of k; negative -> len + value; then reduced into [0, len] (k > 0) resp.
   [-1, len-1] (k < 0) *)
Definition bound_spec (n k : Z) (is_start : bool) (o : option Z) : Z :=
  match o with
  | None => if 0 <? k then (if is_start then 0 else n) else (if is_start then n - 1 else -1)
  | Some a => let a' := if a <? 0 then a + n else a in
              Z.max (lower_bound k) (Z.min (upper_bound n k) a')
  end.
(* "stopping when j is reached (but never including j)" *)
Definition before (k x j : Z) : Prop := if 0 <? k then x < j else j < x.
