(* Model/Basis.v — definitions only.  Basis families of FDApy/misc/basis.py.
   B-splines: the Cox–de Boor recursion on a knot sequence t : nat -> T (the code uses the
   equally spaced extended sequence t_j = a + (j - p) dx, built below); Legendre polynomials by
   Bonnet's recurrence; tensor products by [kron] (Base/Vec.v); dropping the intercept = [tl]. *)
From Coq Require Import List Bool.
From FDAV Require Import Base.Num Base.Vec.
From Param Require Import Param.
Import ListNotations.

Section Basis.
  Context {T : Type} (o : ops T).

  Definition ind (t : nat -> T) (j : nat) (x : T) : T :=
    if oleb o (t j) x && oltb o x (t (S j)) then o1 o else o0 o.

  Fixpoint bspl (p : nat) : (nat -> T) -> nat -> T -> T :=
    match p with
    | O => fun t j x => ind t j x
    | S p' => fun t j x =>
        oadd o
          (omul o (odiv o (osub o x (t j)) (osub o (t (j + S p')%nat) (t j))) (bspl p' t j x))
          (omul o (odiv o (osub o (t (j + S p' + 1)%nat) x) (osub o (t (j + S p' + 1)%nat) (t (S j))))
                  (bspl p' t (S j) x))
    end.

  (* equally spaced extended knots: t_j = a + j*dx - p*dx,  dx = (b - a)/n_segments *)
  Definition knot (a dx : T) (p j : nat) : T :=
    osub o (oadd o a (omul o (oofnat o j) dx)) (omul o (oofnat o p) dx).
  Definition bspline_basis (a b : T) (nseg p : nat) (xs : list T) : list (list T) :=
    let dx := odiv o (osub o b a) (oofnat o nseg) in
    map (fun j => map (bspl p (knot a dx p) j) xs) (seq 0 (nseg + p)).

  (* Legendre: (k+1) P_{k+1} = (2k+1) x P_k - k P_{k-1} ; returns (P_k, P_{k-1}) *)
  Fixpoint legendre_pair (k : nat) : T -> T * T :=
    match k with
    | O => fun _ => (o1 o, o0 o)
    | S k' => fun x =>
        let '(pk, pk1) := legendre_pair k' x in
        (odiv o (osub o (omul o (omul o (oofnat o (2 * k' + 1)) x) pk) (omul o (oofnat o k') pk1))
                (oofnat o (S k')), pk)
    end.
  Definition legendre (k : nat) (x : T) : T := fst (legendre_pair k x).
  Definition legendre_basis (n : nat) (xs : list T) : list (list T) :=
    map (fun k => map (legendre k) xs) (seq 0 n).

  Definition drop_intercept (B : list (list T)) : list (list T) := tl B.
  (* 2-D basis: function (k1, k2) in row-major order, values on the product grid in row-major order *)
  Definition tensor_basis (B1 B2 : list (list T)) : list (list T) :=
    flat_map (fun f => map (fun g => kron o f g) B2) B1.
End Basis.

Parametricity Recursive bspline_basis.
Parametricity Recursive legendre_basis.
Parametricity Recursive drop_intercept.
Parametricity Recursive tensor_basis.
