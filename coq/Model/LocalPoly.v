(* Model/LocalPoly.v — definitions only.  Local polynomial regression as the kernel-weighted
   least-squares fit per query point (local_polynomial.py), on the CENTRED, bandwidth-scaled variable
   u = (x - x0)/h.  The normal equations are those of Model/Pspline.v with an empty penalty list:
       Aop nb D w [] beta = rhs nb D w y ,   estimate = intercept = hd beta. *)
From Coq Require Import List Bool.
From FDAV Require Import Base.Num Base.Vec Model.Basis Model.Pspline.
From Param Require Import Param.
Import ListNotations.

Section LocalPoly.
  Context {T : Type} (o : ops T).

  (* kernels as functions of t = |u| >= 0 (2-D: t = Euclidean norm of u) *)
  Definition k_epan (t : T) : T :=
    if oleb o t (o1 o) then omul o (odiv o (oofnat o 3) (oofnat o 4)) (osub o (o1 o) (osq o t)) else o0 o.
  Definition k_epan_strict (t : T) : T :=        (* the other support convention, |t| < 1 *)
    if oltb o t (o1 o) then omul o (odiv o (oofnat o 3) (oofnat o 4)) (osub o (o1 o) (osq o t)) else o0 o.
  Definition cube (a : T) : T := omul o a (omul o a a).
  Definition k_tricube (t : T) : T := if oltb o t (o1 o) then cube (osub o (o1 o) (cube t)) else o0 o.
  Definition k_bisquare (t : T) : T := if oltb o t (o1 o) then osq o (osub o (o1 o) (osq o t)) else o0 o.

  Definition scaled (x0 h x : T) : T := odiv o (osub o x x0) h.

  Fixpoint pows (u : T) (p : nat) : list T :=          (* [u^0; ...; u^p] *)
    match p with O => [o1 o] | S p' => pows u p' ++ [omul o (nth p' (pows u p') (o1 o)) u] end.
  (* 1-D design row [1, u, ..., u^p] *)
  Definition row1 (p : nat) (u : T) : list T := pows u p.
  (* 2-D design row in scikit-learn's PolynomialFeatures order: by total degree d, u^d, u^(d-1) v, ..., v^d *)
  Definition row2 (p : nat) (u v : T) : list T :=
    flat_map (fun d => map2 (omul o) (rev (pows u d)) (pows v d)) (seq 0 (S p)).

  Definition design_1d (p : nat) (x0 h : T) (xs : list T) : list (list T) :=
    map (fun x => row1 p (scaled x0 h x)) xs.
  Definition design_2d (p : nat) (x0 y0 h : T) (pts : list (T * T)) : list (list T) :=
    map (fun q => row2 p (scaled x0 h (fst q)) (scaled y0 h (snd q))) pts.

  (* |u| in 1-D *)
  Definition dist1 (x0 h x : T) : T := oabs o (scaled x0 h x).
  Definition weights_1d (k : T -> T) (x0 h : T) (xs : list T) : list T := map (fun x => k (dist1 x0 h x)) xs.
End LocalPoly.

Parametricity Recursive k_epan.
Parametricity Recursive k_epan_strict.
Parametricity Recursive k_tricube.
Parametricity Recursive k_bisquare.
Parametricity Recursive design_1d.
Parametricity Recursive design_2d.
Parametricity Recursive weights_1d.
