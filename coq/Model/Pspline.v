(* Model/Pspline.v — definitions only.  The SPECIFICATION of P-spline smoothing: the explicit
   (tensor-product) penalised weighted least-squares problem, not the GLAM array arithmetic of
   psplines.py:_fit_n_dimensional.
     B     : design matrix, one row per observation (n-D: grid points in row-major order,
             row = kron of the marginal basis rows)
     w     : non-negative weights, y : responses (both flattened row-major)
     pens  : list of (lambda, D) — penalty  sum lambda * |D c|^2   (n-D: D1 (x) I, I (x) D2, ...)
   Normal equations:  Aop c = B^T (w . B c) + sum lambda D^T D c  =  B^T (w . y) = rhs. *)
From Coq Require Import List Bool.
From FDAV Require Import Base.Num Base.Vec Model.Basis.
From Param Require Import Param.
Import ListNotations.

Section Pspline.
  Context {T : Type} (o : ops T).

  Definition pen_apply (nb : nat) (pens : list (T * list (list T))) (c : list T) : list T :=
    fold_right (fun lD acc => vadd o (vscale o (fst lD) (mtv o nb (snd lD) (mv o (snd lD) c))) acc)
               (zeros o nb) pens.
  Definition Aop (nb : nat) (B : list (list T)) (w : list T) (pens : list (T * list (list T))) (c : list T) : list T :=
    vadd o (mtv o nb B (vmul o w (mv o B c))) (pen_apply nb pens c).
  Definition rhs (nb : nat) (B : list (list T)) (w y : list T) : list T := mtv o nb B (vmul o w y).
  Definition fitted (B : list (list T)) (beta : list T) : list T := mv o B beta.
  (* leverage of observation i given z with Aop z = b_i *)
  Definition leverage (wi : T) (bi z : list T) : T := omul o wi (dot o bi z).

  (* ----- difference penalties ----- *)
  (* coefficients of the d-th difference: [1] -> [-1;1] -> [1;-2;1] -> ... *)
  Fixpoint dcoef (d : nat) : list T :=
    match d with
    | O => [o1 o]
    | S d' => vsub o (o0 o :: dcoef d') (dcoef d' ++ [o0 o])
    end.
  (* np.diff(np.eye(nb), n=d, axis=0): (nb - d) rows *)
  Definition diffmat (nb d : nat) : list (list T) :=
    map (fun i => firstn nb (zeros o i ++ dcoef d ++ zeros o nb))
        (filter (fun i => Nat.leb (i + d + 1) nb) (seq 0 nb)).
       (* no natural-number subtraction: pad with zeros, truncate to nb columns, keep rows i <= nb-d-1 *)
  (* the difference OPERATOR on coefficient sequences *)
  Definition diff1 (c : list T) : list T := map2 (osub o) (tl c) c.
  Fixpoint diffn (d : nat) : list T -> list T :=
    match d with O => fun c => c | S d' => fun c => diffn d' (diff1 c) end.

  Definition eye (n : nat) : list (list T) :=
    map (fun i => map (fun j => if Nat.eqb i j then o1 o else o0 o) (seq 0 n)) (seq 0 n).
  (* Kronecker product of matrices given by rows: rows of A (x) B are kron a b, row-major *)
  Definition kron_rows (A B : list (list T)) : list (list T) := tensor_basis o A B.

  (* ----- 1-D, 2-D, 3-D problems as the code poses them ----- *)
  Definition design1 (basis : list (list T)) (m : nat) : list (list T) := transpose m basis.
       (* basis: nb rows of m values -> m rows of nb *)
  Definition pens1 (nb d : nat) (lam : T) : list (T * list (list T)) := [(lam, diffmat nb d)].
  Definition design2 (R1 R2 : list (list T)) : list (list T) := kron_rows R1 R2.
  Definition pens2 (nb1 nb2 d : nat) (l1 l2 : T) : list (T * list (list T)) :=
    [(l1, kron_rows (diffmat nb1 d) (eye nb2)); (l2, kron_rows (eye nb1) (diffmat nb2 d))].
  Definition design3 (R1 R2 R3 : list (list T)) : list (list T) := kron_rows (kron_rows R1 R2) R3.
  Definition pens3 (nb1 nb2 nb3 d : nat) (l1 l2 l3 : T) : list (T * list (list T)) :=
    [(l1, kron_rows (kron_rows (diffmat nb1 d) (eye nb2)) (eye nb3));
     (l2, kron_rows (kron_rows (eye nb1) (diffmat nb2 d)) (eye nb3));
     (l3, kron_rows (kron_rows (eye nb1) (eye nb2)) (diffmat nb3 d))].
End Pspline.

Parametricity Recursive Aop.
Parametricity Recursive rhs.
Parametricity Recursive fitted.
Parametricity Recursive leverage.
Parametricity Recursive diffn.
Parametricity Recursive design1.
Parametricity Recursive pens1.
Parametricity Recursive design2.
Parametricity Recursive pens2.
Parametricity Recursive design3.
Parametricity Recursive pens3.
