(* Model/Heap.v — definitions only.  The heap abstraction of property C16.

   A location is anything mutable the implementation can reach: an array buffer,
   a dict / list / FDApy object (as a cell holding its keys and child pointers).
   A store maps locations to values; locations below [h_next] are allocated.

   A [call] is what the harness can observe of one library call:
     c_args   everything reachable from the receiver, the arguments and the
              user-supplied configuration;
     c_writes the locations the call wrote (with the values written);
     c_fresh  the locations it allocated;
     c_roots  everything reachable from the result.
   An event of a history is either such a call ([Pure]) or a later, legitimate
   in-place operation on an object the user was handed earlier ([Mutate], e.g.
   a list mutator of a MultivariateFunctionalData result, a setter, or user code
   writing into a returned array).  [garbage] fills fresh cells: what np.empty
   hands out. *)
From Coq Require Import List Arith Bool.
Import ListNotations.

Definition loc := nat.
Definition val := nat.
Definition store := loc -> val.

Definition upd (s : store) (l : loc) (v : val) : store :=
  fun l' => if Nat.eqb l' l then v else s l'.
Definition write_all (s : store) (ws : list (loc * val)) : store :=
  fold_left (fun s w => upd s (fst w) (snd w)) ws s.

Definition mem (l : loc) (ls : list loc) : bool := existsb (Nat.eqb l) ls.
Definition max_list (ls : list nat) : nat := fold_right Nat.max 0 ls.

Record heap := mkH { h_store : store; h_next : nat }.

Record call := mkC {
  c_args : list loc;
  c_writes : list (loc * val);
  c_fresh : list loc;
  c_roots : list loc }.

Inductive event :=
| Pure (c : call)
| Mutate (ws : list (loc * val)).

(* allocation: fresh cells hold garbage until written *)
Definition alloc (garbage : loc -> val) (s : store) (fresh : list loc) : store :=
  fold_left (fun s l => upd s l (garbage l)) fresh s.

Definition exec (garbage : loc -> val) (h : heap) (e : event) : heap :=
  match e with
  | Pure c => mkH (write_all (alloc garbage (h_store h) (c_fresh c)) (c_writes c))
                  (Nat.max (h_next h) (S (max_list (c_fresh c))))
  | Mutate ws => mkH (write_all (h_store h) ws) (h_next h)
  end.
Definition run (garbage : loc -> val) (h : heap) (es : list event) : heap :=
  fold_left (exec garbage) es h.

(* the user-mutable set: non-frozen locations reachable from results handed out so far *)
Definition grow (frozen : loc -> bool) (U : list loc) (e : event) : list loc :=
  match e with
  | Pure c => filter (fun l => negb (frozen l)) (c_roots c) ++ U
  | Mutate _ => U
  end.

(* ---- the frame condition (executable) ----
   [frozen]: locations shared by design and never written (sampling points, bases).
   A call (1) allocates above the watermark, (2) writes only to what it allocated,
   (3) returns a result that reaches only fresh locations, frozen ones, or earlier
   results that are not among its arguments: it shares no mutable location with
   what is reachable from its arguments.  A legitimate in-place operation writes
   only into objects the user was handed. *)
Definition call_ok (frozen : loc -> bool) (next : nat) (U : list loc) (c : call) : bool :=
  forallb (fun l => next <=? l) (c_fresh c)
  && forallb (fun w => mem (fst w) (c_fresh c)) (c_writes c)
  && forallb (fun l => mem l (c_fresh c) || frozen l || (mem l U && negb (mem l (c_args c)))) (c_roots c).

Definition event_ok (frozen : loc -> bool) (next : nat) (U : list loc) (e : event) : bool :=
  match e with
  | Pure c => call_ok frozen next U c
  | Mutate ws => forallb (fun w => mem (fst w) U) ws
  end.

(* the same without condition (3): what a per-call review of writes alone would accept *)
Definition event_ok_noalias (next : nat) (U : list loc) (e : event) : bool :=
  match e with
  | Pure c => forallb (fun l => next <=? l) (c_fresh c)
              && forallb (fun w => mem (fst w) (c_fresh c)) (c_writes c)
  | Mutate ws => forallb (fun w => mem (fst w) U) ws
  end.

Fixpoint history_ok (frozen : loc -> bool) (garbage : loc -> val) (h : heap) (U : list loc)
         (es : list event) : bool :=
  match es with
  | [] => true
  | e :: es' => event_ok frozen (h_next h) U e
                && history_ok frozen garbage (exec garbage h e) (grow frozen U e) es'
  end.

Fixpoint history_ok_noalias (garbage : loc -> val) (h : heap) (U : list loc) (es : list event) : bool :=
  match es with
  | [] => true
  | e :: es' => event_ok_noalias (h_next h) U e
                && history_ok_noalias garbage (exec garbage h e) (grow (fun _ => false) U e) es'
  end.

(* the locations a history writes in place through legitimate mutators *)
Definition mutated (es : list event) : list loc :=
  flat_map (fun e => match e with Pure _ => [] | Mutate ws => map fst ws end) es.
