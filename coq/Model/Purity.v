(* Model/Purity.v — definitions only.  Results as functions of what is read,
   uninitialised memory, and the defect models of finding F11 (property C16). *)
From Coq Require Import List Arith Bool.
From FDAV Require Import Model.Heap.
Import ListNotations.

(* ---- a call's result is a function of the cells it reads and of its RNG draws ---- *)
Record fcall := mkF { f_reads : list loc; f_fun : list val -> list val -> list val }.
Definition result (f : fcall) (s : store) (rng : list val) : list val :=
  f_fun f (map s (f_reads f)) rng.

(* ---- uninitialised memory ----
   A computation on ONE freshly allocated buffer (np.empty: cell i holds [garbage i])
   is a sequence of writes and reads; its observable result is the trace of values read. *)
Inductive instr := W (i : nat) (v : val) | R (i : nat).

Fixpoint trace (buf : nat -> val) (p : list instr) : list val :=
  match p with
  | [] => []
  | W i v :: p' => trace (upd buf i v) p'
  | R i :: p' => buf i :: trace buf p'
  end.

(* every cell is written before it is read *)
Fixpoint wbr (written : list nat) (p : list instr) : bool :=
  match p with
  | [] => true
  | W i _ :: p' => wbr (i :: written) p'
  | R i :: p' => mem i written && wbr written p'
  end.

(* np.divide(x, std, where = std != 0): writes only where the mask holds *)
Fixpoint masked_writes (i : nat) (x std : list val) : list instr :=
  match x, std with
  | a :: x', s :: std' =>
      (if Nat.eqb s 0 then [] else [W i (a / s)]) ++ masked_writes (S i) x' std'
  | _, _ => []
  end.
Definition read_all (n : nat) : list instr := map R (seq 0 n).
Definition zero_fill (n : nat) : list instr := map (fun i => W i 0) (seq 0 n).

(* what the unrepaired standardize did: the output of np.divide is np.empty *)
Definition divide_where_no_out (x std : list val) : list instr :=
  masked_writes 0 x std ++ read_all (length x).
(* the correct behaviour: out = np.zeros_like(x) *)
Definition divide_where_with_out (x std : list val) : list instr :=
  zero_fill (length x) ++ masked_writes 0 x std ++ read_all (length x).

(* ---- F11(b): MFPCA.fit and its configuration dictionary ----
   cell [cfg] holds the user's 'n_components' entry (0 = key absent -> default 5).
   The fit allocates [res] and stores there the number of components it used. *)
Definition used (v : val) : val := if Nat.eqb v 0 then 5 else v.
Definition fit_call (cfg res : loc) (s : store) : call :=
  mkC [cfg] [(res, used (s cfg))] [res] [res].
(* the defect: dict.pop() empties the user's dictionary *)
Definition fit_call_pop (cfg res : loc) (s : store) : call :=
  mkC [cfg] [(res, used (s cfg)); (cfg, 0)] [res] [res].
Definition fit_reads (cfg : loc) : fcall := mkF [cfg] (fun vs _ => map used vs).

(* ---- F11(c): BasisFunctionalData.center / standardize and the shared basis ----
   cells: [coef] coefficients and [basis] basis values of the input.
   center allocates new coefficients [coef'] and returns an object that SHARES [basis];
   standardize then assigns new basis values into the centred copy, in place. *)
Definition center_shared (coef basis coef' : loc) (s : store) : event :=
  Pure (mkC [coef; basis] [(coef', s coef)] [coef'] [coef'; basis]).
Definition rescale_basis_inplace (basis : loc) (v : val) : event := Mutate [(basis, v)].
(* the correct behaviour: the basis is copied before it is assigned *)
Definition center_copy (coef basis coef' basis' : loc) (s : store) : event :=
  Pure (mkC [coef; basis] [(coef', s coef); (basis', s basis)] [coef'; basis'] [coef'; basis']).
