(* Model/Rng.v — definitions only.  Discrete model of the random sources of a
   simulator (FDApy/simulation/simulation.py: Simulation.__init__ and the
   `if self.random_state is None: np.random.* else self.random_state.*` pattern).

   A stream is a function nat -> V (the RNG is an oracle: no assumption on the
   values).  [fam seed] is the stream of np.random.default_rng(seed).  The world
   holds the simulator's private generator (seed, position) if it was given a
   seed, and numpy's global legacy generator (stream, position).

   A simulator call is an ARBITRARY function [sem c f src] of the call, the
   simulator's current fields and the not yet consumed part of its source; it
   returns the new fields and how many values it consumed (the number may depend
   on the drawn values, as in sparsify's fallback). *)
From Coq Require Import List Arith.
Import ListNotations.

Section Rng.
  Context {V F C : Type}.
  Context (fam : nat -> nat -> V).                       (* seed |-> stream *)
  Context (sem : C -> F -> (nat -> V) -> F * nat).       (* one public call *)

  Record world := { priv : option (nat * nat); gstream : nat -> V; gpos : nat }.

  Definition seeded (seed : nat) (g : nat -> V) (gp : nat) : world :=
    {| priv := Some (seed, 0); gstream := g; gpos := gp |}.
  Definition unseeded (g : nat -> V) (gp : nat) : world :=
    {| priv := None; gstream := g; gpos := gp |}.

  (* what the next draws will return *)
  Definition source (w : world) : nat -> V :=
    match priv w with
    | Some (sd, p) => fun i => fam sd (p + i)
    | None => fun i => gstream w (gpos w + i)
    end.
  Definition consume (n : nat) (w : world) : world :=
    match priv w with
    | Some (sd, p) => {| priv := Some (sd, p + n); gstream := gstream w; gpos := gpos w |}
    | None => {| priv := None; gstream := gstream w; gpos := gpos w + n |}
    end.
  (* position in the simulator's own source *)
  Definition position (w : world) : nat :=
    match priv w with Some (_, p) => p | None => gpos w end.

  (* things that happen: a public call of the simulator, or somebody else using /
     reseeding numpy's global generator (np.random.seed(s); np.random.random(k)) *)
  Inductive event := Call (c : C) | Perturb (g : nat -> V) (gp : nat).

  Definition step (st : world * F) (e : event) : world * F :=
    match e with
    | Call c => let r := sem c (snd st) (source (fst st)) in (consume (snd r) (fst st), fst r)
    | Perturb g gp => ({| priv := priv (fst st); gstream := g; gpos := gp |}, snd st)
    end.

  (* outputs observed after every public call *)
  Fixpoint trace (evs : list event) : world * F -> list F :=
    match evs with
    | [] => fun _ => []
    | e :: evs' => fun st =>
        match e with
        | Call _ => snd (step st e) :: trace evs' (step st e)
        | Perturb _ _ => trace evs' (step st e)
        end
    end.
  Definition final_state (evs : list event) (st : world * F) : world * F := fold_left step evs st.

  Fixpoint calls_of (evs : list event) : list C :=
    match evs with
    | [] => []
    | Call c :: evs' => c :: calls_of evs'
    | Perturb _ _ :: evs' => calls_of evs'
    end.

  (* the function of (seed, call sequence) alone: no global generator in sight *)
  Fixpoint pure_trace (cs : list C) : nat -> nat -> F -> list F :=
    match cs with
    | [] => fun _ _ _ => []
    | c :: cs' => fun sd p f =>
        let r := sem c f (fun i => fam sd (p + i)) in
        fst r :: pure_trace cs' sd (p + snd r) (fst r)
    end.

  (* defect F12 (Datasets.new before the repair): the call ignores the private
     generator and draws from the global one *)
  Definition step_global (st : world * F) (e : event) : world * F :=
    match e with
    | Call c =>
        let w := fst st in
        let r := sem c (snd st) (fun i => gstream w (gpos w + i)) in
        ({| priv := priv w; gstream := gstream w; gpos := gpos w + snd r |}, fst r)
    | Perturb g gp => ({| priv := priv (fst st); gstream := g; gpos := gp |}, snd st)
    end.
  Fixpoint trace_global (evs : list event) : world * F -> list F :=
    match evs with
    | [] => fun _ => []
    | e :: evs' => fun st =>
        match e with
        | Call _ => snd (step_global st e) :: trace_global evs' (step_global st e)
        | Perturb _ _ => trace_global evs' (step_global st e)
        end
    end.
End Rng.

Arguments world : clear implicits.
Arguments event : clear implicits.
