(* Model/Arith.v — definitions only.
   Model of the arithmetic and of the equality of GridFunctionalData
   (FDApy/representation/functional_data.py: __add__ .. __floordiv__,
   _perform_computation, _perform_computation_number, _is_compatible, __eq__) and of
   `in` / remove on MultivariateFunctionalData (property C12).

   A dataset is
     Dense args vals : args = one grid per dimension, vals = one row per observation,
                       each row the values of that observation flattened in C order;
     Irreg obs       : per observation its own grids and its flattened values
                       (in the iteration order of the dictionaries).
   Polymorphic in the numeric type (theorems at opsR, execution at opsQ).
   [fd_eqb] is the REQUIRED equality (total, shape aware, looks at the values);
   [fd_eqb_defect] is what the unrepaired tree computed (finding F8). *)
From Coq Require Import List Bool.
From FDAV Require Import Base.Num Base.Vec.
From Param Require Import Param.
Import ListNotations.

Section All2.
  Context {A B : Type} (f : A -> B -> bool).
  (* both lists have the same length and f holds pairwise *)
  Fixpoint all2b (l : list A) : list B -> bool :=
    match l with
    | [] => fun m => match m with [] => true | _ :: _ => false end
    | a :: l' => fun m => match m with [] => false | b :: m' => f a b && all2b l' m' end
    end.
End All2.

Section RemoveAux.
  Context {X : Type} (eqf : X -> X -> bool).
  Fixpoint mv_remove_aux (l : list X) : X -> option (list X) :=
    match l with
    | [] => fun _ => None                              (* ValueError: x not in list *)
    | e :: l' => fun x =>
        if eqf e x then Some l'
        else match mv_remove_aux l' x with Some r => Some (e :: r) | None => None end
    end.
End RemoveAux.

Inductive bop := Add | Sub | Mul | Div.

Inductive fd (T : Type) :=
  | Dense (args : list (list T)) (vals : list (list T))
  | Irreg (obs : list (list (list T) * list T)).
Arguments Dense {T}. Arguments Irreg {T}.

Inductive result (T : Type) := Res (r : fd T) | ErrType | ErrValue.
Arguments Res {T}. Arguments ErrType {T}. Arguments ErrValue {T}.

Section Arith.
  Context {T : Type} (o : ops T).

  Definition apply_bop (f : bop) (x y : T) : T :=
    match f with
    | Add => oadd o x y | Sub => osub o x y | Mul => omul o x y | Div => odiv o x y
    end.

  (* np.array_equal on 1-D grids; DenseArgvals.__eq__ *)
  Definition vec_eqb : list T -> list T -> bool := all2b (oeqb o).
  Definition args_eqb : list (list T) -> list (list T) -> bool := all2b vec_eqb.

  Definition is_dense (a : fd T) : bool := match a with Dense _ _ => true | Irreg _ => false end.
  Definition same_kind (a b : fd T) : bool :=
    match a, b with Dense _ _, Dense _ _ => true | Irreg _, Irreg _ => true | _, _ => false end.
  Definition n_obs (a : fd T) : nat :=
    match a with Dense _ v => length v | Irreg ob => length ob end.
  Definition n_dim (a : fd T) : nat :=
    match a with
    | Dense ar _ => length ar
    | Irreg ob => match ob with [] => 0 | x :: _ => length (fst x) end
    end.
  (* the sampling points: dense = one entry, irregular = one entry per observation *)
  Definition sampling (a : fd T) : list (list (list T)) :=
    match a with Dense ar _ => [ar] | Irreg ob => map fst ob end.
  Definition values (a : fd T) : list (list T) :=
    match a with Dense _ v => v | Irreg ob => map snd ob end.
  Definition sampling_eqb (a b : fd T) : bool := all2b args_eqb (sampling a) (sampling b).

  (* _is_compatible: type, number of observations, dimension, argvals — in this order *)
  Definition compatible (a b : fd T) : option (result T) :=
    if negb (same_kind a b) then Some ErrType
    else if negb (Nat.eqb (n_obs a) (n_obs b)) then Some ErrValue
    else if negb (Nat.eqb (n_dim a) (n_dim b)) then Some ErrValue
    else if negb (sampling_eqb a b) then Some ErrValue
    else None.

  (* the pointwise combination itself (no check) *)
  Definition combine_vals (f : bop) (a b : fd T) : fd T :=
    match a, b with
    | Dense ar av, Dense _ bv => Dense ar (map2 (map2 (apply_bop f)) av bv)
    | Irreg ao, Irreg bo =>
        Irreg (map2 (fun x y => (fst x, map2 (apply_bop f) (snd x) (snd y))) ao bo)
    | _, _ => a
    end.
  Definition binop (f : bop) (a b : fd T) : result T :=
    match compatible a b with
    | Some e => e
    | None => Res (combine_vals f a b)
    end.
  (* operands are values: the operation returns them untouched next to the result *)
  Definition binop_full (f : bop) (a b : fd T) : fd T * fd T * result T := (a, b, binop f a b).

  (* a (+,-,*,/) c for a Python int / float c *)
  Definition scalar_op (f : bop) (a : fd T) (c : T) : fd T :=
    match a with
    | Dense ar av => Dense ar (map (map (fun x => apply_bop f x c)) av)
    | Irreg ao => Irreg (map (fun x => (fst x, map (fun v => apply_bop f v c) (snd x))) ao)
    end.

  (* np.allclose(a, b): |a - b| <= atol + rtol * |b|, on arrays of the SAME shape *)
  Definition close (rtol atol x y : T) : bool :=
    oleb o (oabs o (osub o x y)) (oadd o atol (omul o rtol (oabs o y))).
  Definition fd_eqb (rtol atol : T) (a b : fd T) : bool :=
    same_kind a b && sampling_eqb a b &&
    all2b (all2b (close rtol atol)) (values a) (values b).

  (* x in l : any(e == x for e in l) ; l.remove(x) : delete the first e with e == x *)
  Definition mv_mem (rtol atol : T) (x : fd T) (l : list (fd T)) : bool :=
    existsb (fun e => fd_eqb rtol atol e x) l.
  Definition mv_remove (rtol atol : T) (l : list (fd T)) (x : fd T) : option (list (fd T)) :=
    mv_remove_aux (fd_eqb rtol atol) l x.

  (* ---- the unrepaired equality (finding F8); None = an exception escapes ---- *)
  Definition same_shape (u v : list (list T)) : bool :=
    all2b (fun r s => Nat.eqb (length r) (length s)) u v.
  Definition fd_eqb_defect (rtol atol : T) (a b : fd T) : option bool :=
    match a, b with
    | Dense ar av, Dense br bv =>
        (* (argvals == argvals) & np.allclose(values, values): allclose raises on shapes
           that do not broadcast *)
        if same_shape av bv then Some (args_eqb ar br && all2b (all2b (close rtol atol)) av bv)
        else None
    | Irreg ao, Irreg bo =>
        (* np.allclose on the two dictionaries never looks at the numbers *)
        if Nat.eqb (length ao) (length bo) then Some (all2b args_eqb (map fst ao) (map fst bo))
        else None
    | _, _ => None
    end.
  Fixpoint mv_remove_defect (rtol atol : T) (l : list (fd T)) : fd T -> option (option (list (fd T))) :=
    match l with
    | [] => fun _ => Some None
    | e :: l' => fun x =>
        match fd_eqb_defect rtol atol e x with
        | None => None                                  (* the comparison raised *)
        | Some true => Some (Some l')
        | Some false => match mv_remove_defect rtol atol l' x with
                        | Some (Some r) => Some (Some (e :: r))
                        | other => other
                        end
        end
    end.
End Arith.

Parametricity Recursive all2b.
Parametricity Recursive mv_remove_aux.
Parametricity Recursive bop.
Parametricity Recursive fd.
Parametricity Recursive result.
Parametricity Recursive binop.
Parametricity Recursive scalar_op.
Parametricity Recursive fd_eqb.
Parametricity Recursive mv_mem.
Parametricity Recursive mv_remove.
