(* Model/Container.v — definitions only.
   Abstract state machine of the FDApy containers (property C11):
   DenseFunctionalData, IrregularFunctionalData, MultivariateFunctionalData
   (FDApy/representation/functional_data.py) with the typed dictionaries of
   argvals.py / values.py.

   The abstract state keeps SHAPES and IDENTITY TOKENS only:
     dense      : per dimension (grid token, number of points); shape of the
                  values array (n_obs, trailing shape); n_points of argvals_stand
     irregular  : label |-> tuple of numbers of points, for argvals, values, argvals_stand
                  (Python dictionaries: association lists with distinct labels,
                  in iteration order)
     multivariate : list of (identity token, abstract component)
   [step] describes the REQUIRED behaviour: every guard the property asks for is
   present (in particular extend / insert / argvals_stand, finding F7).
   [step_defect] is the behaviour of the unrepaired tree for those three. *)
From Coq Require Import List Bool ZArith.
Import ListNotations.
Local Open Scope Z_scope.

(* ---------------------------------------------------------------- helpers *)
Fixpoint list_eqb {A : Type} (e : A -> A -> bool) (l m : list A) : bool :=
  match l, m with
  | [], [] => true
  | a :: l', b :: m' => e a b && list_eqb e l' m'
  | _, _ => false
  end.
Definition natl_eqb : list nat -> list nat -> bool := list_eqb Nat.eqb.

(* Python: l[i] / l.pop(i) for a list of length n; None = IndexError *)
Definition norm_index (n : nat) (i : Z) : option nat :=
  let n' := Z.of_nat n in
  if (0 <=? i) && (i <? n') then Some (Z.to_nat i)
  else if (- n' <=? i) && (i <? 0) then Some (Z.to_nat (i + n'))
  else None.

(* Python: l.insert(i, x) never fails; the position is clamped *)
Definition insert_pos (n : nat) (i : Z) : nat :=
  let n' := Z.of_nat n in
  Z.to_nat (if i <? 0 then Z.max 0 (i + n') else Z.min i n').

Definition insert_at {A : Type} (k : nat) (x : A) (l : list A) : list A :=
  firstn k l ++ x :: skipn k l.
Definition remove_at {A : Type} (k : nat) (l : list A) : list A :=
  firstn k l ++ skipn (S k) l.

(* Python: range over slice(start, stop, step).indices(n), step <> 0
   (CPython PySlice_AdjustIndices) *)
Definition adjust (len step i : Z) : Z :=
  if i <? 0 then
    (if i + len <? 0 then (if step <? 0 then -1 else 0) else i + len)
  else if len <=? i then (if step <? 0 then len - 1 else len)
  else i.
Definition slice_range (n : nat) (start stop : option Z) (step : Z) : list nat :=
  let len := Z.of_nat n in
  let s := match start with Some a => adjust len step a
                          | None => if step <? 0 then len - 1 else 0 end in
  let e := match stop with Some b => adjust len step b
                         | None => if step <? 0 then -1 else len end in
  let cnt := if 0 <? step then (if s <? e then (e - s + step - 1) / step else 0)
             else (if e <? s then (s - e - step - 1) / (- step) else 0) in
  map (fun k => Z.to_nat (s + Z.of_nat k * step)) (seq 0 (Z.to_nat cnt)).

(* ---------------------------------------------------------- Python dicts *)
Definition lshape := (nat * list nat)%type.       (* label |-> tuple *)

Fixpoint lookup {A : Type} (k : nat) (l : list (nat * A)) : option A :=
  match l with
  | [] => None
  | (k', v) :: l' => if Nat.eqb k k' then Some v else lookup k l'
  end.
(* d[k] = v : overwrite in place, or append *)
Fixpoint dict_set {A : Type} (k : nat) (v : A) (l : list (nat * A)) : list (nat * A) :=
  match l with
  | [] => [(k, v)]
  | (k', v') :: l' => if Nat.eqb k k' then (k, v) :: l' else (k', v') :: dict_set k v l'
  end.
(* a == b for dictionaries label |-> tuple (distinct labels): mutual inclusion *)
Definition dict_sub (a b : list lshape) : bool :=
  forallb (fun p => match lookup (fst p) b with
                    | Some s => natl_eqb s (snd p)
                    | None => false end) a.
Definition dict_eqb (a b : list lshape) : bool := dict_sub a b && dict_sub b a.

(* [d.get(k) for k in ks], None when a label is missing *)
Fixpoint gets (ks : list nat) (d : list lshape) : option (list lshape) :=
  match ks with
  | [] => Some []
  | k :: ks' => match lookup k d, gets ks' d with
                | Some s, Some r => Some ((k, s) :: r)
                | _, _ => None
                end
  end.
(* keys of {k: ... for k in ks}: first occurrences, in order *)
Fixpoint dedup_first (seen ks : list nat) : list nat :=
  match ks with
  | [] => []
  | k :: ks' => if existsb (Nat.eqb k) seen then dedup_first seen ks'
                else k :: dedup_first (k :: seen) ks'
  end.
(* Irregular{Argvals,Values}.concatenate: new[len(new) + key] = value, len taken per operand *)
Definition concat_dicts (ds : list (list lshape)) : list lshape :=
  fold_left (fun acc d =>
               let t := length acc in
               fold_left (fun acc' p => dict_set (t + fst p)%nat (snd p) acc') d acc)
            ds [].

(* --------------------------------------------------------- abstract data *)
Definition axis := (nat * nat)%type.   (* (token of the grid content, number of points) *)
Definition axis_eqb (a b : axis) : bool := Nat.eqb (fst a) (fst b) && Nat.eqb (snd a) (snd b).

Record dense := mkd { dpts : list axis; dshape : nat * list nat; dstand : list nat }.
Record irr := mki { iargs : list lshape; ivals : list lshape; istand : list lshape }.
Inductive gobj := GD (d : dense) | GI (i : irr).
Definition comp := (nat * gobj)%type.             (* identity token, component *)
Inductive obj := OD (d : dense) | OI (i : irr) | OM (m : list comp).

(* arguments offered to constructors and setters *)
Inductive aspec :=
  | ADense (p : list axis)          (* a DenseArgvals *)
  | AIrr (p : list lshape)          (* an IrregularArgvals *)
  | AWrong.                         (* not an Argvals, or a typed dictionary that rejects its items *)
Inductive vspec :=
  | VDense (s : nat * list nat)     (* a DenseValues of that shape *)
  | VIrr (p : list lshape)          (* an IrregularValues *)
  | VWrong.
Inductive index :=
  | IxInt (i : Z)
  | IxSlice (start stop step : option Z)
  | IxArr (l : list Z).
Inductive cspec :=
  | CDense (a : aspec) (v : vspec)
  | CIrr (a : aspec) (v : vspec)
  | CMv (l : list comp).
Inductive op :=
  | Construct (c : cspec)
  | SetArgvals (a : aspec) | SetValues (v : vspec) | SetStand (a : aspec)
  | Index (ix : index)
  | Concat (others : list obj)
  | Append (c : comp) | Extend (l : list comp) | Insert (i : Z) (c : comp)
  | Remove (tok : nat) | Pop (i : Z) | Clear | Reverse.

Inductive outcome := Ok | TypeErr | ValueErr | LookupErr | NotApplicable.
Definition outcome_eqb (a b : outcome) : bool :=
  match a, b with
  | Ok, Ok | TypeErr, TypeErr | ValueErr, ValueErr | LookupErr, LookupErr
  | NotApplicable, NotApplicable => true
  | _, _ => false
  end.

(* ------------------------------------------------------------ dense data *)
Definition d_npoints (d : dense) : list nat := map snd (dpts d).

(* DenseFunctionalData(argvals, values): argvals setter (type), values setter (type, n_points) *)
Definition d_construct (a : aspec) (v : vspec) : option dense * outcome :=
  match a, v with
  | ADense p, VDense s =>
      if natl_eqb (map snd p) (snd s) then (Some (mkd p s (map snd p)), Ok)
      else (None, ValueErr)
  | _, _ => (None, TypeErr)
  end.
Definition d_setargs (d : dense) (a : aspec) : dense * outcome :=
  match a with
  | ADense p => if natl_eqb (snd (dshape d)) (map snd p)
                then (mkd p (dshape d) (map snd p), Ok) else (d, ValueErr)
  | _ => (d, TypeErr)
  end.
Definition d_setvals (d : dense) (v : vspec) : dense * outcome :=
  match v with
  | VDense s => if natl_eqb (d_npoints d) (snd s)
                then (mkd (dpts d) s (dstand d), Ok) else (d, ValueErr)
  | _ => (d, TypeErr)
  end.
(* REQUIRED behaviour: the standardised sampling points must have the n_points of argvals *)
Definition d_setstand (d : dense) (a : aspec) : dense * outcome :=
  match a with
  | ADense p => if natl_eqb (map snd p) (d_npoints d)
                then (mkd (dpts d) (dshape d) (map snd p), Ok) else (d, ValueErr)
  | AIrr _ => (d, ValueErr)
  | AWrong => (d, TypeErr)
  end.
Definition d_setstand_defect (d : dense) (a : aspec) : dense * outcome :=
  match a with
  | ADense p => (mkd (dpts d) (dshape d) (map snd p), Ok)
  | AIrr _ => (d, ValueErr)
  | AWrong => (d, TypeErr)
  end.

Definition in_range (n : nat) (i : Z) : bool :=
  match norm_index n i with Some _ => true | None => false end.

(* number of selected observations of values[index] (NumPy), or the error *)
Definition sel_count (n : nat) (ix : index) : option nat * outcome :=
  match ix with
  | IxInt i => if in_range n i then (Some 1%nat, Ok) else (None, LookupErr)
  | IxSlice a b c =>
      match c with
      | Some 0 => (None, ValueErr)
      | _ => (Some (length (slice_range n a b (match c with Some s => s | None => 1 end))), Ok)
      end
  | IxArr l => if forallb (in_range n) l then (Some (length l), Ok) else (None, LookupErr)
  end.
Definition d_index (d : dense) (ix : index) : option dense * outcome :=
  match sel_count (fst (dshape d)) ix with
  | (Some k, _) => d_construct (ADense (dpts d)) (VDense (k, snd (dshape d)))
  | (None, e) => (None, e)
  end.

(* ------------------------------------------------------- irregular data *)
Definition i_construct (a : aspec) (v : vspec) : option irr * outcome :=
  match a, v with
  | AIrr p, VIrr q => if dict_eqb p q then (Some (mki p q p), Ok) else (None, ValueErr)
  | _, _ => (None, TypeErr)
  end.
Definition i_setargs (i : irr) (a : aspec) : irr * outcome :=
  match a with
  | AIrr p => if dict_eqb (ivals i) p then (mki p (ivals i) p, Ok) else (i, ValueErr)
  | _ => (i, TypeErr)
  end.
Definition i_setvals (i : irr) (v : vspec) : irr * outcome :=
  match v with
  | VIrr q => if dict_eqb (iargs i) q then (mki (iargs i) q (istand i), Ok) else (i, ValueErr)
  | _ => (i, TypeErr)
  end.
Definition i_setstand (i : irr) (a : aspec) : irr * outcome :=
  match a with
  | AIrr p => if dict_eqb p (iargs i) then (mki (iargs i) (ivals i) p, Ok) else (i, ValueErr)
  | ADense _ => (i, ValueErr)
  | AWrong => (i, TypeErr)
  end.
Definition i_setstand_defect (i : irr) (a : aspec) : irr * outcome :=
  match a with
  | AIrr p => (mki (iargs i) (ivals i) p, Ok)
  | ADense _ => (i, ValueErr)
  | AWrong => (i, TypeErr)
  end.

Definition znat (l : list Z) : option (list nat) :=
  if forallb (fun z => 0 <=? z) l then Some (map Z.to_nat l) else None.
Definition i_select (i : irr) (ks : list nat) : option irr * outcome :=
  match gets ks (iargs i), gets ks (ivals i) with
  | Some p, Some q => i_construct (AIrr p) (VIrr q)
  | _, _ => (None, TypeErr)                 (* typed dictionary rejects None *)
  end.
Definition i_index (i : irr) (ix : index) : option irr * outcome :=
  match ix with
  | IxInt z =>
      if z <? 0 then (None, LookupErr) else
      let k := Z.to_nat z in
      match lookup k (iargs i), lookup k (ivals i) with
      | Some p, Some q => i_construct (AIrr [(k, p)]) (VIrr [(k, q)])
      | _, _ => (None, LookupErr)           (* KeyError *)
      end
  | IxSlice a b c =>
      match c with
      | Some 0 => (None, ValueErr)
      | _ => i_select i (slice_range (length (ivals i)) a b (match c with Some s => s | None => 1 end))
      end
  | IxArr l =>
      match znat l with
      | Some ks => i_select i (dedup_first [] ks)
      | None => (None, TypeErr)
      end
  end.
Definition i_ndim (i : irr) : nat :=
  match iargs i with [] => 0%nat | (_, s) :: _ => length s end.

(* ------------------------------------------- operations on grid objects *)
Definition g_nobs (g : gobj) : nat :=
  match g with GD d => fst (dshape d) | GI i => length (ivals i) end.
Definition g_ndim (g : gobj) : nat :=
  match g with GD d => length (dpts d) | GI i => i_ndim i end.
Definition is_dense (g : gobj) : bool := match g with GD _ => true | GI _ => false end.
Definition sum_nat (l : list nat) : nat := fold_right Nat.add 0%nat l.

Definition denses (l : list gobj) : list dense :=
  flat_map (fun g => match g with GD d => [d] | GI _ => [] end) l.
Definition irrs (l : list gobj) : list irr :=
  flat_map (fun g => match g with GI i => [i] | GD _ => [] end) l.

(* DenseFunctionalData.concatenate(d, *others) *)
Definition d_concat (d : dense) (others : list gobj) : option dense * outcome :=
  if negb (forallb is_dense others) then (None, TypeErr)
  else let ds := denses others in
  if negb (forallb (fun x => Nat.eqb (length (dpts x)) (length (dpts d))) ds) then (None, ValueErr)
  else if negb (forallb (fun x => list_eqb axis_eqb (dpts x) (dpts d)) ds) then (None, ValueErr)
  else if negb (forallb (fun x => natl_eqb (snd (dshape x)) (snd (dshape d))) ds) then (None, ValueErr)
  else d_construct (ADense (dpts d))
         (VDense (sum_nat (map (fun x => fst (dshape x)) (d :: ds)), snd (dshape d))).

(* IrregularFunctionalData.concatenate(i, *others) *)
Definition i_concat (i : irr) (others : list gobj) : option irr * outcome :=
  if negb (forallb (fun g => negb (is_dense g)) others) then (None, TypeErr)
  else let is := irrs others in
  if negb (forallb (fun x => Nat.eqb (i_ndim x) (i_ndim i)) is) then (None, ValueErr)
  else i_construct (AIrr (concat_dicts (map iargs (i :: is))))
                   (VIrr (concat_dicts (map ivals (i :: is)))).

Definition lift_d (r : option dense * outcome) : option gobj * outcome :=
  match r with (Some d, o) => (Some (GD d), o) | (None, o) => (None, o) end.
Definition lift_i (r : option irr * outcome) : option gobj * outcome :=
  match r with (Some i, o) => (Some (GI i), o) | (None, o) => (None, o) end.
Definition g_index (g : gobj) (ix : index) : option gobj * outcome :=
  match g with GD d => lift_d (d_index d ix) | GI i => lift_i (i_index i ix) end.
Definition g_concat (g : gobj) (others : list gobj) : option gobj * outcome :=
  match g with GD d => lift_d (d_concat d others) | GI i => lift_i (i_concat i others) end.

(* ---------------------------------------------------- multivariate data *)
(* FunctionalData._check_same_nobs *)
Definition same_nobs (l : list comp) : bool :=
  match l with
  | [] => true
  | c :: r => forallb (fun x => Nat.eqb (g_nobs (snd x)) (g_nobs (snd c))) r
  end.
Fixpoint find_tok (t : nat) (l : list comp) : option nat :=
  match l with
  | [] => None
  | c :: l' => if Nat.eqb (fst c) t then Some 0%nat
               else match find_tok t l' with Some k => Some (S k) | None => None end
  end.
(* evaluate a list of fallible results in order; the first error wins *)
Fixpoint collect (l : list (option gobj * outcome)) : option (list comp) * outcome :=
  match l with
  | [] => (Some [], Ok)
  | (Some g, _) :: l' => match collect l' with
                         | (Some r, o) => (Some ((0%nat, g) :: r), o)
                         | (None, e) => (None, e)
                         end
  | (None, e) :: _ => (None, e)
  end.
Definition m_construct (l : list comp) : option (list comp) * outcome :=
  if same_nobs l then (Some l, Ok) else (None, ValueErr).
Definition m_append (m : list comp) (c : comp) : list comp * outcome :=
  match m with
  | [] => ([c], Ok)
  | _ => if same_nobs (m ++ [c]) then (m ++ [c], Ok) else (m, ValueErr)
  end.
(* REQUIRED behaviour of extend / insert: same guard as append *)
Definition m_extend (m l : list comp) : list comp * outcome :=
  if same_nobs (m ++ l) then (m ++ l, Ok) else (m, ValueErr).
Definition m_insert (m : list comp) (i : Z) (c : comp) : list comp * outcome :=
  if same_nobs (m ++ [c]) then (insert_at (insert_pos (length m) i) c m, Ok) else (m, ValueErr).
Definition m_extend_defect (m l : list comp) : list comp * outcome := (m ++ l, Ok).
Definition m_insert_defect (m : list comp) (i : Z) (c : comp) : list comp * outcome :=
  (insert_at (insert_pos (length m) i) c m, Ok).
Definition m_remove (m : list comp) (t : nat) : list comp * outcome :=
  match find_tok t m with Some k => (remove_at k m, Ok) | None => (m, ValueErr) end.
Definition m_pop (m : list comp) (i : Z) : list comp * outcome :=
  match norm_index (length m) i with Some k => (remove_at k m, Ok) | None => (m, LookupErr) end.
Definition m_index (m : list comp) (ix : index) : option (list comp) * outcome :=
  match collect (map (fun c => g_index (snd c) ix) m) with
  | (Some l, _) => m_construct l
  | (None, e) => (None, e)
  end.
Definition dummy_g : gobj := GD (mkd [] (0%nat, []) []).
Definition m_concat (m : list comp) (others : list (list comp)) : option (list comp) * outcome :=
  if negb (forallb same_nobs others) then (None, ValueErr)   (* building an operand already fails *)
  else if negb (forallb (fun o => Nat.eqb (length o) (length m)) others) then (None, ValueErr)
  else match collect (map (fun k => g_concat (snd (nth k m (0%nat, dummy_g)))
                                     (map (fun o => snd (nth k o (0%nat, dummy_g))) others))
                          (seq 0 (length m))) with
       | (Some l, _) => m_construct l
       | (None, e) => (None, e)
       end.

(* ------------------------------------------------------- the state machine *)
Definition keep {A : Type} (s : obj) (inj : A -> obj) (r : option A * outcome) : obj * outcome :=
  match r with (Some x, o) => (inj x, o) | (None, e) => (s, e) end.
Definition as_gobjs (l : list obj) : option (list gobj) :=
  fold_right (fun o acc => match o, acc with
                           | OD d, Some r => Some (GD d :: r)
                           | OI i, Some r => Some (GI i :: r)
                           | _, _ => None end) (Some []) l.
Definition as_mvs (l : list obj) : option (list (list comp)) :=
  fold_right (fun o acc => match o, acc with
                           | OM m, Some r => Some (m :: r)
                           | _, _ => None end) (Some []) l.

Definition construct (s : obj) (c : cspec) : obj * outcome :=
  match c with
  | CDense a v => keep s OD (d_construct a v)
  | CIrr a v => keep s OI (i_construct a v)
  | CMv l => keep s OM (m_construct l)
  end.

Section Step.
  (* the three guards finding F7 is about are parameters, so that the required and
     the unrepaired behaviour share every other line *)
  Variable dstand_f : dense -> aspec -> dense * outcome.
  Variable istand_f : irr -> aspec -> irr * outcome.
  Variable extend_f : list comp -> list comp -> list comp * outcome.
  Variable insert_f : list comp -> Z -> comp -> list comp * outcome.

  Definition step_gen (s : obj) (o : op) : obj * outcome :=
    match o with
    | Construct c => construct s c
    | _ =>
      match s with
      | OD d =>
          match o with
          | SetArgvals a => let (d', r) := d_setargs d a in (OD d', r)
          | SetValues v => let (d', r) := d_setvals d v in (OD d', r)
          | SetStand a => let (d', r) := dstand_f d a in (OD d', r)
          | Index ix => keep s OD (d_index d ix)
          | Concat others =>
              match as_gobjs others with
              | Some gs => keep s OD (d_concat d gs)
              | None => (s, TypeErr)
              end
          | _ => (s, NotApplicable)
          end
      | OI i =>
          match o with
          | SetArgvals a => let (i', r) := i_setargs i a in (OI i', r)
          | SetValues v => let (i', r) := i_setvals i v in (OI i', r)
          | SetStand a => let (i', r) := istand_f i a in (OI i', r)
          | Index ix => keep s OI (i_index i ix)
          | Concat others =>
              match as_gobjs others with
              | Some gs => keep s OI (i_concat i gs)
              | None => (s, TypeErr)
              end
          | _ => (s, NotApplicable)
          end
      | OM m =>
          match o with
          | Index ix => keep s OM (m_index m ix)
          | Concat others =>
              match as_mvs others with
              | Some ms => keep s OM (m_concat m ms)
              | None => (s, NotApplicable)
              end
          | Append c => let (m', r) := m_append m c in (OM m', r)
          | Extend l => let (m', r) := extend_f m l in (OM m', r)
          | Insert i c => let (m', r) := insert_f m i c in (OM m', r)
          | Remove t => let (m', r) := m_remove m t in (OM m', r)
          | Pop i => let (m', r) := m_pop m i in (OM m', r)
          | Clear => (OM [], Ok)
          | Reverse => (OM (rev m), Ok)
          | _ => (s, NotApplicable)
          end
      end
    end.
End Step.

Definition step : obj -> op -> obj * outcome :=
  step_gen d_setstand i_setstand m_extend m_insert.
Definition step_defect : obj -> op -> obj * outcome :=
  step_gen d_setstand_defect i_setstand_defect m_extend_defect m_insert_defect.

Definition init : obj := OM [].
Definition run_with (st : obj -> op -> obj * outcome) (s : obj) (ops : list op) : obj :=
  fold_left (fun s o => fst (st s o)) ops s.
Definition run : obj -> list op -> obj := run_with step.
Definition run_defect : obj -> list op -> obj := run_with step_defect.

(* ---------------------------------------------------------- the invariant *)
Definition Inv_d (d : dense) : Prop :=
  snd (dshape d) = d_npoints d /\ dstand d = d_npoints d.
(* the three dictionaries map every label to the same tuple *)
Definition Inv_i (i : irr) : Prop :=
  (forall k, lookup k (iargs i) = lookup k (ivals i)) /\
  (forall k, lookup k (istand i) = lookup k (iargs i)).
Definition Inv_m (m : list comp) : Prop :=
  forall c c', In c m -> In c' m -> g_nobs (snd c) = g_nobs (snd c').
Definition Inv (s : obj) : Prop :=
  match s with OD d => Inv_d d | OI i => Inv_i i | OM m => Inv_m m end.
(* executable form (used for the refutation witnesses and by the Tie) *)
Definition inv_b (s : obj) : bool :=
  match s with
  | OD d => natl_eqb (snd (dshape d)) (d_npoints d) && natl_eqb (dstand d) (d_npoints d)
  | OI i => dict_eqb (iargs i) (ivals i) && dict_eqb (istand i) (iargs i)
  | OM m => same_nobs m
  end.

(* ------------------------------------------------------------- observers *)
(* what the classes report (read from ONE of the redundant fields, as the code does) *)
Definition n_obs (s : obj) : nat :=
  match s with
  | OD d => fst (dshape d)                         (* values.n_obs *)
  | OI i => length (ivals i)                       (* len(values) *)
  | OM m => match m with [] => 0%nat | c :: _ => g_nobs (snd c) end   (* data[0].n_obs *)
  end.
Definition flat (l : list lshape) : list (list nat) := map (fun p => fst p :: snd p) l.
Definition g_npoints (g : gobj) : list (list nat) :=
  match g with GD d => [d_npoints d] | GI i => flat (iargs i) end.
Definition n_points (s : obj) : list (list (list nat)) :=
  match s with
  | OD d => [[d_npoints d]]                        (* argvals.n_points *)
  | OI i => [flat (iargs i)]
  | OM m => map (fun c => g_npoints (snd c)) m
  end.
Definition n_dimension (s : obj) : list nat :=
  match s with
  | OD d => [length (dpts d)]
  | OI i => [i_ndim i]
  | OM m => map (fun c => g_ndim (snd c)) m
  end.
Definition n_functional (s : obj) : nat :=
  match s with OM m => length m | _ => 0%nat end.
(* the same quantities read from the OTHER fields / from a plain list of rows *)
Definition values_npoints (s : obj) : list (list (list nat)) :=
  match s with
  | OD d => [[snd (dshape d)]]
  | OI i => [flat (ivals i)]
  | OM m => map (fun c => match snd c with GD d => [snd (dshape d)] | GI i => flat (ivals i) end) m
  end.
Definition stand_npoints (s : obj) : list (list (list nat)) :=
  match s with
  | OD d => [[dstand d]]
  | OI i => [flat (istand i)]
  | OM m => map (fun c => match snd c with GD d => [dstand d] | GI i => flat (istand i) end) m
  end.
Definition tokens (s : obj) : list nat :=
  match s with OM m => map fst m | _ => [] end.
Definition kind_tag (s : obj) : nat :=
  match s with OD _ => 0%nat | OI _ => 1%nat | OM _ => 2%nat end.

(* ------------------------------------------ the plain Python-list model *)
(* what the accepted operations do to a plain list of components, no guard at all *)
Definition plain_step (l : list comp) (o : op) : list comp :=
  match o with
  | Construct (CMv l') => l'
  | Append c => l ++ [c]
  | Extend l' => l ++ l'
  | Insert i c => insert_at (insert_pos (length l) i) c l
  | Remove t => match find_tok t l with Some k => remove_at k l | None => l end
  | Pop i => match norm_index (length l) i with Some k => remove_at k l | None => l end
  | Clear => []
  | Reverse => rev l
  | _ => l
  end.
(* list-style operations: those whose effect on a multivariate object is the plain list effect *)
Definition list_op (o : op) : bool :=
  match o with
  | Construct (CMv _) | Append _ | Extend _ | Insert _ _ | Remove _ | Pop _ | Clear | Reverse => true
  | _ => false
  end.
(* the operations of a history that were accepted *)
Fixpoint accepted (s : obj) (ops : list op) : list op :=
  match ops with
  | [] => []
  | o :: ops' => let (s', r) := step s o in
                 (match r with Ok => [o] | _ => [] end) ++ accepted s' ops'
  end.
Definition comps (s : obj) : list comp := match s with OM m => m | _ => [] end.
