(* Model/Simul.v — definitions only.  Structure of the simulated data
   (FDApy/simulation/karhunen.py, brownian.py).

   * Karhunen-Loève data = coefficients x basis (rows of [basis] are the basis
     functions on the grid), the same coefficients for every component;
   * cluster labels: in-order split of 0..n-1 into k groups, the first (n mod k)
     groups one larger (what _make_coef does);
   * the named eigenvalue families.  linear, quadratic, inverse use field
     operations only: polymorphic in [ops T], executed at Q.  exponential, sqrt,
     wiener are functions of Coq's Reals (exp, sqrt, PI);
   * Brownian recurrences (the normal draws, np.sqrt and np.exp are oracles) and
     the regular-grid decision of Brownian.new (np.isclose). *)
From Coq Require Import List Bool Arith Reals.
From FDAV Require Import Base.Num Base.Vec.
From Param Require Import Param.
Import ListNotations.

(* ---------- cluster labels (discrete) ---------- *)
Definition group_size (n k idx : nat) : nat := n / k + (if idx <? n mod k then 1 else 0).
Definition labels (n k : nat) : list nat :=
  flat_map (fun idx => repeat idx (group_size n k idx)) (seq 0 k).

Section Simul.
  Context {T : Type} (o : ops T).

  (* ---------- Karhunen-Loève ---------- *)
  (* curve i = sum_k coef[i][k] * basis[k]   (m = number of grid points) *)
  Definition kl_data (m : nat) (coef basis : list (list T)) : list (list T) :=
    map (mtv o m basis) coef.
  Definition kl_multi (ms : list nat) (coef : list (list T)) (bases : list (list (list T))) :
    list (list (list T)) := map2 (fun m b => kl_data m coef b) ms bases.
  (* column j of a matrix given by rows *)
  Definition column (j : nat) (A : list (list T)) : list T := map (fun r => nth j r (o0 o)) A.

  (* ---------- eigenvalue families expressible with field operations ---------- *)
  (* (n - k + 1) / n for k = 1..n, i.e. j / n for j = n, n-1, ..., 1 *)
  Definition eigf_linear (n j : nat) : T := odiv o (oofnat o j) (oofnat o n).
  Definition eigf_inverse (k : nat) : T := odiv o (o1 o) (oofnat o k).
  Definition eigf_quadratic (k : nat) : T := odiv o (o1 o) (omul o (oofnat o k) (oofnat o k)).
  Definition eig_linear (n : nat) : list T := map (eigf_linear n) (rev (seq 1 n)).
  Definition eig_inverse (n : nat) : list T := map eigf_inverse (seq 1 n).
  Definition eig_quadratic (n : nat) : list T := map eigf_quadratic (seq 1 n).

  (* ---------- Brownian motions ---------- *)
  (* standard: v0 = init, v(i+1) = v(i) + sd * z(i)   (sd = sqrt(delta), z = the draws) *)
  Fixpoint walk_from (sd : T) (zs : list T) : T -> list T :=
    match zs with
    | [] => fun a => [a]
    | z :: zs' => fun a => a :: walk_from sd zs' (oadd o a (omul o sd z))
    end.
  Definition std_brownian (init sd : T) (zs : list T) : list T := walk_from sd zs init.
  (* geometric: init * cumprod(es), es = exp(...) handed over as oracle values *)
  Fixpoint cumprod_from (es : list T) : T -> list T :=
    match es with
    | [] => fun _ => []
    | e :: es' => fun a => omul o a e :: cumprod_from es' (omul o a e)
    end.
  Definition geo_brownian (init : T) (es : list T) : list T := cumprod_from es init.
  (* the exponent the code hands to np.exp *)
  Definition geo_exponents (mu sigma delta : T) (zs : list T) : list T :=
    map (fun z => oadd o (omul o (osub o mu (ohalf o (omul o sigma sigma))) delta) (omul o sigma z)) zs.
  (* delta = (max - min) / size *)
  Definition vmax (xs : list T) : T := match xs with [] => o0 o | x :: r => fold_left (omax o) r x end.
  Definition vmin (xs : list T) : T := match xs with [] => o0 o | x :: r => fold_left (omin o) r x end.
  Definition brownian_delta (xs : list T) : T :=
    odiv o (osub o (vmax xs) (vmin xs)) (oofnat o (length xs)).

  (* ---------- regular-grid decision: np.all(np.isclose(diff, diff[0])) ---------- *)
  Definition isclose (rtol atol a b : T) : bool :=
    oleb o (oabs o (osub o a b)) (oadd o atol (omul o rtol (oabs o b))).
  Definition diffs (xs : list T) : list T := map2 (osub o) (tl xs) xs.
  Definition regular_grid (rtol atol : T) (xs : list T) : bool :=
    match diffs xs with
    | [] => true
    | d0 :: ds => forallb (fun d => isclose rtol atol d d0) (d0 :: ds)
    end.
  (* Brownian.new: argvals=None uses the default regular grid *)
  Definition brownian_accepts (rtol atol : T) (argvals : option (list T)) : bool :=
    match argvals with None => true | Some xs => regular_grid rtol atol xs end.
End Simul.

Parametricity Recursive kl_data.
Parametricity Recursive kl_multi.
Parametricity Recursive column.
Parametricity Recursive eig_linear.
Parametricity Recursive eig_inverse.
Parametricity Recursive eig_quadratic.
Parametricity Recursive std_brownian.
Parametricity Recursive geo_brownian.
Parametricity Recursive geo_exponents.
Parametricity Recursive brownian_delta.
Parametricity Recursive brownian_accepts.

(* ---------- transcendental eigenvalue families: Reals only ---------- *)
Local Open Scope R_scope.
Definition eigf_exponential (k : R) : R := exp (- k / 2).                 (* k = 0, 1, ... *)
Definition eigf_sqrt (k : R) : R := / sqrt k.                             (* k = 1, 2, ... *)
Definition eigf_wiener (k : R) : R := / ((PI / 2 * (2 * k - 1)) * (PI / 2 * (2 * k - 1))).
Definition eig_exponential (n : nat) : list R := map (fun k => eigf_exponential (INR k)) (seq 0 n).
Definition eig_sqrt (n : nat) : list R := map (fun k => eigf_sqrt (INR k)) (seq 1 n).
Definition eig_wiener (n : nat) : list R := map (fun k => eigf_wiener (INR k)) (seq 1 n).
