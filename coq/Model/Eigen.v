(* Model/Eigen.v — definitions only.
   Model of FDApy/misc/utils.py:_compute_eigen and _select_number_eigencomponents.
   The LAPACK solver is an oracle: it hands over a list of (eigenvalue,
   eigenvector) pairs in ARBITRARY order.  [compute_eigen] is the behaviour the
   property C01 requires (stable descending sort, clip, prefix);
   [compute_eigen_nosort] is what the unrepaired helper does (finding F1). *)
From Coq Require Import List Bool.
From FDAV Require Import Base.Num.
From Param Require Import Param.
Import ListNotations.

Inductive sel (T : Type) := SelAll | SelCount (k : nat) | SelFrac (p : T).
Arguments SelAll {T}. Arguments SelCount {T}. Arguments SelFrac {T}.

Section Eigen.
  Context {T : Type} (o : ops T).

  Definition clip1 (e : T) : T := if oleb o e (o0 o) then o0 o else e.
  Definition clip (spec : list (T * list T)) : list (T * list T) :=
    map (fun p => (clip1 (fst p), snd p)) spec.

  (* stable insertion sort, descending on the eigenvalue *)
  Fixpoint insert_desc (l : list (T * list T)) : T * list T -> list (T * list T) :=
    match l with
    | [] => fun p => [p]
    | q :: l' => fun p =>
        if oleb o (fst p) (fst q) then q :: insert_desc l' p else p :: q :: l'
    end.
  Definition sort_desc (l : list (T * list T)) : list (T * list T) :=
    fold_left insert_desc l [].

  Fixpoint cumsum_from (l : list T) : T -> list T :=
    match l with
    | [] => fun _ => []
    | x :: l' => fun a => oadd o a x :: cumsum_from l' (oadd o a x)
    end.
  Definition cumsum (l : list T) : list T := cumsum_from l (o0 o).
  Definition total (l : list T) : T := fold_left (oadd o) l (o0 o).
  Definition count_lt (x : T) (l : list T) : nat :=
    length (filter (fun c => oltb o c x) l).

  (* _select_number_eigencomponents, the fraction rule written without division:
     cumsum/total < p  <->  cumsum < p*total   (total > 0) *)
  Definition npc (s : sel T) (evs : list T) : nat :=
    match s with
    | SelAll => length evs
    | SelCount k => k
    | SelFrac p => S (count_lt (omul o p (total evs)) (cumsum evs))
    end.

  Definition select (s : sel T) (l : list (T * list T)) : list (T * list T) :=
    firstn (npc s (map fst l)) l.

  Definition compute_eigen (spec : list (T * list T)) (s : sel T) :=
    select s (clip (sort_desc spec)).

  (* the unrepaired helper: LAPACK order is kept *)
  Definition compute_eigen_nosort (spec : list (T * list T)) (s : sel T) :=
    select s (clip spec).

  (* order-preserving post-processing applied by the FPCA callers *)
  Definition scale_vec (c : T) (v : list T) : list T := map (omul o c) v.
  Definition post_scale_val (c : T) (l : list (T * list T)) :=
    map (fun p => (omul o c (fst p), snd p)) l.            (* l / n *)
  Definition post_map_vec (f : list T -> list T) (l : list (T * list T)) :=
    map (fun p => (fst p, f (snd p))) l.                   (* W^{-1/2} u, X^T v / sqrt l *)
End Eigen.

Parametricity Recursive sel.
Parametricity Recursive compute_eigen.
Parametricity Recursive compute_eigen_nosort.
Parametricity Recursive post_scale_val.
Parametricity Recursive post_map_vec.
