(* Model/Smooth.v — definitions only.  Prediction of a fitted smoother at user-chosen points (C07).
   The FIT DOMAIN is part of the fitted state; a prediction is a pointwise function of the state. *)
From Coq Require Import List Bool.
From FDAV Require Import Base.Num Base.Vec Model.Basis.
From Param Require Import Param.
Import ListNotations.

Section Smooth.
  Context {T : Type} (o : ops T).

  Record ps_state := { ps_beta : list T; ps_a : T; ps_b : T; ps_nseg : nat; ps_deg : nat }.

  (* one row of the design at a single point q *)
  Definition ps_row (a b : T) (nseg p : nat) (q : T) : list T :=
    let dx := odiv o (osub o b a) (oofnat o nseg) in
    map (fun j => bspl o p (knot o a dx p) j q) (seq 0 (nseg + p)).
  Definition ps_eval (st : ps_state) (q : T) : T :=
    dot o (ps_row (ps_a st) (ps_b st) (ps_nseg st) (ps_deg st) q) (ps_beta st).
  Definition ps_predict (st : ps_state) (Q : list T) : list T := map (ps_eval st) Q.

  (* the unrepaired behaviour (finding F6, fixed): the basis is rebuilt on the range of the QUERY *)
  Definition lmin (l : list T) (d : T) : T := fold_right (omin o) d l.
  Definition lmax (l : list T) (d : T) : T := fold_right (omax o) d l.
  Definition ps_predict_rebuild (st : ps_state) (Q : list T) : list T :=
    match Q with
    | [] => []
    | q0 :: _ =>
        let st' := {| ps_beta := ps_beta st; ps_a := lmin Q q0; ps_b := lmax Q q0;
                      ps_nseg := ps_nseg st; ps_deg := ps_deg st |} in
        map (ps_eval st') Q
    end.

  (* any pointwise smoother: the estimate at q is a function [at] of the data and q alone
     (local polynomials: the intercept of the local fit at q) *)
  Definition pointwise_predict {D : Type} (at_ : D -> T -> T) (data : D) (Q : list T) : list T :=
    map (at_ data) Q.
End Smooth.

Parametricity Recursive ps_state.
Parametricity Recursive ps_predict.
Parametricity Recursive ps_predict_rebuild.
