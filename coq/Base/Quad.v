(* Base/Quad.v — quadrature models (definitions only).
   trapz x y            : numpy.trapz(y, x)          = sum (x_{i+1}-x_i) (y_i+y_{i+1}) / 2
   trapz_w x            : FDApy _integration_weights(x, 'trapz')
                          = 0.5 * [x1-x0, x2-x0, x3-x1, ..., x_{m-1}-x_{m-3}, x_{m-1}-x_{m-2}]
   trapz2 x1 x2 Y       : FDApy _integrate(Y, x1, x2) = trapz over axis 0 then over the remaining axis *)
From Coq Require Import List Bool.
From FDAV Require Import Base.Num Base.Vec.
From Param Require Import Param.
Import ListNotations.

Section Quad.
  Context {T : Type} (o : ops T).

  Fixpoint trapz (x : list T) : list T -> T :=
    match x with
    | [] => fun _ => o0 o
    | a :: x' => fun y =>
        match x', y with
        | b :: _, ya :: ((yb :: _) as y') =>
            oadd o (ohalf o (omul o (osub o b a) (oadd o ya yb))) (trapz x' y')
        | _, _ => o0 o
        end
    end.

  (* interior weights (x_{i+1} - x_{i-1})/2 from a list with its predecessor *)
  Fixpoint trapz_w_from (x : list T) : T -> list T :=
    match x with
    | [] => fun _ => []
    | a :: x' => fun prev =>
        match x' with
        | [] => [ohalf o (osub o a prev)]
        | b :: _ => ohalf o (osub o b prev) :: trapz_w_from x' a
        end
    end.
  Definition trapz_w (x : list T) : list T :=
    match x with
    | a :: ((b :: _) as x') => ohalf o (osub o b a) :: trapz_w_from x' a
    | _ => []
    end.

  (* numpy.trapz over axis 0 of a matrix (rows indexed by x1), giving a vector *)
  Fixpoint trapz_rows (x : list T) : list (list T) -> nat -> list T :=
    match x with
    | [] => fun _ n => zeros o n
    | a :: x' => fun Y n =>
        match x', Y with
        | b :: _, ya :: ((yb :: _) as Y') =>
            vadd o (map (fun s => ohalf o (omul o (osub o b a) s)) (vadd o ya yb))
                   (trapz_rows x' Y' n)
        | _, _ => zeros o n
        end
    end.
  Definition trapz2 (x1 x2 : list T) (Y : list (list T)) : T :=
    trapz x2 (trapz_rows x1 Y (length x2)).

  Definition inner (x : list T) (f g : list T) : T := trapz x (vmul o f g).
  Definition normsq (x : list T) (f : list T) : T := inner x f f.
  Definition inner2 (x1 x2 : list T) (F G : list (list T)) : T :=
    trapz2 x1 x2 (map2 (vmul o) F G).

  (* Gram matrix as FDApy builds it: fill the upper triangle (i <= j), subtract the
     noise variance on the diagonal, add the transpose, halve the diagonal. *)
  Definition gram_entry_upper (x : list T) (X : list (list T)) (nv : T) (i j : nat) : T :=
    if Nat.leb i j then
      osub o (inner x (nth i X []) (nth j X []))
             (if Nat.eqb i j then nv else o0 o)
    else o0 o.
  Definition gram_upper x X nv : list (list T) :=
    map (fun i => map (fun j => gram_entry_upper x X nv i j) (seq 0 (length X))) (seq 0 (length X)).
  Definition gram (x : list T) (X : list (list T)) (nv : T) : list (list T) :=
    let U := gram_upper x X nv in
    map (fun i => map (fun j =>
          let s := oadd o (nth j (nth i U []) (o0 o)) (nth i (nth j U []) (o0 o)) in
          if Nat.eqb i j then ohalf o s else s) (seq 0 (length X))) (seq 0 (length X)).
  (* the mathematical Gram matrix *)
  Definition gram_spec (x : list T) (X : list (list T)) : list (list T) :=
    map (fun f => map (fun g => inner x f g) X) X.
End Quad.

Parametricity Recursive trapz.
Parametricity Recursive trapz_w.
Parametricity Recursive trapz2.
Parametricity Recursive inner.
Parametricity Recursive normsq.
Parametricity Recursive inner2.
Parametricity Recursive gram.
Parametricity Recursive gram_spec.

(* 3-D: numpy.trapz over axis 0 of a 3-D array (list of matrices), then trapz2 *)
Section Quad3.
  Context {T : Type} (o : ops T).
  Fixpoint trapz_planes (x : list T) : list (list (list T)) -> nat -> nat -> list (list T) :=
    match x with
    | [] => fun _ n1 n2 => repeat (zeros o n2) n1
    | a :: x' => fun Y n1 n2 =>
        match x', Y with
        | b :: _, ya :: ((yb :: _) as Y') =>
            madd o (map (map (fun s => ohalf o (omul o (osub o b a) s))) (madd o ya yb))
                   (trapz_planes x' Y' n1 n2)
        | _, _ => repeat (zeros o n2) n1
        end
    end.
  Definition trapz3 (x1 x2 x3 : list T) (Y : list (list (list T))) : T :=
    trapz2 o x2 x3 (trapz_planes x1 Y (length x2) (length x3)).
End Quad3.
Parametricity Recursive trapz3.
