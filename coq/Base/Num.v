(* Base/Num.v — the abstract numeric type of every numeric model.

   Model functions are written ONCE, polymorphically in [T] with an [ops T]
   record.  Theorems are proved at [opsR] (Coq Reals), execution happens at
   [opsQ] (stdlib rationals, every result reduced by [Qred]).  The two
   instances are related by [opsQR], the parametricity relation instance for
   [QR q r := Q2R q = r]; Paramcoq's [Parametricity] command then produces,
   for each model function, a kernel-checked proof that the Q-run and the
   R-statement agree. *)
From Coq Require Import List QArith Qreals Reals Lra Lia Bool.
From Param Require Import Param.
Import ListNotations.

Record ops (T : Type) := {
  o0 : T; o1 : T;
  oadd : T -> T -> T; omul : T -> T -> T; oopp : T -> T;
  odiv : T -> T -> T;            (* total: x / 0 := 0 in both instances *)
  oleb : T -> T -> bool; oeqb : T -> T -> bool }.
Arguments o0 {T}. Arguments o1 {T}. Arguments oadd {T}. Arguments omul {T}.
Arguments oopp {T}. Arguments odiv {T}. Arguments oleb {T}. Arguments oeqb {T}.

Section Derived.
  Context {T : Type} (o : ops T).
  Definition osub (a b : T) : T := oadd o a (oopp o b).
  Definition oltb (a b : T) : bool := negb (oleb o b a).
  Definition o2 : T := oadd o (o1 o) (o1 o).
  Definition ohalf (a : T) : T := odiv o a o2.
  Definition omax (a b : T) : T := if oleb o a b then b else a.
  Definition omin (a b : T) : T := if oleb o a b then a else b.
  Definition oabs (a : T) : T := if oleb o (o0 o) a then a else oopp o a.
  Definition osq (a : T) : T := omul o a a.
  Fixpoint oofnat (n : nat) : T :=
    match n with O => o0 o | S n' => oadd o (o1 o) (oofnat n') end.
End Derived.

(* ---------- the executable instance ---------- *)
Definition Qdiv0 (a b : Q) : Q := if Qeq_bool b 0 then 0%Q else Qred (a / b)%Q.
Definition opsQ : ops Q := {|
  o0 := 0%Q; o1 := 1%Q;
  oadd := fun a b => Qred (a + b); omul := fun a b => Qred (a * b);
  oopp := Qopp; odiv := Qdiv0; oleb := Qle_bool; oeqb := Qeq_bool |}.

(* ---------- the instance theorems are proved at ---------- *)
Definition Rleb (a b : R) : bool := if Rle_dec a b then true else false.
Definition Reqb (a b : R) : bool := if Req_EM_T a b then true else false.
Definition Rdiv0 (a b : R) : R := if Req_EM_T b 0 then 0%R else (a / b)%R.
Definition opsR : ops R := {|
  o0 := 0%R; o1 := 1%R; oadd := Rplus; omul := Rmult; oopp := Ropp;
  odiv := Rdiv0; oleb := Rleb; oeqb := Reqb |}.

Lemma Rleb_true a b : Rleb a b = true <-> (a <= b)%R.
Proof. unfold Rleb; destruct (Rle_dec a b); split; auto; discriminate. Qed.
Lemma Rleb_false a b : Rleb a b = false <-> (b < a)%R.
Proof. unfold Rleb; destruct (Rle_dec a b); split; intros; try discriminate; try lra; auto. Qed.
Lemma Reqb_true a b : Reqb a b = true <-> a = b.
Proof. unfold Reqb; destruct (Req_EM_T a b); split; auto; discriminate. Qed.
Lemma Reqb_false a b : Reqb a b = false <-> a <> b.
Proof. unfold Reqb; destruct (Req_EM_T a b); split; intros; try discriminate; try contradiction; auto. Qed.
Lemma Rdiv0_nz a b : b <> 0%R -> Rdiv0 a b = (a / b)%R.
Proof. intros H; unfold Rdiv0; destruct (Req_EM_T b 0); [contradiction|reflexivity]. Qed.
Lemma Rdiv0_z a : Rdiv0 a 0 = 0%R.
Proof. unfold Rdiv0; destruct (Req_EM_T 0 0); [reflexivity|contradiction]. Qed.

(* ---------- the relation ---------- *)
Parametricity Recursive ops.
Parametricity Recursive osub.
Parametricity Recursive oltb.
Parametricity Recursive o2.
Parametricity Recursive ohalf.
Parametricity Recursive omax.
Parametricity Recursive omin.
Parametricity Recursive oabs.
Parametricity Recursive osq.
Parametricity Recursive oofnat.

Parametricity Recursive list.
Parametricity Recursive nat.
Parametricity Recursive option.
Parametricity Recursive prod.

Definition QR (q : Q) (r : R) : Type := Q2R q = r.

Lemma bool_R_eq a b : a = b -> bool_R a b.
Proof. intros ->. destruct b; constructor. Qed.
Lemma bool_R_inv a b : bool_R a b -> a = b.
Proof. destruct 1; reflexivity. Qed.

Lemma Q2R_Qred q : Q2R (Qred q) = Q2R q.
Proof. apply Qeq_eqR. apply Qred_correct. Qed.

Lemma opsQR : ops_R Q R QR opsQ opsR.
Proof.
  constructor; unfold QR; cbv beta.
  - lra.
  - lra.
  - intros a1 a2 <- b1 b2 <-. rewrite Q2R_Qred. apply Q2R_plus.
  - intros a1 a2 <- b1 b2 <-. rewrite Q2R_Qred. apply Q2R_mult.
  - intros a1 a2 <-. apply Q2R_opp.
  - intros a1 a2 <- b1 b2 <-. unfold Qdiv0, Rdiv0.
    destruct (Qeq_bool b1 0) eqn:E.
    + apply Qeq_bool_eq in E. destruct (Req_EM_T (Q2R b1) 0) as [|n]; [lra|].
      exfalso; apply n. rewrite (Qeq_eqR _ _ E). lra.
    + apply Qeq_bool_neq in E. destruct (Req_EM_T (Q2R b1) 0) as [e|n].
      * exfalso; apply E. apply eqR_Qeq. rewrite e. lra.
      * rewrite Q2R_Qred. apply Q2R_div; exact E.
  - intros a1 a2 <- b1 b2 <-. apply bool_R_eq. unfold Rleb.
    destruct (Qle_bool a1 b1) eqn:E.
    + apply Qle_bool_iff in E. apply Qle_Rle in E.
      destruct (Rle_dec _ _); [reflexivity|contradiction].
    + destruct (Rle_dec _ _) as [l|]; [|reflexivity].
      apply Rle_Qle in l. apply Qle_bool_iff in l. congruence.
  - intros a1 a2 <- b1 b2 <-. apply bool_R_eq. unfold Reqb.
    destruct (Qeq_bool a1 b1) eqn:E.
    + apply Qeq_bool_eq in E. apply Qeq_eqR in E.
      destruct (Req_EM_T _ _); [reflexivity|contradiction].
    + apply Qeq_bool_neq in E. destruct (Req_EM_T _ _) as [e|]; [|reflexivity].
      exfalso; apply E. apply eqR_Qeq. exact e.
Qed.

(* ---------- lifting the relation through containers ---------- *)
Lemma list_QR (l : list Q) : list_R Q R QR l (map Q2R l).
Proof. induction l; simpl; constructor; [reflexivity|assumption]. Qed.
Lemma list_QR_inv (l : list Q) (l' : list R) : list_R Q R QR l l' -> l' = map Q2R l.
Proof. induction 1 as [|a b r l l' _ IH]; simpl; [reflexivity|]. unfold QR in r. congruence. Qed.
Lemma llist_QR (l : list (list Q)) : list_R _ _ (list_R Q R QR) l (map (map Q2R) l).
Proof. induction l; simpl; constructor; [apply list_QR|assumption]. Qed.
Lemma llist_QR_inv l l' : list_R _ _ (list_R Q R QR) l l' -> l' = map (map Q2R) l.
Proof. induction 1 as [|a b r l l' _ IH]; simpl; [reflexivity|]. apply list_QR_inv in r. congruence. Qed.
Lemma nat_R_refl (n : nat) : nat_R n n.
Proof. induction n; constructor; assumption. Qed.
Lemma nat_R_eq n m : nat_R n m -> n = m.
Proof. induction 1; congruence. Qed.
Lemma list_nat_R_refl (l : list nat) : list_R nat nat nat_R l l.
Proof. induction l; constructor; [apply nat_R_refl|assumption]. Qed.

(* ---------- helper notations for statements at R ---------- *)
Lemma opsR_unfold :
  (o0 opsR = 0%R) /\ (o1 opsR = 1%R) /\ (oadd opsR = Rplus) /\ (omul opsR = Rmult)
  /\ (oopp opsR = Ropp).
Proof. repeat split. Qed.
