(* Base/Cmp.v — executable comparison helpers used ONLY by the correspondence
   check (model value vs implementation value, both as exact rationals).
   Nothing here is used in a theorem. *)
From Coq Require Import List QArith Qabs Bool.
Import ListNotations.
Local Open Scope Q_scope.

Definition qclose (tol a b : Q) : bool := Qle_bool (Qabs (Qred (a - b))) tol.
Definition qeq (a b : Q) : bool := Qeq_bool a b.

Fixpoint all2 {A B} (f : A -> B -> bool) (l : list A) (m : list B) : bool :=
  match l, m with
  | [], [] => true
  | a :: l', b :: m' => f a b && all2 f l' m'
  | _, _ => false
  end.

Definition vclose (tol : Q) (u v : list Q) : bool := all2 (qclose tol) u v.
Definition veq (u v : list Q) : bool := all2 qeq u v.
Definition mclose (tol : Q) (a b : list (list Q)) : bool := all2 (vclose tol) a b.
Definition meq (a b : list (list Q)) : bool := all2 veq a b.

(* equality of vectors up to a global sign *)
Definition vclose_sign (tol : Q) (u v : list Q) : bool :=
  vclose tol u v || vclose tol u (map Qopp v).

Definition qmaxabs (l : list Q) : Q :=
  fold_left (fun m x => if Qle_bool m (Qabs x) then Qabs x else m) l 0.

Definition opt_close (tol : Q) (a : option (list Q)) (b : list Q) : bool :=
  match a with Some u => vclose tol u b | None => false end.
