(* Base/Vec.v — list-based vector / matrix-vector operations (definitions only).
   Style rule for Paramcoq: every Fixpoint binds ONLY its structural argument. *)
From Coq Require Import List Bool.
From FDAV Require Import Base.Num.
From Param Require Import Param.
Import ListNotations.

Section Map2.
  Context {A B C : Type} (f : A -> B -> C).
  Fixpoint map2 (x : list A) : list B -> list C :=
    match x with
    | [] => fun _ => []
    | a :: x' => fun y => match y with [] => [] | b :: y' => f a b :: map2 x' y' end
    end.
End Map2.

Section Vec.
  Context {T : Type} (o : ops T).

  Definition vsum (l : list T) : T := fold_right (oadd o) (o0 o) l.
  Definition vadd (x y : list T) : list T := map2 (oadd o) x y.
  Definition vsub (x y : list T) : list T := map2 (osub o) x y.
  Definition vmul (x y : list T) : list T := map2 (omul o) x y.
  Definition vscale (c : T) (x : list T) : list T := map (omul o c) x.
  Definition vopp (x : list T) : list T := map (oopp o) x.
  Definition zeros (n : nat) : list T := repeat (o0 o) n.
  Definition dot (x y : list T) : T := vsum (vmul x y).
  Definition wdot (w x y : list T) : T := dot w (vmul x y).

  (* matrices are lists of rows *)
  Definition mv (A : list (list T)) (x : list T) : list T := map (fun r => dot r x) A.
  (* A^T y = sum_i y_i row_i ; n = number of columns *)
  Definition mtv (n : nat) (A : list (list T)) (y : list T) : list T :=
    fold_right vadd (zeros n) (map2 vscale y A).
  Definition outer (x y : list T) : list (list T) := map (fun a => vscale a y) x.
  Definition kron (a b : list T) : list T := flat_map (fun ai => vscale ai b) a.
  Definition transpose (n : nat) (A : list (list T)) : list (list T) :=
    fold_right (map2 cons) (repeat [] n) A.
  Definition madd (A B : list (list T)) := map2 vadd A B.
  Definition mscale (c : T) (A : list (list T)) := map (vscale c) A.

  (* column means / centring of a data matrix (rows = observations) *)
  Definition colsum (n : nat) (X : list (list T)) : list T := fold_right vadd (zeros n) X.
  Definition colmean (n : nat) (X : list (list T)) : list T :=
    map (fun s => odiv o s (oofnat o (length X))) (colsum n X).
  Definition center_rows (n : nat) (X : list (list T)) : list (list T) :=
    map (fun r => vsub r (colmean n X)) X.
End Vec.

Parametricity Recursive map2.
Parametricity Recursive vsum.
Parametricity Recursive vadd.
Parametricity Recursive vsub.
Parametricity Recursive vmul.
Parametricity Recursive vscale.
Parametricity Recursive vopp.
Parametricity Recursive zeros.
Parametricity Recursive dot.
Parametricity Recursive wdot.
Parametricity Recursive mv.
Parametricity Recursive mtv.
Parametricity Recursive outer.
Parametricity Recursive kron.
Parametricity Recursive transpose.
Parametricity Recursive madd.
Parametricity Recursive mscale.
Parametricity Recursive colsum.
Parametricity Recursive colmean.
Parametricity Recursive center_rows.
