(* Tie/C01.v — executable glue of the C01 correspondence check (no theorems). *)
From Coq Require Import List QArith Bool.
From FDAV Require Import Base.Num Base.Cmp Model.Eigen.
Import ListNotations.

Definition cmp_pairs (withvec : bool) (tol ftol : Q) (model impl : list (Q * list Q)) : bool :=
  all2 (fun a b => qclose tol (fst a) (fst b) &&
                   (if withvec then vclose_sign ftol (snd a) (snd b) else true)) model impl.

Definition cmp_pairs_exact (model impl : list (Q * list Q)) : bool :=
  all2 (fun a b => qeq (fst a) (fst b) && veq (snd a) (snd b)) model impl.

(* API level: the k-fit must be the model's selection applied to the full fit *)
Definition api_select {T} (o : ops T) (full : list (T * list T)) (s : sel T) :=
  select o s (sort_desc o full).
Definition api_select_nosort {T} (o : ops T) (full : list (T * list T)) (s : sel T) :=
  select o s full.
