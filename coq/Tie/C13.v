(* Tie/C13.v — executable glue of the C13 correspondence check (no theorems).
   Observations are represented by the identifier (position in the ORIGINAL
   parent dataset) of the curve they carry: the implementation only moves
   curves, the harness identifies each curve of a result by exact equality of
   sampling points and values, and the model decides which identifiers / labels
   the result must carry. *)
From Coq Require Import ZArith List Bool.
From FDAV Require Import Model.PyIndex Model.Select.
Import ListNotations.
Local Open Scope Z_scope.

Fixpoint list_eqb {A} (eqb : A -> A -> bool) (a b : list A) : bool :=
  match a, b with
  | [], [] => true
  | x :: a', y :: b' => eqb x y && list_eqb eqb a' b'
  | _, _ => false
  end.
Definition opt_eqb {A} (eqb : A -> A -> bool) (a b : option A) : bool :=
  match a, b with
  | None, None => true
  | Some x, Some y => eqb x y
  | _, _ => false
  end.
Definition pair_eqb (a b : Z * Z) : bool := (fst a =? fst b) && (snd a =? snd b).
Definition ds := list (Z * Z).
Definition ds_eqb (a b : ds) : bool := list_eqb pair_eqb a b.
Definition err_eqb (a b : err) : bool :=
  match a, b with
  | IndexError, IndexError | TypeError, TypeError | ValueError, ValueError => true
  | KeyError x, KeyError y => x =? y
  | _, _ => false
  end.
Definition res_eqb {A} (eqb : A -> A -> bool) (a b : res A) : bool :=
  match a, b with
  | Ok x, Ok y => eqb x y
  | Err e, Err f => err_eqb e f
  | _, _ => false
  end.

(* ------------------------------------------------ exhaustive PyIndex validation *)
Definition zrange (lo hi : Z) : list Z := map (fun m => lo + Z.of_nat m) (seq 0 (Z.to_nat (hi - lo + 1))).
Definition opt_range (lo hi : Z) : list (option Z) := None :: map Some (zrange lo hi).
(* canonical enumeration: start (outer), stop, step (inner) *)
Definition slice_cases (lo hi slo shi : Z) : list pyslice :=
  flat_map (fun a => flat_map (fun b => map (fun c => mkslice a b c) (opt_range slo shi))
                              (opt_range lo hi)) (opt_range lo hi).
Definition triple_eqb (a b : Z * Z * Z) : bool :=
  (fst (fst a) =? fst (fst b)) && (snd (fst a) =? snd (fst b)) && (snd a =? snd b).
Definition slice_case_ok (n : Z) (s : pyslice) (expected : option (Z * Z * Z * list Z)) : bool :=
  match slice_indices n s, slice_positions n s, expected with
  | None, None, None => true
  | Some t, Some ps, Some (t', ps') => triple_eqb t t' && list_eqb Z.eqb ps ps'
  | _, _, _ => false
  end.
(* positions (in the canonical enumeration) of the cases on which model and CPython differ;
   a length mismatch is reported as case 999999 *)
Definition pyindex_mismatches (n lo hi slo shi : Z) (expected : list (option (Z * Z * Z * list Z))) : list Z :=
  let cases := slice_cases lo hi slo shi in
  if negb (Nat.eqb (length cases) (length expected)) then [999999]
  else
    flat_map (fun c => if slice_case_ok n (fst (snd c)) (snd (snd c)) then [] else [fst c])
             (combine (zrange 0 (Z.of_nat (length cases) - 1)) (combine cases expected)).
(* integer indices lo..hi against CPython list indexing: expected = Some position | None (IndexError) *)
Definition intindex_mismatches (n lo hi : Z) (expected : list (option Z)) : list Z :=
  flat_map (fun c => if opt_eqb Z.eqb (wrap_index n (fst c)) (snd c) then [] else [fst c])
           (combine (zrange lo hi) expected).

(* ------------------------------------------------ datasets *)
Definition cmp_getitem (parent : ds) (ix : index) (impl : res ds) : bool :=
  res_eqb ds_eqb (getitem parent ix) impl.
Definition cmp_getitem_def (parent : ds) (ix : index) (impl : res ds) : bool :=
  res_eqb ds_eqb (getitem_keep_labels parent ix) impl.

Definition cmp_iter (parent : ds) (impl : list ds) : bool := list_eqb ds_eqb (iter parent) impl.
Definition cmp_iter_def (parent : ds) (impl : list ds) : bool :=
  list_eqb ds_eqb (iter_keep_labels parent) impl.

Definition cmp_concat (pieces : list ds) (impl : ds) : bool := ds_eqb (concatenate pieces) impl.
Definition cmp_concat_def (pieces : list ds) (impl : ds) : bool := ds_eqb (relabel_shift pieces) impl.

(* analysis outcome of a label-pairing method: None = completed, Some p = KeyError(p) *)
Definition cmp_keyerror_def (ls : list Z) (impl : option Z) : bool :=
  opt_eqb Z.eqb (analysis_keyerror ls) impl.

(* multivariate data: kinds[i] = true when component i is irregular *)
Definition multi_gets (defect : bool) (kinds : list bool) (comps : list ds) : list (index -> res ds) :=
  map (fun kc => if (fst kc : bool) && defect then getitem_keep_labels (snd kc) else getitem (snd kc))
      (combine kinds comps).
Definition cmp_multi_getitem (defect : bool) (kinds : list bool) (comps : list ds) (ix : index)
           (impl : res (list ds)) : bool :=
  res_eqb (list_eqb ds_eqb) (getitem_multi (multi_gets defect kinds comps) ix) impl.
Definition multi_len (comps : list ds) : nat := match comps with [] => O | c :: _ => length c end.
Definition cmp_multi_iter (defect : bool) (kinds : list bool) (comps : list ds)
           (impl : res (list (list ds))) : bool :=
  res_eqb (list_eqb (list_eqb ds_eqb))
          (seq_iter (S (multi_len comps)) (fun i => getitem_multi (multi_gets defect kinds comps) (IInt i)) 0)
          impl.

(* ---- batches (one parent, many indices): results interleaved [ok0; def0; ok1; def1; ...] *)
Definition getitem_batch (parent : ds) (cases : list (index * res ds)) : list bool :=
  flat_map (fun c => [cmp_getitem parent (fst c) (snd c); cmp_getitem_def parent (fst c) (snd c)]) cases.
Definition multi_getitem_batch (kinds : list bool) (comps : list ds) (cases : list (index * res (list ds))) : list bool :=
  flat_map (fun c => [cmp_multi_getitem false kinds comps (fst c) (snd c);
                      cmp_multi_getitem true kinds comps (fst c) (snd c)]) cases.
Definition concat_batch (cases : list (list ds * ds)) : list bool :=
  flat_map (fun c => [cmp_concat (fst c) (snd c); cmp_concat_def (fst c) (snd c)]) cases.

(* multivariate concatenation; pieces are given per component *)
Definition multi_cats (defect : bool) (kinds : list bool) : list (list ds -> ds) :=
  map (fun k : bool => if k && defect then relabel_shift else concatenate) kinds.
Definition multi_concat_batch (kinds : list bool) (cases : list (list (list ds) * res (list ds))) : list bool :=
  flat_map (fun c => [res_eqb (list_eqb ds_eqb) (concatenate_multi (multi_cats false kinds) (fst c)) (snd c);
                      res_eqb (list_eqb ds_eqb) (concatenate_multi (multi_cats true kinds) (fst c)) (snd c)]) cases.
