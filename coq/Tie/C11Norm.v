(* Tie/C11Norm.v — executable glue: the implementation's standardised points against Model/Normalize.v (no theorems). *)
From Coq Require Import List Bool QArith Qabs.
From FDAV Require Import Model.Normalize.
Import ListNotations.
Local Open Scope Q_scope.

(* executable comparison for the correspondence run: the implementation's standardised points (floats read as rationals)
   against the model, entrywise within tol *)
Definition qclose (tol a b : Q) : bool := Qle_bool (Qabs (a - b)) tol.
Fixpoint vclose (tol : Q) (a b : list Q) : bool :=
  match a, b with
  | [], [] => true
  | x :: a', y :: b' => qclose tol x y && vclose tol a' b'
  | _, _ => false
  end.
Fixpoint mclose (tol : Q) (a b : list (list Q)) : bool :=
  match a, b with
  | [], [] => true
  | x :: a', y :: b' => vclose tol x y && mclose tol a' b'
  | _, _ => false
  end.
Definition norm_ok (tol : Q) (obs impl : list (list Q)) : bool := mclose tol (norm_irr obs) impl.
Definition norm_dense_ok (tol : Q) (points impl : list Q) : bool := vclose tol (norm_dense points) impl.
