(* Tie/C07.v — executable glue of the C07 correspondence check (no theorems). *)
From Coq Require Import List QArith Bool.
From FDAV Require Import Base.Num Base.Vec Base.Cmp Model.Basis Model.Smooth.
Import ListNotations.
Definition ps_ok (tol : Q) (beta : list Q) (a b : Q) (nseg p : nat) (Qs ys : list Q) : bool :=
  vclose tol (ps_predict opsQ {| ps_beta := beta; ps_a := a; ps_b := b; ps_nseg := nseg; ps_deg := p |} Qs) ys.
