(* Tie/C15.v — executable glue of the C15 correspondence check (no theorems).
   The model is instantiated at Q; every number is the exact rational of a
   double in lowest terms and is only MOVED by the model, so [Qeq_bool] on these
   literals coincides with Leibniz equality (the hypothesis of the theorems). *)
From Coq Require Import List QArith Bool ZArith.
From FDAV Require Import Base.Cmp Model.Encoding.
Import ListNotations.
Local Open Scope Q_scope.

Definition qcontent := @content Q Q.
Definition oq_eqb (a b : option Q) : bool :=
  match a, b with
  | None, None => true
  | Some x, Some y => qeq x y
  | _, _ => false
  end.
Definition rows_eqb (a b : list (list (option Q))) : bool := all2 (all2 oq_eqb) a b.
Definition rag_eqb (a b : list (list Q * list Q)) : bool :=
  all2 (fun p q => veq (fst p) (fst q) && veq (snd p) (snd q)) a b.
Definition long_eqb (a : list (Q * nat * Q)) (b : list (Q * Z * Q)) : bool :=
  all2 (fun r s => qeq (fst (fst r)) (fst (fst s)) && Z.eqb (Z.of_nat (snd (fst r))) (snd (fst s))
                   && qeq (snd r) (snd s)) a b.

(* the producer's NaN encoding is the model's encoding of the intended content *)
Definition nan_ok (grid : list Q) (ct : qcontent) (impl : list (list (option Q))) : bool :=
  rows_eqb (enc_nan Qeq_bool grid ct) impl.
(* the loader's ragged encoding is the model's encoding of the intended content *)
Definition rag_ok (ct : qcontent) (impl : list (list Q * list Q)) : bool :=
  rag_eqb (enc_ragged ct) impl.
(* to_long of either encoding = the long format of the content *)
Definition long_ok (ct : qcontent) (impl : list (Q * Z * Q)) : bool := long_eqb (to_long ct) impl.
(* the evaluation points the code derives (`argvals.to_dense()`) *)
Definition points_ok (grid : list Q) (ct : qcontent) (impl : list Q) : bool :=
  veq (observed_points Qeq_bool grid ct) impl.

(* an irregular RESULT (center, arithmetic) given in both encodings decodes to the same content *)
Definition content_close (tol : Q) (a b : qcontent) : bool :=
  all2 (all2 (fun p q => qeq (fst p) (fst q) && qclose tol (snd p) (snd q))) a b.
Definition results_agree (tol : Q) (grid : list Q) (rows : list (list (option Q)))
           (rag : list (list Q * list Q)) : bool :=
  content_close tol (dec_nan grid rows) (dec_ragged rag).
(* ... and has a sample exactly where the input content has one *)
Definition same_support (grid : list Q) (ct : qcontent) (rows : list (list (option Q))) : bool :=
  all2 (fun c d => veq (map fst c) (map fst d)) ct (dec_nan grid rows).

(* complete data: both encodings are the dense value matrix *)
Definition dense_ok (grid : list Q) (ct : qcontent) (dense_rows : list (list Q)) : bool :=
  meq (dense_values ct) dense_rows && rows_eqb (enc_nan Qeq_bool grid ct) (map (map Some) dense_rows).

(* F14: the harness lays the long table out on the grid for the real P-spline fit; both layouts
   (correct: pooled mean / count; defect: last value / weight) must be the model's *)
Definition layout_eqb (a b : list (Q * Q)) : bool :=
  all2 (fun p q => qeq (fst p) (fst q) && qeq (snd p) (snd q)) a b.
Definition layout_close (tol : Q) (a b : list (Q * Q)) : bool :=
  all2 (fun p q => qclose tol (fst p) (fst q) && qeq (snd p) (snd q)) a b.
Definition layouts_ok (tol : Q) (grid : list Q) (ct : qcontent) (pooled last : list (Q * Q)) : bool :=
  layout_close tol (format_pooled Qeq_bool grid ct) pooled && layout_eqb (format_last Qeq_bool grid ct) last.
