(* Tie/C04.v — executable glue of the C04 correspondence check (no theorems). *)
From Coq Require Import List QArith Bool.
From FDAV Require Import Base.Num Base.Vec Base.Cmp Model.Stats Model.Mfpca.
Import ListNotations.
Local Open Scope Q_scope.

(* S: n rows of M univariate scores.  Everything below is the model's: covariance Q of S, second moment
   Q' of S, block-diagonal G; the implementation contributes nu, c (columns), nf-free outputs. *)
Definition covS (M : nat) (S : list (list Q)) : list (list Q) := cov opsQ M S.
Definition momS (M : nat) (S : list (list Q)) : list (list Q) :=
  second_moment opsQ (length S) (transpose M S).
(* (i) (G Q) c_k = nu_k c_k *)
Definition eig_ok (tol : Q) (M : nat) (Gs : list (list (list Q))) (S : list (list Q)) (nus : list Q) (cs : list (list Q)) : bool :=
  let G := blockdiag opsQ Gs in let Qm := covS M S in
  all2 (fun nu c => vclose tol (mv opsQ G (mv opsQ Qm c)) (vscale opsQ nu c)) nus cs.
(* (ii) eigenfunction coefficients a_k = (nf_k / r_k) Q' c_k with r_k^2 = nu_k and nf_k^2 c_k^T Q' c_k = 1,
        split per component *)
Definition coef_ok (tol : Q) (M : nat) (sizes : list nat) (S : list (list Q)) (nus rs nfs : list Q)
           (cs : list (list Q)) (As : list (list (list Q))) : bool :=
  let Qp := momS M S in
  all2 (fun nrn ca => let '(nu, r, nf) := nrn in let '(c, a) := ca in
          qclose tol (r * r) nu
          && qclose tol (nf * nf * dot opsQ c (mv opsQ Qp c)) 1
          && all2 (vclose tol) (split_sizes sizes (mfpca_coef opsQ Qp c nf r)) a)
       (combine (combine nus rs) nfs) (combine cs As).
(* (iii) product-space orthonormality of the coefficient pieces *)
Definition orth_ok (tol : Q) (Gs : list (list (list Q))) (As : list (list (list Q))) : bool :=
  forallb (fun j => forallb (fun k =>
    qclose tol (prod_inner opsQ Gs (nth j As []) (nth k As [])) (if Nat.eqb j k then 1 else 0))
    (seq 0 (length As))) (seq 0 (length As)).
(* (iv) multivariate scores = S c_k r_k nf_k *)
Definition scores_ok (tol : Q) (S : list (list Q)) (rs nfs : list Q) (cs : list (list Q)) (sc : list (list Q)) : bool :=
  all2 (fun rn cc => let '(r, nf) := rn in let '(c, col) := cc in
          vclose tol (mfpca_scores opsQ S c nf r) col) (combine rs nfs) (combine cs sc).

(* finding F16: the code normalises with the UNCENTRED second moment Q' while the eigenvectors come
   from the centred covariance Q.  The corrected coefficients a'_k = (nf'_k / r_k) Q c_k with
   nf'_k^2 c_k^T Q c_k = 1 are orthonormal (C04_mfpca_orthogonal / C04_mfpca_unit_norm): checking that on the
   implementation's own S, G, nu, c shows the failure is exactly the centring mismatch. *)
Definition orth_fixed_ok (tol : Q) (M : nat) (sizes : list nat) (Gs : list (list (list Q))) (S : list (list Q))
           (rs nfs' : list Q) (cs : list (list Q)) : bool :=
  let Qm := covS M S in
  let As := map (fun rnc => let '(r, nf, c) := rnc in split_sizes sizes (mfpca_coef opsQ Qm c nf r))
                (combine (combine rs nfs') cs) in
  all2 (fun nf c => qclose tol (nf * nf * dot opsQ c (mv opsQ Qm c)) 1) nfs' cs
  && orth_ok tol Gs As.
