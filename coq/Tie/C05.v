(* Tie/C05.v — executable glue of the C05 correspondence check (no theorems).
   The whole chain grid -> Cox-de Boor basis -> (Kronecker) design rows -> difference penalties ->
   normal equations is the MODEL's; the implementation contributes only its answers (beta_hat, y_hat,
   hat-matrix diagonal), which are checked against the model's normal equations exactly in Q. *)
From Coq Require Import List QArith Bool.
From FDAV Require Import Base.Num Base.Vec Base.Cmp Model.Basis Model.Pspline.
Import ListNotations.
Local Open Scope Q_scope.

Definition rows1 (a b : Q) (nseg p : nat) (xs : list Q) : list (list Q) :=
  design1 (bspline_basis opsQ a b nseg p xs) (length xs).

(* beta solves the normal equations, y_hat = B beta, and for every i: A z_i = b_i, h_i = w_i b_i.z_i *)
Definition fit_ok (tolA tolY tolH : Q) (nb : nat) (B : list (list Q)) (pens : list (Q * list (list Q)))
           (w y beta yhat : list Q) (Z : list (list Q)) (H : list Q) : bool :=
  vclose tolA (Aop opsQ nb B w pens beta) (rhs opsQ nb B w y)
  && vclose tolY (fitted opsQ B beta) yhat
  && all2 (fun bz wh => let '(b, z) := bz in let '(wi, h) := wh in
             vclose tolA (Aop opsQ nb B w pens z) b && qclose tolH (leverage opsQ wi b z) h)
          (combine B Z) (combine w H).
(* the same with leverage certificates for a selected sub-list of observations *)
Definition fit_ok_sel (tolA tolY tolH : Q) (nb : nat) (B : list (list Q)) (pens : list (Q * list (list Q)))
           (w y beta yhat : list Q) (sel : list nat) (Z : list (list Q)) (H : list Q) : bool :=
  vclose tolA (Aop opsQ nb B w pens beta) (rhs opsQ nb B w y)
  && vclose tolY (fitted opsQ B beta) yhat
  && all2 (fun iz h => let '(i, z) := iz in
             vclose tolA (Aop opsQ nb B w pens z) (nth i B [])
             && qclose tolH (leverage opsQ (nth i w 0) (nth i B []) z) h)
          (combine sel Z) H.
Definition predict_ok (tol : Q) (Bnew : list (list Q)) (beta ypred : list Q) : bool :=
  vclose tol (fitted opsQ Bnew beta) ypred.
