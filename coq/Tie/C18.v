(* Tie/C18.v — executable glue of the C18 correspondence check (no theorems). *)
From Coq Require Import List QArith Bool.
From FDAV Require Import Base.Num Base.Vec Base.Cmp Model.Basis.
Import ListNotations.
Local Open Scope Q_scope.
Definition bs_model (a b : Q) (nseg p : nat) (xs : list Q) := bspline_basis opsQ a b nseg p xs.
Definition col_sums (B : list (list Q)) (m : nat) : list Q :=
  map (fun i => fold_right Qplus 0 (map (fun row => nth i row 0) B)) (seq 0 m).
