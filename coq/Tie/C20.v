(* Tie/C20.v — executable glue of the C20 correspondence check (no theorems). *)
From Coq Require Import List QArith Qabs Bool Arith NArith ZArith Uint63.
From FDAV Require Import Base.Num Base.Vec Base.Cmp Model.NoiseSparse.
Import ListNotations.

(* cheap exact float literals: +/- m * 2^e with m a primitive 63-bit integer (a
   double's mantissa has 53 bits).  Unary/binary positive literals of 16 digits cost
   ~2 ms each to elaborate; primitive integers cost nothing. *)
Definition qof (neg : bool) (m : int) (e : Z) : Q :=
  let z := Uint63.to_Z m in
  let z := if neg then Z.opp z else z in
  match e with
  | Zneg p => Qred (Qmake z (Pos.shiftl 1 (Npos p)))
  | _ => Qmake (Z.shiftl z e) 1
  end.

(* exact comparison of sparse curves: same missing pattern, kept values equal *)
Definition cell_eq (a b : option Q) : bool :=
  match a, b with
  | Some u, Some v => Qeq_bool u v
  | None, None => true
  | _, _ => false
  end.
Definition cells_eq (a b : list (option Q)) : bool := all2 cell_eq a b.
Definition cellsm_eq (a b : list (list (option Q))) : bool := all2 cells_eq a b.

(* noise: model value vs implementation value *)
Definition noise_close (tol s : Q) (Z X impl : list (list Q)) : bool :=
  mclose tol (add_noise_m opsQ s Z X) impl.
Definition noise_exact (s : Q) (Z X impl : list (list Q)) : bool :=
  meq (add_noise_m opsQ s Z X) impl.
(* square-root oracle: s >= 0 and s*s within rtol*v of v *)
Definition sqrt_ok (rtol s v : Q) : bool :=
  Qle_bool 0 s && Qle_bool (Qabs (Qred (s * s - v))) (Qred (rtol * v)).

Definition pairs_distinct (X : list (list Q)) (ps : list (nat * nat)) : bool :=
  all2 (fun x p => distinct_pair (length x) p) X ps.
Definition kept_ge2 (c : list (list (option Q))) : bool :=
  forallb (fun l => (2 <=? count_kept l)%nat) c.

(* sparsify / combined: implementation cells vs model cells *)
Definition sparse_eq (masks : list (list bool)) (ps : list (nat * nat)) (X : list (list Q))
           (impl : list (list (option Q))) : bool :=
  cellsm_eq (sparsify_m masks ps X) impl.
Definition combined_eq (tol s : Q) (Z X : list (list Q)) (masks : list (list bool))
           (ps : list (nat * nat)) (impl_noisy : list (list Q)) (impl : list (list (option Q))) : bool :=
  noise_close tol s Z X impl_noisy && cellsm_eq (sparsify_m masks ps impl_noisy) impl.

(* the fault machine on tokens: datasets are numbered, add_noise maps
   dataset d to d+10, sparsify maps d to d+20 *)
Definition tok_noise (d : nat) : nat := (d + 10)%nat.
Definition tok_sparse (d : nat) : option nat := Some (d + 20)%nat.
Definition tok_state (d n sp : option nat) : sim nat nat := {| data := d; noisy := n; sparse := sp |}.
Definition opt_nat_eq (a b : option nat) : bool :=
  match a, b with Some x, Some y => (x =? y)%nat | None, None => true | _, _ => false end.
Definition state_eq (a b : sim nat nat) : bool :=
  opt_nat_eq (data a) (data b) && opt_nat_eq (noisy a) (noisy b) && opt_nat_eq (sparse a) (sparse b).
Definition tok_combined (two_d : bool) (a b : nat) (k : option nat) (s : sim nat nat) : outcome nat nat :=
  combined tok_noise tok_sparse (fun _ => two_d) (add_noise_body a) (sparsify_body b) k s.
Definition tok_check (two_d : bool) (a b : nat) (k : option nat) (s : sim nat nat)
           (exp_raised : bool) (exp : sim nat nat) : bool :=
  let r := tok_combined two_d a b k s in
  Bool.eqb (raised r) exp_raised && state_eq (final r) exp.

(* the same for the defect model of the current code (no try/finally) *)
Definition tok_check_nofinally (two_d : bool) (a b : nat) (k : option nat) (s : sim nat nat)
           (exp_raised : bool) (exp : sim nat nat) : bool :=
  let r := combined_nofinally tok_noise tok_sparse (fun _ => two_d)
                              (add_noise_body a) (sparsify_body b) k s in
  Bool.eqb (raised r) exp_raised && state_eq (final r) exp.

(* a whole fault enumeration at once: list of (schedule, (raised?, observed final state)) *)
Definition tok_check_all (two_d : bool) (a b : nat) (s : sim nat nat)
           (obs : list (option nat * (bool * sim nat nat))) : bool :=
  forallb (fun e => tok_check two_d a b (fst e) s (fst (snd e)) (snd (snd e))) obs.
Definition tok_check_all_nofinally (two_d : bool) (a b : nat) (s : sim nat nat)
           (obs : list (option nat * (bool * sim nat nat))) : bool :=
  forallb (fun e => tok_check_nofinally two_d a b (fst e) s (fst (snd e)) (snd (snd e))) obs.

(* binary-number front end (fault positions are several hundred: no unary literals) *)
Definition optN (k : option N) : option nat := match k with Some n => Some (N.to_nat n) | None => None end.
Definition tok_check_allN (two_d : bool) (a b : N) (s : sim nat nat)
           (obs : list (option N * (bool * sim nat nat))) : bool :=
  tok_check_all two_d (N.to_nat a) (N.to_nat b) s (map (fun e => (optN (fst e), snd e)) obs).
Definition tok_check_all_nofinallyN (two_d : bool) (a b : N) (s : sim nat nat)
           (obs : list (option N * (bool * sim nat nat))) : bool :=
  tok_check_all_nofinally two_d (N.to_nat a) (N.to_nat b) s (map (fun e => (optN (fst e), snd e)) obs).

(* compact front end for the fault enumeration: one primitive integer per fault
   point, km*1000 + 100*data + 10*noisy + sparse with field codes
   0 = absent, 1 = clean data, 2 = previous noisy, 3 = previous sparse,
   4 = new noisy (token 11), 5 = new sparse (token 31), 9 = anything else *)
Definition dec_tok (c : Z) : option nat :=
  match c with
  | 0%Z => None | 1%Z => Some 1%nat | 2%Z => Some 2%nat | 3%Z => Some 3%nat
  | 4%Z => Some 11%nat | 5%Z => Some 31%nat | _ => Some 999%nat
  end.
Definition dec_state (z : Z) : sim nat nat :=
  tok_state (dec_tok ((z / 100) mod 10)%Z) (dec_tok ((z / 10) mod 10)%Z) (dec_tok (z mod 10)%Z).
Definition dec_obs (x : int) : option nat * (bool * sim nat nat) :=
  let z := Uint63.to_Z x in (Some (Z.to_nat (z / 1000)%Z), (true, dec_state (z mod 1000)%Z)).
Definition tok_check_allP (defect two_d : bool) (a b : int) (s0 : int)
           (free_raised : bool) (free_state : int) (obs : list int) : bool :=
  let a' := Z.to_nat (Uint63.to_Z a) in
  let b' := Z.to_nat (Uint63.to_Z b) in
  let s := dec_state (Uint63.to_Z s0) in
  let all := (None, (free_raised, dec_state (Uint63.to_Z free_state))) :: map dec_obs obs in
  if defect then tok_check_all_nofinally two_d a' b' s all else tok_check_all two_d a' b' s all.
