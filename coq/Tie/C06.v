(* Tie/C06.v — executable glue of the C06 correspondence check (no theorems). *)
From Coq Require Import List QArith Qabs Bool.
From FDAV Require Import Base.Num Base.Vec Base.Cmp Model.Basis Model.Pspline Model.LocalPoly.
Import ListNotations.
Local Open Scope Q_scope.

Definition kern (k : nat) : Q -> Q :=
  match k with 0%nat => k_epan opsQ | 1%nat => k_tricube opsQ | _ => k_bisquare opsQ end.
(* 1-D, compact kernels: everything from (x, y, x0, h, p) is the model's *)
Definition lp1_ok (tolA tol : Q) (k p : nat) (x0 h : Q) (xs ys beta : list Q) (est : Q) : bool :=
  let D := design_1d opsQ p x0 h xs in
  let w := weights_1d opsQ (kern k) x0 h xs in
  vclose tolA (Aop opsQ (S p) D w [] beta) (rhs opsQ (S p) D w ys)
  && qclose tol (nth 0 beta 0) est.
(* oracle weights (Gaussian kernel; 2-D norms): the weights come from the harness and are checked to be
   non-negative; the rest is the model's *)
Definition lp1w_ok (tolA tol : Q) (p : nat) (x0 h : Q) (xs ws ys beta : list Q) (est : Q) : bool :=
  let D := design_1d opsQ p x0 h xs in
  forallb (Qle_bool 0) ws
  && vclose tolA (Aop opsQ (S p) D ws [] beta) (rhs opsQ (S p) D ws ys)
  && qclose tol (nth 0 beta 0) est.
Definition lp2_ok (tolA tol tolr : Q) (k p nb : nat) (x0 y0 h : Q) (pts : list (Q * Q)) (rs ys beta : list Q) (est : Q) : bool :=
  let D := design_2d opsQ p x0 y0 h pts in
  (* rs = oracle Euclidean norms of the scaled offsets: r^2 = u^2 + v^2 *)
  all2 (fun q r => let u := scaled opsQ x0 h (fst q) in let v := scaled opsQ y0 h (snd q) in
                   Qle_bool 0 r && qclose tolr (r * r) (u * u + v * v)) pts rs
  && (let w := map (kern k) rs in
      vclose tolA (Aop opsQ nb D w [] beta) (rhs opsQ nb D w ys)
      && qclose tol (nth 0 beta 0) est).
