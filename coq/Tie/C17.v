(* Tie/C17.v — executable glue of the C17 correspondence check (no theorems). *)
From Coq Require Import List QArith Bool Arith.
From FDAV Require Import Base.Num Base.Vec Base.Quad Base.Cmp Model.Fcptpa.
Import ListNotations.

(* ---- loop skeleton: convergence oracles given as tables ----
   [nth i (nth k tbl [])] = the smallest tolerance level at which the while-test
   of component k, evaluated after i updates, reports convergence
   ([never] = at no level).  Missing entries = never. *)
Definition never : nat := 1000%nat.
Definition conv_tbl (tbl : list (list nat)) (k i level : nat) : bool :=
  (nth i (nth k tbl []) never <=? level)%nat.

Fixpoint nat_list_eqb (a b : list nat) : bool :=
  match a, b with
  | [], [] => true
  | x :: a', y :: b' => (x =? y)%nat && nat_list_eqb a' b'
  | _, _ => false
  end.

Fixpoint bool_list_eqb (a b : list bool) : bool :=
  match a, b with
  | [], [] => true
  | x :: a', y :: b' => Bool.eqb x y && bool_list_eqb a' b'
  | _, _ => false
  end.

(* forced exit (the UserWarning) per component; every component starts at level 0
   (theorem tolerance_restored) *)
Definition forced_flags (tbl : list (list nat)) (maxit : nat) (adapt : bool) (ncomp : nat) : list bool :=
  map (fun k => match component_loop (conv_tbl tbl k) maxit adapt 0 with
                | Some st => l_forced st | None => false end) (seq 0 ncomp).

(* observed numbers of updates per component = the model's, the tolerance is back
   at the user's level at the end, every count within 2*max+1, forced exits agree *)
Definition counts_ok (tbl : list (list nat)) (maxit : nat) (adapt : bool) (ncomp : nat)
           (observed : list nat) (forced : list bool) : bool :=
  match fit_loop ncomp (conv_tbl tbl) maxit adapt with
  | Some (cs, lv) => nat_list_eqb cs observed && (lv =? 0)%nat &&
                     forallb (fun c => (c <=? 2 * maxit + 1)%nat) cs &&
                     bool_list_eqb (forced_flags tbl maxit adapt ncomp) forced
  | None => false
  end.
Definition all_counts_ok (maxit : nat) (adapt : bool)
           (cases : list (list (list nat) * nat * list nat * list bool)) : bool :=
  forallb (fun c => counts_ok (fst (fst (fst c))) maxit adapt (snd (fst (fst c))) (snd (fst c)) (snd c)) cases.
Definition model_counts (tbl : list (list nat)) (maxit : nat) (adapt : bool) (ncomp : nat) :=
  fit_loop ncomp (conv_tbl tbl) maxit adapt.

(* ---- numeric part ---- *)
Definition mk_comp (u v w : list Q) (su sv sw : Q) : rawcomp Q := ((u, v, w), (su, sv, sw)).

(* scores (as columns), flattened eigenimages, reconstruction, residual energy.
   [fit_num] is evaluated once; [fit_scores X comps] is by definition
   [score_cols (fst (fit_num X comps)) (map unit_u comps)]. *)
Definition fit_tie (tol etol : Q) (n : nat) (X : list Q) (comps : list (rawcomp Q))
           (S_impl img_impl : list (list Q)) (rec_impl : list Q) (err_impl : Q) : bool :=
  let fn := fit_num opsQ X comps in
  let S := score_cols opsQ (fst fn) (map (unit_u opsQ) comps) in
  let imgs := map (@concat Q) (fit_images opsQ comps) in
  let r := snd fn in
  mclose tol S S_impl && mclose tol imgs img_impl
  && vclose tol (recon_scores opsQ n S imgs) rec_impl
  && vclose tol (vsub opsQ X r) rec_impl
  && qclose etol (sqnorm opsQ r) err_impl
  && qclose etol (Qred (sqnorm opsQ X - sqnorm opsQ (fst fn))) err_impl.

(* the normalize option: ns = oracle values of the L2 norms of the eigenimages *)
Definition fit_tie_normalized (tol : Q) (n : nat) (x1 x2 : list Q) (X : list Q)
           (comps : list (rawcomp Q)) (ns : list Q)
           (S_impl img_impl : list (list Q)) (rec_impl : list Q) : bool :=
  let S := norm_scores opsQ ns (fit_scores opsQ X comps) in
  let F := map2 (norm_image opsQ) ns (fit_images opsQ comps) in
  let imgs := map (@concat Q) F in
  mclose tol S S_impl && mclose tol imgs img_impl
  && vclose tol (recon_scores opsQ n S imgs) rec_impl
  && forallb (fun f => qclose tol (image_normsq opsQ x1 x2 f) 1) F.
