(* Tie/C17.v — executable glue of the C17 correspondence check (no theorems). *)
From Coq Require Import List QArith Bool Arith.
From FDAV Require Import Base.Num Base.Vec Base.Quad Base.Cmp Model.Fcptpa.
Import ListNotations.

(* ---- loop skeleton: convergence oracles given as tables ----
   [nth i (nth k tbl [])] = the smallest tolerance level at which the while-test
   of component k, evaluated after i updates, reports convergence
   ([never] = at no level).  Missing entries = never. *)
Definition never : nat := 1000%nat.
Definition conv_tbl (tbl : list (list nat)) (k i level : nat) : bool :=
  (nth i (nth k tbl []) never <=? level)%nat.

Fixpoint nat_list_eqb (a b : list nat) : bool :=
  match a, b with
  | [], [] => true
  | x :: a', y :: b' => (x =? y)%nat && nat_list_eqb a' b'
  | _, _ => false
  end.

(* observed numbers of updates per component = the model's, the tolerance is back
   at the user's level at the end, every count within 2*max+1 *)
Definition counts_ok (tbl : list (list nat)) (maxit : nat) (adapt : bool) (ncomp : nat)
           (observed : list nat) : bool :=
  match fit_loop ncomp (conv_tbl tbl) maxit adapt with
  | Some (cs, lv) => nat_list_eqb cs observed && (lv =? 0)%nat &&
                     forallb (fun c => (c <=? 2 * maxit + 1)%nat) cs
  | None => false
  end.
Definition all_counts_ok (maxit : nat) (adapt : bool)
           (cases : list (list (list nat) * nat * list nat)) : bool :=
  forallb (fun c => counts_ok (fst (fst c)) maxit adapt (snd (fst c)) (snd c)) cases.
Definition model_counts (tbl : list (list nat)) (maxit : nat) (adapt : bool) (ncomp : nat) :=
  fit_loop ncomp (conv_tbl tbl) maxit adapt.

(* ---- numeric part ---- *)
Definition mk_comp (u v w : list Q) (su sv sw : Q) : rawcomp Q := ((u, v, w), (su, sv, sw)).

(* scores (as columns), flattened eigenimages, reconstruction, residual energy *)
Definition fit_tie (tol etol : Q) (n : nat) (X : list Q) (comps : list (rawcomp Q))
           (S_impl img_impl : list (list Q)) (rec_impl : list Q) (err_impl : Q) : bool :=
  let S := fit_scores opsQ X comps in
  let imgs := map (@concat Q) (fit_images opsQ comps) in
  let r := snd (fit_num opsQ X comps) in
  mclose tol S S_impl && mclose tol imgs img_impl
  && vclose tol (recon_scores opsQ n S imgs) rec_impl
  && vclose tol (vsub opsQ X r) rec_impl
  && qclose etol (sqnorm opsQ r) err_impl
  && qclose etol (Qred (sqnorm opsQ X - sqnorm opsQ (fst (fit_num opsQ X comps)))) err_impl.

(* the normalize option: ns = oracle values of the L2 norms of the eigenimages *)
Definition fit_tie_normalized (tol : Q) (n : nat) (x1 x2 : list Q) (X : list Q)
           (comps : list (rawcomp Q)) (ns : list Q)
           (S_impl img_impl : list (list Q)) (rec_impl : list Q) : bool :=
  let S := norm_scores opsQ ns (fit_scores opsQ X comps) in
  let F := map2 (norm_image opsQ) ns (fit_images opsQ comps) in
  let imgs := map (@concat Q) F in
  mclose tol S S_impl && mclose tol imgs img_impl
  && vclose tol (recon_scores opsQ n S imgs) rec_impl
  && forallb (fun f => qclose tol (image_normsq opsQ x1 x2 f) 1) F.
