(* Tie/C14.v — executable glue of the C14 correspondence check (no theorems). *)
From Coq Require Import List QArith Bool.
From FDAV Require Import Base.Num Base.Vec Base.Quad Base.Cmp Model.Repr.
Import ListNotations.
Local Open Scope Q_scope.
Definition long_ok (tol : Q) (m : nat) (X : list (list Q)) (ids pts : list nat) (vals : list Q) : bool :=
  let L := to_long opsQ m X in
  (Nat.eqb (length L) (length ids))
  && all2 (fun e ip => let '(i, j, _) := e in Nat.eqb i (fst ip) && Nat.eqb j (snd ip)) L (combine ids pts)
  && vclose tol (map (fun e => snd e) L) vals.
Definition csv_ok (hdr : option (list nat)) (ncol : nat) (rows : list (list (option Q)))
           (dense : bool) (out : list (list (nat * Q))) : bool :=
  let absc := csv_abscissae hdr ncol in
  Bool.eqb (csv_complete rows) dense
  && all2 (fun row o => all2 (fun a b => Nat.eqb (fst a) (fst b) && Qeq_bool (snd a) (snd b)) (ragged absc row) o) rows out.
