(* Tie/C11.v — executable glue of the C11 correspondence check (no theorems).
   The harness runs a history on real FDApy objects and records, after EVERY step,
   the outcome class and all observers; [check_trace] replays the same history on
   the model and compares step by step. *)
From Coq Require Import List Bool ZArith.
From FDAV Require Import Model.Container.
Import ListNotations.

(* kind, n_obs, n_functional, n_dimension, n_points (argvals), n_points (values),
   n_points (argvals_stand), identity tokens *)
Definition observation : Type :=
  (nat * nat * nat * list nat * list (list (list nat)) * list (list (list nat))
   * list (list (list nat)) * list nat)%type.

Definition observe (s : obj) : observation :=
  (kind_tag s, n_obs s, n_functional s, n_dimension s, n_points s, values_npoints s,
   stand_npoints s, tokens s).

Definition nll_eqb := list_eqb natl_eqb.
Definition nlll_eqb := list_eqb nll_eqb.
Definition obs_eqb (a b : observation) : bool :=
  match a, b with
  | (k1, n1, f1, d1, p1, v1, s1, t1), (k2, n2, f2, d2, p2, v2, s2, t2) =>
      Nat.eqb k1 k2 && Nat.eqb n1 n2 && Nat.eqb f1 f2 && natl_eqb d1 d2 &&
      nlll_eqb p1 p2 && nlll_eqb v1 v2 && nlll_eqb s1 s2 && natl_eqb t1 t2
  end.

Fixpoint trace_with (st : obj -> op -> obj * outcome) (s : obj) (ops : list op)
  : list (outcome * observation) :=
  match ops with
  | [] => []
  | o :: r => let (s', out) := st s o in (out, observe s') :: trace_with st s' r
  end.

Fixpoint cmp_trace (m i : list (outcome * observation)) : list bool :=
  match m, i with
  | a :: m', b :: i' => (outcome_eqb (fst a) (fst b) && obs_eqb (snd a) (snd b)) :: cmp_trace m' i'
  | [], [] => []
  | _, _ => [false]
  end.

(* one boolean per step: does the implementation agree with the REQUIRED behaviour *)
Definition check_trace (ops : list op) (impl : list (outcome * observation)) : list bool :=
  cmp_trace (trace_with step init ops) impl.
(* ... and with the behaviour of the unrepaired tree (finding F7) *)
Definition check_trace_defect (ops : list op) (impl : list (outcome * observation)) : list bool :=
  cmp_trace (trace_with step_defect init ops) impl.
