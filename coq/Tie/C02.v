(* Tie/C02.v — executable glue of the C02 correspondence check (no theorems).
   Certificates: the defining relations of the theorems' hypotheses/conclusions are evaluated
   exactly in Q on the implementation's output. *)
From Coq Require Import List QArith Qabs Bool.
From FDAV Require Import Base.Num Base.Vec Base.Quad Base.Cmp Model.Ufpca Model.Stats.
Import ListNotations.
Local Open Scope Q_scope.

Definition delta (i j : nat) : Q := if Nat.eqb i j then 1 else 0.
(* | <phi_i, phi_j>_w - delta_ij | <= tol for all i, j *)
Definition orthonormal_w (tol : Q) (w : list Q) (phis : list (list Q)) : bool :=
  forallb (fun i => forallb (fun j =>
     qclose tol (wdot opsQ w (nth i phis []) (nth j phis [])) (delta i j))
     (seq 0 (length phis))) (seq 0 (length phis)).
Definition orthogonal_w (tol : Q) (w : list Q) (phis : list (list Q)) : bool :=
  forallb (fun i => forallb (fun j =>
     Nat.eqb i j || qclose tol (wdot opsQ w (nth i phis []) (nth j phis [])) 0)
     (seq 0 (length phis))) (seq 0 (length phis)).
(* C (w . phi) = lambda phi  for every retained pair *)
Definition eigen_equation (tol : Q) (w : list Q) (C : list (list Q)) (lams : list Q) (phis : list (list Q)) : bool :=
  all2 (fun l phi => vclose tol (mv opsQ C (vmul opsQ w phi)) (vscale opsQ l phi)) lams phis.
(* phi_k = X^T v_k / r_k,  r_k^2 = l_k,  G v_k = l_k v_k *)
(* tolphi is on the scale of the eigenfunctions (unit-free), toll on the scale of the Gram eigenvalues *)
Definition gram_route (tolphi toll : Q) (m : nat) (Xc G : list (list Q)) (ls rs : list Q) (vs phis : list (list Q)) : bool :=
  all2 (fun lr vp => let '(l, r) := lr in let '(v, phi) := vp in
          vclose tolphi (gram_phi opsQ m Xc v r) phi
          && qclose toll (r * r) l
          && vclose toll (mv opsQ G v) (vscale opsQ l v))
       (combine ls rs) (combine vs phis).

(* defect model for finding F1b: np.linalg.eig returns an arbitrary, non-orthogonal basis of the
   null space of a rank-deficient covariance, possibly as complex conjugate pairs whose real parts
   are not even of unit length.  Everything except the inner products (and norms) of null-space
   (eigenvalue <= eps) eigenfunctions among themselves is still required. *)
Definition orthonormal_w_nonnull (tol eps : Q) (w : list Q) (lams : list Q) (phis : list (list Q)) : bool :=
  forallb (fun i => forallb (fun j =>
     (Qle_bool (nth i lams 0) eps && Qle_bool (nth j lams 0) eps)
     || qclose tol (wdot opsQ w (nth i phis []) (nth j phis [])) (delta i j))
     (seq 0 (length phis))) (seq 0 (length phis)).
