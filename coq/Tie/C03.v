(* Tie/C03.v — executable glue of the C03 correspondence check (no theorems). *)
From Coq Require Import List QArith Bool.
From FDAV Require Import Base.Num Base.Vec Base.Quad Base.Cmp Model.Scores.
Import ListNotations.
Local Open Scope Q_scope.

(* scores of raw curves X with stored mean mu, scale s, eigenfunctions phis *)
Definition transform_model (t mu : list Q) (s : Q) (X phis : list (list Q)) : list (list Q) :=
  scores_numint opsQ t (map (prep opsQ mu s) X) phis.
(* finding F2: what transform(data) does with normalize=True: centred scores when s = 1,
   scores of the UNCENTRED rescaled curve otherwise *)
Definition transform_model_uncentred (t : list Q) (s : Q) (X phis : list (list Q)) : list (list Q) :=
  scores_numint opsQ t (map (prep_uncentred opsQ s) X) phis.
Definition inverse_model (m : nat) (mu : list Q) (s : Q) (phis scores : list (list Q)) : list (list Q) :=
  map (inverse opsQ m mu s phis) scores.
(* sum_i xi_ij xi_ik = f * lambda_k delta_jk *)
Definition score_cov_ok (tol f : Q) (lams : list Q) (S : list (list Q)) : bool :=
  let K := length lams in
  forallb (fun j => forallb (fun k =>
    qclose tol (dot opsQ (map (fun row => nth j row 0) S) (map (fun row => nth k row 0) S))
               (if Nat.eqb j k then f * nth k lams 0 else 0)) (seq 0 K)) (seq 0 K).
