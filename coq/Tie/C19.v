(* Tie/C19.v — executable glue of the C19 correspondence check (no theorems). *)
From Coq Require Import List QArith Qabs Bool Arith ZArith Uint63.
From FDAV Require Import Base.Num Base.Vec Base.Cmp Model.Simul.
Import ListNotations.

(* cheap exact float literals: +/- m * 2^e with m a primitive 63-bit integer (a
   double's mantissa has 53 bits).  Unary/binary positive literals of 16 digits cost
   ~2 ms each to elaborate; primitive integers cost nothing. *)
Definition qof (neg : bool) (m : int) (e : Z) : Q :=
  let z := Uint63.to_Z m in
  let z := if neg then Z.opp z else z in
  match e with
  | Zneg p => Qred (Qmake z (Pos.shiftl 1 (Npos p)))
  | _ => Qmake (Z.shiftl z e) 1
  end.

Definition nats_eq (a b : list nat) : bool := all2 Nat.eqb a b.
Definition labels_eq (n k : nat) (impl : list nat) : bool := nats_eq (labels n k) impl.

(* rational eigenvalue families: model exact in Q, implementation = nearest doubles *)
Definition eig_check (name : nat) (n : nat) (tol : Q) (impl : list Q) : bool :=
  match name with
  | 0%nat => vclose tol (eig_linear opsQ n) impl
  | 1%nat => vclose tol (eig_inverse opsQ n) impl
  | _ => vclose tol (eig_quadratic opsQ n) impl
  end.
Definition pos_noninc_b (l : list Q) : bool :=
  forallb (fun x => negb (Qle_bool x 0)) l &&
  (fix go (l : list Q) : bool :=
     match l with a :: ((b :: _) as r) => Qle_bool b a && go r | _ => true end) l.

Definition kl_check (tol : Q) (m : nat) (C B impl : list (list Q)) : bool :=
  mclose tol (kl_data opsQ m C B) impl.

Definition std_check (tol init sd : Q) (zs impl : list Q) : bool :=
  vclose tol (std_brownian opsQ init sd zs) impl &&
  match impl with v0 :: _ => Qeq_bool v0 init | [] => false end.
Definition geo_check (tol init : Q) (es impl : list Q) : bool :=
  vclose tol (geo_brownian opsQ init es) impl.
Definition delta_check (tol : Q) (xs : list Q) (delta : Q) : bool :=
  qclose tol (brownian_delta opsQ xs) delta.
Definition grid_check (rtol atol : Q) (xs : list Q) (accepted : bool) : bool :=
  Bool.eqb (brownian_accepts opsQ rtol atol (Some xs)) accepted.
