(* Tie/C08.v — executable glue of the C08 correspondence check (no theorems). *)
From Coq Require Import List QArith Bool.
From FDAV Require Import Base.Num Base.Vec Base.Quad Base.Cmp.
Import ListNotations.

Definition gram_centred (x : list Q) (X : list (list Q)) (nv : Q) : list (list Q) :=
  gram opsQ x (center_rows opsQ (length x) X) nv.
Definition normsq2 (x1 x2 : list Q) (F : list (list Q)) : Q := inner2 opsQ x1 x2 F F.
