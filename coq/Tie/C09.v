(* Tie/C09.v / C10 — executable glue of the C09 and C10 correspondence checks (no theorems). *)
From Coq Require Import List QArith Bool Arith.
From FDAV Require Import Base.Num Base.Vec Base.Quad Base.Cmp Model.Stats Gen.Consts.
Import ListNotations.

Definition dseq (k : nat) : list Q :=
  match find (fun e => Nat.eqb (fst e) k) diff_sequences with
  | Some e => snd e
  | None => []
  end.
Definition cov_sym (m : nat) (X : list (list Q)) : list (list Q) :=
  symmetrise opsQ m (cov opsQ m X).
(* the oracle roots handed to the model must be roots: r*r ~ v *)
Definition roots_ok (tol : Q) (rs vs : list Q) : bool :=
  all2 (fun r v => Qle_bool 0 r && qclose tol (r * r) v) rs vs.
Definition normsqs (x : list Q) (X : list (list Q)) : list Q := map (normsq opsQ x) X.
