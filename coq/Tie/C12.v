(* Tie/C12.v — executable glue of the C12 correspondence check (no theorems). *)
From Coq Require Import List QArith Qround Qabs Bool ZArith.
From FDAV Require Import Base.Num Base.Vec Base.Cmp Model.Arith.
Import ListNotations.
Local Open Scope Q_scope.

(* np.allclose defaults *)
Definition c12_rtol : Q := 1 # 100000.
Definition c12_atol : Q := 1 # 100000000.

Definition num_match (exact : bool) (rel : Q) (m i : Q) : bool :=
  if exact then Qeq_bool m i
  else Qle_bool (Qabs (Qred (m - i))) (Qred (rel * (if Qle_bool 1 (Qabs m) then Qabs m else 1))).
Definition vals_match (exact : bool) (rel : Q) (m i : list (list Q)) : bool :=
  all2 (all2 (num_match exact rel)) m i.
Definition samp_match (a b : fd Q) : bool :=
  all2 (all2 (all2 Qeq_bool)) (sampling a) (sampling b).
Definition fd_match (exact : bool) (rel : Q) (m i : fd Q) : bool :=
  same_kind m i && samp_match m i && vals_match exact rel (values m) (values i).

(* cls : 0 = a result was returned, 1 = TypeError, 2 = ValueError (3 = anything else) *)
Definition check_res (exact : bool) (rel : Q) (r : result Q) (cls : nat) (impl : fd Q) : bool :=
  match r with
  | Res m => Nat.eqb cls 0 && fd_match exact rel m impl
  | ErrType => Nat.eqb cls 1
  | ErrValue => Nat.eqb cls 2
  end.
Definition check_binop (f : bop) (exact : bool) (rel : Q) (a b : fd Q) (cls : nat) (impl : fd Q) : bool :=
  check_res exact rel (binop opsQ f a b) cls impl.
Definition check_scalar (f : bop) (exact : bool) (rel : Q) (a : fd Q) (c : Q) (cls : nat) (impl : fd Q) : bool :=
  Nat.eqb cls 0 && fd_match exact rel (scalar_op opsQ f a c) impl.

(* floor division: floor of the exact quotient, compared only when that quotient is not
   within eps of an integer (the float quotient may fall on the other side) *)
Definition floor_match (eps : Q) (q i : Q) : bool :=
  let fl := inject_Z (Qfloor q) in
  if Qle_bool (q - fl) eps || Qle_bool (fl + 1 - q) eps then true else Qeq_bool fl i.
Definition fd_floor_match (eps : Q) (m i : fd Q) : bool :=
  same_kind m i && samp_match m i && all2 (all2 (floor_match eps)) (values m) (values i).
Definition check_floordiv (eps : Q) (a b : fd Q) (cls : nat) (impl : fd Q) : bool :=
  match binop opsQ Div a b with
  | Res m => Nat.eqb cls 0 && fd_floor_match eps m impl
  | ErrType => Nat.eqb cls 1
  | ErrValue => Nat.eqb cls 2
  end.
Definition check_floordiv_scalar (eps : Q) (a : fd Q) (c : Q) (cls : nat) (impl : fd Q) : bool :=
  Nat.eqb cls 0 && fd_floor_match eps (scalar_op opsQ Div a c) impl.

(* equality, membership, removal *)
Definition model_eq (a b : fd Q) : bool := fd_eqb opsQ c12_rtol c12_atol a b.
Definition model_eq_defect (a b : fd Q) : option bool := fd_eqb_defect opsQ c12_rtol c12_atol a b.
Definition model_mem (x : fd Q) (l : list (fd Q)) : bool := mv_mem opsQ c12_rtol c12_atol x l.
Fixpoint first_eq (x : fd Q) (l : list (fd Q)) : option nat :=
  match l with
  | [] => None
  | e :: l' => if model_eq e x then Some 0%nat
               else match first_eq x l' with Some k => Some (S k) | None => None end
  end.
(* position of the removed element (None = ValueError) and length of what remains *)
Definition model_remove (l : list (fd Q)) (x : fd Q) : option nat * option nat :=
  (first_eq x l, match mv_remove opsQ c12_rtol c12_atol l x with Some r => Some (length r) | None => None end).
