(* Tie/C16.v — executable glue of the C16 correspondence check (no theorems).
   The harness hands over what it observed of each call of a scenario:
   (allocation watermark before the call, argument footprint, written locations,
   fresh locations, result footprint) and the set of frozen locations. *)
From Coq Require Import List Arith Bool.
From FDAV Require Import Model.Heap Model.Purity.
Import ListNotations.

Definition frozen_of (fz : list loc) : loc -> bool := fun l => mem l fz.
Definition obs_call (args writes fresh roots : list nat) : call :=
  mkC args (map (fun l => (l, 0)) writes) fresh roots.

(* the frame condition of frame_lifts_to_histories on an observed history of calls *)
Fixpoint scenario_ok (fz : list loc) (U : list loc) (cs : list (nat * call)) : bool :=
  match cs with
  | [] => true
  | (n, c) :: cs' => call_ok (frozen_of fz) n U c
                     && scenario_ok fz (grow (frozen_of fz) U (Pure c)) cs'
  end.
Definition scenarios_ok (l : list (list loc * list (nat * call))) : bool :=
  forallb (fun s => scenario_ok (fst s) [] (snd s)) l.

(* diagnostics: (index of the call, 1 = allocation below the watermark, 2 = write to a
   location it did not allocate, 3 = result shares a mutable location with the arguments) *)
Definition call_codes (fz : loc -> bool) (n : nat) (U : list loc) (c : call) : list nat :=
  (if forallb (fun l => n <=? l) (c_fresh c) then [] else [1])
  ++ (if forallb (fun w => mem (fst w) (c_fresh c)) (c_writes c) then [] else [2])
  ++ (if forallb (fun l => mem l (c_fresh c) || fz l || (mem l U && negb (mem l (c_args c)))) (c_roots c)
      then [] else [3]).
Fixpoint scenario_report (fz : list loc) (U : list loc) (i : nat) (cs : list (nat * call)) : list (nat * list nat) :=
  match cs with
  | [] => []
  | (n, c) :: cs' =>
      (match call_codes (frozen_of fz) n U c with [] => [] | l => [(i, l)] end)
      ++ scenario_report fz (grow (frozen_of fz) U (Pure c)) (S i) cs'
  end.

(* uninitialised memory: is the observed pattern "zero-variance points present, out= given?" clean *)
Definition divide_clean (with_out : bool) (x std : list nat) : bool :=
  wbr [] (if with_out then divide_where_with_out x std else divide_where_no_out x std).
