(* Props/C12.v — property C12: arithmetic is pointwise and guarded; equality is a
   sound total comparison.  Statements only; proofs in Lemmas/Arith.v; model in
   Model/Arith.v.  Exact arithmetic (opsR); the float versions are checked by the
   correspondence run.  A dataset is its kind, its sampling points ([sampling]) and its
   values, one flattened row per observation ([values]). *)
From Coq Require Import List Bool Reals QArith.
From FDAV Require Import Base.Num Base.Vec Model.Arith Lemmas.Arith Lemmas.ArithMore.
Import ListNotations.
Local Open Scope R_scope.

(* ---- operators act pointwise, keep sampling points and type ---- *)
Theorem C12_binop_pointwise : forall f (a b r : fd R), binop opsR f a b = Res r ->
  values r = map2 (map2 (apply_bop opsR f)) (values a) (values b).
Proof. exact binop_pointwise. Qed.
Print Assumptions C12_binop_pointwise.
Theorem C12_binop_pointwise_entry : forall f (a b r : fd R) i j, binop opsR f a b = Res r ->
  (i < n_obs a)%nat -> (j < length (nth i (values a) []))%nat -> (j < length (nth i (values b) []))%nat ->
  nth j (nth i (values r) []) 0 =
  apply_bop opsR f (nth j (nth i (values a) []) 0) (nth j (nth i (values b) []) 0).
Proof. exact binop_pointwise_entry. Qed.
Print Assumptions C12_binop_pointwise_entry.
Theorem C12_binop_keeps_argvals_type : forall f (a b r : fd R), binop opsR f a b = Res r ->
  same_kind r a = true /\ sampling r = sampling a /\ n_obs r = n_obs a.
Proof. exact binop_keeps_argvals_type. Qed.
Print Assumptions C12_binop_keeps_argvals_type.
Theorem C12_scalar_keeps_argvals_type : forall f (a : fd R) c,
  same_kind (scalar_op opsR f a c) a = true /\ sampling (scalar_op opsR f a c) = sampling a /\
  values (scalar_op opsR f a c) = map (map (fun x => apply_bop opsR f x c)) (values a).
Proof. exact scalar_keeps_argvals_type. Qed.
Print Assumptions C12_scalar_keeps_argvals_type.
(* thin by construction (operands are values of the model); the real content is the snapshot
   comparison of the operands in the correspondence run *)
Theorem C12_operands_untouched : forall f (a b : fd R),
  fst (fst (binop_full opsR f a b)) = a /\ snd (fst (binop_full opsR f a b)) = b.
Proof. exact operands_untouched. Qed.
Print Assumptions C12_operands_untouched.

(* ---- incompatible operands are rejected: one theorem per way of being incompatible ---- *)
Theorem C12_incompatible_type : forall f (a b : fd R), same_kind a b = false -> binop opsR f a b = ErrType.
Proof. exact incompatible_type. Qed.
Print Assumptions C12_incompatible_type.
Theorem C12_incompatible_nobs : forall f (a b : fd R), same_kind a b = true -> n_obs a <> n_obs b ->
  binop opsR f a b = ErrValue.
Proof. exact incompatible_nobs. Qed.
Print Assumptions C12_incompatible_nobs.
Theorem C12_incompatible_dimension : forall f (a b : fd R), same_kind a b = true -> n_dim a <> n_dim b ->
  binop opsR f a b = ErrValue.
Proof. exact incompatible_dimension. Qed.
Print Assumptions C12_incompatible_dimension.
(* different number of points or different grid values: the sampling points differ *)
Theorem C12_incompatible_sampling : forall f (a b : fd R), same_kind a b = true -> sampling a <> sampling b ->
  binop opsR f a b = ErrValue.
Proof. exact incompatible_sampling. Qed.
Print Assumptions C12_incompatible_sampling.
Theorem C12_binop_guard : forall f (a b r : fd R), binop opsR f a b = Res r ->
  same_kind a b = true /\ n_obs a = n_obs b /\ n_dim a = n_dim b /\ sampling a = sampling b.
Proof. exact binop_guard. Qed.
Print Assumptions C12_binop_guard.

(* ---- the usual identities ---- *)
Theorem C12_add_sub_cancel : forall (a b s : fd R), shape_eq a b ->
  binop opsR Add a b = Res s -> binop opsR Sub s b = Res a.
Proof. exact add_sub_cancel. Qed.
Print Assumptions C12_add_sub_cancel.
Theorem C12_mul_one : forall (a : fd R), scalar_op opsR Mul a 1 = a.
Proof. exact mul_one. Qed.
Print Assumptions C12_mul_one.
(* the other neutral scalars: the VALUES of a + 0, a - 0, a / 1 are those of a (that the result is nevertheless a NEW object
   is checked on the implementation by the neutral-scalar monitor of ./check C12) *)
Theorem C12_add_zero : forall (a : fd R), scalar_op opsR Add a 0 = a.
Proof. exact add_zero. Qed.
Print Assumptions C12_add_zero.
Theorem C12_sub_zero : forall (a : fd R), scalar_op opsR Sub a 0 = a.
Proof. exact sub_zero. Qed.
Print Assumptions C12_sub_zero.
Theorem C12_div_one : forall (a : fd R), scalar_op opsR Div a 1 = a.
Proof. exact div_one. Qed.
Print Assumptions C12_div_one.
Theorem C12_add_comm : forall (a b r : fd R), binop opsR Add a b = Res r -> binop opsR Add b a = Res r.
Proof. exact add_comm. Qed.
Print Assumptions C12_add_comm.
Theorem C12_mul_comm : forall (a b r : fd R), binop opsR Mul a b = Res r -> binop opsR Mul b a = Res r.
Proof. exact mul_comm. Qed.
Print Assumptions C12_mul_comm.
Theorem C12_scalar_distributes : forall (a b s : fd R) c, binop opsR Add a b = Res s ->
  binop opsR Add (scalar_op opsR Mul a c) (scalar_op opsR Mul b c) = Res (scalar_op opsR Mul s c).
Proof. exact scalar_distributes. Qed.
Print Assumptions C12_scalar_distributes.

(* ---- equality: total, reflexive, true exactly when sampling points coincide and values are
   close (NumPy: |x - y| <= atol + rtol |y|, on equal shapes) ---- *)
Theorem C12_eqb_total : forall rtol atol (a b : fd R),
  fd_eqb opsR rtol atol a b = true \/ fd_eqb opsR rtol atol a b = false.
Proof. exact eqb_total. Qed.
Print Assumptions C12_eqb_total.
Theorem C12_eqb_spec : forall rtol atol (a b : fd R),
  fd_eqb opsR rtol atol a b = true <->
  same_kind a b = true /\ sampling a = sampling b /\ values_close rtol atol a b.
Proof. exact eqb_spec. Qed.
Print Assumptions C12_eqb_spec.
Theorem C12_eqb_refl : forall rtol atol (a : fd R), 0 <= rtol -> 0 <= atol -> fd_eqb opsR rtol atol a a = true.
Proof. exact eqb_refl. Qed.
Print Assumptions C12_eqb_refl.
Theorem C12_eqb_false_cases : forall rtol atol (a b : fd R),
  (same_kind a b = false \/ sampling a <> sampling b \/ n_obs a <> n_obs b \/ ~ shape_eq a b) ->
  fd_eqb opsR rtol atol a b = false.
Proof. exact eqb_false_cases. Qed.
Print Assumptions C12_eqb_false_cases.

(* ---- membership and removal work: never another failure than "not in list"; remove deletes
   the first equal element and nothing else ---- *)
Theorem C12_mem_remove_total : forall rtol atol (l : list (fd R)) x,
  (mv_mem opsR rtol atol x l = true /\ exists l', mv_remove opsR rtol atol l x = Some l') \/
  (mv_mem opsR rtol atol x l = false /\ mv_remove opsR rtol atol l x = None).
Proof. exact mem_remove_total. Qed.
Print Assumptions C12_mem_remove_total.
Theorem C12_remove_spec : forall rtol atol (l l' : list (fd R)) x, mv_remove opsR rtol atol l x = Some l' <->
  exists l1 e l2, l = l1 ++ e :: l2 /\ fd_eqb opsR rtol atol e x = true /\
                  Forall (fun e' => fd_eqb opsR rtol atol e' x = false) l1 /\ l' = l1 ++ l2.
Proof. exact remove_spec. Qed.
Print Assumptions C12_remove_spec.
Theorem C12_mem_spec : forall rtol atol (l : list (fd R)) x,
  mv_mem opsR rtol atol x l = true <-> exists e, In e l /\ fd_eqb opsR rtol atol e x = true.
Proof. exact mem_spec. Qed.
Print Assumptions C12_mem_spec.
Theorem C12_mem_in : forall rtol atol (l : list (fd R)) x, 0 <= rtol -> 0 <= atol -> In x l ->
  mv_mem opsR rtol atol x l = true.
Proof. exact mem_in. Qed.
Print Assumptions C12_mem_in.

(* ---- finding F8: the unrepaired equality ---- *)
Theorem C12_irregular_eq_ignores_values_refuted : exists a b : fd Q,
  fd_eqb_defect opsQ rtolQ atolQ a b = Some true /\ fd_eqb opsQ rtolQ atolQ a b = false.
Proof. exact irregular_eq_ignores_values_refuted. Qed.
Print Assumptions C12_irregular_eq_ignores_values_refuted.
Theorem C12_dense_eq_partial_refuted : exists a b : fd Q,
  fd_eqb_defect opsQ rtolQ atolQ a b = None /\ fd_eqb opsQ rtolQ atolQ a b = false.
Proof. exact dense_eq_partial_refuted. Qed.
Print Assumptions C12_dense_eq_partial_refuted.
Theorem C12_remove_defect_refuted : exists (l : list (fd Q)) (x : fd Q),
  mv_remove_defect opsQ rtolQ atolQ l x = None /\
  mv_remove opsQ rtolQ atolQ l x = Some [Dense [[0; 1; 2]] [[1; 2; 3]; [4; 5; 6]]]%Q.
Proof. exact remove_defect_refuted. Qed.
Print Assumptions C12_remove_defect_refuted.

(* non-vacuity: a compatible 2-observation pair, an incompatible one, an unequal pair *)
Local Close Scope R_scope.
Local Open Scope Q_scope.
Example C12_example :
  binop opsQ Add (Dense [[0; 1#2; 1]] [[1; 2; 3]; [4; 5; 6]]) (Dense [[0; 1#2; 1]] [[1; 1; 1]; [2; 2; 2]])
    = Res (Dense [[0; 1#2; 1]] [[2; 3; 4]; [6; 7; 8]])
  /\ binop opsQ Mul (Dense [[0; 1#2; 1]] [[1; 2; 3]]) (Dense [[0; 1#2; 3#4]] [[1; 1; 1]]) = ErrValue
  /\ binop opsQ Add (Dense [[0; 1]] [[1; 2]]) (Irreg [([[0; 1]], [1; 2])]) = ErrType
  /\ fd_eqb opsQ rtolQ atolQ (Irreg [([[0; 1]], [1; 2])]) (Irreg [([[0; 1]], [1; 3])]) = false
  /\ fd_eqb opsQ rtolQ atolQ (Dense [[0; 1]] [[1; 2]]) (Dense [[0; 1]] [[1; 2 + (1#1000000000)]]) = true.
Proof. vm_compute. repeat split; reflexivity. Qed.
