(* Props/C07.v — property C07: a smoothed value depends only on the data and on its own location.
   Statements only; proofs in Lemmas/Smooth.v.  These are congruence laws of the model (thin by
   construction, DESIGN 1.4): what they pin down is that the FIT DOMAIN belongs to the fitted state and
   that prediction is a map over the query; that the implementation factors through this model is what
   the correspondence run establishes (it is where the F6 defect was found and repaired). *)
From Coq Require Import List Permutation QArith.
From FDAV Require Import Base.Num Base.Vec Model.Basis Model.Smooth Model.Pspline Lemmas.Smooth Lemmas.SmoothMore.
Import ListNotations.

(* any pointwise smoother (P-splines with a fitted state, local polynomials with the data):
   the value at a location is the same whichever other locations are requested, in whatever order *)
Theorem C07_independent_of_other_locations : forall (T D : Type) (at_ : D -> T -> T) (data : D) Q1 Q2 i1 i2 d,
  (i1 < length Q1)%nat -> (i2 < length Q2)%nat -> nth i1 Q1 d = nth i2 Q2 d ->
  nth i1 (pointwise_predict at_ data Q1) (at_ data d) = nth i2 (pointwise_predict at_ data Q2) (at_ data d).
Proof. exact @pointwise_independent. Qed.
Print Assumptions C07_independent_of_other_locations.
Theorem C07_subset_query : forall (T D : Type) (at_ : D -> T -> T) (data : D) Q Q', incl Q' Q ->
  forall q, In q Q' -> In (q, at_ data q) (combine Q' (pointwise_predict at_ data Q'))
                       /\ In (q, at_ data q) (combine Q (pointwise_predict at_ data Q)).
Proof. exact @pointwise_sublist. Qed.
Print Assumptions C07_subset_query.
Theorem C07_permuted_query : forall (T D : Type) (at_ : D -> T -> T) (data : D) Q Q', Permutation Q Q' ->
  Permutation (pointwise_predict at_ data Q) (pointwise_predict at_ data Q').
Proof. exact @pointwise_perm. Qed.
Print Assumptions C07_permuted_query.
Theorem C07_ps_predict_is_pointwise : forall (T : Type) (o : ops T) st Q,
  ps_predict o st Q = pointwise_predict (fun s q => ps_eval o s q) st Q.
Proof. exact @ps_predict_pointwise. Qed.
Print Assumptions C07_ps_predict_is_pointwise.
(* evaluating at the original sampling points returns the fitted curve *)
Theorem C07_predict_at_fit_grid : forall (T : Type) (o : ops T) st xs,
  ps_predict o st xs =
  fitted o (design1 (bspline_basis o (ps_a st) (ps_b st) (ps_nseg st) (ps_deg st) xs) (length xs)) (ps_beta st).
Proof. exact @ps_predict_at_fit_grid. Qed.
Print Assumptions C07_predict_at_fit_grid.
(* F6 (repaired): rebuilding the basis on the range of the query changes the value at 1/2 *)
Theorem C07_predict_rebuild_refuted :
  ps_predict opsQ f6_state [1#2; 1] = [1#2; 1] /\
  ps_predict_rebuild opsQ f6_state [1#2; 1] = [0; 1] /\
  ps_predict opsQ f6_state [0; 1#2; 1] = [0; 1#2; 1].
Proof. exact predict_rebuild_refuted. Qed.
Print Assumptions C07_predict_rebuild_refuted.

(* ---- composition of queries: the prediction at a concatenated query is the concatenation of the
   predictions, one value per requested location, and a repeated location gets the same value ---- *)
Theorem C07_ps_predict_app : forall (T : Type) (o : ops T) st Q1 Q2,
  ps_predict o st (Q1 ++ Q2) = ps_predict o st Q1 ++ ps_predict o st Q2.
Proof. exact @ps_predict_app. Qed.
Print Assumptions C07_ps_predict_app.
Theorem C07_ps_predict_length : forall (T : Type) (o : ops T) st Q, length (ps_predict o st Q) = length Q.
Proof. exact @ps_predict_length. Qed.
Print Assumptions C07_ps_predict_length.
Theorem C07_ps_predict_repeat : forall (T : Type) (o : ops T) st Q i j d,
  (i < length Q)%nat -> (j < length Q)%nat -> nth i Q d = nth j Q d ->
  nth i (ps_predict o st Q) (ps_eval o st d) = nth j (ps_predict o st Q) (ps_eval o st d).
Proof. exact @ps_predict_repeat. Qed.
Print Assumptions C07_ps_predict_repeat.
(* only the coefficients and the FIT domain/basis parameters of the state are consulted *)
Theorem C07_ps_predict_state_fields : forall (T : Type) (o : ops T) (st st' : ps_state) Q,
  ps_beta st = ps_beta st' -> ps_a st = ps_a st' -> ps_b st = ps_b st' ->
  ps_nseg st = ps_nseg st' -> ps_deg st = ps_deg st' -> ps_predict o st Q = ps_predict o st' Q.
Proof. exact @ps_predict_state_fields. Qed.
Print Assumptions C07_ps_predict_state_fields.
(* F6 (repaired) characterised: rebuilding the basis on the query is invisible exactly on queries that span
   the fit domain — the only queries the test-suite makes *)
Theorem C07_predict_rebuild_same_range : forall (T : Type) (o : ops T) st q0 Q,
  lmin o (q0 :: Q) q0 = ps_a st -> lmax o (q0 :: Q) q0 = ps_b st ->
  ps_predict_rebuild o st (q0 :: Q) = ps_predict o st (q0 :: Q).
Proof. exact @ps_predict_rebuild_same_range. Qed.
Print Assumptions C07_predict_rebuild_same_range.
(* non-vacuity: a query spanning [0, 1] meets both premises on the F6 state, one inside (1/2, 1) does not *)
Example C07_same_range_example :
  lmin opsQ [0; 1#2; 1] 0 = ps_a f6_state /\ lmax opsQ [0; 1#2; 1] 0 = ps_b f6_state /\
  ps_predict_rebuild opsQ f6_state [0; 1#2; 1] = ps_predict opsQ f6_state [0; 1#2; 1] /\
  lmin opsQ [1#2; 1] (1#2) <> ps_a f6_state.
Proof. vm_compute. repeat split; discriminate. Qed.
