(* Props/C14.v — property C14: changing representation does not change the data.
   Statements only; proofs in Lemmas/Repr.v (and the C05 / C18 lemmas). *)
From Coq Require Import List Reals QArith.
From FDAV Require Import Base.Num Base.Vec Base.Quad Model.Stats Model.Basis Model.Pspline Model.Repr
  Lemmas.Vec Lemmas.Gram Lemmas.Pspline Lemmas.Basis Lemmas.Repr Lemmas.CovCommute.
Import ListNotations.
Local Open Scope R_scope.

(* evaluating a basis expansion on its grid is linear ... *)
Theorem C14_to_grid_linear : forall m Phi a b c c', Forall (fun r => length r = m) Phi -> length c = length c' ->
  mtv opsR m Phi (vadd opsR (vscale opsR a c) (vscale opsR b c')) =
  vadd opsR (vscale opsR a (mtv opsR m Phi c)) (vscale opsR b (mtv opsR m Phi c')).
Proof. exact to_grid_linear. Qed.
Print Assumptions C14_to_grid_linear.
(* ... and commutes with the mean, centering, inner products / norms (Gram matrix of the basis) and scaling *)
Theorem C14_mean_commutes : forall m K Phi C, C <> [] -> Forall (fun r => length r = m) Phi ->
  Forall (fun c => length c = K) C ->
  colmean opsR m (to_grid opsR m Phi C) = mtv opsR m Phi (coef_mean opsR K C).
Proof. exact mean_commutes. Qed.
Print Assumptions C14_mean_commutes.
Theorem C14_center_commutes : forall m K Phi C c, C <> [] -> Forall (fun r => length r = m) Phi ->
  Forall (fun c0 => length c0 = K) C -> length c = K ->
  mtv opsR m Phi (vsub opsR c (coef_mean opsR K C)) =
  vsub opsR (mtv opsR m Phi c) (colmean opsR m (to_grid opsR m Phi C)).
Proof. exact center_commutes. Qed.
Print Assumptions C14_center_commutes.
Theorem C14_inner_commutes : forall m x Phi c c', Forall (fun r => length r = m) Phi ->
  coef_inner opsR (gram_spec opsR x Phi) c c' = inner opsR x (mtv opsR m Phi c) (mtv opsR m Phi c').
Proof. exact inner_commutes. Qed.
Print Assumptions C14_inner_commutes.
Theorem C14_norm_commutes : forall m x Phi c, Forall (fun r => length r = m) Phi ->
  coef_inner opsR (gram_spec opsR x Phi) c c = normsq opsR x (mtv opsR m Phi c).
Proof. exact norm_commutes. Qed.
Print Assumptions C14_norm_commutes.
Theorem C14_scaling_commutes : forall m Phi a c, Forall (fun r => length r = m) Phi ->
  mtv opsR m Phi (vscale opsR a c) = vscale opsR a (mtv opsR m Phi c).
Proof. exact scaling_commutes. Qed.
Print Assumptions C14_scaling_commutes.
(* covariances: (n-1) * cov_grid(s,t) = n * phi(s)^T cov_coef phi(t)   (2-D bases: C18_tensor_row_major) *)
Theorem C14_cov_commutes_up_to_n : forall m K Phi C s t, C <> [] -> (2 <= length C)%nat ->
  Forall (fun r => length r = m) Phi -> length Phi = K -> Forall (fun c => length c = K) C ->
  (s < m)%nat -> (t < m)%nat ->
  INR (length C - 1) * ent (cov opsR m (to_grid opsR m Phi C)) s t =
  INR (length C) * cov_coef_at opsR K Phi C s t.
Proof. exact cov_commutes_up_to_n. Qed.
Print Assumptions C14_cov_commutes_up_to_n.

(* expanding into a spline basis = P-spline smoothing (C05); with zero penalty a curve of the spline
   space gets back its own coefficients (uniqueness: C05_coef_unique) *)
Theorem C14_zero_penalty_exact : forall nb B w D beta0, wfB nb B -> wfB nb D ->
  Aop opsR nb B w [(0, D)] beta0 = rhs opsR nb B w (fitted opsR B beta0).
Proof. exact zero_penalty_exact. Qed.
Print Assumptions C14_zero_penalty_exact.

(* long format: entry i*m+j is (observation i, point j, value): each pair exactly once, row-major *)
Theorem C14_to_long_length : forall m (X : list (list R)), length (to_long opsR m X) = (length X * m)%nat.
Proof. exact to_long_length. Qed.
Print Assumptions C14_to_long_length.
Theorem C14_to_long_nth : forall m (X : list (list R)) i j, (i < length X)%nat -> (j < m)%nat ->
  nth (i * m + j) (to_long opsR m X) (0%nat, 0%nat, 0) = (i, j, nth j (nth i X []) 0).
Proof. exact to_long_nth. Qed.
Print Assumptions C14_to_long_nth.

(* CSV loading: a row keeps exactly its present cells, in order, at their abscissae; the table is
   dense iff no cell is missing *)
Theorem C14_csv_ragged_spec : forall (V : Type) (absc : list nat) (row : list (option V)) t v, length absc = length row ->
  (In (t, v) (ragged absc row) <->
   exists j, (j < length row)%nat /\ nth j absc 0%nat = t /\ nth j row None = Some v).
Proof. exact @ragged_spec. Qed.
Print Assumptions C14_csv_ragged_spec.
Theorem C14_csv_ragged_length : forall (V : Type) (absc : list nat) (row : list (option V)), length absc = length row ->
  length (ragged absc row) = length (filter is_present row).
Proof. exact @ragged_length. Qed.
Print Assumptions C14_csv_ragged_length.
Theorem C14_csv_complete_spec : forall (V : Type) (rows : list (list (option V))),
  csv_complete rows = true <-> forall row c, In row rows -> In c row -> c <> None.
Proof. exact @csv_complete_spec. Qed.
Print Assumptions C14_csv_complete_spec.

Local Close Scope R_scope.
Local Open Scope Q_scope.
Example C14_example :
  to_grid opsQ 3 [[1; 1; 1]; [0; 1; 2]] [[2; 1]; [0; 3]] = [[2; 3; 4]; [0; 3; 6]] /\
  ragged [10; 20; 30]%nat [Some 5; None; Some 7] = [(10%nat, 5); (30%nat, 7)].
Proof. split; vm_compute; reflexivity. Qed.
