(* Props/C11.v — property C11: containers never reach an inconsistent state.
   Statements only; proofs in Lemmas/Container.v.  Model: Model/Container.v
   ([step] = required behaviour; [step_defect] = unrepaired extend / insert /
   argvals_stand, finding F7).  Discrete: closed under the global context. *)
From Coq Require Import List Bool ZArith QArith.
Local Close Scope Q_scope.
From FDAV Require Import Model.Container Lemmas.Container Model.Normalize Lemmas.Normalize Gen.Normalize Lemmas.GenNormalize Lemmas.NormRange.
Import ListNotations.

(* an operation that does not succeed leaves the object as it was *)
Theorem C11_step_error_is_noop : forall s o, snd (step s o) <> Ok -> fst (step s o) = s.
Proof. exact step_error_is_noop. Qed.
Print Assumptions C11_step_error_is_noop.

(* one step keeps the object consistent: values / argvals / argvals_stand agree on the
   number of points (dense: tuples; irregular: per label), all components of a
   multivariate object have the same number of observations *)
Theorem C11_step_preserves_inv : forall s o, Inv s -> Inv (fst (step s o)).
Proof. exact step_preserves_inv. Qed.
Print Assumptions C11_step_preserves_inv.

(* every state reachable by ANY history of operations (valid or not) is consistent *)
Theorem C11_run_inv : forall ops, Inv (run init ops).
Proof. exact run_inv. Qed.
Print Assumptions C11_run_inv.
Theorem C11_run_inv_from : forall s ops, Inv s -> Inv (run s ops).
Proof. exact run_inv_from. Qed.
Print Assumptions C11_run_inv_from.
Theorem C11_run_inv_prefix : forall ops k, Inv (run init (firstn k ops)).
Proof. exact run_inv_prefix. Qed.
Print Assumptions C11_run_inv_prefix.

(* in every reachable state the observers (read from one of the redundant fields, as the
   classes do) agree with the other fields: n_points of argvals = trailing shape of values
   = n_points of argvals_stand; every component has n_obs observations *)
Theorem C11_observers_agree : forall ops,
  match run init ops with
  | OD d => values_npoints (OD d) = n_points (OD d) /\ stand_npoints (OD d) = n_points (OD d)
  | OI i => forall k, lookup k (ivals i) = lookup k (iargs i) /\ lookup k (istand i) = lookup k (iargs i)
  | OM m => n_functional (OM m) = length m /\ forall c, In c m -> g_nobs (snd c) = n_obs (OM m)
  end.
Proof. exact observers_agree. Qed.
Print Assumptions C11_observers_agree.

(* the list-style operations behave like a plain Python list to which exactly the
   accepted operations were applied; rejected operations leave no trace; the observers
   are those of that plain list *)
Theorem C11_run_agrees_plain : forall ops, forallb list_op ops = true ->
  comps (run init ops) = fold_left plain_step (accepted init ops) [] /\
  n_functional (run init ops) = length (fold_left plain_step (accepted init ops) []) /\
  forall c, In c (fold_left plain_step (accepted init ops) []) -> g_nobs (snd c) = n_obs (run init ops).
Proof. exact run_agrees_plain. Qed.
Print Assumptions C11_run_agrees_plain.

(* finding F7: without the guards the invariant is lost ... *)
Theorem C11_extend_unguarded_refuted : exists ops, ~ Inv (run_defect init ops).
Proof. exact extend_unguarded_refuted. Qed.
Print Assumptions C11_extend_unguarded_refuted.
Theorem C11_insert_unguarded_refuted : exists ops, ~ Inv (run_defect init ops).
Proof. exact insert_unguarded_refuted. Qed.
Print Assumptions C11_insert_unguarded_refuted.
Theorem C11_stand_unguarded_refuted : exists ops, ~ Inv (run_defect init ops).
Proof. exact stand_unguarded_refuted. Qed.
Print Assumptions C11_stand_unguarded_refuted.
(* ... although the unrepaired machine, too, leaves the state alone when it raises *)
Theorem C11_step_defect_error_is_noop : forall s o, snd (step_defect s o) <> Ok -> fst (step_defect s o) = s.
Proof. exact step_defect_error_is_noop. Qed.
Print Assumptions C11_step_defect_error_is_noop.

(* non-vacuity: a history with accepted and rejected operations on the three kinds *)
Example C11_example :
  let c1 := (1, GD (mkd [(1, 5)] (3, [5]) [5]))%nat in
  let c2 := (2, GI (mki [(0, [3]); (1, [4]); (2, [2])] [(0, [3]); (1, [4]); (2, [2])]
                        [(0, [3]); (1, [4]); (2, [2])]))%nat in
  let c3 := (3, GD (mkd [(1, 5)] (2, [5]) [5]))%nat in
  map (fun o => snd o) (map (fun k => step (run init (firstn k
       [Append c1; Extend [c2]; Insert 0%Z c3; Pop 5%Z; Remove 7%nat; Reverse; Index (IxSlice None (Some 2%Z) None)]))
       (nth k [Append c1; Extend [c2]; Insert 0%Z c3; Pop 5%Z; Remove 7%nat; Reverse; Index (IxSlice None (Some 2%Z) None)] Clear))
       (seq 0 7))
  = [Ok; Ok; ValueErr; LookupErr; ValueErr; Ok; Ok]
  /\ n_obs (run init [Append c1; Extend [c2]; Reverse; Index (IxSlice None (Some 2%Z) None)]) = 2%nat.
Proof. vm_compute. split; reflexivity. Qed.

(* ---- "standardised sampling points track the sampling points", value level (Model/Normalize.v: the points of every
   observation mapped affinely with the GLOBAL minimum and maximum of the object, as IrregularArgvals.normalization) ----
   one standardised observation per observation, with as many points (unless the range is a single point) *)
Theorem C11_norm_irr_shape : forall obs,
  length (norm_irr obs) = length obs /\
  (Qeq_bool (gmin obs) (gmax obs) = false -> map (@length Q) (norm_irr obs) = map (@length Q) obs).
Proof. intro obs. exact (conj (norm_irr_length obs) (norm_irr_npoints obs)). Qed.
Print Assumptions C11_norm_irr_shape.
(* a subset with the parent's range keeps the parent's standardisation ... *)
Theorem C11_norm_select_same_range : forall idx obs,
  Forall (fun i => (i < length obs)%nat) idx ->
  gmin (select idx obs) = gmin obs -> gmax (select idx obs) = gmax obs ->
  norm_irr (select idx obs) = select idx (norm_irr obs).
Proof. exact norm_select_same_range. Qed.
Print Assumptions C11_norm_select_same_range.
(* ... any other subset does NOT: a derived object must standardise ITS OWN points (copying the parent's is a defect) *)
Theorem C11_norm_select_refuted :
  (norm_irr (select [1%nat] c11_parent) = [[0; 1 # 2; 1]] /\
   select [1%nat] (norm_irr c11_parent) = [[1 # 4; 1 # 2; 3 # 4]] /\
   norm_irr (select [1%nat] c11_parent) <> select [1%nat] (norm_irr c11_parent) /\
   norm_irr (select [2%nat; 0%nat] c11_parent) = select [2%nat; 0%nat] (norm_irr c11_parent))%Q.
Proof. exact norm_select_refuted. Qed.
Print Assumptions C11_norm_select_refuted.
(* the model's standardisation IS the source's: [gen_norm_obs] is translated from IrregularArgvals.normalization on every run
   (harness/reflect.py, fail-closed); the object's global range (self.min_max) is the model's gmin / gmax, tied by the run *)
Theorem C11_source_normalization : forall obs,
  norm_irr obs = map (gen_norm_obs (gmin obs) (gmax obs)) obs /\
  (forall mn mx xs, gen_norm_obs mn mx xs = norm_with mn mx xs).
Proof. intro obs. exact (conj (norm_irr_is_source obs) gen_norm_obs_is_model). Qed.
Print Assumptions C11_source_normalization.
(* dense data: each dimension's grid standardised with its own minimum and maximum; the model is the translated source *)
Theorem C11_source_normalization_dense : forall xs,
  gen_norm_dense xs = norm_dense xs /\ length (norm_dense xs) = length xs.
Proof. intro xs. exact (conj (gen_norm_dense_is_model xs) (norm_dense_length xs)). Qed.
Print Assumptions C11_source_normalization_dense.
Example C11_norm_dense_example : (norm_dense [2; 3; 6] = [0; 1 # 4; 1] /\ norm_dense [6; 2; 3] = [1; 0; 1 # 4])%Q.
Proof. vm_compute. split; reflexivity. Qed.
(* what "standardised" means: every standardised point of a dense grid lies in [0, 1] (grids whose end points differ), and the
   minimum / maximum used are bounds of the grid *)
Theorem C11_norm_dense_range : forall xs, (qmin_list xs < qmax_list xs)%Q ->
  Forall (fun v => 0 <= v /\ v <= 1)%Q (norm_dense xs).
Proof. exact norm_dense_range. Qed.
Print Assumptions C11_norm_dense_range.
Theorem C11_min_max_are_bounds : forall l x, In x l -> (qmin_list l <= x /\ x <= qmax_list l)%Q.
Proof. intros l x H. exact (conj (qmin_list_le l x H) (qmax_list_ge l x H)). Qed.
Print Assumptions C11_min_max_are_bounds.
Theorem C11_norm_irr_range : forall obs, (gmin obs < gmax obs)%Q ->
  Forall (Forall (fun v => 0 <= v /\ v <= 1)%Q) (norm_irr obs).
Proof. exact norm_irr_range. Qed.
Print Assumptions C11_norm_irr_range.
