(* Props/C19.v — property C19: simulations are reproducible and have the
   advertised structure.  Statements only; proofs in Lemmas/Rng.v, Lemmas/Simul.v.

   Reproducibility.  [fam seed] is the stream of default_rng(seed), [sem] is an
   ARBITRARY semantics of the public calls {new, add_noise, sparsify,
   add_noise_and_sparsify} (new fields and number of values consumed as a function
   of the call, the current fields and the unread part of the source); events are
   public calls interleaved with arbitrary uses / reseedings of numpy's global
   generator.  These theorems are congruences (thin): the content is the
   correspondence run showing that the simulators factor through this model. *)
From Coq Require Import List Bool Arith Sorted Reals QArith.
From FDAV Require Import Base.Num Base.Vec Model.Rng Model.Simul Lemmas.Rng Lemmas.Simul.
From FDAV Require Import Gen.Eigenvalues Lemmas.GenEigenvalues.
Import ListNotations.
Local Open Scope nat_scope.

(* with a seed, the outputs after every call are a function of (seed, call
   sequence) alone — [pure_trace] does not mention the global generator — for ALL
   event sequences and all global streams *)
Theorem C19_seeded_independent_of_global : forall (V F C : Type) fam sem
    (evs : list (event V C)) seed (g : nat -> V) gp (f : F),
  trace fam sem evs (seeded seed g gp, f) = pure_trace fam sem (calls_of evs) seed 0 f.
Proof. exact @seeded_independent_of_global_lemma. Qed.
Print Assumptions C19_seeded_independent_of_global.

(* two simulators with the same seed driven by the same calls give identical
   outputs, whatever happens to the global generator between and during them *)
Theorem C19_same_seed_same_outputs : forall (V F C : Type) fam sem
    (evs1 evs2 : list (event V C)) seed (w1 w2 : world V) (f : F),
  priv w1 = Some (seed, 0) -> priv w2 = Some (seed, 0) -> calls_of evs1 = calls_of evs2 ->
  trace fam sem evs1 (w1, f) = trace fam sem evs2 (w2, f).
Proof. exact @same_seed_same_outputs_lemma. Qed.
Print Assumptions C19_same_seed_same_outputs.

(* a call advances the private position by what it consumed; the next call reads
   the stream beyond that point (a different segment); the global generator is
   not touched *)
Theorem C19_successive_draws_consume : forall (V F C : Type) fam sem (c : C) sd p (g : nat -> V) gp (f : F),
  let w := mk sd p g gp in
  let n := snd (sem c f (source fam w)) in
  let w' := fst (step fam sem (w, f) (Call c)) in
  position w' = p + n /\
  (forall i, source fam w' i = fam sd (p + n + i)) /\
  (0 < n -> position w < position w') /\
  gstream w' = g /\ gpos w' = gp.
Proof. exact @successive_draws_consume_lemma. Qed.
Print Assumptions C19_successive_draws_consume.

Theorem C19_position_never_goes_back : forall (V F C : Type) fam sem (evs : list (event V C)) sd p g gp (f : F),
  p <= position (fst (final_state fam sem evs (mk sd p g gp, f))) /\
  exists p' g' gp', fst (final_state fam sem evs (mk sd p g gp, f)) = mk sd p' g' gp'.
Proof. exact @position_monotone. Qed.
Print Assumptions C19_position_never_goes_back.

Theorem C19_seeded_leaves_global_untouched : forall (V F C : Type) fam sem (cs : list C) sd p g gp (f : F),
  gstream (fst (final_state fam sem (map (@Call V C) cs) (mk sd p g gp, f))) = g /\
  gpos (fst (final_state fam sem (map (@Call V C) cs) (mk sd p g gp, f))) = gp.
Proof. exact @seeded_leaves_global_untouched_lemma. Qed.
Print Assumptions C19_seeded_leaves_global_untouched.

(* F12: a `new` that reads the global generator although a seed was given *)
Theorem C19_datasets_refuted :
  exists (fam : nat -> nat -> nat) (sem : unit -> nat -> (nat -> nat) -> nat * nat)
         (seed : nat) (g1 g2 : nat -> nat),
    trace_global sem [Call tt] (seeded seed g1 0, 0) <> trace_global sem [Call tt] (seeded seed g2 0, 0)
    /\ trace fam sem [Call tt] (seeded seed g1 0, 0) = trace fam sem [Call tt] (seeded seed g2 0, 0).
Proof. exact datasets_refuted_lemma. Qed.
Print Assumptions C19_datasets_refuted.

(* ---------- Karhunen-Loève structure ---------- *)
(* entry (i,j) of the data is (row i of the coefficients) . (column j of the basis) *)
Theorem C19_kl_is_coef_times_basis : forall m (C B : list (list R)) i j,
  Forall (fun r => length r = m) B -> i < length C ->
  nth j (nth i (kl_data opsR m C B) []) 0%R = dot opsR (nth i C []) (column opsR j B).
Proof. exact kl_is_coef_times_basis_lemma. Qed.
Print Assumptions C19_kl_is_coef_times_basis.

Theorem C19_kl_multivariate_same_coef : forall ms (C : list (list R)) Bs p,
  p < length ms -> p < length Bs ->
  nth p (kl_multi opsR ms C Bs) [] = kl_data opsR (nth p ms 0) C (nth p Bs []).
Proof. exact kl_multivariate_same_coef_lemma. Qed.
Print Assumptions C19_kl_multivariate_same_coef.

Theorem C19_kl_multivariate_entries : forall ms (C : list (list R)) Bs p i j,
  p < length ms -> p < length Bs -> i < length C ->
  Forall (fun r => length r = nth p ms 0) (nth p Bs []) ->
  nth j (nth i (nth p (kl_multi opsR ms C Bs) []) []) 0%R
  = dot opsR (nth i C []) (column opsR j (nth p Bs [])).
Proof. exact kl_multivariate_entries. Qed.
Print Assumptions C19_kl_multivariate_entries.

Theorem C19_kl_transfer : forall m (C B : list (list Q)),
  map (map Q2R) (kl_data opsQ m C B) = kl_data opsR m (map (map Q2R) C) (map (map Q2R) B).
Proof. exact kl_data_transfer. Qed.
Print Assumptions C19_kl_transfer.

(* ---------- cluster labels: for all n >= 1, k >= 1 ---------- *)
Theorem C19_labels_in_order_near_equal : forall n k, 1 <= n -> 1 <= k ->
  length (labels n k) = n /\
  StronglySorted le (labels n k) /\
  (forall idx, idx < k -> count_occ Nat.eq_dec (labels n k) idx = group_size n k idx) /\
  (forall x, In x (labels n k) -> x < k) /\
  list_sum (map (group_size n k) (seq 0 k)) = n /\
  (forall i j, i < k -> j < k -> group_size n k i <= group_size n k j + 1) /\
  (forall i j, i <= j -> group_size n k j <= group_size n k i).
Proof. exact labels_in_order_near_equal_lemma. Qed.
Print Assumptions C19_labels_in_order_near_equal.

(* ---------- named eigenvalue sequences: positive and non-increasing, all n ---------- *)
Theorem C19_eigvals_pos_noninc_linear : forall n, pos_noninc (eig_linear opsR n).
Proof. exact eig_linear_pos_noninc. Qed.
Print Assumptions C19_eigvals_pos_noninc_linear.
Theorem C19_eigvals_pos_noninc_inverse : forall n, pos_noninc (eig_inverse opsR n).
Proof. exact eig_inverse_pos_noninc. Qed.
Print Assumptions C19_eigvals_pos_noninc_inverse.
Theorem C19_eigvals_pos_noninc_quadratic : forall n, pos_noninc (eig_quadratic opsR n).
Proof. exact eig_quadratic_pos_noninc. Qed.
Print Assumptions C19_eigvals_pos_noninc_quadratic.
Theorem C19_eigvals_pos_noninc_exponential : forall n, pos_noninc (eig_exponential n).
Proof. exact eig_exponential_pos_noninc. Qed.
Print Assumptions C19_eigvals_pos_noninc_exponential.
Theorem C19_eigvals_pos_noninc_sqrt : forall n, pos_noninc (eig_sqrt n).
Proof. exact eig_sqrt_pos_noninc. Qed.
Print Assumptions C19_eigvals_pos_noninc_sqrt.
Theorem C19_eigvals_pos_noninc_wiener : forall n, pos_noninc (eig_wiener n).
Proof. exact eig_wiener_pos_noninc. Qed.
Print Assumptions C19_eigvals_pos_noninc_wiener.

(* the model families are the formulas of the code *)
Theorem C19_eig_linear_formula : forall n, 1 <= n ->
  eig_linear opsR n = map (fun k => (INR (n - k + 1) / INR n)%R) (seq 1 n).
Proof. exact eig_linear_formula. Qed.
Print Assumptions C19_eig_linear_formula.
Theorem C19_eig_entries : forall n k, k < n ->
  nth k (eig_exponential n) 0%R = eigf_exponential (INR k) /\
  nth k (eig_sqrt n) 0%R = eigf_sqrt (INR (S k)) /\
  nth k (eig_wiener n) 0%R = eigf_wiener (INR (S k)).
Proof. intros n k H. exact (conj (eig_exponential_nth n k H) (conj (eig_sqrt_nth n k H) (eig_wiener_nth n k H))). Qed.
Print Assumptions C19_eig_entries.
Theorem C19_eig_transfer : forall n,
  map Q2R (eig_linear opsQ n) = eig_linear opsR n /\
  map Q2R (eig_inverse opsQ n) = eig_inverse opsR n /\
  map Q2R (eig_quadratic opsQ n) = eig_quadratic opsR n.
Proof. intros n. exact (conj (eig_linear_transfer n) (conj (eig_inverse_transfer n) (eig_quadratic_transfer n))). Qed.
Print Assumptions C19_eig_transfer.

(* ---------- Brownian motions ---------- *)
Theorem C19_std_brownian_starts_at : forall (init sd : R) zs,
  nth 0 (std_brownian opsR init sd zs) 0%R = init /\
  length (std_brownian opsR init sd zs) = S (length zs) /\
  (forall i, i < length zs ->
     (nth (S i) (std_brownian opsR init sd zs) 0 - nth i (std_brownian opsR init sd zs) 0
      = sd * nth i zs 0)%R).
Proof. exact std_brownian_starts_at_lemma. Qed.
Print Assumptions C19_std_brownian_starts_at.

Theorem C19_geo_brownian_positive : forall (init : R) xs, (0 < init)%R ->
  Forall (fun v => (0 < v)%R) (geo_brownian opsR init (map exp xs)).
Proof. exact geo_brownian_positive_lemma. Qed.
Print Assumptions C19_geo_brownian_positive.

(* a grid with one step away from the first step by more than np.isclose allows is refused *)
Theorem C19_irregular_grid_rejected : forall (rtol atol : R) xs d0 ds d,
  diffs opsR xs = d0 :: ds -> In d ds -> (atol + rtol * Rabs d0 < Rabs (d - d0))%R ->
  brownian_accepts opsR rtol atol (Some xs) = false.
Proof. exact irregular_grid_rejected_lemma. Qed.
Print Assumptions C19_irregular_grid_rejected.
Theorem C19_regular_grid_accepted : forall (rtol atol : R) xs d0,
  (0 <= rtol)%R -> (0 <= atol)%R -> Forall (fun d => d = d0) (diffs opsR xs) ->
  brownian_accepts opsR rtol atol (Some xs) = true.
Proof. exact regular_grid_accepted_lemma. Qed.
Print Assumptions C19_regular_grid_accepted.

(* non-vacuity: 7 observations in 3 clusters; the linear family for n = 3;
   an irregular grid *)
Example C19_example :
  labels 7 3 = [0; 0; 0; 1; 1; 2; 2] /\
  eig_linear opsQ 3 = [1#1; 2#3; 1#3]%Q /\
  brownian_accepts opsQ (1#100000) (1#100000000) (Some [0#1; 1#10; 3#10; 1#1]%Q) = false.
Proof. vm_compute. repeat split. Qed.

(* ---------- the eigenvalue sequences as TRANSLATED from /repo/FDApy/simulation/karhunen.py on this run ----------
   (Gen/Eigenvalues.v is regenerated by harness/reflect.py on every build: these statements are about what the source
   says now.)  Whatever name _simulate_eigenvalues accepts, for whatever n, the sequence it returns has n entries,
   all positive, non-increasing; the six documented names are accepted for every n >= 1 and give the family of that
   name; n < 1 is rejected. *)
From Coq Require Import String.
Theorem C19_source_eigenvalues_pos_noninc : forall (name : String.string) (n : nat) (vals : list R),
  gen_eig_dispatch name n = Some vals -> pos_noninc vals /\ List.length vals = n.
Proof. exact gen_eig_dispatch_pos_noninc. Qed.
Print Assumptions C19_source_eigenvalues_pos_noninc.
Theorem C19_source_eigenvalues_names : forall n, 1 <= n ->
  gen_eig_dispatch "linear"%string n = Some (eig_linear opsR n) /\
  gen_eig_dispatch "exponential"%string n = Some (eig_exponential n) /\
  gen_eig_dispatch "quadratic"%string n = Some (eig_quadratic opsR n) /\
  gen_eig_dispatch "inverse"%string n = Some (eig_inverse opsR n) /\
  gen_eig_dispatch "sqrt"%string n = Some (eig_sqrt n) /\
  gen_eig_dispatch "wiener"%string n = Some (eig_wiener n).
Proof. exact gen_eig_dispatch_names. Qed.
Print Assumptions C19_source_eigenvalues_names.
Theorem C19_source_eigenvalues_reject_zero : forall name, gen_eig_dispatch name 0 = None.
Proof. exact gen_eig_dispatch_rejects_zero. Qed.
Print Assumptions C19_source_eigenvalues_reject_zero.
(* non-vacuity: the dispatch accepts the documented names *)
Example C19_source_example : exists vals, gen_eig_dispatch "wiener"%string 4 = Some vals /\ List.length vals = 4.
Proof.
  destruct (gen_eig_dispatch_names 4) as (_ & _ & _ & _ & _ & H); [repeat constructor|].
  rewrite H. eexists. split; [reflexivity|]. unfold eig_wiener. rewrite map_length, seq_length. reflexivity.
Qed.
