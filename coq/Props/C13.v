(* Props/C13.v — property C13: sub-selection and concatenation are inverse;
   subsets are first-class datasets.  Statements only; proofs are in
   Lemmas/PyIndex.v and Lemmas/Select.v.  [obs] is an arbitrary type of
   observations (sampling points + values of one curve), only ever moved.
   Datasets are lists of labelled observations in iteration order; [fresh l] is
   the dataset a user obtains by building one from the content [l] (labels
   0..n-1).  All theorems are discrete and closed under the global context. *)
From Coq Require Import ZArith List.
From FDAV Require Import Model.PyIndex Model.Select Lemmas.PyIndex Lemmas.Select Lemmas.SelectMore.
Import ListNotations.
Local Open Scope Z_scope.

(* Python slicing, for ALL start/stop/step (step <> 0) and all lengths: the
   normalised bounds are those of the language reference, and the positions are
   exactly i, i+k, i+2k, ... strictly before j, in that order, all valid. *)
Theorem C13_slice_indices_spec : forall n s i j k,
  0 <= n -> slice_indices n s = Some (i, j, k) ->
  k = step_of s /\ k <> 0 /\
  i = bound_spec n k true (sl_start s) /\ j = bound_spec n k false (sl_stop s) /\
  slice_positions n s = Some (range_list i j k) /\
  (forall x, In x (range_list i j k) <-> exists m, 0 <= m /\ x = i + m * k /\ before k x j) /\
  range_list i j k = map (fun m => i + Z.of_nat m * k) (seq 0 (length (range_list i j k))) /\
  Forall (fun x => 0 <= x < n) (range_list i j k).
Proof. exact slice_indices_spec. Qed.
Print Assumptions C13_slice_indices_spec.

Theorem C13_slice_refusal : forall n s, slice_indices n s = None <-> step_of s = 0.
Proof. exact slice_indices_none. Qed.
Print Assumptions C13_slice_refusal.

(* integer index: negative values count from the end, anything else out of range is refused *)
Theorem C13_int_index_spec : forall n i p, wrap_index n i = Some p <->
  (0 <= p < n /\ ((0 <= i /\ p = i) \/ (i < 0 /\ p = i + n))).
Proof. exact wrap_index_spec. Qed.
Print Assumptions C13_int_index_spec.

(* index arrays: entry by entry, same length, same order *)
Theorem C13_index_array_spec : forall n a ps, wrap_all n a = Some ps ->
  length ps = length a /\ Forall (fun p => 0 <= p < n) ps /\
  forall r, (r < length a)%nat -> wrap_index n (nth r a 0) = Some (nth r ps 0).
Proof. exact wrap_all_spec. Qed.
Print Assumptions C13_index_array_spec.

(* indexing yields exactly the selected observations, in the selected order,
   each with its own content, labelled as a fresh dataset *)
Theorem C13_getitem_selects_exactly : forall (obs : Type) (d d' : @dataset obs) ix,
  getitem d ix = Ok d' ->
  exists ps, select_positions (length d) ix = Ok ps /\
    Forall (fun p => 0 <= p < Z.of_nat (length d)) ps /\
    length d' = length ps /\
    (forall r, (r < length ps)%nat ->
       nth_error (content d') r = nth_error (content d) (Z.to_nat (nth r ps 0))) /\
    labels d' = fresh_labels (length ps).
Proof. exact @getitem_selects_exactly. Qed.
Print Assumptions C13_getitem_selects_exactly.

(* iteration yields every observation once, in order, each as the singleton
   subset fdata[r]; the sequence protocol (used by the multivariate container)
   enumerates the same thing *)
Theorem C13_iter_is_all_singletons : forall (obs : Type) (d : @dataset obs),
  length (iter d) = length d /\
  (forall r, (r < length d)%nat -> getitem d (IInt (Z.of_nat r)) = Ok (nth r (iter d) [])) /\
  concat (map content (iter d)) = content d /\
  Forall (fun s => labels s = [0]) (iter d).
Proof. exact @iter_is_all_singletons. Qed.
Print Assumptions C13_iter_is_all_singletons.

Theorem C13_seq_protocol_iterates_all : forall (obs : Type) (d : @dataset obs),
  seq_iter (S (length d)) (fun i => getitem d (IInt i)) 0 = Ok (iter d).
Proof. exact @seq_protocol_iterates_all. Qed.
Print Assumptions C13_seq_protocol_iterates_all.

(* cutting at ANY cut points 0 <= c1 <= ... <= cm = n (every grouping into
   consecutive pieces, empty pieces included) and concatenating restores content
   and order, labelled as a fresh dataset; so does concatenating the items of
   iteration *)
Theorem C13_concat_of_partition : forall (obs : Type) (d : @dataset obs) cuts,
  chain 0 cuts (Z.of_nat (length d)) ->
  (exists ps, res_all (pieces d 0 cuts) = Ok ps /\ concatenate ps = fresh (content d))
  /\ concatenate (iter d) = fresh (content d).
Proof. exact @concat_of_partition. Qed.
Print Assumptions C13_concat_of_partition.

Theorem C13_concat_labels_fresh : forall (obs : Type) (ds : list (@dataset obs)),
  labels (concatenate ds) = fresh_labels (length (concat (map content ds))) /\
  length (concatenate ds) = fold_right (fun d n => (length d + n)%nat) 0%nat ds.
Proof. exact @concat_labels_fresh. Qed.
Print Assumptions C13_concat_labels_fresh.

(* subsets, iteration items and concatenations ARE freshly built datasets, so
   every operation gives the same result on them (a congruence: thin by
   construction — the assurance that the implementation factors through this
   model is the correspondence run) *)
Theorem C13_subset_is_fresh_dataset : forall (obs : Type),
  (forall (d d' : @dataset obs) ix, getitem d ix = Ok d' -> d' = fresh (content d')) /\
  (forall (d s : @dataset obs), In s (iter d) -> s = fresh (content s)) /\
  (forall ds : list (@dataset obs), concatenate ds = fresh (content (concatenate ds))) /\
  (forall (A : Type) (op : @dataset obs -> A) (d d' : @dataset obs) ix,
      getitem d ix = Ok d' -> op d' = op (fresh (content d'))).
Proof. exact @subset_is_fresh_dataset. Qed.
Print Assumptions C13_subset_is_fresh_dataset.

(* ---- F9: the unrepaired irregular code, as defect models ---- *)
(* what the defect predicate "KeyError iff labels in iteration order <> 0..k-1" means *)
Theorem C13_analysis_keyerror_iff : forall ls,
  analysis_keyerror ls = None <-> ls = fresh_labels (length ls).
Proof. exact analysis_keyerror_iff. Qed.
Print Assumptions C13_analysis_keyerror_iff.

Theorem C13_analysis_keyerror_first : forall ls q, analysis_keyerror ls = Some q ->
  0 <= q < Z.of_nat (length ls) /\ nth (Z.to_nat q) ls 0 <> q /\
  forall r, (r < Z.to_nat q)%nat -> nth r ls 0 = Z.of_nat r.
Proof. exact analysis_keyerror_first. Qed.
Print Assumptions C13_analysis_keyerror_first.

(* fdata[1:3] keeps labels [1,2]; label-pairing analysis then raises KeyError(0) *)
Theorem C13_getitem_keep_labels_refuted :
  exists ix d1 d2, getitem wd ix = Ok d1 /\ getitem_keep_labels wd ix = Ok d2 /\
    content d1 = content d2 /\ labels d1 = [0; 1] /\ labels d2 = [1; 2] /\
    analysis_keyerror (labels d1) = None /\ analysis_keyerror (labels d2) = Some 0.
Proof. exact getitem_keep_labels_refuted. Qed.
Print Assumptions C13_getitem_keep_labels_refuted.

(* fdata[-1], fdata[np.array([-1])], fdata[n] *)
Theorem C13_negative_index_refuted :
  getitem wd (IInt (-1)) = Ok (fresh [12%nat]) /\
  getitem_keep_labels wd (IInt (-1)) = Err (KeyError (-1)) /\
  getitem wd (IArr [-1]) = Ok (fresh [12%nat]) /\
  getitem_keep_labels wd (IArr [-1]) = Err TypeError /\
  getitem wd (IInt 3) = Err IndexError /\
  getitem_keep_labels wd (IInt 3) = Err (KeyError 3).
Proof. exact negative_index_refuted. Qed.
Print Assumptions C13_negative_index_refuted.

Theorem C13_duplicate_index_refuted :
  (length (content (fresh [10; 10; 11]%nat)) = 3)%nat /\
  getitem wd (IArr [0; 0; 1]) = Ok (fresh [10; 10; 11]%nat) /\
  getitem_keep_labels wd (IArr [0; 0; 1]) = Ok [(0, 10%nat); (1, 11%nat)].
Proof. exact duplicate_index_refuted. Qed.
Print Assumptions C13_duplicate_index_refuted.

(* concatenate(a[0], a[1], a[0]) loses an observation under the `len + key` rule *)
Theorem C13_relabel_shift_refuted :
  exists a0 a1 : @dataset nat,
    getitem_keep_labels wd (IInt 0) = Ok a0 /\ getitem_keep_labels wd (IInt 1) = Ok a1 /\
    concatenate [a0; a1; a0] = fresh [10; 11; 10]%nat /\
    relabel_shift [a0; a1; a0] = [(0, 10%nat); (2, 10%nat)] /\
    ~ In 11%nat (content (relabel_shift [a0; a1; a0])).
Proof. exact relabel_shift_refuted. Qed.
Print Assumptions C13_relabel_shift_refuted.

(* concatenating the items of iteration (multivariate normalize): labels 0,2,4 *)
Theorem C13_relabel_shift_gapped :
  labels (relabel_shift (iter_keep_labels wd)) = [0; 2; 4] /\
  labels (concatenate (iter wd)) = [0; 1; 2] /\
  content (relabel_shift (iter_keep_labels wd)) = content wd.
Proof. exact relabel_shift_gapped. Qed.
Print Assumptions C13_relabel_shift_gapped.

(* iterating a container through the sequence protocol over label look-ups *)
Theorem C13_seq_iter_keep_labels_refuted :
  seq_iter 4 (fun i => getitem_keep_labels wd (IInt i)) 0 = Err (KeyError 3) /\
  seq_iter 4 (fun i => getitem wd (IInt i)) 0 = Ok (iter wd).
Proof. exact seq_iter_keep_labels_refuted. Qed.
Print Assumptions C13_seq_iter_keep_labels_refuted.

(* non-vacuity: a reversed strided slice with a negative start on 6 observations,
   then cut / concatenate *)
Example C13_example :
  slice_positions 6 (mkslice (Some (-2)) None (Some (-2))) = Some [4; 2; 0] /\
  getitem (fresh [10; 11; 12; 13; 14; 15]%nat) (ISlice (mkslice (Some (-2)) None (Some (-2))))
    = Ok [(0, 14%nat); (1, 12%nat); (2, 10%nat)] /\
  chain 0 [2; 2; 5; 6] 6 /\
  res_all (pieces (fresh [10; 11; 12; 13; 14; 15]%nat) 0 [2; 2; 5; 6])
    = Ok [fresh [10; 11]%nat; []; fresh [12; 13; 14]%nat; fresh [15%nat]].
Proof. vm_compute. repeat split; discriminate. Qed.

(* ---- algebra of concatenation and selection (Lemmas/SelectMore.v), for all datasets ---- *)
(* number of observations of a concatenation = sum of the numbers of observations *)
Theorem C13_concatenate_length : forall (obs : Type) (ds : list (@dataset obs)),
  length (concatenate ds) = fold_right (fun d n => (length d + n)%nat) 0%nat ds.
Proof. exact @concatenate_length. Qed.
Print Assumptions C13_concatenate_length.
(* nested concatenation = flat concatenation; in particular concatenation is associative *)
Theorem C13_concatenate_flatten : forall (obs : Type) (dss : list (list (@dataset obs))),
  concatenate (map concatenate dss) = concatenate (concat dss).
Proof. exact @concatenate_flatten. Qed.
Print Assumptions C13_concatenate_flatten.
Theorem C13_concatenate_assoc : forall (obs : Type) (a b c : @dataset obs),
  concatenate [concatenate [a; b]; c] = concatenate [a; b; c] /\
  concatenate [a; concatenate [b; c]] = concatenate [a; b; c].
Proof. exact @concatenate_assoc. Qed.
Print Assumptions C13_concatenate_assoc.
(* an empty dataset is neutral wherever it stands; a single fresh dataset is returned as it is *)
Theorem C13_concatenate_empty_neutral : forall (obs : Type) (ds1 ds2 : list (@dataset obs)),
  concatenate (ds1 ++ [] :: ds2) = concatenate (ds1 ++ ds2).
Proof. exact @concatenate_empty_neutral. Qed.
Print Assumptions C13_concatenate_empty_neutral.
Theorem C13_concatenate_singleton_fresh : forall (obs : Type) (l : list obs), concatenate [fresh l] = fresh l.
Proof. exact @concatenate_singleton_fresh. Qed.
Print Assumptions C13_concatenate_singleton_fresh.
(* iterate, then concatenate the singletons: the data come back (what multivariate normalize relies on) *)
Theorem C13_concatenate_iter : forall (obs : Type) (d : @dataset obs), concatenate (iter d) = fresh (content d).
Proof. exact @concatenate_iter. Qed.
Print Assumptions C13_concatenate_iter.
(* the full slice is the dataset; a split at ANY point 0 <= c <= n followed by concatenation is the identity *)
Theorem C13_getitem_full_slice : forall (obs : Type) (d : @dataset obs),
  getitem d (slice_ab 0 (Z.of_nat (length d))) = Ok (fresh (content d)).
Proof. exact @getitem_full_slice. Qed.
Print Assumptions C13_getitem_full_slice.
Theorem C13_split_concat_identity : forall (obs : Type) (d : @dataset obs) c, 0 <= c <= Z.of_nat (length d) ->
  exists d1 d2, getitem d (slice_ab 0 c) = Ok d1 /\
                getitem d (slice_ab c (Z.of_nat (length d))) = Ok d2 /\
                (length d1 + length d2 = length d)%nat /\
                concatenate [d1; d2] = fresh (content d).
Proof. exact @split_concat_identity. Qed.
Print Assumptions C13_split_concat_identity.
(* non-vacuity: split five observations at 2, the end points included *)
Example C13_split_example :
  let d := fresh [10; 11; 12; 13; 14]%nat in
  getitem d (slice_ab 0 2) = Ok (fresh [10; 11]%nat) /\
  getitem d (slice_ab 2 5) = Ok (fresh [12; 13; 14]%nat) /\
  concatenate [fresh [10; 11]%nat; fresh [12; 13; 14]%nat] = d /\
  getitem d (slice_ab 0 0) = Ok [] /\ concatenate [[]; d] = d.
Proof. vm_compute. repeat split. Qed.
