(* Props/C02.v — property C02: UFPCA eigenpairs solve the discretised covariance / Gram
   eigenproblem.  Statements only; proofs in Lemmas/Ufpca.v.
   w = trapezoid weights, s = their (non-zero) square roots ([roots s w]); C = covariance surface
   (rows); (lambda, u) = what the eigen-solver returned for W^{1/2} C W^{1/2} (oracle, characterised
   by the eigen-equation hypothesis); phi = W^{-1/2} u = [back s u]. *)
From Coq Require Import List Reals QArith Lra Lia.
From FDAV Require Import Base.Num Base.Vec Base.Quad Model.Ufpca
  Lemmas.Vec Lemmas.Quad Lemmas.Gram Lemmas.Ufpca Gen.TrapzWeights Lemmas.GenTrapzWeights Lemmas.UfpcaSource.
Import ListNotations.
Local Open Scope R_scope.

(* covariance method: eigenfunctions are orthonormal for the quadrature exactly when the solver's
   vectors are orthonormal *)
Theorem C02_cov_orthonormal : forall s w, roots s w -> forall u v,
  length u = length s -> length v = length s ->
  wdot opsR w (back opsR s u) (back opsR s v) = dot opsR u v.
Proof. exact wdot_back. Qed.
Print Assumptions C02_cov_orthonormal.

(* every pair satisfies the integral eigen-equation of the covariance surface *)
Theorem C02_cov_eigen_equation : forall s w C u lam, roots s w ->
  length C = length s -> length u = length s ->
  mv opsR (sym_scale opsR s C) u = vscale opsR lam u ->
  mv opsR C (vmul opsR w (back opsR s u)) = vscale opsR lam (back opsR s u).
Proof. exact cov_eigen_equation. Qed.
Print Assumptions C02_cov_eigen_equation.

(* with all components kept (a complete family) the Mercer sum of the eigenvalue-weighted
   eigenfunction products reproduces the surface: C z = sum_k lambda_k (phi_k . z) phi_k for all z,
   and the matrix the code builds acts as that sum *)
Theorem C02_mercer_reconstructs : forall s w C lams U z, roots s w ->
  length C = length s -> length z = length s ->
  Forall (fun r => length r = length s) U ->
  Forall2 (fun l u => mv opsR (sym_scale opsR s C) u = vscale opsR l u) lams U ->
  (forall y, length y = length s -> mtv opsR (length s) U (mv opsR U y) = y) ->
  mv opsR C z = mercer_map opsR (length s) lams (map (back opsR s) U) z.
Proof. exact mercer_reconstructs. Qed.
Print Assumptions C02_mercer_reconstructs.
Theorem C02_mercer_matrix_is_map : forall m lams phis z, Forall (fun r => length r = m) phis ->
  length lams = length phis ->
  mv opsR (mercer opsR m lams phis) z = mercer_map opsR m lams phis z.
Proof. exact mercer_matrix_is_map. Qed.
Print Assumptions C02_mercer_matrix_is_map.

(* inner-product method: phi_k = X^T v_k / r_k are mutually orthogonal for orthogonal Gram
   eigenvectors (and of unit norm when r_k^2 = l_k) *)
Theorem C02_gram_route_inner : forall m x X vj vk lk rj rk, Forall (fun r => length r = m) X ->
  rj <> 0 -> rk <> 0 ->
  mv opsR (gram_spec opsR x X) vk = vscale opsR lk vk ->
  inner opsR x (gram_phi opsR m X vj rj) (gram_phi opsR m X vk rk) = lk * dot opsR vj vk / (rj * rk).
Proof. exact gram_route_inner. Qed.
Print Assumptions C02_gram_route_inner.
Theorem C02_gram_route_orthogonal : forall m x X vj vk lk rj rk, Forall (fun r => length r = m) X ->
  rj <> 0 -> rk <> 0 -> mv opsR (gram_spec opsR x X) vk = vscale opsR lk vk -> dot opsR vj vk = 0 ->
  inner opsR x (gram_phi opsR m X vj rj) (gram_phi opsR m X vk rk) = 0.
Proof. exact gram_route_orthogonal. Qed.
Print Assumptions C02_gram_route_orthogonal.
Theorem C02_gram_route_unit : forall m x X v l r, Forall (fun r0 => length r0 = m) X ->
  r <> 0 -> r * r = l -> mv opsR (gram_spec opsR x X) v = vscale opsR l v -> dot opsR v v = 1 ->
  normsq opsR x (gram_phi opsR m X v r) = 1.
Proof. exact gram_route_unit. Qed.
Print Assumptions C02_gram_route_unit.
(* "the eigenfunctions ARE the combinations X^T v / sqrt(l)" is the definition [gram_phi]; the tie
   checks the code against it. *)

(* ---------- on the quadrature weights the SOURCE computes now (Gen/TrapzWeights.v, translated from
   _integration_weights(x, "trapz") on this run; UFPCA's covariance method calls exactly that) ----------
   the back-transformed eigenvectors are orthonormal for the trapezoid inner product of the grid itself, and the
   eigen-equation is the integral equation discretised with those weights *)
Theorem C02_cov_orthonormal_source_weights : forall x s u v, (2 <= length x)%nat ->
  roots s (gen_trapz_weights opsR x) -> length u = length s -> length v = length s ->
  inner opsR x (back opsR s u) (back opsR s v) = dot opsR u v.
Proof. exact cov_orthonormal_source. Qed.
Print Assumptions C02_cov_orthonormal_source_weights.
Theorem C02_cov_eigen_equation_source_weights : forall x s C u lam, (2 <= length x)%nat ->
  roots s (gen_trapz_weights opsR x) -> length C = length s -> length u = length s ->
  mv opsR (sym_scale opsR s C) u = vscale opsR lam u ->
  mv opsR C (vmul opsR (gen_trapz_weights opsR x) (back opsR s u)) = vscale opsR lam (back opsR s u).
Proof. exact cov_eigen_equation_source. Qed.
Print Assumptions C02_cov_eigen_equation_source_weights.

(* the hypotheses of C02_cov_orthonormal_source_weights are met: grid 0, 18, 50 has trapezoid weights 9, 25, 16 *)
Example C02_source_example : roots [3; 5; 4] (gen_trapz_weights opsR [0; 18; 50]).
Proof.
  rewrite gen_trapz_weights_is_model by (simpl; lia).
  unfold trapz_w. cbn [trapz_w_from]. rewrite !ohalfR, !osubR.
  unfold roots, osub. cbn [oadd oopp opsR]. repeat (first [apply Forall2_nil | apply Forall2_cons; [split; lra|]]).
Qed.

Local Close Scope R_scope.
Local Open Scope Q_scope.
(* non-vacuity: perfect-square weights 1/4, 1, 1/4 on the grid 0, 1/2, 2 ... *)
Example C02_example :
  back opsQ [1#2; 1; 1#2] [1; 2; 3] = [2; 2; 6] /\
  mercer opsQ 2 [2; 3] [[1; 0]; [0; 1]] = [[2; 0]; [0; 3]].
Proof. split; vm_compute; reflexivity. Qed.
