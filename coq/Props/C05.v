(* Props/C05.v — property C05: P-spline fits equal the explicit penalised least-squares solution
   in any dimension.  Statements only; proofs in Lemmas/Pspline.v.
   B = design matrix (rows b_k; n-D: Kronecker rows, row-major), w >= 0 weights, pens = list of
   (lambda >= 0, D).  Everything is conditional on the normal equations  Aop beta = rhs y  — the
   implementation's solution is CHECKED against them exactly (in Q) by the correspondence run. *)
From Coq Require Import List Reals QArith.
From FDAV Require Import Base.Num Base.Vec Model.Basis Model.Pspline
  Lemmas.Vec Lemmas.Gram Lemmas.Pspline Lemmas.PsplineConst Lemmas.PsplineLinear Lemmas.PsplineQuadratic Lemmas.Fcptpa Lemmas.PsplineTensor Lemmas.PsplineTensor2 Lemmas.PsplineTensor3.
Import ListNotations.
Local Open Scope R_scope.

Theorem C05_quad_form : forall nb B w pens c, wfB nb B -> wfP nb pens -> length c = nb ->
  dot opsR c (Aop opsR nb B w pens c) = wdot opsR w (mv opsR B c) (mv opsR B c) + pen_form pens c c.
Proof. exact quad_form. Qed.
Print Assumptions C05_quad_form.
Theorem C05_quad_form_nonneg : forall nb B w pens c, wfB nb B -> wfP nb pens -> length c = nb ->
  Forall (fun v => 0 <= v) w -> Forall (fun lD => 0 <= fst lD) pens ->
  0 <= dot opsR c (Aop opsR nb B w pens c).
Proof. exact quad_form_nonneg. Qed.
Print Assumptions C05_quad_form_nonneg.

(* the fit IS the penalised weighted least-squares solution: any two solutions of the normal
   equations agree on the fitted values wherever the weight is positive (and on the coefficients
   when the quadratic form is definite) *)
Theorem C05_fitted_unique : forall nb B w pens beta beta' k, wfB nb B -> wfP nb pens ->
  length beta = nb -> length beta' = nb ->
  Forall (fun v => 0 <= v) w -> Forall (fun lD => 0 <= fst lD) pens ->
  Aop opsR nb B w pens beta = Aop opsR nb B w pens beta' ->
  (k < length B)%nat -> (k < length w)%nat -> 0 < nth k w 0 ->
  nth k (fitted opsR B beta) 0 = nth k (fitted opsR B beta') 0.
Proof. exact fitted_unique. Qed.
Print Assumptions C05_fitted_unique.
Theorem C05_coef_unique : forall nb B w pens beta beta', wfB nb B -> wfP nb pens ->
  length beta = nb -> length beta' = nb ->
  (forall c, length c = nb -> dot opsR c (Aop opsR nb B w pens c) = 0 -> c = zeros opsR nb) ->
  Aop opsR nb B w pens beta = Aop opsR nb B w pens beta' -> vsub opsR beta beta' = zeros opsR nb.
Proof. exact coef_unique. Qed.
Print Assumptions C05_coef_unique.

(* linear in the responses *)
Theorem C05_fit_linear_in_y : forall nb B w pens a b y y' beta beta', wfB nb B -> wfP nb pens ->
  length y = length y' -> length beta = length beta' ->
  Aop opsR nb B w pens beta = rhs opsR nb B w y -> Aop opsR nb B w pens beta' = rhs opsR nb B w y' ->
  Aop opsR nb B w pens (vadd opsR (vscale opsR a beta) (vscale opsR b beta')) =
  rhs opsR nb B w (vadd opsR (vscale opsR a y) (vscale opsR b y')).
Proof. exact fit_linear_in_y. Qed.
Print Assumptions C05_fit_linear_in_y.

(* ignores zero-weight observations *)
Theorem C05_zero_weight_ignored : forall nb B w y y',
  Forall2 (fun wy y'k => fst wy = 0 \/ snd wy = y'k) (combine w y) y' -> length y = length y' ->
  length w = length y -> rhs opsR nb B w y = rhs opsR nb B w y'.
Proof. exact zero_weight_ignored. Qed.
Print Assumptions C05_zero_weight_ignored.

(* whatever the penalties: anything in the spline space whose coefficients are annihilated by the
   penalty matrices is reproduced exactly ... *)
Theorem C05_reproduces_null_space : forall nb B w pens beta0, wfB nb B -> wfP nb pens ->
  Forall (fun lD => mv opsR (snd lD) beta0 = zeros opsR (length (snd lD))) pens ->
  Aop opsR nb B w pens beta0 = rhs opsR nb B w (fitted opsR B beta0).
Proof. exact reproduces_null_space'. Qed.
Print Assumptions C05_reproduces_null_space.
(* ... and d-th differences annihilate polynomial coefficient sequences of degree < d (d = 1,2,3) *)
Theorem C05_diff_annihilates_const : forall a n,
  diffn opsR 1 (map (fun _ => a) (seq 0 (S n))) = map (fun _ => 0) (seq 0 n).
Proof. exact diff_annihilates_const. Qed.
Print Assumptions C05_diff_annihilates_const.
Theorem C05_diff_annihilates_affine : forall a b n,
  diffn opsR 2 (map (fun j => a + b * INR j) (seq 0 (S (S n)))) = map (fun _ => 0) (seq 0 n).
Proof. exact diff_annihilates_affine. Qed.
Print Assumptions C05_diff_annihilates_affine.
Theorem C05_diff_annihilates_quadratic : forall a b c n,
  diffn opsR 3 (map (fun j => a + b * INR j + c * (INR j * INR j)) (seq 0 (S (S (S n))))) = map (fun _ => 0) (seq 0 n).
Proof. exact diff_annihilates_quadratic. Qed.
Print Assumptions C05_diff_annihilates_quadratic.
(* C05 polynomial reproduction: "every polynomial of degree < order (order in 1..3) is reproduced" is proved END TO
   END on the very design and penalty matrices the correspondence check executes, in 1-D: degree 0 (constants, any
   order >= 1: C05_constants_reproduced), degree 1 (affine, any order >= 2: C05_affine_reproduced, via the Greville
   identity) and degree 2 (quadratics, any order >= 3, spline degree >= 2 — quadratics do not lie in the space of
   linear splines: C05_quadratic_reproduced, via the quadratic case of Marsden's identity, Lemmas/Marsden2.v).
   2-D (tensor-product) case: C05_tensor_reproduced below (generic: Kronecker products of marginal coefficient vectors
   annihilated by the marginal difference matrices) and C05_biquadratic_reproduced (products of quadratics, order >= 3);
   sums of such products follow from C05_fit_linear_in_y; 3-D: C05_tensor3_reproduced (design3 / pens3). *)
Theorem C05_difference_penalty_annihilates_constants : forall c nb d,
  mv opsR (diffmat opsR nb (S d)) (repeat c nb) = zeros opsR (length (diffmat opsR nb (S d))).
Proof. exact diffmat_const. Qed.
Print Assumptions C05_difference_penalty_annihilates_constants.
Theorem C05_design_of_constant_coefficients : forall a b nseg p, a < b -> (0 < nseg)%nat -> (1 <= p)%nat ->
  forall c xs, Forall (fun x => a <= x <= b) xs ->
  mv opsR (design a b nseg p xs) (repeat c (nseg + p)) = repeat c (length xs).
Proof. exact design_const. Qed.
Print Assumptions C05_design_of_constant_coefficients.
Theorem C05_constants_reproduced : forall a b nseg p, a < b -> (0 < nseg)%nat -> (1 <= p)%nat ->
  forall c lam d w xs beta k, Forall (fun x => a <= x <= b) xs ->
  length beta = (nseg + p)%nat -> Forall (fun v => 0 <= v) w -> 0 <= lam ->
  Aop opsR (nseg + p) (design a b nseg p xs) w (pens1 opsR (nseg + p) (S d) lam) beta
    = rhs opsR (nseg + p) (design a b nseg p xs) w (repeat c (length xs)) ->
  (k < length xs)%nat -> (k < length w)%nat -> 0 < nth k w 0 ->
  nth k (fitted opsR (design a b nseg p xs) beta) 0 = c.
Proof. exact constants_reproduced. Qed.
Print Assumptions C05_constants_reproduced.
Theorem C05_difference_penalty_annihilates_affine : forall A0 B0 nb d,
  mv opsR (diffmat opsR nb (S (S d))) (map (fun j => A0 + B0 * INR j) (seq 0 nb)) = zeros opsR (length (diffmat opsR nb (S (S d)))).
Proof. exact diffmat_affine. Qed.
Print Assumptions C05_difference_penalty_annihilates_affine.
Theorem C05_affine_reproduced : forall a b nseg p, a < b -> (0 < nseg)%nat -> (1 <= p)%nat ->
  forall al be lam d w xs beta k, Forall (fun x => a <= x <= b) xs ->
  length beta = (nseg + p)%nat -> Forall (fun v => 0 <= v) w -> 0 <= lam ->
  Aop opsR (nseg + p) (design a b nseg p xs) w (pens1 opsR (nseg + p) (S (S d)) lam) beta
    = rhs opsR (nseg + p) (design a b nseg p xs) w (map (fun x => al + be * x) xs) ->
  (k < length xs)%nat -> (k < length w)%nat -> 0 < nth k w 0 ->
  nth k (fitted opsR (design a b nseg p xs) beta) 0 = al + be * nth k xs 0.
Proof. exact affine_reproduced. Qed.
Print Assumptions C05_affine_reproduced.
Theorem C05_difference_penalty_annihilates_quadratic_coefficients : forall A0 B0 C0 nb d,
  mv opsR (diffmat opsR nb (S (S (S d)))) (map (fun j => A0 + B0 * INR j + C0 * (INR j * INR j)) (seq 0 nb))
  = zeros opsR (length (diffmat opsR nb (S (S (S d))))).
Proof. exact diffmat_quadratic. Qed.
Print Assumptions C05_difference_penalty_annihilates_quadratic_coefficients.
Theorem C05_quadratic_reproduced : forall a b nseg p, a < b -> (0 < nseg)%nat -> (2 <= p)%nat ->
  forall al be ga lam d w xs beta k, Forall (fun x => a <= x <= b) xs ->
  length beta = (nseg + p)%nat -> Forall (fun v => 0 <= v) w -> 0 <= lam ->
  Aop opsR (nseg + p) (design a b nseg p xs) w (pens1 opsR (nseg + p) (S (S (S d))) lam) beta
    = rhs opsR (nseg + p) (design a b nseg p xs) w (map (fun x => al + be * x + ga * (x * x)) xs) ->
  (k < length xs)%nat -> (k < length w)%nat -> 0 < nth k w 0 ->
  nth k (fitted opsR (design a b nseg p xs) beta) 0 = al + be * nth k xs 0 + ga * (nth k xs 0 * nth k xs 0).
Proof. exact quadratic_reproduced. Qed.
Print Assumptions C05_quadratic_reproduced.
Theorem C05_tensor_reproduced : forall nb1 nb2 d l1 l2 (R1 R2 : list (list R)) (c1 c2 w beta : list R) k,
  wfB nb1 R1 -> wfB nb2 R2 -> length c1 = nb1 -> length c2 = nb2 ->
  mv opsR (diffmat opsR nb1 d) c1 = zeros opsR (length (diffmat opsR nb1 d)) ->
  mv opsR (diffmat opsR nb2 d) c2 = zeros opsR (length (diffmat opsR nb2 d)) ->
  length beta = (nb1 * nb2)%nat -> Forall (fun v => 0 <= v) w -> 0 <= l1 -> 0 <= l2 ->
  Aop opsR (nb1 * nb2) (design2 opsR R1 R2) w (pens2 opsR nb1 nb2 d l1 l2) beta
    = rhs opsR (nb1 * nb2) (design2 opsR R1 R2) w (kron opsR (mv opsR R1 c1) (mv opsR R2 c2)) ->
  (k < length R1 * length R2)%nat -> (k < length w)%nat -> 0 < nth k w 0 ->
  nth k (fitted opsR (design2 opsR R1 R2) beta) 0 = nth k (kron opsR (mv opsR R1 c1) (mv opsR R2 c2)) 0.
Proof. exact tensor_reproduced. Qed.
Print Assumptions C05_tensor_reproduced.
Theorem C05_biquadratic_reproduced : forall a1 b1 nseg1 p1 a2 b2 nseg2 p2,
  a1 < b1 -> (0 < nseg1)%nat -> (2 <= p1)%nat -> a2 < b2 -> (0 < nseg2)%nat -> (2 <= p2)%nat ->
  forall al1 be1 ga1 al2 be2 ga2 l1 l2 d w xs1 xs2 beta k,
  Forall (fun x => a1 <= x <= b1) xs1 -> Forall (fun x => a2 <= x <= b2) xs2 ->
  length beta = ((nseg1 + p1) * (nseg2 + p2))%nat -> Forall (fun v => 0 <= v) w -> 0 <= l1 -> 0 <= l2 ->
  let R1 := design a1 b1 nseg1 p1 xs1 in let R2 := design a2 b2 nseg2 p2 xs2 in
  let y := kron opsR (map (fun x => al1 + be1 * x + ga1 * (x * x)) xs1) (map (fun x => al2 + be2 * x + ga2 * (x * x)) xs2) in
  Aop opsR ((nseg1 + p1) * (nseg2 + p2)) (design2 opsR R1 R2) w (pens2 opsR (nseg1 + p1) (nseg2 + p2) (S (S (S d))) l1 l2) beta
    = rhs opsR ((nseg1 + p1) * (nseg2 + p2)) (design2 opsR R1 R2) w y ->
  (k < length xs1 * length xs2)%nat -> (k < length w)%nat -> 0 < nth k w 0 ->
  nth k (fitted opsR (design2 opsR R1 R2) beta) 0 = nth k y 0.
Proof. exact biquadratic_reproduced. Qed.
Print Assumptions C05_biquadratic_reproduced.
Theorem C05_tensor3_reproduced : forall nb1 nb2 nb3 d l1 l2 l3 (R1 R2 R3 : list (list R)) (c1 c2 c3 w beta : list R) k,
  wfB nb1 R1 -> wfB nb2 R2 -> wfB nb3 R3 -> length c1 = nb1 -> length c2 = nb2 -> length c3 = nb3 ->
  mv opsR (diffmat opsR nb1 d) c1 = zeros opsR (length (diffmat opsR nb1 d)) ->
  mv opsR (diffmat opsR nb2 d) c2 = zeros opsR (length (diffmat opsR nb2 d)) ->
  mv opsR (diffmat opsR nb3 d) c3 = zeros opsR (length (diffmat opsR nb3 d)) ->
  length beta = (nb1 * nb2 * nb3)%nat -> Forall (fun v => 0 <= v) w -> 0 <= l1 -> 0 <= l2 -> 0 <= l3 ->
  Aop opsR (nb1 * nb2 * nb3) (design3 opsR R1 R2 R3) w (pens3 opsR nb1 nb2 nb3 d l1 l2 l3) beta
    = rhs opsR (nb1 * nb2 * nb3) (design3 opsR R1 R2 R3) w
        (kron opsR (kron opsR (mv opsR R1 c1) (mv opsR R2 c2)) (mv opsR R3 c3)) ->
  (k < length R1 * length R2 * length R3)%nat -> (k < length w)%nat -> 0 < nth k w 0 ->
  nth k (fitted opsR (design3 opsR R1 R2 R3) beta) 0
  = nth k (kron opsR (kron opsR (mv opsR R1 c1) (mv opsR R2 c2)) (mv opsR R3 c3)) 0.
Proof. exact tensor3_reproduced. Qed.
Print Assumptions C05_tensor3_reproduced.

(* leverages lie in [0,1] *)
Theorem C05_leverage_in_unit_interval : forall nb B w pens i z, wfB nb B -> wfP nb pens -> length z = nb ->
  Forall (fun v => 0 <= v) w -> Forall (fun lD => 0 <= fst lD) pens ->
  (i < length B)%nat -> (i < length w)%nat ->
  Aop opsR nb B w pens z = nth i B [] ->
  0 <= leverage opsR (nth i w 0) (nth i B []) z <= 1.
Proof. exact leverage_in_unit_interval. Qed.
Print Assumptions C05_leverage_in_unit_interval.
(* predicting at the fitting grid returns the fitted values: [fitted B beta = mv B beta] is the
   definition of both; the tie checks predict(x_fit) against y_hat on the implementation. *)

Local Close Scope R_scope.
Local Open Scope Q_scope.
Example C05_example :
  diffmat opsQ 4 2 = [[1; -2; 1; 0]; [0; 1; -2; 1]] /\
  Aop opsQ 2 [[1; 0]; [0; 1]] [1; 1] [(2, [[-1; 1]])] [1; 3] = [-3; 7].
Proof. split; vm_compute; reflexivity. Qed.
