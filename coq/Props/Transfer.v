(* Props/Transfer.v — not a property of FDApy but the bridge every numeric property uses:
   what the correspondence check evaluates (the [opsQ] instance) is the [opsR] model on the same numbers. *)
From Coq Require Import List QArith Qreals Reals.
From FDAV Require Import Base.Num Base.Vec Base.Quad Model.Stats Model.Ufpca Model.Scores Model.Pspline
  Model.Basis Model.Repr Model.Mfpca Model.LocalPoly Model.Simpson Lemmas.Transfer.
Import ListNotations.
Theorem T_trapz : forall x y, Q2R (trapz opsQ x y) = trapz opsR (map Q2R x) (map Q2R y).
Proof. exact trapz_transfer. Qed.
Print Assumptions T_trapz.
Theorem T_simpson : forall x y, Q2R (simpson opsQ x y) = simpson opsR (map Q2R x) (map Q2R y).
Proof. exact simpson_transfer. Qed.
Print Assumptions T_simpson.
Theorem T_gram : forall x X nv, map (map Q2R) (gram opsQ x X nv) = gram opsR (map Q2R x) (map (map Q2R) X) (Q2R nv).
Proof. exact gram_transfer. Qed.
Print Assumptions T_gram.
Theorem T_cov : forall m X, map (map Q2R) (cov opsQ m X) = cov opsR m (map (map Q2R) X).
Proof. exact cov_transfer. Qed.
Print Assumptions T_cov.
Theorem T_noise_var : forall d X, Q2R (noise_var opsQ d X) = noise_var opsR (map Q2R d) (map (map Q2R) X).
Proof. exact noise_var_transfer. Qed.
Print Assumptions T_noise_var.
Theorem T_standardize : forall m sds X,
  map (map Q2R) (standardize opsQ m sds X) = standardize opsR m (map Q2R sds) (map (map Q2R) X).
Proof. exact standardize_transfer. Qed.
Print Assumptions T_standardize.
Theorem T_Aop : forall nb B w pens c,
  map Q2R (Aop opsQ nb B w pens c) = Aop opsR nb (map (map Q2R) B) (map Q2R w) (map pQ2R pens) (map Q2R c).
Proof. exact Aop_transfer. Qed.
Print Assumptions T_Aop.
Theorem T_bspline_basis : forall a b nseg p xs,
  map (map Q2R) (bspline_basis opsQ a b nseg p xs) = bspline_basis opsR (Q2R a) (Q2R b) nseg p (map Q2R xs).
Proof. exact bspline_basis_transfer. Qed.
Print Assumptions T_bspline_basis.
Theorem T_mercer : forall m lams phis,
  map (map Q2R) (mercer opsQ m lams phis) = mercer opsR m (map Q2R lams) (map (map Q2R) phis).
Proof. exact mercer_transfer. Qed.
Print Assumptions T_mercer.
Theorem T_inverse : forall m mu s phis xi,
  map Q2R (inverse opsQ m mu s phis xi) = inverse opsR m (map Q2R mu) (Q2R s) (map (map Q2R) phis) (map Q2R xi).
Proof. exact inverse_transfer. Qed.
Print Assumptions T_inverse.
Theorem T_to_grid : forall m Phi C,
  map (map Q2R) (to_grid opsQ m Phi C) = to_grid opsR m (map (map Q2R) Phi) (map (map Q2R) C).
Proof. exact to_grid_transfer. Qed.
Print Assumptions T_to_grid.
Theorem T_mfpca_coef : forall Qm c nf r,
  map Q2R (mfpca_coef opsQ Qm c nf r) = mfpca_coef opsR (map (map Q2R) Qm) (map Q2R c) (Q2R nf) (Q2R r).
Proof. exact mfpca_coef_transfer. Qed.
Print Assumptions T_mfpca_coef.
Theorem T_design_1d : forall p x0 h xs,
  map (map Q2R) (design_1d opsQ p x0 h xs) = design_1d opsR p (Q2R x0) (Q2R h) (map Q2R xs).
Proof. exact design_1d_transfer. Qed.
Print Assumptions T_design_1d.
