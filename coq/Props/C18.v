(* Props/C18.v — property C18: basis families have their defining analytic properties.
   Statements only; proofs in Lemmas/Basis.v.  [bspl opsR p t j x] is the Cox–de Boor B-spline of
   degree p, index j on the knot sequence t; the code's sequence is [knot opsR a dx p] with
   dx = (b - a)/n_segments, so that t_p = a (domain_min) and t_{n_segments+p} = b (domain_max). *)
From Coq Require Import List Reals QArith.
From Coquelicot Require Import Coquelicot.
From FDAV Require Import Base.Num Base.Vec Model.Basis Model.Poly Model.Simpson Lemmas.Vec Lemmas.Basis Lemmas.Legendre Lemmas.Ortho Lemmas.Simpson Gen.BasisForms Lemmas.GenBasisForms Lemmas.Greville Lemmas.Marsden2 Lemmas.PolyInt.
Import ListNotations.
Local Open Scope R_scope.

(* any strictly increasing knot sequence: non-negative, local support, partition of unity *)
Theorem C18_nonneg_general : forall t, (forall i, t i < t (S i)) -> forall p j x, 0 <= Lemmas.Basis.B t p j x.
Proof. exact B_nonneg. Qed.
Print Assumptions C18_nonneg_general.
Theorem C18_support_general : forall t, (forall i, t i < t (S i)) -> forall p j x,
  x < t j \/ t (j + p + 1)%nat <= x -> Lemmas.Basis.B t p j x = 0.
Proof. exact B_support. Qed.
Print Assumptions C18_support_general.
Theorem C18_partition_general : forall t, (forall i, t i < t (S i)) -> forall p n lo x,
  t (lo + S p)%nat <= x <= t (lo + n)%nat -> (S p < n)%nat -> Lemmas.Basis.S_ t (S p) lo n x = 1.
Proof. exact partition_of_unity_closed. Qed.
Print Assumptions C18_partition_general.
Theorem C18_model_is_cox_de_boor : forall t, (forall i, t i < t (S i)) -> forall p j x,
  bspl opsR p t j x = Lemmas.Basis.B t p j x.
Proof. exact bspl_model. Qed.
Print Assumptions C18_model_is_cox_de_boor.

(* the code's basis: n_segments >= 1, domain a < b, any degree p *)
Theorem C18_bs_nonneg : forall a b nseg p, a < b -> (0 < nseg)%nat -> forall j x,
  0 <= bspl opsR p (knot opsR a ((b - a) / INR nseg) p) j x.
Proof. exact code_bs_nonneg. Qed.
Print Assumptions C18_bs_nonneg.
Theorem C18_bs_local_support : forall a b nseg p, a < b -> (0 < nseg)%nat -> forall j x,
  let t := knot opsR a ((b - a) / INR nseg) p in
  x < t j \/ t (j + p + 1)%nat <= x -> bspl opsR p t j x = 0.
Proof. exact code_bs_support. Qed.
Print Assumptions C18_bs_local_support.
(* at most degree+1 functions are non-zero at a point *)
Theorem C18_bs_at_most_p_plus_1 : forall a b nseg p, a < b -> (0 < nseg)%nat -> forall j x i,
  let t := knot opsR a ((b - a) / INR nseg) p in
  bspl opsR p t j x <> 0 -> t i <= x < t (S i) -> (i - p <= j <= i)%nat.
Proof. exact code_bs_window. Qed.
Print Assumptions C18_bs_at_most_p_plus_1.
(* sums to one everywhere on the CLOSED domain, right end point included, every degree >= 1 *)
Theorem C18_bs_partition_of_unity : forall a b nseg p, a < b -> (0 < nseg)%nat -> forall x,
  (1 <= p)%nat -> a <= x <= b -> bsum a b nseg p x = 1.
Proof. exact code_bs_partition_of_unity. Qed.
Print Assumptions C18_bs_partition_of_unity.

(* Legendre (Bonnet recurrence): P_k(1) = 1; the values are those of the polynomials built by the same
   recurrence on coefficient lists; those polynomials are orthogonal on [-1,1] with squared norm
   2/(2k+1) for ALL DEGREES <= 15 (the property's range), by exact polynomial integration — a finite
   check (vm_compute in Q, lifted by forallb_forall and the Q/R transfer).
   The exact polynomial integral IS the Riemann integral (C18_poly_integral_is_RInt, end of file), so the
   orthogonality is also stated with Coquelicot is_RInt: C18_legendre_RInt_orthogonal, C18_legendre_RInt_norm.
   C18_legendre_orthogonal_partial: not the unbounded claim (all degrees) — the property quantifies sizes 1..15. *)
Theorem C18_legendre_is_polynomial : forall k x, peval opsR (leg_poly opsR k) x = legendre opsR k x.
Proof. exact leg_poly_eval. Qed.
Print Assumptions C18_legendre_is_polynomial.
Theorem C18_legendre_product : forall j k x,
  peval opsR (pmul opsR (leg_poly opsR j) (leg_poly opsR k)) x = legendre opsR j x * legendre opsR k x.
Proof. exact leg_product_eval. Qed.
Print Assumptions C18_legendre_product.
Theorem C18_legendre_orthogonal_upto15 : forall j k, (j <= 15)%nat -> (k <= 15)%nat -> j <> k ->
  pint11 opsR (pmul opsR (leg_poly opsR j) (leg_poly opsR k)) = 0.
Proof. exact legendre_orthogonal_upto15. Qed.
Print Assumptions C18_legendre_orthogonal_upto15.
Theorem C18_legendre_norm_upto15 : forall k, (k <= 15)%nat ->
  pint11 opsR (pmul opsR (leg_poly opsR k) (leg_poly opsR k)) = 2 / INR (2 * k + 1).
Proof. exact legendre_norm_upto15. Qed.
Print Assumptions C18_legendre_norm_upto15.
Theorem C18_legendre_at_one : forall k, legendre opsR k 1 = 1.
Proof. exact legendre_at_one. Qed.
Print Assumptions C18_legendre_at_one.
(* Wiener functions sqrt 2 sin((k - 1/2) pi t), k >= 1, are orthonormal on [0,1]; the Fourier functions
   (constant 1/sqrt L, sqrt(2/L) cos(m x'), sqrt(2/L) sin(m x') with x' = 2 pi (t - a)/L - pi, L = b - a)
   are orthonormal on [a, b] = the interval spanned by the grid — Riemann integrals (Coquelicot is_RInt),
   explicit antiderivatives.  (The correspondence run checks that the code's functions are these.) *)
Theorem C18_wiener_orthogonal : forall j k, (1 <= j)%nat -> (1 <= k)%nat -> j <> k ->
  is_RInt (fun t => wiener j t * wiener k t) 0 1 0.
Proof. exact wiener_orthogonal. Qed.
Print Assumptions C18_wiener_orthogonal.
Theorem C18_wiener_unit_norm : forall k, (1 <= k)%nat -> is_RInt (fun t => wiener k t * wiener k t) 0 1 1.
Proof. exact wiener_unit_norm. Qed.
Print Assumptions C18_wiener_unit_norm.
Theorem C18_fourier_const_norm : forall a b, a < b -> is_RInt (fun t => f_const a b t * f_const a b t) a b 1.
Proof. exact fourier_const_norm. Qed.
Print Assumptions C18_fourier_const_norm.
Theorem C18_fourier_const_cos : forall a b, a < b -> forall m, (1 <= m)%nat ->
  is_RInt (fun t => f_const a b t * f_cos a b m t) a b 0.
Proof. exact fourier_const_cos. Qed.
Print Assumptions C18_fourier_const_cos.
Theorem C18_fourier_const_sin : forall a b, a < b -> forall m, is_RInt (fun t => f_const a b t * f_sin a b m t) a b 0.
Proof. exact fourier_const_sin. Qed.
Print Assumptions C18_fourier_const_sin.
Theorem C18_fourier_cos_cos : forall a b, a < b -> forall m n, (1 <= m)%nat -> (1 <= n)%nat ->
  is_RInt (fun t => f_cos a b m t * f_cos a b n t) a b (if Nat.eq_dec m n then 1 else 0).
Proof. exact fourier_cos_cos. Qed.
Print Assumptions C18_fourier_cos_cos.
Theorem C18_fourier_sin_sin : forall a b, a < b -> forall m n, (1 <= m)%nat -> (1 <= n)%nat ->
  is_RInt (fun t => f_sin a b m t * f_sin a b n t) a b (if Nat.eq_dec m n then 1 else 0).
Proof. exact fourier_sin_sin. Qed.
Print Assumptions C18_fourier_sin_sin.
Theorem C18_fourier_sin_cos : forall a b, a < b -> forall m n, is_RInt (fun t => f_sin a b m t * f_cos a b n t) a b 0.
Proof. exact fourier_sin_cos. Qed.
Print Assumptions C18_fourier_sin_cos.

(* dropping the intercept removes exactly the first function *)
Theorem C18_drop_intercept : forall (B : list (list R)) k, nth k (drop_intercept B) [] = nth (S k) B [].
Proof. exact drop_intercept_spec. Qed.
Print Assumptions C18_drop_intercept.
(* multi-dimensional bases are tensor products of the marginal bases in row-major order *)
Theorem C18_tensor_row_major : forall B1 B2 k1 k2 i1 i2 m2, (k1 < length B1)%nat -> (k2 < length B2)%nat ->
  length (nth k2 B2 []) = m2 -> (i1 < length (nth k1 B1 []))%nat -> (i2 < m2)%nat ->
  nth (i1 * m2 + i2) (nth (k1 * length B2 + k2) (tensor_basis opsR B1 B2) []) 0 =
  nth i1 (nth k1 B1 []) 0 * nth i2 (nth k2 B2 []) 0.
Proof. exact tensor_row_major. Qed.
Print Assumptions C18_tensor_row_major.

Local Close Scope R_scope.
Local Open Scope Q_scope.
(* non-vacuity: quadratic B-splines, 2 segments on [0,1], at the right end point 1 *)
Example C18_example :
  map (fun row => nth 0 row 0) (bspline_basis opsQ 0 1 2 2 [1]) = [0; 0; 1#2; 1#2] /\
  legendre opsQ 2 (1#2) == -1 # 8.
Proof. split; vm_compute; reflexivity. Qed.

(* the normalisation option: a function divided by the root r of its squared Simpson norm (r = oracle
   value with r^2 = simpson(x, f^2), checked exactly by the tie) has unit Simpson norm — on ANY grid,
   for the rule exactly as scipy computes it (Model/Simpson.v) *)
Theorem C18_normalised_unit_simpson_norm : forall x f r, length f = length x -> (r <> 0)%R ->
  (r * r = simpson opsR x (vmul opsR f f))%R ->
  (simpson opsR x (vmul opsR (vscale opsR (/ r) f) (vscale opsR (/ r) f)) = 1)%R.
Proof. exact simpson_normalised_unit. Qed.
Print Assumptions C18_normalised_unit_simpson_norm.

Local Open Scope R_scope.
(* ---- the closed forms themselves: Gen/BasisForms.v is TRANSLATED from misc/basis.py on every run
   (harness/reflect.py: _basis_wiener row k-1 = gen_wiener k; _basis_fourier row 0 = gen_fourier_const,
   odd rows k = gen_fourier_odd with m = (k+1)//2, even rows = gen_fourier_even).  The translated
   functions are the ones whose orthonormality is proved above; restated on the translated code: ---- *)
Theorem C18_translated_wiener_is_model : forall k t, gen_wiener k t = wiener k t.
Proof. exact gen_wiener_is_model. Qed.
Print Assumptions C18_translated_wiener_is_model.
Theorem C18_translated_fourier_is_model : forall a b m t,
  gen_fourier_const a b t = f_const a b t /\ gen_fourier_odd a b m t = f_cos a b m t /\ gen_fourier_even a b m t = f_sin a b m t.
Proof. intros a b m t. exact (conj (gen_fourier_const_is_model a b t) (conj (gen_fourier_odd_is_cos a b m t) (gen_fourier_even_is_sin a b m t))). Qed.
Print Assumptions C18_translated_fourier_is_model.
Theorem C18_translated_wiener_orthonormal : forall j k, (1 <= j)%nat -> (1 <= k)%nat ->
  is_RInt (fun t => gen_wiener j t * gen_wiener k t) 0 1 (if Nat.eq_dec j k then 1 else 0).
Proof. exact gen_wiener_orthonormal. Qed.
Print Assumptions C18_translated_wiener_orthonormal.
Theorem C18_translated_fourier_orthonormal : forall a b, a < b -> forall m n, (1 <= m)%nat -> (1 <= n)%nat ->
  is_RInt (fun t => gen_fourier_const a b t * gen_fourier_const a b t) a b 1 /\
  is_RInt (fun t => gen_fourier_const a b t * gen_fourier_odd a b m t) a b 0 /\
  is_RInt (fun t => gen_fourier_const a b t * gen_fourier_even a b m t) a b 0 /\
  is_RInt (fun t => gen_fourier_odd a b m t * gen_fourier_odd a b n t) a b (if Nat.eq_dec m n then 1 else 0) /\
  is_RInt (fun t => gen_fourier_even a b m t * gen_fourier_even a b n t) a b (if Nat.eq_dec m n then 1 else 0) /\
  is_RInt (fun t => gen_fourier_even a b m t * gen_fourier_odd a b n t) a b 0.
Proof. exact gen_fourier_rows_orthonormal. Qed.
Print Assumptions C18_translated_fourier_orthonormal.

(* B-splines reproduce the identity with the Greville coefficients (with the partition of unity: every
   affine function lies in the spline space, with coefficients affine in the index) — on any strictly
   increasing knots, and for the code's basis on the closed domain *)
Theorem C18_greville_any_knots : forall t, (forall i, t i < t (S i)) -> forall p n lo x,
  t (lo + p)%nat <= x < t (lo + n)%nat -> (p < n)%nat -> G_ t p lo n x = INR p * x.
Proof. exact greville. Qed.
Print Assumptions C18_greville_any_knots.
Theorem C18_code_bsplines_reproduce_identity : forall a b nseg p, a < b -> (0 < nseg)%nat -> forall x,
  (1 <= p)%nat -> a <= x <= b ->
  vsum opsR (map (fun j => tsum (knot opsR a ((b - a) / INR nseg) p) j p
                           * bspl opsR p (knot opsR a ((b - a) / INR nseg) p) j x) (seq 0 (nseg + p))) = INR p * x.
Proof. exact code_bs_greville. Qed.
Print Assumptions C18_code_bsplines_reproduce_identity.

(* the quadratic case of Marsden's identity: sum_j e2(t_{j+1..j+p}) B_{j,p}(x) = C(p,2) x^2 on any strictly increasing knots *)
Theorem C18_marsden_quadratic_any_knots : forall t, (forall i, t i < t (S i)) -> forall p n lo x,
  t (lo + p)%nat <= x < t (lo + n)%nat -> (p < n)%nat -> E_ t p lo n x = c2 p * (x * x).
Proof. exact marsden2. Qed.
Print Assumptions C18_marsden_quadratic_any_knots.

(* the exact integral of a coefficient list over [-1,1] is the Riemann integral of the polynomial function; hence
   Legendre orthogonality (degrees <= 15) as Riemann integrals of the values computed by Bonnet's recurrence *)
Theorem C18_poly_integral_is_RInt : forall p, is_RInt (fun x => peval opsR p x) (-1) 1 (pint11 opsR p).
Proof. exact pint11_is_RInt. Qed.
Print Assumptions C18_poly_integral_is_RInt.
Theorem C18_legendre_RInt_orthogonal : forall j k, (j <= 15)%nat -> (k <= 15)%nat -> j <> k ->
  is_RInt (fun x => legendre opsR j x * legendre opsR k x) (-1) 1 0.
Proof. exact legendre_RInt_orthogonal. Qed.
Print Assumptions C18_legendre_RInt_orthogonal.
Theorem C18_legendre_RInt_norm : forall k, (k <= 15)%nat ->
  is_RInt (fun x => legendre opsR k x * legendre opsR k x) (-1) 1 (2 / INR (2 * k + 1)).
Proof. exact legendre_RInt_norm. Qed.
Print Assumptions C18_legendre_RInt_norm.
