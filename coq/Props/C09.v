(* Props/C09.v — property C09: mean, covariance and noise variance are the textbook
   sample estimators.  Statements only; proofs in Lemmas/Stats.v, Lemmas/NoiseConst.v.
   A dataset X is a list of n rows of m values; Ct is the list of columns of the
   CENTRED data (what np.dot(values.T, values) works on). *)
From Coq Require Import List Reals Permutation QArith.
From FDAV Require Import Base.Num Base.Vec Base.Quad Model.Stats Gen.Consts
  Lemmas.Vec Lemmas.Gram Lemmas.Stats Lemmas.NoiseConst Lemmas.CovPerm Lemmas.CovShift Lemmas.CovScale Gen.NoiseVar Lemmas.GenNoiseVar.
Import ListNotations.
Local Open Scope R_scope.

(* the mean of dense data is the pointwise average, whatever the order of the observations *)
Theorem C09_mean_pointwise : forall m X j, X <> [] -> Forall (fun r => length r = m) X -> (j < m)%nat ->
  nth j (mean opsR m X) 0 = vsum opsR (map (fun r => nth j r 0) X) / INR (length X).
Proof. exact mean_pointwise. Qed.
Print Assumptions C09_mean_pointwise.
Theorem C09_mean_perm : forall m X X', Permutation X X' -> mean opsR m X = mean opsR m X'.
Proof. exact mean_perm. Qed.
Print Assumptions C09_mean_perm.

(* the covariance is the unbiased sample covariance: entries, symmetry, PSD *)
Theorem C09_cov_entry : forall k Ct s t, (s < length Ct)%nat -> (t < length Ct)%nat -> (2 <= k)%nat ->
  ent (cov_of_cols opsR k Ct) s t = dot opsR (nth s Ct []) (nth t Ct []) / INR (k - 1).
Proof. exact cov_entry. Qed.
Print Assumptions C09_cov_entry.
Theorem C09_cov_symmetric : forall k Ct s t, (s < length Ct)%nat -> (t < length Ct)%nat ->
  ent (cov_of_cols opsR k Ct) s t = ent (cov_of_cols opsR k Ct) t s.
Proof. exact cov_symmetric. Qed.
Print Assumptions C09_cov_symmetric.
Theorem C09_cov_psd : forall n k Ct c, (2 <= k)%nat -> Forall (fun r => length r = n) Ct ->
  0 <= dot opsR c (mv opsR (cov_of_cols opsR k Ct) c).
Proof. exact cov_psd. Qed.
Print Assumptions C09_cov_psd.
(* ... and independent of the order of the observations *)
Theorem C09_cov_entry_rows : forall m X s t, Forall (fun r => length r = m) X -> (2 <= length X)%nat ->
  (s < m)%nat -> (t < m)%nat ->
  ent (cov opsR m X) s t =
  vsum opsR (map (fun r => nth s r 0 * nth t r 0) (center opsR m X)) / INR (length X - 1).
Proof. exact cov_entry_rows. Qed.
Print Assumptions C09_cov_entry_rows.
Theorem C09_cov_perm : forall m X X' s t, Permutation X X' -> Forall (fun r => length r = m) X ->
  (2 <= length X)%nat -> (s < m)%nat -> (t < m)%nat ->
  ent (cov opsR m X) s t = ent (cov opsR m X') s t.
Proof. exact cov_perm_entry. Qed.
Print Assumptions C09_cov_perm.

(* smoothed covariances remain symmetric because symmetrisation is applied LAST: it makes
   any matrix symmetric and leaves a symmetric one unchanged *)
(* ... and of the LEVEL of the curves: adding the same function to every curve changes nothing (the covariance is
   computed from the centred curves — a one-pass formula would agree only up to cancellation error) *)
Theorem C09_cov_shift_invariant : forall m (c : list R) X, X <> [] -> length c = m -> Forall (fun r => length r = m) X ->
  cov opsR m (map (fun r => vadd opsR r c) X) = cov opsR m X.
Proof. exact cov_shift. Qed.
Print Assumptions C09_cov_shift_invariant.
Theorem C09_symmetrise_symmetric : forall n S i j, (i < n)%nat -> (j < n)%nat ->
  ent (symmetrise opsR n S) i j = ent (symmetrise opsR n S) j i.
Proof. exact symmetrise_symmetric. Qed.
Print Assumptions C09_symmetrise_symmetric.
Theorem C09_symmetrise_fixes_symmetric : forall n S i j, (i < n)%nat -> (j < n)%nat ->
  ent S i j = ent S j i -> ent (symmetrise opsR n S) i j = ent S i j.
Proof. exact symmetrise_fixes_symmetric. Qed.
Print Assumptions C09_symmetrise_fixes_symmetric.

(* no absolute scale: the same curves in other units (every value times a, any a — in particular the tiny factors of curves
   recorded in small units) have the mean times a and the covariance times a^2 *)
Theorem C09_mean_scale : forall a m X, mean opsR m (map (vscale opsR a) X) = vscale opsR a (mean opsR m X).
Proof. exact mean_scale. Qed.
Print Assumptions C09_mean_scale.
Theorem C09_cov_scale : forall a m X, cov opsR m (map (vscale opsR a) X) = mscale opsR (a * a) (cov opsR m X).
Proof. exact cov_scale. Qed.
Print Assumptions C09_cov_scale.

(* difference-based noise variance *)
Theorem C09_noise_nonneg : forall d X, 0 <= noise_var opsR d X.
Proof. exact noise_var_nonneg. Qed.
Print Assumptions C09_noise_nonneg.
Theorem C09_noise_scale : forall a d x,
  noise_var1 opsR d (vscale opsR a x) = a * a * noise_var1 opsR d x.
Proof. exact noise_var1_scale. Qed.
Print Assumptions C09_noise_scale.
Theorem C09_noise_short_curve_zero : forall d x, (length x < length d)%nat -> noise_var1 opsR d x = 0.
Proof. exact noise_var1_short. Qed.
Print Assumptions C09_noise_short_curve_zero.
(* adding a constant c changes the estimate only through (sum d): exact formula *)
Theorem C09_noise_shift : forall d x c, (length d <= length x)%nat ->
  noise_var1 opsR d (map (fun v => v + c) x) =
  noise_var1 opsR d x
  + 2 * c * vsum opsR d * avg opsR (map (dot opsR d) (windows x (length d)))
  + (c * vsum opsR d) * (c * vsum opsR d).
Proof. exact noise_var1_shift. Qed.
Print Assumptions C09_noise_shift.
(* ... and for the difference sequences the code uses NOW (reflected on every run):
   |sum d| <= 2e-4, |sum d^2 - 1| <= 1e-3, length = order + 1, orders 1..10 *)
Theorem C09_diffseq_facts : forall e, In e diff_sequences -> dseq_ok e = true.
Proof. exact diff_sequences_ok. Qed.
Print Assumptions C09_diffseq_facts.
Theorem C09_diffseq_orders : map fst diff_sequences = seq 1 10.
Proof. exact diff_sequences_orders. Qed.
Print Assumptions C09_diffseq_orders.
(* ---------- the estimator as TRANSLATED from /repo/FDApy/misc/utils.py on this run (Gen/NoiseVar.v) ----------
   _estimate_noise_variance, as the source reads now, applied with the difference sequences the source holds now
   (dgetR = DIFF_SEQUENCES.get, Gen/Consts.v): raises exactly for orders outside 1..10; otherwise it is the model
   estimator on the sequence of that order — non-negative, scaling with the square of a factor, zero for curves
   shorter than order + 1.  (np.nanmean is read as the mean: curves without NaN.) *)
Theorem C09_source_noise_estimator : forall order x,
  ((order < 1 \/ 10 < order)%nat -> gen_noise_var1 opsR dgetR order x = None) /\
  ((1 <= order <= 10)%nat ->
     gen_noise_var1 opsR dgetR order x = Some (noise_var1 opsR (dgetR order) x) /\
     0 <= noise_var1 opsR (dgetR order) x /\
     (forall a, gen_noise_var1 opsR dgetR order (vscale opsR a x) = Some (a * a * noise_var1 opsR (dgetR order) x)) /\
     ((length x < order + 1)%nat -> noise_var1 opsR (dgetR order) x = 0)).
Proof. exact source_noise_estimator. Qed.
Print Assumptions C09_source_noise_estimator.

(* dataset level: the average of the per-curve estimates — this is the definition of
   [noise_var]; the tie checks that the code computes exactly that. *)

Local Close Scope R_scope.
Local Open Scope Q_scope.
Example C09_example :
  noise_var1 opsQ [1; -1] [1; 3; 2] == 5 # 2 /\ mean opsQ 2 [[1; 2]; [3; 6]] = [2; 4].
Proof. split; vm_compute; reflexivity. Qed.
(* the translated source, executed *)
Example C09_source_example :
  gen_noise_var1 opsQ (fun _ => [1; -1]) 1 [1; 3; 2] = Some (5#2) /\ gen_noise_var1 opsQ dgetQ 0 [1; 3; 2] = None /\
  gen_noise_var1 opsQ dgetQ 11 [1; 3; 2] = None /\ length (dgetQ 3) = 4%nat.
Proof. vm_compute. repeat split; reflexivity. Qed.
