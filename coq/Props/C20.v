(* Props/C20.v — property C20: noise and sparsification respect the source
   data, even on failure.  Statements only; proofs are in Lemmas/NoiseSparse.v.

   Oracles (hypotheses, never axioms): [s] is whatever np.sqrt returned for the
   noise variance [v] (0 <= s, s*s = v); [z]/[Z] are the values the generator
   drew; [m] is the drawn mask and [p] the two fallback positions.
   [noisef], [sparsef], [is2d] are add_noise / sparsify / _check_dimension with
   their draws fixed: ARBITRARY functions, so the fault theorems hold for every
   dataset type and every behaviour of the numerical parts. *)
From Coq Require Import List Bool Arith Reals QArith.
From FDAV Require Import Base.Num Base.Vec Model.NoiseSparse Lemmas.NoiseSparse.
Import ListNotations.
Local Open Scope nat_scope.

(* ---------- noise ---------- *)
(* the difference between the noisy curve and its source is the drawn noise
   scaled by the square root of the variance *)
Theorem C20_noise_difference_is_draw : forall (v s : R) z x,
  (0 <= s)%R -> (s * s = v)%R -> length z = length x ->
  vsub opsR (add_noise opsR s z x) x = vscale opsR (sqrt v) z.
Proof. exact noise_difference_is_draw_lemma. Qed.
Print Assumptions C20_noise_difference_is_draw.

Theorem C20_noise_difference_pointwise : forall (v s : R) z x k,
  (0 <= s)%R -> (s * s = v)%R -> length z = length x ->
  (nth k (add_noise opsR s z x) 0 - nth k x 0 = sqrt v * nth k z 0)%R.
Proof. exact noise_difference_nth. Qed.
Print Assumptions C20_noise_difference_pointwise.

Theorem C20_noise_difference_all_curves : forall (v s : R) Z X,
  (0 <= s)%R -> (s * s = v)%R -> map (@length R) Z = map (@length R) X ->
  map2 (vsub opsR) (add_noise_m opsR s Z X) X = map (vscale opsR (sqrt v)) Z.
Proof. exact noise_difference_dataset. Qed.
Print Assumptions C20_noise_difference_all_curves.

(* zero variance: the noisy curve IS the source (0*z = 0 is also exact in doubles) *)
Theorem C20_noise_zero_variance_identity : forall (s : R) z x,
  (0 <= s)%R -> (s * s = 0)%R -> length z = length x -> add_noise opsR s z x = x.
Proof. exact noise_zero_variance_identity_lemma. Qed.
Print Assumptions C20_noise_zero_variance_identity.

(* same grid, same number of curves, same number of samples per curve *)
Theorem C20_noise_same_grid : forall (s : R) Z (d : list R * list (list R)),
  map (@length R) Z = map (@length R) (snd d) ->
  fst (add_noise_ds opsR s Z d) = fst d /\
  length (snd (add_noise_ds opsR s Z d)) = length (snd d) /\
  map (@length R) (snd (add_noise_ds opsR s Z d)) = map (@length R) (snd d).
Proof. exact noise_same_grid_lemma. Qed.
Print Assumptions C20_noise_same_grid.

(* the executable Q run is this model on the same numbers *)
Theorem C20_noise_transfer : forall (s : Q) (z x : list Q),
  map Q2R (add_noise opsQ s z x) = add_noise opsR (Q2R s) (map Q2R z) (map Q2R x).
Proof. exact add_noise_transfer. Qed.
Print Assumptions C20_noise_transfer.

(* ---------- sparsification (any cell type, no axioms) ---------- *)
(* every kept cell has its source value, every other cell is missing; the
   min-two rule only ever adds samples to the drawn mask *)
Theorem C20_sparsify_keeps_subset : forall (A : Type) (m : list bool) p (x : list A) k (d : A),
  length m = length x -> k < length x ->
  nth k (sparsify_curve m p x) None =
    if nth k (min_two m p) false then Some (nth k x d) else None.
Proof. exact @sparsify_keeps_subset_lemma. Qed.
Print Assumptions C20_sparsify_keeps_subset.

Theorem C20_sparsify_mask_only_grows : forall (m : list bool) p k,
  nth k m false = true -> nth k (min_two m p) false = true.
Proof. exact min_two_keeps. Qed.
Print Assumptions C20_sparsify_mask_only_grows.

(* at least two samples are kept on every curve of at least two points, the
   fallback positions being distinct *)
Theorem C20_sparsify_at_least_two : forall (A : Type) (m : list bool) p (x : list A),
  2 <= length x -> length m = length x -> distinct_pair (length x) p = true ->
  2 <= count_kept (sparsify_curve m p x) /\ length (sparsify_curve m p x) = length x.
Proof. exact @sparsify_at_least_two_lemma. Qed.
Print Assumptions C20_sparsify_at_least_two.

(* F13(b): fallback positions drawn WITH replacement can leave a single sample *)
Theorem C20_fallback_with_replacement_refuted :
  exists (m : list bool) (p : nat * nat) (x : list nat),
    2 <= length x /\ length m = length x /\ any_pair (length x) p = true /\
    count_kept (sparsify_curve m p x) < 2.
Proof. exact fallback_with_replacement_refuted_lemma. Qed.
Print Assumptions C20_fallback_with_replacement_refuted.

(* ---------- the simulator: purity, composition, exception safety ---------- *)
(* add_noise, sparsify and the combined operation, in ANY order and number, each
   with ANY fault schedule (the simulator is reused after an exception): the
   simulated data are never modified *)
Theorem C20_source_untouched : forall (D Sp : Type) noisef sparsef is2d
    (cs : list (call * option nat)) (s : sim D Sp),
  data (run_calls noisef sparsef is2d cs s) = data s.
Proof. exact @source_untouched_lemma. Qed.
Print Assumptions C20_source_untouched.

(* the combined operation stores sparsify(add_noise(data)) and leaves data alone *)
Theorem C20_combined_is_sparsify_of_noisy : forall (D Sp : Type) noisef sparsef is2d a b
    (s : sim D Sp) d r,
  data s = Some d -> is2d (noisef d) = false -> sparsef (noisef d) = Some r ->
  combined noisef sparsef is2d (add_noise_body a) (sparsify_body b) None s =
  Done {| data := Some d; noisy := Some (noisef d); sparse := Some r |}.
Proof. exact @combined_is_sparsify_of_noisy_lemma. Qed.
Print Assumptions C20_combined_is_sparsify_of_noisy.

(* for EVERY list of internal calls of the two phases, EVERY fault schedule
   (none, or the n-th call raises) and every natural failure: the clean data
   are afterwards exactly what they were before *)
Theorem C20_clean_data_restored_under_any_fault : forall (D Sp : Type) noisef sparsef is2d
    (p1 p2 : list instr) (k : option nat) (s : sim D Sp),
  data (final (combined noisef sparsef is2d p1 p2 k s)) = data s.
Proof. exact @clean_data_restored_lemma. Qed.
Print Assumptions C20_clean_data_restored_under_any_fault.

Theorem C20_clean_data_restored_at_every_fault_position : forall (D Sp : Type) noisef sparsef is2d
    (p1 p2 : list instr) (s : sim D Sp) (n : nat),
  data (final (combined noisef sparsef is2d p1 p2 (Some n) s)) = data s.
Proof. exact @clean_data_restored_at_every_position. Qed.
Print Assumptions C20_clean_data_restored_at_every_fault_position.

(* the natural failure on 2-D data: the operation does raise, with the noisy
   data stored and the clean data back in place *)
Theorem C20_clean_data_restored_after_2d_failure : forall (D Sp : Type) noisef sparsef is2d a b
    (s : sim D Sp) d,
  data s = Some d -> is2d (noisef d) = true ->
  combined noisef sparsef is2d (add_noise_body a) (sparsify_body b) None s =
  Raised {| data := Some d; noisy := Some (noisef d); sparse := sparse s |}.
Proof. exact @natural_2d_failure_lemma. Qed.
Print Assumptions C20_clean_data_restored_after_2d_failure.

(* F13(a): the current code (no try/finally) leaves the noisy data in [data]
   after the natural 2-D failure, and after an injected fault on 1-D data *)
Theorem C20_swap_without_finally_refuted :
  exists (noisef : nat -> nat) (sparsef : nat -> option nat) (is2d : nat -> bool)
         (k : option nat) (s : sim nat nat),
    data (final (combined_nofinally noisef sparsef is2d (add_noise_body 1) (sparsify_body 1) k s))
    <> data s.
Proof. exact swap_without_finally_refuted_lemma. Qed.
Print Assumptions C20_swap_without_finally_refuted.

Theorem C20_swap_without_finally_refuted_by_fault :
  exists (k : option nat) (s : sim nat nat),
    data (final (combined_nofinally (fun d => d + 1) (fun d => Some d) (fun _ => false)
                                    (add_noise_body 1) (sparsify_body 1) k s))
    <> data s.
Proof. exact swap_without_finally_refuted_fault_lemma. Qed.
Print Assumptions C20_swap_without_finally_refuted_by_fault.

(* non-vacuity: a curve whose drawn mask keeps one sample, noise of variance 1/4
   (s = 1/2), fallback positions 0 and 2 *)
Example C20_example :
  sparsify_curve [false; true; false; false] (0, 2)
                 (add_noise opsQ (1#2) [2#1; -4#1; 6#1; 0#1] [1#1; 1#1; 1#1; 1#1])
  = [Some (2#1); Some (-1#1); Some (4#1); None]%Q.
Proof. vm_compute. reflexivity. Qed.
