(* Props/C01.v — property C01: FPCA components are ordered, non-negative and
   the leading ones are kept.  Statements only; proofs are in Lemmas/Eigen.v.
   [spec] is whatever list of (eigenvalue, eigenvector) pairs the numerical
   solver returns, IN ANY ORDER; [s] is the n_components request. *)
From Coq Require Import List Reals Sorted Permutation QArith.
From FDAV Require Import Base.Num Model.Eigen Lemmas.Eigen Gen.Select Lemmas.GenSelect.
Import ListNotations.
Local Open Scope R_scope.

(* (a) reported eigenvalues are non-negative ... *)
Theorem C01_nonneg : forall spec s,
  Forall (fun p : R * list R => 0 <= fst p) (compute_eigen opsR spec s).
Proof. exact compute_eigen_nonneg. Qed.
Print Assumptions C01_nonneg.

(* ... and non-increasing, for every order in which the spectrum came back *)
Theorem C01_sorted : forall spec s, StronglySorted geP (compute_eigen opsR spec s).
Proof. exact compute_eigen_sorted. Qed.
Print Assumptions C01_sorted.

(* pairs stay paired: the output is a prefix of a permutation of the clipped
   solver output — nothing invented, nothing re-paired *)
Theorem C01_paired : forall spec s,
  exists full, Permutation (clip opsR spec) full /\
    compute_eigen opsR spec s = firstn (length (compute_eigen opsR spec s)) full.
Proof. exact compute_eigen_paired. Qed.
Print Assumptions C01_paired.

(* ties are kept in solver order (the sort is stable) *)
Theorem C01_stable : forall l k,
  filter (fun q => Reqb (fst q) k) (sort_desc opsR l) = filter (fun q => Reqb (fst q) k) l.
Proof. exact sort_desc_stable. Qed.
Print Assumptions C01_stable.

(* (b) k components = exactly the first k of the full decomposition *)
Theorem C01_prefix : forall spec s,
  compute_eigen opsR spec s =
  firstn (npc opsR s (map fst (compute_eigen opsR spec SelAll))) (compute_eigen opsR spec SelAll).
Proof. exact compute_eigen_prefix. Qed.
Print Assumptions C01_prefix.

Theorem C01_count : forall spec k,
  compute_eigen opsR spec (SelCount k) = firstn k (compute_eigen opsR spec SelAll).
Proof. exact compute_eigen_count. Qed.
Print Assumptions C01_count.

(* ... which are the directions of largest variance: kept >= dropped *)
Theorem C01_topk : forall spec s a b,
  In a (compute_eigen opsR spec s) ->
  In b (skipn (npc opsR s (map fst (compute_eigen opsR spec SelAll)))
              (compute_eigen opsR spec SelAll)) ->
  fst a >= fst b.
Proof. exact compute_eigen_topk. Qed.
Print Assumptions C01_topk.

(* a fraction p keeps the smallest leading set whose cumulated variance reaches p *)
Theorem C01_fraction : forall spec p,
  0 < p < 1 -> 0 < sumR (map fst (compute_eigen opsR spec SelAll)) ->
  let full := map fst (compute_eigen opsR spec SelAll) in
  let kept := map fst (compute_eigen opsR spec (SelFrac p)) in
  (1 <= length kept <= length full)%nat /\
  kept = firstn (length kept) full /\
  p * sumR full <= sumR kept /\
  (forall j, (j < length kept)%nat -> sumR (firstn j full) < p * sumR full).
Proof. exact compute_eigen_frac. Qed.
Print Assumptions C01_fraction.

(* the callers' post-processing (eigenvalues / n, W^{-1/2} u, X^T v / sqrt l)
   keeps order and pairing and commutes with taking the prefix *)
Theorem C01_post_sorted : forall c (l : list (R * list R)),
  0 <= c -> StronglySorted geP l -> StronglySorted geP (post_scale_val opsR c l).
Proof. exact post_scale_val_sorted. Qed.
Print Assumptions C01_post_sorted.
Theorem C01_post_prefix : forall c f k (l : list (R * list R)),
  post_scale_val opsR c (post_map_vec f (firstn k l)) =
  firstn k (post_scale_val opsR c (post_map_vec f l)).
Proof. exact post_commutes_with_prefix. Qed.
Print Assumptions C01_post_prefix.

(* the executable run on rationals IS this model on the same numbers *)
Theorem C01_transfer : forall spec s,
  map pQ2R (compute_eigen opsQ spec s) = compute_eigen opsR (map pQ2R spec) (selQ2R s).
Proof. exact compute_eigen_transfer. Qed.
Print Assumptions C01_transfer.

(* F1: the unrepaired helper (LAPACK order kept) violates order and top-k;
   what it does keep is non-negativity and the prefix law *)
Theorem C01_nosort_refuted_sorted :
  ~ StronglySorted geP (compute_eigen_nosort opsR witness_spec (SelCount 2)).
Proof. exact nosort_not_sorted. Qed.
Print Assumptions C01_nosort_refuted_sorted.
Theorem C01_nosort_refuted_topk :
  exists a b, In a (compute_eigen_nosort opsR witness_spec (SelCount 2)) /\
              In b (skipn 2 (compute_eigen_nosort opsR witness_spec SelAll)) /\ fst a < fst b.
Proof. exact nosort_not_topk. Qed.
Print Assumptions C01_nosort_refuted_topk.
Theorem C01_nosort_nonneg : forall spec s,
  Forall (fun p : R * list R => 0 <= fst p) (compute_eigen_nosort opsR spec s).
Proof. exact nosort_nonneg. Qed.
Print Assumptions C01_nosort_nonneg.
Theorem C01_nosort_prefix : forall spec s,
  compute_eigen_nosort opsR spec s =
  firstn (npc opsR s (map fst (compute_eigen_nosort opsR spec SelAll)))
         (compute_eigen_nosort opsR spec SelAll).
Proof. exact nosort_prefix. Qed.
Print Assumptions C01_nosort_prefix.

(* non-vacuity: a concrete unsorted, partly negative spectrum *)
Example C01_example :
  map fst (compute_eigen opsQ [(1#1, [1#1]); (-1#2, [0#1]); (3#1, [2#1]); (2#1, [5#1])] (SelFrac (7#10)))
  = [3#1; 2#1]%Q.
Proof. vm_compute. reflexivity. Qed.

(* ---------- the selection rule as TRANSLATED from /repo/FDApy/misc/utils.py on this run (Gen/Select.v) ----------
   _select_number_eigencomponents, as the source reads now, returns the number of components [npc] that the theorems
   above are about: the integer itself, every eigenvalue for None, and for a fraction p < 1 one more than the number of
   cumulated shares below p (spectrum with positive total); a float >= 1 is rejected (ValueError). *)
Theorem C01_source_selection_rule : forall s evs,
  (forall p, s = SelFrac p -> p < 1 /\ 0 < total opsR evs) -> gen_npc opsR s evs = Some (npc opsR s evs).
Proof. exact gen_npc_is_model. Qed.
Print Assumptions C01_source_selection_rule.
Theorem C01_source_selection_rejects : forall p evs, 1 <= p -> gen_npc opsR (SelFrac p) evs = None.
Proof. exact gen_npc_rejects. Qed.
Print Assumptions C01_source_selection_rejects.

Local Close Scope R_scope.
Local Open Scope Q_scope.
(* the translated source, executed *)
Example C01_source_example :
  gen_npc opsQ (SelFrac (1#2)) [3; 1] = Some 1%nat /\ gen_npc opsQ (SelFrac (9#10)) [3; 1] = Some 2%nat /\
  gen_npc opsQ (SelFrac (3#2)) [3; 1] = None /\ gen_npc opsQ SelAll [3; 1] = Some 2%nat.
Proof. vm_compute. repeat split; reflexivity. Qed.
