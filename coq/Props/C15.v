(* Props/C15.v — property C15: irregular data mean what they contain, however
   they are encoded.  Statements only; proofs are in Lemmas/Encoding.v.
   [A] = abscissae with a decidable equality [eqb] (hypothesis [eqb_spec], a
   premise of each statement, not an axiom), [V] = values.  CONTENT = per curve
   the observed (t, y) pairs in order.  These theorems are thin by construction
   (both decoders land in the same content); they fix WHEN the common-grid
   encoding is faithful.  The assurance that the implementation is a function
   of the content is the correspondence run of ./check C15.
   Discrete; closed under the global context. *)
From Coq Require Import List Bool ZArith QArith.
Local Close Scope Q_scope.
From FDAV Require Import Model.Encoding Lemmas.Encoding Lemmas.EncodingMean.
Import ListNotations.

(* per-curve sampling points (CSV loader): lossless for every content *)
Theorem C15_dec_enc_ragged : forall (A V : Type) (ct : @content A V),
  dec_ragged (enc_ragged ct) = ct.
Proof. exact @dec_enc_ragged. Qed.
Print Assumptions C15_dec_enc_ragged.

(* NaN on a common grid (sparsifier): lossless when the grid has no duplicate
   and every curve is sampled on an ordered part of it *)
Theorem C15_dec_enc_nan : forall (A V : Type) (eqb : A -> A -> bool),
  (forall x y, eqb x y = true <-> x = y) ->
  forall grid (ct : @content A V),
    NoDup grid -> Forall (fun c => subseq (map fst c) grid) ct ->
    dec_nan grid (enc_nan eqb grid ct) = ct.
Proof. exact @dec_enc_nan. Qed.
Print Assumptions C15_dec_enc_nan.

(* hence every operation defined on the content gives the same result for the two encodings *)
Theorem C15_encoding_independent : forall (A V : Type) (eqb : A -> A -> bool),
  (forall x y, eqb x y = true <-> x = y) ->
  forall grid (ct : @content A V),
    NoDup grid -> Forall (fun c => subseq (map fst c) grid) ct ->
    forall (R : Type) (op : @content A V -> R),
      op (dec_nan grid (enc_nan eqb grid ct)) = op (dec_ragged (enc_ragged ct)).
Proof. exact @encoding_independent. Qed.
Print Assumptions C15_encoding_independent.

(* which cells are missing: exactly those where the curve has no sample; all rows live on the whole grid *)
Theorem C15_missing_cell_iff : forall (A V : Type) (eqb : A -> A -> bool),
  (forall x y, eqb x y = true <-> x = y) ->
  forall (c : @curve A V) t, lookup eqb t c = None <-> ~ In t (map fst c).
Proof. exact @lookup_none_iff. Qed.
Print Assumptions C15_missing_cell_iff.

Theorem C15_enc_nan_shape : forall (A V : Type) (eqb : A -> A -> bool) grid (ct : @content A V),
  length (enc_nan eqb grid ct) = length ct /\
  Forall (fun row => length row = length grid) (enc_nan eqb grid ct).
Proof. exact @enc_nan_shape. Qed.
Print Assumptions C15_enc_nan_shape.

(* decoding never turns a missing cell into a sample (no value is invented) *)
Theorem C15_dec_row_only_observed : forall (A V : Type) (grid : list A) (row : list (option V)) (t : A) (v : V),
  In (t, v) (dec_row grid row) -> In (t, Some v) (combine grid row).
Proof. exact @dec_row_only_observed. Qed.
Print Assumptions C15_dec_row_only_observed.

(* no gap => both encodings ARE the dense dataset: the common grid and the full value matrix *)
Theorem C15_complete_is_dense : forall (A V : Type) (eqb : A -> A -> bool),
  (forall x y, eqb x y = true <-> x = y) ->
  forall grid (ct : @content A V),
    NoDup grid -> Forall (fun c => map fst c = grid) ct ->
    enc_nan eqb grid ct = map (map Some) (dense_values ct) /\
    enc_ragged ct = map (fun r => (grid, r)) (dense_values ct) /\
    dec_nan grid (map (map Some) (dense_values ct)) = ct /\
    Forall (fun r => length r = length grid) (dense_values ct).
Proof. exact @complete_is_dense. Qed.
Print Assumptions C15_complete_is_dense.

(* the long format has one row per observed sample *)
Theorem C15_to_long_length : forall (A V : Type) (ct : @content A V),
  length (to_long ct) = fold_right (fun c n => length c + n) 0 ct.
Proof. exact @to_long_length. Qed.
Print Assumptions C15_to_long_length.

(* ---- F14: the unrepaired layout of the long table for the P-spline mean, as a defect model ----
   [format_pooled] = per grid point (mean of the observed values, number of observations);
   [format_last]   = per grid point (LAST observed value in long-table order, weight 1, or
                     weight 0 where that value is exactly 0 / nothing observed).
   On the content  curve 0 = (0,1) (1,2) (2,5),  curve 1 = (0,3) (1,0)  they differ. *)
Theorem C15_mean_last_observation_refuted :
  (format_pooled Qeq_bool f14_grid f14_content = [(2, 2); (1, 2); (5, 1)] /\
   format_last Qeq_bool f14_grid f14_content = [(3, 1); (0, 0); (5, 1)] /\
   mean_pooled Qeq_bool f14_grid f14_content = [2; 1; 5] /\
   mean_last Qeq_bool f14_grid f14_content = [3; 0; 5] /\
   ~ (nth 0 (mean_last Qeq_bool f14_grid f14_content) 0 == nth 0 (mean_pooled Qeq_bool f14_grid f14_content) 0))%Q.
Proof. exact mean_last_observation_refuted. Qed.
Print Assumptions C15_mean_last_observation_refuted.

(* ... and coincide where a grid point carries a single non-zero observation *)
Theorem C15_mean_last_agrees_single : forall (t v : Q),
  Qeq_bool v 0 = false ->
  format_last Qeq_bool [t] [[(t, v)]] = [(v, 1%Q)] /\ mean_last Qeq_bool [t] [[(t, v)]] = [v].
Proof. exact mean_last_agrees_single. Qed.
Print Assumptions C15_mean_last_agrees_single.

(* ---- the pooled layout (what the mean of irregular data requires), for every content ----
   the weight of a grid point is the NUMBER of observations available there ... *)
Theorem C15_pooled_weights_count : forall eqb grid (ct : @content Q Q),
  map snd (format_pooled eqb grid ct)
  = map (fun t => inject_Z (Z.of_nat (length (obs_at eqb t ct)))) grid.
Proof. exact pooled_weights_count. Qed.
Print Assumptions C15_pooled_weights_count.

(* ... it does not depend on the encoding the content went through ... *)
Theorem C15_pooled_encoding_independent : forall eqb (grid : list Q) (ct : @content Q Q),
  format_pooled eqb grid (dec_ragged (enc_ragged ct)) = format_pooled eqb grid ct.
Proof. exact pooled_encoding_independent. Qed.
Print Assumptions C15_pooled_encoding_independent.

(* ... and when NO sample is missing (second sentence of C15) it is the dense dataset's: weight n_obs at
   every grid point and, as value, the column mean of the dense value matrix — for every number of
   curves and every duplicate-free grid *)
Theorem C15_pooled_complete_is_dense_mean : forall eqb, (forall x y, eqb x y = true <-> x = y) ->
  forall grid (ct : @content Q Q), NoDup grid -> Forall (fun c => map fst c = grid) ct -> ct <> [] ->
  (format_pooled eqb grid ct
   = map (fun j => (Qred (qsum (map (fun r => nth j r 0) (dense_values ct)) / inject_Z (Z.of_nat (length ct))),
                    inject_Z (Z.of_nat (length ct))))
         (seq 0 (length grid)) /\
   mean_pooled eqb grid ct
   = map (fun j => Qred (qsum (map (fun r => nth j r 0) (dense_values ct)) / inject_Z (Z.of_nat (length ct))))
         (seq 0 (length grid)))%Q.
Proof.
  intros eqb H grid ct Hn Hf Hne.
  exact (conj (pooled_complete_is_dense_mean eqb H grid ct Hn Hf Hne)
              (mean_pooled_complete_is_dense_mean eqb H grid ct Hn Hf Hne)).
Qed.
Print Assumptions C15_pooled_complete_is_dense_mean.

(* non-vacuity of the complete-data statement: three complete curves on the grid 0, 1/2, 1 *)
Example C15_pooled_complete_example :
  (let grid := [0; 1 # 2; 1] in
   let ct := [[(0, 1); (1 # 2, 2); (1, 6)]; [(0, 3); (1 # 2, 0); (1, 1)]; [(0, 5); (1 # 2, 4); (1, 2)]] in
   forallb (fun c => forallb (fun p => Qeq_bool (fst p) (snd p)) (combine (map fst c) grid)) ct = true /\
   format_pooled Qeq_bool grid ct = [(3, 3); (2, 3); (3, 3)] /\
   mean_pooled Qeq_bool grid ct = [3; 2; 3])%Q.
Proof. vm_compute. repeat split. Qed.

(* non-vacuity: three curves on the grid 0,1,2,3 with gaps *)
Example C15_example :
  let ct := [[(0, 10); (1, 11); (3, 13)]; [(1, 21); (2, 22)]; [(0, 30); (2, 32); (3, 33)]]%Z in
  enc_nan Z.eqb [0; 1; 2; 3]%Z ct
    = [[Some 10; Some 11; None; Some 13]; [None; Some 21; Some 22; None]; [Some 30; None; Some 32; Some 33]]%Z /\
  dec_nan [0; 1; 2; 3]%Z (enc_nan Z.eqb [0; 1; 2; 3]%Z ct) = ct /\
  enc_ragged ct = [([0; 1; 3], [10; 11; 13]); ([1; 2], [21; 22]); ([0; 2; 3], [30; 32; 33])]%Z /\
  map (fun r => (fst (fst r), Z.of_nat (snd (fst r)), snd r)) (to_long ct)
    = [(0, 0, 10); (1, 0, 11); (3, 0, 13); (1, 1, 21); (2, 1, 22); (0, 2, 30); (2, 2, 32); (3, 2, 33)]%Z.
Proof. vm_compute. repeat split. Qed.
