(* Props/C03.v — property C03: scores decorrelate the data and inverse_transform undoes
   transform.  Statements only; proofs in Lemmas/Scores.v.
   t = grid (m points), Xt = prepared (centred, possibly rescaled) training curves (n rows),
   w = trapezoid weights of t, phi = eigenfunctions, lambda = eigenvalues. *)
From Coq Require Import List Reals QArith.
From FDAV Require Import Base.Num Base.Vec Base.Quad Model.Stats Model.Scores
  Lemmas.Vec Lemmas.Quad Lemmas.Gram Lemmas.Stats Lemmas.Scores.
Import ListNotations.
Local Open Scope R_scope.

(* covariance method, numerical-integration scores: given the eigen-equation of the (n-1)
   sample covariance of the prepared curves (established for the code by C02),
   sum_i xi_ij xi_ik = (n-1) lambda_k <phi_j,phi_k>_w  — i.e. uncorrelated across components with
   sample variance lambda_k when the eigenfunctions are orthonormal for the quadrature *)
Theorem C03_numint_uncorrelated : forall t Xt phij phik lamk,
  let m := length t in let n := length Xt in let w := trapz_w opsR t in
  (2 <= n)%nat -> Forall (fun r => length r = m) Xt -> length phij = m -> length phik = m ->
  mv opsR (cov_of_cols opsR n (transpose m Xt)) (vmul opsR w phik) = vscale opsR lamk phik ->
  dot opsR (score_col t Xt phij) (score_col t Xt phik) = INR (n - 1) * lamk * wdot opsR w phij phik.
Proof. exact numint_uncorrelated. Qed.
Print Assumptions C03_numint_uncorrelated.
Theorem C03_numint_scores_sum_zero : forall t Xt phi, Forall (fun r => length r = length t) Xt ->
  length phi = length t -> colsum opsR (length t) Xt = zeros opsR (length t) ->
  vsum opsR (score_col t Xt phi) = 0.
Proof. exact numint_scores_sum_zero. Qed.
Print Assumptions C03_numint_scores_sum_zero.

(* inner-product method, Gram-based scores xi_k = r_k v_k with r_k^2 = n lambda_k *)
Theorem C03_innpro_uncorrelated : forall rj rk vj vk,
  dot opsR (vscale opsR rj vj) (vscale opsR rk vk) = rj * rk * dot opsR vj vk.
Proof. exact innpro_uncorrelated. Qed.
Print Assumptions C03_innpro_uncorrelated.
Theorem C03_innpro_variance : forall n lam r v, r * r = INR n * lam -> dot opsR v v = 1 ->
  dot opsR (vscale opsR r v) (vscale opsR r v) = INR n * lam.
Proof. exact innpro_variance. Qed.
Print Assumptions C03_innpro_variance.

(* inverse_transform is affine in the scores: mean + s * (linear map of the scores) *)
Theorem C03_inverse_affine : forall m mu s Phi a b xi eta, Forall (fun r => length r = m) Phi ->
  length xi = length eta ->
  inverse opsR m mu s Phi (vadd opsR (vscale opsR a xi) (vscale opsR b eta)) =
  vadd opsR mu (vscale opsR s (vadd opsR (vscale opsR a (mtv opsR m Phi xi)) (vscale opsR b (mtv opsR m Phi eta)))).
Proof. exact inverse_affine. Qed.
Print Assumptions C03_inverse_affine.

(* when the prepared curve lies in the span of the retained (W-orthonormal) components, its scores
   are its coefficients and mapping them back reproduces the curve — with or without the
   normalisation (s = sqrt(weight) or s = 1) *)
Theorem C03_scores_of_combination : forall t Phi c,
  let m := length t in let K := length Phi in
  Forall (fun r => length r = m) Phi -> length c = K ->
  (forall k, (k < K)%nat -> map (fun g => inner opsR t (nth k Phi []) g) Phi = unit K k) ->
  map (fun phi => inner opsR t (mtv opsR m Phi c) phi) Phi = c.
Proof. exact scores_of_combination. Qed.
Print Assumptions C03_scores_of_combination.
Theorem C03_roundtrip_on_span : forall t mu s Phi x c,
  let m := length t in let K := length Phi in
  s <> 0 -> length x = length mu ->
  Forall (fun r => length r = m) Phi -> length c = K ->
  (forall k, (k < K)%nat -> map (fun g => inner opsR t (nth k Phi []) g) Phi = unit K k) ->
  prep opsR mu s x = mtv opsR m Phi c ->
  inverse opsR m mu s Phi (map (fun phi => inner opsR t (prep opsR mu s x) phi) Phi) = x.
Proof. exact roundtrip_on_span. Qed.
Print Assumptions C03_roundtrip_on_span.
(* in general the round trip is the projection on the retained components: scoring the reconstruction of
   ANY curve again gives the same scores (transform o inverse o transform = transform) *)
Theorem C03_roundtrip_is_projection : forall t Phi xt,
  let m := length t in let K := length Phi in
  Forall (fun r => length r = m) Phi ->
  (forall k, (k < K)%nat -> map (fun g => inner opsR t (nth k Phi []) g) Phi = unit K k) ->
  let xi := map (fun phi => inner opsR t xt phi) Phi in
  map (fun phi => inner opsR t (mtv opsR m Phi xi) phi) Phi = xi.
Proof. exact roundtrip_is_projection. Qed.
Print Assumptions C03_roundtrip_is_projection.

(* finding F2: rescaling the UNCENTRED curve (what transform(data) does with normalize=True) gives
   other scores than scoring the stored training data *)
Theorem C03_transform_uncentred_refuted :
  exists t mu s x phi,
    scores_numint opsQ t [prep_uncentred opsQ s x] [phi] <> scores_numint opsQ t [prep opsQ mu s x] [phi].
Proof. exact uncentred_scores_differ. Qed.
Print Assumptions C03_transform_uncentred_refuted.

Local Close Scope R_scope.
Local Open Scope Q_scope.
Example C03_example :
  inverse opsQ 2 [1; 1] 2 [[1; 0]; [0; 1]] [3; 4] = [7; 9] /\ prep opsQ [1; 1] 2 [7; 9] = [3; 4].
Proof. split; vm_compute; reflexivity. Qed.
