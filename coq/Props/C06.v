(* Props/C06.v — property C06: local polynomial regression is the kernel-weighted least-squares fit
   per query point.  Statements only; proofs in Lemmas/LocalPoly.v (and Lemmas/Pspline.v).
   D = local design rows on the centred, bandwidth-scaled variable u = (x - x0)/h, w = kernel weights;
   normal equations Aop nb D w [] beta = rhs nb D w y; the estimate is the intercept. *)
From Coq Require Import List Reals QArith.
From FDAV Require Import Base.Num Base.Vec Model.Basis Model.Pspline Model.LocalPoly
  Model.Poly Lemmas.Vec Lemmas.Pspline Lemmas.LocalPoly Gen.Kernels Lemmas.GenKernels Lemmas.LocalPolyRepro.
Import ListNotations.
Local Open Scope R_scope.

Theorem C06_kernels_nonneg : forall t, 0 <= t ->
  0 <= k_epan opsR t /\ 0 <= k_tricube opsR t /\ 0 <= k_bisquare opsR t.
Proof. exact kernels_nonneg. Qed.
Print Assumptions C06_kernels_nonneg.
Theorem C06_kernels_compact : forall t, 1 <= t ->
  k_epan opsR t = 0 /\ k_tricube opsR t = 0 /\ k_bisquare opsR t = 0.
Proof. exact kernels_compact. Qed.
Print Assumptions C06_kernels_compact.
Theorem C06_kernel_even : forall x0 h d, dist1 opsR x0 h (x0 + d) = dist1 opsR x0 h (x0 - d).
Proof. exact dist_even. Qed.
Print Assumptions C06_kernel_even.
Theorem C06_gaussian_pos : forall t, 0 < k_gauss t.
Proof. exact gaussian_pos. Qed.
Print Assumptions C06_gaussian_pos.
(* a harmless refactoring must not alarm: both support conventions give the same weights *)
Theorem C06_support_convention_irrelevant : forall t, k_epan opsR t = k_epan_strict opsR t.
Proof. exact epan_support_convention_irrelevant. Qed.
Print Assumptions C06_support_convention_irrelevant.

Theorem C06_linear_in_y : forall nb D w a b y y' beta beta', wfB nb D ->
  length y = length y' -> length beta = length beta' ->
  Aop opsR nb D w [] beta = rhs opsR nb D w y -> Aop opsR nb D w [] beta' = rhs opsR nb D w y' ->
  Aop opsR nb D w [] (vadd opsR (vscale opsR a beta) (vscale opsR b beta')) =
  rhs opsR nb D w (vadd opsR (vscale opsR a y) (vscale opsR b y')).
Proof. exact lp_linear_in_y. Qed.
Print Assumptions C06_linear_in_y.
Theorem C06_reproduces_poly : forall nb D w c, wfB nb D ->
  Aop opsR nb D w [] c = rhs opsR nb D w (fitted opsR D c).
Proof. exact lp_reproduces_poly. Qed.
Print Assumptions C06_reproduces_poly.
Theorem C06_local : forall nb D w y y',
  Forall2 (fun wy y'k => fst wy = 0 \/ snd wy = y'k) (combine w y) y' -> length y = length y' ->
  length w = length y -> rhs opsR nb D w y = rhs opsR nb D w y'.
Proof. exact lp_local. Qed.
Print Assumptions C06_local.
Theorem C06_unique : forall nb D w beta beta', wfB nb D -> length beta = nb -> length beta' = nb ->
  (forall c, length c = nb -> dot opsR c (Aop opsR nb D w [] c) = 0 -> c = zeros opsR nb) ->
  Aop opsR nb D w [] beta = Aop opsR nb D w [] beta' -> vsub opsR beta beta' = zeros opsR nb.
Proof. exact lp_unique. Qed.
Print Assumptions C06_unique.
Theorem C06_intercept_is_value_at_query : forall u p, nth 0 (pows opsR u p) 0 = 1.
Proof. exact pows_hd. Qed.
Print Assumptions C06_intercept_is_value_at_query.

(* invariant under a common shift or rescaling of sampling points, query point and bandwidth *)
Theorem C06_design_invariant : forall p a b x0 h xs, a <> 0 -> h <> 0 ->
  design_1d opsR p (a * x0 + b) (a * h) (map (fun x => a * x + b) xs) = design_1d opsR p x0 h xs.
Proof. exact design_invariant. Qed.
Print Assumptions C06_design_invariant.
Theorem C06_weights_invariant : forall k a b x0 h xs, 0 < a -> h <> 0 ->
  weights_1d opsR k (a * x0 + b) (a * h) (map (fun x => a * x + b) xs) = weights_1d opsR k x0 h xs.
Proof. exact weights_invariant. Qed.
Print Assumptions C06_weights_invariant.
(* C06_basis_change_partial: the equality of a fit parametrised on raw powers of x with the centred one
   (what an implementation not centring would need) is not proved; the repaired code centres. *)

Local Close Scope R_scope.
Local Open Scope Q_scope.
Example C06_example :
  design_1d opsQ 2 1 2 [1; 2; 5] = [[1; 0; 0]; [1; 1#2; 1#4]; [1; 2; 4]] /\
  weights_1d opsQ (k_epan opsQ) 1 2 [1; 2; 5] = [3#4; 9#16; 0].
Proof. split; vm_compute; reflexivity. Qed.

(* ---- the kernel code itself: Gen/Kernels.v is TRANSLATED from local_polynomial.py on every run
   (harness/reflect.py); the translated functions are the model's kernels composed with |.| ---- *)
Theorem C06_translated_epanechnikov_is_model : forall x, (gen_kernel_epanechnikov opsR x = k_epan opsR (Rabs x))%R.
Proof. exact gen_epanechnikov_is_model. Qed.
Print Assumptions C06_translated_epanechnikov_is_model.
Theorem C06_translated_tricube_is_model : forall x, (gen_kernel_tricube opsR x = k_tricube opsR (Rabs x))%R.
Proof. exact gen_tricube_is_model. Qed.
Print Assumptions C06_translated_tricube_is_model.
Theorem C06_translated_bisquare_is_model : forall x, (gen_kernel_bisquare opsR x = k_bisquare opsR (Rabs x))%R.
Proof. exact gen_bisquare_is_model. Qed.
Print Assumptions C06_translated_bisquare_is_model.
Theorem C06_translated_gaussian_is_model : forall x, (gen_kernel_gaussian x = k_gauss (Rabs x))%R.
Proof. exact gen_gaussian_is_model. Qed.
Print Assumptions C06_translated_gaussian_is_model.
Theorem C06_translated_kernels_nonneg : forall x, (0 <= gen_kernel_epanechnikov opsR x /\ 0 <= gen_kernel_tricube opsR x /\ 0 <= gen_kernel_bisquare opsR x
  /\ 0 < gen_kernel_gaussian x)%R.
Proof. exact gen_kernels_nonneg. Qed.
Print Assumptions C06_translated_kernels_nonneg.
Theorem C06_translated_kernels_compact : forall x, (1 <= Rabs x ->
  gen_kernel_epanechnikov opsR x = 0 /\ gen_kernel_tricube opsR x = 0 /\ gen_kernel_bisquare opsR x = 0)%R.
Proof. exact gen_kernels_compact. Qed.
Print Assumptions C06_translated_kernels_compact.
Theorem C06_translated_kernels_even : forall x, (gen_kernel_epanechnikov opsR (- x) = gen_kernel_epanechnikov opsR x /\
  gen_kernel_tricube opsR (- x) = gen_kernel_tricube opsR x /\
  gen_kernel_bisquare opsR (- x) = gen_kernel_bisquare opsR x /\
  gen_kernel_gaussian (- x) = gen_kernel_gaussian x)%R.
Proof. exact gen_kernels_even. Qed.
Print Assumptions C06_translated_kernels_even.

(* ---- polynomial reproduction, end to end on the executed 1-D design: a polynomial given by its coefficients in x
   (constant term first, degree <= p) is re-expanded around the query point; the re-expanded coefficients solve the
   local normal equations for every kernel weight vector; with a full-rank weighted local design every solution has
   the polynomial's value at the query point as its intercept (= the estimate) ---- *)
Theorem C06_design_of_reexpanded_polynomial : forall p x0 h (a xs : list R), (h <> 0)%R -> (length a <= S p)%nat ->
  mv opsR (design_1d opsR p x0 h xs) (local_coef p x0 h a) = map (peval opsR a) xs.
Proof. exact design_poly. Qed.
Print Assumptions C06_design_of_reexpanded_polynomial.
Theorem C06_polynomial_reproduced : forall p x0 h w (a xs beta : list R), (h <> 0)%R -> (length a <= S p)%nat ->
  length beta = S p ->
  (forall c, length c = S p -> (dot opsR c (Aop opsR (S p) (design_1d opsR p x0 h xs) w [] c) = 0)%R -> c = zeros opsR (S p)) ->
  Aop opsR (S p) (design_1d opsR p x0 h xs) w [] beta = rhs opsR (S p) (design_1d opsR p x0 h xs) w (map (peval opsR a) xs) ->
  (nth 0 beta 0 = peval opsR a x0)%R.
Proof. exact lp_polynomial_reproduced. Qed.
Print Assumptions C06_polynomial_reproduced.
