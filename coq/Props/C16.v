(* Props/C16.v — property C16: analysis never changes its inputs and is
   repeatable.  Statements only; proofs in Lemmas/Heap.v and Lemmas/Purity.v.

   These theorems are THIN BY CONSTRUCTION: in a heap model where a call is given
   by its write set, "nothing outside the write set changes" is close to the
   definition.  What they fix precisely is the frame condition ([history_ok]:
   every call allocates above the watermark, writes only what it allocated, and
   returns a result reaching only fresh, frozen or earlier-result locations that
   are not among its arguments) and that this PER-CALL condition lifts to all
   histories, including legitimate in-place operations of the user on results.
   The assurance for FDApy is the dynamic correspondence of harness/c16.py, which
   checks that the observed read/write/alias behaviour of every call satisfies
   exactly this condition (Tie/C16.v evaluates [call_ok] on the observed records). *)
From Coq Require Import List Arith Bool.
From FDAV Require Import Model.Heap Model.Purity Lemmas.Heap Lemmas.Purity.
Import ListNotations.

(* after ANY admissible history every input, every configuration object (all that existed
   before) is unchanged, and every earlier result (all that existed after the prefix es1) is
   left alone by whatever follows unless the user operates on that very location in place *)
Theorem C16_frame_lifts_to_histories : forall frozen g es1 es2 h,
  history_ok frozen g h [] (es1 ++ es2) = true ->
  (forall l, l < h_next h -> h_store (run g h (es1 ++ es2)) l = h_store h l) /\
  (forall l, l < h_next (run g h es1) -> ~ In l (mutated es2) ->
             h_store (run g h (es1 ++ es2)) l = h_store (run g h es1) l).
Proof. exact frame_lifts_to_histories. Qed.
Print Assumptions C16_frame_lifts_to_histories.

Theorem C16_pure_history_immutable : forall frozen g es1 es2 h,
  history_ok frozen g h [] (es1 ++ es2) = true -> mutated es2 = [] ->
  forall l, l < h_next (run g h es1) -> h_store (run g h (es1 ++ es2)) l = h_store (run g h es1) l.
Proof. exact pure_history_immutable. Qed.
Print Assumptions C16_pure_history_immutable.

(* the general frame lemma behind both: a location that is not in the user-mutable set *)
Theorem C16_history_frame : forall frozen g es h U l,
  history_ok frozen g h U es = true -> l < h_next h -> mem l U = false ->
  h_store (run g h es) l = h_store h l.
Proof. exact history_frame. Qed.
Print Assumptions C16_history_frame.

(* uninitialised memory *)
Theorem C16_no_garbage_dependence : forall p,
  (forall g g', trace g p = trace g' p) <-> wbr [] p = true.
Proof. exact no_garbage_dependence. Qed.
Print Assumptions C16_no_garbage_dependence.

Theorem C16_divide_where_with_out : forall x std,
  wbr [] (divide_where_with_out x std) = true /\
  (forall g g', trace g (divide_where_with_out x std) = trace g' (divide_where_with_out x std)).
Proof. exact divide_where_with_out_clean. Qed.
Print Assumptions C16_divide_where_with_out.

Theorem C16_divide_where_no_out_refuted :
  exists x std g g',
    trace g (divide_where_no_out x std) <> trace g' (divide_where_no_out x std) /\
    wbr [] (divide_where_no_out x std) = false.
Proof. exact divide_where_no_out_refuted. Qed.
Print Assumptions C16_divide_where_no_out_refuted.

(* the defect needs a zero-variance point: without one the unrepaired code is clean *)
Theorem C16_divide_where_no_out_needs_zero : forall x std, length x = length std ->
  Forall (fun s => s <> 0) std -> wbr [] (divide_where_no_out x std) = true.
Proof. exact divide_where_no_out_needs_zero. Qed.
Print Assumptions C16_divide_where_no_out_needs_zero.

(* repeatability: a pure function of (data, configuration, RNG stream) *)
Theorem C16_refit_deterministic : forall f s s' rng,
  (forall l, In l (f_reads f) -> s l = s' l) -> result f s rng = result f s' rng.
Proof. exact refit_deterministic. Qed.
Print Assumptions C16_refit_deterministic.

Theorem C16_refit_after_history : forall frozen g es h f rng,
  history_ok frozen g h [] es = true ->
  (forall l, In l (f_reads f) -> l < h_next h) ->
  result f (h_store (run g h es)) rng = result f (h_store h) rng.
Proof. exact refit_after_history. Qed.
Print Assumptions C16_refit_after_history.

(* F11(b) and its repair *)
Theorem C16_pop_config_refuted :
  exists (h : heap) (g : loc -> val),
    let e1 := Pure (fit_call_pop 0 1 (h_store h)) in
    let h1 := exec g h e1 in
    let e2 := Pure (fit_call_pop 0 2 (h_store h1)) in
    let h2 := exec g h1 e2 in
    h_store h1 0 <> h_store h 0 /\ h_store h2 2 <> h_store h1 1 /\
    history_ok (fun _ => false) g h [] [e1] = false.
Proof. exact pop_config_refuted. Qed.
Print Assumptions C16_pop_config_refuted.

Theorem C16_fit_config_kept : forall (s : store) (g : loc -> val) n, 1 <= n ->
  let h := mkH s n in
  let e1 := Pure (fit_call 0 n s) in
  let h1 := exec g h e1 in
  let e2 := Pure (fit_call 0 (S n) (h_store h1)) in
  let h2 := exec g h1 e2 in
  history_ok (fun _ => false) g h [] [e1; e2] = true /\
  h_store h2 0 = s 0 /\ h_store h2 (S n) = h_store h1 n.
Proof. exact fit_config_kept. Qed.
Print Assumptions C16_fit_config_kept.

(* F11(c) and its repair: write sets alone look innocent, the alias condition rejects *)
Theorem C16_shared_basis_refuted :
  exists (h : heap) (g : loc -> val) (es : list event) (l : loc),
    es = [center_shared 0 1 2 (h_store h); rescale_basis_inplace 1 9] /\
    history_ok_noalias g h [] es = true /\
    l < h_next h /\ h_store (run g h es) l <> h_store h l /\
    history_ok (fun _ => false) g h [] es = false.
Proof. exact shared_basis_refuted. Qed.
Print Assumptions C16_shared_basis_refuted.

Theorem C16_copied_basis_ok : forall (s : store) (g : loc -> val) v,
  let h := mkH s 2 in
  let es := [center_copy 0 1 2 3 s; rescale_basis_inplace 3 v] in
  history_ok (fun _ => false) g h [] es = true /\
  h_store (run g h es) 0 = s 0 /\ h_store (run g h es) 1 = s 1.
Proof. exact copied_basis_ok. Qed.
Print Assumptions C16_copied_basis_ok.

(* non-vacuity: a three-event history (two calls sharing a frozen location, then the user
   overwriting the first result) meets the frame condition; the input cells 0,1 keep their
   values, the second result (cell 3) is untouched by the user's write to cell 2 *)
Example C16_example :
  let h := mkH (fun l => 10 + l) 2 in
  let g := fun _ : loc => 99 in
  let es := [Pure (mkC [0; 1] [(2, 5)] [2] [2; 1]);
             Pure (mkC [0; 1] [(3, 6)] [3] [3; 1]);
             Mutate [(2, 8)]] in
  history_ok (fun l => Nat.eqb l 1) g h [] es = true /\
  map (h_store (run g h es)) [0; 1; 2; 3] = [10; 11; 8; 6] /\
  wbr [] (divide_where_with_out [6; 4] [2; 0]) = true /\
  trace g (divide_where_with_out [6; 4] [2; 0]) = [3; 0].
Proof. vm_compute. repeat split. Qed.
