(* Props/C17.v — property C17: FCP-TPA terminates and is a greedy rank-one
   deflation.  Statements only; proofs in Lemmas/Fcptpa.v.

   Loop part: [conv] is an ARBITRARY convergence oracle (iteration, tolerance
   level) -> bool; [Runs conv max adapt st k st'] is the fuel-free big-step
   semantics of the while loop of FCPTPA.fit (k = number of updates).
   Numeric part: 3-way arrays flattened in C order; the vectors returned by the
   update step / GCV search are arbitrary non-zero vectors ([good_comp]: the
   norm oracles are positive and square to the squared norms). *)
From Coq Require Import List Reals QArith Arith.
From FDAV Require Import Base.Num Base.Vec Base.Quad Lemmas.Vec Lemmas.Quad Model.Fcptpa Lemmas.Fcptpa.
Import ListNotations.
Local Open Scope nat_scope.

(* ---------------- termination ---------------- *)
Theorem C17_loop_terminates_bound : forall conv maxit adapt level,
  exists k st,
    Runs conv maxit adapt (l_init level) k st /\
    l_iter st = k /\
    k <= loop_bound maxit adapt /\ loop_bound maxit adapt <= 2 * maxit + 1 /\
    loop_test conv st = false /\
    (forall fuel, k < fuel -> run_loop fuel conv maxit adapt (l_init level) = Some st) /\
    component_loop conv maxit adapt level = Some st.
Proof. exact loop_terminates_bound. Qed.
Print Assumptions C17_loop_terminates_bound.

(* max_iteration >= 1: at most 2*max updates with adapt_tolerance, max+1 without *)
Theorem C17_loop_updates_le : forall conv maxit adapt level k st, 1 <= maxit ->
  Runs conv maxit adapt (l_init level) k st ->
  k <= (if adapt then 2 * maxit else maxit + 1) /\ k <= 2 * maxit + 1.
Proof. exact loop_updates_le. Qed.
Print Assumptions C17_loop_updates_le.

Theorem C17_loop_deterministic : forall conv maxit adapt st k1 s1 k2 s2,
  Runs conv maxit adapt st k1 s1 -> Runs conv maxit adapt st k2 s2 -> k1 = k2 /\ s1 = s2.
Proof. exact loop_deterministic. Qed.
Print Assumptions C17_loop_deterministic.

(* the executable loop (fuel 2*max+2) never runs out of fuel: it returns exactly
   the final states of the fuel-free semantics *)
Theorem C17_component_loop_sound : forall conv maxit adapt level st,
  component_loop conv maxit adapt level = Some st <->
  exists k, Runs conv maxit adapt (l_init level) k st.
Proof. exact component_loop_sound. Qed.
Print Assumptions C17_component_loop_sound.

Theorem C17_tolerance_restored : forall conv maxit adapt level k st,
  Runs conv maxit adapt (l_init level) k st -> restore maxit adapt level st = level.
Proof. exact tolerance_restored. Qed.
Print Assumptions C17_tolerance_restored.

Theorem C17_tolerance_untouched : forall conv maxit level k st,
  Runs conv maxit false (l_init level) k st -> l_level st = level.
Proof. exact tolerance_untouched. Qed.
Print Assumptions C17_tolerance_untouched.

(* all components of one fit: every component starts from the user's tolerance *)
Theorem C17_fit_loop_total : forall ncomp k0 convs maxit adapt level,
  exists counts,
    fit_loop_from ncomp k0 convs maxit adapt level = Some (counts, level) /\
    length counts = ncomp /\
    Forall (fun c => c <= loop_bound maxit adapt /\ c <= 2 * maxit + 1) counts /\
    (forall j, j < ncomp -> exists st,
        Runs (convs (k0 + j)) maxit adapt (l_init level) (nth j counts 0) st).
Proof. exact fit_loop_total. Qed.
Print Assumptions C17_fit_loop_total.

(* ---------------- rank-one, deflation, energy ---------------- *)
Local Open Scope R_scope.

Theorem C17_rank_one_unit : forall u v w,
  sqnorm opsR u = 1 -> sqnorm opsR v = 1 -> sqnorm opsR w = 1 ->
  sqnorm opsR (rank1 opsR u v w) = sqnorm opsR u * sqnorm opsR v * sqnorm opsR w /\
  sqnorm opsR (rank1 opsR u v w) = 1.
Proof. exact rank_one_unit. Qed.
Print Assumptions C17_rank_one_unit.

Theorem C17_rank_one_sqnorm : forall u v w,
  sqnorm opsR (rank1 opsR u v w) = sqnorm opsR u * sqnorm opsR v * sqnorm opsR w.
Proof. exact rank_one_sqnorm. Qed.
Print Assumptions C17_rank_one_sqnorm.

(* whatever non-zero vectors the update step returns, the extracted component
   is a unit-norm rank-one tensor *)
Theorem C17_unit_tensor_unit : forall c, good_comp c ->
  sqnorm opsR (unit_u opsR c) = 1 /\ sqnorm opsR (unit_v opsR c) = 1 /\
  sqnorm opsR (unit_w opsR c) = 1 /\ sqnorm opsR (unit_tensor opsR c) = 1.
Proof. exact unit_tensor_unit. Qed.
Print Assumptions C17_unit_tensor_unit.

Theorem C17_deflation_energy : forall r e, length r = length e -> sqnorm opsR e = 1 ->
  sqnorm opsR (deflate1 opsR r e) = sqnorm opsR r - dot opsR r e * dot opsR r e.
Proof. exact deflation_energy. Qed.
Print Assumptions C17_deflation_energy.

Theorem C17_deflation_orthogonal : forall r e, length r = length e -> sqnorm opsR e = 1 ->
  dot opsR (deflate1 opsR r e) e = 0.
Proof. exact deflation_orthogonal. Qed.
Print Assumptions C17_deflation_orthogonal.

(* the projection coefficient is the best one for the chosen direction *)
Theorem C17_deflation_optimal : forall r e t, length r = length e -> sqnorm opsR e = 1 ->
  sqnorm opsR (deflate1 opsR r e) <= sqnorm opsR (vsub opsR r (vscale opsR t e)).
Proof. exact deflation_optimal. Qed.
Print Assumptions C17_deflation_optimal.

(* for the algorithm's own residual sequence (the components need NOT be
   mutually orthogonal): ||X - sum_k c_k e_k||^2 = ||X||^2 - sum_k c_k^2 *)
Theorem C17_energy_identity : forall n es X, length X = n -> units n es ->
  sqnorm opsR (vsub opsR X (recon opsR n (coefs opsR X es) es)) =
  sqnorm opsR X - sqnorm opsR (coefs opsR X es).
Proof. exact energy_identity. Qed.
Print Assumptions C17_energy_identity.

Theorem C17_residual_is_data_minus_recon : forall n es X, length X = n -> units n es ->
  residual opsR X es = vsub opsR X (recon opsR n (coefs opsR X es) es).
Proof. exact residual_is_data_minus_recon. Qed.
Print Assumptions C17_residual_is_data_minus_recon.

Theorem C17_error_nonincreasing : forall n es1 es2 X, length X = n -> units n (es1 ++ es2) ->
  sqnorm opsR (residual opsR X (es1 ++ es2)) <= sqnorm opsR (residual opsR X es1).
Proof. exact error_nonincreasing. Qed.
Print Assumptions C17_error_nonincreasing.

Theorem C17_error_prefix_monotone : forall n es X j k, length X = n -> units n es -> (j <= k)%nat ->
  sqnorm opsR (residual opsR X (firstn k es)) <= sqnorm opsR (residual opsR X (firstn j es)).
Proof. exact error_prefix_monotone. Qed.
Print Assumptions C17_error_prefix_monotone.

(* the algorithm itself: raw oracle vectors, normalised, projected, deflated *)
Theorem C17_fit_energy_identity : forall n1 n2 n3 comps X,
  length X = (n1 * (n2 * n3))%nat ->
  Forall (fun c => good_comp c /\ length (fst (fst (fst c))) = n1 /\
                   length (snd (fst (fst c))) = n2 /\ length (snd (fst c)) = n3) comps ->
  let cs := fst (fit_num opsR X comps) in
  let es := map (unit_tensor opsR) comps in
  snd (fit_num opsR X comps) = vsub opsR X (recon opsR (n1 * (n2 * n3)) cs es) /\
  sqnorm opsR (vsub opsR X (recon opsR (n1 * (n2 * n3)) cs es)) = sqnorm opsR X - sqnorm opsR cs /\
  0 <= sqnorm opsR X - sqnorm opsR cs.
Proof. exact fit_energy_identity. Qed.
Print Assumptions C17_fit_energy_identity.

(* inverse_transform(transform(data,'FCPTPA')) is that rank-one reconstruction *)
Theorem C17_scores_reconstruct : forall n comps cs,
  recon_scores opsR n (score_cols opsR cs (map (unit_u opsR) comps))
               (map (fun c => concat (eigenimage opsR (unit_v opsR c) (unit_w opsR c))) comps) =
  recon opsR n cs (map (unit_tensor opsR) comps).
Proof. exact scores_reconstruct. Qed.
Print Assumptions C17_scores_reconstruct.

(* ---------------- the normalize option ---------------- *)
Theorem C17_normalize_keeps_reconstruction : forall n ns S imgs,
  Forall (fun s => s <> 0) ns -> length ns = length S ->
  recon_scores opsR n (norm_scores opsR ns S) (norm_images_flat opsR ns imgs) =
  recon_scores opsR n S imgs.
Proof. exact normalize_keeps_reconstruction. Qed.
Print Assumptions C17_normalize_keeps_reconstruction.

Theorem C17_normalize_unit_L2 : forall s x1 x2 F, 0 < s -> s * s = image_normsq opsR x1 x2 F ->
  image_normsq opsR x1 x2 (norm_image opsR s F) = 1.
Proof. exact normalize_unit_L2. Qed.
Print Assumptions C17_normalize_unit_L2.

(* the executable run on rationals IS this model on the same numbers *)
Theorem C17_transfer : forall (X : list Q) (es : list (list Q)),
  deflate_seq opsR (map Q2R X) (map (map Q2R) es) =
  (map Q2R (fst (deflate_seq opsQ X es)), map Q2R (snd (deflate_seq opsQ X es))).
Proof. exact deflate_seq_transfer. Qed.
Print Assumptions C17_transfer.

(* non-vacuity: the never-converging oracle reaches the bounds exactly (so they
   are tight), a level-2 oracle stops as soon as the tolerance was relaxed twice,
   and a 2x2x2 deflation with two non-orthogonal unit components satisfies the
   energy identity in exact arithmetic *)
Local Close Scope R_scope.
Example C17_example :
  component_loop (fun _ _ => false) 3 true 0 = Some (mkL 6 2 true) /\
  component_loop (fun _ _ => false) 3 false 0 = Some (mkL 4 0 true) /\
  component_loop (fun _ lv => Nat.leb 2 lv) 5 true 0 = Some (mkL 7 2 false) /\
  fit_loop 2 (fun _ _ _ => false) 1 true = Some ([2; 2]%nat, 0%nat) /\
  (let X := [3; 1; 0; 2; -1; 0; 4; 1]%Q in
   let es := [ [1; 0; 0; 0; 0; 0; 0; 0]; [3#5; 0; 0; 4#5; 0; 0; 0; 0] ]%Q in
   Qeq_bool (sqnorm opsQ (snd (deflate_seq opsQ X es)))
            (sqnorm opsQ X - sqnorm opsQ (fst (deflate_seq opsQ X es))) = true
   /\ fst (deflate_seq opsQ X es) = [3; 8#5]%Q).
Proof. vm_compute. repeat split. Qed.
