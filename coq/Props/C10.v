(* Props/C10.v — property C10: centering, normalising, standardising, rescaling achieve
   what they promise.  Statements only; proofs in Lemmas/Stats.v. *)
From Coq Require Import List Reals QArith.
From FDAV Require Import Base.Num Base.Vec Base.Quad Model.Stats
  Lemmas.Vec Lemmas.Quad Lemmas.Gram Lemmas.Stats Lemmas.CovShift Lemmas.CovScale.
Import ListNotations.
Local Open Scope R_scope.

(* centering: the pointwise mean becomes zero; centering again changes nothing *)
Theorem C10_center_mean_zero : forall m X, X <> [] -> Forall (fun r => length r = m) X ->
  mean opsR m (center opsR m X) = zeros opsR m.
Proof. exact center_mean_zero. Qed.
Print Assumptions C10_center_mean_zero.
(* centering removes any common level: curves shifted by the same function have the same centred curves *)
Theorem C10_center_removes_level : forall m (c : list R) X, X <> [] -> length c = m -> Forall (fun r => length r = m) X ->
  center opsR m (map (fun r => vadd opsR r c) X) = center opsR m X.
Proof. exact center_shift. Qed.
Print Assumptions C10_center_removes_level.
Theorem C10_center_idempotent : forall m X, X <> [] -> Forall (fun r => length r = m) X ->
  center opsR m (center opsR m X) = center opsR m X.
Proof. exact center_idempotent. Qed.
Print Assumptions C10_center_idempotent.
Theorem C10_center_entry : forall m X i j, X <> [] -> Forall (fun r => length r = m) X ->
  (i < length X)%nat -> (j < m)%nat ->
  ent (center opsR m X) i j = ent X i j - nth j (mean opsR m X) 0.
Proof. exact center_entry. Qed.
Print Assumptions C10_center_entry.

(* centring has no absolute scale: the same curves in other units (times a, any a) are centred to a times the centred curves *)
Theorem C10_center_units : forall a m X, center opsR m (map (vscale opsR a) X) = map (vscale opsR a) (center opsR m X).
Proof. exact center_scale. Qed.
Print Assumptions C10_center_units.

(* normalising by the (oracle) norm r gives unit norm *)
Theorem C10_normalize_unit_norm : forall x f r, r <> 0 -> r * r = normsq opsR x f ->
  normsq opsR x (map (fun v => odiv opsR v r) f) = 1.
Proof. exact normalize_unit_norm. Qed.
Print Assumptions C10_normalize_unit_norm.

(* standardising: entry formula; unit variance where the variance was positive (sd = oracle
   root of the population variance); a defined value (0) where it was zero — no cell of the
   result is left unspecified *)
Theorem C10_standardize_entry : forall m sds X i j, X <> [] -> Forall (fun r => length r = m) X ->
  length sds = m -> (i < length X)%nat -> (j < m)%nat ->
  ent (standardize opsR m sds X) i j =
  gdiv opsR (ent X i j - nth j (mean opsR m X) 0) (nth j sds 0).
Proof. exact standardize_entry. Qed.
Print Assumptions C10_standardize_entry.
Theorem C10_standardize_unit_variance : forall c sd, c <> [] -> sd <> 0 -> sd * sd = pvar opsR c ->
  pvar opsR (map (fun v => gdiv opsR (v - avg opsR c) sd) c) = 1.
Proof. exact standardize_col_unit_variance. Qed.
Print Assumptions C10_standardize_unit_variance.
Theorem C10_standardize_nocenter_unit_variance : forall c sd, c <> [] -> sd <> 0 -> sd * sd = pvar opsR c ->
  pvar opsR (map (fun v => gdiv opsR v sd) c) = 1.
Proof. exact standardize_nc_col_unit_variance. Qed.
Print Assumptions C10_standardize_nocenter_unit_variance.
Theorem C10_standardize_nocenter_entry : forall sds X i j,
  (i < length X)%nat -> (j < length sds)%nat -> (j < length (nth i X []))%nat ->
  ent (standardize_nc opsR sds X) i j = gdiv opsR (ent X i j) (nth j sds 0).
Proof. exact standardize_nc_entry. Qed.
Print Assumptions C10_standardize_nocenter_entry.
Theorem C10_standardize_zero_variance : forall c,
  map (fun v => gdiv opsR (v - avg opsR c) 0) c = map (fun _ => 0) c.
Proof. exact standardize_col_zero_variance. Qed.
Print Assumptions C10_standardize_zero_variance.

(* rescaling: dividing by s scales the weight (integrated pointwise variance) by 1/s^2,
   so with s = sqrt(weight) the re-estimated weight is one *)
Theorem C10_rescale_weight_scaled : forall x X s, s <> 0 -> Forall (fun r => length r = length x) X ->
  rescale_weight opsR x (rescale opsR s X) = rescale_weight opsR x X / (s * s).
Proof. exact rescale_weight_scaled. Qed.
Print Assumptions C10_rescale_weight_scaled.
Theorem C10_rescale_then_weight_is_one : forall x X s, 0 < rescale_weight opsR x X ->
  s * s = rescale_weight opsR x X -> Forall (fun r => length r = length x) X ->
  rescale_weight opsR x (rescale opsR s X) = 1.
Proof. exact rescale_then_weight_is_one. Qed.
Print Assumptions C10_rescale_then_weight_is_one.
(* "the returned weight is the integrated pointwise variance" and "a user weight w divides the
   values by sqrt w" are the definitions [rescale_weight] / [rescale]; the tie checks the code
   against them.  Irregular data: only by correspondence (mean/variance are smoothed there). *)

Local Close Scope R_scope.
Local Open Scope Q_scope.
Example C10_example :
  center opsQ 2 [[1; 2]; [3; 6]] = [[-1; -2]; [1; 2]] /\
  rescale_weight opsQ [0; 1] [[1; 2]; [3; 6]] == 5 # 2.
Proof. split; vm_compute; reflexivity. Qed.
