(* Props/C08.v — property C08: integration, norms and Gram matrices form a
   consistent L2 geometry.  Statements only; proofs in Lemmas/{Vec,Quad,Gram}.v.
   Grids are arbitrary non-decreasing lists of reals ([nondec]); functions are
   lists of values on the grid. *)
From Coq Require Import List Reals QArith.
From FDAV Require Import Base.Num Base.Vec Base.Quad Model.Simpson Lemmas.Vec Lemmas.Quad Lemmas.Gram Lemmas.Simpson.
From FDAV Require Import Gen.TrapzWeights Lemmas.GenTrapzWeights Lemmas.TrapzGrid.
Import ListNotations.
Local Open Scope R_scope.

(* integration agrees with its own quadrature weights *)
Theorem C08_trapz_is_weighted_sum : forall x y, length x = length y ->
  trapz opsR x y = dot opsR (trapz_w opsR x) y.
Proof. exact trapz_is_weighted_sum. Qed.
Print Assumptions C08_trapz_is_weighted_sum.
Theorem C08_weights_nonneg : forall x, nondec x -> Forall (fun c => 0 <= c) (trapz_w opsR x).
Proof. exact trapz_w_nonneg. Qed.
Print Assumptions C08_weights_nonneg.

(* linear *)
Theorem C08_trapz_add : forall x y z, length y = length z ->
  trapz opsR x (vadd opsR y z) = trapz opsR x y + trapz opsR x z.
Proof. exact trapz_vadd. Qed.
Print Assumptions C08_trapz_add.
Theorem C08_trapz_scale : forall c x y, trapz opsR x (vscale opsR c y) = c * trapz opsR x y.
Proof. exact trapz_vscale. Qed.
Print Assumptions C08_trapz_scale.

(* exact for piecewise-linear integrands with breakpoints on the grid:
   exact on every affine piece, and additive over adjacent pieces *)
Theorem C08_trapz_affine_exact : forall al be x a,
  trapz opsR (a :: x) (map (fun t => al * t + be) (a :: x)) =
  al * (lastR x a * lastR x a - a * a) / 2 + be * (lastR x a - a).
Proof. exact trapz_affine_exact. Qed.
Print Assumptions C08_trapz_affine_exact.
Theorem C08_trapz_chasles : forall x1 y1 c yc x2 y2, length x1 = length y1 ->
  trapz opsR (x1 ++ c :: x2) (y1 ++ yc :: y2) =
  trapz opsR (x1 ++ [c]) (y1 ++ [yc]) + trapz opsR (c :: x2) (yc :: y2).
Proof. exact trapz_chasles. Qed.
Print Assumptions C08_trapz_chasles.

(* factorises over product grids *)
Theorem C08_product_grid : forall x1 x2 f g, length x1 = length f -> length x2 = length g ->
  trapz2 opsR x1 x2 (outer opsR f g) = trapz opsR x1 f * trapz opsR x2 g.
Proof. exact trapz_product_grid. Qed.
Print Assumptions C08_product_grid.

(* norms: homogeneous, Cauchy-Schwarz, triangle (square roots are oracle values) *)
Theorem C08_normsq_homogeneous : forall c x f,
  normsq opsR x (vscale opsR c f) = c * c * normsq opsR x f.
Proof. exact normsq_homogeneous. Qed.
Print Assumptions C08_normsq_homogeneous.
Theorem C08_norm_abs_homogeneous : forall c x f a b, 0 <= a -> 0 <= b ->
  a * a = normsq opsR x f -> b * b = normsq opsR x (vscale opsR c f) -> b = Rabs c * a.
Proof. exact norm_abs_homogeneous. Qed.
Print Assumptions C08_norm_abs_homogeneous.
Theorem C08_cauchy_schwarz : forall x f g, nondec x -> length f = length x -> length g = length x ->
  inner opsR x f g * inner opsR x f g <= normsq opsR x f * normsq opsR x g.
Proof. exact cauchy_schwarz. Qed.
Print Assumptions C08_cauchy_schwarz.
Theorem C08_triangle : forall x f g a b c, nondec x -> length f = length x -> length g = length x ->
  0 <= a -> 0 <= b -> 0 <= c ->
  a * a = normsq opsR x f -> b * b = normsq opsR x g -> c * c = normsq opsR x (vadd opsR f g) ->
  c <= a + b.
Proof. exact triangle. Qed.
Print Assumptions C08_triangle.

(* Gram matrix: the code's construction is the mathematical matrix (minus the noise
   variance on the diagonal), symmetric, squared norms on the diagonal *)
Theorem C08_gram_construction : forall x X nv i j, (i < length X)%nat -> (j < length X)%nat ->
  ent (gram opsR x X nv) i j =
  inner opsR x (nth i X []) (nth j X []) - (if Nat.eqb i j then nv else 0).
Proof. exact gram_construction_sound. Qed.
Print Assumptions C08_gram_construction.
Theorem C08_gram_symmetric : forall x X nv i j, (i < length X)%nat -> (j < length X)%nat ->
  ent (gram opsR x X nv) i j = ent (gram opsR x X nv) j i.
Proof. exact gram_symmetric. Qed.
Print Assumptions C08_gram_symmetric.
Theorem C08_gram_diag : forall x X i, (i < length X)%nat ->
  ent (gram opsR x X 0) i i = normsq opsR x (nth i X []).
Proof. exact gram_diag. Qed.
Print Assumptions C08_gram_diag.

(* positive semi-definite: the quadratic form is the squared norm of a combination *)
Theorem C08_gram_quadratic_form : forall m x X c, Forall (fun r => length r = m) X ->
  dot opsR c (mv opsR (gram_spec opsR x X) c) = normsq opsR x (mtv opsR m X c).
Proof. exact gram_quadratic_form. Qed.
Print Assumptions C08_gram_quadratic_form.
Theorem C08_gram_psd : forall m x X c, nondec x -> length x = m ->
  Forall (fun r => length r = m) X -> 0 <= dot opsR c (mv opsR (gram_spec opsR x X) c).
Proof. exact gram_psd. Qed.
Print Assumptions C08_gram_psd.

(* rows sum to zero when the curves are centred *)
Theorem C08_gram_rows_sum_zero : forall m x X f, Forall (fun r => length r = m) X -> length f = m ->
  colsum opsR m X = zeros opsR m -> vsum opsR (map (fun g => inner opsR x f g) X) = 0.
Proof. exact gram_rows_sum_zero. Qed.
Print Assumptions C08_gram_rows_sum_zero.

(* equivariance: re-ordering / selecting observations re-indexes rows and columns *)
Theorem C08_gram_reindex : forall x X (p : list nat),
  gram_spec opsR x (map (fun i => nth i X []) p) =
  map (fun i => map (fun j => inner opsR x (nth i X []) (nth j X [])) p) p.
Proof. exact gram_spec_reindex. Qed.
Print Assumptions C08_gram_reindex.

(* multivariate data: the sum of PSD component matrices is PSD *)
Theorem C08_gram_sum_psd : forall A B c, length A = length B ->
  Forall2 (fun r s => length r = length s) A B ->
  0 <= dot opsR c (mv opsR A c) -> 0 <= dot opsR c (mv opsR B c) ->
  0 <= dot opsR c (mv opsR (madd opsR A B) c).
Proof. exact gram_sum_psd. Qed.
Print Assumptions C08_gram_sum_psd.

(* non-vacuity on a non-uniform 4-point grid *)
(* the grid in other units (seconds / nanoseconds, days / years): the integral, the inner product and the squared norm scale
   with the unit of the abscissa, for every factor *)
Theorem C08_trapz_grid_units : forall c x y, trapz opsR (vscale opsR c x) y = c * trapz opsR x y.
Proof. exact trapz_grid_scale. Qed.
Print Assumptions C08_trapz_grid_units.
Theorem C08_inner_grid_units : forall c x f g, inner opsR (vscale opsR c x) f g = c * inner opsR x f g.
Proof. exact inner_grid_scale. Qed.
Print Assumptions C08_inner_grid_units.

(* ---------- the quadrature weights as TRANSLATED from /repo/FDApy/misc/utils.py on this run (Gen/TrapzWeights.v) ----------
   _integration_weights(x, method="trapz"), as the source reads now, is the weight vector of the trapezoid rule:
   integration agrees with the source's own quadrature weights, for every grid with at least two points. *)
Theorem C08_source_trapz_weights_are_model : forall x, (2 <= length x)%nat -> gen_trapz_weights opsR x = trapz_w opsR x.
Proof. exact gen_trapz_weights_is_model. Qed.
Print Assumptions C08_source_trapz_weights_are_model.
Theorem C08_source_trapz_weights : forall x y, (2 <= length x)%nat -> length x = length y ->
  trapz opsR x y = dot opsR (gen_trapz_weights opsR x) y.
Proof. exact source_trapz_weights. Qed.
Print Assumptions C08_source_trapz_weights.

Local Close Scope R_scope.
Local Open Scope Q_scope.
Example C08_example :
  (trapz opsQ [0; 1#2; 2; 3] [1; 2; 0; 4] == dot opsQ (trapz_w opsQ [0; 1#2; 2; 3]) [1; 2; 0; 4])
  /\ trapz_w opsQ [0; 1#2; 2; 3] = [1#4; 1; 5#4; 1#2].
Proof. split; vm_compute; reflexivity. Qed.

(* ---- Simpson's rule (Model/Simpson.v = scipy.integrate.simpson with explicit sample points, as FDApy
   calls it; tied to the implementation by the correspondence check): linear, exact for every quadratic
   on every strictly increasing grid with at least three points (odd or even number of points, any
   spacings), and factorising over product grids ---- *)
Theorem C08_simpson_add : forall x y z, length y = length x -> length z = length x ->
  (simpson opsR x (vadd opsR y z) = simpson opsR x y + simpson opsR x z)%R.
Proof. exact simpson_vadd. Qed.
Print Assumptions C08_simpson_add.
Theorem C08_simpson_scale : forall c x y, length y = length x ->
  (simpson opsR x (vscale opsR c y) = c * simpson opsR x y)%R.
Proof. exact simpson_vscale. Qed.
Print Assumptions C08_simpson_scale.
Theorem C08_simpson_exact_quadratic : forall a b c x0 r, incr (x0 :: r) -> (2 <= length r)%nat ->
  (simpson opsR (x0 :: r) (map (P2 a b c) (x0 :: r)) = F2 a b c (lastS r x0) - F2 a b c x0)%R.
Proof. exact simpson_exact_quadratic. Qed.
Print Assumptions C08_simpson_exact_quadratic.
Theorem C08_simpson_product_grid : forall x1 x2 f g, length f = length x1 -> length g = length x2 ->
  (simpson2 opsR x1 x2 (outer opsR f g) = simpson opsR x1 f * simpson opsR x2 g)%R.
Proof. exact simpson_product_grid. Qed.
Print Assumptions C08_simpson_product_grid.
Theorem C08_simpson_exact_cubic_equal_spacing : forall a b c d x0 h, (h <> 0)%R ->
  (simp3 opsR x0 (x0 + h) (x0 + 2 * h) (P3 a b c d x0) (P3 a b c d (x0 + h)) (P3 a b c d (x0 + 2 * h))
   = F3 a b c d (x0 + 2 * h) - F3 a b c d x0)%R.
Proof. exact simp3_exact_cubic_equal_spacing. Qed.
Print Assumptions C08_simpson_exact_cubic_equal_spacing.
Example C08_simpson_example :
  simpson opsQ [0; 1; 3; 4]%Q [1; 2; 10; 17]%Q == (76 # 3)%Q /\ simpson opsQ [0; 1; 3]%Q [1; 2; 10]%Q == 12%Q.
Proof. split; vm_compute; reflexivity. Qed.
(* the translated source, executed *)
Example C08_source_example : gen_trapz_weights opsQ [0; 1; 3] = [1#2; 3#2; 1].
Proof. vm_compute. reflexivity. Qed.
