(* Props/C04.v — property C04: MFPCA (covariance method): orthonormal product-space eigenfunctions
   and coherent scores.  Statements only; proofs in Lemmas/Mfpca.v.
   G = block-diagonal Gram matrix of the univariate bases (one block per component), Q = covariance of
   the concatenated univariate scores, (nu_k, c_k) = eigenpairs of the non-symmetric product G Q
   (oracle), a_k = (nf_k / sqrt(nu_k)) Q c_k = coefficients of the k-th multivariate eigenfunction. *)
From Coq Require Import List Reals QArith.
From FDAV Require Import Base.Num Base.Vec Model.Stats Model.Scores Model.Mfpca
  Lemmas.Vec Lemmas.Gram Lemmas.Scores Lemmas.Mfpca Lemmas.PermEquiv.
From Coq Require Import Permutation.
Import ListNotations.
Local Open Scope R_scope.

Theorem C04_GQ_eigvecs_Q_orthogonal : forall G Q cj ck nuj nuk, symm G -> symm Q ->
  mv opsR G (mv opsR Q cj) = vscale opsR nuj cj -> mv opsR G (mv opsR Q ck) = vscale opsR nuk ck ->
  nuj <> nuk -> dot opsR cj (mv opsR Q ck) = 0.
Proof. exact GQ_eigvecs_Q_orthogonal. Qed.
Print Assumptions C04_GQ_eigvecs_Q_orthogonal.

(* eigenfunctions are orthonormal for the sum over components of the L2 inner products *)
Theorem C04_mfpca_orthogonal : forall G Q cj ck nuj nuk nfj nfk rj rk, symm G -> symm Q -> rj <> 0 -> rk <> 0 ->
  mv opsR G (mv opsR Q cj) = vscale opsR nuj cj -> mv opsR G (mv opsR Q ck) = vscale opsR nuk ck -> nuj <> nuk ->
  dot opsR (mfpca_coef opsR Q cj nfj rj) (mv opsR G (mfpca_coef opsR Q ck nfk rk)) = 0.
Proof. exact mfpca_orthogonal. Qed.
Print Assumptions C04_mfpca_orthogonal.
Theorem C04_mfpca_unit_norm : forall G Q c nu nf r, symm Q -> r <> 0 -> r * r = nu ->
  mv opsR G (mv opsR Q c) = vscale opsR nu c -> nf * nf * dot opsR c (mv opsR Q c) = 1 ->
  dot opsR (mfpca_coef opsR Q c nf r) (mv opsR G (mfpca_coef opsR Q c nf r)) = 1.
Proof. exact mfpca_unit_norm. Qed.
Print Assumptions C04_mfpca_unit_norm.
(* a^T blockdiag(G_p) b is the SUM OVER COMPONENTS of a_p^T G_p b_p, whatever the (different) sizes;
   splitting the concatenated coefficients by the sizes returns each component's own piece *)
Theorem C04_block_split_sound : forall (Gs : list (list (list R))) (As Bs : list (list R)),
  Forall (fun G => Forall (fun r => length r = length G) G) Gs ->
  Forall2 (fun G a => length a = length G) Gs As -> Forall2 (fun G b => length b = length G) Gs Bs ->
  dot opsR (concat As) (mv opsR (blockdiag opsR Gs) (concat Bs)) = prod_inner opsR Gs As Bs.
Proof. exact block_split_sound. Qed.
Print Assumptions C04_block_split_sound.
Theorem C04_split_sizes_concat : forall (As : list (list R)), split_sizes (map (@length R) As) (concat As) = As.
Proof. exact split_sizes_concat. Qed.
Print Assumptions C04_split_sizes_concat.

(* with univariate FPCA expansions (orthonormal bases, G = I) the PACE scores S c_k are uncorrelated
   with sample variance nu_k: their sample covariance is the quadratic form c_j^T Q c_k = nu_k c_j.c_k *)
Theorem C04_score_cov_is_quadratic_form : forall M Sc cj ck, Forall (fun r => length r = M) Sc -> (2 <= length Sc)%nat ->
  dot opsR (mv opsR Sc cj) (mv opsR Sc ck) / INR (length Sc - 1) =
  dot opsR cj (mv opsR (cov_of_cols opsR (length Sc) (transpose M Sc)) ck).
Proof. exact score_cov_is_quadratic_form. Qed.
Print Assumptions C04_score_cov_is_quadratic_form.
Theorem C04_pace_scores_uncorrelated : forall Q cj ck nuk,
  mv opsR Q ck = vscale opsR nuk ck -> dot opsR cj (mv opsR Q ck) = nuk * dot opsR cj ck.
Proof. exact pace_scores_uncorrelated. Qed.
Print Assumptions C04_pace_scores_uncorrelated.

(* inverse_transform, in every component: mean + sqrt(w_p) * (scores . eigenfunctions), affine in the scores *)
Theorem C04_inverse_affine : forall m mu s Phi a b xi eta, Forall (fun r => length r = m) Phi ->
  length xi = length eta ->
  inverse opsR m mu s Phi (vadd opsR (vscale opsR a xi) (vscale opsR b eta)) =
  vadd opsR mu (vscale opsR s (vadd opsR (vscale opsR a (mtv opsR m Phi xi)) (vscale opsR b (mtv opsR m Phi eta)))).
Proof. exact inverse_affine. Qed.
Print Assumptions C04_inverse_affine.
(* C04_perm_equivariance: see the C04_perm_* theorems at the end of this file (re-indexing of the stacked
   coordinates).  What remains a metamorphic relation checked on the implementation: that the block layout
   of the code realises such a re-indexing, and the "up to sign" choice of the eigen-solver. *)

Local Close Scope R_scope.
Local Open Scope Q_scope.
Example C04_example :
  blockdiag opsQ [[[2]]; [[1; 0]; [0; 3]]] = [[2; 0; 0]; [0; 1; 0]; [0; 0; 3]] /\
  prod_inner opsQ [[[2]]; [[1; 0]; [0; 3]]] [[1]; [1; 1]] [[1]; [2; 1]] == 7.
Proof. split; vm_compute; reflexivity. Qed.

(* ---- listing the components in another order = a simultaneous re-indexing s of the stacked coordinates
   (s any permutation of 0..M-1; for a permutation of components it is the concatenation of the blocks'
   index ranges).  The covariance of the re-indexed scores is the re-indexed covariance; every eigenpair of
   the re-indexed matrix problem is the re-indexed eigenvector with the SAME eigenvalue; inner products
   and hence the scores (score row . eigenvector) are unchanged. ---- *)
Theorem C04_perm_covariance : forall s M S a b, Permutation s (seq 0 M) -> Forall (fun r => length r = M) S ->
  (2 <= length S)%nat -> (a < M)%nat -> (b < M)%nat ->
  ent (cov opsR M (map (reidx s) S)) a b = ent (cov opsR M S) (nth a s 0%nat) (nth b s 0%nat).
Proof. exact cov_reidx_entry. Qed.
Print Assumptions C04_perm_covariance.
Theorem C04_perm_eigenpair : forall s M A c nu, Permutation s (seq 0 M) -> length A = M ->
  Forall (fun r => length r = M) A -> length c = M ->
  mv opsR A c = vscale opsR nu c -> mv opsR (reidxM s A) (reidx s c) = vscale opsR nu (reidx s c).
Proof. exact eigenpair_reidx. Qed.
Print Assumptions C04_perm_eigenpair.
Theorem C04_perm_inner_product : forall s M v w, Permutation s (seq 0 M) -> length v = M -> length w = M ->
  dot opsR (reidx s v) (reidx s w) = dot opsR v w.
Proof. exact dot_reidx. Qed.
Print Assumptions C04_perm_inner_product.
Theorem C04_perm_scores_unchanged : forall s M S c, Permutation s (seq 0 M) -> Forall (fun r => length r = M) S ->
  length c = M -> mv opsR (map (reidx s) S) (reidx s c) = mv opsR S c.
Proof. exact scores_reidx. Qed.
Print Assumptions C04_perm_scores_unchanged.
Example C04_perm_nonvacuous : Permutation [2; 3; 4; 0; 1]%nat (seq 0 5).
Proof. exact (Permutation_app_comm [2; 3; 4]%nat [0; 1]%nat). Qed.
