(* Lemmas/Scores.v — scores decorrelate, inverse_transform undoes transform (C03), at R. *)
From Coq Require Import List Bool Reals Lra Lia Arith QArith.
From FDAV Require Import Base.Num Base.Vec Base.Quad Model.Stats Model.Scores
  Lemmas.Vec Lemmas.Quad Lemmas.Gram Lemmas.Stats Lemmas.Ufpca.
Import ListNotations.
Local Open Scope R_scope.

(* ---------- rows vs columns ---------- *)
Lemma Forall_map2_cons {A} n (r : list A) : forall T, length r = length T ->
  Forall (fun c => length c = n) T -> Forall (fun c => length c = S n) (map2 cons r T).
Proof.
  induction r as [|a r IH]; intros [|t T] H HT; simpl in H; try discriminate; simpl; constructor.
  - simpl. f_equal. exact (Forall_inv HT).
  - apply IH; [lia|exact (Forall_inv_tail HT)].
Qed.

Lemma transpose_rows m (X : list (list R)) : Forall (fun r => length r = m) X ->
  length (transpose m X) = m /\ Forall (fun c => length c = length X) (transpose m X).
Proof.
  induction 1 as [|r X Hr HX [IL IF]]; unfold transpose; simpl.
  - split; [apply repeat_length|]. apply Forall_forall. intros c Hc. apply repeat_spec in Hc. subst. reflexivity.
  - fold (transpose m X). split.
    + rewrite map2_length. lia.
    + apply Forall_map2_cons; [lia|exact IF].
Qed.

Lemma mtv_cons_rows n : forall (r : list R) T a, length r = length T -> Forall (fun c => length c = n) T ->
  mtvR (S n) (map2 cons r T) a = dotR r a :: mtvR n T a.
Proof.
  induction r as [|r0 r IH]; intros [|t0 T] a H HT; simpl in H; try discriminate.
  - destruct a; reflexivity.
  - destruct a as [|a0 a]; [reflexivity|].
    change (map2 cons (r0 :: r) (t0 :: T)) with ((r0 :: t0) :: map2 cons r T).
    unfold mtv at 1. simpl. fold (mtvR (S n) (map2 cons r T) a).
    rewrite IH by (try exact (Forall_inv_tail HT); lia).
    unfold mtv at 2. simpl. fold (mtvR n T a).
    change (vscaleR a0 (r0 :: t0)) with (a0 * r0 :: vscaleR a0 t0).
    change (vaddR (a0 * r0 :: vscaleR a0 t0) (dotR r a :: mtvR n T a))
      with (a0 * r0 + dotR r a :: vaddR (vscaleR a0 t0) (mtvR n T a)).
    rewrite dot_cons. f_equal. lra.
Qed.

(* X a, computed row by row, is the combination of the COLUMNS of X with coefficients a *)
Theorem mv_as_columns m X a : Forall (fun r => length r = m) X ->
  mvR X a = mtvR (length X) (transpose m X) a.
Proof.
  induction 1 as [|r X Hr HX IH]; unfold transpose; simpl.
  - unfold mtv. simpl. generalize (repeat (@nil R) m). clear. intros L. revert a.
    induction L as [|l L IHL]; intros [|a0 a]; try reflexivity. simpl.
    specialize (IHL a). unfold mv in IHL. simpl in IHL. rewrite <- IHL. destruct l; reflexivity.
  - fold (transpose m X). destruct (transpose_rows m X HX) as [TL TF].
    rewrite mtv_cons_rows by (auto; lia). rewrite <- IH. reflexivity.
Qed.

(* ---------- bilinear forms of dot-Gram matrices ---------- *)
Lemma dotgram_bilinear n A c e : Forall (fun r => length r = n) A ->
  dotR c (mvR (map (fun f => map (fun g => dotR f g) A) A) e) = dotR (mtvR n A c) (mtvR n A e).
Proof.
  intros HA. unfold mv. rewrite map_map.
  assert (E : map (fun f => dotR (map (fun g => dotR f g) A) e) A = mvR A (mtvR n A e)).
  { unfold mv. apply map_ext_in. intros f Hf.
    rewrite (dot_comm f), (mtv_adjoint n A e f HA), (dot_comm e). f_equal.
    unfold mv. apply map_ext. intros g. apply dot_comm. }
  rewrite E. rewrite <- (mtv_adjoint n A c _ HA). reflexivity.
Qed.

Lemma mv_cov_of_cols k Ct c : (2 <= k)%nat ->
  mvR (cov_of_cols opsR k Ct) c =
  vscaleR (/ INR (k - 1)) (mvR (map (fun f => map (fun g => dotR f g) Ct) Ct) c).
Proof.
  intros Hk. unfold cov_of_cols, mv, vscale. rewrite !map_map. apply map_ext. intros cs.
  assert (Hp : INR (pred k) <> 0).
  { destruct k as [|[|k]]; try lia. simpl pred. rewrite S_INR. pose proof (pos_INR k). lra. }
  rewrite oofnatR, (dot_map_div (fun ct => dotR cs ct)) by exact Hp.
  replace (k - 1)%nat with (pred k) by lia. cbn. unfold Rdiv. lra.
Qed.

Lemma vscale_inv c v : c <> 0 -> vscaleR c (vscaleR (/ c) v) = v.
Proof.
  intros H. unfold vscale. rewrite map_map. rewrite <- (map_id v) at 2. apply map_ext.
  intros a. cbn. field. exact H.
Qed.

(* ---------- numerical-integration scores ---------- *)
Lemma vmul_comm x : forall y, vmulR x y = vmulR y x.
Proof.
  induction x as [|a x IH]; intros [|b y]; try reflexivity.
  change (vmulR (a :: x) (b :: y)) with (a * b :: vmulR x y).
  change (vmulR (b :: y) (a :: x)) with (b * a :: vmulR y x). rewrite IH. f_equal. lra.
Qed.

Lemma inner_as_dot t xi phi : length xi = length t -> length phi = length t ->
  innerR t xi phi = dotR xi (vmulR (trapz_w opsR t) phi).
Proof.
  intros H1 H2. rewrite inner_as_wdot by assumption. unfold wdot.
  rewrite (dot_vmul_shift xi (trapz_w opsR t) phi), (dot_vmul_shift (trapz_w opsR t) xi phi).
  f_equal. apply vmul_comm.
Qed.

Definition score_col (t : list R) (Xt : list (list R)) (phi : list R) : list R :=
  map (fun xi => innerR t xi phi) Xt.

Lemma score_col_as_mv t Xt phi : Forall (fun r => length r = length t) Xt -> length phi = length t ->
  score_col t Xt phi = mvR Xt (vmulR (trapz_w opsR t) phi).
Proof.
  intros HX Hp. unfold score_col, mv. apply map_ext_in. intros xi Hxi.
  rewrite Forall_forall in HX. apply inner_as_dot; auto.
Qed.

(* scores are uncorrelated across components with variance equal to the eigenvalue:
   sum_i xi_ij xi_ik = (n-1) lambda_k <phi_j, phi_k>_w  *)
Theorem numint_uncorrelated t Xt phij phik lamk :
  let m := length t in let n := length Xt in let w := trapz_w opsR t in
  (2 <= n)%nat -> Forall (fun r => length r = m) Xt -> length phij = m -> length phik = m ->
  mvR (cov_of_cols opsR n (transpose m Xt)) (vmulR w phik) = vscaleR lamk phik ->
  dotR (score_col t Xt phij) (score_col t Xt phik) = INR (n - 1) * lamk * wdotR w phij phik.
Proof.
  intros m n w Hn HX Hj Hk E.
  rewrite !score_col_as_mv by assumption. fold w.
  rewrite !(mv_as_columns m Xt) by exact HX. fold n.
  destruct (transpose_rows m Xt HX) as [TL TF]. fold n in TF.
  rewrite <- (dotgram_bilinear n) by exact TF.
  assert (K : mvR (map (fun f => map (fun g => dotR f g) (transpose m Xt)) (transpose m Xt)) (vmulR w phik)
              = vscaleR (INR (n - 1)) (vscaleR lamk phik)).
  { rewrite <- E, mv_cov_of_cols by exact Hn. symmetry. apply vscale_inv.
    destruct n as [|[|n']]; try lia. replace (S (S n') - 1)%nat with (S n') by lia.
    rewrite S_INR. pose proof (pos_INR n'). lra. }
  rewrite K, !dot_vscale_r. unfold wdot. rewrite <- dot_vmul_assoc. lra.
Qed.

(* the scores of centred training curves sum to zero over the observations *)
Lemma vsum_mv m X a : Forall (fun r => length r = m) X -> vsumR (mvR X a) = dotR (colsum opsR m X) a.
Proof.
  induction 1 as [|r X Hr HX IH]; [unfold colsum; simpl; rewrite dot_zeros_l; reflexivity|].
  change (colsum opsR m (r :: X)) with (vaddR r (colsum opsR m X)).
  change (mvR (r :: X) a) with (dotR r a :: mvR X a).
  rewrite vsum_cons, IH, dot_vadd_l by (rewrite colsum_length by exact HX; exact Hr). reflexivity.
Qed.
Theorem numint_scores_sum_zero t Xt phi : Forall (fun r => length r = length t) Xt ->
  length phi = length t -> colsum opsR (length t) Xt = zerosR (length t) ->
  vsumR (score_col t Xt phi) = 0.
Proof.
  intros HX Hp Hz. rewrite score_col_as_mv by assumption.
  rewrite (vsum_mv (length t)) by exact HX. rewrite Hz. apply dot_zeros_l.
Qed.

(* ---------- Gram-based scores ---------- *)
Theorem innpro_uncorrelated rj rk vj vk :
  dotR (vscaleR rj vj) (vscaleR rk vk) = rj * rk * dotR vj vk.
Proof. rewrite dot_vscale_l, dot_vscale_r. lra. Qed.
Corollary innpro_variance n lam r v : r * r = INR n * lam -> dotR v v = 1 ->
  dotR (vscaleR r v) (vscaleR r v) = INR n * lam.
Proof. intros Hr Hv. rewrite innpro_uncorrelated, Hv. lra. Qed.

(* ---------- inverse_transform ---------- *)
Lemma nth_vscale c v j : (j < length v)%nat -> nth j (vscaleR c v) 0 = c * nth j v 0.
Proof. intros H. unfold vscale. rewrite (nth_map_in _ v j 0 0) by exact H. reflexivity. Qed.
Lemma nth_vadd u v j : (j < length u)%nat -> (j < length v)%nat -> nth j (vaddR u v) 0 = nth j u 0 + nth j v 0.
Proof. intros. unfold vadd. rewrite (nth_map2 _ u v j 0 0 0) by assumption. reflexivity. Qed.

Lemma mtv_nth m Phi : forall xi j, Forall (fun r => length r = m) Phi -> (j < m)%nat ->
  nth j (mtvR m Phi xi) 0 = dotR xi (map (fun phi => nth j phi 0) Phi).
Proof.
  induction Phi as [|phi Phi IH]; intros [|a xi] j H Hj; unfold mtv; simpl; try apply nth_zeros.
  pose proof (Forall_inv H) as Hp. pose proof (Forall_inv_tail H) as H'. cbv beta in Hp.
  fold (mtvR m Phi xi).
  rewrite nth_vadd by (rewrite ?vscale_length, ?mtv_length by exact H'; lia).
  rewrite nth_vscale by lia. rewrite IH by assumption. rewrite dot_cons. reflexivity.
Qed.

(* inverse_transform is affine in the scores: mean + a linear map of the scores *)
Theorem recon_linear m Phi a b xi eta : Forall (fun r => length r = m) Phi ->
  length xi = length eta ->
  mtvR m Phi (vaddR (vscaleR a xi) (vscaleR b eta)) =
  vaddR (vscaleR a (mtvR m Phi xi)) (vscaleR b (mtvR m Phi eta)).
Proof.
  intros H HL. apply list_eq_nth.
  - rewrite vadd_length, !vscale_length, !mtv_length by exact H. lia.
  - intros j Hj. rewrite mtv_length in Hj by exact H.
    rewrite nth_vadd, !nth_vscale by (rewrite ?vscale_length, ?mtv_length by exact H; exact Hj).
    rewrite !mtv_nth by assumption.
    rewrite dot_vadd_l by (rewrite !vscale_length; exact HL). rewrite !dot_vscale_l. reflexivity.
Qed.
Theorem inverse_affine m mu s Phi a b xi eta : Forall (fun r => length r = m) Phi ->
  length xi = length eta ->
  inverse opsR m mu s Phi (vaddR (vscaleR a xi) (vscaleR b eta)) =
  vaddR mu (vscaleR s (vaddR (vscaleR a (mtvR m Phi xi)) (vscaleR b (mtvR m Phi eta)))).
Proof. intros H HL. unfold inverse. rewrite recon_linear by assumption. reflexivity. Qed.

(* ---------- round trip ---------- *)
Definition unit (K k : nat) : list R := map (fun j => if Nat.eqb j k then 1 else 0) (seq 0 K).

Lemma dot_unit : forall c K k s0, length c = K ->
  dotR (map (fun j => if Nat.eqb j k then 1 else 0) (seq s0 K)) c = nth (k - s0) c 0 * (if (Nat.leb s0 k) then 1 else 0).
Proof.
  induction c as [|a c IH]; intros K k s0 H; subst K; simpl.
  - cbn. destruct (k - s0)%nat; destruct (Nat.leb s0 k); lra.
  - rewrite dot_cons, (IH (length c) k (S s0) eq_refl).
    destruct (Nat.eqb s0 k) eqn:E.
    + apply Nat.eqb_eq in E. subst. rewrite Nat.sub_diag, Nat.leb_refl.
      replace (Nat.leb (S k) k) with false by (symmetry; apply Nat.leb_gt; lia). simpl. lra.
    + apply Nat.eqb_neq in E. destruct (Nat.leb s0 k) eqn:L.
      * apply Nat.leb_le in L. replace (Nat.leb (S s0) k) with true by (symmetry; apply Nat.leb_le; lia).
        replace (k - s0)%nat with (S (k - S s0)) by lia. simpl. lra.
      * apply Nat.leb_gt in L. replace (Nat.leb (S s0) k) with false by (symmetry; apply Nat.leb_gt; lia). lra.
Qed.
Lemma dot_unit0 c K k : length c = K -> dotR (unit K k) c = nth k c 0.
Proof. intros H. unfold unit. rewrite (dot_unit c K k 0%nat H). rewrite Nat.sub_0_r. simpl. lra. Qed.

(* scores of a combination of W-orthonormal eigenfunctions are its coefficients ... *)
Theorem scores_of_combination t Phi c :
  let m := length t in let K := length Phi in
  Forall (fun r => length r = m) Phi -> length c = K ->
  (forall k, (k < K)%nat -> map (fun g => innerR t (nth k Phi []) g) Phi = unit K k) ->
  map (fun phi => innerR t (mtvR m Phi c) phi) Phi = c.
Proof.
  intros m K HP Hc Horth. apply list_eq_nth; [rewrite map_length; symmetry; exact Hc|].
  intros k Hk. rewrite map_length in Hk.
  rewrite (nth_map_in _ Phi k 0 []) by exact Hk.
  rewrite inner_comm.
  assert (Hpk : length (nth k Phi []) = m).
  { rewrite Forall_forall in HP. apply HP. apply nth_In. exact Hk. }
  rewrite <- (inner_mtv m t (nth k Phi []) Phi c HP Hpk).
  rewrite (Horth k Hk). apply dot_unit0. exact Hc.
Qed.

(* ... and mapping them back returns the curve: inverse (prep x) = x on the span *)
Lemma prep_inverse mu s x : s <> 0 -> length x = length mu ->
  vaddR mu (vscaleR s (prep opsR mu s x)) = x.
Proof.
  intros Hs HL. unfold prep. apply list_eq_nth.
  - rewrite vadd_length, vscale_length, map_length. unfold vsub. rewrite map2_length. lia.
  - intros j Hj. rewrite vadd_length, vscale_length, map_length in Hj. unfold vsub in Hj. rewrite map2_length in Hj.
    rewrite nth_vadd by (rewrite ?vscale_length, ?map_length; unfold vsub; rewrite ?map2_length; lia).
    rewrite nth_vscale by (rewrite map_length; unfold vsub; rewrite map2_length; lia).
    rewrite (nth_map_in _ (vsubR x mu) j 0 0) by (unfold vsub; rewrite map2_length; lia).
    unfold vsub. rewrite (nth_map2 _ x mu j 0 0 0) by lia.
    rewrite odivR by exact Hs. cbn. field. exact Hs.
Qed.

Theorem roundtrip_on_span t mu s Phi x c :
  let m := length t in let K := length Phi in
  s <> 0 -> length x = length mu ->
  Forall (fun r => length r = m) Phi -> length c = K ->
  (forall k, (k < K)%nat -> map (fun g => innerR t (nth k Phi []) g) Phi = unit K k) ->
  prep opsR mu s x = mtvR m Phi c ->        (* the prepared curve lies in the span of the retained components *)
  inverse opsR m mu s Phi (map (fun phi => innerR t (prep opsR mu s x) phi) Phi) = x.
Proof.
  intros m K Hs HL HP Hc Horth Hspan. subst m K.
  rewrite Hspan. rewrite (scores_of_combination t Phi c HP Hc Horth).
  unfold inverse. rewrite <- Hspan. apply prep_inverse; assumption.
Qed.

(* ---------- finding F2: rescaling the uncentred curve changes the scores ---------- *)
Local Close Scope R_scope.
Local Open Scope Q_scope.
Lemma uncentred_scores_differ :
  exists t mu s x phi,
    scores_numint opsQ t [prep_uncentred opsQ s x] [phi] <> scores_numint opsQ t [prep opsQ mu s x] [phi].
Proof.
  exists [0; 1], [1; 1], 1, [1; 1], [1; 1]. vm_compute. discriminate.
Qed.

(* in general the round trip is a PROJECTION: scoring the reconstruction again gives the same scores
   (so transform o inverse_transform o transform = transform on the retained components) *)
Local Open Scope R_scope.
Theorem roundtrip_is_projection t Phi xt :
  let m := length t in let K := length Phi in
  Forall (fun r => length r = m) Phi ->
  (forall k, (k < K)%nat -> map (fun g => innerR t (nth k Phi []) g) Phi = unit K k) ->
  let xi := map (fun phi => innerR t xt phi) Phi in          (* scores of ANY curve xt *)
  map (fun phi => innerR t (mtvR m Phi xi) phi) Phi = xi.     (* scores of its reconstruction *)
Proof.
  intros m K HP Horth xi. subst m K.
  apply (scores_of_combination t Phi xi HP); [unfold xi; apply map_length|exact Horth].
Qed.
