(* Lemmas/PyIndex.v — proofs about Model/PyIndex.v (discrete; stdlib + lia only). *)
From Coq Require Import ZArith List Bool Lia.
From FDAV Require Import Model.PyIndex.
Import ListNotations.
Local Open Scope Z_scope.

(* ceiling division: m < ceil(d / k)  <->  m * k < d   (k > 0) *)
Lemma ceil_div_lt : forall d k m, 0 < k -> (m < (d + k - 1) / k <-> m * k < d).
Proof.
  intros d k m Hk.
  pose proof (Z.div_mod (d + k - 1) k ltac:(lia)) as E.
  pose proof (Z.mod_pos_bound (d + k - 1) k Hk) as B.
  set (q := (d + k - 1) / k) in *. set (r := (d + k - 1) mod k) in *.
  split; intro H; nia.
Qed.

Lemma range_len_pos : forall i j k (m : nat), 0 < k ->
  ((m < range_len i j k)%nat <-> i + Z.of_nat m * k < j).
Proof.
  intros i j k m Hk. unfold range_len.
  destruct (0 <? k) eqn:E; [|apply Z.ltb_ge in E; lia].
  destruct (i <? j) eqn:F.
  - apply Z.ltb_lt in F.
    pose proof (ceil_div_lt (j - i) k (Z.of_nat m) Hk) as C.
    replace (j - i + k - 1) with (j - i + k - 1) in C by lia.
    assert (Q : 0 <= (j - i + k - 1) / k) by (apply Z.div_pos; lia).
    split; intro H.
    + assert (Z.of_nat m < (j - i + k - 1) / k) by lia. lia.
    + assert (Z.of_nat m < (j - i + k - 1) / k) by (apply C; lia). lia.
  - apply Z.ltb_ge in F. split; intro H; [lia | nia].
Qed.

Lemma range_len_neg : forall i j k (m : nat), k < 0 ->
  ((m < range_len i j k)%nat <-> j < i + Z.of_nat m * k).
Proof.
  intros i j k m Hk. unfold range_len.
  destruct (0 <? k) eqn:E; [apply Z.ltb_lt in E; lia|].
  destruct (j <? i) eqn:F.
  - apply Z.ltb_lt in F.
    pose proof (ceil_div_lt (i - j) (- k) (Z.of_nat m) ltac:(lia)) as C.
    replace (i - j + - k - 1) with (i - j - k - 1) in C by lia.
    assert (Q : 0 <= (i - j - k - 1) / (- k)) by (apply Z.div_pos; lia).
    split; intro H.
    + assert (Z.of_nat m < (i - j - k - 1) / (- k)) by lia. lia.
    + assert (Z.of_nat m < (i - j - k - 1) / (- k)) by (apply C; lia). lia.
  - apply Z.ltb_ge in F. split; intro H; [lia | nia].
Qed.

Lemma range_len_before : forall i j k (m : nat), k <> 0 ->
  ((m < range_len i j k)%nat <-> before k (i + Z.of_nat m * k) j).
Proof.
  intros i j k m Hk. unfold before.
  destruct (0 <? k) eqn:E.
  - apply Z.ltb_lt in E. apply range_len_pos; lia.
  - apply Z.ltb_ge in E. apply range_len_neg; lia.
Qed.

Lemma range_list_length : forall i j k, length (range_list i j k) = range_len i j k.
Proof. intros. unfold range_list. now rewrite map_length, seq_length. Qed.

(* the r-th element is i + r*k *)
Lemma range_list_nth : forall i j k,
  range_list i j k = map (fun m => i + Z.of_nat m * k) (seq 0 (length (range_list i j k))).
Proof. intros. rewrite range_list_length. reflexivity. Qed.

Lemma range_list_in : forall i j k x, k <> 0 ->
  (In x (range_list i j k) <-> exists m, 0 <= m /\ x = i + m * k /\ before k x j).
Proof.
  intros i j k x Hk. unfold range_list. rewrite in_map_iff. split.
  - intros [m [E I]]. apply in_seq in I. exists (Z.of_nat m). subst x.
    repeat split; [lia|]. apply range_len_before; [assumption|lia].
  - intros [m [M [E B]]]. exists (Z.to_nat m).
    rewrite Z2Nat.id by assumption. split; [now symmetry|].
    apply in_seq. split; [lia|]. simpl. apply range_len_before; [assumption|].
    rewrite Z2Nat.id by assumption. now subst x.
Qed.

(* ---- normalised bounds ---- *)
Lemma norm_bound_spec_start : forall n k o, 0 <= n -> k <> 0 ->
  norm_bound n k (if 0 <? k then lower_bound k else upper_bound n k) o = bound_spec n k true o.
Proof.
  intros n k o Hn Hk. unfold norm_bound, bound_spec, lower_bound, upper_bound.
  destruct o as [a|]; destruct (0 <? k) eqn:E; try reflexivity;
    destruct (a <? 0) eqn:A;
    repeat match goal with |- context [?x <? ?y] => destruct (x <? y) eqn:?; try lia end;
    repeat match goal with H : (_ <? _) = true |- _ => apply Z.ltb_lt in H
                      | H : (_ <? _) = false |- _ => apply Z.ltb_ge in H end; lia.
Qed.

Lemma norm_bound_spec_stop : forall n k o, 0 <= n -> k <> 0 ->
  norm_bound n k (if 0 <? k then upper_bound n k else lower_bound k) o = bound_spec n k false o.
Proof.
  intros n k o Hn Hk. unfold norm_bound, bound_spec, lower_bound, upper_bound.
  destruct o as [a|]; destruct (0 <? k) eqn:E; try reflexivity;
    destruct (a <? 0) eqn:A;
    repeat match goal with |- context [?x <? ?y] => destruct (x <? y) eqn:?; try lia end;
    repeat match goal with H : (_ <? _) = true |- _ => apply Z.ltb_lt in H
                      | H : (_ <? _) = false |- _ => apply Z.ltb_ge in H end; lia.
Qed.

Lemma bound_spec_range : forall n k b o, 0 <= n ->
  lower_bound k <= bound_spec n k b o <= upper_bound n k.
Proof.
  intros n k b o Hn. unfold bound_spec, lower_bound, upper_bound.
  destruct o as [a|]; destruct (0 <? k); destruct b; try destruct (a <? 0); lia.
Qed.

(* every selected position is a valid index *)
Lemma range_list_valid : forall n i j k, 0 <= n -> k <> 0 ->
  lower_bound k <= i <= upper_bound n k -> lower_bound k <= j <= upper_bound n k ->
  Forall (fun x => 0 <= x < n) (range_list i j k).
Proof.
  intros n i j k Hn Hk Hi Hj. apply Forall_forall. intros x I.
  apply range_list_in in I; [|assumption]. destruct I as [m [M [E B]]].
  unfold before, lower_bound, upper_bound in *.
  destruct (0 <? k) eqn:F.
  - apply Z.ltb_lt in F. nia.
  - apply Z.ltb_ge in F. nia.
Qed.

Theorem slice_indices_spec : forall n s i j k,
  0 <= n -> slice_indices n s = Some (i, j, k) ->
  k = step_of s /\ k <> 0 /\
  i = bound_spec n k true (sl_start s) /\ j = bound_spec n k false (sl_stop s) /\
  slice_positions n s = Some (range_list i j k) /\
  (forall x, In x (range_list i j k) <-> exists m, 0 <= m /\ x = i + m * k /\ before k x j) /\
  range_list i j k = map (fun m => i + Z.of_nat m * k) (seq 0 (length (range_list i j k))) /\
  Forall (fun x => 0 <= x < n) (range_list i j k).
Proof.
  intros n s i j k Hn H. unfold slice_positions. rewrite H.
  unfold slice_indices in H. destruct (step_of s =? 0) eqn:E; [discriminate|].
  apply Z.eqb_neq in E. injection H as Hi Hj Hk. subst k.
  rewrite norm_bound_spec_start in Hi by assumption.
  rewrite norm_bound_spec_stop in Hj by assumption.
  repeat split; try (now symmetry); try assumption.
  - apply range_list_in; assumption.
  - apply range_list_in; assumption.
  - apply range_list_nth.
  - subst i j. apply range_list_valid; try assumption; apply bound_spec_range; assumption.
Qed.

(* a zero step is the only refusal *)
Lemma slice_indices_none : forall n s, slice_indices n s = None <-> step_of s = 0.
Proof.
  intros. unfold slice_indices. destruct (step_of s =? 0) eqn:E.
  - apply Z.eqb_eq in E. tauto.
  - apply Z.eqb_neq in E. split; [discriminate | contradiction].
Qed.

(* [a:b] with 0 <= a <= b <= n selects a, a+1, ..., b-1 *)
Lemma slice_positions_ab : forall n a b, 0 <= a -> a <= b -> b <= n ->
  slice_positions n (mkslice (Some a) (Some b) None)
  = Some (map (fun m => a + Z.of_nat m) (seq 0 (Z.to_nat (b - a)))).
Proof.
  intros n a b Ha Hab Hb. unfold slice_positions, slice_indices, step_of. simpl.
  unfold norm_bound, lower_bound, upper_bound. simpl.
  destruct (a <? 0) eqn:A; [apply Z.ltb_lt in A; lia|].
  destruct (b <? 0) eqn:B; [apply Z.ltb_lt in B; lia|].
  destruct (n <? a) eqn:C; [apply Z.ltb_lt in C; lia|].
  destruct (n <? b) eqn:D; [apply Z.ltb_lt in D; lia|].
  f_equal. unfold range_list, range_len. simpl.
  destruct (a <? b) eqn:F.
  - replace (b - a + 1 - 1) with (b - a) by lia. rewrite Z.div_1_r.
    apply map_ext. intros. lia.
  - apply Z.ltb_ge in F. replace (b - a) with 0 by lia. reflexivity.
Qed.

(* ---- integer indices ---- *)
Lemma wrap_index_spec : forall n i p, wrap_index n i = Some p <->
  (0 <= p < n /\ ((0 <= i /\ p = i) \/ (i < 0 /\ p = i + n))).
Proof.
  intros n i p. unfold wrap_index.
  destruct (i <? 0) eqn:E; [apply Z.ltb_lt in E | apply Z.ltb_ge in E];
  match goal with |- context [(0 <=? ?x) && (?x <? n)] =>
    destruct (0 <=? x) eqn:A; destruct (x <? n) eqn:B end; simpl;
  try apply Z.leb_le in A; try apply Z.leb_gt in A; try apply Z.ltb_lt in B; try apply Z.ltb_ge in B;
  split; intro H; try discriminate; try (injection H as <-; lia);
  try (destruct H as [? [[? ?]|[? ?]]]; try lia; f_equal; lia).
Qed.

Lemma wrap_index_nonneg : forall n i, 0 <= i < n -> wrap_index n i = Some i.
Proof. intros. apply wrap_index_spec. lia. Qed.

Lemma wrap_index_out : forall n i, 0 <= n -> n <= i -> wrap_index n i = None.
Proof.
  intros n i Hn H. destruct (wrap_index n i) eqn:E; [|reflexivity].
  apply wrap_index_spec in E. lia.
Qed.

Lemma wrap_all_spec : forall n a ps, wrap_all n a = Some ps ->
  length ps = length a /\ Forall (fun p => 0 <= p < n) ps /\
  forall r, (r < length a)%nat -> wrap_index n (nth r a 0) = Some (nth r ps 0).
Proof.
  intros n a. induction a as [|i a IH]; intros ps H; simpl in H.
  - injection H as <-. repeat split; [constructor | intros; simpl in *; lia].
  - destruct (wrap_index n i) eqn:E; [|discriminate].
    destruct (wrap_all n a) eqn:F; [|discriminate]. injection H as <-.
    destruct (IH l eq_refl) as [L [V N]]. repeat split.
    + simpl. now rewrite L.
    + constructor; [apply wrap_index_spec in E; lia | assumption].
    + intros [|r] R; simpl; [assumption | apply N; simpl in R; lia].
Qed.
