(* Lemmas/GenNoiseVar.v — _estimate_noise_variance TRANSLATED from /repo/FDApy/misc/utils.py on every run
   (Gen/NoiseVar.v) is Model.Stats.noise_var1 on the difference sequence of the order. *)
From Coq Require Import List Bool Arith Reals Lra Lia.
From FDAV Require Import Base.Num Base.Vec Model.Stats Lemmas.Vec Gen.NoiseVar.
Import ListNotations.
Local Open Scope R_scope.

(* the windows of the model are the slices x[idx : idx + k] of the code *)
Lemma windows_slices {T} : forall (x : list T) k, (1 <= k)%nat ->
  windows x k = map (fun i => firstn k (skipn i x)) (seq 0 (length x + 1 - k)).
Proof.
  induction x as [|a x' IH]; intros k Hk.
  - cbn [length windows]. replace (0 + 1 - k)%nat with 0%nat by lia. reflexivity.
  - cbn [windows length]. destruct (Nat.leb_spec k (S (length x'))) as [L|L].
    + replace (S (length x') + 1 - k)%nat with (S (length x' + 1 - k)) by lia.
      cbn [seq map skipn]. f_equal. rewrite <- seq_shift, map_map. rewrite IH by exact Hk. reflexivity.
    + replace (S (length x') + 1 - k)%nat with 0%nat by lia. reflexivity.
Qed.

Theorem gen_noise_var1_is_model (dget : nat -> list R) order x :
  (1 <= order <= 10)%nat -> length (dget order) = (order + 1)%nat ->
  gen_noise_var1 opsR dget order x = Some (noise_var1 opsR (dget order) x).
Proof.
  intros [H1 H2] HL. unfold gen_noise_var1, noise_var1.
  destruct (Nat.ltb_spec order 1) as [|_]; [lia|]. destruct (Nat.ltb_spec 10 order) as [|_]; [lia|].
  cbn [orb]. rewrite HL.
  destruct (Nat.ltb_spec (length x) (order + 1)) as [S|S]; [reflexivity|].
  f_equal. rewrite windows_slices by lia. rewrite map_map.
  replace (length x + 1 - (order + 1))%nat with (length x - order)%nat by lia.
  f_equal. apply map_ext. intros i. replace (i + order + 1 - i)%nat with (order + 1)%nat by lia. reflexivity.
Qed.
Theorem gen_noise_var1_rejects (dget : nat -> list R) order x :
  (order < 1 \/ 10 < order)%nat -> gen_noise_var1 opsR dget order x = None.
Proof.
  intros H. unfold gen_noise_var1.
  destruct (Nat.ltb_spec order 1); destruct (Nat.ltb_spec 10 order); try reflexivity; lia.
Qed.

(* ---------- with the difference sequences the source holds now (Gen/Consts.v, reflected on every run) ---------- *)
From Coq Require Import QArith Qreals.
From FDAV Require Import Gen.Consts Lemmas.NoiseConst Lemmas.Stats.
Local Open Scope R_scope.
Definition dgetQ (order : nat) : list Q :=
  match find (fun e => Nat.eqb (fst e) order) diff_sequences with Some e => snd e | None => [] end.
Definition dgetR (order : nat) : list R := map Q2R (dgetQ order).

Lemma dgetR_length order : (1 <= order <= 10)%nat -> length (dgetR order) = (order + 1)%nat.
Proof.
  intros H. assert (I : In order (seq 1 10)) by (apply in_seq; lia).
  unfold dgetR. rewrite map_length. cbn [seq In] in I.
  repeat (destruct I as [<-|I]; [vm_compute; reflexivity|]). contradiction.
Qed.

(* _estimate_noise_variance as it stands in the source, on the sequences as they stand in the source:
   it raises exactly for orders outside 1..10, and otherwise returns the model estimate, which is non-negative,
   scales with the square of a factor, and is 0 for curves shorter than order + 1 *)
Theorem source_noise_estimator order x :
  ((order < 1 \/ 10 < order)%nat -> gen_noise_var1 opsR dgetR order x = None) /\
  ((1 <= order <= 10)%nat ->
     gen_noise_var1 opsR dgetR order x = Some (noise_var1 opsR (dgetR order) x) /\
     0 <= noise_var1 opsR (dgetR order) x /\
     (forall a, gen_noise_var1 opsR dgetR order (vscale opsR a x) = Some (a * a * noise_var1 opsR (dgetR order) x)) /\
     ((length x < order + 1)%nat -> noise_var1 opsR (dgetR order) x = 0)).
Proof.
  split; [apply gen_noise_var1_rejects|]. intros H. pose proof (dgetR_length order H) as L. repeat split.
  - apply gen_noise_var1_is_model; assumption.
  - apply noise_var1_nonneg.
  - intros a. rewrite gen_noise_var1_is_model by assumption. rewrite noise_var1_scale. reflexivity.
  - intros S. apply noise_var1_short. rewrite L. exact S.
Qed.

