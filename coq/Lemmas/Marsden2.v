(* Lemmas/Marsden2.v — the quadratic case of Marsden's identity for Cox-de Boor B-splines on ANY strictly
   increasing knots:  sum_j e2(t_{j+1}, ..., t_{j+p}) B_{j,p}(x) = C(p,2) x^2 ,  e2 = second elementary
   symmetric polynomial.  Same telescoping as the partition of unity and the Greville identity. *)
From Coq Require Import Reals Lra Lia List Bool Arith.
From FDAV Require Import Base.Num Base.Vec Model.Basis Lemmas.Vec Lemmas.Basis Lemmas.Greville.
Local Open Scope R_scope.

Section Marsden2.
  Variable t : nat -> R.
  Hypothesis t_inc : forall i, t i < t (S i).
  Notation tsum := (tsum t).

  (* sum over 1 <= i < k <= p of t_{j+i} t_{j+k} *)
  Fixpoint e2 (j p : nat) : R := match p with O => 0 | S p' => e2 j p' + t (j + S p') * tsum j p' end.

  Lemma e2_head j p : e2 j (S p) = e2 (S j) p + t (S j) * tsum (S j) p.
  Proof.
    induction p as [|p IH].
    - cbn [e2 Greville.tsum]. lra.
    - change (e2 j (S (S p))) with (e2 j (S p) + t (j + S (S p)) * tsum j (S p)). rewrite IH.
      change (e2 (S j) (S p)) with (e2 (S j) p + t (S j + S p) * tsum (S j) p).
      rewrite (tsum_head t j p).
      change (tsum (S j) (S p)) with (tsum (S j) p + t (S j + S p)).
      replace (S j + S p)%nat with (j + S (S p))%nat by lia. lra.
  Qed.
  Lemma e2_shift j p : e2 (S j) (S p) - e2 j (S p) = (t (S j + S p) - t (S j)) * tsum (S j) p.
  Proof.
    rewrite (e2_head j p). change (e2 (S j) (S p)) with (e2 (S j) p + t (S j + S p) * tsum (S j) p). lra.
  Qed.

  Lemma mid2 p j x : e2 (S j) (S p) * om t p (S j) x + e2 j (S p) * cf t p j x = e2 (S j) p + x * tsum (S j) p.
  Proof.
    pose proof (cf_om t t_inc p j x) as E.
    replace (cf t p j x) with (1 - om t p (S j) x) by lra.
    replace (e2 (S j) (S p) * om t p (S j) x + e2 j (S p) * (1 - om t p (S j) x))
      with (e2 j (S p) + om t p (S j) x * (e2 (S j) (S p) - e2 j (S p))) by ring.
    rewrite e2_shift, (e2_head j p). unfold om.
    pose proof (t_smono t t_inc (S j) (S j + S p) ltac:(lia)). field. lra.
  Qed.

  Fixpoint E_ (p lo n : nat) (x : R) : R :=   (* sum_{j=lo}^{lo+n-1} e2 j p * B p j x *)
    match n with O => 0 | S n' => e2 lo p * B t p lo x + E_ p (S lo) n' x end.

  Lemma E_last p : forall n lo x, E_ p lo (S n) x = E_ p lo n x + e2 (lo + n) p * B t p (lo + n) x.
  Proof.
    induction n as [|n IH]; intros lo x.
    - simpl. replace (lo + 0)%nat with lo by lia. lra.
    - change (E_ p lo (S (S n)) x) with (e2 lo p * B t p lo x + E_ p (S lo) (S n) x).
      rewrite IH. change (E_ p lo (S n) x) with (e2 lo p * B t p lo x + E_ p (S lo) n x).
      replace (S lo + n)%nat with (lo + S n)%nat by lia. lra.
  Qed.

  Lemma E_step p : forall n lo x,
    E_ (S p) lo (S n) x =
      e2 lo (S p) * (om t p lo x * B t p lo x) + (E_ p (S lo) n x + x * G_ t p (S lo) n x)
      + e2 (lo + n) (S p) * (cf t p (lo + n) x * B t p (S (lo + n)) x).
  Proof.
    induction n as [|n IH]; intros lo x.
    - change (E_ (S p) lo 1 x) with (e2 lo (S p) * B t (S p) lo x + 0). rewrite (B_S t).
      change (E_ p (S lo) 0 x) with 0. change (G_ t p (S lo) 0 x) with 0.
      replace (lo + 0)%nat with lo by lia. lra.
    - rewrite E_last, IH, (B_S t), (E_last p n (S lo)), (G_last t p n (S lo)).
      replace (S lo + n)%nat with (S (lo + n)) by lia.
      replace (lo + S n)%nat with (S (lo + n)) by lia.
      pose proof (mid2 p (lo + n) x) as M. nra.
  Qed.

  Definition c2 (p : nat) : R := INR p * (INR p - 1) / 2.       (* C(p, 2) *)

  Theorem marsden2 p : forall n lo x,
    t (lo + p) <= x < t (lo + n) -> (p < n)%nat -> E_ p lo n x = c2 p * (x * x).
  Proof.
    induction p as [|p IH]; intros n lo x [H1 H2] Hn.
    - assert (Z : forall m l, E_ 0 l m x = 0).
      { induction m as [|m IHm]; intros l; [reflexivity|]. cbn [E_ e2]. rewrite IHm. lra. }
      rewrite Z. unfold c2. cbn [INR]. lra.
    - destruct n as [|n]; [lia|]. rewrite E_step.
      rewrite (B_support t t_inc p lo x) by (right; replace (lo + p + 1)%nat with (lo + S p)%nat by lia; lra).
      rewrite (B_support t t_inc p (S (lo + n)) x) by (left; replace (S (lo + n)) with (lo + S n)%nat by lia; lra).
      assert (R1 : t (S lo + p) <= x < t (S lo + n)).
      { split; [replace (S lo + p)%nat with (lo + S p)%nat by lia; lra|].
        replace (S lo + n)%nat with (lo + S n)%nat by lia. lra. }
      rewrite IH by (try exact R1; lia).
      rewrite (greville t t_inc p n (S lo) x R1) by lia.
      unfold c2. rewrite S_INR. lra.
  Qed.

  Theorem marsden2_closed p n lo x :
    t (lo + S p) <= x <= t (lo + n) -> (S p < n)%nat -> E_ (S p) lo n x = c2 (S p) * (x * x).
  Proof.
    intros [H1 H2] Hn. destruct (Rlt_dec x (t (lo + n))) as [Hx|Hx].
    - apply marsden2; [lra|lia].
    - assert (x = t (lo + n)) by lra. subst x.
      pose proof (marsden2 (S p) (S n) lo (t (lo + n))) as P.
      rewrite E_last, (B_left_knot t t_inc) in P. rewrite <- P; [lra| |lia].
      split; [lra|]. replace (lo + S n)%nat with (S (lo + n)) by lia. apply t_inc.
  Qed.
End Marsden2.
