(* Lemmas/GenSelect.v — _select_number_eigencomponents TRANSLATED from /repo/FDApy/misc/utils.py on every run
   (Gen/Select.v) is the selection rule [npc] of Model/Eigen.v (which C01's theorems are about). *)
From Coq Require Import List Bool Arith Reals Lra Lia.
From FDAV Require Import Base.Num Base.Vec Model.Eigen Lemmas.Vec Gen.Select.
Import ListNotations.
Local Open Scope R_scope.

Lemma oltbR_div c tot p : 0 < tot -> oltb opsR (odiv opsR c tot) p = oltb opsR c (p * tot).
Proof.
  intros Ht. unfold oltb. cbn [oleb odiv opsR]. rewrite Rdiv0_nz by lra. f_equal.
  destruct (Rleb p (c / tot)) eqn:E1; destruct (Rleb (p * tot) c) eqn:E2; try reflexivity; exfalso.
  - apply Rleb_true in E1. apply Rleb_false in E2.
    assert (p * tot <= c / tot * tot) by (apply Rmult_le_compat_r; lra).
    replace (c / tot * tot) with c in * by (field; lra). lra.
  - apply Rleb_false in E1. apply Rleb_true in E2.
    assert (c / tot * tot < p * tot) by (apply Rmult_lt_compat_r; lra).
    replace (c / tot * tot) with c in * by (field; lra). lra.
Qed.

Lemma count_lt_div p tot cs : 0 < tot ->
  count_lt opsR p (map (fun c => odiv opsR c tot) cs) = count_lt opsR (p * tot) cs.
Proof.
  intros Ht. unfold count_lt. induction cs as [|c cs IH]; [reflexivity|].
  cbn [map filter]. rewrite oltbR_div by exact Ht.
  destruct (oltb opsR c (p * tot)); cbn [length]; rewrite IH; reflexivity.
Qed.

Theorem gen_npc_is_model s evs :
  (forall p, s = SelFrac p -> p < 1 /\ 0 < total opsR evs) -> gen_npc opsR s evs = Some (npc opsR s evs).
Proof.
  intros H. destruct s as [|k|p]; cbn [gen_npc npc]; try reflexivity.
  destruct (H p eq_refl) as [Hp Ht].
  assert (E : oltb opsR p (oofnat opsR 1) = true).
  { unfold oltb. cbn. apply negb_true_iff. apply Rleb_false. lra. }
  rewrite E. cbv zeta. rewrite count_lt_div by exact Ht. f_equal. cbn [omul opsR]. lia.
Qed.

(* a float that is not below 1 is rejected (the else branch raises ValueError) *)
Theorem gen_npc_rejects p evs : 1 <= p -> gen_npc opsR (SelFrac p) evs = None.
Proof.
  intros Hp. cbn [gen_npc].
  assert (E : oltb opsR p (oofnat opsR 1) = false).
  { unfold oltb. cbn. apply negb_false_iff. apply Rleb_true. lra. }
  rewrite E. reflexivity.
Qed.
