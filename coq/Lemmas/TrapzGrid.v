(* the grid in other units: trapz over (c * x) is c times trapz over x (any c), hence the squared norm and the inner product
   scale with the unit of the abscissa *)
From Coq Require Import List Bool Reals Lra Lia.
From FDAV Require Import Base.Num Base.Vec Base.Quad Lemmas.Vec Lemmas.Quad.
Import ListNotations.
Local Open Scope R_scope.

Theorem trapz_grid_scale c x : forall y, trapzR (vscaleR c x) y = c * trapzR x y.
Proof.
  induction x as [|a x IH]; intros y; [cbn; lra|].
  destruct x as [|b x'].
  - destruct y as [|ya [|yb y']]; cbn; lra.
  - destruct y as [|ya [|yb y']]; try (cbn; lra).
    change (vscaleR c (a :: b :: x')) with (c * a :: c * b :: vscaleR c x').
    rewrite !trapz_cons2.
    change (c * b :: vscaleR c x') with (vscaleR c (b :: x')). rewrite IH. lra.
Qed.

Theorem inner_grid_scale c x f g : innerR (vscaleR c x) f g = c * innerR x f g.
Proof. unfold inner. apply trapz_grid_scale. Qed.
