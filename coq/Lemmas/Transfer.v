(* Lemmas/Transfer.v — the executable rational instance IS the real-number model on the same numbers.
   For each numeric model function f (polymorphic in [ops T]) Paramcoq generated the kernel-checked
   relational proof f_R; instantiating it with QR q r := Q2R q = r and opsQR gives
       map Q2R (f opsQ x) = f opsR (map Q2R x).
   These are the statements that connect what the correspondence check EVALUATES (opsQ) with what the
   property theorems are ABOUT (opsR). *)
From Coq Require Import List QArith Qreals Reals.
From FDAV Require Import Base.Num Base.Vec Base.Quad Model.Stats Model.Ufpca Model.Scores Model.Pspline
  Model.Basis Model.Repr Model.Mfpca Model.LocalPoly Model.Simpson.
From Param Require Import Param.
Import ListNotations.

Notation vQ2R := (map Q2R).
Notation mQ2R := (map (map Q2R)).

Lemma QR_refl q : QR q (Q2R q).
Proof. reflexivity. Qed.

Theorem trapz_transfer x y : Q2R (trapz opsQ x y) = trapz opsR (vQ2R x) (vQ2R y).
Proof. exact (trapz_R Q R QR opsQ opsR opsQR x _ (list_QR x) y _ (list_QR y)). Qed.

Theorem simpson_transfer x y : Q2R (simpson opsQ x y) = simpson opsR (vQ2R x) (vQ2R y).
Proof. exact (simpson_R Q R QR opsQ opsR opsQR x _ (list_QR x) y _ (list_QR y)). Qed.

Theorem trapz_w_transfer x : vQ2R (trapz_w opsQ x) = trapz_w opsR (vQ2R x).
Proof. symmetry. apply list_QR_inv. exact (trapz_w_R Q R QR opsQ opsR opsQR x _ (list_QR x)). Qed.

Theorem dot_transfer x y : Q2R (dot opsQ x y) = dot opsR (vQ2R x) (vQ2R y).
Proof. exact (dot_R Q R QR opsQ opsR opsQR x _ (list_QR x) y _ (list_QR y)). Qed.

Theorem mv_transfer A x : vQ2R (mv opsQ A x) = mv opsR (mQ2R A) (vQ2R x).
Proof. symmetry. apply list_QR_inv. exact (mv_R Q R QR opsQ opsR opsQR A _ (llist_QR A) x _ (list_QR x)). Qed.

Theorem inner_transfer x f g : Q2R (inner opsQ x f g) = inner opsR (vQ2R x) (vQ2R f) (vQ2R g).
Proof. exact (inner_R Q R QR opsQ opsR opsQR x _ (list_QR x) f _ (list_QR f) g _ (list_QR g)). Qed.

Theorem gram_transfer x X nv : mQ2R (gram opsQ x X nv) = gram opsR (vQ2R x) (mQ2R X) (Q2R nv).
Proof.
  symmetry. apply llist_QR_inv.
  exact (gram_R Q R QR opsQ opsR opsQR x _ (list_QR x) X _ (llist_QR X) nv _ (QR_refl nv)).
Qed.

Theorem mean_transfer m X : vQ2R (mean opsQ m X) = mean opsR m (mQ2R X).
Proof. symmetry. apply list_QR_inv. exact (mean_R Q R QR opsQ opsR opsQR m m (nat_R_refl m) X _ (llist_QR X)). Qed.

Theorem cov_transfer m X : mQ2R (cov opsQ m X) = cov opsR m (mQ2R X).
Proof. symmetry. apply llist_QR_inv. exact (cov_R Q R QR opsQ opsR opsQR m m (nat_R_refl m) X _ (llist_QR X)). Qed.

Theorem noise_var_transfer d X : Q2R (noise_var opsQ d X) = noise_var opsR (vQ2R d) (mQ2R X).
Proof. exact (noise_var_R Q R QR opsQ opsR opsQR d _ (list_QR d) X _ (llist_QR X)). Qed.

Theorem center_transfer m X : mQ2R (center opsQ m X) = center opsR m (mQ2R X).
Proof. symmetry. apply llist_QR_inv. exact (center_R Q R QR opsQ opsR opsQR m m (nat_R_refl m) X _ (llist_QR X)). Qed.

Theorem standardize_transfer m sds X : mQ2R (standardize opsQ m sds X) = standardize opsR m (vQ2R sds) (mQ2R X).
Proof.
  symmetry. apply llist_QR_inv.
  exact (standardize_R Q R QR opsQ opsR opsQR m m (nat_R_refl m) sds _ (list_QR sds) X _ (llist_QR X)).
Qed.

Theorem rescale_weight_transfer x X : Q2R (rescale_weight opsQ x X) = rescale_weight opsR (vQ2R x) (mQ2R X).
Proof. exact (rescale_weight_R Q R QR opsQ opsR opsQR x _ (list_QR x) X _ (llist_QR X)). Qed.

Theorem mercer_transfer m lams phis : mQ2R (mercer opsQ m lams phis) = mercer opsR m (vQ2R lams) (mQ2R phis).
Proof.
  symmetry. apply llist_QR_inv.
  exact (mercer_R Q R QR opsQ opsR opsQR m m (nat_R_refl m) lams _ (list_QR lams) phis _ (llist_QR phis)).
Qed.

Theorem back_transfer s u : vQ2R (back opsQ s u) = back opsR (vQ2R s) (vQ2R u).
Proof. symmetry. apply list_QR_inv. exact (back_R Q R QR opsQ opsR opsQR s _ (list_QR s) u _ (list_QR u)). Qed.

Theorem inverse_transfer m mu s phis xi :
  vQ2R (inverse opsQ m mu s phis xi) = inverse opsR m (vQ2R mu) (Q2R s) (mQ2R phis) (vQ2R xi).
Proof.
  symmetry. apply list_QR_inv.
  exact (inverse_R Q R QR opsQ opsR opsQR m m (nat_R_refl m) mu _ (list_QR mu) s _ (QR_refl s)
           phis _ (llist_QR phis) xi _ (list_QR xi)).
Qed.

Theorem rhs_transfer nb B w y : vQ2R (rhs opsQ nb B w y) = rhs opsR nb (mQ2R B) (vQ2R w) (vQ2R y).
Proof.
  symmetry. apply list_QR_inv.
  exact (rhs_R Q R QR opsQ opsR opsQR nb nb (nat_R_refl nb) B _ (llist_QR B) w _ (list_QR w) y _ (list_QR y)).
Qed.

Theorem bspline_basis_transfer a b nseg p xs :
  mQ2R (bspline_basis opsQ a b nseg p xs) = bspline_basis opsR (Q2R a) (Q2R b) nseg p (vQ2R xs).
Proof.
  symmetry. apply llist_QR_inv.
  exact (bspline_basis_R Q R QR opsQ opsR opsQR a _ (QR_refl a) b _ (QR_refl b) nseg nseg (nat_R_refl nseg)
           p p (nat_R_refl p) xs _ (list_QR xs)).
Qed.

Theorem to_grid_transfer m Phi C : mQ2R (to_grid opsQ m Phi C) = to_grid opsR m (mQ2R Phi) (mQ2R C).
Proof.
  symmetry. apply llist_QR_inv.
  exact (to_grid_R Q R QR opsQ opsR opsQR m m (nat_R_refl m) Phi _ (llist_QR Phi) C _ (llist_QR C)).
Qed.

Theorem mfpca_coef_transfer Qm c nf r :
  vQ2R (mfpca_coef opsQ Qm c nf r) = mfpca_coef opsR (mQ2R Qm) (vQ2R c) (Q2R nf) (Q2R r).
Proof.
  symmetry. apply list_QR_inv.
  exact (mfpca_coef_R Q R QR opsQ opsR opsQR Qm _ (llist_QR Qm) c _ (list_QR c) nf _ (QR_refl nf) r _ (QR_refl r)).
Qed.

Theorem design_1d_transfer p x0 h xs :
  mQ2R (design_1d opsQ p x0 h xs) = design_1d opsR p (Q2R x0) (Q2R h) (vQ2R xs).
Proof.
  symmetry. apply llist_QR_inv.
  exact (design_1d_R Q R QR opsQ opsR opsQR p p (nat_R_refl p) x0 _ (QR_refl x0) h _ (QR_refl h) xs _ (list_QR xs)).
Qed.

Definition pQ2R (lD : Q * list (list Q)) : R * list (list R) := (Q2R (fst lD), mQ2R (snd lD)).
Lemma pens_QR (pens : list (Q * list (list Q))) :
  list_R _ _ (prod_R Q R QR _ _ (list_R _ _ (list_R Q R QR))) pens (map pQ2R pens).
Proof.
  induction pens as [|[l D] pens IH]; simpl; constructor; [|exact IH].
  constructor; [reflexivity|apply llist_QR].
Qed.
Theorem Aop_transfer nb B w pens c :
  vQ2R (Aop opsQ nb B w pens c) = Aop opsR nb (mQ2R B) (vQ2R w) (map pQ2R pens) (vQ2R c).
Proof.
  symmetry. apply list_QR_inv.
  exact (Aop_R Q R QR opsQ opsR opsQR nb nb (nat_R_refl nb) B _ (llist_QR B) w _ (list_QR w)
           pens _ (pens_QR pens) c _ (list_QR c)).
Qed.
