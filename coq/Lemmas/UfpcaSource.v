(* Lemmas/UfpcaSource.v — C02 stated on the quadrature weights the SOURCE computes now (Gen/TrapzWeights.v):
   with w = _integration_weights(x, "trapz") as translated from /repo, the back-transformed eigenvectors are orthonormal
   for the trapezoid inner product of the grid itself. *)
From Coq Require Import List Bool Arith Reals Lra Lia.
From FDAV Require Import Base.Num Base.Vec Base.Quad Model.Ufpca Lemmas.Vec Lemmas.Quad Lemmas.Ufpca
  Gen.TrapzWeights Lemmas.GenTrapzWeights.
Import ListNotations.
Local Open Scope R_scope.

Theorem cov_orthonormal_source x s u v : (2 <= length x)%nat ->
  roots s (gen_trapz_weights opsR x) -> length u = length s -> length v = length s ->
  inner opsR x (back opsR s u) (back opsR s v) = dot opsR u v.
Proof.
  intros Hx Hr Hu Hv. rewrite gen_trapz_weights_is_model in Hr by exact Hx.
  pose proof (roots_length _ _ Hr) as Ls. rewrite trapz_w_length in Ls by exact Hx.
  unfold inner. rewrite trapz_is_weighted_sum.
  - change (dot opsR (trapz_w opsR x) (vmul opsR (back opsR s u) (back opsR s v)))
      with (wdot opsR (trapz_w opsR x) (back opsR s u) (back opsR s v)).
    apply wdot_back; assumption.
  - rewrite vmul_length, !back_length. lia.
Qed.

(* ... and the eigen-equation reads as an integral equation for the trapezoid rule of the grid:
   sum_j C(t_i, t_j) w_j phi(t_j) = trapz_j ( C(t_i, .) phi ) *)
Theorem cov_eigen_equation_source x s C u lam : (2 <= length x)%nat ->
  roots s (gen_trapz_weights opsR x) -> length C = length s -> length u = length s ->
  mv opsR (sym_scale opsR s C) u = vscale opsR lam u ->
  mv opsR C (vmul opsR (gen_trapz_weights opsR x) (back opsR s u)) = vscale opsR lam (back opsR s u).
Proof. intros Hx Hr HC Hu HE. apply (cov_eigen_equation s _ C u lam Hr HC Hu HE). Qed.
