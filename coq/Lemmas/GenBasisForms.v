(* Lemmas/GenBasisForms.v — the closed-form basis families TRANSLATED from /repo on every run
   (Gen/BasisForms.v) are the functions whose orthonormality is proved in Lemmas/Ortho.v. *)
From Coq Require Import Reals Lra.
From Coquelicot Require Import Coquelicot.
From FDAV Require Import Gen.BasisForms Lemmas.Ortho.
Local Open Scope R_scope.

Theorem gen_wiener_is_model k t : gen_wiener k t = wiener k t.
Proof. reflexivity. Qed.
Theorem gen_fourier_const_is_model a b t : gen_fourier_const a b t = f_const a b t.
Proof. reflexivity. Qed.
Theorem gen_fourier_odd_is_cos a b m t : gen_fourier_odd a b m t = f_cos a b m t.
Proof. reflexivity. Qed.
Theorem gen_fourier_even_is_sin a b m t : gen_fourier_even a b m t = f_sin a b m t.
Proof. reflexivity. Qed.

(* orthonormality stated on the translated code *)
Theorem gen_wiener_orthonormal j k : (1 <= j)%nat -> (1 <= k)%nat ->
  is_RInt (fun t => gen_wiener j t * gen_wiener k t) 0 1 (if Nat.eq_dec j k then 1 else 0).
Proof.
  intros Hj Hk. destruct (Nat.eq_dec j k) as [E|E].
  - subst. exact (wiener_unit_norm k Hk).
  - exact (wiener_orthogonal j k Hj Hk E).
Qed.
Theorem gen_fourier_rows_orthonormal a b : a < b -> forall m n, (1 <= m)%nat -> (1 <= n)%nat ->
  is_RInt (fun t => gen_fourier_const a b t * gen_fourier_const a b t) a b 1 /\
  is_RInt (fun t => gen_fourier_const a b t * gen_fourier_odd a b m t) a b 0 /\
  is_RInt (fun t => gen_fourier_const a b t * gen_fourier_even a b m t) a b 0 /\
  is_RInt (fun t => gen_fourier_odd a b m t * gen_fourier_odd a b n t) a b (if Nat.eq_dec m n then 1 else 0) /\
  is_RInt (fun t => gen_fourier_even a b m t * gen_fourier_even a b n t) a b (if Nat.eq_dec m n then 1 else 0) /\
  is_RInt (fun t => gen_fourier_even a b m t * gen_fourier_odd a b n t) a b 0.
Proof.
  intros Hab m n Hm Hn. repeat split.
  - exact (fourier_const_norm a b Hab).
  - exact (fourier_const_cos a b Hab m Hm).
  - exact (fourier_const_sin a b Hab m).
  - exact (fourier_cos_cos a b Hab m n Hm Hn).
  - exact (fourier_sin_sin a b Hab m n Hm Hn).
  - exact (fourier_sin_cos a b Hab m n).
Qed.
