(* Lemmas/Smooth.v — a smoothed value depends only on the fitted state and on its own location (C07).
   These are congruence laws: thin by construction (DESIGN 1.4); the content is that the fit domain is
   part of the STATE, and the correspondence run shows the implementation factors through this model. *)
From Coq Require Import List Bool Permutation QArith.
From FDAV Require Import Base.Num Base.Vec Model.Basis Model.Smooth Model.Pspline.
Import ListNotations.

Section Pointwise.
  Context {T D : Type} (o : ops T) (at_ : D -> T -> T) (data : D).

  (* the value reported at a location does not depend on which other locations are requested,
     nor on their order: position i1 of query Q1 and position i2 of query Q2 holding the same point *)
  Lemma pointwise_independent Q1 Q2 i1 i2 d :
    (i1 < length Q1)%nat -> (i2 < length Q2)%nat -> nth i1 Q1 d = nth i2 Q2 d ->
    nth i1 (pointwise_predict at_ data Q1) (at_ data d) = nth i2 (pointwise_predict at_ data Q2) (at_ data d).
  Proof.
    intros H1 H2 E. unfold pointwise_predict. rewrite !map_nth. congruence.
  Qed.
  Lemma pointwise_sublist Q Q' : incl Q' Q ->
    forall q, In q Q' -> In (q, at_ data q) (combine Q' (pointwise_predict at_ data Q'))
                         /\ In (q, at_ data q) (combine Q (pointwise_predict at_ data Q)).
  Proof.
    intros Hinc q Hq. unfold pointwise_predict. split.
    - clear Hinc. induction Q' as [|a Q' IH]; [contradiction|]. simpl. destruct Hq as [->|Hq]; [left; reflexivity|right; auto].
    - apply Hinc in Hq. clear Hinc. induction Q as [|a Q IH]; [contradiction|]. simpl.
      destruct Hq as [->|Hq]; [left; reflexivity|right; auto].
  Qed.
  Lemma pointwise_perm Q Q' : Permutation Q Q' ->
    Permutation (pointwise_predict at_ data Q) (pointwise_predict at_ data Q').
  Proof. intros H. unfold pointwise_predict. apply Permutation_map. exact H. Qed.
  Lemma pointwise_app Q1 Q2 :
    pointwise_predict at_ data (Q1 ++ Q2) = pointwise_predict at_ data Q1 ++ pointwise_predict at_ data Q2.
  Proof. unfold pointwise_predict. apply map_app. Qed.
End Pointwise.

(* P-spline prediction is a pointwise predictor of the fitted state *)
Lemma ps_predict_pointwise {T} (o : ops T) st Q :
  ps_predict o st Q = pointwise_predict (fun s q => ps_eval o s q) st Q.
Proof. reflexivity. Qed.

(* evaluating at the fitting grid returns the fitted values: rows of the transposed basis matrix are
   the per-point rows *)
Lemma transpose_outer {T} (f : nat -> T -> T) (js : list nat) (xs : list T) :
  transpose (length xs) (map (fun j => map (f j) xs) js) = map (fun x => map (fun j => f j x) js) xs.
Proof.
  induction js as [|j js IH]; unfold transpose; simpl.
  - induction xs; simpl; [reflexivity|]. f_equal. assumption.
  - fold (transpose (length xs) (map (fun j0 => map (f j0) xs) js)). rewrite IH.
    clear. induction xs as [|x xs IHx]; simpl; [reflexivity|]. f_equal. exact IHx.
Qed.

Theorem ps_predict_at_fit_grid {T} (o : ops T) st xs :
  ps_predict o st xs =
  fitted o (design1 (bspline_basis o (ps_a st) (ps_b st) (ps_nseg st) (ps_deg st) xs) (length xs)) (ps_beta st).
Proof.
  unfold ps_predict, fitted, design1, bspline_basis, mv. cbv zeta.
  rewrite (transpose_outer (fun j => bspl o (ps_deg st)
            (knot o (ps_a st) (odiv o (osub o (ps_b st) (ps_a st)) (oofnat o (ps_nseg st))) (ps_deg st)) j)).
  rewrite map_map. reflexivity.
Qed.

(* finding F6 (repaired): rebuilding the basis on the query range changes the value at a location *)
Local Open Scope Q_scope.
Definition f6_state : ps_state (T := Q) :=
  {| ps_beta := [0; 1]; ps_a := 0; ps_b := 1; ps_nseg := 1%nat; ps_deg := 1%nat |}.
Lemma predict_rebuild_refuted :
  ps_predict opsQ f6_state [1#2; 1] = [1#2; 1] /\
  ps_predict_rebuild opsQ f6_state [1#2; 1] = [0; 1] /\
  ps_predict opsQ f6_state [0; 1#2; 1] = [0; 1#2; 1].
Proof. repeat split; vm_compute; reflexivity. Qed.
