(* Lemmas/Gram.v — the Gram (inner-product) matrix of a dataset at R. *)
From Coq Require Import List Bool Reals Lra Lia Arith.
From FDAV Require Import Base.Num Base.Vec Base.Quad Lemmas.Vec Lemmas.Quad.
Import ListNotations.
Local Open Scope R_scope.

Notation gramR := (gram opsR).
Notation gram_specR := (gram_spec opsR).

Definition ent (G : list (list R)) (i j : nat) : R := nth j (nth i G []) 0.

Lemma nth_map_seq {A} (f : nat -> A) n i d : (i < n)%nat -> nth i (map f (seq 0 n)) d = f i.
Proof.
  intros H. rewrite (nth_indep _ d (f 0%nat)) by (rewrite map_length, seq_length; exact H).
  rewrite map_nth, seq_nth by exact H. reflexivity.
Qed.

Lemma gram_upper_ent x X nv i j : (i < length X)%nat -> (j < length X)%nat ->
  ent (gram_upper opsR x X nv) i j = gram_entry_upper opsR x X nv i j.
Proof.
  intros Hi Hj. unfold ent, gram_upper.
  rewrite (nth_map_seq (fun i => map (fun j => gram_entry_upper opsR x X nv i j) (seq 0 (length X)))) by exact Hi.
  rewrite (nth_map_seq (fun j => gram_entry_upper opsR x X nv i j)) by exact Hj. reflexivity.
Qed.

(* the upper-triangle-then-symmetrise construction yields the mathematical matrix
   minus the noise variance on the diagonal, whatever triangle is filled *)
Theorem gram_construction_sound x X nv i j : (i < length X)%nat -> (j < length X)%nat ->
  ent (gramR x X nv) i j =
  innerR x (nth i X []) (nth j X []) - (if Nat.eqb i j then nv else 0).
Proof.
  intros Hi Hj. unfold ent, gram. cbv zeta.
  rewrite (nth_map_seq (fun i => map _ (seq 0 (length X)))) by exact Hi.
  rewrite (nth_map_seq (fun j0 => _)) by exact Hj.
  change (o0 opsR) with 0.
  change (nth j (nth i (gram_upper opsR x X nv) []) 0) with (ent (gram_upper opsR x X nv) i j).
  change (nth i (nth j (gram_upper opsR x X nv) []) 0) with (ent (gram_upper opsR x X nv) j i).
  rewrite !gram_upper_ent by assumption. unfold gram_entry_upper.
  destruct (Nat.eqb i j) eqn:E.
  - apply Nat.eqb_eq in E. subst j. rewrite Nat.leb_refl, Nat.eqb_refl, ohalfR. cbn. lra.
  - apply Nat.eqb_neq in E. rewrite (proj2 (Nat.eqb_neq j i)) by lia.
    destruct (Nat.leb i j) eqn:L1, (Nat.leb j i) eqn:L2;
      rewrite ?Nat.leb_le, ?Nat.leb_gt in *; try lia; cbn; rewrite ?(inner_comm x (nth j X [])); lra.
Qed.

Theorem gram_symmetric x X nv i j : (i < length X)%nat -> (j < length X)%nat ->
  ent (gramR x X nv) i j = ent (gramR x X nv) j i.
Proof.
  intros Hi Hj. rewrite !gram_construction_sound by assumption.
  rewrite (inner_comm x (nth i X [])), (Nat.eqb_sym i j). reflexivity.
Qed.

Theorem gram_diag x X i : (i < length X)%nat ->
  ent (gramR x X 0) i i = normsqR x (nth i X []).
Proof. intros Hi. rewrite gram_construction_sound by assumption. rewrite Nat.eqb_refl. unfold normsq. lra. Qed.

Lemma nth_map_in {A B} (f : A -> B) l i d d' : (i < length l)%nat ->
  nth i (map f l) d = f (nth i l d').
Proof.
  revert i; induction l as [|a l IH]; intros [|i] H; simpl in *; try lia; [reflexivity|].
  apply IH. lia.
Qed.

Lemma gram_spec_ent x X i j : (i < length X)%nat -> (j < length X)%nat ->
  ent (gram_specR x X) i j = innerR x (nth i X []) (nth j X []).
Proof.
  intros Hi Hj. unfold ent, gram_spec.
  rewrite (nth_map_in _ X i [] []) by exact Hi.
  rewrite (nth_map_in _ X j 0 []) by exact Hj. reflexivity.
Qed.

(* ---------- positive semi-definiteness ---------- *)
Lemma trapz_zeros x n : trapzR x (zerosR n) = 0.
Proof.
  revert n; induction x as [|a x IH]; intros n; [reflexivity|].
  destruct x as [|b x]; [apply trapz_single|].
  destruct n as [|[|n]]; try reflexivity.
  change (zerosR (S (S n))) with (0 :: 0 :: zerosR n). rewrite trapz_cons2.
  change (0 :: zerosR n) with (zerosR (S n)). rewrite IH. lra.
Qed.
Lemma vmul_zeros_r f n : vmulR f (zerosR n) = zerosR (Nat.min (length f) n).
Proof.
  revert n; induction f as [|a f IH]; intros [|n]; try reflexivity.
  change (vmulR (a :: f) (zerosR (S n))) with (a * 0 :: vmulR f (zerosR n)).
  rewrite IH. change (zerosR (Nat.min (length (a :: f)) (S n))) with (0 :: zerosR (Nat.min (length f) n)).
  f_equal. lra.
Qed.
Lemma inner_zeros_r x f n : innerR x f (zerosR n) = 0.
Proof. unfold inner. rewrite vmul_zeros_r. apply trapz_zeros. Qed.

Lemma inner_vadd_r x f g h : length g = length h -> length f = length g ->
  innerR x f (vaddR g h) = innerR x f g + innerR x f h.
Proof.
  intros H1 H2. rewrite (inner_comm x f), inner_vadd_l by lia.
  rewrite (inner_comm x g), (inner_comm x h). reflexivity.
Qed.
Lemma inner_vscale_r c x f g : innerR x f (vscaleR c g) = c * innerR x f g.
Proof. rewrite (inner_comm x f), inner_vscale_l, (inner_comm x g). reflexivity. Qed.

Lemma inner_mtv m x f X : forall c, Forall (fun r => length r = m) X -> length f = m ->
  dotR (map (fun g => innerR x f g) X) c = innerR x f (mtvR m X c).
Proof.
  induction X as [|g X IH]; intros [|a c] HX Hf; unfold mtv; simpl;
    try (rewrite inner_zeros_r; reflexivity).
  pose proof (Forall_inv HX) as Hg. pose proof (Forall_inv_tail HX) as HX'. cbv beta in Hg.
  fold (mtvR m X c).
  rewrite inner_vadd_r by (rewrite ?vscale_length, ?mtv_length by assumption; lia).
  rewrite inner_vscale_r.
  change (dotR (innerR x f g :: map (fun g0 => innerR x f g0) X) (a :: c))
    with (innerR x f g * a + dotR (map (fun g0 => innerR x f g0) X) c).
  rewrite IH by assumption. lra.
Qed.

Theorem gram_quadratic_form m x X c : Forall (fun r => length r = m) X ->
  dotR c (mvR (gram_specR x X) c) = normsqR x (mtvR m X c).
Proof.
  intros HX. unfold gram_spec, mv. rewrite map_map.
  assert (E : map (fun f => dotR (map (fun g => innerR x f g) X) c) X =
              map (fun f => innerR x (mtvR m X c) f) X).
  { apply map_ext_in. intros f Hf. rewrite Forall_forall in HX.
    rewrite (inner_mtv m) by (try apply Forall_forall; auto). apply inner_comm. }
  rewrite E, dot_comm.
  rewrite (inner_mtv m) by (auto; apply mtv_length; exact HX). reflexivity.
Qed.

Theorem gram_psd m x X c : nondec x -> length x = m -> Forall (fun r => length r = m) X ->
  0 <= dotR c (mvR (gram_specR x X) c).
Proof.
  intros Hx Hm HX. rewrite (gram_quadratic_form m) by exact HX.
  apply normsq_nonneg; [exact Hx|]. rewrite mtv_length by exact HX. lia.
Qed.

(* ---------- rows of the Gram matrix of centred curves sum to zero ---------- *)
Lemma vsum_inner_colsum m x f X : Forall (fun r => length r = m) X -> length f = m ->
  vsumR (map (fun g => innerR x f g) X) = innerR x f (colsum opsR m X).
Proof.
  intros HX Hf. induction HX as [|g X Hg HX IH]; unfold colsum; simpl.
  - rewrite inner_zeros_r. reflexivity.
  - fold (colsum opsR m X). rewrite inner_vadd_r.
    + cbn in IH |- *. rewrite IH. reflexivity.
    + assert (length (colsum opsR m X) = m).
      { clear IH. induction HX as [|r X Hr HX IH2]; unfold colsum; simpl; [apply zeros_length|].
        fold (colsum opsR m X). rewrite vadd_length, IH2, Hr. lia. }
      lia.
    + lia.
Qed.

Theorem gram_rows_sum_zero m x X f : Forall (fun r => length r = m) X -> length f = m ->
  colsum opsR m X = zerosR m -> vsumR (map (fun g => innerR x f g) X) = 0.
Proof. intros HX Hf Hz. rewrite (vsum_inner_colsum m) by assumption. rewrite Hz. apply inner_zeros_r. Qed.

(* ---------- equivariance under re-ordering / selection of observations ---------- *)
Theorem gram_spec_reindex x X (p : list nat) :
  gram_specR x (map (fun i => nth i X []) p) =
  map (fun i => map (fun j => innerR x (nth i X []) (nth j X [])) p) p.
Proof. unfold gram_spec. rewrite map_map. apply map_ext. intros i. rewrite map_map. reflexivity. Qed.

(* ---------- multivariate data: the Gram matrix is the sum of the component matrices ---------- *)
Lemma mv_madd A : forall B c, length A = length B ->
  Forall2 (fun r s => length r = length s) A B ->
  mvR (madd opsR A B) c = vaddR (mvR A c) (mvR B c).
Proof.
  induction A as [|r A IH]; intros [|s B] c HL HF; simpl in HL; try discriminate; [reflexivity|].
  inversion HF; subst.
  change (mvR (madd opsR (r :: A) (s :: B)) c) with (dotR (vaddR r s) c :: mvR (madd opsR A B) c).
  rewrite IH by (auto; lia). rewrite dot_vadd_l by assumption. reflexivity.
Qed.

Theorem gram_sum_psd A B c : length A = length B ->
  Forall2 (fun r s => length r = length s) A B ->
  0 <= dotR c (mvR A c) -> 0 <= dotR c (mvR B c) -> 0 <= dotR c (mvR (madd opsR A B) c).
Proof.
  intros HL HF HA HB. rewrite mv_madd by assumption.
  rewrite dot_vadd_r by (unfold mv; rewrite !map_length; exact HL). lra.
Qed.
