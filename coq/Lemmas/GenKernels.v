(* Lemmas/GenKernels.v — the kernel functions TRANSLATED from /repo on every run (Gen/Kernels.v) are
   the kernels of the hand-written model (Model/LocalPoly.v, Lemmas/LocalPoly.v: k_gauss), composed
   with |.|.  These proofs are re-checked against the current source text on every run: a changed
   constant, support convention (< vs <=), power, or a re-wired name -> function dispatch breaks them. *)
From Coq Require Import List Bool Reals Lra Lia Arith.
From FDAV Require Import Base.Num Model.LocalPoly Gen.Kernels Lemmas.Vec Lemmas.LocalPoly.
Local Open Scope R_scope.

Lemma oabs_R a : oabs opsR a = Rabs a.
Proof.
  unfold oabs. cbn [oleb o0 oopp opsR]. destruct (Rleb 0 a) eqn:E.
  - apply Rleb_true in E. rewrite Rabs_right; [reflexivity|lra].
  - apply Rleb_false in E. rewrite Rabs_left; [reflexivity|lra].
Qed.
Lemma sq_abs a : Rabs a * Rabs a = a * a.
Proof. rewrite <- Rabs_mult. apply Rabs_right. apply Rle_ge, Rle_0_sqr. Qed.
Lemma one_R : oofnat opsR 1 = 1.
Proof. cbn [oofnat oadd o1 o0 opsR]. lra. Qed.

Theorem gen_epanechnikov_is_model x : gen_kernel_epanechnikov opsR x = k_epan opsR (Rabs x).
Proof.
  unfold gen_kernel_epanechnikov, k_epan. rewrite one_R, oabs_R. unfold osq. cbn [omul o1 opsR]. rewrite sq_abs. reflexivity.
Qed.

Theorem gen_bisquare_is_model x : gen_kernel_bisquare opsR x = k_bisquare opsR (Rabs x).
Proof.
  unfold gen_kernel_bisquare, k_bisquare. rewrite one_R, oabs_R. unfold osq. cbn [omul o1 opsR]. rewrite sq_abs. reflexivity.
Qed.

Theorem gen_tricube_is_model x : gen_kernel_tricube opsR x = k_tricube opsR (Rabs x).
Proof.
  unfold gen_kernel_tricube, k_tricube, cube, opown. rewrite one_R, oabs_R. cbn [opown_aux omul o1 opsR osub oadd oopp].
  destruct (oltb opsR (Rabs x) 1); [|reflexivity]. ring.
Qed.

Theorem gen_gaussian_is_model x : gen_kernel_gaussian x = k_gauss (Rabs x).
Proof. unfold gen_kernel_gaussian, k_gauss. rewrite sq_abs. reflexivity. Qed.

(* consequences stated directly on the translated code: non-negative, compactly supported, even *)
Theorem gen_kernels_nonneg x :
  0 <= gen_kernel_epanechnikov opsR x /\ 0 <= gen_kernel_tricube opsR x /\ 0 <= gen_kernel_bisquare opsR x
  /\ 0 < gen_kernel_gaussian x.
Proof.
  rewrite gen_epanechnikov_is_model, gen_tricube_is_model, gen_bisquare_is_model, gen_gaussian_is_model.
  destruct (kernels_nonneg (Rabs x) (Rabs_pos x)) as (A & B & D). repeat split; try assumption. apply gaussian_pos.
Qed.
Theorem gen_kernels_compact x : 1 <= Rabs x ->
  gen_kernel_epanechnikov opsR x = 0 /\ gen_kernel_tricube opsR x = 0 /\ gen_kernel_bisquare opsR x = 0.
Proof.
  intros H. rewrite gen_epanechnikov_is_model, gen_tricube_is_model, gen_bisquare_is_model.
  apply kernels_compact. exact H.
Qed.
Theorem gen_kernels_even x :
  gen_kernel_epanechnikov opsR (- x) = gen_kernel_epanechnikov opsR x /\
  gen_kernel_tricube opsR (- x) = gen_kernel_tricube opsR x /\
  gen_kernel_bisquare opsR (- x) = gen_kernel_bisquare opsR x /\
  gen_kernel_gaussian (- x) = gen_kernel_gaussian x.
Proof.
  rewrite (gen_epanechnikov_is_model (- x)), (gen_epanechnikov_is_model x), (gen_tricube_is_model (- x)),
    (gen_tricube_is_model x), (gen_bisquare_is_model (- x)), (gen_bisquare_is_model x),
    (gen_gaussian_is_model (- x)), (gen_gaussian_is_model x), Rabs_Ropp.
  repeat split; reflexivity.
Qed.
