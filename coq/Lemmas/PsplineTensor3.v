(* Lemmas/PsplineTensor3.v — the 3-D tensor-product case of polynomial reproduction (C05): design3 / pens3. *)
From Coq Require Import List Bool Reals Lra Lia Arith.
From FDAV Require Import Base.Num Base.Vec Model.Basis Model.Pspline
  Lemmas.Vec Lemmas.Gram Lemmas.Stats Lemmas.Basis Lemmas.Pspline Lemmas.Fcptpa Lemmas.PsplineConst Lemmas.PsplineTensor.
Import ListNotations.
Local Open Scope R_scope.

Lemma wf_len n (A : list (list R)) (v : list R) : wfB n A -> length v = n -> Forall (fun g => length g = length v) A.
Proof. intros H L. unfold wfB in H. rewrite L. exact H. Qed.

Theorem tensor3_solves_normal_equations nb1 nb2 nb3 d l1 l2 l3 (R1 R2 R3 : list (list R)) (c1 c2 c3 w : list R) :
  wfB nb1 R1 -> wfB nb2 R2 -> wfB nb3 R3 -> length c1 = nb1 -> length c2 = nb2 -> length c3 = nb3 ->
  mvR (diffmat opsR nb1 d) c1 = zerosR (length (diffmat opsR nb1 d)) ->
  mvR (diffmat opsR nb2 d) c2 = zerosR (length (diffmat opsR nb2 d)) ->
  mvR (diffmat opsR nb3 d) c3 = zerosR (length (diffmat opsR nb3 d)) ->
  AopR (nb1 * nb2 * nb3) (design3 opsR R1 R2 R3) w (pens3 opsR nb1 nb2 nb3 d l1 l2 l3) (kronR (kronR c1 c2) c3)
  = rhsR (nb1 * nb2 * nb3) (design3 opsR R1 R2 R3) w (kronR (kronR (mvR R1 c1) (mvR R2 c2)) (mvR R3 c3)).
Proof.
  intros H1 H2 H3 L1 L2 L3 Z1 Z2 Z3. unfold design3, kron_rows.
  assert (L12 : length (kronR c1 c2) = (nb1 * nb2)%nat) by (rewrite kron_length, L1, L2; reflexivity).
  rewrite (reproduces_null_space' (nb1 * nb2 * nb3) (tensor_basis opsR (tensor_basis opsR R1 R2) R3) w).
  - unfold fitted. rewrite mv_kron_rows by (apply (wf_len nb3); assumption).
    rewrite mv_kron_rows by (apply (wf_len nb2); assumption). reflexivity.
  - apply tensor_basis_wf; [apply tensor_basis_wf|]; assumption.
  - unfold pens3, wfP, kron_rows. repeat constructor; cbn [snd];
      (apply tensor_basis_wf; [apply tensor_basis_wf|]); try apply diffmat_wf; apply eye_wf.
  - unfold pens3, kron_rows. repeat constructor; cbn [snd].
    + rewrite mv_kron_rows by (apply (wf_len nb3); [apply eye_wf|assumption]).
      rewrite mv_kron_rows by (apply (wf_len nb2); [apply eye_wf|assumption]).
      rewrite Z1. rewrite <- L2 at 1. rewrite <- L3 at 1. rewrite !mv_eye. rewrite kron_zeros_l, kron_zeros_l.
      rewrite !tensor_basis_length, !eye_length, L2, L3. reflexivity.
    + rewrite mv_kron_rows by (apply (wf_len nb3); [apply eye_wf|assumption]).
      rewrite mv_kron_rows by (apply (wf_len nb2); [apply diffmat_wf|assumption]).
      rewrite Z2. rewrite <- L1 at 1. rewrite <- L3 at 1. rewrite !mv_eye. rewrite kron_zeros_r, kron_zeros_l.
      rewrite !tensor_basis_length, !eye_length, L1, L3. reflexivity.
    + rewrite mv_kron_rows by (apply (wf_len nb3); [apply diffmat_wf|assumption]).
      rewrite mv_kron_rows by (apply (wf_len nb2); [apply eye_wf|assumption]).
      rewrite Z3. rewrite <- L1 at 1. rewrite <- L2 at 1. rewrite !mv_eye. rewrite kron_zeros_r.
      rewrite !tensor_basis_length, !eye_length, kron_length, L1, L2. reflexivity.
Qed.

Theorem tensor3_reproduced nb1 nb2 nb3 d l1 l2 l3 (R1 R2 R3 : list (list R)) (c1 c2 c3 w beta : list R) k :
  wfB nb1 R1 -> wfB nb2 R2 -> wfB nb3 R3 -> length c1 = nb1 -> length c2 = nb2 -> length c3 = nb3 ->
  mvR (diffmat opsR nb1 d) c1 = zerosR (length (diffmat opsR nb1 d)) ->
  mvR (diffmat opsR nb2 d) c2 = zerosR (length (diffmat opsR nb2 d)) ->
  mvR (diffmat opsR nb3 d) c3 = zerosR (length (diffmat opsR nb3 d)) ->
  length beta = (nb1 * nb2 * nb3)%nat -> Forall (fun v => 0 <= v) w -> 0 <= l1 -> 0 <= l2 -> 0 <= l3 ->
  AopR (nb1 * nb2 * nb3) (design3 opsR R1 R2 R3) w (pens3 opsR nb1 nb2 nb3 d l1 l2 l3) beta
    = rhsR (nb1 * nb2 * nb3) (design3 opsR R1 R2 R3) w (kronR (kronR (mvR R1 c1) (mvR R2 c2)) (mvR R3 c3)) ->
  (k < length R1 * length R2 * length R3)%nat -> (k < length w)%nat -> 0 < nth k w 0 ->
  nth k (fitted opsR (design3 opsR R1 R2 R3) beta) 0 = nth k (kronR (kronR (mvR R1 c1) (mvR R2 c2)) (mvR R3 c3)) 0.
Proof.
  intros H1 H2 H3 L1 L2 L3 Z1 Z2 Z3 Lb Hw Hl1 Hl2 Hl3 E Hk Hkw Hpos.
  rewrite (fitted_unique (nb1 * nb2 * nb3) (design3 opsR R1 R2 R3) w (pens3 opsR nb1 nb2 nb3 d l1 l2 l3) beta (kronR (kronR c1 c2) c3) k).
  - unfold fitted, design3, kron_rows. rewrite mv_kron_rows by (apply (wf_len nb3); assumption).
    rewrite mv_kron_rows by (apply (wf_len nb2); assumption). reflexivity.
  - unfold design3, kron_rows. apply tensor_basis_wf; [apply tensor_basis_wf|]; assumption.
  - unfold pens3, wfP, kron_rows. repeat constructor; cbn [snd];
      (apply tensor_basis_wf; [apply tensor_basis_wf|]); try apply diffmat_wf; apply eye_wf.
  - exact Lb.
  - rewrite !kron_length, L1, L2, L3. reflexivity.
  - exact Hw.
  - unfold pens3. constructor; [cbn [fst]; exact Hl1|]. constructor; [cbn [fst]; exact Hl2|]. constructor; [cbn [fst]; exact Hl3|constructor].
  - rewrite E. symmetry. apply tensor3_solves_normal_equations; assumption.
  - unfold design3, kron_rows. rewrite !tensor_basis_length. exact Hk.
  - exact Hkw.
  - exact Hpos.
Qed.
