(* Lemmas/NormRange.v — the standardised points of dense data lie in [0, 1] (C11: what "standardised" means), for every grid
   whose minimum and maximum differ. *)
From Coq Require Import List Bool QArith Qminmax Lqa.
From FDAV Require Import Model.Normalize.
Import ListNotations.
Local Open Scope Q_scope.

Lemma fold_min_le : forall r a, fold_left Qmin r a <= a /\ (forall y, In y r -> fold_left Qmin r a <= y).
Proof.
  induction r as [|z r IH]; intro a; cbn [fold_left].
  - split; [apply Qle_refl | intros y []].
  - destruct (IH (Qmin a z)) as [H1 H2]. split.
    + eapply Qle_trans; [exact H1 | apply Q.le_min_l].
    + intros y [<-|Hy]; [eapply Qle_trans; [exact H1 | apply Q.le_min_r] | now apply H2].
Qed.
Lemma fold_max_ge : forall r a, a <= fold_left Qmax r a /\ (forall y, In y r -> y <= fold_left Qmax r a).
Proof.
  induction r as [|z r IH]; intro a; cbn [fold_left].
  - split; [apply Qle_refl | intros y []].
  - destruct (IH (Qmax a z)) as [H1 H2]. split.
    + eapply Qle_trans; [apply Q.le_max_l | exact H1].
    + intros y [<-|Hy]; [eapply Qle_trans; [apply Q.le_max_r | exact H1] | now apply H2].
Qed.

Theorem qmin_list_le : forall l x, In x l -> qmin_list l <= x.
Proof.
  intros [|a r] x Hx; [destruct Hx|]. unfold qmin_list. destruct (fold_min_le r a) as [H1 H2].
  destruct Hx as [<-|Hx]; [exact H1 | now apply H2].
Qed.
Theorem qmax_list_ge : forall l x, In x l -> x <= qmax_list l.
Proof.
  intros [|a r] x Hx; [destruct Hx|]. unfold qmax_list. destruct (fold_max_ge r a) as [H1 H2].
  destruct Hx as [<-|Hx]; [exact H1 | now apply H2].
Qed.

(* every standardised point is in [0, 1] *)
Theorem norm_dense_range : forall xs, qmin_list xs < qmax_list xs ->
  Forall (fun v => 0 <= v /\ v <= 1) (norm_dense xs).
Proof.
  intros xs Hlt. unfold norm_dense. apply Forall_forall. intros v Hv.
  apply in_map_iff in Hv. destruct Hv as (x & <- & Hx).
  pose proof (qmin_list_le xs x Hx) as Hlo. pose proof (qmax_list_ge xs x Hx) as Hhi.
  set (mn := qmin_list xs) in *. set (mx := qmax_list xs) in *.
  assert (Hd : 0 < mx - mn) by lra.
  rewrite Qred_correct. split.
  - apply Qle_shift_div_l; [exact Hd | lra].
  - apply Qle_shift_div_r; [exact Hd | lra].
Qed.

(* irregular data: every standardised point of every observation lies in [0, 1] when the object's range is not a point *)
Theorem norm_irr_range : forall obs, gmin obs < gmax obs ->
  Forall (Forall (fun v => 0 <= v /\ v <= 1)) (norm_irr obs).
Proof.
  intros obs Hlt. unfold norm_irr. apply Forall_forall. intros ys Hys.
  apply in_map_iff in Hys. destruct Hys as (xs & <- & Hxs).
  unfold norm_with. destruct (Qeq_bool (gmin obs) (gmax obs)) eqn:E.
  - apply Qeq_bool_iff in E. lra.
  - apply Forall_forall. intros v Hv. apply in_map_iff in Hv. destruct Hv as (x & <- & Hx).
    assert (Hin : In x (concat obs)) by (apply in_concat; exists xs; split; assumption).
    pose proof (qmin_list_le _ x Hin) as Hlo. pose proof (qmax_list_ge _ x Hin) as Hhi.
    unfold gmin, gmax in *. set (mn := qmin_list (concat obs)) in *. set (mx := qmax_list (concat obs)) in *.
    assert (Hd : 0 < mx - mn) by lra.
    rewrite Qred_correct. split.
    + apply Qle_shift_div_l; [exact Hd | lra].
    + apply Qle_shift_div_r; [exact Hd | lra].
Qed.
