(* Lemmas/Vec.v — linear-algebra facts about Base/Vec.v at the real instance. *)
From Coq Require Import List Bool Reals Lra Lia.
From FDAV Require Import Base.Num Base.Vec.
Import ListNotations.
Local Open Scope R_scope.

Notation vsumR := (vsum opsR).
Notation dotR := (dot opsR).
Notation wdotR := (wdot opsR).
Notation vaddR := (vadd opsR).
Notation vsubR := (vsub opsR).
Notation vmulR := (vmul opsR).
Notation vscaleR := (vscale opsR).
Notation mvR := (mv opsR).
Notation mtvR := (mtv opsR).
Notation zerosR := (zeros opsR).

Lemma ohalfR a : ohalf opsR a = a / 2.
Proof. unfold ohalf, o2. cbn. rewrite Rdiv0_nz by lra. reflexivity. Qed.
Lemma osubR a b : osub opsR a b = a - b.
Proof. reflexivity. Qed.

(* ---------- map2 / lengths ---------- *)
Lemma map2_length {A B C} (f : A -> B -> C) x : forall y, length (map2 f x y) = Nat.min (length x) (length y).
Proof. induction x as [|a x IH]; intros [|b y]; simpl; auto. Qed.
Lemma vadd_length x y : length (vaddR x y) = Nat.min (length x) (length y).
Proof. apply map2_length. Qed.
Lemma vmul_length x y : length (vmulR x y) = Nat.min (length x) (length y).
Proof. apply map2_length. Qed.
Lemma vscale_length c x : length (vscaleR c x) = length x.
Proof. apply map_length. Qed.
Lemma zeros_length n : length (zerosR n) = n.
Proof. apply repeat_length. Qed.

(* ---------- dot ---------- *)
Lemma dot_nil_l y : dotR [] y = 0.
Proof. reflexivity. Qed.
Lemma dot_nil_r x : dotR x [] = 0.
Proof. destruct x; reflexivity. Qed.
Lemma dot_cons a x b y : dotR (a :: x) (b :: y) = a * b + dotR x y.
Proof. reflexivity. Qed.

Lemma dot_comm x : forall y, dotR x y = dotR y x.
Proof.
  induction x as [|a x IH]; intros [|b y]; try reflexivity.
  rewrite !dot_cons, IH. lra.
Qed.

Lemma dot_vscale_l c x : forall y, dotR (vscaleR c x) y = c * dotR x y.
Proof.
  induction x as [|a x IH]; intros [|b y]; simpl; try (cbn; lra).
  change (dotR (c * a :: vscaleR c x) (b :: y) = c * dotR (a :: x) (b :: y)).
  rewrite !dot_cons, IH. lra.
Qed.
Lemma dot_vscale_r c x y : dotR x (vscaleR c y) = c * dotR x y.
Proof. rewrite dot_comm, dot_vscale_l, dot_comm. reflexivity. Qed.

Lemma dot_vadd_l u : forall v x, length u = length v ->
  dotR (vaddR u v) x = dotR u x + dotR v x.
Proof.
  induction u as [|a u IH]; intros [|b v] [|c x] H; simpl in H; try discriminate; try (cbn; lra).
  change (dotR (a + b :: vaddR u v) (c :: x) = dotR (a :: u) (c :: x) + dotR (b :: v) (c :: x)).
  rewrite !dot_cons, IH by lia. lra.
Qed.
Lemma dot_vadd_r x u v : length u = length v -> dotR x (vaddR u v) = dotR x u + dotR x v.
Proof. intros H. rewrite dot_comm, dot_vadd_l, (dot_comm u), (dot_comm v) by exact H. reflexivity. Qed.

Lemma dot_zeros_l n x : dotR (zerosR n) x = 0.
Proof.
  revert x; induction n as [|n IH]; intros [|b x]; try reflexivity.
  change (dotR (0 :: zerosR n) (b :: x) = 0). rewrite dot_cons, IH. lra.
Qed.

Lemma dot_self_nonneg x : 0 <= dotR x x.
Proof. induction x as [|a x IH]; [cbn; lra|]. rewrite dot_cons. nra. Qed.

Lemma dot_self_zero x : dotR x x = 0 -> Forall (fun a => a = 0) x.
Proof.
  induction x as [|a x IH]; intros H; constructor; rewrite dot_cons in H;
    pose proof (dot_self_nonneg x); [nra|apply IH; nra].
Qed.

(* dot x (w*y) = dot (w*x) y *)
Lemma dot_vmul_shift w : forall x y, dotR x (vmulR w y) = dotR (vmulR w x) y.
Proof.
  induction w as [|c w IH]; intros [|a x] [|b y]; try reflexivity.
  change (dotR (a :: x) (c * b :: vmulR w y) = dotR (c * a :: vmulR w x) (b :: y)).
  rewrite !dot_cons, IH. lra.
Qed.

Lemma wdot_cons c w a x b y : wdotR (c :: w) (a :: x) (b :: y) = c * (a * b) + wdotR w x y.
Proof. reflexivity. Qed.
Lemma wdot_comm w x y : wdotR w x y = wdotR w y x.
Proof.
  revert x y; induction w as [|c w IH]; intros [|a x] [|b y]; try reflexivity.
  rewrite !wdot_cons, IH. lra.
Qed.
Lemma wdot_self_nonneg w x : Forall (fun c => 0 <= c) w -> 0 <= wdotR w x x.
Proof.
  intros H; revert x; induction H as [|c w Hc _ IH]; intros [|a x]; try (cbn; lra).
  rewrite wdot_cons. specialize (IH x). nra.
Qed.

(* ---------- adjoint identity ---------- *)
Lemma mtv_length n A : forall y, Forall (fun r => length r = n) A -> length (mtvR n A y) = n.
Proof.
  induction A as [|r A IH]; intros [|b y] H; simpl; try apply zeros_length.
  inversion H; subst. unfold mtv. simpl. fold (mtvR (length r) A y).
  rewrite vadd_length, vscale_length, IH by assumption. lia.
Qed.

Lemma mtv_adjoint n A : forall y x, Forall (fun r => length r = n) A ->
  dotR (mtvR n A y) x = dotR y (mvR A x).
Proof.
  induction A as [|r A IH]; intros [|b y] x H; unfold mtv; simpl;
    try (rewrite dot_zeros_l; reflexivity).
  inversion H; subst. fold (mtvR (length r) A y).
  rewrite dot_vadd_l by (rewrite vscale_length, mtv_length by assumption; reflexivity).
  rewrite dot_vscale_l, IH by assumption.
  change (mvR (r :: A) x) with (dotR r x :: mvR A x). rewrite dot_cons. lra.
Qed.

(* ---------- weighted Cauchy–Schwarz ---------- *)
Lemma quad_disc a b c : 0 <= a -> (forall t, 0 <= a * t * t + 2 * b * t + c) -> b * b <= a * c.
Proof.
  intros Ha H. destruct (Req_dec a 0) as [E|E].
  - subst a. destruct (Req_dec b 0) as [Eb|Eb]; [subst; lra|].
    exfalso. specialize (H (- (c + 1) / (2 * b))).
    replace (0 * (- (c + 1) / (2 * b)) * (- (c + 1) / (2 * b)) + 2 * b * (- (c + 1) / (2 * b)) + c)
      with (-1) in H by (field; exact Eb). lra.
  - assert (0 < a) by lra. specialize (H (- b / a)).
    replace (a * (- b / a) * (- b / a) + 2 * b * (- b / a) + c) with ((a * c - b * b) / a) in H
      by (field; lra).
    apply Rmult_le_compat_r with (r := a) in H; [|lra].
    unfold Rdiv in H. rewrite Rmult_assoc, Rinv_l in H by lra. lra.
Qed.

Lemma wdot_quadratic w : Forall (fun c => 0 <= c) w -> forall x y t,
  0 <= wdotR w y y * t * t + 2 * wdotR w x y * t + wdotR w x x.
Proof.
  induction 1 as [|c w Hc Hw IH]; intros x y t.
  - cbn. lra.
  - destruct x as [|a x], y as [|b y].
    + cbn. lra.
    + replace (wdotR (c :: w) [] (b :: y)) with 0 by reflexivity.
      replace (wdotR (c :: w) [] []) with 0 by reflexivity.
      pose proof (wdot_self_nonneg (c :: w) (b :: y) (Forall_cons _ Hc Hw)). nra.
    + replace (wdotR (c :: w) (a :: x) []) with 0 by reflexivity.
      replace (wdotR (c :: w) [] []) with 0 by reflexivity.
      pose proof (wdot_self_nonneg (c :: w) (a :: x) (Forall_cons _ Hc Hw)). nra.
    + rewrite !wdot_cons. specialize (IH x y t).
      assert (Hs : 0 <= c * ((a + t * b) * (a + t * b))) by (apply Rmult_le_pos; [lra|apply Rle_0_sqr]).
      replace ((c * (b * b) + wdotR w y y) * t * t + 2 * (c * (a * b) + wdotR w x y) * t +
               (c * (a * a) + wdotR w x x))
        with ((wdotR w y y * t * t + 2 * wdotR w x y * t + wdotR w x x) +
              c * ((a + t * b) * (a + t * b))) by ring.
      lra.
Qed.

Theorem wdot_cauchy_schwarz w x y : Forall (fun c => 0 <= c) w ->
  wdotR w x y * wdotR w x y <= wdotR w x x * wdotR w y y.
Proof.
  intros H. rewrite (Rmult_comm (wdotR w x x)).
  apply quad_disc; [apply wdot_self_nonneg; exact H|].
  intros t. apply wdot_quadratic. exact H.
Qed.

(* triangle inequality from Cauchy–Schwarz with root oracles *)
Lemma triangle_from_cs (nx ny nxy ixy a b c : R) :
  ixy * ixy <= nx * ny -> nxy = nx + 2 * ixy + ny ->
  0 <= a -> 0 <= b -> 0 <= c -> a * a = nx -> b * b = ny -> c * c = nxy -> c <= a + b.
Proof.
  intros Hcs Hxy Ha Hb Hc Ea Eb Ec.
  pose proof (Rmult_le_pos a b Ha Hb) as Hab.
  assert (Hi : ixy <= a * b).
  { destruct (Rle_dec ixy (a * b)) as [|n]; [assumption|]. apply Rnot_le_lt in n. exfalso.
    assert (H1 : (a * b) * (a * b) < ixy * ixy).
    { apply Rle_lt_trans with (a * b * ixy).
      - apply Rmult_le_compat_l; lra.
      - apply Rmult_lt_compat_r; lra. }
    replace (a * b * (a * b)) with ((a * a) * (b * b)) in H1 by ring.
    rewrite Ea, Eb in H1. lra. }
  assert (Hcc : c * c <= (a + b) * (a + b)).
  { rewrite Ec, Hxy. replace ((a + b) * (a + b)) with (a * a + 2 * (a * b) + b * b) by ring.
    rewrite Ea, Eb. lra. }
  destruct (Rle_dec c (a + b)) as [|n]; [assumption|]. apply Rnot_le_lt in n. exfalso.
  assert ((a + b) * (a + b) < c * c).
  { apply Rle_lt_trans with ((a + b) * c).
    - apply Rmult_le_compat_l; lra.
    - apply Rmult_lt_compat_r; lra. }
  lra.
Qed.
