(* Lemmas/Greville.v — Cox-de Boor B-splines of degree p on ANY strictly increasing knots reproduce the
   identity function with the Greville coefficients: sum_j (t_{j+1} + ... + t_{j+p}) B_{j,p}(x) = p x.
   (Together with the partition of unity this is the degree <= 1 part of Marsden's identity.) *)
From Coq Require Import Reals Lra Lia List Bool Arith.
From FDAV Require Import Base.Num Base.Vec Model.Basis Lemmas.Vec Lemmas.Basis.
Local Open Scope R_scope.

Section Greville.
  Variable t : nat -> R.
  Hypothesis t_inc : forall i, t i < t (S i).

  (* t_{j+1} + ... + t_{j+p} *)
  Fixpoint tsum (j p : nat) : R := match p with O => 0 | S p' => tsum j p' + t (j + S p') end.

  Lemma tsum_head j p : tsum j (S p) = t (S j) + tsum (S j) p.
  Proof.
    induction p as [|p IH].
    - cbn [tsum]. replace (j + 1)%nat with (S j) by lia. lra.
    - change (tsum j (S (S p))) with (tsum j (S p) + t (j + S (S p))). rewrite IH.
      change (tsum (S j) (S p)) with (tsum (S j) p + t (S j + S p)).
      replace (S j + S p)%nat with (j + S (S p))%nat by lia. lra.
  Qed.
  Lemma tsum_shift j p : tsum (S j) (S p) - tsum j (S p) = t (S j + S p) - t (S j).
  Proof. rewrite (tsum_head j p). change (tsum (S j) (S p)) with (tsum (S j) p + t (S j + S p)). lra. Qed.

  (* the coefficient of B_{p, j+1} after one step of the recursion *)
  Lemma mid p j x : tsum (S j) (S p) * om t p (S j) x + tsum j (S p) * cf t p j x = tsum (S j) p + x.
  Proof.
    pose proof (cf_om t t_inc p j x) as E.
    replace (cf t p j x) with (1 - om t p (S j) x) by lra.
    replace (tsum (S j) (S p) * om t p (S j) x + tsum j (S p) * (1 - om t p (S j) x))
      with (tsum j (S p) + om t p (S j) x * (tsum (S j) (S p) - tsum j (S p))) by ring.
    rewrite tsum_shift, (tsum_head j p). unfold om.
    pose proof (t_smono t t_inc (S j) (S j + S p) ltac:(lia)). field. lra.
  Qed.

  Fixpoint G_ (p lo n : nat) (x : R) : R :=   (* sum_{j=lo}^{lo+n-1} tsum j p * B p j x *)
    match n with O => 0 | S n' => tsum lo p * B t p lo x + G_ p (S lo) n' x end.

  Lemma G_last p : forall n lo x, G_ p lo (S n) x = G_ p lo n x + tsum (lo + n) p * B t p (lo + n) x.
  Proof.
    induction n as [|n IH]; intros lo x.
    - simpl. replace (lo + 0)%nat with lo by lia. lra.
    - change (G_ p lo (S (S n)) x) with (tsum lo p * B t p lo x + G_ p (S lo) (S n) x).
      rewrite IH. change (G_ p lo (S n) x) with (tsum lo p * B t p lo x + G_ p (S lo) n x).
      replace (S lo + n)%nat with (lo + S n)%nat by lia. lra.
  Qed.

  Lemma G_step p : forall n lo x,
    G_ (S p) lo (S n) x =
      tsum lo (S p) * (om t p lo x * B t p lo x) + (G_ p (S lo) n x + x * S_ t p (S lo) n x)
      + tsum (lo + n) (S p) * (cf t p (lo + n) x * B t p (S (lo + n)) x).
  Proof.
    induction n as [|n IH]; intros lo x.
    - change (G_ (S p) lo 1 x) with (tsum lo (S p) * B t (S p) lo x + 0). rewrite (B_S t).
      change (G_ p (S lo) 0 x) with 0. change (S_ t p (S lo) 0 x) with 0.
      replace (lo + 0)%nat with lo by lia. lra.
    - rewrite G_last, IH, (B_S t), (G_last p n (S lo)), (S_last t p n (S lo)).
      replace (S lo + n)%nat with (S (lo + n)) by lia.
      replace (lo + S n)%nat with (S (lo + n)) by lia.
      pose proof (mid p (lo + n) x) as M. nra.
  Qed.

  (* Greville: on [t_{lo+p}, t_{lo+n}) the B-splines of degree p with coefficients t_{j+1}+...+t_{j+p} give p x *)
  Theorem greville p : forall n lo x,
    t (lo + p) <= x < t (lo + n) -> (p < n)%nat -> G_ p lo n x = INR p * x.
  Proof.
    induction p as [|p IH]; intros n lo x [H1 H2] Hn.
    - assert (Z : forall m l, G_ 0 l m x = 0).
      { induction m as [|m IHm]; intros l; [reflexivity|]. cbn [G_ tsum]. rewrite IHm. lra. }
      rewrite Z. cbn [INR]. lra.
    - destruct n as [|n]; [lia|]. rewrite G_step.
      rewrite (B_support t t_inc p lo x) by (right; replace (lo + p + 1)%nat with (lo + S p)%nat by lia; lra).
      rewrite (B_support t t_inc p (S (lo + n)) x) by (left; replace (S (lo + n)) with (lo + S n)%nat by lia; lra).
      assert (R1 : t (S lo + p) <= x < t (S lo + n)).
      { split; [replace (S lo + p)%nat with (lo + S p)%nat by lia; lra|].
        replace (S lo + n)%nat with (lo + S n)%nat by lia. lra. }
      rewrite IH by (try exact R1; lia).
      rewrite (partition_of_unity t t_inc p n (S lo) x R1) by lia.
      rewrite S_INR. lra.
  Qed.

  (* ... and on the closed interval (degree >= 1), as for the partition of unity *)
  Theorem greville_closed p n lo x :
    t (lo + S p) <= x <= t (lo + n) -> (S p < n)%nat -> G_ (S p) lo n x = INR (S p) * x.
  Proof.
    intros [H1 H2] Hn. destruct (Rlt_dec x (t (lo + n))) as [Hx|Hx].
    - apply greville; [lra|lia].
    - assert (x = t (lo + n)) by lra. subst x.
      pose proof (greville (S p) (S n) lo (t (lo + n))) as P.
      rewrite G_last, (B_left_knot t t_inc) in P. rewrite <- P; [lra| |lia].
      split; [lra|]. replace (lo + S n)%nat with (S (lo + n)) by lia. apply t_inc.
  Qed.
End Greville.

(* ---------- the code's basis: equally spaced extended knots on [a, b] ---------- *)
Section CodeGreville.
  Variables (a b : R) (nseg p : nat).
  Hypothesis Hab : a < b.
  Hypothesis Hseg : (0 < nseg)%nat.
  Let dx := (b - a) / INR nseg.
  Let t := knot opsR a dx p.

  Lemma dxp : 0 < dx.
  Proof. unfold dx. apply Rmult_lt_0_compat; [lra|]. apply Rinv_0_lt_compat. apply lt_0_INR. exact Hseg. Qed.

  Lemma G_as_vsum : forall n lo x,
    vsum opsR (map (fun j => tsum t j p * bspl opsR p t j x) (seq lo n)) = G_ t p lo n x.
  Proof.
    induction n as [|n IH]; intros lo x; [reflexivity|].
    cbn [seq map]. change (vsum opsR (?h :: ?l)) with (h + vsum opsR l).
    rewrite IH, (bspl_model t (knot_inc a dx p dxp)). reflexivity.
  Qed.

  (* sum_j (t_{j+1} + ... + t_{j+p}) B_j(x) = p x  for every x of the closed domain *)
  Theorem code_bs_greville x : (1 <= p)%nat -> a <= x <= b ->
    vsum opsR (map (fun j => tsum t j p * bspl opsR p t j x) (seq 0 (nseg + p))) = INR p * x.
  Proof.
    intros Hp [H1 H2]. rewrite G_as_vsum.
    destruct p as [|p'] eqn:Ep; [lia|].
    apply (greville_closed t (knot_inc a dx (S p') dxp)); [|lia].
    cbn [Nat.add]. unfold t, dx. rewrite knot_at_p.
    rewrite knot_at_end by exact Hseg. lra.
  Qed.
End CodeGreville.
