(* Lemmas/Pspline.v — consequences of the penalised weighted least-squares normal equations (C05), at R.
   All statements are conditional on the normal equations [Aop beta = rhs], never on an algorithm. *)
From Coq Require Import List Bool Reals Lra Lia Arith.
From FDAV Require Import Base.Num Base.Vec Model.Basis Model.Pspline
  Lemmas.Vec Lemmas.Gram Lemmas.Stats Lemmas.Ufpca Lemmas.Scores.
Import ListNotations.
Local Open Scope R_scope.

Notation AopR := (Aop opsR).
Notation rhsR := (rhs opsR).
Notation penR := (pen_apply opsR).

Definition wfB (nb : nat) (B : list (list R)) : Prop := Forall (fun r => length r = nb) B.
Definition wfP (nb : nat) (pens : list (R * list (list R))) : Prop :=
  Forall (fun lD => wfB nb (snd lD)) pens.
Fixpoint pen_form (pens : list (R * list (list R))) (c e : list R) : R :=
  match pens with
  | [] => 0
  | (l, D) :: ps => l * dotR (mvR D c) (mvR D e) + pen_form ps c e
  end.

Lemma pen_cons nb l D ps c :
  penR nb ((l, D) :: ps) c = vaddR (vscaleR l (mtvR nb D (mvR D c))) (penR nb ps c).
Proof. reflexivity. Qed.
Lemma pen_nil nb c : penR nb [] c = zerosR nb.
Proof. reflexivity. Qed.

Lemma pen_length nb pens c : wfP nb pens -> length (penR nb pens c) = nb.
Proof.
  induction 1 as [|[l D] ps HD _ IH]; [apply zeros_length|].
  rewrite pen_cons, vadd_length, vscale_length, mtv_length by exact HD. rewrite IH. lia.
Qed.

(* the bilinear form of the normal-equation operator *)
Lemma pen_bilinear nb pens c e : wfP nb pens -> length e = nb ->
  dotR e (penR nb pens c) = pen_form pens c e.
Proof.
  intros H He. induction H as [|[l D] ps HD Hps IH]; [rewrite pen_nil, dot_comm, dot_zeros_l; reflexivity|].
  rewrite pen_cons. cbn [pen_form].
  rewrite dot_vadd_r by (rewrite vscale_length, mtv_length, pen_length by assumption; reflexivity).
  rewrite dot_vscale_r, dot_comm, (mtv_adjoint nb D _ e HD), IH. reflexivity.
Qed.

Theorem Aop_bilinear nb B w pens c e : wfB nb B -> wfP nb pens -> length e = nb ->
  dotR e (AopR nb B w pens c) = wdotR w (mvR B c) (mvR B e) + pen_form pens c e.
Proof.
  intros HB HP He. unfold Aop.
  rewrite dot_vadd_r by (rewrite mtv_length, pen_length by assumption; reflexivity).
  rewrite pen_bilinear by assumption.
  rewrite dot_comm, (mtv_adjoint nb B _ e HB). unfold wdot. rewrite dot_vmul_assoc. reflexivity.
Qed.

(* quadratic form: c . A c = sum_k w_k (b_k . c)^2 + sum lambda |D c|^2 *)
Theorem quad_form nb B w pens c : wfB nb B -> wfP nb pens -> length c = nb ->
  dotR c (AopR nb B w pens c) = wdotR w (mvR B c) (mvR B c) + pen_form pens c c.
Proof. intros. apply Aop_bilinear; assumption. Qed.

Lemma pen_form_nonneg pens c : Forall (fun lD => 0 <= fst lD) pens -> 0 <= pen_form pens c c.
Proof.
  induction 1 as [|[l D] ps Hl _ IH]; simpl; [lra|]. simpl in Hl.
  pose proof (dot_self_nonneg (mvR D c)). nra.
Qed.

Theorem quad_form_nonneg nb B w pens c : wfB nb B -> wfP nb pens -> length c = nb ->
  Forall (fun v => 0 <= v) w -> Forall (fun lD => 0 <= fst lD) pens ->
  0 <= dotR c (AopR nb B w pens c).
Proof.
  intros HB HP Hc Hw Hl. rewrite quad_form by assumption.
  pose proof (wdot_self_nonneg w (mvR B c) Hw). pose proof (pen_form_nonneg pens c Hl). lra.
Qed.

(* ---------- uniqueness of the fitted values ---------- *)
Lemma dot_vsub_l u : forall v x, length u = length v -> dotR (vsubR u v) x = dotR u x - dotR v x.
Proof.
  induction u as [|a u IH]; intros [|b v] [|c x] H; simpl in H; try discriminate; try (cbn; lra).
  change (dotR (a - b :: vsubR u v) (c :: x) = dotR (a :: u) (c :: x) - dotR (b :: v) (c :: x)).
  rewrite !dot_cons, IH by lia. lra.
Qed.
Lemma mv_vsub A a b : length a = length b -> mvR A (vsubR a b) = vsubR (mvR A a) (mvR A b).
Proof.
  intros H. induction A as [|r A IH]; [reflexivity|].
  change (mvR (r :: A) (vsubR a b)) with (dotR r (vsubR a b) :: mvR A (vsubR a b)).
  rewrite IH, dot_comm, dot_vsub_l, !(dot_comm _ r) by exact H. reflexivity.
Qed.
Lemma wdot_vsub_l w : forall t t' s, length t = length t' ->
  wdotR w (vsubR t t') s = wdotR w t s - wdotR w t' s.
Proof.
  induction w as [|c w IH]; intros [|a t] [|b t'] [|d s] H; simpl in H; try discriminate; try (cbn; lra).
  change (vsubR (a :: t) (b :: t')) with (a - b :: vsubR t t').
  rewrite !wdot_cons, IH by lia. lra.
Qed.
Lemma vsub_length u v : length (vsubR u v) = Nat.min (length u) (length v).
Proof. apply map2_length. Qed.

Lemma pen_form_sub pens c c' e : length c = length c' ->
  pen_form pens (vsubR c c') e = pen_form pens c e - pen_form pens c' e.
Proof.
  intros H. induction pens as [|[l D] ps IH]; simpl; [lra|].
  rewrite mv_vsub by exact H. rewrite dot_vsub_l by (rewrite !mv_length; reflexivity). rewrite IH. lra.
Qed.

Lemma wdot_zero_pos w : Forall (fun v => 0 <= v) w -> forall t k, wdotR w t t = 0 ->
  (k < length t)%nat -> (k < length w)%nat -> 0 < nth k w 0 -> nth k t 0 = 0.
Proof.
  induction 1 as [|c w Hc Hw IH]; intros [|a t] k E Hk Hkw Hpos; simpl in Hk, Hkw; try lia.
  rewrite wdot_cons in E. pose proof (wdot_self_nonneg w t Hw) as Hn.
  assert (Hsq : 0 <= c * (a * a)) by (apply Rmult_le_pos; [lra|nra]).
  destruct k as [|k]; simpl in *.
  - assert (c * (a * a) = 0) by lra. assert (a * a = 0) by nra. nra.
  - apply IH; try lia; try assumption. lra.
Qed.

(* two solutions of the normal equations have the same fitted value wherever the weight is positive *)
Theorem fitted_unique nb B w pens beta beta' k : wfB nb B -> wfP nb pens ->
  length beta = nb -> length beta' = nb ->
  Forall (fun v => 0 <= v) w -> Forall (fun lD => 0 <= fst lD) pens ->
  AopR nb B w pens beta = AopR nb B w pens beta' ->
  (k < length B)%nat -> (k < length w)%nat -> 0 < nth k w 0 ->
  nth k (fitted opsR B beta) 0 = nth k (fitted opsR B beta') 0.
Proof.
  intros HB HP Hb Hb' Hw Hl E Hk Hkw Hpos.
  set (d := vsubR beta beta').
  assert (Hd : length d = nb) by (unfold d; rewrite vsub_length; lia).
  assert (Z : wdotR w (mvR B d) (mvR B d) + pen_form pens d d = 0).
  { assert (E1 := Aop_bilinear nb B w pens beta d HB HP Hd).
    assert (E2 := Aop_bilinear nb B w pens beta' d HB HP Hd).
    rewrite E in E1. rewrite E1 in E2.
    unfold d at 1 3. rewrite mv_vsub, wdot_vsub_l, pen_form_sub by (rewrite ?mv_length; congruence).
    fold d. lra. }
  pose proof (wdot_self_nonneg w (mvR B d) Hw) as N1. pose proof (pen_form_nonneg pens d Hl) as N2.
  assert (Z1 : wdotR w (mvR B d) (mvR B d) = 0) by lra.
  pose proof (wdot_zero_pos w Hw (mvR B d) k Z1) as P.
  rewrite mv_length in P. specialize (P Hk Hkw Hpos).
  unfold d in P. rewrite mv_vsub in P by congruence.
  unfold vsub in P. rewrite (nth_map2 _ _ _ k 0 0 0) in P by (rewrite mv_length; exact Hk).
  unfold fitted. cbn in P. lra.
Qed.

(* ... and the same coefficients when the quadratic form is definite *)
Theorem coef_unique nb B w pens beta beta' : wfB nb B -> wfP nb pens ->
  length beta = nb -> length beta' = nb ->
  (forall c, length c = nb -> dotR c (AopR nb B w pens c) = 0 -> c = zerosR nb) ->
  AopR nb B w pens beta = AopR nb B w pens beta' -> vsubR beta beta' = zerosR nb.
Proof.
  intros HB HP Hb Hb' Hdef E. set (d := vsubR beta beta').
  assert (Hd : length d = nb) by (unfold d; rewrite vsub_length; lia).
  apply Hdef; [exact Hd|]. rewrite quad_form by assumption.
  assert (E1 := Aop_bilinear nb B w pens beta d HB HP Hd).
  assert (E2 := Aop_bilinear nb B w pens beta' d HB HP Hd).
  rewrite E in E1. rewrite E1 in E2.
  unfold d at 1 3. rewrite mv_vsub, wdot_vsub_l, pen_form_sub by (rewrite ?mv_length; congruence).
  fold d. lra.
Qed.

(* ---------- linearity in the responses ---------- *)
Lemma vmul_lin w : forall u u' a b,
  vmulR w (vaddR (vscaleR a u) (vscaleR b u')) = vaddR (vscaleR a (vmulR w u)) (vscaleR b (vmulR w u')).
Proof.
  induction w as [|c w IH]; intros [|x u] [|y u'] a b; try reflexivity.
  change (vmulR (c :: w) (vaddR (vscaleR a (x :: u)) (vscaleR b (y :: u'))))
    with (c * (a * x + b * y) :: vmulR w (vaddR (vscaleR a u) (vscaleR b u'))).
  change (vaddR (vscaleR a (vmulR (c :: w) (x :: u))) (vscaleR b (vmulR (c :: w) (y :: u'))))
    with (a * (c * x) + b * (c * y) :: vaddR (vscaleR a (vmulR w u)) (vscaleR b (vmulR w u'))).
  rewrite IH. f_equal. lra.
Qed.
Lemma mv_lin A a b c c' : length c = length c' ->
  mvR A (vaddR (vscaleR a c) (vscaleR b c')) = vaddR (vscaleR a (mvR A c)) (vscaleR b (mvR A c')).
Proof. intros H. rewrite mv_vadd, !mv_vscale by (rewrite !vscale_length; exact H). reflexivity. Qed.

Lemma vadd_lin4 a b (X X' P P' : list R) n : length X = n -> length X' = n -> length P = n -> length P' = n ->
  vaddR (vaddR (vscaleR a X) (vscaleR b X')) (vaddR (vscaleR a P) (vscaleR b P')) =
  vaddR (vscaleR a (vaddR X P)) (vscaleR b (vaddR X' P')).
Proof.
  intros H1 H2 H3 H4. apply list_eq_nth.
  - rewrite !vadd_length, !vscale_length, !vadd_length. lia.
  - intros j Hj. rewrite !vadd_length, !vscale_length in Hj.
    rewrite !nth_vadd by (rewrite ?vadd_length, ?vscale_length, ?vadd_length; lia).
    rewrite !nth_vscale by (rewrite ?vadd_length; lia).
    rewrite !nth_vadd by lia. lra.
Qed.

Lemma pen_lin nb pens a b c c' : wfP nb pens -> length c = length c' ->
  penR nb pens (vaddR (vscaleR a c) (vscaleR b c')) =
  vaddR (vscaleR a (penR nb pens c)) (vscaleR b (penR nb pens c')).
Proof.
  intros H HL. induction H as [|[l D] ps HD Hps IH].
  - rewrite !pen_nil. apply list_eq_nth; [rewrite vadd_length, !vscale_length, zeros_length; lia|].
    intros j Hj. rewrite zeros_length in Hj.
    rewrite nth_vadd, !nth_vscale, !nth_zeros by (rewrite ?vscale_length, ?zeros_length; exact Hj). lra.
  - unfold wfB in HD; simpl in HD. rewrite !pen_cons. rewrite IH, mv_lin by exact HL.
    rewrite (recon_linear nb D a b) by (auto; rewrite !mv_length; reflexivity).
    rewrite <- (vadd_lin4 a b _ _ _ _ nb) by (rewrite ?vscale_length, ?mtv_length, ?pen_length by assumption; reflexivity).
    f_equal. apply list_eq_nth.
    + repeat (rewrite ?vadd_length, ?vscale_length); rewrite ?mtv_length by exact HD. lia.
    + intros j Hj. repeat (rewrite ?vadd_length, ?vscale_length in Hj); rewrite ?mtv_length in Hj by exact HD.
      assert (Lc : length (mtvR nb D (mvR D c)) = nb) by (apply mtv_length; exact HD).
      assert (Lc' : length (mtvR nb D (mvR D c')) = nb) by (apply mtv_length; exact HD).
      rewrite nth_vscale by (rewrite vadd_length, !vscale_length; lia).
      rewrite !nth_vadd by (rewrite ?vscale_length; lia).
      rewrite !nth_vscale by (rewrite ?vscale_length; lia). lra.
Qed.

Theorem Aop_linear nb B w pens a b c c' : wfB nb B -> wfP nb pens -> length c = length c' ->
  AopR nb B w pens (vaddR (vscaleR a c) (vscaleR b c')) =
  vaddR (vscaleR a (AopR nb B w pens c)) (vscaleR b (AopR nb B w pens c')).
Proof.
  intros HB HP HL. unfold Aop. rewrite pen_lin, mv_lin, vmul_lin by assumption.
  rewrite (recon_linear nb B a b) by (auto; rewrite !vmul_length, !mv_length; reflexivity).
  apply (vadd_lin4 a b _ _ _ _ nb); rewrite ?mtv_length, ?pen_length by assumption; reflexivity.
Qed.

Theorem rhs_linear nb B w a b y y' : wfB nb B -> length y = length y' ->
  rhsR nb B w (vaddR (vscaleR a y) (vscaleR b y')) =
  vaddR (vscaleR a (rhsR nb B w y)) (vscaleR b (rhsR nb B w y')).
Proof.
  intros HB HL. unfold rhs. rewrite vmul_lin.
  apply (recon_linear nb B a b); [exact HB|]. rewrite !vmul_length. lia.
Qed.

(* the smoother is linear in the responses: solutions combine linearly *)
Theorem fit_linear_in_y nb B w pens a b y y' beta beta' : wfB nb B -> wfP nb pens ->
  length y = length y' -> length beta = length beta' ->
  AopR nb B w pens beta = rhsR nb B w y -> AopR nb B w pens beta' = rhsR nb B w y' ->
  AopR nb B w pens (vaddR (vscaleR a beta) (vscaleR b beta')) =
  rhsR nb B w (vaddR (vscaleR a y) (vscaleR b y')).
Proof.
  intros HB HP Hy Hb E E'. rewrite Aop_linear, rhs_linear by assumption. rewrite E, E'. reflexivity.
Qed.

(* zero-weight observations are ignored: the right-hand side does not see their responses *)
Theorem zero_weight_ignored nb B w : forall y y',
  Forall2 (fun wy y'k => fst wy = 0 \/ snd wy = y'k) (combine w y) y' -> length y = length y' ->
  length w = length y -> rhsR nb B w y = rhsR nb B w y'.
Proof.
  intros y y' H HL Hw. unfold rhs. f_equal.
  revert y y' H HL Hw. induction w as [|c w IH]; intros [|a y] [|b y'] H HL Hw; simpl in *; try discriminate; try reflexivity.
  inversion H as [|? ? ? ? Hk Hr]; subst. simpl in Hk.
  change (vmulR (c :: w) (a :: y)) with (c * a :: vmulR w y).
  change (vmulR (c :: w) (b :: y')) with (c * b :: vmulR w y').
  rewrite (IH y y') by (auto; lia). f_equal. destruct Hk as [-> | ->]; lra.
Qed.

(* reproduces the penalty null space whatever the penalty: if y = B beta0 and D beta0 = 0 for every
   penalty matrix, beta0 solves the normal equations for EVERY lambda *)
Theorem reproduces_null_space nb B w pens beta0 : wfP nb pens ->
  Forall (fun lD => mvR (snd lD) beta0 = zerosR (length (snd lD))) pens ->
  AopR nb B w pens beta0 = vaddR (rhsR nb B w (fitted opsR B beta0)) (zerosR nb).
Proof.
  intros HP H0. unfold Aop, rhs, fitted. f_equal.
  induction H0 as [|[l D] ps HD _ IH]; [reflexivity|].
  inversion HP as [|? ? HDw HPs]; subst. simpl in HD, HDw.
  rewrite pen_cons. rewrite IH by exact HPs. rewrite HD.
  assert (Z : mtvR nb D (zerosR (length D)) = zerosR nb).
  { clear -HDw. induction HDw as [|r D Hr _ IH]; [reflexivity|].
    change (mtvR nb (r :: D) (zerosR (length (r :: D))))
      with (vaddR (vscaleR 0 r) (mtvR nb D (zerosR (length D)))).
    rewrite IH.
    apply list_eq_nth; [rewrite vadd_length, vscale_length, zeros_length; lia|].
    intros j Hj. rewrite vadd_length, vscale_length, zeros_length in Hj.
    rewrite nth_vadd, nth_vscale, nth_zeros by (rewrite ?vscale_length, ?zeros_length; lia). lra. }
  rewrite Z. apply list_eq_nth; [rewrite vadd_length, vscale_length, !zeros_length; lia|].
  intros j Hj. rewrite vadd_length, vscale_length, !zeros_length in Hj.
  rewrite nth_vadd, nth_vscale, !nth_zeros by (rewrite ?vscale_length, ?zeros_length; lia). lra.
Qed.

(* ---------- leverages lie in [0,1] ---------- *)
Lemma wdot_ge_term w : Forall (fun v => 0 <= v) w -> forall t i,
  (i < length t)%nat -> (i < length w)%nat -> nth i w 0 * (nth i t 0 * nth i t 0) <= wdotR w t t.
Proof.
  induction 1 as [|c w Hc Hw IH]; intros [|a t] i Hi Hiw; simpl in Hi, Hiw; try lia.
  rewrite wdot_cons. pose proof (wdot_self_nonneg w t Hw).
  destruct i as [|i]; simpl.
  - lra.
  - specialize (IH t i ltac:(lia) ltac:(lia)). assert (0 <= c * (a * a)) by (apply Rmult_le_pos; [lra|nra]). lra.
Qed.

Theorem leverage_in_unit_interval nb B w pens i z : wfB nb B -> wfP nb pens -> length z = nb ->
  Forall (fun v => 0 <= v) w -> Forall (fun lD => 0 <= fst lD) pens ->
  (i < length B)%nat -> (i < length w)%nat ->
  AopR nb B w pens z = nth i B [] ->
  0 <= leverage opsR (nth i w 0) (nth i B []) z <= 1.
Proof.
  intros HB HP Hz Hw Hl Hi Hiw E.
  set (q := dotR (nth i B []) z). set (wi := nth i w 0).
  assert (Hwi : 0 <= wi) by (unfold wi; rewrite Forall_forall in Hw; apply Hw; apply nth_In; exact Hiw).
  assert (Q : q = wdotR w (mvR B z) (mvR B z) + pen_form pens z z).
  { rewrite <- (quad_form nb B w pens z HB HP Hz), E, dot_comm. reflexivity. }
  assert (T : wi * (q * q) <= wdotR w (mvR B z) (mvR B z)).
  { pose proof (wdot_ge_term w Hw (mvR B z) i) as G. rewrite mv_length in G. specialize (G Hi Hiw).
    unfold mv in G. rewrite (nth_map_in _ B i 0 []) in G by exact Hi. exact G. }
  pose proof (pen_form_nonneg pens z Hl) as Pn.
  assert (Hq : wi * (q * q) <= q) by lra.
  assert (Hq0 : 0 <= q) by (assert (0 <= wi * (q * q)) by (apply Rmult_le_pos; [lra|nra]); lra).
  unfold leverage. cbn. fold q. fold wi. split; [apply Rmult_le_pos; assumption|].
  destruct (Rle_dec (wi * q) 1) as [|n]; [assumption|]. exfalso. apply Rnot_le_lt in n.
  assert (0 < q) by (destruct (Req_dec q 0) as [->|]; [lra|lra]).
  assert (q < wi * q * q) by (apply Rle_lt_trans with (1 * q); [lra|apply Rmult_lt_compat_r; lra]).
  lra.
Qed.

(* ---------- difference penalties annihilate polynomials of degree < order ---------- *)
Notation diff1R := (diff1 opsR).
Lemma diff1_map_seq (f : nat -> R) n s :
  diff1R (map f (seq s (S n))) = map (fun j => f (S j) - f j) (seq s n).
Proof.
  revert s; induction n as [|n IH]; intros s; [reflexivity|].
  specialize (IH (S s)).
  change (seq s (S (S n))) with (s :: seq (S s) (S n)).
  change (map f (s :: seq (S s) (S n))) with (f s :: map f (seq (S s) (S n))).
  unfold diff1 in *. cbn [tl].
  change (seq (S s) (S n)) with (S s :: seq (S (S s)) n) at 1.
  change (map f (S s :: seq (S (S s)) n)) with (f (S s) :: map f (seq (S (S s)) n)) at 1.
  change (map2 (osub opsR) (f (S s) :: map f (seq (S (S s)) n)) (f s :: map f (seq (S s) (S n))))
    with (f (S s) - f s :: map2 (osub opsR) (map f (seq (S (S s)) n)) (map f (seq (S s) (S n)))).
  change (seq s (S n)) with (s :: seq (S s) n). cbn [map]. f_equal.
  change (seq (S s) (S n)) with (S s :: seq (S (S s)) n) in IH. cbn [map tl] in IH. exact IH.
Qed.

Theorem diff_annihilates_const a n : diffn opsR 1 (map (fun _ => a) (seq 0 (S n))) = map (fun _ => 0) (seq 0 n).
Proof. cbn [diffn]. rewrite diff1_map_seq. apply map_ext. intros. lra. Qed.

Theorem diff_annihilates_affine a b n :
  diffn opsR 2 (map (fun j => a + b * INR j) (seq 0 (S (S n)))) = map (fun _ => 0) (seq 0 n).
Proof.
  cbn [diffn]. rewrite diff1_map_seq.
  rewrite (map_ext (fun j => a + b * INR (S j) - (a + b * INR j)) (fun _ => b)) by (intros j; rewrite S_INR; lra).
  rewrite diff1_map_seq. apply map_ext. intros. lra.
Qed.

Theorem diff_annihilates_quadratic a b c n :
  diffn opsR 3 (map (fun j => a + b * INR j + c * (INR j * INR j)) (seq 0 (S (S (S n))))) = map (fun _ => 0) (seq 0 n).
Proof.
  cbn [diffn]. rewrite diff1_map_seq.
  rewrite (map_ext _ (fun j => (b + c) + (2 * c) * INR j)) by (intros j; rewrite S_INR; lra).
  rewrite diff1_map_seq.
  rewrite (map_ext (fun j => b + c + 2 * c * INR (S j) - (b + c + 2 * c * INR j)) (fun _ => 2 * c)) by (intros j; rewrite S_INR; lra).
  rewrite diff1_map_seq. apply map_ext. intros. lra.
Qed.

Lemma vadd_zeros_r (x : list R) : vaddR x (zerosR (length x)) = x.
Proof.
  induction x as [|a x IH]; [reflexivity|].
  change (vaddR (a :: x) (zerosR (length (a :: x)))) with (a + 0 :: vaddR x (zerosR (length x))).
  rewrite IH. f_equal. lra.
Qed.
Corollary reproduces_null_space' nb B w pens beta0 : wfB nb B -> wfP nb pens ->
  Forall (fun lD => mvR (snd lD) beta0 = zerosR (length (snd lD))) pens ->
  AopR nb B w pens beta0 = rhsR nb B w (fitted opsR B beta0).
Proof.
  intros HB HP H0. rewrite reproduces_null_space by assumption.
  assert (L : length (rhsR nb B w (fitted opsR B beta0)) = nb) by (unfold rhs; apply mtv_length; exact HB).
  rewrite <- L at 2. apply vadd_zeros_r.
Qed.
