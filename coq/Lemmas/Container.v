(* Lemmas/Container.v — proofs about the container state machine (property C11).
   Discrete; plain stdlib; closed under the global context. *)
From Coq Require Import List Bool ZArith Lia.
From FDAV Require Import Model.Container.
Import ListNotations.

(* ------------------------------------------------------------ equalities *)
Lemma list_eqb_eq {A} (e : A -> A -> bool) :
  (forall a b, e a b = true <-> a = b) -> forall l m, list_eqb e l m = true <-> l = m.
Proof.
  intros He. induction l as [|a l IH]; intros [|b m]; simpl; split; intros H;
    try reflexivity; try discriminate.
  - apply andb_true_iff in H. destruct H as [H1 H2]. apply He in H1. apply IH in H2. congruence.
  - inversion H; subst. apply andb_true_iff. split; [apply He; reflexivity|apply IH; reflexivity].
Qed.
Lemma natl_eqb_eq l m : natl_eqb l m = true <-> l = m.
Proof. apply list_eqb_eq. intros a b. apply Nat.eqb_eq. Qed.
Lemma natl_eqb_refl l : natl_eqb l l = true.
Proof. apply natl_eqb_eq. reflexivity. Qed.

(* --------------------------------------------------------- dictionaries *)
Lemma lookup_in {A} k (l : list (nat * A)) v : lookup k l = Some v -> In (k, v) l.
Proof.
  induction l as [|[k' v'] l IH]; simpl; [discriminate|].
  destruct (Nat.eqb k k') eqn:E.
  - apply Nat.eqb_eq in E. intros H. inversion H; subst. left; reflexivity.
  - intros H. right. apply IH. exact H.
Qed.

Lemma dict_sub_lookup a b k s :
  dict_sub a b = true -> lookup k a = Some s -> lookup k b = Some s.
Proof.
  intros H L. apply lookup_in in L. unfold dict_sub in H.
  rewrite forallb_forall in H. specialize (H _ L). simpl in H.
  destruct (lookup k b) as [s'|]; [|discriminate].
  apply natl_eqb_eq in H. congruence.
Qed.

(* equal dictionaries map every label to the same tuple *)
Lemma dict_eqb_lookup a b : dict_eqb a b = true -> forall k, lookup k a = lookup k b.
Proof.
  unfold dict_eqb. intros H k. apply andb_true_iff in H. destruct H as [Hab Hba].
  destruct (lookup k a) as [s|] eqn:La.
  - symmetry. eapply dict_sub_lookup; eauto.
  - destruct (lookup k b) as [s|] eqn:Lb; [|reflexivity].
    rewrite (dict_sub_lookup _ _ _ _ Hba Lb) in La. discriminate.
Qed.
Lemma dict_eqb_sym a b : dict_eqb a b = dict_eqb b a.
Proof. unfold dict_eqb. apply andb_comm. Qed.

(* -------------------------------------------------------------- lists *)
Lemma incl_firstn {A} k (l : list A) : incl (firstn k l) l.
Proof.
  revert l; induction k as [|k IH]; intros [|a l]; simpl; intros x H; try contradiction.
  destruct H as [H|H]; [left; exact H|right; apply IH; exact H].
Qed.
Lemma incl_skipn {A} k (l : list A) : incl (skipn k l) l.
Proof.
  revert l; induction k as [|k IH]; intros [|a l]; simpl; intros x H; try contradiction; try exact H.
  right. apply IH. exact H.
Qed.
Lemma incl_remove_at {A} k (l : list A) : incl (remove_at k l) l.
Proof.
  unfold remove_at. intros x H. apply in_app_or in H. destruct H as [H|H].
  - eapply incl_firstn; eauto.
  - eapply incl_skipn; eauto.
Qed.
Lemma incl_insert_at {A} k (c : A) (l : list A) : incl (insert_at k c l) (l ++ [c]).
Proof.
  unfold insert_at. intros x H. apply in_or_app. apply in_app_or in H. destruct H as [H|[H|H]].
  - left. eapply incl_firstn; eauto.
  - right. left. exact H.
  - left. eapply incl_skipn; eauto.
Qed.

(* ---------------------------------------------- same number of observations *)
Lemma same_nobs_iff l : same_nobs l = true <-> Inv_m l.
Proof.
  unfold Inv_m. destruct l as [|c r]; simpl.
  - split; [intros _ ? ? []|reflexivity].
  - rewrite forallb_forall. split.
    + intros H x y Hx Hy.
      assert (E : forall z, c = z \/ In z r -> g_nobs (snd z) = g_nobs (snd c)).
      { intros z [<-|Hz]; [reflexivity|]. apply Nat.eqb_eq. apply H. exact Hz. }
      rewrite (E _ Hx), (E _ Hy). reflexivity.
    + intros H x Hx. apply Nat.eqb_eq. apply H; [right; exact Hx|left; reflexivity].
Qed.
Lemma Inv_m_incl l l' : incl l' l -> Inv_m l -> Inv_m l'.
Proof. intros Hi H x y Hx Hy. apply H; apply Hi; assumption. Qed.

(* -------------------------------------------- results of fallible builders *)
(* a builder either returns an object and Ok, or no object and an error *)
Definition wfres {A} (r : option A * outcome) : Prop :=
  match r with (Some _, o) => o = Ok | (None, o) => o <> Ok end.

Lemma d_construct_wf a v : wfres (d_construct a v).
Proof.
  unfold d_construct. destruct a; destruct v; simpl; try discriminate.
  destruct (natl_eqb _ _); simpl; [reflexivity|discriminate].
Qed.
Lemma i_construct_wf a v : wfres (i_construct a v).
Proof.
  unfold i_construct. destruct a; destruct v; simpl; try discriminate.
  destruct (dict_eqb _ _); simpl; [reflexivity|discriminate].
Qed.
Lemma m_construct_wf l : wfres (m_construct l).
Proof. unfold m_construct. destruct (same_nobs l); simpl; [reflexivity|discriminate]. Qed.

Lemma sel_count_wf n ix : wfres (sel_count n ix).
Proof.
  unfold sel_count. destruct ix as [i|a b c|l].
  - destruct (in_range n i); simpl; [reflexivity|discriminate].
  - destruct c as [[| |]|]; simpl; try reflexivity; discriminate.
  - destruct (forallb _ l); simpl; [reflexivity|discriminate].
Qed.
Lemma d_index_wf d ix : wfres (d_index d ix).
Proof.
  unfold d_index. pose proof (sel_count_wf (fst (dshape d)) ix) as H.
  destruct (sel_count _ ix) as [[k|] e]; [apply d_construct_wf|exact H].
Qed.
Lemma i_select_wf i ks : wfres (i_select i ks).
Proof.
  unfold i_select. destruct (gets ks (iargs i)); [destruct (gets ks (ivals i))|];
    try apply i_construct_wf; simpl; discriminate.
Qed.
Lemma i_index_wf i ix : wfres (i_index i ix).
Proof.
  unfold i_index. destruct ix as [z|a b c|l].
  - destruct (z <? 0)%Z; [simpl; discriminate|].
    destruct (lookup _ (iargs i)); [destruct (lookup _ (ivals i))|];
      try apply i_construct_wf; simpl; discriminate.
  - destruct c as [[| |]|]; try apply i_select_wf; simpl; discriminate.
  - destruct (znat l); [apply i_select_wf|simpl; discriminate].
Qed.
Lemma d_concat_wf d gs : wfres (d_concat d gs).
Proof.
  unfold d_concat.
  repeat match goal with |- wfres (if ?b then _ else _) => destruct b; [simpl; discriminate|] end.
  apply d_construct_wf.
Qed.
Lemma i_concat_wf i gs : wfres (i_concat i gs).
Proof.
  unfold i_concat.
  repeat match goal with |- wfres (if ?b then _ else _) => destruct b; [simpl; discriminate|] end.
  apply i_construct_wf.
Qed.
Lemma lift_d_wf r : wfres r -> wfres (lift_d r).
Proof. destruct r as [[d|] o]; simpl; auto. Qed.
Lemma lift_i_wf r : wfres r -> wfres (lift_i r).
Proof. destruct r as [[d|] o]; simpl; auto. Qed.
Lemma g_index_wf g ix : wfres (g_index g ix).
Proof. destruct g; simpl; [apply lift_d_wf, d_index_wf|apply lift_i_wf, i_index_wf]. Qed.
Lemma g_concat_wf g gs : wfres (g_concat g gs).
Proof. destruct g; simpl; [apply lift_d_wf, d_concat_wf|apply lift_i_wf, i_concat_wf]. Qed.
Lemma collect_wf l : Forall wfres l -> wfres (collect l).
Proof.
  induction 1 as [|[[g|] o] l H _ IH]; simpl; [reflexivity| |exact H].
  destruct (collect l) as [[r|] e]; simpl in *; exact IH.
Qed.
Lemma m_index_wf m ix : wfres (m_index m ix).
Proof.
  unfold m_index.
  assert (H : wfres (collect (map (fun c => g_index (snd c) ix) m))).
  { apply collect_wf. apply Forall_forall. intros r Hr. apply in_map_iff in Hr.
    destruct Hr as [c [<- _]]. apply g_index_wf. }
  destruct (collect _) as [[l|] e]; [apply m_construct_wf|exact H].
Qed.
Lemma m_concat_wf m os : wfres (m_concat m os).
Proof.
  unfold m_concat. destruct (negb _); [simpl; discriminate|]. destruct (negb _); [simpl; discriminate|].
  match goal with |- wfres (match collect ?x with _ => _ end) =>
    assert (H : wfres (collect x)) end.
  { apply collect_wf. apply Forall_forall. intros r Hr. apply in_map_iff in Hr.
    destruct Hr as [c [<- _]]. apply g_concat_wf. }
  destruct (collect _) as [[l|] e]; [apply m_construct_wf|exact H].
Qed.

Lemma keep_noop {A} s (inj : A -> obj) r :
  wfres r -> snd (keep s inj r) <> Ok -> fst (keep s inj r) = s.
Proof. destruct r as [[x|] o]; simpl; intros H N; [contradiction|reflexivity]. Qed.

(* what a successful builder returns is consistent *)
Lemma d_construct_inv a v d o : d_construct a v = (Some d, o) -> Inv_d d.
Proof.
  unfold d_construct. destruct a; destruct v; try discriminate.
  destruct (natl_eqb _ _) eqn:E; [|discriminate]. intros H; inversion H; subst.
  apply natl_eqb_eq in E. unfold Inv_d, d_npoints; simpl. split; [symmetry; exact E|reflexivity].
Qed.
Lemma i_construct_inv a v i o : i_construct a v = (Some i, o) -> Inv_i i.
Proof.
  unfold i_construct. destruct a; destruct v; try discriminate.
  destruct (dict_eqb _ _) eqn:E; [|discriminate]. intros H; inversion H; subst.
  unfold Inv_i; simpl. split; [apply dict_eqb_lookup; exact E|reflexivity].
Qed.
Lemma m_construct_inv l m o : m_construct l = (Some m, o) -> Inv_m m.
Proof.
  unfold m_construct. destruct (same_nobs l) eqn:E; [|discriminate].
  intros H; inversion H; subst. apply same_nobs_iff. exact E.
Qed.
Lemma d_index_inv d ix d' o : d_index d ix = (Some d', o) -> Inv_d d'.
Proof.
  unfold d_index. destruct (sel_count _ ix) as [[k|] e]; [|discriminate]. apply d_construct_inv.
Qed.
Lemma i_select_inv i ks i' o : i_select i ks = (Some i', o) -> Inv_i i'.
Proof.
  unfold i_select. destruct (gets ks (iargs i)); [destruct (gets ks (ivals i))|];
    try discriminate. apply i_construct_inv.
Qed.
Lemma i_index_inv i ix i' o : i_index i ix = (Some i', o) -> Inv_i i'.
Proof.
  unfold i_index. destruct ix as [z|a b c|l].
  - destruct (z <? 0)%Z; [discriminate|].
    destruct (lookup _ (iargs i)); [destruct (lookup _ (ivals i))|]; try discriminate.
    apply i_construct_inv.
  - destruct c as [[| |]|]; try discriminate; apply i_select_inv.
  - destruct (znat l); [apply i_select_inv|discriminate].
Qed.
Lemma d_concat_inv d gs d' o : d_concat d gs = (Some d', o) -> Inv_d d'.
Proof.
  unfold d_concat.
  repeat match goal with |- (if ?b then _ else _) = _ -> _ => destruct b; [discriminate|] end.
  apply d_construct_inv.
Qed.
Lemma i_concat_inv i gs i' o : i_concat i gs = (Some i', o) -> Inv_i i'.
Proof.
  unfold i_concat.
  repeat match goal with |- (if ?b then _ else _) = _ -> _ => destruct b; [discriminate|] end.
  apply i_construct_inv.
Qed.
Lemma m_index_inv m ix m' o : m_index m ix = (Some m', o) -> Inv_m m'.
Proof.
  unfold m_index. destruct (collect _) as [[l|] e]; [|discriminate]. apply m_construct_inv.
Qed.
Lemma m_concat_inv m os m' o : m_concat m os = (Some m', o) -> Inv_m m'.
Proof.
  unfold m_concat. destruct (negb _); [discriminate|]. destruct (negb _); [discriminate|].
  destruct (collect _) as [[l|] e]; [|discriminate]. apply m_construct_inv.
Qed.

(* ------------------------------------------------------ setters, list ops *)
Definition noop2 {S A} (f : S -> A -> S * outcome) : Prop :=
  forall s a, snd (f s a) <> Ok -> fst (f s a) = s.

Lemma d_setargs_noop : noop2 d_setargs.
Proof. intros d a. unfold d_setargs. destruct a; simpl; auto. destruct (natl_eqb _ _); simpl; auto. contradiction. Qed.
Lemma d_setvals_noop : noop2 d_setvals.
Proof. intros d v. unfold d_setvals. destruct v; simpl; auto. destruct (natl_eqb _ _); simpl; auto. contradiction. Qed.
Lemma d_setstand_noop : noop2 d_setstand.
Proof. intros d a. unfold d_setstand. destruct a; simpl; auto. destruct (natl_eqb _ _); simpl; auto. contradiction. Qed.
Lemma d_setstand_defect_noop : noop2 d_setstand_defect.
Proof. intros d a. unfold d_setstand_defect. destruct a; simpl; auto. contradiction. Qed.
Lemma i_setargs_noop : noop2 i_setargs.
Proof. intros d a. unfold i_setargs. destruct a; simpl; auto. destruct (dict_eqb _ _); simpl; auto. contradiction. Qed.
Lemma i_setvals_noop : noop2 i_setvals.
Proof. intros d v. unfold i_setvals. destruct v; simpl; auto. destruct (dict_eqb _ _); simpl; auto. contradiction. Qed.
Lemma i_setstand_noop : noop2 i_setstand.
Proof. intros d a. unfold i_setstand. destruct a; simpl; auto. destruct (dict_eqb _ _); simpl; auto. contradiction. Qed.
Lemma i_setstand_defect_noop : noop2 i_setstand_defect.
Proof. intros d a. unfold i_setstand_defect. destruct a; simpl; auto. contradiction. Qed.
Lemma m_append_noop : noop2 m_append.
Proof.
  intros m c. unfold m_append. destruct m as [|c0 m]; [simpl; contradiction|].
  destruct (same_nobs _); simpl; auto. contradiction.
Qed.
Lemma m_extend_noop : noop2 m_extend.
Proof. intros m l. unfold m_extend. destruct (same_nobs _); simpl; auto. contradiction. Qed.
Lemma m_extend_defect_noop : noop2 m_extend_defect.
Proof. intros m l. unfold m_extend_defect. simpl. contradiction. Qed.
Lemma m_remove_noop : noop2 m_remove.
Proof. intros m t. unfold m_remove. destruct (find_tok t m); simpl; auto. contradiction. Qed.
Lemma m_pop_noop : noop2 m_pop.
Proof. intros m i. unfold m_pop. destruct (norm_index _ i); simpl; auto. contradiction. Qed.
Lemma m_insert_noop m i c : snd (m_insert m i c) <> Ok -> fst (m_insert m i c) = m.
Proof. unfold m_insert. destruct (same_nobs _); simpl; auto. contradiction. Qed.
Lemma m_insert_defect_noop m i c : snd (m_insert_defect m i c) <> Ok -> fst (m_insert_defect m i c) = m.
Proof. unfold m_insert_defect. simpl. contradiction. Qed.

Lemma d_setargs_inv d a : Inv_d d -> Inv_d (fst (d_setargs d a)).
Proof.
  intros H. unfold d_setargs. destruct a; simpl; auto.
  destruct (natl_eqb _ _) eqn:E; simpl; auto. apply natl_eqb_eq in E.
  unfold Inv_d, d_npoints; simpl. split; [exact E|reflexivity].
Qed.
Lemma d_setvals_inv d v : Inv_d d -> Inv_d (fst (d_setvals d v)).
Proof.
  intros [H1 H2]. unfold d_setvals. destruct v; simpl; try (split; assumption).
  destruct (natl_eqb _ _) eqn:E; simpl; try (split; assumption). apply natl_eqb_eq in E.
  unfold Inv_d, d_npoints in *; simpl. split; [symmetry; exact E|exact H2].
Qed.
Lemma d_setstand_inv d a : Inv_d d -> Inv_d (fst (d_setstand d a)).
Proof.
  intros [H1 H2]. unfold d_setstand. destruct a; simpl; try (split; assumption).
  destruct (natl_eqb _ _) eqn:E; simpl; try (split; assumption). apply natl_eqb_eq in E.
  unfold Inv_d, d_npoints in *; simpl. split; [exact H1|exact E].
Qed.
Lemma i_setargs_inv i a : Inv_i i -> Inv_i (fst (i_setargs i a)).
Proof.
  intros H. unfold i_setargs. destruct a; simpl; auto.
  destruct (dict_eqb _ _) eqn:E; simpl; auto.
  unfold Inv_i; simpl. split; [|reflexivity]. intros k. symmetry. apply dict_eqb_lookup. exact E.
Qed.
Lemma i_setvals_inv i v : Inv_i i -> Inv_i (fst (i_setvals i v)).
Proof.
  intros [H1 H2]. unfold i_setvals. destruct v; simpl; try (split; assumption).
  destruct (dict_eqb _ _) eqn:E; simpl; try (split; assumption).
  unfold Inv_i; simpl. split; [apply dict_eqb_lookup; exact E|exact H2].
Qed.
Lemma i_setstand_inv i a : Inv_i i -> Inv_i (fst (i_setstand i a)).
Proof.
  intros [H1 H2]. unfold i_setstand. destruct a; simpl; try (split; assumption).
  destruct (dict_eqb _ _) eqn:E; simpl; try (split; assumption).
  unfold Inv_i; simpl. split; [exact H1|apply dict_eqb_lookup; exact E].
Qed.
Lemma m_append_inv m c : Inv_m m -> Inv_m (fst (m_append m c)).
Proof.
  intros H. unfold m_append. destruct m as [|c0 m].
  - simpl. intros x y [<-|[]] [<-|[]]. reflexivity.
  - destruct (same_nobs _) eqn:E; cbn [fst]; [apply same_nobs_iff; exact E|exact H].
Qed.
Lemma m_extend_inv m l : Inv_m m -> Inv_m (fst (m_extend m l)).
Proof.
  intros H. unfold m_extend. destruct (same_nobs _) eqn:E; simpl; [apply same_nobs_iff; exact E|exact H].
Qed.
Lemma m_insert_inv m i c : Inv_m m -> Inv_m (fst (m_insert m i c)).
Proof.
  intros H. unfold m_insert. destruct (same_nobs _) eqn:E; simpl; [|exact H].
  apply same_nobs_iff in E. eapply Inv_m_incl; [apply incl_insert_at|exact E].
Qed.
Lemma m_remove_inv m t : Inv_m m -> Inv_m (fst (m_remove m t)).
Proof.
  intros H. unfold m_remove. destruct (find_tok t m); simpl; [|exact H].
  eapply Inv_m_incl; [apply incl_remove_at|exact H].
Qed.
Lemma m_pop_inv m i : Inv_m m -> Inv_m (fst (m_pop m i)).
Proof.
  intros H. unfold m_pop. destruct (norm_index _ i); simpl; [|exact H].
  eapply Inv_m_incl; [apply incl_remove_at|exact H].
Qed.

(* ---------------------------------------------------------- one step *)
Lemma keep_inv {A} s (inj : A -> obj) (r : option A * outcome) :
  Inv s -> (forall x o, r = (Some x, o) -> Inv (inj x)) -> Inv (fst (keep s inj r)).
Proof. intros Hs H. destruct r as [[x|] o]; simpl; [eapply H; reflexivity|exact Hs]. Qed.

Lemma construct_noop s c : snd (construct s c) <> Ok -> fst (construct s c) = s.
Proof.
  destruct c; simpl; apply keep_noop;
    [apply d_construct_wf|apply i_construct_wf|apply m_construct_wf].
Qed.
Lemma construct_inv s c : Inv s -> Inv (fst (construct s c)).
Proof.
  intros Hs. destruct c; simpl; apply keep_inv; auto; intros x o E; simpl.
  - eapply d_construct_inv; eauto.
  - eapply i_construct_inv; eauto.
  - eapply m_construct_inv; eauto.
Qed.

Section Gen.
  Variable dstand_f : dense -> aspec -> dense * outcome.
  Variable istand_f : irr -> aspec -> irr * outcome.
  Variable extend_f : list comp -> list comp -> list comp * outcome.
  Variable insert_f : list comp -> Z -> comp -> list comp * outcome.
  Hypothesis dstand_noop : noop2 dstand_f.
  Hypothesis istand_noop : noop2 istand_f.
  Hypothesis extend_noop : noop2 extend_f.
  Hypothesis insert_noop : forall m i c, snd (insert_f m i c) <> Ok -> fst (insert_f m i c) = m.

  Lemma step_gen_noop s o :
    snd (step_gen dstand_f istand_f extend_f insert_f s o) <> Ok ->
    fst (step_gen dstand_f istand_f extend_f insert_f s o) = s.
  Proof.
    destruct o; try apply construct_noop; destruct s as [dd|ii|m]; simpl;
      try (intros _; reflexivity);
      try (match goal with |- context [let (_, _) := ?f ?x ?a in _] =>
             let H := fresh in
             assert (H : snd (f x a) <> Ok -> fst (f x a) = x)
               by (first [apply d_setargs_noop|apply d_setvals_noop|apply dstand_noop
                         |apply i_setargs_noop|apply i_setvals_noop|apply istand_noop
                         |apply m_append_noop|apply extend_noop|apply m_remove_noop|apply m_pop_noop]);
             destruct (f x a) as [x' r]; simpl in *; intros N; rewrite (H N); reflexivity end).
    - apply keep_noop, d_index_wf.
    - apply keep_noop, i_index_wf.
    - apply keep_noop, m_index_wf.
    - destruct (as_gobjs others); [apply keep_noop, d_concat_wf|reflexivity].
    - destruct (as_gobjs others); [apply keep_noop, i_concat_wf|reflexivity].
    - destruct (as_mvs others); [apply keep_noop, m_concat_wf|reflexivity].
    - pose proof (insert_noop m i c) as H. destruct (insert_f m i c) as [m' r]; simpl in *.
      intros N; rewrite (H N); reflexivity.
    - contradiction.
    - contradiction.
  Qed.

  Hypothesis dstand_inv : forall d a, Inv_d d -> Inv_d (fst (dstand_f d a)).
  Hypothesis istand_inv : forall i a, Inv_i i -> Inv_i (fst (istand_f i a)).
  Hypothesis extend_inv : forall m l, Inv_m m -> Inv_m (fst (extend_f m l)).
  Hypothesis insert_inv : forall m i c, Inv_m m -> Inv_m (fst (insert_f m i c)).

  Lemma step_gen_inv s o :
    Inv s -> Inv (fst (step_gen dstand_f istand_f extend_f insert_f s o)).
  Proof.
    intros Hs. destruct o; try (apply construct_inv; exact Hs); destruct s as [dd|ii|m]; simpl;
      try exact Hs.
    - pose proof (d_setargs_inv dd a Hs). destruct (d_setargs dd a); assumption.
    - pose proof (i_setargs_inv ii a Hs). destruct (i_setargs ii a); assumption.
    - pose proof (d_setvals_inv dd v Hs). destruct (d_setvals dd v); assumption.
    - pose proof (i_setvals_inv ii v Hs). destruct (i_setvals ii v); assumption.
    - pose proof (dstand_inv dd a Hs). destruct (dstand_f dd a); assumption.
    - pose proof (istand_inv ii a Hs). destruct (istand_f ii a); assumption.
    - apply keep_inv; [exact Hs|]. intros x o E. eapply d_index_inv; eauto.
    - apply keep_inv; [exact Hs|]. intros x o E. eapply i_index_inv; eauto.
    - apply keep_inv; [exact Hs|]. intros x o E. eapply m_index_inv; eauto.
    - destruct (as_gobjs others); [|exact Hs].
      apply keep_inv; [exact Hs|]. intros x o E. eapply d_concat_inv; eauto.
    - destruct (as_gobjs others); [|exact Hs].
      apply keep_inv; [exact Hs|]. intros x o E. eapply i_concat_inv; eauto.
    - destruct (as_mvs others); [|exact Hs].
      apply keep_inv; [exact Hs|]. intros x o E. eapply m_concat_inv; eauto.
    - pose proof (m_append_inv m c Hs). destruct (m_append m c); assumption.
    - pose proof (extend_inv m l Hs). destruct (extend_f m l); assumption.
    - pose proof (insert_inv m i c Hs). destruct (insert_f m i c); assumption.
    - pose proof (m_remove_inv m tok Hs). destruct (m_remove m tok); assumption.
    - pose proof (m_pop_inv m i Hs). destruct (m_pop m i); assumption.
    - intros x y [].
    - eapply Inv_m_incl; [|exact Hs]. intros x Hx. apply in_rev. exact Hx.
  Qed.
End Gen.

(* ============================================================ theorems *)
Theorem step_error_is_noop s o : snd (step s o) <> Ok -> fst (step s o) = s.
Proof.
  apply step_gen_noop.
  - exact d_setstand_noop.
  - exact i_setstand_noop.
  - exact m_extend_noop.
  - exact m_insert_noop.
Qed.
(* also the unrepaired machine leaves the state alone when it raises *)
Theorem step_defect_error_is_noop s o : snd (step_defect s o) <> Ok -> fst (step_defect s o) = s.
Proof.
  apply step_gen_noop.
  - exact d_setstand_defect_noop.
  - exact i_setstand_defect_noop.
  - exact m_extend_defect_noop.
  - exact m_insert_defect_noop.
Qed.

Theorem step_preserves_inv s o : Inv s -> Inv (fst (step s o)).
Proof.
  apply step_gen_inv.
  - exact d_setstand_inv.
  - exact i_setstand_inv.
  - exact m_extend_inv.
  - exact m_insert_inv.
Qed.

Theorem run_inv_from s ops : Inv s -> Inv (run s ops).
Proof.
  unfold run, run_with. revert s. induction ops as [|o ops IH]; intros s Hs; simpl; [exact Hs|].
  apply IH. apply step_preserves_inv. exact Hs.
Qed.
Lemma init_inv : Inv init.
Proof. intros x y []. Qed.
Theorem run_inv ops : Inv (run init ops).
Proof. apply run_inv_from. exact init_inv. Qed.

(* every intermediate state of a history, not only the last one *)
Theorem run_inv_prefix ops k : Inv (run init (firstn k ops)).
Proof. apply run_inv. Qed.

(* ------------------------------------------------------------ observers *)
(* in a consistent state the observers, which read ONE of the redundant fields, agree
   with what the other fields say *)
Theorem observers_agree_dense d : Inv (OD d) ->
  values_npoints (OD d) = n_points (OD d) /\ stand_npoints (OD d) = n_points (OD d).
Proof. intros [H1 H2]. simpl. rewrite H1, H2. split; reflexivity. Qed.
Theorem observers_agree_irregular i : Inv (OI i) ->
  forall k, lookup k (ivals i) = lookup k (iargs i) /\ lookup k (istand i) = lookup k (iargs i).
Proof. intros [H1 H2] k. split; [symmetry; apply H1|apply H2]. Qed.
Theorem observers_agree_multivariate m : Inv (OM m) ->
  n_functional (OM m) = length m /\ forall c, In c m -> g_nobs (snd c) = n_obs (OM m).
Proof.
  intros H. split; [reflexivity|]. intros c Hc. simpl. destruct m as [|c0 m]; [destruct Hc|].
  apply H; [exact Hc|left; reflexivity].
Qed.
Theorem observers_agree ops :
  match run init ops with
  | OD d => values_npoints (OD d) = n_points (OD d) /\ stand_npoints (OD d) = n_points (OD d)
  | OI i => forall k, lookup k (ivals i) = lookup k (iargs i) /\ lookup k (istand i) = lookup k (iargs i)
  | OM m => n_functional (OM m) = length m /\ forall c, In c m -> g_nobs (snd c) = n_obs (OM m)
  end.
Proof.
  pose proof (run_inv ops) as H. destruct (run init ops).
  - apply observers_agree_dense; exact H.
  - apply observers_agree_irregular; exact H.
  - apply observers_agree_multivariate; exact H.
Qed.

(* ------------------------------------------------- the plain list model *)
Definition is_mv (s : obj) : bool := match s with OM _ => true | _ => false end.

Lemma list_step s o : is_mv s = true -> list_op o = true ->
  is_mv (fst (step s o)) = true /\
  comps (fst (step s o)) = match snd (step s o) with Ok => plain_step (comps s) o | _ => comps s end.
Proof.
  destruct s as [d|i|m]; try discriminate. intros _.
  destruct o as [c| | | | | | | | | | | |]; try discriminate;
    [destruct c as [? ?|? ?|l]; try discriminate|..]; intros _.
  - simpl. unfold m_construct.
    destruct (same_nobs l); simpl; split; reflexivity.
  - unfold step; simpl. unfold m_append. destruct m as [|c0 m]; [simpl; split; reflexivity|].
    destruct (same_nobs _); simpl; split; reflexivity.
  - unfold step; simpl. unfold m_extend. destruct (same_nobs _); simpl; split; reflexivity.
  - unfold step; simpl. unfold m_insert. destruct (same_nobs _); simpl; split; reflexivity.
  - unfold step; simpl. unfold m_remove. destruct (find_tok tok m); simpl; split; reflexivity.
  - unfold step; simpl. unfold m_pop. destruct (norm_index _ i); simpl; split; reflexivity.
  - simpl. split; reflexivity.
  - simpl. split; reflexivity.
Qed.

(* the state reached by a history of list-style operations is what a plain Python list
   gives when exactly the accepted operations are applied; rejected ones leave no trace *)
Theorem run_agrees_plain_from ops : forall s, is_mv s = true -> forallb list_op ops = true ->
  comps (run s ops) = fold_left plain_step (accepted s ops) (comps s).
Proof.
  induction ops as [|o ops IH]; intros s Hs Ho; [reflexivity|].
  simpl in Ho. apply andb_true_iff in Ho. destruct Ho as [Ho Hops].
  destruct (list_step s o Hs Ho) as [Hm Hc].
  unfold run, run_with in *. simpl. destruct (step s o) as [s' r] eqn:E. simpl in *.
  rewrite (IH s' Hm Hops). rewrite fold_left_app. f_equal. rewrite Hc.
  destruct r; reflexivity.
Qed.
Theorem run_agrees_plain ops : forallb list_op ops = true ->
  comps (run init ops) = fold_left plain_step (accepted init ops) [] /\
  n_functional (run init ops) = length (fold_left plain_step (accepted init ops) []) /\
  forall c, In c (fold_left plain_step (accepted init ops) []) -> g_nobs (snd c) = n_obs (run init ops).
Proof.
  intros H. pose proof (run_agrees_plain_from ops init eq_refl H) as E. simpl in E.
  pose proof (run_inv ops) as I. rewrite <- E.
  destruct (run init ops) as [d|i|m] eqn:R; simpl.
  - split; [reflexivity|]. split; [reflexivity|]. intros c [].
  - split; [reflexivity|]. split; [reflexivity|]. intros c [].
  - split; [reflexivity|]. apply (observers_agree_multivariate m I).
Qed.

(* ------------------------------------------------------ the open defect F7 *)
Definition cD (t n : nat) : comp := (t, GD (mkd [(1, 5)] (n, [5]) [5]))%nat.

Theorem extend_unguarded_refuted : exists ops, ~ Inv (run_defect init ops).
Proof.
  exists [Append (cD 1 3); Extend [cD 2 2]]. intros H. vm_compute in H.
  specialize (H (cD 1 3) (cD 2 2) (or_introl eq_refl) (or_intror (or_introl eq_refl))).
  discriminate H.
Qed.
Theorem insert_unguarded_refuted : exists ops, ~ Inv (run_defect init ops).
Proof.
  exists [Append (cD 1 3); Insert 0%Z (cD 2 2)]. intros H. vm_compute in H.
  specialize (H (cD 2 2) (cD 1 3) (or_introl eq_refl) (or_intror (or_introl eq_refl))).
  discriminate H.
Qed.
Theorem stand_unguarded_refuted : exists ops, ~ Inv (run_defect init ops).
Proof.
  exists [Construct (CDense (ADense [(1, 5)]) (VDense (3, [5])))%nat; SetStand (ADense [(2, 4)]%nat)].
  intros H. vm_compute in H. destruct H as [_ H]. discriminate H.
Qed.
(* the required machine rejects exactly these steps and stays where it was *)
Theorem guarded_rejects :
  step (OM [cD 1 3]) (Extend [cD 2 2]) = (OM [cD 1 3], ValueErr) /\
  step (OM [cD 1 3]) (Insert 0%Z (cD 2 2)) = (OM [cD 1 3], ValueErr) /\
  step (OD (mkd [(1, 5)] (3, [5]) [5])%nat) (SetStand (ADense [(2, 4)]%nat))
    = (OD (mkd [(1, 5)] (3, [5]) [5])%nat, ValueErr).
Proof. repeat split. Qed.
