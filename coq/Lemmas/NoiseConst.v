(* Lemmas/NoiseConst.v — finite facts about the difference sequences REFLECTED from
   FDApy/misc/utils.py:DIFF_SEQUENCES on every run (coq/Gen/Consts.v).  The domain is
   genuinely finite (ten sequences); checked by vm_compute, lifted by forallb_forall. *)
From Coq Require Import List QArith Qabs Bool Arith.
From FDAV Require Import Gen.Consts.
Import ListNotations.

Definition qsum (l : list Q) : Q := fold_right Qplus 0 l.
Definition dseq_ok (e : nat * list Q) : bool :=
  let d := snd e in
  Qle_bool (Qabs (qsum d)) (2 # 10000)
  && Qle_bool (Qabs (qsum (map (fun v => v * v) d) - 1)) (1 # 1000)
  && Nat.eqb (length d) (S (fst e))
  && Nat.leb 1 (fst e) && Nat.leb (fst e) 10.

Lemma diff_sequences_ok : forall e, In e diff_sequences -> dseq_ok e = true.
Proof. apply forallb_forall. vm_compute. reflexivity. Qed.

Lemma diff_sequences_orders : map fst diff_sequences = seq 1 10.
Proof. vm_compute. reflexivity. Qed.
