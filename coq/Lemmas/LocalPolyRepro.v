(* Lemmas/LocalPolyRepro.v — local polynomial regression of degree p reproduces every polynomial of degree <= p
   (C06), end to end on the executed 1-D design (rows [1, u, ..., u^p] in the centred, bandwidth-scaled variable
   u = (x - x0)/h): a polynomial given by its coefficients IN x is re-expanded around the query point, its
   re-expanded coefficient vector solves the local normal equations, and when the weighted local design has full
   rank the estimate (the intercept) is the polynomial's value at the query point. *)
From Coq Require Import List Bool Reals Lra Lia Arith.
From FDAV Require Import Base.Num Base.Vec Model.Basis Model.Pspline Model.LocalPoly Model.Poly
  Lemmas.Vec Lemmas.Gram Lemmas.Stats Lemmas.Scores Lemmas.Pspline Lemmas.LocalPoly Lemmas.Legendre.
Import ListNotations.
Local Open Scope R_scope.

Notation pevalR := (peval opsR).

(* composition with the affine map u |-> x0 + h u (Horner), without spurious trailing coefficients *)
Fixpoint pshift (x0 h : R) (a : list R) : list R :=
  match a with
  | [] => []
  | a0 :: a' => match pshift x0 h a' with
                | [] => [a0]
                | q => padd opsR [a0] (padd opsR (pscale opsR x0 q) (0 :: pscale opsR h q))
                end
  end.

Lemma peval_pshift x0 h : forall a u, pevalR (pshift x0 h a) u = pevalR a (x0 + h * u).
Proof.
  induction a as [|a0 a IH]; intros u; [reflexivity|].
  cbn [pshift]. specialize (IH u). destruct (pshift x0 h a) as [|c q].
  - rewrite !peval_cons, <- IH. cbn [peval o0 opsR]. lra.
  - rewrite !peval_padd, peval_pscale, (peval_cons 0), peval_pscale, (peval_cons a0 []), (peval_cons a0 a), <- IH.
    cbn [peval o0 opsR]. lra.
Qed.

Lemma padd_length : forall (p q : list R), length (padd opsR p q) = Nat.max (length p) (length q).
Proof. induction p as [|a p IH]; intros [|b q]; cbn [padd length]; try lia. rewrite IH. lia. Qed.
Lemma pshift_length x0 h : forall a, length (pshift x0 h a) = length a.
Proof.
  induction a as [|a0 a IH]; [reflexivity|]. cbn [pshift]. destruct (pshift x0 h a) as [|c q] eqn:E.
  - cbn [length] in *. rewrite <- IH. reflexivity.
  - rewrite !padd_length. unfold pscale. cbn [length]. rewrite !map_length. cbn [length] in *. lia.
Qed.

(* a design row [1, u, ..., u^p] times a coefficient vector of length <= p + 1 is the polynomial's value *)
Lemma pows_length u : forall p, length (pows opsR u p) = S p.
Proof. induction p as [|p IH]; [reflexivity|]. cbn [pows]. rewrite app_length, IH. cbn [length]. lia. Qed.
Lemma pows_nth u : forall p k, (k <= p)%nat -> nth k (pows opsR u p) 0 = u ^ k.
Proof.
  induction p as [|p IH]; intros k Hk.
  - replace k with 0%nat by lia. reflexivity.
  - cbn [pows]. destruct (Nat.eq_dec k (S p)) as [E|E].
    + subst k. rewrite app_nth2 by (rewrite pows_length; lia). rewrite pows_length, Nat.sub_diag. cbn [nth].
      rewrite (nth_indep _ (o1 opsR) 0) by (rewrite pows_length; lia). rewrite IH by lia. cbn [omul opsR]. simpl pow. ring.
    + rewrite app_nth1 by (rewrite pows_length; lia). apply IH. lia.
Qed.
Lemma pows_S u p : pows opsR u (S p) = 1 :: vscaleR u (pows opsR u p).
Proof.
  apply list_eq_nth.
  - cbn [length]. rewrite vscale_length, !pows_length. reflexivity.
  - intros k Hk. rewrite pows_length in Hk. destruct k as [|k].
    + rewrite pows_nth by lia. reflexivity.
    + cbn [nth]. rewrite pows_nth by lia. rewrite nth_vscale by (rewrite pows_length; lia). rewrite pows_nth by lia. simpl pow. ring.
Qed.

Lemma dot_pows u : forall p (c : list R), (length c <= S p)%nat -> dotR (pows opsR u p) c = pevalR c u.
Proof.
  induction p as [|p IH]; intros c Hc.
  - destruct c as [|c0 [|c1 c]]; [rewrite dot_nil_r; reflexivity| |simpl in Hc; lia].
    cbn [pows]. rewrite dot_cons, dot_nil_l, peval_cons. cbn [peval o0 o1 opsR]. lra.
  - destruct c as [|c0 c]; [rewrite dot_nil_r; reflexivity|].
    rewrite pows_S, dot_cons, dot_vscale_l, IH by (simpl in Hc; lia). rewrite peval_cons. lra.
Qed.

(* the re-expanded coefficient vector, padded with zeros to the p + 1 columns of the design *)
Definition local_coef (p : nat) (x0 h : R) (a : list R) : list R :=
  pshift x0 h a ++ zerosR (S p - length a).

Lemma local_coef_length p x0 h a : (length a <= S p)%nat -> length (local_coef p x0 h a) = S p.
Proof. intros H. unfold local_coef. rewrite app_length, pshift_length, zeros_length. lia. Qed.

Lemma peval_app_zeros (c : list R) n u : pevalR (c ++ zerosR n) u = pevalR c u.
Proof.
  induction c as [|c0 c IH].
  - cbn [app]. unfold zeros. induction n as [|n IHn]; [reflexivity|]. cbn [repeat]. rewrite peval_cons, IHn. cbn [peval o0 opsR]. lra.
  - cbn [app]. rewrite !peval_cons, IH. reflexivity.
Qed.

(* the design times the re-expanded coefficients = the polynomial at the sampling points *)
Theorem design_poly p x0 h (a xs : list R) : h <> 0 -> (length a <= S p)%nat ->
  mvR (design_1d opsR p x0 h xs) (local_coef p x0 h a) = map (pevalR a) xs.
Proof.
  intros Hh Ha. unfold design_1d, mv. rewrite map_map. apply map_ext. intros x. unfold row1.
  rewrite dot_pows by (rewrite local_coef_length by exact Ha; lia).
  unfold local_coef. rewrite peval_app_zeros, peval_pshift. f_equal.
  unfold scaled. rewrite osubR, odivR by exact Hh. field. exact Hh.
Qed.

Lemma design_1d_wf p x0 h xs : wfB (S p) (design_1d opsR p x0 h xs).
Proof. unfold wfB, design_1d. rewrite Forall_map. apply Forall_forall. intros x _. apply pows_length. Qed.

(* the re-expanded coefficients solve the local normal equations of the polynomial responses, for every kernel weight vector *)
Theorem poly_solves_local_equations p x0 h w (a xs : list R) : h <> 0 -> (length a <= S p)%nat ->
  AopR (S p) (design_1d opsR p x0 h xs) w [] (local_coef p x0 h a) = rhsR (S p) (design_1d opsR p x0 h xs) w (map (pevalR a) xs).
Proof.
  intros Hh Ha. rewrite <- (design_poly p x0 h a xs Hh Ha). apply lp_reproduces_poly. apply design_1d_wf.
Qed.

(* the intercept of the re-expanded coefficients is the polynomial's value at the query point *)
Lemma local_coef_intercept p x0 h a : nth 0 (local_coef p x0 h a) 0 = pevalR a x0.
Proof.
  assert (E : pevalR a x0 = pevalR (pshift x0 h a) 0) by (rewrite peval_pshift; f_equal; lra).
  rewrite E. unfold local_coef. destruct (pshift x0 h a) as [|c0 c].
  - cbn [app peval o0 opsR]. unfold zeros. destruct (S p - length a)%nat; reflexivity.
  - cbn [app nth]. rewrite peval_cons. lra.
Qed.

(* Reproduction: when the kernel-weighted local design has full rank (the quadratic form is definite), EVERY solution of
   the local normal equations of polynomial responses of degree <= p has the polynomial's value at the query point as
   its intercept — the estimate LocalPolynomial.predict returns there. *)
Theorem lp_polynomial_reproduced p x0 h w (a xs beta : list R) : h <> 0 -> (length a <= S p)%nat ->
  length beta = S p ->
  (forall c, length c = S p -> dotR c (AopR (S p) (design_1d opsR p x0 h xs) w [] c) = 0 -> c = zerosR (S p)) ->
  AopR (S p) (design_1d opsR p x0 h xs) w [] beta = rhsR (S p) (design_1d opsR p x0 h xs) w (map (pevalR a) xs) ->
  nth 0 beta 0 = pevalR a x0.
Proof.
  intros Hh Ha Hb Hdef E.
  assert (Z : vsubR beta (local_coef p x0 h a) = zerosR (S p)).
  { apply (lp_unique (S p) (design_1d opsR p x0 h xs) w); try assumption.
    - apply design_1d_wf.
    - apply local_coef_length. exact Ha.
    - rewrite E. symmetry. apply poly_solves_local_equations; assumption. }
  assert (N : nth 0 (vsubR beta (local_coef p x0 h a)) 0 = 0) by (rewrite Z; apply nth_zeros).
  unfold vsub in N. rewrite (nth_map2 _ _ _ 0%nat 0 0 0) in N by (rewrite ?Hb, ?local_coef_length by exact Ha; lia).
  cbn [osub oadd oopp opsR] in N. rewrite local_coef_intercept in N. unfold osub in N. cbn in N. lra.
Qed.
