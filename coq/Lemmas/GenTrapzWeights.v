(* Lemmas/GenTrapzWeights.v — _integration_weights(method="trapz") TRANSLATED from /repo/FDApy/misc/utils.py on every
   run (Gen/TrapzWeights.v) is Base.Quad.trapz_w. *)
From Coq Require Import List Bool Arith Reals Lra Lia.
From FDAV Require Import Base.Num Base.Vec Base.Quad Lemmas.Vec Lemmas.Quad Gen.TrapzWeights.
Import ListNotations.
Local Open Scope R_scope.

Lemma half_const : odiv opsR (oofnat opsR 1) (oofnat opsR 2) = / 2.
Proof. cbn. rewrite Rdiv0_nz by lra. lra. Qed.

Lemma vscaleR_cons c a x : vscale opsR c (a :: x) = c * a :: vscale opsR c x.
Proof. reflexivity. Qed.
Lemma vsubR_cons a x b y : vsub opsR (a :: x) (b :: y) = (a - b) :: vsub opsR x y.
Proof. unfold vsub. cbn [map2]. rewrite osubR. reflexivity. Qed.

Lemma trapz_w_from_gen : forall x' a b,
  trapz_w_from opsR (b :: x') a =
  vscale opsR (/ 2) (vsub opsR x' (firstn (length x') (a :: b :: x'))
                     ++ [osub opsR (nth (S (length x')) (a :: b :: x') 0) (nth (length x') (a :: b :: x') 0)]).
Proof.
  induction x' as [|c x'' IH]; intros a b.
  - rewrite trapz_w_from_single. cbn [length firstn vsub map2 app nth].
    unfold osub. cbn. f_equal. lra.
  - rewrite trapz_w_from_cons, IH. cbn [length firstn]. rewrite vsubR_cons.
    cbn [app]. rewrite vscaleR_cons. f_equal. lra.
Qed.

Theorem gen_trapz_weights_is_model x : (2 <= length x)%nat -> gen_trapz_weights opsR x = trapz_w opsR x.
Proof.
  destruct x as [|a [|b x']]; cbn [length]; intros H; try lia.
  unfold gen_trapz_weights. rewrite half_const.
  change (trapz_w opsR (a :: b :: x')) with (ohalf opsR (osub opsR b a) :: trapz_w_from opsR (b :: x') a).
  rewrite trapz_w_from_gen.
  cbn [length nth skipn]. replace (S (S (length x')) - 2)%nat with (length x') by lia.
  replace (S (S (length x')) - 1)%nat with (S (length x')) by lia.
  rewrite firstn_all. cbn [app]. rewrite vscaleR_cons. f_equal.
  rewrite ohalfR, osubR. lra.
Qed.

(* _integration_weights(method="trapz") as it stands in the source gives the trapezoid rule as a weighted sum *)
Theorem source_trapz_weights x y : (2 <= length x)%nat -> length x = length y ->
  trapz opsR x y = dot opsR (gen_trapz_weights opsR x) y.
Proof. intros H L. rewrite gen_trapz_weights_is_model by exact H. apply trapz_is_weighted_sum. exact L. Qed.
