(* Lemmas/Mfpca.v — multivariate FPCA by the covariance method (C04), at R. *)
From Coq Require Import List Bool Reals Lra Lia Arith.
From FDAV Require Import Base.Num Base.Vec Model.Stats Model.Mfpca
  Lemmas.Vec Lemmas.Gram Lemmas.Stats Lemmas.Ufpca Lemmas.Scores.
Import ListNotations.
Local Open Scope R_scope.

(* a matrix acting symmetrically *)
Definition symm (A : list (list R)) : Prop := forall x y, dotR (mvR A x) y = dotR x (mvR A y).

(* eigenvectors of the NON-symmetric product G Q for distinct eigenvalues are Q-orthogonal *)
Theorem GQ_eigvecs_Q_orthogonal G Q cj ck nuj nuk : symm G -> symm Q ->
  mvR G (mvR Q cj) = vscaleR nuj cj -> mvR G (mvR Q ck) = vscaleR nuk ck -> nuj <> nuk ->
  dotR cj (mvR Q ck) = 0.
Proof.
  intros HG HQ Ej Ek Hne.
  assert (A : dotR (mvR Q cj) (mvR G (mvR Q ck)) = nuk * dotR cj (mvR Q ck)).
  { rewrite Ek, dot_vscale_r. rewrite (HQ cj ck). reflexivity. }
  assert (B : dotR (mvR Q cj) (mvR G (mvR Q ck)) = nuj * dotR cj (mvR Q ck)).
  { rewrite <- (HG (mvR Q cj) (mvR Q ck)). rewrite Ej, dot_vscale_l. reflexivity. }
  assert ((nuk - nuj) * dotR cj (mvR Q ck) = 0) by lra.
  apply Rmult_integral in H. destruct H; [lra|assumption].
Qed.

(* the multivariate eigenfunctions are orthonormal for the product-space inner product a^T G b:
   a_k = (nf_k / r_k) Q c_k with r_k^2 = nu_k <> 0 and nf_k^2 (c_k^T Q c_k) = 1 *)
Theorem mfpca_coef_inner G Q cj ck nuk nfj nfk rj rk : symm Q -> rj <> 0 -> rk <> 0 ->
  mvR G (mvR Q ck) = vscaleR nuk ck ->
  dotR (mfpca_coef opsR Q cj nfj rj) (mvR G (mfpca_coef opsR Q ck nfk rk)) =
  (nfj / rj) * (nfk / rk) * nuk * dotR cj (mvR Q ck).
Proof.
  intros HQ Hj Hk Ek. unfold mfpca_coef. cbn [odiv opsR]. rewrite !Rdiv0_nz by assumption.
  rewrite mv_vscale, dot_vscale_l, dot_vscale_r, Ek, dot_vscale_r.
  rewrite (HQ cj ck). ring.
Qed.

Theorem mfpca_orthogonal G Q cj ck nuj nuk nfj nfk rj rk : symm G -> symm Q -> rj <> 0 -> rk <> 0 ->
  mvR G (mvR Q cj) = vscaleR nuj cj -> mvR G (mvR Q ck) = vscaleR nuk ck -> nuj <> nuk ->
  dotR (mfpca_coef opsR Q cj nfj rj) (mvR G (mfpca_coef opsR Q ck nfk rk)) = 0.
Proof.
  intros HG HQ Hj Hk Ej Ek Hne. rewrite (mfpca_coef_inner G Q cj ck nuk) by assumption.
  rewrite (GQ_eigvecs_Q_orthogonal G Q cj ck nuj nuk) by assumption. ring.
Qed.

Theorem mfpca_unit_norm G Q c nu nf r : symm Q -> r <> 0 -> r * r = nu ->
  mvR G (mvR Q c) = vscaleR nu c -> nf * nf * dotR c (mvR Q c) = 1 ->
  dotR (mfpca_coef opsR Q c nf r) (mvR G (mfpca_coef opsR Q c nf r)) = 1.
Proof.
  intros HQ Hr Er E Hn. rewrite (mfpca_coef_inner G Q c c nu) by assumption.
  rewrite <- Er. replace (nf / r * (nf / r) * (r * r) * dotR c (mvR Q c)) with (nf * nf * dotR c (mvR Q c)) by (field; exact Hr).
  exact Hn.
Qed.

(* ---------- block-diagonal Gram matrix = sum over the components ---------- *)
Lemma dot_app x1 : forall y1 x2 y2, length x1 = length y1 ->
  dotR (x1 ++ x2) (y1 ++ y2) = dotR x1 y1 + dotR x2 y2.
Proof.
  induction x1 as [|a x1 IH]; intros [|b y1] x2 y2 H; simpl in H; try discriminate.
  - simpl app. rewrite dot_nil_l. lra.
  - simpl app. rewrite !dot_cons, IH by lia. lra.
Qed.
Lemma dot_zeros_r n x : dotR x (zerosR n) = 0.
Proof. rewrite dot_comm. apply dot_zeros_l. Qed.

Lemma mv_blockdiag_cons (G : list (list R)) Gs x y :
  Forall (fun r => length r = length G) G -> length x = length G ->
  mvR (blockdiag opsR (G :: Gs)) (x ++ y) = mvR G x ++ mvR (blockdiag opsR Gs) y.
Proof.
  intros HG Hx. cbn [blockdiag]. unfold mv. rewrite map_app, !map_map. f_equal.
  - apply map_ext_in. intros row Hrow. rewrite Forall_forall in HG.
    rewrite dot_app by (rewrite (HG row Hrow); lia). rewrite dot_zeros_l. lra.
  - apply map_ext. intros row. rewrite dot_app by (rewrite zeros_length; lia). rewrite dot_zeros_l. lra.
Qed.

(* the per-component slices are exactly the pieces belonging to each component, for DIFFERENT
   sizes per component:  a^T blockdiag(Gs) b = sum_p a_p^T G_p b_p *)
Theorem block_split_sound : forall (Gs : list (list (list R))) (As Bs : list (list R)),
  Forall (fun G => Forall (fun r => length r = length G) G) Gs ->
  Forall2 (fun G a => length a = length G) Gs As -> Forall2 (fun G b => length b = length G) Gs Bs ->
  dotR (concat As) (mvR (blockdiag opsR Gs) (concat Bs)) = prod_inner opsR Gs As Bs.
Proof.
  induction Gs as [|G Gs IH]; intros As Bs HG HA HB.
  - inversion HA; inversion HB; subst. reflexivity.
  - inversion HA as [|? a ? As' Ha HA']; inversion HB as [|? b ? Bs' Hb HB']; subst.
    inversion HG as [|? ? HG1 HG2]; subst.
    simpl concat. rewrite mv_blockdiag_cons by assumption.
    rewrite dot_app by (rewrite mv_length; exact Ha).
    rewrite IH by assumption. unfold prod_inner. simpl. cbn. reflexivity.
Qed.

Theorem split_sizes_concat : forall (As : list (list R)),
  split_sizes (map (@length R) As) (concat As) = As.
Proof.
  induction As as [|a As IH]; [reflexivity|].
  simpl. rewrite firstn_app, Nat.sub_diag, firstn_all, firstn_O, app_nil_r.
  rewrite skipn_app, Nat.sub_diag, skipn_all. simpl. rewrite IH. reflexivity.
Qed.

(* ---------- PACE scores with orthonormal univariate bases (G = I): uncorrelated, variance nu ---------- *)
Theorem pace_scores_uncorrelated Q cj ck nuk :
  mvR Q ck = vscaleR nuk ck -> dotR cj (mvR Q ck) = nuk * dotR cj ck.
Proof. intros E. rewrite E, dot_vscale_r. reflexivity. Qed.

(* sample covariance of two score columns S c_j, S c_k is c_j^T Q c_k with Q the covariance of S:
   stated on the centred score matrix Sc (n rows): (Sc c_j).(Sc c_k)/(n-1) = c_j^T Q c_k *)
Theorem score_cov_is_quadratic_form M Sc cj ck : Forall (fun r => length r = M) Sc -> (2 <= length Sc)%nat ->
  dotR (mvR Sc cj) (mvR Sc ck) / INR (length Sc - 1) =
  dotR cj (mvR (cov_of_cols opsR (length Sc) (transpose M Sc)) ck).
Proof.
  intros HS Hn.
  rewrite !(mv_as_columns M Sc) by exact HS.
  destruct (transpose_rows M Sc HS) as [TL TF].
  rewrite <- (dotgram_bilinear (length Sc)) by exact TF.
  rewrite mv_cov_of_cols by exact Hn. rewrite dot_vscale_r.
  assert (INR (length Sc - 1) <> 0).
  { destruct (length Sc) as [|[|n']]; try lia. replace (S (S n') - 1)%nat with (S n') by lia.
    rewrite S_INR. pose proof (pos_INR n'). lra. }
  field. assumption.
Qed.
