(* Lemmas/Quad.v — facts about the quadrature model (Base/Quad.v) at R. *)
From Coq Require Import List Bool Reals Lra Lia.
From FDAV Require Import Base.Num Base.Vec Base.Quad Lemmas.Vec.
Import ListNotations.
Local Open Scope R_scope.

Notation trapzR := (trapz opsR).
Notation trapz_wR := (trapz_w opsR).
Notation innerR := (inner opsR).
Notation normsqR := (normsq opsR).

Fixpoint nondec (x : list R) : Prop :=
  match x with
  | a :: ((b :: _) as x') => a <= b /\ nondec x'
  | _ => True
  end.

Lemma trapz_cons2 a b x ya yb y :
  trapzR (a :: b :: x) (ya :: yb :: y) = (b - a) * (ya + yb) / 2 + trapzR (b :: x) (yb :: y).
Proof. cbn [trapz]. rewrite ohalfR. reflexivity. Qed.
Lemma trapz_single a ya : trapzR [a] ya = 0.
Proof. destruct ya; reflexivity. Qed.

Lemma trapz_w_from_cons a b x prev :
  trapz_w_from opsR (a :: b :: x) prev = (b - prev) / 2 :: trapz_w_from opsR (b :: x) a.
Proof. cbn [trapz_w_from]. rewrite ohalfR. reflexivity. Qed.
Lemma trapz_w_from_single a prev : trapz_w_from opsR [a] prev = [(a - prev) / 2].
Proof. cbn [trapz_w_from]. rewrite ohalfR. reflexivity. Qed.

Lemma trapz_w_length x : (2 <= length x)%nat -> length (trapz_wR x) = length x.
Proof.
  destruct x as [|a [|b x]]; cbn [length]; try lia. intros _.
  change (trapz_wR (a :: b :: x)) with (ohalf opsR (b - a) :: trapz_w_from opsR (b :: x) a).
  cbn [length]. f_equal.
  revert a b; induction x as [|c x IH]; intros a b; [reflexivity|].
  rewrite trapz_w_from_cons. cbn [length]. f_equal. apply IH.
Qed.

(* integration agrees with its own quadrature weights *)
Lemma trapz_w_from_dot x : forall a b y yb, length x = length y ->
  dotR (trapz_w_from opsR (b :: x) a) (yb :: y) = (b - a) / 2 * yb + trapzR (b :: x) (yb :: y).
Proof.
  induction x as [|c x IH]; intros a b y yb H; destruct y as [|yc y]; simpl in H; try discriminate.
  - rewrite trapz_w_from_single, trapz_single. cbn. lra.
  - rewrite trapz_w_from_cons, dot_cons, trapz_cons2, IH by lia. lra.
Qed.

Theorem trapz_is_weighted_sum x y : length x = length y -> trapzR x y = dotR (trapz_wR x) y.
Proof.
  destruct x as [|a [|b x]]; destruct y as [|ya [|yb y]]; cbn [length]; intros H; try discriminate;
    try reflexivity.
  change (trapz_wR (a :: b :: x)) with (ohalf opsR (b - a) :: trapz_w_from opsR (b :: x) a).
  rewrite ohalfR, dot_cons, trapz_w_from_dot by lia.
  rewrite trapz_cons2. lra.
Qed.

(* weights are non-negative on a sorted grid *)
Lemma trapz_w_from_nonneg x : forall prev, nondec (prev :: x) ->
  Forall (fun c => 0 <= c) (trapz_w_from opsR x prev).
Proof.
  induction x as [|a x IH]; intros prev H; [constructor|].
  destruct x as [|b x].
  - rewrite trapz_w_from_single. constructor; [|constructor]. simpl in H. lra.
  - rewrite trapz_w_from_cons. simpl in H. destruct H as (H1 & H2 & H3).
    constructor; [lra|]. apply IH. simpl. split; assumption.
Qed.
Theorem trapz_w_nonneg x : nondec x -> Forall (fun c => 0 <= c) (trapz_wR x).
Proof.
  destruct x as [|a [|b x]]; intros H; try constructor.
  - rewrite ohalfR, osubR. simpl in H. lra.
  - apply trapz_w_from_nonneg. simpl in H. simpl. tauto.
Qed.

(* linearity *)
Theorem trapz_vadd x : forall y z, length y = length z ->
  trapzR x (vaddR y z) = trapzR x y + trapzR x z.
Proof.
  induction x as [|a x IH]; intros y z H; [cbn; lra|].
  destruct x as [|b x].
  - rewrite !trapz_single. lra.
  - destruct y as [|ya [|yb y]], z as [|za [|zb z]]; simpl in H; try discriminate; try (cbn; lra).
    change (vaddR (ya :: yb :: y) (za :: zb :: z)) with ((ya + za) :: vaddR (yb :: y) (zb :: z)).
    change (vaddR (yb :: y) (zb :: z)) with ((yb + zb) :: vaddR y z) at 1.
    rewrite !trapz_cons2.
    change ((yb + zb) :: vaddR y z) with (vaddR (yb :: y) (zb :: z)).
    rewrite IH by (simpl; lia). lra.
Qed.

Theorem trapz_vscale c x : forall y, trapzR x (vscaleR c y) = c * trapzR x y.
Proof.
  induction x as [|a x IH]; intros y; [cbn; lra|].
  destruct x as [|b x].
  - rewrite !trapz_single. lra.
  - destruct y as [|ya [|yb y]]; try (cbn; lra).
    change (vscaleR c (ya :: yb :: y)) with (c * ya :: c * yb :: vscaleR c y).
    rewrite !trapz_cons2.
    change (c * yb :: vscaleR c y) with (vscaleR c (yb :: y)).
    rewrite IH. lra.
Qed.

(* exact for affine integrands; additivity over adjacent grids (Chasles) *)
Fixpoint lastR (x : list R) (d : R) : R := match x with [] => d | a :: x' => lastR x' a end.

Theorem trapz_affine_exact al be x : forall a,
  trapzR (a :: x) (map (fun t => al * t + be) (a :: x)) =
  al * (lastR x a * lastR x a - a * a) / 2 + be * (lastR x a - a).
Proof.
  induction x as [|b x IH]; intros a.
  - rewrite trapz_single. simpl. lra.
  - change (map (fun t => al * t + be) (a :: b :: x))
      with ((al * a + be) :: (al * b + be) :: map (fun t => al * t + be) x).
    rewrite trapz_cons2.
    change ((al * b + be) :: map (fun t => al * t + be) x) with (map (fun t => al * t + be) (b :: x)).
    rewrite IH. simpl. lra.
Qed.

Theorem trapz_chasles x1 : forall y1 c yc x2 y2, length x1 = length y1 ->
  trapzR (x1 ++ c :: x2) (y1 ++ yc :: y2) = trapzR (x1 ++ [c]) (y1 ++ [yc]) + trapzR (c :: x2) (yc :: y2).
Proof.
  induction x1 as [|a x1 IH]; intros y1 c yc x2 y2 H; destruct y1 as [|ya y1]; simpl in H; try discriminate.
  - simpl app. rewrite trapz_single. lra.
  - destruct x1 as [|b x1]; destruct y1 as [|yb y1]; simpl in H; try discriminate.
    + simpl app. rewrite !trapz_cons2, trapz_single. lra.
    + change ((a :: b :: x1) ++ c :: x2) with (a :: b :: (x1 ++ c :: x2)).
      change ((ya :: yb :: y1) ++ yc :: y2) with (ya :: yb :: (y1 ++ yc :: y2)).
      change ((a :: b :: x1) ++ [c]) with (a :: b :: (x1 ++ [c])).
      change ((ya :: yb :: y1) ++ [yc]) with (ya :: yb :: (y1 ++ [yc])).
      rewrite !trapz_cons2.
      specialize (IH (yb :: y1) c yc x2 y2). simpl app in IH. rewrite IH by (simpl; lia). lra.
Qed.

(* ---------- inner product, norm ---------- *)
Lemma inner_as_wdot x f g : length f = length x -> length g = length x ->
  innerR x f g = wdotR (trapz_wR x) f g.
Proof.
  intros Hf Hg. unfold inner, wdot. apply trapz_is_weighted_sum.
  rewrite vmul_length. lia.
Qed.

Theorem inner_comm x f g : innerR x f g = innerR x g f.
Proof.
  unfold inner. f_equal. revert g; induction f as [|a f IH]; intros [|b g]; try reflexivity.
  change (vmulR (a :: f) (b :: g)) with (a * b :: vmulR f g).
  change (vmulR (b :: g) (a :: f)) with (b * a :: vmulR g f). rewrite IH. f_equal. lra.
Qed.

Theorem normsq_nonneg x f : nondec x -> length f = length x -> 0 <= normsqR x f.
Proof.
  intros Hx Hf. unfold normsq. rewrite inner_as_wdot by assumption.
  apply wdot_self_nonneg. apply trapz_w_nonneg. exact Hx.
Qed.

Theorem cauchy_schwarz x f g : nondec x -> length f = length x -> length g = length x ->
  innerR x f g * innerR x f g <= normsqR x f * normsqR x g.
Proof.
  intros Hx Hf Hg. unfold normsq. rewrite !inner_as_wdot by assumption.
  apply wdot_cauchy_schwarz. apply trapz_w_nonneg. exact Hx.
Qed.

Lemma vmul_vscale c f g : vmulR (vscaleR c f) g = vscaleR c (vmulR f g).
Proof.
  revert g; induction f as [|a f IH]; intros [|b g]; try reflexivity.
  change (vmulR (vscaleR c (a :: f)) (b :: g)) with (c * a * b :: vmulR (vscaleR c f) g).
  change (vscaleR c (vmulR (a :: f) (b :: g))) with (c * (a * b) :: vscaleR c (vmulR f g)).
  rewrite IH. f_equal. lra.
Qed.

Theorem inner_vscale_l c x f g : innerR x (vscaleR c f) g = c * innerR x f g.
Proof. unfold inner. rewrite vmul_vscale. apply trapz_vscale. Qed.

Theorem normsq_homogeneous c x f : normsqR x (vscaleR c f) = c * c * normsqR x f.
Proof.
  unfold normsq. rewrite inner_vscale_l, (inner_comm x f), inner_vscale_l. lra.
Qed.

Lemma vmul_vadd_l f : forall g h, vmulR (vaddR f g) h = vaddR (vmulR f h) (vmulR g h).
Proof.
  induction f as [|a f IH]; intros [|b g] [|c h]; try reflexivity.
  change (vmulR (vaddR (a :: f) (b :: g)) (c :: h)) with ((a + b) * c :: vmulR (vaddR f g) h).
  change (vaddR (vmulR (a :: f) (c :: h)) (vmulR (b :: g) (c :: h)))
    with (a * c + b * c :: vaddR (vmulR f h) (vmulR g h)).
  rewrite IH. f_equal. lra.
Qed.

Theorem inner_vadd_l x f g h : length f = length g -> length g = length h ->
  innerR x (vaddR f g) h = innerR x f h + innerR x g h.
Proof.
  intros H1 H2. unfold inner. rewrite vmul_vadd_l. apply trapz_vadd.
  rewrite !vmul_length. lia.
Qed.

Theorem normsq_vadd x f g : length f = length g ->
  normsqR x (vaddR f g) = normsqR x f + 2 * innerR x f g + normsqR x g.
Proof.
  intros H. unfold normsq.
  rewrite inner_vadd_l by (rewrite ?vadd_length; lia).
  rewrite (inner_comm x f (vaddR f g)), (inner_comm x g (vaddR f g)).
  rewrite !inner_vadd_l by lia. rewrite (inner_comm x g f). lra.
Qed.

(* triangle inequality for the norm, the square roots being oracle values *)
Theorem triangle x f g a b c : nondec x -> length f = length x -> length g = length x ->
  0 <= a -> 0 <= b -> 0 <= c ->
  a * a = normsqR x f -> b * b = normsqR x g -> c * c = normsqR x (vaddR f g) -> c <= a + b.
Proof.
  intros Hx Hf Hg Ha Hb Hc Ea Eb Ec.
  eapply (triangle_from_cs (normsqR x f) (normsqR x g) (normsqR x (vaddR f g)) (innerR x f g));
    eauto.
  - apply cauchy_schwarz; assumption.
  - apply normsq_vadd. lia.
Qed.

(* ---------- product grids: iterated trapezoid rule factorises ---------- *)
Lemma vadd_vscale_same a b g : vaddR (vscaleR a g) (vscaleR b g) = vscaleR (a + b) g.
Proof.
  induction g as [|c g IH]; [reflexivity|].
  change (vaddR (vscaleR a (c :: g)) (vscaleR b (c :: g)))
    with (a * c + b * c :: vaddR (vscaleR a g) (vscaleR b g)).
  rewrite IH. change (vscaleR (a + b) (c :: g)) with ((a + b) * c :: vscaleR (a + b) g). f_equal. lra.
Qed.
Lemma vscale_zero g : vscaleR 0 g = zerosR (length g).
Proof.
  induction g as [|c g IH]; [reflexivity|].
  change (vscaleR 0 (c :: g)) with (0 * c :: vscaleR 0 g).
  change (zerosR (length (c :: g))) with (0 :: zerosR (length g)). rewrite IH. f_equal. lra.
Qed.
Lemma map_vscale (h : R -> R) c k g : (forall s, h (c * s) = k * s) -> map h (vscaleR c g) = vscaleR k g.
Proof. intros H. unfold vscale. rewrite map_map. apply map_ext. intros s. apply H. Qed.

Lemma trapz_rows_cons2 a b x ya yb Y n :
  trapz_rows opsR (a :: b :: x) (ya :: yb :: Y) n =
  vaddR (map (fun s => ohalf opsR (omul opsR (osub opsR b a) s)) (vaddR ya yb))
        (trapz_rows opsR (b :: x) (yb :: Y) n).
Proof. reflexivity. Qed.

Lemma trapz_rows_outer g : forall x f, length x = length f ->
  trapz_rows opsR x (outer opsR f g) (length g) = vscaleR (trapzR x f) g.
Proof.
  induction x as [|a x IH]; intros f H; destruct f as [|fa f]; simpl in H; try discriminate.
  - cbn [trapz_rows trapz]. symmetry. apply vscale_zero.
  - destruct x as [|b x]; destruct f as [|fb f]; simpl in H; try discriminate.
    + rewrite trapz_single. cbn [trapz_rows]. symmetry. apply vscale_zero.
    + change (outer opsR (fa :: fb :: f) g) with (vscaleR fa g :: vscaleR fb g :: outer opsR f g).
      rewrite trapz_rows_cons2. change (vscaleR fb g :: outer opsR f g) with (outer opsR (fb :: f) g).
      rewrite IH by (simpl; lia). rewrite vadd_vscale_same.
      rewrite (map_vscale _ (fa + fb) ((b - a) * (fa + fb) / 2)).
      2:{ intros s. rewrite ohalfR. cbn. lra. }
      rewrite vadd_vscale_same, trapz_cons2. reflexivity.
Qed.

Theorem trapz_product_grid x1 x2 f g : length x1 = length f -> length x2 = length g ->
  trapz2 opsR x1 x2 (outer opsR f g) = trapzR x1 f * trapzR x2 g.
Proof.
  intros H1 H2. unfold trapz2. rewrite H2, trapz_rows_outer by exact H1. apply trapz_vscale.
Qed.

(* absolute homogeneity of the norm, square roots being oracle values *)
Theorem norm_abs_homogeneous c x f a b : 0 <= a -> 0 <= b ->
  a * a = normsqR x f -> b * b = normsqR x (vscaleR c f) -> b = Rabs c * a.
Proof.
  intros Ha Hb Ea Eb. rewrite normsq_homogeneous, <- Ea in Eb.
  apply Rsqr_inj; [exact Hb|apply Rmult_le_pos; [apply Rabs_pos|exact Ha]|].
  unfold Rsqr. rewrite Eb.
  replace (Rabs c * a * (Rabs c * a)) with ((Rabs c * Rabs c) * (a * a)) by ring.
  rewrite <- Rabs_mult. rewrite (Rabs_pos_eq (c * c)) by nra. ring.
Qed.
