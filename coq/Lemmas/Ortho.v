(* Lemmas/Ortho.v — orthonormality of the Wiener functions on [0,1] and of the Fourier functions on the
   interval spanned by the grid (C18), as theorems about Riemann integrals (Coquelicot RInt), by explicit
   antiderivatives. *)
From Coq Require Import Reals Lra Lia ZArith.
From Coquelicot Require Import Coquelicot.
Local Open Scope R_scope.

Lemma sin_nPI (n : Z) : sin (IZR n * PI) = 0.
Proof. apply sin_eq_0_1. exists n. reflexivity. Qed.

Lemma is_RInt_cos_lin c a b : c <> 0 ->
  is_RInt (fun t => cos (c * t)) a b (sin (c * b) / c - sin (c * a) / c).
Proof.
  intros Hc.
  evar_last.
  - apply (is_RInt_derive (fun t => sin (c * t) / c) (fun t => cos (c * t))).
    + intros x _. auto_derive; [exact I|]. field. exact Hc.
    + intros x _. apply (@ex_derive_continuous R_AbsRing R_NormedModule). auto_derive. exact I.
  - reflexivity.
Qed.
Lemma is_RInt_sin_lin c a b : c <> 0 ->
  is_RInt (fun t => sin (c * t)) a b (- cos (c * b) / c - - cos (c * a) / c).
Proof.
  intros Hc.
  evar_last.
  - apply (is_RInt_derive (fun t => - cos (c * t) / c) (fun t => sin (c * t))).
    + intros x _. auto_derive; [exact I|]. field. exact Hc.
    + intros x _. apply (@ex_derive_continuous R_AbsRing R_NormedModule). auto_derive. exact I.
  - reflexivity.
Qed.
Lemma is_RInt_c v a b : is_RInt (fun _ : R => v) a b ((b - a) * v).
Proof. apply (is_RInt_const a b v). Qed.

Lemma is_RInt_val (f : R -> R) a b (v v' : R) : is_RInt f a b v -> @eq R v v' -> is_RInt f a b v'.
Proof. intros H <-. exact H. Qed.
Lemma is_RInt_scalR (f : R -> R) a b k v : is_RInt f a b v -> is_RInt (fun t => scal k (f t)) a b (k * v).
Proof. intros H. exact (is_RInt_scal (V:=R_NormedModule) f a b k v H). Qed.
Lemma is_RInt_plusR (f g : R -> R) a b v w : is_RInt f a b v -> is_RInt g a b w ->
  is_RInt (fun t => plus (f t) (g t)) a b (v + w).
Proof. intros H1 H2. exact (is_RInt_plus (V:=R_NormedModule) f g a b v w H1 H2). Qed.
Lemma is_RInt_minusR (f g : R -> R) a b v w : is_RInt f a b v -> is_RInt g a b w ->
  is_RInt (fun t => minus (f t) (g t)) a b (v - w).
Proof. intros H1 H2. exact (is_RInt_minus (V:=R_NormedModule) f g a b v w H1 H2). Qed.

Lemma prod_sin_sin x y : 2 * (sin x * sin y) = cos (x - y) - cos (x + y).
Proof. rewrite cos_minus, cos_plus. lra. Qed.
Lemma prod_cos_cos x y : 2 * (cos x * cos y) = cos (x - y) + cos (x + y).
Proof. rewrite cos_minus, cos_plus. lra. Qed.
Lemma prod_sin_cos x y : 2 * (sin x * cos y) = sin (x + y) + sin (x - y).
Proof. rewrite sin_plus, sin_minus. lra. Qed.

(* ---------- Wiener functions: sqrt 2 * sin ((k - 1/2) pi t), k >= 1, orthonormal on [0,1] ---------- *)
Definition wiener (k : nat) (t : R) : R := sqrt 2 * sin ((INR k - 1 / 2) * PI * t).

Lemma sqrt2_sq : sqrt 2 * sqrt 2 = 2.
Proof. apply sqrt_sqrt. lra. Qed.

Lemma wiener_product j k t :
  wiener j t * wiener k t =
  cos ((INR j - INR k) * PI * t) - cos ((INR j + INR k - 1) * PI * t).
Proof.
  unfold wiener.
  replace (sqrt 2 * sin ((INR j - 1 / 2) * PI * t) * (sqrt 2 * sin ((INR k - 1 / 2) * PI * t)))
    with ((sqrt 2 * sqrt 2) * (sin ((INR j - 1 / 2) * PI * t) * sin ((INR k - 1 / 2) * PI * t))) by ring.
  rewrite sqrt2_sq, prod_sin_sin. f_equal; f_equal; field.
Qed.

Lemma INR_sub_Z j k : INR j - INR k = IZR (Z.of_nat j - Z.of_nat k).
Proof. rewrite minus_IZR, <- !INR_IZR_INZ. reflexivity. Qed.
Lemma INR_add1_Z j k : INR j + INR k - 1 = IZR (Z.of_nat j + Z.of_nat k - 1).
Proof. rewrite minus_IZR, plus_IZR, <- !INR_IZR_INZ. reflexivity. Qed.

Theorem wiener_orthogonal j k : (1 <= j)%nat -> (1 <= k)%nat -> j <> k ->
  is_RInt (fun t => wiener j t * wiener k t) 0 1 0.
Proof.
  intros Hj Hk Hne.
  apply (is_RInt_ext (fun t => minus (cos ((INR j - INR k) * PI * t)) (cos ((INR j + INR k - 1) * PI * t)))).
  { intros t _. rewrite wiener_product. reflexivity. }
  assert (Ha : (INR j - INR k) * PI <> 0).
  { apply Rmult_integral_contrapositive_currified; [|pose proof PI_RGT_0; lra].
    intros E. apply Hne. apply INR_eq. lra. }
  assert (Hb : (INR j + INR k - 1) * PI <> 0).
  { apply Rmult_integral_contrapositive_currified; [|pose proof PI_RGT_0; lra].
    apply le_INR in Hj. apply le_INR in Hk. simpl in Hj, Hk. lra. }
  evar_last.
  - apply (is_RInt_minus (fun t => cos ((INR j - INR k) * PI * t)) (fun t => cos ((INR j + INR k - 1) * PI * t))).
    + apply (is_RInt_cos_lin _ 0 1 Ha).
    + apply (is_RInt_cos_lin _ 0 1 Hb).
  - unfold minus, plus, opp; simpl. rewrite !Rmult_0_r, !Rmult_1_r, sin_0.
    rewrite INR_sub_Z, INR_add1_Z, !sin_nPI. unfold Rdiv. lra.
Qed.

Theorem wiener_unit_norm k : (1 <= k)%nat -> is_RInt (fun t => wiener k t * wiener k t) 0 1 1.
Proof.
  intros Hk.
  apply (is_RInt_ext (fun t => minus 1 (cos ((INR k + INR k - 1) * PI * t)))).
  { intros t _. rewrite wiener_product. replace ((INR k - INR k) * PI * t) with 0 by ring. rewrite cos_0. reflexivity. }
  assert (Hb : (INR k + INR k - 1) * PI <> 0).
  { apply Rmult_integral_contrapositive_currified; [|pose proof PI_RGT_0; lra].
    apply le_INR in Hk. simpl in Hk. lra. }
  evar_last.
  - apply (is_RInt_minus (fun _ => 1) (fun t => cos ((INR k + INR k - 1) * PI * t))).
    + apply (is_RInt_c 1 0 1).
    + apply (is_RInt_cos_lin _ 0 1 Hb).
  - unfold minus, plus, opp; simpl. rewrite !Rmult_0_r, !Rmult_1_r, sin_0.
    rewrite INR_add1_Z, sin_nPI. unfold Rdiv. lra.
Qed.

(* ---------- Fourier functions on [a, b], L = b - a > 0 ---------- *)
Section Fourier.
  Variables a b : R.
  Hypothesis Hab : a < b.
  Let L := b - a.
  Definition xx (t : R) : R := 2 * PI * (t - a) / (b - a) - PI.
  Definition f_const (t : R) : R := 1 / sqrt (b - a).
  Definition f_cos (m : nat) (t : R) : R := sqrt (2 / (b - a)) * cos (INR m * xx t).
  Definition f_sin (m : nat) (t : R) : R := sqrt (2 / (b - a)) * sin (INR m * xx t).

  Lemma L_pos : 0 < b - a. Proof. lra. Qed.
  Lemma sqrtL_sq : sqrt (b - a) * sqrt (b - a) = b - a.
  Proof. apply sqrt_sqrt. lra. Qed.
  Lemma sqrt2L_sq : sqrt (2 / (b - a)) * sqrt (2 / (b - a)) = 2 / (b - a).
  Proof. apply sqrt_sqrt. apply Rlt_le. apply Rdiv_lt_0_compat; lra. Qed.

  (* p * xx t is affine in t: c t + d *)
  Lemma pxx p t : IZR p * xx t = (IZR p * (2 * PI / (b - a))) * t + IZR p * (- 2 * PI * a / (b - a) - PI).
  Proof. unfold xx. field. lra. Qed.

  Lemma is_RInt_cos_aff c d : c <> 0 ->
    is_RInt (fun t => cos (c * t + d)) a b (sin (c * b + d) / c - sin (c * a + d) / c).
  Proof.
    intros Hc. evar_last.
    - apply (is_RInt_derive (fun t => sin (c * t + d) / c) (fun t => cos (c * t + d))).
      + intros x _. auto_derive; [exact I|]. field. exact Hc.
      + intros x _. apply (@ex_derive_continuous R_AbsRing R_NormedModule). auto_derive. exact I.
    - reflexivity.
  Qed.
  Lemma is_RInt_sin_aff c d : c <> 0 ->
    is_RInt (fun t => sin (c * t + d)) a b (- cos (c * b + d) / c - - cos (c * a + d) / c).
  Proof.
    intros Hc. evar_last.
    - apply (is_RInt_derive (fun t => - cos (c * t + d) / c) (fun t => sin (c * t + d))).
      + intros x _. auto_derive; [exact I|]. field. exact Hc.
      + intros x _. apply (@ex_derive_continuous R_AbsRing R_NormedModule). auto_derive. exact I.
    - reflexivity.
  Qed.

  Lemma xx_b : xx b = PI. Proof. unfold xx. field. lra. Qed.
  Lemma xx_a : xx a = - PI. Proof. unfold xx. field. lra. Qed.

  Lemma I_cos p : p <> 0%Z -> is_RInt (fun t => cos (IZR p * xx t)) a b 0.
  Proof.
    intros Hp.
    apply (is_RInt_ext (fun t => cos ((IZR p * (2 * PI / (b - a))) * t + IZR p * (- 2 * PI * a / (b - a) - PI)))).
    { intros t _. rewrite pxx. reflexivity. }
    assert (Hc : IZR p * (2 * PI / (b - a)) <> 0).
    { apply Rmult_integral_contrapositive_currified; [apply not_0_IZR; exact Hp|].
      pose proof PI_RGT_0. apply Rgt_not_eq. apply Rdiv_lt_0_compat; lra. }
    evar_last; [apply (is_RInt_cos_aff _ _ Hc)|].
    rewrite <- !pxx, xx_b, xx_a.
    replace (IZR p * - PI) with (IZR (- p) * PI) by (rewrite opp_IZR; ring).
    rewrite !sin_nPI. unfold Rdiv. lra.
  Qed.
  Lemma cos_nPI_sym (p : Z) : cos (IZR p * PI) = cos (IZR p * - PI).
  Proof. replace (IZR p * - PI) with (- (IZR p * PI)) by ring. rewrite cos_neg. reflexivity. Qed.
  Lemma I_sin p : is_RInt (fun t => sin (IZR p * xx t)) a b 0.
  Proof.
    destruct (Z.eq_dec p 0) as [->|Hp].
    { apply (is_RInt_ext (fun _ => 0)); [intros t _; rewrite Rmult_0_l, sin_0; reflexivity|].
      evar_last; [apply (is_RInt_c 0 a b)|]. ring. }
    apply (is_RInt_ext (fun t => sin ((IZR p * (2 * PI / (b - a))) * t + IZR p * (- 2 * PI * a / (b - a) - PI)))).
    { intros t _. rewrite pxx. reflexivity. }
    assert (Hc : IZR p * (2 * PI / (b - a)) <> 0).
    { apply Rmult_integral_contrapositive_currified; [apply not_0_IZR; exact Hp|].
      pose proof PI_RGT_0. apply Rgt_not_eq. apply Rdiv_lt_0_compat; lra. }
    evar_last; [apply (is_RInt_sin_aff _ _ Hc)|].
    rewrite <- !pxx, xx_b, xx_a. rewrite <- cos_nPI_sym. unfold Rdiv. lra.
  Qed.
  Lemma I_cos0 : is_RInt (fun t => cos (IZR 0 * xx t)) a b (b - a).
  Proof.
    apply (is_RInt_ext (fun _ => 1)); [intros t _; rewrite Rmult_0_l, cos_0; reflexivity|].
    evar_last; [apply (is_RInt_c 1 a b)|]. ring.
  Qed.

  Lemma INR_Z n : INR n = IZR (Z.of_nat n). Proof. apply INR_IZR_INZ. Qed.

  (* the constant has unit norm and is orthogonal to every sine and cosine *)
  Theorem fourier_const_norm : is_RInt (fun t => f_const t * f_const t) a b 1.
  Proof.
    apply (is_RInt_ext (fun _ => 1 / (b - a))).
    { intros t _. unfold f_const.
      assert (Hs : sqrt (b - a) <> 0) by (apply Rgt_not_eq, sqrt_lt_R0; lra).
      replace (1 / sqrt (b - a) * (1 / sqrt (b - a))) with (1 / (sqrt (b - a) * sqrt (b - a))) by (field; exact Hs).
      rewrite sqrtL_sq. reflexivity. }
    evar_last; [apply (is_RInt_c _ a b)|]. field. lra.
  Qed.
  Theorem fourier_const_cos m : (1 <= m)%nat -> is_RInt (fun t => f_const t * f_cos m t) a b 0.
  Proof.
    intros Hm.
    apply (is_RInt_ext (fun t => scal (1 / sqrt (b - a) * sqrt (2 / (b - a))) (cos (IZR (Z.of_nat m) * xx t)))).
    { intros t _. unfold f_const, f_cos, scal; simpl; unfold mult; simpl. rewrite INR_Z. ring. }
    refine (is_RInt_val _ a b (1 / sqrt (b - a) * sqrt (2 / (b - a)) * 0) _ _ _). 2:{ apply Rmult_0_r. }
    apply is_RInt_scalR. apply I_cos. lia.
  Qed.
  Theorem fourier_const_sin m : is_RInt (fun t => f_const t * f_sin m t) a b 0.
  Proof.
    apply (is_RInt_ext (fun t => scal (1 / sqrt (b - a) * sqrt (2 / (b - a))) (sin (IZR (Z.of_nat m) * xx t)))).
    { intros t _. unfold f_const, f_sin, scal; simpl; unfold mult; simpl. rewrite INR_Z. ring. }
    refine (is_RInt_val _ a b (1 / sqrt (b - a) * sqrt (2 / (b - a)) * 0) _ _ _). 2:{ apply Rmult_0_r. }
    apply is_RInt_scalR. apply I_sin.
  Qed.

  (* cosines: orthonormal among themselves *)
  Lemma cos_cos_expand m n t :
    f_cos m t * f_cos n t =
    1 / (b - a) * (cos (IZR (Z.of_nat m - Z.of_nat n) * xx t) + cos (IZR (Z.of_nat m + Z.of_nat n) * xx t)).
  Proof.
    unfold f_cos.
    replace (sqrt (2 / (b - a)) * cos (INR m * xx t) * (sqrt (2 / (b - a)) * cos (INR n * xx t)))
      with ((sqrt (2 / (b - a)) * sqrt (2 / (b - a))) / 2 * (2 * (cos (INR m * xx t) * cos (INR n * xx t)))) by field.
    rewrite sqrt2L_sq, prod_cos_cos, minus_IZR, plus_IZR, <- !INR_Z.
    replace (INR m * xx t - INR n * xx t) with ((INR m - INR n) * xx t) by ring.
    replace (INR m * xx t + INR n * xx t) with ((INR m + INR n) * xx t) by ring.
    field. lra.
  Qed.
  Theorem fourier_cos_cos m n : (1 <= m)%nat -> (1 <= n)%nat ->
    is_RInt (fun t => f_cos m t * f_cos n t) a b (if Nat.eq_dec m n then 1 else 0).
  Proof.
    intros Hm Hn.
    apply (is_RInt_ext (fun t => scal (1 / (b - a))
             (plus (cos (IZR (Z.of_nat m - Z.of_nat n) * xx t)) (cos (IZR (Z.of_nat m + Z.of_nat n) * xx t))))).
    { intros t _. rewrite cos_cos_expand. reflexivity. }
    destruct (Nat.eq_dec m n) as [->|Hne].
    - refine (is_RInt_val _ a b (1 / (b - a) * ((b - a) + 0)) _ _ _). 2:{ field; lra. }
      apply is_RInt_scalR. apply is_RInt_plusR; [rewrite Z.sub_diag; apply I_cos0|apply I_cos; lia].
    - refine (is_RInt_val _ a b (1 / (b - a) * (0 + 0)) _ _ _). 2:{ rewrite Rplus_0_r; apply Rmult_0_r. }
      apply is_RInt_scalR. apply is_RInt_plusR; apply I_cos; lia.
  Qed.

  (* sines: orthonormal among themselves *)
  Lemma sin_sin_expand m n t :
    f_sin m t * f_sin n t =
    1 / (b - a) * (cos (IZR (Z.of_nat m - Z.of_nat n) * xx t) - cos (IZR (Z.of_nat m + Z.of_nat n) * xx t)).
  Proof.
    unfold f_sin.
    replace (sqrt (2 / (b - a)) * sin (INR m * xx t) * (sqrt (2 / (b - a)) * sin (INR n * xx t)))
      with ((sqrt (2 / (b - a)) * sqrt (2 / (b - a))) / 2 * (2 * (sin (INR m * xx t) * sin (INR n * xx t)))) by field.
    rewrite sqrt2L_sq, prod_sin_sin, minus_IZR, plus_IZR, <- !INR_Z.
    replace (INR m * xx t - INR n * xx t) with ((INR m - INR n) * xx t) by ring.
    replace (INR m * xx t + INR n * xx t) with ((INR m + INR n) * xx t) by ring.
    field. lra.
  Qed.
  Theorem fourier_sin_sin m n : (1 <= m)%nat -> (1 <= n)%nat ->
    is_RInt (fun t => f_sin m t * f_sin n t) a b (if Nat.eq_dec m n then 1 else 0).
  Proof.
    intros Hm Hn.
    apply (is_RInt_ext (fun t => scal (1 / (b - a))
             (minus (cos (IZR (Z.of_nat m - Z.of_nat n) * xx t)) (cos (IZR (Z.of_nat m + Z.of_nat n) * xx t))))).
    { intros t _. rewrite sin_sin_expand. reflexivity. }
    destruct (Nat.eq_dec m n) as [->|Hne].
    - refine (is_RInt_val _ a b (1 / (b - a) * ((b - a) - 0)) _ _ _). 2:{ field; lra. }
      apply is_RInt_scalR. apply is_RInt_minusR; [rewrite Z.sub_diag; apply I_cos0|apply I_cos; lia].
    - refine (is_RInt_val _ a b (1 / (b - a) * (0 - 0)) _ _ _). 2:{ rewrite Rminus_0_r; apply Rmult_0_r. }
      apply is_RInt_scalR. apply is_RInt_minusR; apply I_cos; lia.
  Qed.

  (* every sine is orthogonal to every cosine *)
  Lemma sin_cos_expand m n t :
    f_sin m t * f_cos n t =
    1 / (b - a) * (sin (IZR (Z.of_nat m + Z.of_nat n) * xx t) + sin (IZR (Z.of_nat m - Z.of_nat n) * xx t)).
  Proof.
    unfold f_sin, f_cos.
    replace (sqrt (2 / (b - a)) * sin (INR m * xx t) * (sqrt (2 / (b - a)) * cos (INR n * xx t)))
      with ((sqrt (2 / (b - a)) * sqrt (2 / (b - a))) / 2 * (2 * (sin (INR m * xx t) * cos (INR n * xx t)))) by field.
    rewrite sqrt2L_sq, prod_sin_cos, minus_IZR, plus_IZR, <- !INR_Z.
    replace (INR m * xx t - INR n * xx t) with ((INR m - INR n) * xx t) by ring.
    replace (INR m * xx t + INR n * xx t) with ((INR m + INR n) * xx t) by ring.
    field. lra.
  Qed.
  Theorem fourier_sin_cos m n : is_RInt (fun t => f_sin m t * f_cos n t) a b 0.
  Proof.
    apply (is_RInt_ext (fun t => scal (1 / (b - a))
             (plus (sin (IZR (Z.of_nat m + Z.of_nat n) * xx t)) (sin (IZR (Z.of_nat m - Z.of_nat n) * xx t))))).
    { intros t _. rewrite sin_cos_expand. reflexivity. }
    refine (is_RInt_val _ a b (1 / (b - a) * (0 + 0)) _ _ _). 2:{ rewrite Rplus_0_r; apply Rmult_0_r. }
    apply is_RInt_scalR. apply is_RInt_plusR; apply I_sin.
  Qed.
End Fourier.
