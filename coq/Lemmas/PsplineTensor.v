(* Lemmas/PsplineTensor.v — tensor-product (2-D) P-splines reproduce products of polynomials of degree below the
   penalty order (C05, n-D case for n = 2), on the executed model: design2 = Kronecker rows, pens2 = D (x) I, I (x) D. *)
From Coq Require Import List Bool Reals Lra Lia Arith.
From FDAV Require Import Base.Num Base.Vec Model.Basis Model.Pspline
  Lemmas.Vec Lemmas.Gram Lemmas.Stats Lemmas.Basis Lemmas.Pspline Lemmas.Fcptpa Lemmas.PsplineConst.
Import ListNotations.
Local Open Scope R_scope.

Lemma mv_kron_rows (A Bm : list (list R)) (u v : list R) : Forall (fun g => length g = length v) Bm ->
  mvR (tensor_basis opsR A Bm) (kronR u v) = kronR (mvR A u) (mvR Bm v).
Proof.
  intros HB. unfold tensor_basis, mv.
  induction A as [|f A IH]; [reflexivity|].
  cbn [flat_map map]. rewrite map_app, IH. rewrite (kron_cons (dotR f u)). f_equal.
  unfold vscale. rewrite !map_map. apply map_ext_in. intros g Hg.
  rewrite dot_kron by (rewrite Forall_forall in HB; apply HB; exact Hg). reflexivity.
Qed.

Lemma tensor_basis_wf n1 n2 (A Bm : list (list R)) : wfB n1 A -> wfB n2 Bm -> wfB (n1 * n2) (tensor_basis opsR A Bm).
Proof.
  unfold wfB, tensor_basis. intros HA HB. rewrite Forall_forall in *. intros r Hr.
  apply in_flat_map in Hr. destruct Hr as [f [Hf Hr]]. apply in_map_iff in Hr. destruct Hr as [g [E Hg]]. subst r.
  rewrite kron_length, (HA f Hf), (HB g Hg). reflexivity.
Qed.

Lemma eye_row_dot n : forall i (v : list R), length v = n -> (i < n)%nat ->
  dotR (map (fun j => if Nat.eqb i j then 1 else 0) (seq 0 n)) v = nth i v 0.
Proof.
  intros i v Hv Hi. subst n.
  assert (G : forall (v : list R) s i, (s <= i)%nat -> (i < s + length v)%nat ->
            dotR (map (fun j => if Nat.eqb i j then 1 else 0) (seq s (length v))) v = nth (i - s) v 0).
  { clear. induction v as [|a v IH]; intros s i H1 H2; [simpl in H2; lia|].
    cbn [length seq map]. rewrite dot_cons. destruct (Nat.eqb i s) eqn:E.
    - apply Nat.eqb_eq in E. subst s. replace (i - i)%nat with 0%nat by lia. cbn [nth].
      assert (Z : forall (w : list R) t, (i < t)%nat -> dotR (map (fun j => if Nat.eqb i j then 1 else 0) (seq t (length w))) w = 0).
      { induction w as [|b w IHw]; intros t Ht; [rewrite dot_nil_r; reflexivity|].
        cbn [length seq map]. rewrite dot_cons, IHw by lia. replace (Nat.eqb i t) with false by (symmetry; apply Nat.eqb_neq; lia). lra. }
      rewrite Z by lia. lra.
    - apply Nat.eqb_neq in E. rewrite IH by (simpl in H2; lia).
      replace (i - s)%nat with (S (i - S s)) by lia. cbn [nth]. lra. }
  rewrite (G v 0%nat i) by lia. replace (i - 0)%nat with i by lia. reflexivity.
Qed.

Lemma mv_eye (v : list R) : mvR (eye opsR (length v)) v = v.
Proof.
  unfold eye, mv. rewrite map_map. cbn [o1 o0 opsR].
  apply list_eq_nth; [rewrite map_length, seq_length; reflexivity|].
  intros j Hj. rewrite map_length, seq_length in Hj.
  rewrite (nth_map_in _ (seq 0 (length v)) j 0 0%nat) by (rewrite seq_length; exact Hj).
  rewrite seq_nth by exact Hj. cbn [Nat.add]. apply eye_row_dot; [reflexivity|exact Hj].
Qed.
Lemma eye_wf n : wfB n (eye opsR n).
Proof. unfold wfB, eye. rewrite Forall_map. apply Forall_forall. intros i _. rewrite map_length, seq_length. reflexivity. Qed.

Lemma vscale_zeros a k : vscaleR a (zerosR k) = zerosR k.
Proof. unfold vscale, zeros. cbn [o0 omul opsR]. induction k as [|k IH]; [reflexivity|]. cbn [repeat map]. rewrite IH. f_equal. lra. Qed.
Lemma vscale0_zeros (v : list R) : vscaleR 0 v = zerosR (length v).
Proof. unfold vscale, zeros. cbn [o0 omul opsR]. induction v as [|a v IH]; [reflexivity|]. cbn [map length repeat]. rewrite IH. f_equal. lra. Qed.
Lemma zeros_app j k : zerosR j ++ zerosR k = zerosR (j + k).
Proof. unfold zeros. symmetry. apply repeat_app. Qed.

Lemma kron_zeros_l k (v : list R) : kronR (zerosR k) v = zerosR (k * length v).
Proof.
  induction k as [|k IH]; [reflexivity|].
  change (zerosR (S k)) with (0 :: zerosR k). rewrite kron_cons, IH, vscale0_zeros, zeros_app. reflexivity.
Qed.
Lemma kron_zeros_r (u : list R) k : kronR u (zerosR k) = zerosR (length u * k).
Proof.
  induction u as [|a u IH]; [reflexivity|]. rewrite kron_cons, IH, vscale_zeros, zeros_app. reflexivity.
Qed.
Lemma tensor_basis_length (A Bm : list (list R)) : length (tensor_basis opsR A Bm) = (length A * length Bm)%nat.
Proof. unfold tensor_basis. induction A as [|f A IH]; [reflexivity|]. cbn [flat_map length]. rewrite app_length, map_length, IH. reflexivity. Qed.
Lemma eye_length n : length (eye opsR n) = n.
Proof. unfold eye. rewrite map_length, seq_length. reflexivity. Qed.

(* Generic tensor-product reproduction: if the marginal coefficient vectors c1, c2 are annihilated by the marginal
   difference matrices, their Kronecker product solves the 2-D normal equations of the (row-major) product responses,
   for every pair of penalty weights. *)
Theorem tensor_solves_normal_equations nb1 nb2 d l1 l2 (R1 R2 : list (list R)) (c1 c2 w : list R) :
  wfB nb1 R1 -> wfB nb2 R2 -> length c1 = nb1 -> length c2 = nb2 ->
  mvR (diffmat opsR nb1 d) c1 = zerosR (length (diffmat opsR nb1 d)) ->
  mvR (diffmat opsR nb2 d) c2 = zerosR (length (diffmat opsR nb2 d)) ->
  AopR (nb1 * nb2) (design2 opsR R1 R2) w (pens2 opsR nb1 nb2 d l1 l2) (kronR c1 c2)
  = rhsR (nb1 * nb2) (design2 opsR R1 R2) w (kronR (mvR R1 c1) (mvR R2 c2)).
Proof.
  intros H1 H2 L1 L2 Z1 Z2. unfold design2, kron_rows.
  rewrite (reproduces_null_space' (nb1 * nb2) (tensor_basis opsR R1 R2) w).
  - unfold fitted. rewrite mv_kron_rows; [reflexivity|]. unfold wfB in H2. rewrite L2. exact H2.
  - apply tensor_basis_wf; assumption.
  - unfold pens2, wfP, kron_rows. repeat constructor; cbn [snd]; apply tensor_basis_wf;
      try apply diffmat_wf; apply eye_wf.
  - unfold pens2, kron_rows. repeat constructor; cbn [snd].
    + rewrite mv_kron_rows by (pose proof (eye_wf nb2) as W; unfold wfB in W; rewrite L2; exact W).
      rewrite Z1. rewrite <- L2 at 1. rewrite mv_eye. rewrite kron_zeros_l.
      rewrite tensor_basis_length, eye_length, L2. reflexivity.
    + rewrite mv_kron_rows by (pose proof (diffmat_wf nb2 d) as W; unfold wfB in W; rewrite L2; exact W).
      rewrite Z2. rewrite <- L1 at 1. rewrite mv_eye. rewrite kron_zeros_r.
      rewrite tensor_basis_length, eye_length, L1. reflexivity.
Qed.

Theorem tensor_reproduced nb1 nb2 d l1 l2 (R1 R2 : list (list R)) (c1 c2 w beta : list R) k :
  wfB nb1 R1 -> wfB nb2 R2 -> length c1 = nb1 -> length c2 = nb2 ->
  mvR (diffmat opsR nb1 d) c1 = zerosR (length (diffmat opsR nb1 d)) ->
  mvR (diffmat opsR nb2 d) c2 = zerosR (length (diffmat opsR nb2 d)) ->
  length beta = (nb1 * nb2)%nat -> Forall (fun v => 0 <= v) w -> 0 <= l1 -> 0 <= l2 ->
  AopR (nb1 * nb2) (design2 opsR R1 R2) w (pens2 opsR nb1 nb2 d l1 l2) beta
    = rhsR (nb1 * nb2) (design2 opsR R1 R2) w (kronR (mvR R1 c1) (mvR R2 c2)) ->
  (k < length R1 * length R2)%nat -> (k < length w)%nat -> 0 < nth k w 0 ->
  nth k (fitted opsR (design2 opsR R1 R2) beta) 0 = nth k (kronR (mvR R1 c1) (mvR R2 c2)) 0.
Proof.
  intros H1 H2 L1 L2 Z1 Z2 Lb Hw Hl1 Hl2 E Hk Hkw Hpos.
  rewrite (fitted_unique (nb1 * nb2) (design2 opsR R1 R2) w (pens2 opsR nb1 nb2 d l1 l2) beta (kronR c1 c2) k).
  - unfold fitted, design2, kron_rows. rewrite mv_kron_rows; [reflexivity|]. unfold wfB in H2. rewrite L2. exact H2.
  - unfold design2, kron_rows. apply tensor_basis_wf; assumption.
  - unfold pens2, wfP, kron_rows. repeat constructor; cbn [snd]; apply tensor_basis_wf; try apply diffmat_wf; apply eye_wf.
  - exact Lb.
  - rewrite kron_length, L1, L2. reflexivity.
  - exact Hw.
  - unfold pens2. constructor; [cbn [fst]; exact Hl1|]. constructor; [cbn [fst]; exact Hl2|constructor].
  - rewrite E. symmetry. apply tensor_solves_normal_equations; assumption.
  - unfold design2, kron_rows. rewrite tensor_basis_length. exact Hk.
  - exact Hkw.
  - exact Hpos.
Qed.
