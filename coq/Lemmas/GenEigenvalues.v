(* Lemmas/GenEigenvalues.v — the eigenvalue sequences TRANSLATED from /repo/FDApy/simulation/karhunen.py on every
   run (Gen/Eigenvalues.v) are the families of Model/Simul.v, and the name dispatch of _simulate_eigenvalues only
   ever returns positive non-increasing sequences. *)
From Coq Require Import List Bool Arith Lia Sorted Reals Lra String.
From FDAV Require Import Base.Num Base.Vec Model.Simul Lemmas.Simul Gen.Eigenvalues.
Import ListNotations.
Local Open Scope R_scope.

Lemma Rpower_m2 x : 0 < x -> Rpower x (- 2) = / (x * x).
Proof.
  intros Hx. unfold Rpower. replace (- 2 * ln x) with (- (ln x + ln x)) by lra.
  rewrite exp_Ropp, exp_plus, exp_ln by exact Hx. reflexivity.
Qed.
Lemma Rpower_m1 x : 0 < x -> Rpower x (- 1) = / x.
Proof.
  intros Hx. unfold Rpower. replace (- 1 * ln x) with (- ln x) by lra.
  rewrite exp_Ropp, exp_ln by exact Hx. reflexivity.
Qed.
Lemma Rpower_mhalf x : 0 < x -> Rpower x ((- 1) / 2) = / sqrt x.
Proof.
  intros Hx. rewrite <- (Rpower_sqrt x Hx). unfold Rpower. rewrite <- exp_Ropp. f_equal. lra.
Qed.

Lemma nat_range n : ((n + 1) - 1 = n)%nat /\ (n - 0 = n)%nat.
Proof. lia. Qed.

Theorem gen_eig_linear_is_model n : (1 <= n)%nat -> gen_eig_linear n = eig_linear opsR n.
Proof.
  intros Hn. rewrite eig_linear_formula by exact Hn. unfold gen_eig_linear.
  rewrite (proj1 (nat_range n)). apply map_ext_in. intros k Hk. apply in_seq in Hk.
  unfold gen_eigf_linear. rewrite plus_INR, minus_INR by lia. simpl INR. reflexivity.
Qed.
Theorem gen_eig_exponential_is_model n : gen_eig_exponential n = eig_exponential n.
Proof.
  unfold gen_eig_exponential, eig_exponential. rewrite (proj2 (nat_range n)). apply map_ext. intros k.
  unfold gen_eigf_exponential, eigf_exponential. reflexivity.
Qed.
Theorem gen_eig_quadratic_is_model n : gen_eig_quadratic n = eig_quadratic opsR n.
Proof.
  rewrite eig_quadratic_formula. unfold gen_eig_quadratic. rewrite (proj1 (nat_range n)).
  apply map_ext_in. intros k Hk. apply in_seq in Hk. pose proof (INR_ge1 k ltac:(lia)).
  unfold gen_eigf_quadratic. rewrite Rpower_m2 by lra. unfold Rdiv. rewrite Rmult_1_l. reflexivity.
Qed.
Theorem gen_eig_inverse_is_model n : gen_eig_inverse n = eig_inverse opsR n.
Proof.
  rewrite eig_inverse_formula. unfold gen_eig_inverse. rewrite (proj1 (nat_range n)).
  apply map_ext_in. intros k Hk. apply in_seq in Hk. pose proof (INR_ge1 k ltac:(lia)).
  unfold gen_eigf_inverse. rewrite Rpower_m1 by lra. unfold Rdiv. rewrite Rmult_1_l. reflexivity.
Qed.
Theorem gen_eig_sqrt_is_model n : gen_eig_sqrt n = eig_sqrt n.
Proof.
  unfold gen_eig_sqrt, eig_sqrt. rewrite (proj1 (nat_range n)).
  apply map_ext_in. intros k Hk. apply in_seq in Hk. pose proof (INR_ge1 k ltac:(lia)).
  unfold gen_eigf_sqrt, eigf_sqrt. apply Rpower_mhalf. lra.
Qed.
Theorem gen_eig_wiener_is_model n : gen_eig_wiener n = eig_wiener n.
Proof.
  unfold gen_eig_wiener, eig_wiener. rewrite (proj1 (nat_range n)).
  apply map_ext_in. intros k Hk. apply in_seq in Hk. pose proof (INR_ge1 k ltac:(lia)).
  unfold gen_eigf_wiener, eigf_wiener. apply Rpower_m2. pose proof PI_RGT_0. apply Rmult_lt_0_compat; lra.
Qed.

(* whatever name _simulate_eigenvalues accepts, for whatever n: positive and non-increasing, n entries *)
Theorem gen_eig_dispatch_pos_noninc name n vals :
  gen_eig_dispatch name n = Some vals -> pos_noninc vals /\ List.length vals = n.
Proof.
  unfold gen_eig_dispatch. destruct (Nat.ltb_spec n 1) as [|Hn]; [discriminate|].
  repeat match goal with |- context [String.eqb name ?s] => destruct (String.eqb name s) end;
    intros E; inversion E; subst; clear E.
  - rewrite gen_eig_linear_is_model by exact Hn. split; [apply eig_linear_pos_noninc|].
    unfold eig_linear. rewrite map_length, rev_length, seq_length. reflexivity.
  - rewrite gen_eig_exponential_is_model. split; [apply eig_exponential_pos_noninc|].
    unfold eig_exponential. rewrite map_length, seq_length. reflexivity.
  - rewrite gen_eig_quadratic_is_model. split; [apply eig_quadratic_pos_noninc|].
    unfold eig_quadratic. rewrite map_length, seq_length. reflexivity.
  - rewrite gen_eig_inverse_is_model. split; [apply eig_inverse_pos_noninc|].
    unfold eig_inverse. rewrite map_length, seq_length. reflexivity.
  - rewrite gen_eig_sqrt_is_model. split; [apply eig_sqrt_pos_noninc|].
    unfold eig_sqrt. rewrite map_length, seq_length. reflexivity.
  - rewrite gen_eig_wiener_is_model. split; [apply eig_wiener_pos_noninc|].
    unfold eig_wiener. rewrite map_length, seq_length. reflexivity.
Qed.

(* the six documented names are accepted for every n >= 1 and select the family of that name; n < 1 is rejected *)
Theorem gen_eig_dispatch_names n : (1 <= n)%nat ->
  gen_eig_dispatch "linear" n = Some (eig_linear opsR n) /\
  gen_eig_dispatch "exponential" n = Some (eig_exponential n) /\
  gen_eig_dispatch "quadratic" n = Some (eig_quadratic opsR n) /\
  gen_eig_dispatch "inverse" n = Some (eig_inverse opsR n) /\
  gen_eig_dispatch "sqrt" n = Some (eig_sqrt n) /\
  gen_eig_dispatch "wiener" n = Some (eig_wiener n).
Proof.
  intros Hn. unfold gen_eig_dispatch. destruct (Nat.ltb_spec n 1) as [H|_]; [lia|]. cbn [String.eqb Ascii.eqb Bool.eqb].
  rewrite gen_eig_linear_is_model by exact Hn.
  rewrite gen_eig_exponential_is_model, gen_eig_quadratic_is_model, gen_eig_inverse_is_model,
    gen_eig_sqrt_is_model, gen_eig_wiener_is_model.
  repeat split.
Qed.
Theorem gen_eig_dispatch_rejects_zero name : gen_eig_dispatch name 0 = None.
Proof. reflexivity. Qed.
