(* Lemmas/Legendre.v — Legendre polynomials: the values computed by Bonnet's recurrence (Model/Basis.v)
   are the values of the polynomials built by the same recurrence on coefficient lists, and those
   polynomials are orthogonal on [-1,1] with squared norms 2/(2k+1) for all degrees <= 15 — by EXACT
   polynomial integration (antiderivative evaluated at the end points), a finite check lifted with
   forallb_forall.  (That this exact polynomial integral is the Riemann integral is the fundamental
   theorem of calculus for polynomials; it is not re-proved here.) *)
From Coq Require Import List Bool Reals Lra Lia Arith QArith Qreals.
From FDAV Require Import Base.Num Base.Vec Model.Basis Model.Poly Lemmas.Vec Lemmas.Basis.
From Param Require Import Param.
Import ListNotations.
Local Open Scope R_scope.

Notation pevalR := (peval opsR).

Lemma peval_cons a p x : pevalR (a :: p) x = a + x * pevalR p x.
Proof. reflexivity. Qed.
Lemma peval_padd p : forall q x, pevalR (padd opsR p q) x = pevalR p x + pevalR q x.
Proof.
  induction p as [|a p IH]; intros [|b q] x; cbn [padd]; try (cbn; lra).
  change (oadd opsR a b) with (a + b). rewrite !peval_cons, IH. lra.
Qed.
Lemma peval_pscale c p x : pevalR (pscale opsR c p) x = c * pevalR p x.
Proof.
  induction p as [|a p IH]; [cbn; lra|]. unfold pscale in *. cbn [map].
  change (omul opsR c a) with (c * a). rewrite !peval_cons, IH. lra.
Qed.
Lemma peval_pmulx p x : pevalR (pmulx opsR p) x = x * pevalR p x.
Proof. unfold pmulx. rewrite peval_cons. cbn. lra. Qed.
Lemma peval_pmul p : forall q x, pevalR (pmul opsR p q) x = pevalR p x * pevalR q x.
Proof.
  induction p as [|a p IH]; intros q x; cbn [pmul]; [cbn; lra|].
  rewrite peval_padd, peval_pscale, peval_pmulx, IH, peval_cons. lra.
Qed.

(* the polynomial built by Bonnet's recurrence evaluates to the value recurrence of Model/Basis.v *)
Lemma leg_poly_pair_eval k x :
  pevalR (fst (leg_poly_pair opsR k)) x = fst (legendre_pair opsR k x) /\
  pevalR (snd (leg_poly_pair opsR k)) x = snd (legendre_pair opsR k x).
Proof.
  induction k as [|k [IH1 IH2]]; [split; cbn; lra|].
  cbn [leg_poly_pair legendre_pair].
  destruct (leg_poly_pair opsR k) as [Pk Pk1] eqn:EP.
  destruct (legendre_pair opsR k x) as [pk pk1] eqn:EL.
  cbn [fst snd] in *. split; [|exact IH1].
  rewrite peval_pscale, peval_padd, !peval_pscale, peval_pmulx, IH1, IH2.
  rewrite !oofnatR'. unfold osub. cbn [odiv omul oadd oopp opsR o1].
  assert (Hk : INR (S k) <> 0) by (rewrite S_INR; pose proof (pos_INR k); lra).
  rewrite !Rdiv0_nz by exact Hk. field. exact Hk.
Qed.
Theorem leg_poly_eval k x : pevalR (leg_poly opsR k) x = legendre opsR k x.
Proof. unfold leg_poly, legendre. apply leg_poly_pair_eval. Qed.

(* the integrand: the product polynomial evaluates to the product of the Legendre values *)
Theorem leg_product_eval j k x :
  pevalR (pmul opsR (leg_poly opsR j) (leg_poly opsR k)) x = legendre opsR j x * legendre opsR k x.
Proof. rewrite peval_pmul, !leg_poly_eval. reflexivity. Qed.

(* ---------- exact orthogonality for degrees <= 15 (finite check in Q, lifted to R) ---------- *)
Local Open Scope Q_scope.
Definition leg_inner (j k : nat) : Q := pint11 opsQ (pmul opsQ (leg_poly opsQ j) (leg_poly opsQ k)).
Definition leg_ok (jk : nat * nat) : bool :=
  Qeq_bool (leg_inner (fst jk) (snd jk))
           (if Nat.eqb (fst jk) (snd jk) then 2 # (Pos.of_nat (2 * snd jk + 1)) else 0).
Definition pairs16 : list (nat * nat) := flat_map (fun j => map (fun k => (j, k)) (seq 0 16)) (seq 0 16).
Lemma leg_orthogonal_Q : forall jk, In jk pairs16 -> leg_ok jk = true.
Proof. apply forallb_forall. vm_compute. reflexivity. Qed.
Local Close Scope Q_scope.

Lemma in_pairs16 j k : (j <= 15)%nat -> (k <= 15)%nat -> In (j, k) pairs16.
Proof.
  intros Hj Hk. unfold pairs16. apply in_flat_map. exists j. split; [apply in_seq; lia|].
  apply in_map. apply in_seq. lia.
Qed.

Lemma leg_inner_transfer j k :
  Q2R (leg_inner j k) = pint11 opsR (pmul opsR (leg_poly opsR j) (leg_poly opsR k)).
Proof.
  unfold leg_inner.
  pose proof (leg_poly_R Q R QR opsQ opsR opsQR j j (nat_R_refl j)) as Rj.
  pose proof (leg_poly_R Q R QR opsQ opsR opsQR k k (nat_R_refl k)) as Rk.
  pose proof (pmul_R Q R QR opsQ opsR opsQR _ _ Rj _ _ Rk) as Rm.
  exact (pint11_R Q R QR opsQ opsR opsQR _ _ Rm).
Qed.

Theorem legendre_orthogonal_upto15 j k : (j <= 15)%nat -> (k <= 15)%nat -> j <> k ->
  pint11 opsR (pmul opsR (leg_poly opsR j) (leg_poly opsR k)) = 0.
Proof.
  intros Hj Hk Hne. rewrite <- leg_inner_transfer.
  pose proof (leg_orthogonal_Q (j, k) (in_pairs16 j k Hj Hk)) as H. unfold leg_ok in H. cbn [fst snd] in H.
  replace (Nat.eqb j k) with false in H by (symmetry; apply Nat.eqb_neq; exact Hne).
  apply Qeq_bool_eq in H. rewrite (Qeq_eqR _ _ H). lra.
Qed.

Theorem legendre_norm_upto15 k : (k <= 15)%nat ->
  pint11 opsR (pmul opsR (leg_poly opsR k) (leg_poly opsR k)) = 2 / INR (2 * k + 1).
Proof.
  intros Hk. rewrite <- leg_inner_transfer.
  pose proof (leg_orthogonal_Q (k, k) (in_pairs16 k k Hk Hk)) as H. unfold leg_ok in H. cbn [fst snd] in H.
  rewrite Nat.eqb_refl in H. apply Qeq_bool_eq in H. rewrite (Qeq_eqR _ _ H).
  unfold Q2R. cbn [Qnum Qden].
  rewrite <- (Nat2Pos.id (2 * k + 1)) at 2 by lia. rewrite INR_IPR. reflexivity.
Qed.
