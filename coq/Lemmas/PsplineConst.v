(* Lemmas/PsplineConst.v — P-splines reproduce constants whatever the penalty (C05, the degree-0 case of
   "polynomials of degree below the penalty order are reproduced", proved end to end on the model the
   correspondence check executes: Cox-de Boor design on the equally spaced extended knots + difference
   penalty of any order >= 1, any positive or zero penalty weight, any non-negative observation weights). *)
From Coq Require Import List Bool Reals Lra Lia Arith.
From FDAV Require Import Base.Num Base.Vec Model.Basis Model.Pspline
  Lemmas.Vec Lemmas.Stats Lemmas.Basis Lemmas.Pspline.
Import ListNotations.
Local Open Scope R_scope.

Notation constv c n := (repeat (c : R) n).

(* ---------- the difference coefficients sum to zero ---------- *)
Lemma dcoef_length d : length (dcoef opsR d) = S d.
Proof.
  induction d as [|d IH]; [reflexivity|].
  cbn [dcoef]. rewrite vsub_length. cbn [length]. rewrite app_length, IH. cbn [length]. lia.
Qed.

Lemma vsum_app (l l' : list R) : vsumR (l ++ l') = vsumR l + vsumR l'.
Proof. induction l as [|a l IH]; [cbn [app]; change (vsumR []) with 0; lra|]. cbn [app]. rewrite !vsum_cons, IH. lra. Qed.

Lemma vsum_vsub : forall (l l' : list R), length l = length l' -> vsumR (vsubR l l') = vsumR l - vsumR l'.
Proof.
  induction l as [|a l IH]; intros [|b l'] H; simpl in H; try discriminate; [change (vsumR (vsubR [] [])) with 0; change (vsumR []) with 0; lra|].
  change (vsubR (a :: l) (b :: l')) with (a - b :: vsubR l l'). rewrite !vsum_cons, IH by lia. lra.
Qed.

Lemma vsum_dcoef_S d : vsumR (dcoef opsR (S d)) = 0.
Proof.
  cbn [dcoef]. rewrite vsum_vsub by (cbn [length]; rewrite app_length; cbn [length]; lia).
  rewrite vsum_cons, vsum_app. cbn [o0 opsR]. rewrite (vsum_cons 0 []). change (vsumR []) with 0. lra.
Qed.

Lemma vsum_zeros n : vsumR (zerosR n) = 0.
Proof. unfold zeros. induction n as [|n IH]; [reflexivity|]. cbn [repeat]. rewrite vsum_cons, IH. cbn [o0 opsR]. lra. Qed.

(* ---------- a row times a constant vector ---------- *)
Lemma dot_const c : forall (r : list R) n, (length r <= n)%nat -> dotR r (constv c n) = c * vsumR r.
Proof.
  induction r as [|a r IH]; intros n H; [rewrite dot_nil_l; change (vsumR []) with 0; lra|].
  destruct n as [|n]; [simpl in H; lia|]. cbn [repeat]. rewrite dot_cons, vsum_cons, IH by (simpl in H; lia). lra.
Qed.

Lemma vsum_firstn_zeros : forall k n, vsumR (firstn k (zerosR n)) = 0.
Proof.
  unfold zeros. induction k as [|k IH]; intros [|n]; try reflexivity.
  cbn [repeat firstn]. rewrite vsum_cons, IH. cbn [o0 opsR]. lra.
Qed.

Lemma row_vsum nb i (dc : list R) : (i + length dc <= nb)%nat ->
  vsumR (firstn nb (zerosR i ++ dc ++ zerosR nb)) = vsumR dc.
Proof.
  intros H. rewrite app_assoc, firstn_app, app_length, zeros_length.
  rewrite (firstn_all2 (zerosR i ++ dc)) by (rewrite app_length, zeros_length; lia).
  rewrite !vsum_app, vsum_zeros, vsum_firstn_zeros. lra.
Qed.
Lemma row_length nb i (dc : list R) : length (firstn nb (zerosR i ++ dc ++ zerosR nb)) = nb.
Proof. rewrite firstn_length, !app_length, !zeros_length. lia. Qed.

(* the difference penalty of any order >= 1 vanishes on constant coefficient vectors *)
Theorem diffmat_const c nb d :
  mvR (diffmat opsR nb (S d)) (constv c nb) = zerosR (length (diffmat opsR nb (S d))).
Proof.
  unfold diffmat, mv. rewrite !map_map, map_length.
  set (l := filter (fun i => Nat.leb (i + S d + 1) nb) (seq 0 nb)).
  assert (Hl : forall i, In i l -> (i + S d + 1 <= nb)%nat).
  { intros i Hi. apply filter_In in Hi. destruct Hi as [_ Hi]. apply Nat.leb_le in Hi. exact Hi. }
  clearbody l. induction l as [|i l IH]; [reflexivity|].
  cbn [map length]. change (zerosR (S (length l))) with (0 :: zerosR (length l)).
  f_equal; [|apply IH; intros j Hj; apply Hl; right; exact Hj].
  rewrite dot_const by (rewrite row_length; lia).
  rewrite row_vsum by (rewrite dcoef_length; specialize (Hl i (or_introl eq_refl)); lia).
  rewrite vsum_dcoef_S. lra.
Qed.
Theorem diffmat_wf nb d : wfB nb (diffmat opsR nb d).
Proof. unfold wfB, diffmat. rewrite Forall_map. apply Forall_forall. intros i _. apply row_length. Qed.

(* ---------- the design matrix times a constant coefficient vector is the constant (partition of unity) ---------- *)
Lemma map2_map_map' {A B C D} (h : B -> C -> D) (f : A -> B) (g : A -> C) (l : list A) :
  map2 h (map f l) (map g l) = map (fun e => h (f e) (g e)) l.
Proof. induction l as [|e l IH]; [reflexivity|]. cbn [map map2]. rewrite IH. reflexivity. Qed.

Lemma transpose_map_map {A} (f : A -> R -> R) (js : list A) (xs : list R) :
  transpose (length xs) (map (fun j => map (f j) xs) js) = map (fun x => map (fun j => f j x) js) xs.
Proof.
  induction js as [|j js IH].
  - unfold transpose. cbn [map fold_right]. induction xs as [|x xs IHx]; [reflexivity|]. cbn [length repeat map]. rewrite IHx. reflexivity.
  - cbn [map]. change (transpose (length xs) (map (f j) xs :: map (fun j0 => map (f j0) xs) js))
      with (map2 cons (map (f j) xs) (transpose (length xs) (map (fun j0 => map (f j0) xs) js))).
    rewrite IH, map2_map_map'. reflexivity.
Qed.

Lemma nth_repeat_lt (c d : R) : forall n k, (k < n)%nat -> nth k (repeat c n) d = c.
Proof. induction n as [|n IH]; intros [|k] H; try lia; [reflexivity|]. cbn [repeat nth]. apply IH. lia. Qed.

Lemma dot_const_r c : forall (r : list R), dotR r (constv c (length r)) = c * vsumR r.
Proof. intros r. apply dot_const. lia. Qed.

Section Design.
  Variables (a b : R) (nseg p : nat).
  Hypothesis Hab : a < b.
  Hypothesis Hseg : (0 < nseg)%nat.
  Hypothesis Hp : (1 <= p)%nat.

  Lemma dx_model : odiv opsR (osub opsR b a) (oofnat opsR nseg) = (b - a) / INR nseg.
  Proof.
    rewrite osubR, oofnatR, odivR; [reflexivity|].
    apply not_0_INR. lia.
  Qed.

  (* the design the tie executes: one row per sampling point, one column per B-spline *)
  Definition design (xs : list R) : list (list R) := design1 (bspline_basis opsR a b nseg p xs) (length xs).

  Lemma design_rows xs : design xs =
    map (fun x => map (fun j => bspl opsR p (knot opsR a ((b - a) / INR nseg) p) j x) (seq 0 (nseg + p))) xs.
  Proof.
    unfold design, design1, bspline_basis. cbv zeta. rewrite dx_model.
    apply (transpose_map_map (fun j x => bspl opsR p (knot opsR a ((b - a) / INR nseg) p) j x)).
  Qed.

  Lemma design_wf xs : wfB (nseg + p) (design xs).
  Proof. rewrite design_rows. unfold wfB. rewrite Forall_map. apply Forall_forall. intros x _. rewrite map_length, seq_length. reflexivity. Qed.

  Theorem design_const c xs : Forall (fun x => a <= x <= b) xs ->
    mvR (design xs) (constv c (nseg + p)) = constv c (length xs).
  Proof.
    intros Hx. rewrite design_rows. unfold mv. rewrite map_map.
    induction Hx as [|x xs Hx1 _ IH]; [reflexivity|].
    cbn [map length repeat]. f_equal; [|exact IH].
    set (row := map (fun j => bspl opsR p (knot opsR a ((b - a) / INR nseg) p) j x) (seq 0 (nseg + p))).
    assert (L : length row = (nseg + p)%nat) by (unfold row; rewrite map_length, seq_length; reflexivity).
    rewrite <- L. rewrite dot_const_r. unfold row.
    pose proof (code_bs_partition_of_unity a b nseg p Hab Hseg x Hp Hx1) as P. unfold bsum in P. rewrite P. lra.
  Qed.

  (* Constants are reproduced: the constant coefficient vector solves the penalised weighted normal equations of
     the constant responses, for ANY penalty weight lam, penalty order d+1 >= 1 and observation weights w ... *)
  Theorem constant_solves_normal_equations c lam d w xs : Forall (fun x => a <= x <= b) xs ->
    AopR (nseg + p) (design xs) w (pens1 opsR (nseg + p) (S d) lam) (constv c (nseg + p))
    = rhsR (nseg + p) (design xs) w (constv c (length xs)).
  Proof.
    intros Hx. rewrite (reproduces_null_space' (nseg + p) (design xs) w).
    - unfold fitted. rewrite design_const by exact Hx. reflexivity.
    - apply design_wf.
    - unfold pens1, wfP. constructor; [|constructor]. cbn [snd]. apply diffmat_wf.
    - unfold pens1. constructor; [|constructor]. cbn [snd]. apply diffmat_const.
  Qed.

  (* ... hence EVERY solution of those normal equations (the fit, whatever solver produced it) has the constant as fitted
     value at every observation of positive weight, for non-negative weights and a non-negative penalty weight *)
  Theorem constants_reproduced c lam d w xs beta k : Forall (fun x => a <= x <= b) xs ->
    length beta = (nseg + p)%nat -> Forall (fun v => 0 <= v) w -> 0 <= lam ->
    AopR (nseg + p) (design xs) w (pens1 opsR (nseg + p) (S d) lam) beta = rhsR (nseg + p) (design xs) w (constv c (length xs)) ->
    (k < length xs)%nat -> (k < length w)%nat -> 0 < nth k w 0 ->
    nth k (fitted opsR (design xs) beta) 0 = c.
  Proof.
    intros Hx Hb Hw Hl E Hk Hkw Hpos.
    rewrite (fitted_unique (nseg + p) (design xs) w (pens1 opsR (nseg + p) (S d) lam) beta (constv c (nseg + p)) k).
    - unfold fitted. rewrite design_const by exact Hx. apply nth_repeat_lt. exact Hk.
    - apply design_wf.
    - unfold pens1, wfP. constructor; [|constructor]. cbn [snd]. apply diffmat_wf.
    - exact Hb.
    - apply repeat_length.
    - exact Hw.
    - unfold pens1. constructor; [|constructor]. cbn [fst]. exact Hl.
    - rewrite E. symmetry. apply constant_solves_normal_equations. exact Hx.
    - rewrite design_rows, map_length. exact Hk.
    - exact Hkw.
    - exact Hpos.
  Qed.
End Design.
