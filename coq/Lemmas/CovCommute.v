(* Lemmas/CovCommute.v — covariances computed from the coefficients equal those of the evaluated curves up to
   the n/(n-1) convention (C14):  (n-1) * cov_grid(s,t) = n * phi(s)^T cov_coef phi(t). *)
From Coq Require Import List Bool Reals Lra Lia Arith.
From FDAV Require Import Base.Num Base.Vec Base.Quad Model.Stats Model.Basis Model.Pspline Model.Repr
  Lemmas.Vec Lemmas.Gram Lemmas.Stats Lemmas.Scores Lemmas.Pspline Lemmas.Repr Lemmas.CovPerm.
Import ListNotations.
Local Open Scope R_scope.

(* centring commutes with evaluation, for the whole dataset *)
Lemma center_to_grid m K Phi C : C <> [] -> Forall (fun r => length r = m) Phi ->
  Forall (fun c => length c = K) C ->
  center opsR m (to_grid opsR m Phi C) = to_grid opsR m Phi (coef_center opsR K C).
Proof.
  intros Hne HP HC. unfold center, center_rows, coef_center, center_rows, to_grid. rewrite !map_map.
  apply map_ext_in. intros c Hc. rewrite Forall_forall in HC.
  fold (to_grid opsR m Phi C). fold (coef_mean opsR K C).
  symmetry. apply (center_commutes m K Phi C c Hne HP); [apply Forall_forall; exact HC|apply HC; exact Hc].
Qed.

Lemma mv_cov_coef K C c : C <> [] ->
  mvR (cov_coef opsR K C) c =
  vscaleR (/ INR (length C)) (mvR (map (fun f => map (fun g => dotR f g) (transpose K (center_rows opsR K C)))
                                       (transpose K (center_rows opsR K C))) c).
Proof.
  intros Hne. unfold cov_coef, mv, vscale. cbv zeta. rewrite !map_map. apply map_ext. intros ck.
  pose proof (INR_len_pos C Hne) as Hp.
  rewrite oofnatR, (dot_map_div (fun cl => dotR ck cl)) by lra. cbn. unfold Rdiv. lra.
Qed.

Theorem cov_commutes_up_to_n m K Phi C s t : C <> [] -> (2 <= length C)%nat ->
  Forall (fun r => length r = m) Phi -> length Phi = K -> Forall (fun c => length c = K) C ->
  (s < m)%nat -> (t < m)%nat ->
  INR (length C - 1) * ent (cov opsR m (to_grid opsR m Phi C)) s t =
  INR (length C) * cov_coef_at opsR K Phi C s t.
Proof.
  intros Hne Hn HP HK HC Hs Ht.
  assert (HG : Forall (fun r => length r = m) (to_grid opsR m Phi C)).
  { unfold to_grid. rewrite Forall_map. apply Forall_forall. intros c _. apply mtv_length. exact HP. }
  assert (Hlen : length (to_grid opsR m Phi C) = length C) by (unfold to_grid; apply map_length).
  rewrite cov_entry_rows by (try assumption; rewrite Hlen; exact Hn).
  rewrite Hlen, (center_to_grid m K) by assumption.
  set (Cc := coef_center opsR K C).
  assert (HCc : Forall (fun c => length c = K) Cc) by (apply center_rows_length; exact HC).
  assert (HlenCc : length Cc = length C) by (unfold Cc, coef_center, center_rows; apply map_length).
  (* sum over observations of (cc_i . phi_s)(cc_i . phi_t) *)
  unfold to_grid. rewrite map_map.
  rewrite (map_ext_in _ (fun c => dotR c (basis_at opsR Phi s) * dotR c (basis_at opsR Phi t))).
  2:{ intros c Hc. unfold basis_at. rewrite !mtv_nth by assumption. reflexivity. }
  rewrite <- (dot_map_map (fun c => dotR c (basis_at opsR Phi s)) (fun c => dotR c (basis_at opsR Phi t))).
  change (map (fun c => dotR c (basis_at opsR Phi s)) Cc) with (mvR Cc (basis_at opsR Phi s)).
  change (map (fun c => dotR c (basis_at opsR Phi t)) Cc) with (mvR Cc (basis_at opsR Phi t)).
  rewrite !(mv_as_columns K Cc) by exact HCc.
  destruct (transpose_rows K Cc HCc) as [TL TF].
  rewrite <- (dotgram_bilinear (length Cc)) by exact TF.
  unfold cov_coef_at. rewrite mv_cov_coef by exact Hne. fold (coef_center opsR K C). fold Cc.
  rewrite dot_vscale_r.
  pose proof (INR_len_pos C Hne) as Hp.
  assert (Hn1 : INR (length C - 1) <> 0).
  { destruct (length C) as [|[|n']]; try lia. replace (S (S n') - 1)%nat with (S n') by lia.
    rewrite S_INR. pose proof (pos_INR n'). lra. }
  field. split; lra.
Qed.
