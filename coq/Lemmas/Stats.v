(* Lemmas/Stats.v — proofs about Model/Stats.v at the real instance (C09, C10). *)
From Coq Require Import List Bool Reals Lra Lia Arith Permutation.
From FDAV Require Import Base.Num Base.Vec Base.Quad Model.Stats Lemmas.Vec Lemmas.Quad Lemmas.Gram.
Import ListNotations.
Local Open Scope R_scope.

Notation avgR := (avg opsR).
Notation pvarR := (pvar opsR).

(* ---------- generic list tools ---------- *)
Lemma nth_map2 {A B C} (f : A -> B -> C) x : forall y j da db dc,
  (j < length x)%nat -> (j < length y)%nat ->
  nth j (map2 f x y) dc = f (nth j x da) (nth j y db).
Proof.
  induction x as [|a x IH]; intros [|b y] j da db dc Hx Hy; simpl in *; try lia.
  destruct j; [reflexivity|]. apply IH; lia.
Qed.

Lemma list_eq_nth (l l' : list R) :
  length l = length l' -> (forall j, (j < length l)%nat -> nth j l 0 = nth j l' 0) -> l = l'.
Proof. intros H1 H2. apply (nth_ext l l' 0 0); assumption. Qed.

Lemma oofnatR n : oofnat opsR n = INR n.
Proof.
  induction n as [|n IH]; [reflexivity|]. cbn [oofnat]. rewrite IH, S_INR. cbn. lra.
Qed.

Lemma odivR a b : b <> 0 -> odiv opsR a b = a / b.
Proof. intros H. cbn. apply Rdiv0_nz. exact H. Qed.

Lemma vsum_cons a l : vsumR (a :: l) = a + vsumR l.
Proof. reflexivity. Qed.
Lemma vsum_map_add {A} (f g : A -> R) (l : list A) : vsumR (map (fun v => f v + g v) l) = vsumR (map f l) + vsumR (map g l).
Proof. induction l as [|a l IH]; cbn [map]; [cbn; lra|]. rewrite !vsum_cons, IH. lra. Qed.
Lemma vsum_map_scale {A} c (f : A -> R) (l : list A) : vsumR (map (fun v => c * f v) l) = c * vsumR (map f l).
Proof. induction l as [|a l IH]; cbn [map]; [cbn; lra|]. rewrite !vsum_cons, IH. lra. Qed.
Lemma vsum_map_const {A} c (l : list A) : vsumR (map (fun _ => c) l) = INR (length l) * c.
Proof. induction l as [|a l IH]; [cbn; lra|]. cbn [map length]. rewrite vsum_cons, IH, S_INR. lra. Qed.
Lemma vsum_nonneg l : Forall (fun v => 0 <= v) l -> 0 <= vsumR l.
Proof. induction 1; [cbn; lra|]. rewrite vsum_cons. lra. Qed.
Lemma vsum_ext {A} (f g : A -> R) l : (forall a, In a l -> f a = g a) -> vsumR (map f l) = vsumR (map g l).
Proof. intros H. f_equal. apply map_ext_in. exact H. Qed.

Lemma avg_eq l : l <> [] -> avgR l = vsumR l / INR (length l).
Proof.
  intros H. unfold avg. rewrite oofnatR. apply odivR.
  destruct l; [contradiction|]. simpl length. rewrite S_INR. pose proof (pos_INR (length l)). lra.
Qed.
Lemma avg_nil : avgR [] = 0.
Proof. unfold avg. cbn. apply Rdiv0_z. Qed.

Lemma INR_len_pos {A} (l : list A) : l <> [] -> 0 < INR (length l).
Proof. destruct l; [contradiction|]. intros _. simpl length. rewrite S_INR. pose proof (pos_INR (length l)). lra. Qed.

Lemma avg_nonneg l : Forall (fun v => 0 <= v) l -> 0 <= avgR l.
Proof.
  intros H. destruct l as [|a l]; [rewrite avg_nil; lra|].
  rewrite avg_eq by discriminate. apply Rmult_le_pos; [apply vsum_nonneg; exact H|].
  left. apply Rinv_0_lt_compat. apply INR_len_pos. discriminate.
Qed.

Lemma avg_affine al be l : l <> [] -> avgR (map (fun v => al * v + be) l) = al * avgR l + be.
Proof.
  intros H. rewrite (avg_eq l H).
  rewrite avg_eq by (destruct l; [contradiction|discriminate]).
  rewrite map_length. pose proof (INR_len_pos l H) as Hp.
  rewrite (vsum_map_add (fun v => al * v) (fun _ => be)), (vsum_map_scale al (fun v => v)), map_id, vsum_map_const.
  field. lra.
Qed.

(* ---------- population variance ---------- *)
Lemma pvar_eq c : pvarR c = avgR (map (fun v => (v - avgR c) * (v - avgR c)) c).
Proof. reflexivity. Qed.

Lemma pvar_nonneg c : 0 <= pvarR c.
Proof.
  rewrite pvar_eq. apply avg_nonneg. rewrite Forall_map. apply Forall_forall. intros v _. cbv beta. apply Rle_0_sqr.
Qed.

Lemma pvar_affine al be c : c <> [] -> pvarR (map (fun v => al * v + be) c) = al * al * pvarR c.
Proof.
  intros H. rewrite !pvar_eq. rewrite avg_affine by exact H. rewrite map_map.
  assert (E : map (fun x => (al * x + be - (al * avgR c + be)) * (al * x + be - (al * avgR c + be))) c =
              map (fun v => (al * al) * v + 0) (map (fun v => (v - avgR c) * (v - avgR c)) c)).
  { rewrite map_map. apply map_ext. intros v. ring. }
  rewrite E, avg_affine by (destruct c; [contradiction|discriminate]). lra.
Qed.

(* ---------- C09: covariance ---------- *)
Notation covcR := (cov_of_cols opsR).

Lemma dot_map_div (h : list R -> R) k A c : k <> 0 ->
  dotR (map (fun g => odiv opsR (h g) k) A) c = dotR (map h A) c / k.
Proof.
  intros Hk. revert c; induction A as [|g A IH]; intros [|b c]; simpl map; try (cbn; lra).
  rewrite !dot_cons, IH, odivR by exact Hk. field. exact Hk.
Qed.

Lemma dotgram_quadratic n A c : Forall (fun r => length r = n) A ->
  dotR c (mvR (map (fun f => map (fun g => dotR f g) A) A) c) = dotR (mtvR n A c) (mtvR n A c).
Proof.
  intros HA. unfold mv. rewrite map_map.
  assert (E : map (fun f => dotR (map (fun g => dotR f g) A) c) A = mvR A (mtvR n A c)).
  { unfold mv. apply map_ext_in. intros f Hf.
    rewrite (dot_comm f), (mtv_adjoint n A c f HA), (dot_comm c). f_equal.
    unfold mv. apply map_ext. intros g. apply dot_comm. }
  rewrite E. rewrite <- (mtv_adjoint n A c _ HA). reflexivity.
Qed.

Theorem cov_psd n k Ct c : (2 <= k)%nat -> Forall (fun r => length r = n) Ct ->
  0 <= dotR c (mvR (covcR k Ct) c).
Proof.
  intros Hk HC. unfold cov_of_cols, mv. rewrite map_map.
  assert (Hp : INR (pred k) <> 0).
  { destruct k as [|[|k]]; try lia. simpl pred. rewrite S_INR. pose proof (pos_INR k). lra. }
  assert (E : map (fun cs => dotR (map (fun ct => odiv opsR (dotR cs ct) (oofnat opsR (pred k))) Ct) c) Ct =
              vscaleR (/ INR (pred k)) (mvR (map (fun f => map (fun g => dotR f g) Ct) Ct) c)).
  { unfold mv, vscale. rewrite !map_map. apply map_ext. intros cs. rewrite oofnatR.
    rewrite (dot_map_div (fun ct => dotR cs ct)) by exact Hp. cbn. unfold Rdiv. lra. }
  rewrite E, dot_vscale_r, (dotgram_quadratic n) by exact HC.
  apply Rmult_le_pos; [|apply dot_self_nonneg].
  left. apply Rinv_0_lt_compat.
  destruct k as [|[|k]]; try lia. simpl pred. rewrite S_INR. pose proof (pos_INR k). lra.
Qed.

Theorem cov_symmetric k Ct s t : (s < length Ct)%nat -> (t < length Ct)%nat ->
  ent (covcR k Ct) s t = ent (covcR k Ct) t s.
Proof.
  intros Hs Ht. unfold ent, cov_of_cols.
  rewrite (nth_map_in _ Ct s [] []) by exact Hs. rewrite (nth_map_in _ Ct t 0 []) by exact Ht.
  rewrite (nth_map_in _ Ct t [] []) by exact Ht. rewrite (nth_map_in _ Ct s 0 []) by exact Hs.
  rewrite (dot_comm (nth s Ct [])). reflexivity.
Qed.

Theorem cov_entry k Ct s t : (s < length Ct)%nat -> (t < length Ct)%nat -> (2 <= k)%nat ->
  ent (covcR k Ct) s t = dotR (nth s Ct []) (nth t Ct []) / INR (k - 1).
Proof.
  intros Hs Ht Hk. unfold ent, cov_of_cols.
  rewrite (nth_map_in _ Ct s [] []) by exact Hs. rewrite (nth_map_in _ Ct t 0 []) by exact Ht.
  rewrite oofnatR. replace (pred k) with (k - 1)%nat by lia. apply odivR.
  destruct k as [|[|k]]; try lia. replace (S (S k) - 1)%nat with (S k) by lia.
  rewrite S_INR. pose proof (pos_INR k). lra.
Qed.

(* symmetrising last makes ANY smoother output symmetric *)
Theorem symmetrise_symmetric n S i j : (i < n)%nat -> (j < n)%nat ->
  ent (symmetrise opsR n S) i j = ent (symmetrise opsR n S) j i.
Proof.
  intros Hi Hj. unfold ent, symmetrise.
  rewrite (nth_map_seq (fun i => map _ (seq 0 n))) by exact Hi.
  rewrite (nth_map_seq (fun j0 => _)) by exact Hj.
  rewrite (nth_map_seq (fun i => map _ (seq 0 n))) by exact Hj.
  rewrite (nth_map_seq (fun j0 => _)) by exact Hi.
  rewrite !ohalfR. cbn. lra.
Qed.
Theorem symmetrise_fixes_symmetric n S i j : (i < n)%nat -> (j < n)%nat ->
  ent S i j = ent S j i -> ent (symmetrise opsR n S) i j = ent S i j.
Proof.
  intros Hi Hj E. unfold ent in *. unfold symmetrise.
  rewrite (nth_map_seq (fun i => map _ (seq 0 n))) by exact Hi.
  rewrite (nth_map_seq (fun j0 => _)) by exact Hj.
  rewrite ohalfR. cbn in *. rewrite <- E. lra.
Qed.

(* ---------- C09/C10: column sums, means ---------- *)
Lemma colsum_length m X : Forall (fun r => length r = m) X -> length (colsum opsR m X) = m.
Proof.
  induction 1 as [|r X Hr HX IH]; unfold colsum; simpl; [apply zeros_length|].
  fold (colsum opsR m X). rewrite vadd_length, IH, Hr. lia.
Qed.

Lemma nth_zeros n j : nth j (zerosR n) 0 = 0.
Proof. unfold zeros. destruct (Nat.lt_ge_cases j n); [apply nth_repeat|]. apply nth_overflow. rewrite repeat_length. lia. Qed.

Lemma colsum_nth m X j : Forall (fun r => length r = m) X -> (j < m)%nat ->
  nth j (colsum opsR m X) 0 = vsumR (map (fun r => nth j r 0) X).
Proof.
  intros HX Hj. induction HX as [|r X Hr HX IH]; unfold colsum; simpl.
  - rewrite nth_zeros. reflexivity.
  - fold (colsum opsR m X). unfold vadd.
    rewrite (nth_map2 _ r (colsum opsR m X) j 0 0 0) by (rewrite ?colsum_length by exact HX; lia).
    rewrite IH. reflexivity.
Qed.

(* the mean of dense data is the pointwise average *)
Theorem mean_pointwise m X j : X <> [] -> Forall (fun r => length r = m) X -> (j < m)%nat ->
  nth j (mean opsR m X) 0 = vsumR (map (fun r => nth j r 0) X) / INR (length X).
Proof.
  intros Hne HX Hj. unfold mean, colmean.
  rewrite (nth_map_in _ (colsum opsR m X) j 0 0) by (rewrite colsum_length by exact HX; exact Hj).
  rewrite oofnatR, odivR by (pose proof (INR_len_pos X Hne); lra).
  rewrite colsum_nth by assumption. reflexivity.
Qed.

Lemma mean_length m X : Forall (fun r => length r = m) X -> length (mean opsR m X) = m.
Proof. intros H. unfold mean, colmean. rewrite map_length. apply colsum_length. exact H. Qed.

(* ... and does not depend on the order of the observations *)
Lemma vadd_swap x : forall y z, vaddR x (vaddR y z) = vaddR y (vaddR x z).
Proof.
  induction x as [|a x IH]; intros [|b y] [|c z]; try reflexivity.
  change (vaddR (a :: x) (vaddR (b :: y) (c :: z))) with (a + (b + c) :: vaddR x (vaddR y z)).
  change (vaddR (b :: y) (vaddR (a :: x) (c :: z))) with (b + (a + c) :: vaddR y (vaddR x z)).
  rewrite IH. f_equal. lra.
Qed.
Theorem colsum_perm m X X' : Permutation X X' -> colsum opsR m X = colsum opsR m X'.
Proof.
  induction 1 as [|r X X' _ IH|r s X|X X' X'' _ IH1 _ IH2]; unfold colsum in *; simpl.
  - reflexivity.
  - rewrite IH. reflexivity.
  - apply vadd_swap.
  - congruence.
Qed.
Theorem mean_perm m X X' : Permutation X X' -> mean opsR m X = mean opsR m X'.
Proof.
  intros H. unfold mean, colmean. rewrite (colsum_perm m X X' H), (Permutation_length H). reflexivity.
Qed.

(* ---------- C10: centring ---------- *)
Lemma center_entry m X i j : X <> [] -> Forall (fun r => length r = m) X -> (i < length X)%nat -> (j < m)%nat ->
  ent (center opsR m X) i j = ent X i j - nth j (mean opsR m X) 0.
Proof.
  intros Hne HX Hi Hj. unfold ent, center, center_rows.
  rewrite (nth_map_in _ X i [] []) by exact Hi. unfold vsub.
  assert (Hr : length (nth i X []) = m) by (rewrite Forall_forall in HX; apply HX; apply nth_In; exact Hi).
  rewrite (nth_map2 _ _ _ j 0 0 0) by (rewrite ?Hr; try exact Hj; fold (mean opsR m X); rewrite mean_length by exact HX; exact Hj).
  reflexivity.
Qed.

Lemma center_rows_length m X : Forall (fun r => length r = m) X ->
  Forall (fun r => length r = m) (center opsR m X).
Proof.
  intros HX. unfold center, center_rows. rewrite Forall_map. rewrite Forall_forall in *.
  intros r Hr. unfold vsub. rewrite map2_length, (HX r Hr). fold (mean opsR m X).
  rewrite mean_length by (apply Forall_forall; exact HX). lia.
Qed.

Theorem center_mean_zero m X : X <> [] -> Forall (fun r => length r = m) X ->
  mean opsR m (center opsR m X) = zerosR m.
Proof.
  intros Hne HX.
  assert (HC := center_rows_length m X HX).
  assert (Hne' : center opsR m X <> []) by (unfold center, center_rows; destruct X; [contradiction|discriminate]).
  apply list_eq_nth; [rewrite mean_length, zeros_length by exact HC; reflexivity|].
  intros j Hj. rewrite mean_length in Hj by exact HC.
  rewrite mean_pointwise, nth_zeros by assumption.
  assert (Hlen : length (center opsR m X) = length X) by (unfold center, center_rows; apply map_length).
  rewrite Hlen. pose proof (INR_len_pos X Hne) as Hp.
  (* sum over rows of (x_ij - mu_j) *)
  unfold center, center_rows. rewrite map_map.
  assert (E : map (fun x => nth j (vsubR x (colmean opsR m X)) 0) X =
              map (fun r => nth j r 0 + - nth j (mean opsR m X) 0) X).
  { apply map_ext_in. intros r Hr. unfold vsub.
    assert (Hlr : length r = m) by (rewrite Forall_forall in HX; apply HX; exact Hr).
    rewrite (nth_map2 _ _ _ j 0 0 0) by (rewrite ?Hlr; try exact Hj; fold (mean opsR m X); rewrite mean_length by exact HX; exact Hj).
    reflexivity. }
  rewrite E, (vsum_map_add (fun r => nth j r 0) (fun _ => - nth j (mean opsR m X) 0)), vsum_map_const.
  rewrite (mean_pointwise m X j Hne HX Hj). field. lra.
Qed.

Lemma vsub_zeros r : vsubR r (zerosR (length r)) = r.
Proof.
  induction r as [|a r IH]; [reflexivity|].
  change (vsubR (a :: r) (zerosR (length (a :: r)))) with (a - 0 :: vsubR r (zerosR (length r))).
  rewrite IH. f_equal. lra.
Qed.

Theorem center_idempotent m X : X <> [] -> Forall (fun r => length r = m) X ->
  center opsR m (center opsR m X) = center opsR m X.
Proof.
  intros Hne HX. pose proof (center_mean_zero m X Hne HX) as Hz.
  pose proof (center_rows_length m X HX) as HC.
  unfold center at 1. unfold center_rows. fold (mean opsR m (center opsR m X)). rewrite Hz.
  rewrite <- (map_id (center opsR m X)) at 2. apply map_ext_in. intros r Hr.
  rewrite Forall_forall in HC. rewrite <- (HC r Hr). apply vsub_zeros.
Qed.

(* ---------- C10: normalising ---------- *)
Lemma map_div_vscale r f : r <> 0 -> map (fun v => odiv opsR v r) f = vscaleR (/ r) f.
Proof. intros H. unfold vscale. apply map_ext. intros v. rewrite odivR by exact H. cbn. unfold Rdiv. lra. Qed.

Theorem normalize_unit_norm x f r : r <> 0 -> r * r = normsqR x f ->
  normsqR x (map (fun v => odiv opsR v r) f) = 1.
Proof.
  intros Hr E. rewrite map_div_vscale by exact Hr. rewrite normsq_homogeneous, <- E. field. exact Hr.
Qed.

(* ---------- C10: standardising (column view) ---------- *)
Lemma gdivR v s : s <> 0 -> gdiv opsR v s = v / s.
Proof. intros H. unfold gdiv. cbn. replace (Reqb s 0) with false by (symmetry; apply Reqb_false; exact H). apply Rdiv0_nz. exact H. Qed.
Lemma gdivR0 v : gdiv opsR v 0 = 0.
Proof. unfold gdiv. cbn. replace (Reqb 0 0) with true by (symmetry; apply Reqb_true; reflexivity). reflexivity. Qed.

Theorem standardize_col_unit_variance c sd : c <> [] -> sd <> 0 -> sd * sd = pvarR c ->
  pvarR (map (fun v => gdiv opsR (v - avgR c) sd) c) = 1.
Proof.
  intros Hc Hs E.
  assert (M : map (fun v => gdiv opsR (v - avgR c) sd) c = map (fun v => (/ sd) * v + (- avgR c / sd)) c).
  { apply map_ext. intros v. rewrite gdivR by exact Hs. field. exact Hs. }
  rewrite M, pvar_affine by exact Hc. rewrite <- E. field. exact Hs.
Qed.
(* center=False: dividing by the sd alone already gives unit variance (the variance ignores the offset) *)
Theorem standardize_nc_col_unit_variance c sd : c <> [] -> sd <> 0 -> sd * sd = pvarR c ->
  pvarR (map (fun v => gdiv opsR v sd) c) = 1.
Proof.
  intros Hc Hs E.
  assert (M : map (fun v => gdiv opsR v sd) c = map (fun v => (/ sd) * v + 0) c).
  { apply map_ext. intros v. rewrite gdivR by exact Hs. field. exact Hs. }
  rewrite M, pvar_affine by exact Hc. rewrite <- E. field. exact Hs.
Qed.
Theorem standardize_nc_entry sds X i j : (i < length X)%nat -> (j < length sds)%nat -> (j < length (nth i X []))%nat ->
  ent (standardize_nc opsR sds X) i j = gdiv opsR (ent X i j) (nth j sds 0).
Proof.
  intros Hi Hj Hr. unfold ent, standardize_nc.
  rewrite (nth_map_in _ X i [] []) by exact Hi.
  rewrite (nth_map2 _ _ _ j 0 0 0) by lia. reflexivity.
Qed.
Theorem standardize_col_zero_variance c : map (fun v => gdiv opsR (v - avgR c) 0) c = map (fun _ => 0) c.
Proof. apply map_ext. intros v. apply gdivR0. Qed.

Theorem standardize_entry m sds X i j : X <> [] -> Forall (fun r => length r = m) X ->
  length sds = m -> (i < length X)%nat -> (j < m)%nat ->
  ent (standardize opsR m sds X) i j =
  gdiv opsR (ent X i j - nth j (mean opsR m X) 0) (nth j sds 0).
Proof.
  intros Hne HX Hs Hi Hj. unfold ent, standardize.
  assert (Hlen : length (center_rows opsR m X) = length X) by apply map_length.
  rewrite (nth_map_in _ (center_rows opsR m X) i [] []) by (rewrite Hlen; exact Hi).
  pose proof (center_rows_length m X HX) as HC. unfold center in HC.
  assert (Hr : length (nth i (center_rows opsR m X) []) = m).
  { rewrite Forall_forall in HC. apply HC. apply nth_In. rewrite Hlen. exact Hi. }
  rewrite (nth_map2 _ _ _ j 0 0 0) by lia.
  pose proof (center_entry m X i j Hne HX Hi Hj) as CE. unfold ent, center in CE. rewrite CE. reflexivity.
Qed.

(* ---------- C10: rescaling ---------- *)
Lemma pvar_scale s c : s <> 0 -> pvarR (map (fun v => odiv opsR v s) c) = pvarR c / (s * s).
Proof.
  intros Hs. destruct c as [|a c]; [cbn; rewrite !Rdiv0_z; unfold Rdiv; lra|].
  assert (M : map (fun v => odiv opsR v s) (a :: c) = map (fun v => (/ s) * v + 0) (a :: c)).
  { apply map_ext. intros v. rewrite odivR by exact Hs. unfold Rdiv. lra. }
  rewrite M, pvar_affine by discriminate. field. exact Hs.
Qed.

Lemma transpose_map (h : R -> R) m X : Forall (fun r => length r = m) X ->
  transpose m (map (map h) X) = map (map h) (transpose m X).
Proof.
  induction 1 as [|r X Hr HX IH]; unfold transpose; simpl.
  - induction m; simpl; [reflexivity|]. f_equal. assumption.
  - fold (transpose m (map (map h) X)). fold (transpose m X). rewrite IH.
    generalize (transpose m X). clear. induction r as [|a r IHr]; intros [|c C]; try reflexivity.
    simpl. f_equal. apply IHr.
Qed.

Theorem rescale_weight_scaled x X s : s <> 0 -> Forall (fun r => length r = length x) X ->
  rescale_weight opsR x (rescale opsR s X) = rescale_weight opsR x X / (s * s).
Proof.
  intros Hs HX. unfold rescale_weight, rescale, pvars, cols.
  rewrite transpose_map by exact HX. rewrite map_map.
  assert (E : map (fun c => pvarR (map (fun v => odiv opsR v s) c)) (transpose (length x) X) =
              vscaleR (/ (s * s)) (map pvarR (transpose (length x) X))).
  { unfold vscale. rewrite map_map. apply map_ext. intros c. rewrite pvar_scale by exact Hs. cbn. unfold Rdiv. lra. }
  rewrite E, trapz_vscale. unfold Rdiv. lra.
Qed.

Theorem rescale_then_weight_is_one x X s : 0 < rescale_weight opsR x X ->
  s * s = rescale_weight opsR x X -> Forall (fun r => length r = length x) X ->
  rescale_weight opsR x (rescale opsR s X) = 1.
Proof.
  intros Hw E HX. assert (Hs : s <> 0) by (intros ->; lra).
  rewrite rescale_weight_scaled by assumption. rewrite <- E. field. exact Hs.
Qed.

(* ---------- C09: noise variance ---------- *)
Notation nv1R := (noise_var1 opsR).

Theorem noise_var1_nonneg d x : 0 <= nv1R d x.
Proof.
  unfold noise_var1. destruct (Nat.ltb (length x) (length d)); [cbn; lra|].
  apply avg_nonneg. rewrite Forall_map. apply Forall_forall. intros w _. cbv beta. unfold osq. cbn. apply Rle_0_sqr.
Qed.
Theorem noise_var_nonneg d X : 0 <= noise_var opsR d X.
Proof. unfold noise_var. apply avg_nonneg. rewrite Forall_map. apply Forall_forall. intros x _. apply noise_var1_nonneg. Qed.
Theorem noise_var1_short d x : (length x < length d)%nat -> nv1R d x = 0.
Proof. intros H. unfold noise_var1. apply Nat.ltb_lt in H. rewrite H. reflexivity. Qed.

Lemma windows_map (h : R -> R) x : forall k, windows (map h x) k = map (map h) (windows x k).
Proof.
  induction x as [|a x IH]; intros k; [reflexivity|].
  simpl map. cbn [windows]. rewrite map_length.
  destruct (Nat.leb k (S (length x))); [|reflexivity].
  simpl map. rewrite IH. f_equal. change (h a :: map h x) with (map h (a :: x)). apply firstn_map.
Qed.

Lemma windows_length (x : list R) : forall k w, In w (windows x k) -> length w = k.
Proof.
  induction x as [|a x IH]; intros k w H; [contradiction|].
  cbn [windows] in H. destruct (Nat.leb k (S (length x))) eqn:E; [|contradiction].
  apply Nat.leb_le in E. destruct H as [<-|H]; [|apply IH; exact H].
  rewrite firstn_length. simpl length. lia.
Qed.

Theorem noise_var1_scale a d x : nv1R d (vscaleR a x) = a * a * nv1R d x.
Proof.
  unfold noise_var1, vscale. rewrite map_length.
  destruct (Nat.ltb (length x) (length d)); [cbn; lra|].
  rewrite windows_map, map_map.
  set (W := windows x (length d)).
  assert (E : map (fun w => osq opsR (dotR d (map (omul opsR a) w))) W =
              map (fun v => (a * a) * v + 0) (map (fun w => osq opsR (dotR d w)) W)).
  { rewrite map_map. apply map_ext. intros w. fold (vscaleR a w). rewrite dot_vscale_r. unfold osq. cbn. ring. }
  rewrite E. destruct W as [|w W]; [simpl map; rewrite avg_nil; lra|].
  rewrite avg_affine by discriminate. lra.
Qed.

Lemma dot_shift d : forall w c, length w = length d ->
  dotR d (map (fun v => v + c) w) = dotR d w + c * vsumR d.
Proof.
  induction d as [|a d IH]; intros [|b w] c H; simpl in H; try discriminate; [cbn; lra|].
  simpl map. rewrite !dot_cons, vsum_cons, IH by lia. lra.
Qed.

(* exact effect of adding a constant c to the curve: the estimate changes only through
   the (tiny) sum of the difference sequence *)
Theorem noise_var1_shift d x c : (length d <= length x)%nat ->
  nv1R d (map (fun v => v + c) x) =
  nv1R d x + 2 * c * vsumR d * avgR (map (dotR d) (windows x (length d))) + (c * vsumR d) * (c * vsumR d).
Proof.
  intros H.
  destruct x as [|a0 x0].
  { destruct d as [|? ?]; [|simpl in H; lia]. unfold noise_var1. cbn [map length Nat.ltb Nat.leb windows].
    rewrite !avg_nil. cbn. lra. }
  set (x := a0 :: x0) in *.
  unfold noise_var1. rewrite map_length.
  replace (Nat.ltb (length x) (length d)) with false by (symmetry; apply Nat.ltb_ge; exact H).
  rewrite windows_map, map_map.
  set (W := windows x (length d)).
  assert (HW : W <> []).
  { unfold W, x. cbn [windows]. replace (Nat.leb (length d) (S (length x0))) with true
      by (symmetry; apply Nat.leb_le; exact H). discriminate. }
  set (K := c * vsumR d).
  assert (E : map (fun w => osq opsR (dotR d (map (fun v => v + c) w))) W =
              map (fun w => osq opsR (dotR d w) + (2 * K * dotR d w + K * K)) W).
  { apply map_ext_in. intros w Hw. rewrite dot_shift by (apply (windows_length x); exact Hw).
    unfold osq, K. cbn. ring. }
  rewrite E.
  rewrite !avg_eq by (try exact HW; destruct W; [contradiction|discriminate]).
  rewrite !map_length.
  rewrite (vsum_map_add (fun w => osq opsR (dotR d w)) (fun w => 2 * K * dotR d w + K * K)).
  rewrite (vsum_map_add (fun w => 2 * K * dotR d w) (fun _ => K * K)).
  rewrite (vsum_map_scale (2 * K) (fun w => dotR d w)), vsum_map_const.
  change (map (fun w : list R => dotR d w) W) with (map (dotR d) W).
  pose proof (INR_len_pos W HW). unfold K. field. lra.
Qed.
