(* Lemmas/PsplineQuadratic.v — P-splines of degree >= 2 with a difference penalty of order >= 3 reproduce every
   QUADRATIC polynomial (C05, the degree-2 case), end to end on the executed model (1-D). *)
From Coq Require Import List Bool Reals Lra Lia Arith.
From FDAV Require Import Base.Num Base.Vec Model.Basis Model.Pspline
  Lemmas.Vec Lemmas.Gram Lemmas.Stats Lemmas.Basis Lemmas.Pspline Lemmas.CovPerm Lemmas.PsplineConst Lemmas.Greville
  Lemmas.PsplineLinear Lemmas.Marsden2.
Import ListNotations.
Local Open Scope R_scope.

(* ---------- second moment of the difference coefficients ---------- *)
Definition sqidx (n : nat) : list R := map (fun j => INR j * INR j) (seq 0 n).
Definition mom2 (l : list R) : R := dotR l (sqidx (length l)).

Lemma dot_quadratic_seq A0 B0 C0 : forall (l : list R) lo n, (length l <= n)%nat ->
  dotR l (map (fun j => A0 + B0 * INR j + C0 * (INR j * INR j)) (seq lo n))
  = (A0 + B0 * INR lo + C0 * (INR lo * INR lo)) * vsumR l + (B0 + 2 * C0 * INR lo) * mom1 l + C0 * mom2 l.
Proof.
  unfold mom1, mom2, sqidx.
  induction l as [|a l IH]; intros lo n H; [rewrite !dot_nil_l; change (vsumR []) with 0; lra|].
  destruct n as [|n]; [simpl in H; lia|]. cbn [seq map length]. rewrite !dot_cons, vsum_cons.
  rewrite IH by (simpl in H; lia). rewrite S_INR.
  rewrite <- !seq_shift, !map_map.
  assert (E1 : dotR l (map (fun x => INR (S x)) (seq 0 (length l))) = dotR l (map INR (seq 0 (length l))) + vsumR l).
  { rewrite (map_ext _ (fun x => INR x + 1)) by (intros; apply S_INR).
    clear. generalize 0%nat. induction l as [|a l IHl]; intros s; [rewrite !dot_nil_l; change (vsumR []) with 0; lra|].
    cbn [length seq map]. rewrite !dot_cons, vsum_cons, IHl. lra. }
  assert (E2 : dotR l (map (fun x => INR (S x) * INR (S x)) (seq 0 (length l)))
               = dotR l (map (fun j => INR j * INR j) (seq 0 (length l))) + 2 * dotR l (map INR (seq 0 (length l))) + vsumR l).
  { rewrite (map_ext _ (fun x => INR x * INR x + 2 * INR x + 1)) by (intros; rewrite S_INR; ring).
    clear. generalize 0%nat. induction l as [|a l IHl]; intros s; [rewrite !dot_nil_l; change (vsumR []) with 0; lra|].
    cbn [length seq map]. rewrite !dot_cons, vsum_cons, IHl. lra. }
  rewrite E1, E2. cbn [INR]. lra.
Qed.

Lemma mom2_cons0 (c : list R) : dotR (0 :: c) (sqidx (S (length c))) = mom2 c + 2 * mom1 c + vsumR c.
Proof.
  unfold mom2, mom1, sqidx. cbn [seq map]. rewrite dot_cons. rewrite <- seq_shift, map_map.
  rewrite (map_ext _ (fun x => INR x * INR x + 2 * INR x + 1)) by (intros; rewrite S_INR; ring).
  generalize 0%nat. induction c as [|a c IH]; intros s; [rewrite !dot_nil_l; change (vsumR []) with 0; cbn; lra|].
  cbn [length seq map]. rewrite !dot_cons, vsum_cons. specialize (IH (S s)). cbn [INR] in *. lra.
Qed.

Lemma mom2_dcoef_S d : mom2 (dcoef opsR (S d)) = 2 * mom1 (dcoef opsR d) + vsumR (dcoef opsR d).
Proof.
  unfold mom2 at 1. rewrite dcoef_length. cbn [dcoef].
  rewrite dot_vsub_l by (cbn [length]; rewrite app_length; cbn [length]; lia).
  cbn [o0 opsR].
  pose proof (mom2_cons0 (dcoef opsR d)) as M. rewrite dcoef_length in M. rewrite M.
  change [0] with (zerosR 1). rewrite dot_app_zeros.
  unfold sqidx. rewrite (seq_S (S d) 0), map_app, dot_trunc_r by (rewrite dcoef_length, map_length, seq_length; lia).
  unfold mom2, sqidx. rewrite dcoef_length. lra.
Qed.
Lemma mom2_dcoef_SSS d : mom2 (dcoef opsR (S (S (S d)))) = 0.
Proof. rewrite mom2_dcoef_S, mom1_dcoef_SS, vsum_dcoef_S. lra. Qed.

(* the difference penalty of any order >= 3 vanishes on coefficient vectors that are quadratic in the index *)
Theorem diffmat_quadratic A0 B0 C0 nb d :
  mvR (diffmat opsR nb (S (S (S d)))) (map (fun j => A0 + B0 * INR j + C0 * (INR j * INR j)) (seq 0 nb))
  = zerosR (length (diffmat opsR nb (S (S (S d))))).
Proof.
  unfold diffmat, mv. rewrite !map_map, map_length.
  set (l := filter (fun i => Nat.leb (i + S (S (S d)) + 1) nb) (seq 0 nb)).
  assert (Hl : forall i, In i l -> (i + S (S (S d)) + 1 <= nb)%nat).
  { intros i Hi. apply filter_In in Hi. destruct Hi as [_ Hi]. apply Nat.leb_le in Hi. exact Hi. }
  clearbody l. induction l as [|i l IH]; [reflexivity|].
  cbn [map length]. change (zerosR (S (length l))) with (0 :: zerosR (length l)).
  f_equal; [|apply IH; intros j Hj; apply Hl; right; exact Hj].
  specialize (Hl i (or_introl eq_refl)).
  set (v := map (fun j => A0 + B0 * INR j + C0 * (INR j * INR j)) (seq 0 nb)).
  assert (Lv : length v = nb) by (unfold v; rewrite map_length, seq_length; reflexivity).
  rewrite <- Lv at 1. rewrite dot_firstn_l, dot_zeros_app, dot_app_zeros. unfold v.
  rewrite skipn_map_seq. cbn [Nat.add].
  rewrite dot_quadratic_seq by (rewrite dcoef_length; lia).
  rewrite vsum_dcoef_S, mom1_dcoef_SS, mom2_dcoef_SSS. lra.
Qed.

(* ---------- on equally spaced knots the e2 coefficients are a quadratic polynomial of the index ---------- *)
Lemma e2_knot_quadratic a dx p' : forall p, exists q0 q1 q2, forall j,
  e2 (knot opsR a dx p') j p = q0 + q1 * INR j + q2 * (INR j * INR j).
Proof.
  induction p as [|p [q0 [q1 [q2 IH]]]].
  - exists 0, 0, 0. intros j. cbn [e2]. lra.
  - set (u0 := a + INR (S p) * dx - INR p' * dx).          (* knot (j + S p) = u0 + dx j *)
    set (s0 := INR p * (a - INR p' * dx) + dx * (INR p * (INR p + 1) / 2)).   (* tsum j p = s0 + (p dx) j *)
    exists (q0 + u0 * s0), (q1 + u0 * (INR p * dx) + dx * s0), (q2 + dx * (INR p * dx)).
    intros j. change (e2 (knot opsR a dx p') j (S p))
      with (e2 (knot opsR a dx p') j p + knot opsR a dx p' (j + S p) * tsum (knot opsR a dx p') j p).
    rewrite IH, tsum_knot, knot_val, plus_INR. unfold u0, s0. ring.
Qed.

Section DesignQuadratic.
  Variables (a b : R) (nseg p : nat).
  Hypothesis Hab : a < b.
  Hypothesis Hseg : (0 < nseg)%nat.
  Hypothesis Hp : (2 <= p)%nat.
  Let dx := (b - a) / INR nseg.
  Let t := knot opsR a dx p.

  Lemma dxq : 0 < dx.
  Proof. unfold dx. apply Rmult_lt_0_compat; [lra|]. apply Rinv_0_lt_compat. apply lt_0_INR. exact Hseg. Qed.

  Lemma E_as_vsum : forall n lo x,
    vsum opsR (map (fun j => e2 t j p * bspl opsR p t j x) (seq lo n)) = E_ t p lo n x.
  Proof.
    induction n as [|n IH]; intros lo x; [reflexivity|].
    cbn [seq map]. change (vsum opsR (?h :: ?l)) with (h + vsum opsR l).
    rewrite IH, (bspl_model t (knot_inc a dx p dxq)). reflexivity.
  Qed.

  Theorem code_bs_marsden2 x : a <= x <= b ->
    vsum opsR (map (fun j => e2 t j p * bspl opsR p t j x) (seq 0 (nseg + p))) = c2 p * (x * x).
  Proof.
    intros [H1 H2]. rewrite E_as_vsum.
    destruct p as [|p'] eqn:Ep; [lia|].
    apply (marsden2_closed t (knot_inc a dx (S p') dxq)); [|lia].
    cbn [Nat.add]. unfold t, dx. rewrite knot_at_p.
    rewrite knot_at_end by exact Hseg. lra.
  Qed.

  Lemma c2_pos : c2 p <> 0.
  Proof.
    unfold c2. assert (2 <= INR p) by (change 2 with (INR 2); apply le_INR; exact Hp).
    intro E. assert (INR p * (INR p - 1) = 0) by lra. nra.
  Qed.

  (* coefficients of al + be x + ga x^2 in the B-spline basis *)
  Definition quad_coef (al be ga : R) : list R :=
    map (fun j => al + be * (tsum t j p / INR p) + ga * (e2 t j p / c2 p)) (seq 0 (nseg + p)).

  Lemma vsum_map_lin3 {A} (f g h : A -> R) u v w (l : list A) :
    vsumR (map (fun e => u * f e + v * g e + w * h e) l) = u * vsumR (map f l) + v * vsumR (map g l) + w * vsumR (map h l).
  Proof.
    induction l as [|e l IH]; [cbn [map]; change (vsumR []) with 0; lra|].
    cbn [map]. rewrite !vsum_cons, IH. lra.
  Qed.

  Theorem design_quadratic al be ga xs : Forall (fun x => a <= x <= b) xs ->
    mvR (design a b nseg p xs) (quad_coef al be ga) = map (fun x => al + be * x + ga * (x * x)) xs.
  Proof.
    intros Hx. assert (Hp1 : (1 <= p)%nat) by lia.
    rewrite (design_rows a b nseg p Hseg) by exact Hp1. unfold mv. rewrite map_map.
    apply map_ext_in. intros x Hin. rewrite Forall_forall in Hx. specialize (Hx x Hin).
    unfold quad_coef. rewrite dot_map_map. fold dx. fold t.
    assert (Np : INR p <> 0) by (apply not_0_INR; lia). pose proof c2_pos as Nc.
    rewrite (map_ext _ (fun j => al * bspl opsR p t j x + (be / INR p) * (tsum t j p * bspl opsR p t j x)
                                + (ga / c2 p) * (e2 t j p * bspl opsR p t j x))).
    2:{ intros j. field. split; assumption. }
    rewrite vsum_map_lin3.
    pose proof (code_bs_partition_of_unity a b nseg p Hab Hseg x Hp1 Hx) as P. unfold bsum in P. fold dx in P. fold t in P. rewrite P.
    pose proof (code_bs_greville a b nseg p Hab Hseg x Hp1 Hx) as G. fold dx in G. fold t in G. rewrite G.
    rewrite (code_bs_marsden2 x Hx). field. split; assumption.
  Qed.

  (* the quadratic's coefficient vector is a quadratic polynomial of the index, hence annihilated by differences of order >= 3 *)
  Lemma quad_coef_is_quadratic al be ga : exists A0 B0 C0,
    quad_coef al be ga = map (fun j => A0 + B0 * INR j + C0 * (INR j * INR j)) (seq 0 (nseg + p)).
  Proof.
    destruct (e2_knot_quadratic a dx p p) as [q0 [q1 [q2 Hq]]].
    assert (Np : INR p <> 0) by (apply not_0_INR; lia). pose proof c2_pos as Nc.
    exists (al + be * ((INR p * (a - INR p * dx) + dx * (INR p * (INR p + 1) / 2)) / INR p) + ga * (q0 / c2 p)),
           (be * dx + ga * (q1 / c2 p)), (ga * (q2 / c2 p)).
    unfold quad_coef. apply map_ext. intros j. unfold t. rewrite Hq, tsum_knot. field. split; assumption.
  Qed.

  Theorem quadratic_solves_normal_equations al be ga lam d w xs : Forall (fun x => a <= x <= b) xs ->
    AopR (nseg + p) (design a b nseg p xs) w (pens1 opsR (nseg + p) (S (S (S d))) lam) (quad_coef al be ga)
    = rhsR (nseg + p) (design a b nseg p xs) w (map (fun x => al + be * x + ga * (x * x)) xs).
  Proof.
    intros Hx. rewrite (reproduces_null_space' (nseg + p) (design a b nseg p xs) w).
    - unfold fitted. rewrite design_quadratic by exact Hx. reflexivity.
    - apply design_wf; [assumption|lia].
    - unfold pens1, wfP. constructor; [|constructor]. cbn [snd]. apply diffmat_wf.
    - unfold pens1. constructor; [|constructor]. cbn [snd].
      destruct (quad_coef_is_quadratic al be ga) as [A0 [B0 [C0 E]]]. rewrite E. apply diffmat_quadratic.
  Qed.

  Theorem quadratic_reproduced al be ga lam d w xs beta k : Forall (fun x => a <= x <= b) xs ->
    length beta = (nseg + p)%nat -> Forall (fun v => 0 <= v) w -> 0 <= lam ->
    AopR (nseg + p) (design a b nseg p xs) w (pens1 opsR (nseg + p) (S (S (S d))) lam) beta
      = rhsR (nseg + p) (design a b nseg p xs) w (map (fun x => al + be * x + ga * (x * x)) xs) ->
    (k < length xs)%nat -> (k < length w)%nat -> 0 < nth k w 0 ->
    nth k (fitted opsR (design a b nseg p xs) beta) 0 = al + be * nth k xs 0 + ga * (nth k xs 0 * nth k xs 0).
  Proof.
    intros Hx Hb Hw Hl E Hk Hkw Hpos. assert (Hp1 : (1 <= p)%nat) by lia.
    rewrite (fitted_unique (nseg + p) (design a b nseg p xs) w (pens1 opsR (nseg + p) (S (S (S d))) lam) beta (quad_coef al be ga) k).
    - unfold fitted. rewrite design_quadratic by exact Hx.
      rewrite (nth_map_in (fun x => al + be * x + ga * (x * x)) xs k 0 0) by exact Hk. reflexivity.
    - apply design_wf; assumption.
    - unfold pens1, wfP. constructor; [|constructor]. cbn [snd]. apply diffmat_wf.
    - exact Hb.
    - unfold quad_coef. rewrite map_length, seq_length. reflexivity.
    - exact Hw.
    - unfold pens1. constructor; [|constructor]. cbn [fst]. exact Hl.
    - rewrite E. symmetry. apply quadratic_solves_normal_equations. exact Hx.
    - rewrite (design_rows a b nseg p Hseg), map_length; [exact Hk|exact Hp1].
    - exact Hkw.
    - exact Hpos.
  Qed.
End DesignQuadratic.
