(* Lemmas/Basis.v — analytic properties of the basis families (C18), at R.
   Part 1 is about Cox–de Boor B-splines on ANY strictly increasing knot sequence (more general
   than the code's equally spaced one); part 2 instantiates it to the model of Model/Basis.v. *)
From Coq Require Import Reals Lra Lia List Bool Arith.
From FDAV Require Import Base.Num Base.Vec Model.Basis Lemmas.Vec.
Import ListNotations.
Local Open Scope R_scope.

Section BS.
  Variable t : nat -> R.
  Hypothesis t_inc : forall i, t i < t (S i).

  Lemma t_mono i j : (i <= j)%nat -> t i <= t j.
  Proof. induction 1; [lra|]. pose proof (t_inc m). lra. Qed.
  Lemma t_smono i j : (i < j)%nat -> t i < t j.
  Proof. intros H. pose proof (t_mono (S i) j H). pose proof (t_inc i). lra. Qed.

  Definition indR (j : nat) (x : R) : R :=
    if Rle_dec (t j) x then (if Rlt_dec x (t (S j)) then 1 else 0) else 0.

  Fixpoint B (p : nat) : nat -> R -> R :=
    match p with
    | O => indR
    | S p' => fun j x =>
        (x - t j) / (t (j + S p') - t j) * B p' j x
        + (t (j + S p' + 1) - x) / (t (j + S p' + 1) - t (S j)) * B p' (S j) x
    end.

  Lemma B_support p : forall j x, x < t j \/ t (j + p + 1) <= x -> B p j x = 0.
  Proof.
    induction p as [|p IH]; intros j x H.
    - simpl. unfold indR. replace (j + 0 + 1)%nat with (S j) in H by lia.
      destruct (Rle_dec (t j) x); [|reflexivity]. destruct (Rlt_dec x (t (S j))); [lra|reflexivity].
    - simpl. rewrite (IH j x), (IH (S j) x); [lra| |].
      + destruct H as [H|H]; [left; pose proof (t_inc j); lra|right].
        replace (S j + p + 1)%nat with (j + S p + 1)%nat by lia. exact H.
      + destruct H as [H|H]; [left; exact H|right].
        pose proof (t_mono (j + p + 1) (j + S p + 1) ltac:(lia)). lra.
  Qed.

  Lemma B_nonneg p : forall j x, 0 <= B p j x.
  Proof.
    induction p as [|p IH]; intros j x.
    - simpl. unfold indR. destruct (Rle_dec _ _); [destruct (Rlt_dec _ _)|]; lra.
    - simpl.
      destruct (Rlt_dec x (t j)) as [Hl|Hl].
      { rewrite (B_support p j x), (B_support p (S j) x); [lra| |]; left; [pose proof (t_inc j)|]; lra. }
      destruct (Rle_dec (t (j + S p + 1)) x) as [Hr|Hr].
      { rewrite (B_support p j x), (B_support p (S j) x); [lra| |]; right.
        - replace (S j + p + 1)%nat with (j + S p + 1)%nat by lia. exact Hr.
        - pose proof (t_mono (j + p + 1) (j + S p + 1) ltac:(lia)). lra. }
      pose proof (t_smono j (j + S p) ltac:(lia)).
      pose proof (t_smono (S j) (j + S p + 1) ltac:(lia)).
      assert (Hd : forall a b, 0 <= a -> 0 < b -> 0 <= a / b).
      { intros a b Ha Hb. apply Rmult_le_pos; [exact Ha|left; apply Rinv_0_lt_compat; exact Hb]. }
      apply Rplus_le_le_0_compat; (apply Rmult_le_pos; [apply Hd; lra | apply IH]).
  Qed.

  (* at most p+1 functions are non-zero at a point: the non-zero ones at x in [t_i, t_{i+1})
     have index in i-p .. i *)
  Lemma B_nonzero_window p j x i : B p j x <> 0 -> t i <= x < t (S i) -> (i - p <= j <= i)%nat.
  Proof.
    intros Hnz [H1 H2].
    assert (Hs : ~ (x < t j \/ t (j + p + 1) <= x)) by (intros H; apply Hnz; apply B_support; exact H).
    split.
    - destruct (Nat.le_gt_cases (i - p) j) as [|Hlt]; [assumption|]. exfalso. apply Hs. right.
      pose proof (t_mono (j + p + 1) i ltac:(lia)). lra.
    - destruct (Nat.le_gt_cases j i) as [|Hlt]; [assumption|]. exfalso. apply Hs. left.
      pose proof (t_mono (S i) j ltac:(lia)). lra.
  Qed.

  Fixpoint S_ (p lo n : nat) (x : R) : R :=   (* sum_{j=lo}^{lo+n-1} B p j x *)
    match n with O => 0 | S n' => B p lo x + S_ p (S lo) n' x end.

  Lemma S_last p : forall n lo x, S_ p lo (S n) x = S_ p lo n x + B p (lo + n) x.
  Proof.
    induction n as [|n IH]; intros lo x.
    - simpl. replace (lo + 0)%nat with lo by lia. lra.
    - change (S_ p lo (S (S n)) x) with (B p lo x + S_ p (S lo) (S n) x).
      rewrite IH. change (S_ p lo (S n) x) with (B p lo x + S_ p (S lo) n x).
      replace (S lo + n)%nat with (lo + S n)%nat by lia. lra.
  Qed.

  Lemma S0_unity : forall n lo x, t lo <= x < t (lo + n) -> S_ 0 lo n x = 1.
  Proof.
    induction n as [|n IH]; intros lo x [H1 H2].
    - replace (lo + 0)%nat with lo in H2 by lia. lra.
    - simpl. unfold indR at 1.
      destruct (Rle_dec (t lo) x); [|lra].
      destruct (Rlt_dec x (t (S lo))) as [Hx|Hx].
      + assert (Hz : forall m l, x < t l -> S_ 0 l m x = 0).
        { induction m; intros l Hl; simpl; [reflexivity|].
          rewrite IHm by (pose proof (t_inc l); lra).
          unfold indR. destruct (Rle_dec (t l) x); lra. }
        rewrite Hz by exact Hx. lra.
      + rewrite IH; [lra|]. split; [lra|]. replace (S lo + n)%nat with (lo + S n)%nat by lia. exact H2.
  Qed.

  Definition om (p j : nat) (x : R) := (x - t j) / (t (j + S p) - t j).
  Definition cf (p j : nat) (x : R) := (t (j + S p + 1) - x) / (t (j + S p + 1) - t (S j)).
  Lemma B_S p j x : B (S p) j x = om p j x * B p j x + cf p j x * B p (S j) x.
  Proof. reflexivity. Qed.
  Lemma cf_om p j x : cf p j x + om p (S j) x = 1.
  Proof.
    unfold cf, om. replace (S j + S p)%nat with (j + S p + 1)%nat by lia.
    pose proof (t_smono (S j) (j + S p + 1) ltac:(lia)). field. lra.
  Qed.

  Lemma S_step p : forall n lo x,
    S_ (S p) lo (S n) x =
      om p lo x * B p lo x + S_ p (S lo) n x + cf p (lo + n) x * B p (S (lo + n)) x.
  Proof.
    induction n as [|n IH]; intros lo x.
    - change (S_ (S p) lo 1 x) with (B (S p) lo x + 0). rewrite B_S.
      change (S_ p (S lo) 0 x) with 0. replace (lo + 0)%nat with lo by lia. lra.
    - rewrite S_last, IH, B_S, (S_last p n (S lo)).
      replace (S lo + n)%nat with (S (lo + n)) by lia.
      replace (lo + S n)%nat with (S (lo + n)) by lia.
      pose proof (cf_om p (lo + n) x) as E.
      replace (cf p (lo + n) x) with (1 - om p (S (lo + n)) x) by lra. lra.
  Qed.

  Theorem partition_of_unity p : forall n lo x,
    t (lo + p) <= x < t (lo + n) -> (p < n)%nat -> S_ p lo n x = 1.
  Proof.
    induction p as [|p IH]; intros n lo x [H1 H2] Hn.
    - apply S0_unity. replace (lo + 0)%nat with lo in H1 by lia. lra.
    - destruct n as [|n]; [lia|]. rewrite S_step.
      rewrite (B_support p lo x) by (right; replace (lo + p + 1)%nat with (lo + S p)%nat by lia; lra).
      rewrite (B_support p (S (lo + n)) x) by (left; replace (S (lo + n)) with (lo + S n)%nat by lia; lra).
      rewrite IH; [lra| |lia].
      split; [replace (S lo + p)%nat with (lo + S p)%nat by lia; lra|].
      replace (S lo + n)%nat with (lo + S n)%nat by lia. lra.
  Qed.

  Lemma B_left_knot p j : B (S p) j (t j) = 0.
  Proof.
    rewrite B_S. unfold om. rewrite (B_support p (S j) (t j)) by (left; apply t_inc).
    unfold Rdiv. replace (t j - t j) with 0 by lra. lra.
  Qed.
  Theorem partition_of_unity_closed p n lo x :
    t (lo + S p) <= x <= t (lo + n) -> (S p < n)%nat -> S_ (S p) lo n x = 1.
  Proof.
    intros [H1 H2] Hn. destruct (Rlt_dec x (t (lo + n))) as [Hx|Hx].
    - apply partition_of_unity; [lra|lia].
    - assert (x = t (lo + n)) by lra. subst x.
      pose proof (partition_of_unity (S p) (S n) lo (t (lo + n))) as P.
      rewrite S_last, B_left_knot in P. rewrite <- P; [lra| |lia].
      split; [lra|]. replace (lo + S n)%nat with (S (lo + n)) by lia. apply t_inc.
  Qed.

  (* ---------- the polymorphic model at opsR is this B ---------- *)
  Lemma ind_model j x : ind opsR t j x = indR j x.
  Proof.
    unfold ind, indR, oltb. cbn.
    destruct (Rle_dec (t j) x) as [H|H].
    - replace (Rleb (t j) x) with true by (symmetry; apply Rleb_true; exact H).
      destruct (Rlt_dec x (t (S j))) as [H'|H'].
      + replace (Rleb (t (S j)) x) with false by (symmetry; apply Rleb_false; exact H'). reflexivity.
      + replace (Rleb (t (S j)) x) with true by (symmetry; apply Rleb_true; lra). reflexivity.
    - replace (Rleb (t j) x) with false by (symmetry; apply Rleb_false; lra). reflexivity.
  Qed.

  Lemma bspl_model p : forall j x, bspl opsR p t j x = B p j x.
  Proof.
    induction p as [|p IH]; intros j x; [apply ind_model|].
    cbn [bspl B]. rewrite !IH. cbn [oadd omul odiv opsR osub oopp].
    pose proof (t_smono j (j + S p) ltac:(lia)).
    pose proof (t_smono (S j) (j + S p + 1) ltac:(lia)).
    unfold osub. cbn. rewrite !Rdiv0_nz by lra. reflexivity.
  Qed.
End BS.

(* ---------- the code's equally spaced extended knot sequence ---------- *)
Lemma knot_step a dx p j : knot opsR a dx p (S j) = knot opsR a dx p j + dx.
Proof. unfold knot, osub. cbn [oofnat]. cbn. lra. Qed.
Lemma knot_inc a dx p : 0 < dx -> forall j, knot opsR a dx p j < knot opsR a dx p (S j).
Proof. intros H j. rewrite knot_step. lra. Qed.
Lemma oofnatR' n : oofnat opsR n = INR n.
Proof. induction n as [|n IH]; [reflexivity|]. cbn [oofnat]. rewrite IH, S_INR. cbn. lra. Qed.
Lemma knot_at_p a dx p : knot opsR a dx p p = a.
Proof. unfold knot, osub. cbn. lra. Qed.
Lemma knot_at_end a b nseg p : (0 < nseg)%nat ->
  knot opsR a ((b - a) / INR nseg) p (nseg + p) = b.
Proof.
  intros H. unfold knot, osub. cbn. rewrite !oofnatR', plus_INR.
  assert (0 < INR nseg) by (apply lt_0_INR; exact H). field. lra.
Qed.

Section Code.
  Variables (a b : R) (nseg p : nat).
  Hypothesis Hab : a < b.
  Hypothesis Hseg : (0 < nseg)%nat.
  Let dx := (b - a) / INR nseg.
  Let t := knot opsR a dx p.

  Lemma dx_pos : 0 < dx.
  Proof. unfold dx. apply Rmult_lt_0_compat; [lra|]. apply Rinv_0_lt_compat. apply lt_0_INR. exact Hseg. Qed.

  Definition bsum (x : R) : R := vsum opsR (map (fun j => bspl opsR p t j x) (seq 0 (nseg + p))).

  Lemma bsum_S_ : forall n lo x,
    vsum opsR (map (fun j => bspl opsR p t j x) (seq lo n)) = S_ t p lo n x.
  Proof.
    induction n as [|n IH]; intros lo x; [reflexivity|].
    cbn [seq map]. change (vsum opsR (?h :: ?l)) with (h + vsum opsR l).
    rewrite IH, (bspl_model t (knot_inc a dx p dx_pos)). reflexivity.
  Qed.

  (* non-negative *)
  Theorem code_bs_nonneg j x : 0 <= bspl opsR p t j x.
  Proof. rewrite (bspl_model t (knot_inc a dx p dx_pos)). apply B_nonneg. apply knot_inc. apply dx_pos. Qed.

  (* local support: zero outside [t_j, t_{j+p+1}) *)
  Theorem code_bs_support j x : x < t j \/ t (j + p + 1) <= x -> bspl opsR p t j x = 0.
  Proof. rewrite (bspl_model t (knot_inc a dx p dx_pos)). apply B_support. apply knot_inc. apply dx_pos. Qed.

  Theorem code_bs_window j x i : bspl opsR p t j x <> 0 -> t i <= x < t (S i) -> (i - p <= j <= i)%nat.
  Proof. rewrite (bspl_model t (knot_inc a dx p dx_pos)). apply B_nonzero_window. apply knot_inc. apply dx_pos. Qed.

  (* the basis sums to one EVERYWHERE on the closed domain [a, b], for every degree >= 1 *)
  Theorem code_bs_partition_of_unity x : (1 <= p)%nat -> a <= x <= b -> bsum x = 1.
  Proof.
    intros Hp [H1 H2]. unfold bsum. rewrite bsum_S_.
    destruct p as [|p'] eqn:Ep; [lia|].
    apply partition_of_unity_closed; [apply knot_inc; apply dx_pos| |lia].
    cbn [Nat.add]. unfold t, dx. rewrite knot_at_p.
    replace (nseg + S p')%nat with (nseg + S p')%nat by reflexivity.
    rewrite knot_at_end by exact Hseg. lra.
  Qed.
End Code.

(* ---------- Legendre: P_k(1) = 1 (normalisation of Bonnet's recurrence) ---------- *)
Lemma legendre_pair_at_one k : legendre_pair opsR k 1 = (1, if Nat.eqb k 0 then 0 else 1).
Proof.
  induction k as [|k IH]; [reflexivity|].
  cbn [legendre_pair]. rewrite IH. cbn [fst snd].
  f_equal. rewrite !oofnatR'. unfold osub. cbn [omul oadd oopp odiv opsR].
  assert (Hk : INR (S k) <> 0) by (rewrite S_INR; pose proof (pos_INR k); lra).
  rewrite Rdiv0_nz by exact Hk.
  destruct (Nat.eqb k 0) eqn:E.
  - apply Nat.eqb_eq in E. subst. simpl. field.
  - replace (2 * k + 1)%nat with (k + S k)%nat by lia. rewrite plus_INR. field. exact Hk.
Qed.
Theorem legendre_at_one k : legendre opsR k 1 = 1.
Proof. unfold legendre. rewrite legendre_pair_at_one. reflexivity. Qed.

(* ---------- tensor products are row-major ---------- *)
Lemma kron_nth (u : list R) : forall (v : list R) i j, (i < length u)%nat -> (j < length v)%nat ->
  nth (i * length v + j) (kron opsR u v) 0 = nth i u 0 * nth j v 0.
Proof.
  induction u as [|a u IH]; intros v i j Hi Hj; simpl in Hi; [lia|].
  unfold kron. simpl flat_map. fold (kron opsR u v).
  destruct i as [|i].
  - simpl Nat.mul. simpl Nat.add. rewrite app_nth1 by (rewrite vscale_length; exact Hj).
    unfold vscale. rewrite (nth_indep _ 0 (omul opsR a 0)) by (rewrite map_length; exact Hj).
    rewrite map_nth. reflexivity.
  - rewrite app_nth2 by (rewrite vscale_length; simpl; lia).
    rewrite vscale_length. replace (S i * length v + j - length v)%nat with (i * length v + j)%nat by (simpl; lia).
    rewrite IH by lia. reflexivity.
Qed.

Lemma kron_length (u v : list R) : length (kron opsR u v) = (length u * length v)%nat.
Proof.
  induction u as [|a u IH]; [reflexivity|]. unfold kron. simpl flat_map. fold (kron opsR u v).
  rewrite app_length, vscale_length, IH. simpl. lia.
Qed.

Lemma tensor_basis_nth (B1 B2 : list (list R)) : forall k1 k2, (k1 < length B1)%nat -> (k2 < length B2)%nat ->
  nth (k1 * length B2 + k2) (tensor_basis opsR B1 B2) [] = kron opsR (nth k1 B1 []) (nth k2 B2 []).
Proof.
  induction B1 as [|f B1 IH]; intros k1 k2 H1 H2; simpl in H1; [lia|].
  unfold tensor_basis. simpl flat_map. fold (tensor_basis opsR B1 B2).
  destruct k1 as [|k1].
  - simpl Nat.mul. simpl Nat.add. rewrite app_nth1 by (rewrite map_length; exact H2).
    rewrite (nth_indep _ [] (kron opsR f [])) by (rewrite map_length; exact H2).
    rewrite (map_nth (fun g => kron opsR f g)). reflexivity.
  - rewrite app_nth2 by (rewrite map_length; simpl; lia).
    rewrite map_length. replace (S k1 * length B2 + k2 - length B2)%nat with (k1 * length B2 + k2)%nat by (simpl; lia).
    apply IH; lia.
Qed.

(* 2-D basis function (k1,k2) at grid point (i1,i2) = phi_k1(i1) * psi_k2(i2), both row-major *)
Theorem tensor_row_major B1 B2 k1 k2 i1 i2 m2 : (k1 < length B1)%nat -> (k2 < length B2)%nat ->
  length (nth k2 B2 []) = m2 -> (i1 < length (nth k1 B1 []))%nat -> (i2 < m2)%nat ->
  nth (i1 * m2 + i2) (nth (k1 * length B2 + k2) (tensor_basis opsR B1 B2) []) 0 =
  nth i1 (nth k1 B1 []) 0 * nth i2 (nth k2 B2 []) 0.
Proof.
  intros H1 H2 Hm Hi1 Hi2. rewrite tensor_basis_nth by assumption. subst m2. apply kron_nth; assumption.
Qed.

Theorem drop_intercept_spec (B : list (list R)) k : nth k (drop_intercept B) [] = nth (S k) B [].
Proof. destruct B; [destruct k; reflexivity|reflexivity]. Qed.
