(* Lemmas/Ufpca.v — the algebra around the eigen-solver of univariate FPCA, at R (C02). *)
From Coq Require Import List Bool Reals Lra Lia.
From FDAV Require Import Base.Num Base.Vec Base.Quad Model.Ufpca
  Lemmas.Vec Lemmas.Quad Lemmas.Gram.
Import ListNotations.
Local Open Scope R_scope.

Notation backR := (back opsR).

(* s is a vector of non-zero square roots of the weights w *)
Definition roots (s w : list R) : Prop := Forall2 (fun si wi => si * si = wi /\ si <> 0) s w.

Lemma roots_length s w : roots s w -> length s = length w.
Proof. induction 1; simpl; congruence. Qed.

Lemma back_cons ui u si s : backR (si :: s) (ui :: u) = ui / si :: backR s u \/ si = 0.
Proof.
  destruct (Req_dec si 0) as [E|E]; [right; exact E|left].
  unfold back. cbn. rewrite Rdiv0_nz by exact E. reflexivity.
Qed.
Lemma back_cons_nz ui u si s : si <> 0 -> backR (si :: s) (ui :: u) = ui / si :: backR s u.
Proof. intros E. unfold back. cbn. rewrite Rdiv0_nz by exact E. reflexivity. Qed.
Lemma back_length s u : length (backR s u) = Nat.min (length u) (length s).
Proof. unfold back. apply map2_length. Qed.

(* eigenfunctions are orthonormal for the quadrature: <phi_j,phi_k>_w = u_j . u_k *)
Theorem wdot_back s w : roots s w -> forall u v, length u = length s -> length v = length s ->
  wdotR w (backR s u) (backR s v) = dotR u v.
Proof.
  induction 1 as [|si wi s w [Hw Hs] _ IH]; intros [|ui u] [|vi v] Hu Hv; simpl in Hu, Hv; try discriminate.
  - reflexivity.
  - rewrite !back_cons_nz by exact Hs. rewrite wdot_cons, dot_cons, IH by lia. rewrite <- Hw. field. exact Hs.
Qed.

Lemma vmul_w_back s w : roots s w -> forall u, length u = length s ->
  vmulR w (backR s u) = vmulR s u.
Proof.
  induction 1 as [|si wi s w [Hw Hs] _ IH]; intros [|ui u] Hu; simpl in Hu; try discriminate; [reflexivity|].
  rewrite back_cons_nz by exact Hs.
  change (vmulR (wi :: w) (ui / si :: backR s u)) with (wi * (ui / si) :: vmulR w (backR s u)).
  change (vmulR (si :: s) (ui :: u)) with (si * ui :: vmulR s u).
  rewrite IH by lia. f_equal. rewrite <- Hw. field. exact Hs.
Qed.

Lemma dot_vmul_assoc r : forall s u, dotR (vmulR r s) u = dotR r (vmulR s u).
Proof.
  induction r as [|a r IH]; intros [|b s] [|c u]; try reflexivity.
  change (dotR (a * b :: vmulR r s) (c :: u) = dotR (a :: r) (b * c :: vmulR s u)).
  rewrite !dot_cons, IH. lra.
Qed.

(* the general statement needs the FULL vector s inside every row, so keep it as a parameter *)
Lemma mv_sym_scale_gen sfull : forall s C u, length C = length s ->
  mvR (map2 (fun si row => vscaleR si (vmulR row sfull)) s C) u = vmulR s (mvR C (vmulR sfull u)).
Proof.
  induction s as [|si s IH]; intros [|row C] u H; simpl in H; try discriminate; [reflexivity|].
  change (mvR (map2 (fun si row => vscaleR si (vmulR row sfull)) (si :: s) (row :: C)) u)
    with (dotR (vscaleR si (vmulR row sfull)) u :: mvR (map2 (fun si row => vscaleR si (vmulR row sfull)) s C) u).
  rewrite IH by lia. rewrite dot_vscale_l, dot_vmul_assoc. reflexivity.
Qed.

Lemma mv_sym_scale s C u : length C = length s ->
  mvR (sym_scale opsR s C) u = vmulR s (mvR C (vmulR s u)).
Proof. intros H. unfold sym_scale. apply mv_sym_scale_gen. exact H. Qed.

Lemma vmul_eq_vscale_back s w : roots s w -> forall y u lam,
  length y = length s -> length u = length s ->
  vmulR s y = vscaleR lam u -> y = vscaleR lam (backR s u).
Proof.
  induction 1 as [|si wi s w [Hw Hs] _ IH]; intros [|yi y] [|ui u] lam Hy Hu E; simpl in Hy, Hu; try discriminate.
  - reflexivity.
  - rewrite back_cons_nz by exact Hs.
    change (vmulR (si :: s) (yi :: y)) with (si * yi :: vmulR s y) in E.
    change (vscaleR lam (ui :: u)) with (lam * ui :: vscaleR lam u) in E.
    injection E as E1 E2.
    change (vscaleR lam (ui / si :: backR s u)) with (lam * (ui / si) :: vscaleR lam (backR s u)).
    f_equal; [|apply IH; auto; lia].
    apply Rmult_eq_reg_l with si; [|exact Hs]. rewrite E1. field. exact Hs.
Qed.

(* every pair satisfies the integral eigen-equation of the covariance surface under the
   quadrature:  sum_t C(s,t) w_t phi(t) = lambda phi(s) *)
Theorem cov_eigen_equation s w C u lam : roots s w ->
  length C = length s -> length u = length s ->
  mvR (sym_scale opsR s C) u = vscaleR lam u ->
  mvR C (vmulR w (backR s u)) = vscaleR lam (backR s u).
Proof.
  intros Hr HC Hu E. rewrite (vmul_w_back s w Hr u Hu).
  rewrite mv_sym_scale in E by exact HC.
  apply (vmul_eq_vscale_back s w Hr); auto.
  unfold mv. rewrite map_length. exact HC.
Qed.

(* ---------- Gram (inner-product) route ---------- *)
Lemma gram_bilinear m x X c e : Forall (fun r => length r = m) X ->
  dotR c (mvR (gram_specR x X) e) = innerR x (mtvR m X c) (mtvR m X e).
Proof.
  intros HX. unfold gram_spec, mv. rewrite map_map.
  assert (E : map (fun f => dotR (map (fun g => innerR x f g) X) e) X =
              map (fun f => innerR x (mtvR m X e) f) X).
  { apply map_ext_in. intros f Hf. rewrite Forall_forall in HX.
    rewrite (inner_mtv m) by (try apply Forall_forall; auto). apply inner_comm. }
  rewrite E, dot_comm.
  rewrite (inner_mtv m) by (auto; apply mtv_length; exact HX). apply inner_comm.
Qed.

Lemma inner_div_l r x f g : r <> 0 ->
  innerR x (map (fun a => odiv opsR a r) f) g = innerR x f g / r.
Proof.
  intros Hr.
  replace (map (fun a => odiv opsR a r) f) with (vscaleR (/ r) f).
  - rewrite inner_vscale_l. unfold Rdiv. lra.
  - unfold vscale. apply map_ext. intros a. cbn. rewrite Rdiv0_nz by exact Hr. unfold Rdiv. lra.
Qed.

(* eigenfunctions of the Gram route: <phi_j, phi_k> = l_k (v_j . v_k) / (r_j r_k):
   mutually orthogonal for orthogonal Gram eigenvectors, unit norm when r_k^2 = l_k *)
Theorem gram_route_inner m x X vj vk lk rj rk : Forall (fun r => length r = m) X ->
  rj <> 0 -> rk <> 0 ->
  mvR (gram_specR x X) vk = vscaleR lk vk ->
  innerR x (gram_phi opsR m X vj rj) (gram_phi opsR m X vk rk) = lk * dotR vj vk / (rj * rk).
Proof.
  intros HX Hj Hk E. unfold gram_phi.
  rewrite inner_div_l by exact Hj. rewrite inner_comm, inner_div_l by exact Hk. rewrite inner_comm.
  rewrite <- (gram_bilinear m x X vj vk HX), E, dot_vscale_r. field. split; assumption.
Qed.

Corollary gram_route_orthogonal m x X vj vk lk rj rk : Forall (fun r => length r = m) X ->
  rj <> 0 -> rk <> 0 -> mvR (gram_specR x X) vk = vscaleR lk vk -> dotR vj vk = 0 ->
  innerR x (gram_phi opsR m X vj rj) (gram_phi opsR m X vk rk) = 0.
Proof. intros. rewrite (gram_route_inner m x X vj vk lk) by assumption. rewrite H3. field. split; assumption. Qed.

Corollary gram_route_unit m x X v l r : Forall (fun r0 => length r0 = m) X ->
  r <> 0 -> r * r = l -> mvR (gram_specR x X) v = vscaleR l v -> dotR v v = 1 ->
  normsqR x (gram_phi opsR m X v r) = 1.
Proof.
  intros HX Hr El E Hv. unfold normsq. rewrite (gram_route_inner m x X v v l) by assumption.
  rewrite Hv, <- El. field. exact Hr.
Qed.

(* ---------- Mercer: with all components kept the Mercer sum reproduces the surface ---------- *)
Lemma mv_vadd A a b : length a = length b -> mvR A (vaddR a b) = vaddR (mvR A a) (mvR A b).
Proof.
  intros H. induction A as [|r A IH]; [reflexivity|].
  change (mvR (r :: A) (vaddR a b)) with (dotR r (vaddR a b) :: mvR A (vaddR a b)).
  rewrite IH, dot_vadd_r by exact H. reflexivity.
Qed.
Lemma mv_vscale A c a : mvR A (vscaleR c a) = vscaleR c (mvR A a).
Proof.
  induction A as [|r A IH]; [reflexivity|].
  change (mvR (r :: A) (vscaleR c a)) with (dotR r (vscaleR c a) :: mvR A (vscaleR c a)).
  rewrite IH, dot_vscale_r. reflexivity.
Qed.
Lemma mv_zeros A n : mvR A (zerosR n) = zerosR (length A).
Proof.
  induction A as [|r A IH]; [reflexivity|].
  change (mvR (r :: A) (zerosR n)) with (dotR r (zerosR n) :: mvR A (zerosR n)).
  rewrite IH, dot_comm, dot_zeros_l. reflexivity.
Qed.
Lemma mv_length A z : length (mvR A z) = length A.
Proof. unfold mv. apply map_length. Qed.

Lemma mv_mtv A n U : forall c, Forall (fun r => length r = n) U ->
  mvR A (mtvR n U c) = mtvR (length A) (map (mvR A) U) c.
Proof.
  induction U as [|u U IH]; intros [|a c] HU; unfold mtv; simpl; try apply mv_zeros.
  pose proof (Forall_inv HU) as Hu. pose proof (Forall_inv_tail HU) as HU'. cbv beta in Hu.
  fold (mtvR n U c). fold (mtvR (length A) (map (mvR A) U) c).
  rewrite mv_vadd by (rewrite vscale_length, mtv_length by exact HU'; exact Hu).
  rewrite mv_vscale, IH by exact HU'. reflexivity.
Qed.

Lemma vscale_vscale a b u : vscaleR a (vscaleR b u) = vscaleR (b * a) u.
Proof. unfold vscale. rewrite map_map. apply map_ext. intros v. cbn. lra. Qed.

Lemma mtv_scaled_rows n lams : forall U c,
  mtvR n (map2 vscaleR lams U) c = mtvR n U (vmulR lams c).
Proof.
  induction lams as [|l lams IH]; intros [|u U] [|a c]; try reflexivity.
  unfold mtv. simpl. fold (mtvR n (map2 vscaleR lams U) c). fold (mtvR n U (vmulR lams c)).
  rewrite IH, vscale_vscale. reflexivity.
Qed.

Lemma eigen_rows M lams U : Forall2 (fun l u => mvR M u = vscaleR l u) lams U ->
  map (mvR M) U = map2 vscaleR lams U.
Proof. induction 1 as [|l u lams U E _ IH]; [reflexivity|]. simpl. rewrite E, IH. reflexivity. Qed.

(* spectral form of M from a complete family of eigenvectors *)
Lemma spectral n M lams U z : length M = n -> Forall (fun r => length r = n) U ->
  Forall2 (fun l u => mvR M u = vscaleR l u) lams U ->
  mtvR n U (mvR U z) = z ->
  mvR M z = mercer_map opsR n lams U z.
Proof.
  intros HM HU HE Hc. rewrite <- Hc at 1.
  rewrite mv_mtv by exact HU. rewrite (eigen_rows M lams U HE), HM, mtv_scaled_rows. reflexivity.
Qed.

Lemma vmul_s_back s w : roots s w -> forall z, length z = length s -> vmulR s (backR s z) = z.
Proof.
  induction 1 as [|si wi s w [Hw Hs] _ IH]; intros [|zi z] Hz; simpl in Hz; try discriminate; [reflexivity|].
  rewrite back_cons_nz by exact Hs.
  change (vmulR (si :: s) (zi / si :: backR s z)) with (si * (zi / si) :: vmulR s (backR s z)).
  rewrite IH by lia. f_equal. field. exact Hs.
Qed.
Lemma back_vmul_s s w : roots s w -> forall q, length q = length s -> backR s (vmulR s q) = q.
Proof.
  induction 1 as [|si wi s w [Hw Hs] _ IH]; intros [|qi q] Hq; simpl in Hq; try discriminate; [reflexivity|].
  change (vmulR (si :: s) (qi :: q)) with (si * qi :: vmulR s q).
  rewrite back_cons_nz, IH by (auto; lia). f_equal. field. exact Hs.
Qed.

Lemma cov_from_scaled s w C z : roots s w -> length C = length s -> length z = length s ->
  mvR C z = backR s (mvR (sym_scale opsR s C) (backR s z)).
Proof.
  intros Hr HC Hz. rewrite mv_sym_scale by exact HC.
  rewrite (vmul_s_back s w Hr z Hz). symmetry. apply (back_vmul_s s w Hr).
  rewrite mv_length. exact HC.
Qed.

Lemma dot_back_shift s w : roots s w -> forall u z, length u = length s -> length z = length s ->
  dotR u (backR s z) = dotR (backR s u) z.
Proof.
  induction 1 as [|si wi s w [Hw Hs] _ IH]; intros [|ui u] [|zi z] Hu Hz; simpl in Hu, Hz; try discriminate; [reflexivity|].
  rewrite !back_cons_nz by exact Hs. rewrite !dot_cons, IH by lia. field. exact Hs.
Qed.

Lemma back_vadd s w : roots s w -> forall a b, length a = length s -> length b = length s ->
  backR s (vaddR a b) = vaddR (backR s a) (backR s b).
Proof.
  induction 1 as [|si wi s w [Hw Hs] _ IH]; intros [|ai a] [|bi b] Ha Hb; simpl in Ha, Hb; try discriminate; [reflexivity|].
  change (vaddR (ai :: a) (bi :: b)) with (ai + bi :: vaddR a b).
  rewrite !back_cons_nz by exact Hs.
  change (vaddR (ai / si :: backR s a) (bi / si :: backR s b)) with (ai / si + bi / si :: vaddR (backR s a) (backR s b)).
  rewrite IH by lia. f_equal. field. exact Hs.
Qed.
Lemma back_vscale s w : roots s w -> forall c a, length a = length s ->
  backR s (vscaleR c a) = vscaleR c (backR s a).
Proof.
  induction 1 as [|si wi s w [Hw Hs] _ IH]; intros c [|ai a] Ha; simpl in Ha; try discriminate; [reflexivity|].
  change (vscaleR c (ai :: a)) with (c * ai :: vscaleR c a).
  rewrite !back_cons_nz by exact Hs.
  change (vscaleR c (ai / si :: backR s a)) with (c * (ai / si) :: vscaleR c (backR s a)).
  rewrite IH by lia. f_equal. field. exact Hs.
Qed.
Lemma back_zeros s w : roots s w -> backR s (zerosR (length s)) = zerosR (length s).
Proof.
  induction 1 as [|si wi s w [Hw Hs] _ IH]; [reflexivity|].
  change (zerosR (length (si :: s))) with (0 :: zerosR (length s)).
  rewrite back_cons_nz, IH by exact Hs. f_equal. field. exact Hs.
Qed.

Lemma back_mtv s w U : roots s w -> forall c, Forall (fun r => length r = length s) U ->
  backR s (mtvR (length s) U c) = mtvR (length s) (map (backR s) U) c.
Proof.
  intros Hr. induction U as [|u U IH]; intros [|a c] HU; unfold mtv; simpl; try apply (back_zeros s w Hr).
  pose proof (Forall_inv HU) as Hu. pose proof (Forall_inv_tail HU) as HU'. cbv beta in Hu.
  fold (mtvR (length s) U c). fold (mtvR (length s) (map (backR s) U) c).
  rewrite (back_vadd s w Hr) by (rewrite ?vscale_length, ?mtv_length by exact HU'; auto).
  rewrite (back_vscale s w Hr) by exact Hu. rewrite IH by exact HU'. reflexivity.
Qed.

Lemma mv_back_rows s w U z : roots s w -> Forall (fun r => length r = length s) U -> length z = length s ->
  mvR U (backR s z) = mvR (map (backR s) U) z.
Proof.
  intros Hr HU Hz. unfold mv. rewrite map_map. apply map_ext_in. intros u Hu.
  rewrite Forall_forall in HU. apply (dot_back_shift s w Hr); auto.
Qed.

(* the covariance surface acts as the Mercer sum of the back-transformed eigenpairs *)
Theorem mercer_reconstructs s w C lams U z : roots s w ->
  length C = length s -> length z = length s ->
  Forall (fun r => length r = length s) U ->
  Forall2 (fun l u => mvR (sym_scale opsR s C) u = vscaleR l u) lams U ->
  (forall y, length y = length s -> mtvR (length s) U (mvR U y) = y) ->      (* completeness *)
  mvR C z = mercer_map opsR (length s) lams (map (backR s) U) z.
Proof.
  intros Hr HC Hz HU HE Hcomp.
  rewrite (cov_from_scaled s w C z Hr HC Hz).
  assert (Hbz : length (backR s z) = length s) by (rewrite back_length; lia).
  rewrite (spectral (length s) (sym_scale opsR s C) lams U (backR s z)); auto.
  - unfold mercer_map. rewrite (back_mtv s w U Hr) by exact HU.
    rewrite (mv_back_rows s w U z Hr HU Hz). reflexivity.
  - unfold sym_scale. rewrite map2_length. lia.
Qed.

(* the Mercer MATRIX the code builds acts as that map *)
Lemma mv_mscale_outer l phi z : mvR (mscale opsR l (outer opsR phi phi)) z = vscaleR (l * dotR phi z) phi.
Proof.
  unfold mscale, outer, mv, vscale. rewrite !map_map. apply map_ext. intros a.
  fold (vscaleR a phi). fold (vscaleR l (vscaleR a phi)). rewrite !dot_vscale_l. cbn. lra.
Qed.

Lemma mercer_rows m lams : forall phis, Forall (fun r => length r = m) phis ->
  length (mercer opsR m lams phis) = m /\ Forall (fun r => length r = m) (mercer opsR m lams phis).
Proof.
  induction lams as [|l lams IH]; intros [|phi phis] H; unfold mercer; simpl;
    try (split; [apply repeat_length|apply Forall_forall; intros r Hr; apply repeat_spec in Hr; subst; apply zeros_length]).
  pose proof (Forall_inv H) as Hp. pose proof (Forall_inv_tail H) as H'. cbv beta in Hp.
  fold (mercer opsR m lams phis). destruct (IH phis H') as [L F].
  unfold madd. split.
  - rewrite map2_length. unfold mscale, outer. rewrite !map_length. lia.
  - apply Forall_forall. intros r Hr.
    assert (G : forall A B, Forall (fun r => length r = m) A -> Forall (fun r => length r = m) B ->
                Forall (fun r => length r = m) (map2 vaddR A B)).
    { clear. induction A as [|a A IHA]; intros [|b B] HA HB; simpl; try constructor.
      - rewrite vadd_length. inversion HA; inversion HB; subst. lia.
      - apply IHA; [inversion HA|inversion HB]; assumption. }
    assert (HS : Forall (fun r => length r = m) (mscale opsR l (outer opsR phi phi))).
    { unfold mscale, outer. rewrite map_map. apply Forall_forall. intros r0 Hr0.
      apply in_map_iff in Hr0. destruct Hr0 as (a & <- & _). rewrite !vscale_length. exact Hp. }
    pose proof (G _ _ HS F) as GG. rewrite Forall_forall in GG. apply GG. exact Hr.
Qed.

Lemma mv_repeat_zeros j k z : mvR (repeat (zerosR j) k) z = zerosR k.
Proof.
  induction k as [|k IH]; [reflexivity|].
  change (mvR (repeat (zerosR j) (S k)) z) with (dotR (zerosR j) z :: mvR (repeat (zerosR j) k) z).
  rewrite IH, dot_zeros_l. reflexivity.
Qed.

Lemma Forall2_same_len m (A : list (list R)) : forall B : list (list R), length A = length B ->
  Forall (fun r => length r = m) A -> Forall (fun r => length r = m) B ->
  Forall2 (fun r s => length r = length s) A B.
Proof.
  induction A as [|a A IH]; intros [|b B] HL HA HB; simpl in HL; try discriminate; constructor.
  - pose proof (Forall_inv HA). pose proof (Forall_inv HB). cbv beta in *. congruence.
  - apply IH; [lia|exact (Forall_inv_tail HA)|exact (Forall_inv_tail HB)].
Qed.

Theorem mercer_matrix_is_map m lams : forall phis z, Forall (fun r => length r = m) phis ->
  length lams = length phis ->
  mvR (mercer opsR m lams phis) z = mercer_map opsR m lams phis z.
Proof.
  induction lams as [|l lams IH]; intros [|phi phis] z H HL; simpl in HL; try discriminate.
  - unfold mercer, mercer_map, mtv. simpl. apply mv_repeat_zeros.
  - pose proof (Forall_inv H) as Hp. pose proof (Forall_inv_tail H) as H'. cbv beta in Hp.
    unfold mercer. simpl. fold (mercer opsR m lams phis).
    destruct (mercer_rows m lams phis H') as [L F].
    assert (HS : Forall (fun r => length r = m) (mscale opsR l (outer opsR phi phi))).
    { unfold mscale, outer. rewrite map_map. apply Forall_forall. intros r0 Hr0.
      apply in_map_iff in Hr0. destruct Hr0 as (a & <- & _). rewrite !vscale_length. exact Hp. }
    assert (LS : length (mscale opsR l (outer opsR phi phi)) = m)
      by (unfold mscale, outer; rewrite !map_length; exact Hp).
    rewrite mv_madd by (try apply (Forall2_same_len m); auto; lia).
    rewrite mv_mscale_outer, IH by (auto; lia).
    unfold mercer_map, mtv. simpl. reflexivity.
Qed.
