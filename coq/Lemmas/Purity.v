(* Lemmas/Purity.v — proofs about Model/Purity.v (plain stdlib, no axioms). *)
From Coq Require Import List Arith Bool Lia.
From FDAV Require Import Model.Heap Model.Purity Lemmas.Heap.
Import ListNotations.

(* ================================================================== *)
(* results are functions of what is read                               *)
(* ================================================================== *)
Theorem refit_deterministic : forall f s s' rng,
  (forall l, In l (f_reads f) -> s l = s' l) -> result f s rng = result f s' rng.
Proof.
  intros f s s' rng H. unfold result. f_equal. apply map_ext_in. exact H.
Qed.

(* after ANY admissible history (in which the user does not overwrite the data or the
   configuration in place — they could not: those are not results) a refit on the same data,
   configuration and RNG stream returns the same result *)
Theorem refit_after_history : forall frozen g es h f rng,
  history_ok frozen g h [] es = true ->
  (forall l, In l (f_reads f) -> l < h_next h) ->
  result f (h_store (run g h es)) rng = result f (h_store h) rng.
Proof.
  intros frozen g es h f rng H Hr. apply refit_deterministic. intros l Hl.
  apply (history_frame frozen g es h [] l H (Hr l Hl)). reflexivity.
Qed.

(* ================================================================== *)
(* uninitialised memory                                                *)
(* ================================================================== *)
Lemma trace_ext p : forall b b', (forall i, b i = b' i) -> trace b p = trace b' p.
Proof.
  induction p as [|[i v|i] p IH]; intros b b' H; simpl; [reflexivity| |].
  - apply IH. intros j. unfold upd. destruct (Nat.eqb j i); [reflexivity|apply H].
  - rewrite (H i). f_equal. apply IH. exact H.
Qed.

Lemma wbr_sound p : forall written b b',
  wbr written p = true -> (forall i, mem i written = true -> b i = b' i) -> trace b p = trace b' p.
Proof.
  induction p as [|[i v|i] p IH]; intros written b b' Hw H; simpl in *; [reflexivity| |].
  - apply (IH (i :: written)); [exact Hw|]. intros j Hj. unfold upd.
    destruct (Nat.eqb j i) eqn:E; [reflexivity|]. apply H.
    unfold mem in *. simpl in Hj. rewrite E in Hj. exact Hj.
  - apply andb_true_iff in Hw. destruct Hw as [Hi Hw]. rewrite (H i Hi). f_equal.
    apply (IH written); assumption.
Qed.

Lemma wbr_complete p : forall written, wbr written p = false ->
  forall b, exists b', (forall i, mem i written = true -> b' i = b i) /\ trace b p <> trace b' p.
Proof.
  induction p as [|[i v|i] p IH]; intros written Hw b; simpl in *; [discriminate| |].
  - destruct (IH (i :: written) Hw (upd b i v)) as (b2 & Hag & Hne).
    exists (fun j => if mem j written then b j else b2 j). split.
    + intros j Hj. rewrite Hj. reflexivity.
    + intros E. apply Hne. rewrite E. apply trace_ext. intros j. unfold upd at 1.
      destruct (Nat.eqb j i) eqn:Eji.
      * apply Nat.eqb_eq in Eji. subst j. rewrite Hag; [symmetry; apply upd_same|].
        unfold mem. simpl. rewrite Nat.eqb_refl. reflexivity.
      * destruct (mem j written) eqn:Ej; [|reflexivity].
        rewrite Hag; [symmetry; apply upd_other; apply Nat.eqb_neq; exact Eji|].
        unfold mem in *. simpl. rewrite Eji. exact Ej.
  - destruct (mem i written) eqn:Ei; simpl in Hw.
    + destruct (IH written Hw b) as (b2 & Hag & Hne). exists b2. split; [exact Hag|].
      intros E. apply Hne. inversion E. reflexivity.
    + exists (upd b i (S (b i))). split.
      * intros j Hj. apply upd_other. intros ->. congruence.
      * intros E. inversion E as [[E1 E2]]. rewrite upd_same in E1. lia.
Qed.

(* a result is independent of the garbage in the freshly allocated buffer IFF every cell is
   written before it is read *)
Theorem no_garbage_dependence : forall p,
  (forall g g', trace g p = trace g' p) <-> wbr [] p = true.
Proof.
  intros p. split.
  - intros H. destruct (wbr [] p) eqn:E; [reflexivity|]. exfalso.
    destruct (wbr_complete p [] E (fun _ => 0)) as (b' & _ & Hne). apply Hne. apply H.
  - intros H g g'. apply (wbr_sound p [] g g' H). intros i Hi. discriminate.
Qed.

(* ---- the guarded division ---- *)
Lemma wbr_mono p : forall w1 w2, (forall i, mem i w1 = true -> mem i w2 = true) ->
  wbr w1 p = true -> wbr w2 p = true.
Proof.
  induction p as [|[i v|i] p IH]; intros w1 w2 H Hw; simpl in *; [reflexivity| |].
  - apply (IH (i :: w1)); [|exact Hw]. intros j Hj. unfold mem in *. simpl in *.
    destruct (Nat.eqb j i); [reflexivity|]. apply H. exact Hj.
  - apply andb_true_iff in Hw. destruct Hw as [Hi Hw]. rewrite (H i Hi). simpl. apply (IH w1); assumption.
Qed.

Lemma wbr_read_all n : forall written, (forall i, i < n -> mem i written = true) ->
  wbr written (read_all n) = true.
Proof.
  intros written H. unfold read_all.
  assert (G : forall l, (forall i, In i l -> mem i written = true) -> wbr written (map R l) = true).
  { induction l as [|a l IH]; intros Hl; simpl; [reflexivity|].
    rewrite (Hl a) by (left; reflexivity). simpl. apply IH. intros i Hi. apply Hl. right. exact Hi. }
  apply G. intros i Hi. apply in_seq in Hi. apply H. lia.
Qed.

Lemma wbr_masked_then x : forall std i written q,
  (forall w2, (forall j, mem j written = true -> mem j w2 = true) -> wbr w2 q = true) ->
  wbr written (masked_writes i x std ++ q) = true.
Proof.
  induction x as [|a x IH]; intros [|s std] i written q Hq; simpl;
    try (apply Hq; intros j Hj; exact Hj).
  destruct (Nat.eqb s 0); simpl.
  - apply IH. exact Hq.
  - apply IH. intros w2 Hw2. apply Hq. intros j Hj. apply Hw2.
    unfold mem in *. simpl. rewrite Hj. apply orb_true_r.
Qed.

Lemma wbr_zero_fill_then n q : forall written,
  (forall w2, (forall j, j < n -> mem j w2 = true) -> wbr w2 q = true) ->
  wbr written (zero_fill n ++ q) = true.
Proof.
  unfold zero_fill. intros written Hq.
  assert (G : forall l w, wbr w (map (fun i => W i 0) l ++ q) = wbr (rev l ++ w) q).
  { induction l as [|a l IH]; intros w; simpl; [reflexivity|]. rewrite IH, <- app_assoc. reflexivity. }
  rewrite G. apply Hq. intros j Hj. apply mem_In. apply in_or_app. left.
  apply -> in_rev. apply in_seq. lia.
Qed.

Theorem divide_where_with_out_clean : forall x std,
  wbr [] (divide_where_with_out x std) = true /\
  (forall g g', trace g (divide_where_with_out x std) = trace g' (divide_where_with_out x std)).
Proof.
  intros x std.
  assert (H : wbr [] (divide_where_with_out x std) = true).
  { unfold divide_where_with_out. apply wbr_zero_fill_then. intros w2 Hw2.
    apply wbr_masked_then. intros w3 Hw3. apply wbr_read_all. intros i Hi. apply Hw3, Hw2, Hi. }
  split; [exact H|]. apply no_garbage_dependence. exact H.
Qed.

Theorem divide_where_no_out_refuted :
  exists x std g g',
    trace g (divide_where_no_out x std) <> trace g' (divide_where_no_out x std) /\
    wbr [] (divide_where_no_out x std) = false.
Proof.
  exists [6; 4], [2; 0], (fun _ => 0), (fun _ => 1). split; [|reflexivity].
  vm_compute. discriminate.
Qed.

(* where the standard deviation vanishes nowhere the unrepaired code is fine as well:
   the defect needs a zero-variance point *)
Theorem divide_where_no_out_needs_zero : forall x std, length x = length std ->
  Forall (fun s => s <> 0) std -> wbr [] (divide_where_no_out x std) = true.
Proof.
  intros x std Hl Hnz. unfold divide_where_no_out.
  assert (G : forall x std i written q, length x = length std -> Forall (fun s => s <> 0) std ->
            (forall w2, (forall j, mem j written = true -> mem j w2 = true) ->
                        (forall j, i <= j < i + length x -> mem j w2 = true) -> wbr w2 q = true) ->
            wbr written (masked_writes i x std ++ q) = true).
  { clear. induction x as [|a x IH]; intros [|s std] i written q Hl Hnz Hq; simpl in *; try discriminate.
    - apply Hq; [intros j Hj; exact Hj|intros j Hj; lia].
    - inversion Hnz as [|? ? Hs Hnz']; subst. apply Nat.eqb_neq in Hs. rewrite Hs. simpl.
      apply IH; [lia|exact Hnz'|]. intros w2 Hw2 Hr. apply Hq.
      + intros j Hj. apply Hw2. unfold mem in *. simpl. rewrite Hj. apply orb_true_r.
      + intros j Hj. destruct (Nat.eq_dec j i) as [->|Hne].
        * apply Hw2. unfold mem. simpl. rewrite Nat.eqb_refl. reflexivity.
        * apply Hr. lia. }
  apply G; [exact Hl|exact Hnz|]. intros w2 _ Hr. apply wbr_read_all. intros i Hi. apply Hr. lia.
Qed.

(* ================================================================== *)
(* F11(b): popping the user's configuration                            *)
(* ================================================================== *)
Theorem pop_config_refuted :
  exists (h : heap) (g : loc -> val),
    let e1 := Pure (fit_call_pop 0 1 (h_store h)) in
    let h1 := exec g h e1 in
    let e2 := Pure (fit_call_pop 0 2 (h_store h1)) in
    let h2 := exec g h1 e2 in
    h_store h1 0 <> h_store h 0 /\                    (* the configuration was modified   *)
    h_store h2 2 <> h_store h1 1 /\                   (* the refit gives another result    *)
    history_ok (fun _ => false) g h [] [e1] = false.  (* and the frame condition rejects it *)
Proof.
  exists (mkH (fun _ => 3) 1), (fun _ => 0). vm_compute. repeat split; discriminate.
Qed.

(* the correct fit: configuration untouched, refit identical, frame condition accepted *)
Theorem fit_config_kept : forall (s : store) (g : loc -> val) n, 1 <= n ->
  let h := mkH s n in
  let e1 := Pure (fit_call 0 n s) in
  let h1 := exec g h e1 in
  let e2 := Pure (fit_call 0 (S n) (h_store h1)) in
  let h2 := exec g h1 e2 in
  history_ok (fun _ => false) g h [] [e1; e2] = true /\
  h_store h2 0 = s 0 /\ h_store h2 (S n) = h_store h1 n.
Proof.
  intros s g n Hn h e1 h1 e2 h2.
  assert (Hok : history_ok (fun _ => false) g h [] [e1; e2] = true).
  { subst h e1 h1 e2. simpl. unfold call_ok, mem. simpl.
    rewrite !Nat.eqb_refl. simpl.
    replace (n <=? n) with true by (symmetry; apply Nat.leb_le; lia).
    replace (Nat.max n (S (Nat.max n 0)) <=? S n) with true by (symmetry; apply Nat.leb_le; lia).
    reflexivity. }
  split; [exact Hok|].
  pose proof (history_frame (fun _ => false) g [e1; e2] h [] 0 Hok) as H0.
  split.
  - apply H0; [simpl; lia|reflexivity].
  - subst h2 e2 h1 e1 h. simpl. unfold write_all, alloc. simpl. rewrite !upd_same.
    rewrite upd_other by lia. rewrite upd_other by lia. reflexivity.
Qed.

(* ================================================================== *)
(* F11(c): the shared basis                                            *)
(* ================================================================== *)
(* every call writes only what it allocated, the in-place operation touches only the object it
   was handed (the centred copy) — and the INPUT's basis changes: the alias condition is what
   a review of write sets alone misses *)
Theorem shared_basis_refuted :
  exists (h : heap) (g : loc -> val) (es : list event) (l : loc),
    es = [center_shared 0 1 2 (h_store h); rescale_basis_inplace 1 9] /\
    history_ok_noalias g h [] es = true /\
    l < h_next h /\ h_store (run g h es) l <> h_store h l /\
    history_ok (fun _ => false) g h [] es = false.
Proof.
  exists (mkH (fun _ => 7) 2), (fun _ => 0), [center_shared 0 1 2 (fun _ => 7); rescale_basis_inplace 1 9], 1.
  vm_compute. repeat split; try discriminate. lia.
Qed.

(* with the basis copied the same two steps are admissible and leave the input alone *)
Theorem copied_basis_ok : forall (s : store) (g : loc -> val) v,
  let h := mkH s 2 in
  let es := [center_copy 0 1 2 3 s; rescale_basis_inplace 3 v] in
  history_ok (fun _ => false) g h [] es = true /\
  h_store (run g h es) 0 = s 0 /\ h_store (run g h es) 1 = s 1.
Proof.
  intros s g v h es.
  assert (Hok : history_ok (fun _ => false) g h [] es = true) by (vm_compute; reflexivity).
  split; [exact Hok|].
  split; apply (history_frame (fun _ => false) g es h [] _ Hok); simpl; try lia; reflexivity.
Qed.
