(* Lemmas/PsplineLinear.v — P-splines with a difference penalty of order >= 2 reproduce every AFFINE function
   (C05: the degree-1 case of "polynomials of degree below the penalty order are reproduced"), proved end to end
   on the executed model: Greville coefficients are affine in the index (equally spaced knots), differences of
   order >= 2 annihilate affine sequences, the design maps them to the affine function on the closed domain. *)
From Coq Require Import List Bool Reals Lra Lia Arith.
From FDAV Require Import Base.Num Base.Vec Model.Basis Model.Pspline
  Lemmas.Vec Lemmas.Gram Lemmas.Stats Lemmas.Basis Lemmas.Pspline Lemmas.CovPerm Lemmas.PsplineConst Lemmas.Greville.
Import ListNotations.
Local Open Scope R_scope.

(* ---------- dot products with padded / truncated rows ---------- *)
Lemma dot_firstn_l : forall (v L : list R), dotR (firstn (length v) L) v = dotR L v.
Proof.
  induction v as [|b v IH]; intros L; [rewrite !dot_nil_r; reflexivity|].
  destruct L as [|a L]; [reflexivity|]. cbn [length firstn]. rewrite !dot_cons, IH. reflexivity.
Qed.
Lemma dot_zeros_app : forall i (r v : list R), dotR (zerosR i ++ r) v = dotR r (skipn i v).
Proof.
  unfold zeros. induction i as [|i IH]; intros r v; [reflexivity|].
  destruct v as [|b v]; [cbn [skipn]; rewrite !dot_nil_r; reflexivity|].
  cbn [repeat app skipn]. rewrite dot_cons, IH. cbn [o0 opsR]. lra.
Qed.
Lemma dot_app_zeros : forall (r : list R) n (v : list R), dotR (r ++ zerosR n) v = dotR r v.
Proof.
  induction r as [|a r IH]; intros n v.
  - cbn [app]. rewrite dot_zeros_l, dot_nil_l. reflexivity.
  - destruct v as [|b v]; [rewrite !dot_nil_r; reflexivity|]. cbn [app]. rewrite !dot_cons, IH. reflexivity.
Qed.
Lemma skipn_map_seq (f : nat -> R) : forall i lo n, skipn i (map f (seq lo n)) = map f (seq (lo + i) (n - i)).
Proof.
  induction i as [|i IH]; intros lo n; [replace (lo + 0)%nat with lo by lia; replace (n - 0)%nat with n by lia; reflexivity|].
  destruct n as [|n]; [reflexivity|]. cbn [seq map skipn]. rewrite IH. replace (S lo + i)%nat with (lo + S i)%nat by lia. reflexivity.
Qed.

(* sum and first moment of a coefficient list against an affine sequence *)
Definition mom1 (l : list R) : R := dotR l (map INR (seq 0 (length l))).
Lemma dot_affine_seq A0 B0 : forall (l : list R) lo n, (length l <= n)%nat ->
  dotR l (map (fun j => A0 + B0 * INR j) (seq lo n)) = (A0 + B0 * INR lo) * vsumR l + B0 * dotR l (map INR (seq 0 (length l))).
Proof.
  induction l as [|a l IH]; intros lo n H; [rewrite !dot_nil_l; change (vsumR []) with 0; lra|].
  destruct n as [|n]; [simpl in H; lia|]. cbn [seq map length]. rewrite !dot_cons, vsum_cons.
  rewrite IH by (simpl in H; lia). rewrite S_INR.
  rewrite <- seq_shift, map_map.
  assert (E : dotR l (map (fun x => INR (S x)) (seq 0 (length l))) = dotR l (map INR (seq 0 (length l))) + vsumR l).
  { rewrite (map_ext _ (fun x => INR x + 1)) by (intros; apply S_INR).
    clear. generalize 0%nat. induction l as [|a l IHl]; intros s; [rewrite !dot_nil_l; change (vsumR []) with 0; lra|].
    cbn [length seq map]. rewrite !dot_cons, vsum_cons, IHl. lra. }
  rewrite E. cbn [INR]. lra.
Qed.

(* first moment of the difference coefficients: mom1 (dcoef (S d)) = - vsum (dcoef d)... we only need order >= 2 *)
Lemma mom1_cons0 (c : list R) : dotR (0 :: c) (map INR (seq 0 (S (length c)))) = dotR c (map INR (seq 0 (length c))) + vsumR c.
Proof.
  cbn [seq map]. rewrite dot_cons. rewrite <- seq_shift, map_map.
  rewrite (map_ext _ (fun x => INR x + 1)) by (intros; apply S_INR).
  generalize 0%nat. induction c as [|a c IH]; intros s; [rewrite !dot_nil_l; change (vsumR []) with 0; cbn; lra|].
  cbn [length seq map]. rewrite !dot_cons, vsum_cons. specialize (IH (S s)). cbn [INR] in *. lra.
Qed.

Lemma dot_trunc_r : forall (c v e : list R), (length c <= length v)%nat -> dotR c (v ++ e) = dotR c v.
Proof.
  induction c as [|a c IH]; intros v e H; [rewrite !dot_nil_l; reflexivity|].
  destruct v as [|b v]; [simpl in H; lia|]. cbn [app]. rewrite !dot_cons, IH by (simpl in H; lia). reflexivity.
Qed.

Lemma mom1_dcoef_S d : mom1 (dcoef opsR (S d)) = vsumR (dcoef opsR d).
Proof.
  unfold mom1. rewrite dcoef_length. cbn [dcoef].
  rewrite dot_vsub_l by (cbn [length]; rewrite app_length; cbn [length]; lia).
  cbn [o0 opsR].
  pose proof (mom1_cons0 (dcoef opsR d)) as M. rewrite dcoef_length in M. rewrite M.
  change [0] with (zerosR 1). rewrite dot_app_zeros.
  rewrite (seq_S (S d) 0), map_app, dot_trunc_r by (rewrite dcoef_length, map_length, seq_length; lia).
  lra.
Qed.
Lemma mom1_dcoef_SS d : mom1 (dcoef opsR (S (S d))) = 0.
Proof. rewrite mom1_dcoef_S. apply vsum_dcoef_S. Qed.

(* the difference penalty of any order >= 2 vanishes on coefficient vectors that are affine in the index *)
Theorem diffmat_affine A0 B0 nb d :
  mvR (diffmat opsR nb (S (S d))) (map (fun j => A0 + B0 * INR j) (seq 0 nb)) = zerosR (length (diffmat opsR nb (S (S d)))).
Proof.
  unfold diffmat, mv. rewrite !map_map, map_length.
  set (l := filter (fun i => Nat.leb (i + S (S d) + 1) nb) (seq 0 nb)).
  assert (Hl : forall i, In i l -> (i + S (S d) + 1 <= nb)%nat).
  { intros i Hi. apply filter_In in Hi. destruct Hi as [_ Hi]. apply Nat.leb_le in Hi. exact Hi. }
  clearbody l. induction l as [|i l IH]; [reflexivity|].
  cbn [map length]. change (zerosR (S (length l))) with (0 :: zerosR (length l)).
  f_equal; [|apply IH; intros j Hj; apply Hl; right; exact Hj].
  specialize (Hl i (or_introl eq_refl)).
  set (v := map (fun j => A0 + B0 * INR j) (seq 0 nb)).
  assert (Lv : length v = nb) by (unfold v; rewrite map_length, seq_length; reflexivity).
  rewrite <- Lv at 1. rewrite dot_firstn_l, dot_zeros_app, dot_app_zeros. unfold v.
  rewrite skipn_map_seq. cbn [Nat.add].
  rewrite dot_affine_seq by (rewrite dcoef_length; lia).
  rewrite vsum_dcoef_S. fold (mom1 (dcoef opsR (S (S d)))). rewrite mom1_dcoef_SS. lra.
Qed.

(* ---------- Greville coefficients on equally spaced knots are affine in the index ---------- *)
Lemma knot_val a dx p j : knot opsR a dx p j = a + INR j * dx - INR p * dx.
Proof. unfold knot, osub. cbn [oadd omul oopp opsR]. rewrite !oofnatR'. lra. Qed.

Lemma tsum_knot a dx p' : forall p j,
  tsum (knot opsR a dx p') j p = INR p * (a + INR j * dx - INR p' * dx) + dx * (INR p * (INR p + 1) / 2).
Proof.
  induction p as [|p IH]; intros j; [cbn [tsum INR]; lra|].
  change (tsum (knot opsR a dx p') j (S p)) with (tsum (knot opsR a dx p') j p + knot opsR a dx p' (j + S p)).
  rewrite IH, knot_val, plus_INR, !S_INR. lra.
Qed.

Section DesignAffine.
  Variables (a b : R) (nseg p : nat).
  Hypothesis Hab : a < b.
  Hypothesis Hseg : (0 < nseg)%nat.
  Hypothesis Hp : (1 <= p)%nat.
  Let dx := (b - a) / INR nseg.

  (* coefficients of the affine function al + be x in the B-spline basis: al + be * (Greville abscissa j) *)
  Definition affine_coef (al be : R) : list R :=
    map (fun j => (al + be * (a - INR p * dx + dx * (INR p + 1) / 2)) + (be * dx) * INR j) (seq 0 (nseg + p)).

  Lemma affine_coef_greville al be j :
    (al + be * (a - INR p * dx + dx * (INR p + 1) / 2)) + (be * dx) * INR j
    = al + be * (tsum (knot opsR a dx p) j p / INR p).
  Proof.
    rewrite tsum_knot. assert (INR p <> 0) by (apply not_0_INR; lia). field. assumption.
  Qed.

  Lemma vsum_map_lin {A} (f g : A -> R) u v (l : list A) :
    vsumR (map (fun e => u * f e + v * g e) l) = u * vsumR (map f l) + v * vsumR (map g l).
  Proof.
    induction l as [|e l IH]; [change (vsumR (map _ [])) with 0; cbn [map]; change (vsumR []) with 0; lra|].
    cbn [map]. rewrite !vsum_cons, IH. lra.
  Qed.

  Theorem design_affine al be xs : Forall (fun x => a <= x <= b) xs ->
    mvR (design a b nseg p xs) (affine_coef al be) = map (fun x => al + be * x) xs.
  Proof.
    intros Hx. rewrite (design_rows a b nseg p Hseg). unfold mv. rewrite map_map.
    apply map_ext_in. intros x Hin. rewrite Forall_forall in Hx. specialize (Hx x Hin).
    unfold affine_coef. rewrite dot_map_map.
    fold dx.
    rewrite (map_ext _ (fun j => al * bspl opsR p (knot opsR a dx p) j x
                                + (be / INR p) * (tsum (knot opsR a dx p) j p * bspl opsR p (knot opsR a dx p) j x))).
    2:{ intros j. rewrite affine_coef_greville. assert (INR p <> 0) by (apply not_0_INR; lia). field. assumption. }
    rewrite vsum_map_lin.
    pose proof (code_bs_partition_of_unity a b nseg p Hab Hseg x Hp Hx) as P. unfold bsum in P. fold dx in P. rewrite P.
    pose proof (code_bs_greville a b nseg p Hab Hseg x Hp Hx) as G. fold dx in G. rewrite G.
    assert (INR p <> 0) by (apply not_0_INR; lia). field. assumption.
    exact Hp.
  Qed.

  (* the affine coefficient vector solves the normal equations of affine responses for every penalty of order >= 2 ... *)
  Theorem affine_solves_normal_equations al be lam d w xs : Forall (fun x => a <= x <= b) xs ->
    AopR (nseg + p) (design a b nseg p xs) w (pens1 opsR (nseg + p) (S (S d)) lam) (affine_coef al be)
    = rhsR (nseg + p) (design a b nseg p xs) w (map (fun x => al + be * x) xs).
  Proof.
    intros Hx. rewrite (reproduces_null_space' (nseg + p) (design a b nseg p xs) w).
    - unfold fitted. rewrite design_affine by exact Hx. reflexivity.
    - apply design_wf; assumption.
    - unfold pens1, wfP. constructor; [|constructor]. cbn [snd]. apply diffmat_wf.
    - unfold pens1. constructor; [|constructor]. cbn [snd]. unfold affine_coef. apply diffmat_affine.
  Qed.

  (* ... hence every solution of those normal equations has the affine function as fitted value wherever the weight is positive *)
  Theorem affine_reproduced al be lam d w xs beta k : Forall (fun x => a <= x <= b) xs ->
    length beta = (nseg + p)%nat -> Forall (fun v => 0 <= v) w -> 0 <= lam ->
    AopR (nseg + p) (design a b nseg p xs) w (pens1 opsR (nseg + p) (S (S d)) lam) beta
      = rhsR (nseg + p) (design a b nseg p xs) w (map (fun x => al + be * x) xs) ->
    (k < length xs)%nat -> (k < length w)%nat -> 0 < nth k w 0 ->
    nth k (fitted opsR (design a b nseg p xs) beta) 0 = al + be * nth k xs 0.
  Proof.
    intros Hx Hb Hw Hl E Hk Hkw Hpos.
    rewrite (fitted_unique (nseg + p) (design a b nseg p xs) w (pens1 opsR (nseg + p) (S (S d)) lam) beta (affine_coef al be) k).
    - unfold fitted. rewrite design_affine by exact Hx.
      rewrite (nth_map_in (fun x => al + be * x) xs k 0 0) by exact Hk. reflexivity.
    - apply design_wf; assumption.
    - unfold pens1, wfP. constructor; [|constructor]. cbn [snd]. apply diffmat_wf.
    - exact Hb.
    - unfold affine_coef. rewrite map_length, seq_length. reflexivity.
    - exact Hw.
    - unfold pens1. constructor; [|constructor]. cbn [fst]. exact Hl.
    - rewrite E. symmetry. apply affine_solves_normal_equations. exact Hx.
    - rewrite (design_rows a b nseg p Hseg), map_length; [exact Hk|exact Hp].
    - exact Hkw.
    - exact Hpos.
  Qed.
End DesignAffine.
