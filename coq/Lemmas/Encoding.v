(* Lemmas/Encoding.v — proofs about Model/Encoding.v (discrete; stdlib only).
   These theorems are THIN BY CONSTRUCTION: both decoders land in the same
   abstract content, so anything computed from the content cannot depend on the
   encoding.  What they do pin down is WHEN the NaN encoding is faithful (a
   duplicate-free common grid, every curve sampled on an ordered part of it) —
   the assurance that the implementation behaves like a function of the
   content is the correspondence run. *)
From Coq Require Import List Bool Lia QArith.
Local Close Scope Q_scope.
From FDAV Require Import Model.Encoding.
Import ListNotations.

Section Proofs.
  Context {A V : Type} (eqb : A -> A -> bool).
  Hypothesis eqb_spec : forall x y, eqb x y = true <-> x = y.

  Lemma eqb_refl : forall x, eqb x x = true.
  Proof. intro x. now apply eqb_spec. Qed.
  Lemma eqb_neq : forall x y, x <> y -> eqb x y = false.
  Proof.
    intros x y H. destruct (eqb x y) eqn:E; [|reflexivity]. apply eqb_spec in E. contradiction.
  Qed.

  (* ---- ragged round trip ---- *)
  Lemma combine_fst_snd : forall (c : @curve A V), combine (map fst c) (map snd c) = c.
  Proof. induction c as [|[t v] c IH]; simpl; [reflexivity | now rewrite IH]. Qed.

  Theorem dec_enc_ragged : forall ct : @content A V, dec_ragged (enc_ragged ct) = ct.
  Proof.
    intro ct. unfold dec_ragged, enc_ragged. rewrite map_map. simpl.
    rewrite <- (map_id ct) at 2. apply map_ext. intro c. apply combine_fst_snd.
  Qed.

  (* ---- NaN round trip ---- *)
  Lemma subseq_in : forall (l1 l2 : list A) x, subseq l1 l2 -> In x l1 -> In x l2.
  Proof.
    intros l1 l2 x H. induction H; intro I; simpl in *; [contradiction | | ].
    - destruct I as [->|I]; [now left | right; auto].
    - right; auto.
  Qed.

  (* a cell of the common-grid encoding is missing iff the curve has no sample there *)
  Theorem lookup_none_iff : forall (c : @curve A V) t, lookup eqb t c = None <-> ~ In t (map fst c).
  Proof.
    induction c as [|[t' v] c IH]; intro t; simpl.
    - tauto.
    - destruct (eqb t' t) eqn:E.
      + apply eqb_spec in E. subst. split; [discriminate | intro H; exfalso; apply H; now left].
      + rewrite IH. split.
        * intros H [->|I]; [rewrite eqb_refl in E; discriminate | contradiction].
        * intros H I. apply H. now right.
  Qed.

  Lemma lookup_head : forall (c : @curve A V) t v, lookup eqb t ((t, v) :: c) = Some v.
  Proof. intros. simpl. now rewrite eqb_refl. Qed.

  Lemma lookup_tail : forall (c : @curve A V) t t' v, t' <> t -> lookup eqb t ((t', v) :: c) = lookup eqb t c.
  Proof. intros. simpl. now rewrite eqb_neq. Qed.

  Lemma dec_enc_row : forall grid (c : @curve A V),
    NoDup grid -> subseq (map fst c) grid -> dec_row grid (enc_row eqb grid c) = c.
  Proof.
    induction grid as [|g gs IH]; intros c ND S.
    - inversion S as [E| |]. destruct c; [reflexivity | discriminate].
    - inversion ND as [|? ? Hg NDs]; subst.
      inversion S as [|x l1 l2 S' E1 E2|x l1 l2 S' E1 E2]; subst.
      + (* the curve is observed at g *)
        destruct c as [|[t v] c]; [discriminate|]. simpl in E1. injection E1 as -> ->.
        unfold enc_row, dec_row. simpl map. rewrite eqb_refl. simpl. f_equal.
        transitivity (dec_row gs (enc_row eqb gs c)); [|apply IH; assumption].
        unfold dec_row, enc_row. f_equal. f_equal.
        apply map_ext_in. intros t' I. rewrite eqb_neq; [reflexivity|].
        intro; subst. contradiction.
      + (* the curve is not observed at g *)
        assert (N : lookup eqb g c = None).
        { apply lookup_none_iff. intro I. apply Hg. eapply subseq_in; eassumption. }
        unfold enc_row, dec_row. simpl map. rewrite N. simpl.
        apply (IH c NDs S').
  Qed.

  Theorem dec_enc_nan : forall grid (ct : @content A V),
    NoDup grid -> Forall (fun c => subseq (map fst c) grid) ct ->
    dec_nan grid (enc_nan eqb grid ct) = ct.
  Proof.
    intros grid ct ND F. unfold dec_nan, enc_nan. rewrite map_map.
    rewrite <- (map_id ct) at 2. apply map_ext_in. intros c I.
    apply dec_enc_row; [assumption|]. rewrite Forall_forall in F. now apply F.
  Qed.

  (* every row of the NaN encoding lives on the whole common grid *)
  Theorem enc_nan_shape : forall grid (ct : @content A V),
    length (enc_nan eqb grid ct) = length ct /\
    Forall (fun row => length row = length grid) (enc_nan eqb grid ct).
  Proof.
    intros. unfold enc_nan. split; [apply map_length|].
    apply Forall_forall. intros row I. apply in_map_iff in I. destruct I as [c [<- _]].
    unfold enc_row. apply map_length.
  Qed.

  (* hence: any operation defined on the decoded content gives equal results for the two encodings *)
  Theorem encoding_independent : forall grid (ct : @content A V),
    NoDup grid -> Forall (fun c => subseq (map fst c) grid) ct ->
    forall (R : Type) (op : @content A V -> R),
      op (dec_nan grid (enc_nan eqb grid ct)) = op (dec_ragged (enc_ragged ct)).
  Proof. intros grid ct ND F R op. now rewrite dec_enc_nan, dec_enc_ragged. Qed.

  (* decoding never invents a sample: each decoded pair sits at a grid cell holding that value *)
  Theorem dec_row_only_observed : forall (grid : list A) (row : list (option V)) (t : A) (v : V),
    In (t, v) (dec_row grid row) -> In (t, Some v) (combine grid row).
  Proof.
    intros grid row t v I. unfold dec_row in I. apply in_flat_map in I.
    destruct I as [[t' o] [I J]]. simpl in J. destruct o as [w|]; [|contradiction].
    destruct J as [J|[]]. injection J as -> ->. exact I.
  Qed.

  (* ---- complete data are dense data ---- *)
  Lemma enc_row_complete : forall (c : @curve A V),
    NoDup (map fst c) -> enc_row eqb (map fst c) c = map Some (map snd c).
  Proof.
    induction c as [|[t v] c IH]; intro ND; [reflexivity|].
    simpl in ND. inversion ND as [|? ? Ht NDc]; subst.
    unfold enc_row. simpl map. rewrite eqb_refl. f_equal.
    rewrite <- (IH NDc). unfold enc_row. apply map_ext_in. intros t' I.
    rewrite eqb_neq; [reflexivity|]. intro; subst. contradiction.
  Qed.

  Theorem complete_is_dense : forall grid (ct : @content A V),
    NoDup grid -> Forall (fun c => map fst c = grid) ct ->
    enc_nan eqb grid ct = map (map Some) (dense_values ct) /\
    enc_ragged ct = map (fun r => (grid, r)) (dense_values ct) /\
    dec_nan grid (map (map Some) (dense_values ct)) = ct /\
    Forall (fun r => length r = length grid) (dense_values ct).
  Proof.
    intros grid ct ND F. rewrite Forall_forall in F.
    assert (E : enc_nan eqb grid ct = map (map Some) (dense_values ct)).
    { unfold enc_nan, dense_values. rewrite map_map. apply map_ext_in. intros c I.
      rewrite <- (F c I). apply enc_row_complete. now rewrite (F c I). }
    repeat split.
    - exact E.
    - unfold enc_ragged, dense_values. rewrite map_map. apply map_ext_in. intros c I. now rewrite (F c I).
    - rewrite <- E. apply dec_enc_nan; [assumption|]. apply Forall_forall. intros c I.
      rewrite (F c I). clear. induction grid; constructor; assumption.
    - apply Forall_forall. intros r I. unfold dense_values in I. apply in_map_iff in I.
      destruct I as [c [<- I]]. rewrite map_length, <- (F c I). now rewrite map_length.
  Qed.

  (* the long format lists every observed sample exactly once, curve by curve *)
  Theorem to_long_length : forall ct : @content A V,
    length (to_long ct) = fold_right (fun c n => length c + n) 0 ct.
  Proof.
    intro ct. unfold to_long. generalize 0 at 1. induction ct as [|c ct IH]; intro s; [reflexivity|].
    simpl. rewrite app_length, map_length. f_equal. apply IH.
  Qed.
End Proofs.

(* ---- F14: "last observation per grid point" is not the pooled mean ---- *)
Local Open Scope Q_scope.
Definition f14_grid : list Q := [0; 1; 2].
Definition f14_content : @content Q Q := [[(0, 1); (1, 2); (2, 5)]; [(0, 3); (1, 0)]].

(* two curves: at t=0 the values 1 and 3 are observed (mean 2, the code keeps 3); at t=1 the
   values 2 and 0 (mean 1 with two observations; the code keeps the 0 and then gives it weight
   0, i.e. treats the point as unobserved); at t=2 a single observation (both agree) *)
Theorem mean_last_observation_refuted :
  format_pooled Qeq_bool f14_grid f14_content = [(2, 2); (1, 2); (5, 1)] /\
  format_last Qeq_bool f14_grid f14_content = [(3, 1); (0, 0); (5, 1)] /\
  mean_pooled Qeq_bool f14_grid f14_content = [2; 1; 5] /\
  mean_last Qeq_bool f14_grid f14_content = [3; 0; 5] /\
  ~ (nth 0 (mean_last Qeq_bool f14_grid f14_content) 0 == nth 0 (mean_pooled Qeq_bool f14_grid f14_content) 0).
Proof.
  repeat split; try (vm_compute; reflexivity).
  intro H. vm_compute in H. discriminate H.
Qed.

(* where every grid point carries exactly one non-zero observation the two coincide *)
Theorem mean_last_agrees_single : forall (t v : Q),
  Qeq_bool v 0 = false ->
  format_last Qeq_bool [t] [[(t, v)]] = [(v, 1)] /\ mean_last Qeq_bool [t] [[(t, v)]] = [v].
Proof.
  intros t v H. unfold mean_last, format_last, obs_at. simpl.
  assert (E : Qeq_bool t t = true) by (apply Qeq_bool_iff; reflexivity).
  rewrite E. simpl. rewrite H. split; reflexivity.
Qed.
