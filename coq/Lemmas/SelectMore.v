(* Lemmas/SelectMore.v — algebra of concatenation and selection (C13), on top of Lemmas/Select.v:
   concatenation is associative (nested = flat), empty datasets are neutral, iterating and concatenating
   gives the data back, a split at ANY interior point followed by concatenation is the identity, and the
   full slice of a dataset is the dataset (as a fresh one). *)
From Coq Require Import ZArith List Bool Lia.
From FDAV Require Import Model.PyIndex Model.Select Lemmas.PyIndex Lemmas.Select.
Import ListNotations.
Local Open Scope Z_scope.

Section Proofs.
  Context {obs : Type}.
  Notation dataset := (@dataset obs).

  Lemma content_concatenate : forall ds : list dataset,
    content (concatenate ds) = concat (map content ds).
  Proof. intro ds. unfold concatenate. apply content_fresh. Qed.

  Theorem concatenate_length : forall ds : list dataset,
    length (concatenate ds) = fold_right (fun d n => (length d + n)%nat) 0%nat ds.
  Proof.
    intro ds. unfold concatenate. rewrite length_fresh.
    induction ds as [|d ds IH]; [reflexivity|]. cbn [map concat fold_right].
    rewrite app_length, IH, length_content. reflexivity.
  Qed.

  Theorem concatenate_singleton : forall d : dataset, concatenate [d] = fresh (content d).
  Proof. intro d. unfold concatenate. cbn [map concat]. now rewrite app_nil_r. Qed.

  Theorem concatenate_singleton_fresh : forall l : list obs, concatenate [fresh l] = fresh l.
  Proof. intro l. rewrite concatenate_singleton. apply fresh_content_fresh. Qed.

  (* nested concatenation = flat concatenation (associativity in its general form) *)
  Theorem concatenate_flatten : forall dss : list (list dataset),
    concatenate (map concatenate dss) = concatenate (concat dss).
  Proof.
    intro dss. unfold concatenate at 1 3. f_equal. rewrite map_map.
    induction dss as [|ds dss IH]; [reflexivity|].
    cbn [map concat]. rewrite content_concatenate, IH, map_app, concat_app. reflexivity.
  Qed.

  Theorem concatenate_assoc : forall a b c : dataset,
    concatenate [concatenate [a; b]; c] = concatenate [a; b; c] /\
    concatenate [a; concatenate [b; c]] = concatenate [a; b; c].
  Proof.
    intros a b c. unfold concatenate. cbn [map concat]. rewrite !content_fresh, !app_nil_r.
    split; f_equal; now rewrite <- ?app_assoc.
  Qed.

  (* an empty dataset anywhere in the list changes nothing *)
  Theorem concatenate_empty_neutral : forall ds1 ds2 : list dataset,
    concatenate (ds1 ++ [] :: ds2) = concatenate (ds1 ++ ds2).
  Proof.
    intros ds1 ds2. unfold concatenate. f_equal. rewrite !map_app, !concat_app. reflexivity.
  Qed.

  (* iterating and concatenating the singletons gives the data back *)
  Theorem concatenate_iter : forall d : dataset, concatenate (iter d) = fresh (content d).
  Proof.
    intro d. unfold concatenate. f_equal.
    destruct (iter_is_all_singletons d) as (_ & _ & H & _). exact H.
  Qed.

  (* the full slice d[0:n] is the dataset itself, relabelled *)
  Theorem getitem_full_slice : forall d : dataset,
    getitem d (slice_ab 0 (Z.of_nat (length d))) = Ok (fresh (content d)).
  Proof.
    intro d. rewrite getitem_slice_ab by lia.
    rewrite Z.sub_0_r, Nat2Z.id. change (Z.to_nat 0) with 0%nat. cbn [skipn].
    rewrite <- length_content, firstn_all. reflexivity.
  Qed.

  (* split at ANY interior point c, concatenate the two halves: the identity (on a fresh dataset, exactly) *)
  Theorem split_concat_identity : forall (d : dataset) c, 0 <= c <= Z.of_nat (length d) ->
    exists d1 d2, getitem d (slice_ab 0 c) = Ok d1 /\
                  getitem d (slice_ab c (Z.of_nat (length d))) = Ok d2 /\
                  (length d1 + length d2 = length d)%nat /\
                  concatenate [d1; d2] = fresh (content d).
  Proof.
    intros d c Hc.
    eexists. eexists. split; [apply getitem_slice_ab; lia|]. split; [apply getitem_slice_ab; lia|].
    rewrite Z.sub_0_r. change (Z.to_nat 0) with 0%nat. cbn [skipn].
    assert (Hl : (Z.to_nat c <= length (content d))%nat) by (rewrite length_content; lia).
    split.
    - rewrite !length_fresh, firstn_length, firstn_length, skipn_length, length_content. lia.
    - unfold concatenate. cbn [map concat]. rewrite !content_fresh, app_nil_r. f_equal.
      rewrite (firstn_all2 (n := Z.to_nat (Z.of_nat (length d) - c))).
      + apply firstn_skipn.
      + rewrite skipn_length, length_content. lia.
  Qed.
End Proofs.
