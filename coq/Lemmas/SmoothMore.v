(* Lemmas/SmoothMore.v — further laws of Model/Smooth.v (C07): predictions compose over
   concatenated / repeated queries, and the exact condition under which the unrepaired
   rebuild-on-the-query behaviour (finding F6, fixed) is invisible. *)
From Coq Require Import List Bool.
From FDAV Require Import Base.Num Base.Vec Model.Basis Model.Smooth.
Import ListNotations.

Section Proofs.
  Context {T : Type} (o : ops T).

  Theorem ps_predict_app : forall st Q1 Q2,
    ps_predict o st (Q1 ++ Q2) = ps_predict o st Q1 ++ ps_predict o st Q2.
  Proof. intros. unfold ps_predict. apply map_app. Qed.

  Theorem ps_predict_length : forall st Q, length (ps_predict o st Q) = length Q.
  Proof. intros. unfold ps_predict. apply map_length. Qed.

  (* a repeated location gets the same value at each occurrence *)
  Theorem ps_predict_repeat : forall st Q i j d,
    (i < length Q)%nat -> (j < length Q)%nat -> nth i Q d = nth j Q d ->
    nth i (ps_predict o st Q) (ps_eval o st d) = nth j (ps_predict o st Q) (ps_eval o st d).
  Proof. intros st Q i j d Hi Hj E. unfold ps_predict. now rewrite !map_nth, E. Qed.

  (* the prediction depends on the state only through (beta, a, b, nseg, deg): two states that agree on
     these five fields predict the same — nothing else of the fit (data, penalty, weights) is consulted *)
  Theorem ps_predict_state_fields : forall st st' Q,
    ps_beta st = ps_beta st' -> ps_a st = ps_a st' -> ps_b st = ps_b st' ->
    ps_nseg st = ps_nseg st' -> ps_deg st = ps_deg st' -> ps_predict o st Q = ps_predict o st' Q.
  Proof.
    intros [b a e n p] [b' a' e' n' p'] Q; cbn [ps_beta ps_a ps_b ps_nseg ps_deg].
    intros -> -> -> -> ->. reflexivity.
  Qed.

  (* F6 characterised: the rebuilt basis coincides with the fitted one EXACTLY when the query spans the
     fit domain — which is why a suite that only predicts at the fit grid cannot see the defect *)
  Theorem ps_predict_rebuild_same_range : forall st q0 Q,
    lmin o (q0 :: Q) q0 = ps_a st -> lmax o (q0 :: Q) q0 = ps_b st ->
    ps_predict_rebuild o st (q0 :: Q) = ps_predict o st (q0 :: Q).
  Proof.
    intros [b a e n p] q0 Q Ha Hb. unfold ps_predict_rebuild, ps_predict.
    cbn [ps_beta ps_a ps_b ps_nseg ps_deg] in *. rewrite Ha, Hb. reflexivity.
  Qed.

  Theorem ps_predict_rebuild_nil : forall st, ps_predict_rebuild o st [] = ps_predict o st [].
  Proof. reflexivity. Qed.
End Proofs.
