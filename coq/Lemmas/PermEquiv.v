(* Lemmas/PermEquiv.v — simultaneous re-indexing of the coordinates (C04: listing the components of a
   multivariate dataset in another order re-indexes the stacked univariate scores block-wise).
   For ANY permutation s of the coordinates 0..M-1:
     inner products are unchanged,   (A re-indexed) (v re-indexed) = (A v) re-indexed,
   hence eigenpairs of the re-indexed matrix are the re-indexed eigenvectors with the SAME eigenvalues, and
   the scores  row . c  are unchanged. *)
From Coq Require Import List Bool Reals Lra Lia Arith Permutation.
From FDAV Require Import Base.Num Base.Vec Model.Stats Lemmas.Vec Lemmas.Stats Lemmas.Gram Lemmas.Scores Lemmas.CovPerm.
Import ListNotations.
Local Open Scope R_scope.

Definition reidx (s : list nat) (v : list R) : list R := map (fun i => nth i v 0) s.
Definition reidxM (s : list nat) (A : list (list R)) : list (list R) := map (fun i => reidx s (nth i A [])) s.

Lemma seq_nth_self (v : list R) : map (fun i => nth i v 0) (seq 0 (length v)) = v.
Proof.
  induction v as [|a v IH]; [reflexivity|].
  cbn [length seq map nth]. f_equal. rewrite <- seq_shift, map_map. exact IH.
Qed.

Theorem dot_reidx s M v w : Permutation s (seq 0 M) -> length v = M -> length w = M ->
  dotR (reidx s v) (reidx s w) = dotR v w.
Proof.
  intros P Hv Hw. unfold reidx. rewrite dot_map_map.
  rewrite (vsum_perm _ (map (fun i => nth i v 0 * nth i w 0) (seq 0 M))) by (apply Permutation_map; exact P).
  rewrite <- dot_map_map. rewrite <- Hv at 1. rewrite <- Hw. rewrite !seq_nth_self. reflexivity.
Qed.

Lemma reidx_vscale s c v : reidx s (vscaleR c v) = vscaleR c (reidx s v).
Proof.
  unfold reidx, vscale. rewrite map_map. apply map_ext. intros i.
  cbn [omul opsR]. rewrite <- (Rmult_0_r c) at 1. apply map_nth.
Qed.

Theorem mv_reidx s M A v : Permutation s (seq 0 M) -> length A = M -> Forall (fun r => length r = M) A -> length v = M ->
  mvR (reidxM s A) (reidx s v) = reidx s (mvR A v).
Proof.
  intros P HA HF Hv. unfold reidxM, mv. rewrite map_map. unfold reidx at 3. apply map_ext_in. intros i Hi.
  assert (Hlt : (i < M)%nat).
  { apply (Permutation_in _ P) in Hi. apply in_seq in Hi. lia. }
  rewrite (dot_reidx s M) by (try assumption; rewrite Forall_forall in HF; apply HF, nth_In; lia).
  symmetry. rewrite <- (dot_nil_l v). exact (map_nth (fun r => dotR r v) A [] i).
Qed.

Theorem eigenpair_reidx s M A c nu : Permutation s (seq 0 M) -> length A = M -> Forall (fun r => length r = M) A ->
  length c = M -> mvR A c = vscaleR nu c -> mvR (reidxM s A) (reidx s c) = vscaleR nu (reidx s c).
Proof. intros P HA HF Hc E. rewrite (mv_reidx s M) by assumption. rewrite E. apply reidx_vscale. Qed.

(* scores: (re-indexed score row) . (re-indexed eigenvector) = (row) . (eigenvector) *)
Theorem scores_reidx s M S c : Permutation s (seq 0 M) -> Forall (fun r => length r = M) S -> length c = M ->
  mvR (map (reidx s) S) (reidx s c) = mvR S c.
Proof.
  intros P HF Hc. unfold mv. rewrite map_map. apply map_ext_in. intros r Hr.
  apply (dot_reidx s M); [exact P| |exact Hc]. rewrite Forall_forall in HF. apply HF. exact Hr.
Qed.

(* ---------- the covariance of re-indexed score columns is the re-indexed covariance ---------- *)

Lemma perm_len s M : Permutation s (seq 0 M) -> length s = M.
Proof. intros P. rewrite (Permutation_length P). apply seq_length. Qed.
Lemma perm_lt s M i : Permutation s (seq 0 M) -> In i s -> (i < M)%nat.
Proof. intros P H. apply (Permutation_in _ P) in H. apply in_seq in H. lia. Qed.

Lemma reidx_map2 (h : R -> R -> R) s M a b : Permutation s (seq 0 M) -> length a = M -> length b = M ->
  map2 h (reidx s a) (reidx s b) = reidx s (map2 h a b).
Proof.
  intros P Ha Hb. unfold reidx.
  assert (G : forall l : list nat, (forall i, In i l -> (i < M)%nat) ->
            map2 h (map (fun i => nth i a 0) l) (map (fun i => nth i b 0) l) = map (fun i => nth i (map2 h a b) 0) l).
  { induction l as [|i l IH]; intros Hl; [reflexivity|]. cbn [map map2]. rewrite IH by (intros; apply Hl; right; assumption).
    f_equal. symmetry. apply (nth_map2 h a b i 0 0 0); rewrite ?Ha, ?Hb; apply Hl; left; reflexivity. }
  apply G. intros i Hi. exact (perm_lt s M i P Hi).
Qed.

Lemma reidx_map (h : R -> R) s M c : Permutation s (seq 0 M) -> length c = M ->
  map h (reidx s c) = reidx s (map h c).
Proof.
  intros P Hc. unfold reidx. rewrite map_map. apply map_ext_in. intros i Hi.
  symmetry. apply nth_map_in. rewrite Hc. exact (perm_lt s M i P Hi).
Qed.

Lemma reidx_zeros s M : Permutation s (seq 0 M) -> reidx s (zerosR M) = zerosR M.
Proof.
  intros P. unfold reidx. rewrite (map_ext _ (fun _ => 0)) by (intros; apply nth_zeros).
  rewrite <- (perm_len s M P). unfold zeros. clear P. induction s; [reflexivity|]. cbn [map length repeat]. f_equal. assumption.
Qed.

Lemma colsum_reidx s M S : Permutation s (seq 0 M) -> Forall (fun r => length r = M) S ->
  colsum opsR M (map (reidx s) S) = reidx s (colsum opsR M S).
Proof.
  intros P HS. induction HS as [|r S Hr HS IH].
  - unfold colsum. cbn [map fold_right]. symmetry. apply reidx_zeros. exact P.
  - unfold colsum in *. cbn [map fold_right]. rewrite IH. unfold vadd.
    apply (reidx_map2 _ s M); [exact P|exact Hr|]. apply (colsum_length M S HS).
Qed.

Lemma center_reidx s M S : Permutation s (seq 0 M) -> Forall (fun r => length r = M) S ->
  center opsR M (map (reidx s) S) = map (reidx s) (center opsR M S).
Proof.
  intros P HS. unfold center, center_rows, colmean. rewrite !map_map, map_length.
  rewrite (colsum_reidx s M S P HS).
  rewrite (reidx_map _ s M) by (try exact P; apply (colsum_length M S HS)).
  apply map_ext_in. intros r Hr. unfold vsub.
  apply (reidx_map2 _ s M); [exact P| |].
  - rewrite Forall_forall in HS. apply HS. exact Hr.
  - rewrite map_length. apply (colsum_length M S HS).
Qed.

Theorem cov_reidx_entry s M S a b : Permutation s (seq 0 M) -> Forall (fun r => length r = M) S ->
  (2 <= length S)%nat -> (a < M)%nat -> (b < M)%nat ->
  ent (cov opsR M (map (reidx s) S)) a b = ent (cov opsR M S) (nth a s 0%nat) (nth b s 0%nat).
Proof.
  intros P HS Hn Ha Hb.
  assert (HS' : Forall (fun r => length r = M) (map (reidx s) S)).
  { rewrite Forall_map. rewrite Forall_forall. intros r _. unfold reidx. rewrite map_length. apply (perm_len s M P). }
  assert (La : (nth a s 0 < M)%nat) by (apply (perm_lt s M _ P), nth_In; rewrite (perm_len s M P); exact Ha).
  assert (Lb : (nth b s 0 < M)%nat) by (apply (perm_lt s M _ P), nth_In; rewrite (perm_len s M P); exact Hb).
  rewrite !cov_entry_rows by (try assumption; rewrite ?map_length; assumption).
  rewrite map_length, (center_reidx s M S P HS), map_map. f_equal.
  apply vsum_ext. intros r _. unfold reidx.
  rewrite !(nth_map_in _ s _ 0 0%nat) by (rewrite (perm_len s M P); assumption). reflexivity.
Qed.
