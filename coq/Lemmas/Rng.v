(* Lemmas/Rng.v — proofs about Model/Rng.v.  Discrete; no axioms. *)
From Coq Require Import List Arith Lia.
From FDAV Require Import Model.Rng.
Import ListNotations.

Section RngFacts.
  Context {V F C : Type}.
  Context (fam : nat -> nat -> V) (sem : C -> F -> (nat -> V) -> F * nat).
  Notation worldT := (world V).
  Notation eventT := (event V C).
  Notation trace' := (trace fam sem).
  Notation step' := (step fam sem).
  Notation final' := (final_state fam sem).
  Notation pure' := (pure_trace fam sem).

  Definition mk (sd p : nat) (g : nat -> V) (gp : nat) : worldT :=
    {| priv := Some (sd, p); gstream := g; gpos := gp |}.

  (* with a seed, the outputs after every call are the pure function of
     (seed, position, call sequence): by induction over the event list, whatever
     happens to the global generator in between *)
  Lemma seeded_trace_is_pure (evs : list eventT) : forall sd p g gp f,
    trace' evs (mk sd p g gp, f) = pure' (calls_of evs) sd p f.
  Proof.
    induction evs as [|e evs IH]; intros sd p g gp f; [reflexivity|].
    destruct e as [c|g' gp']; cbn [trace calls_of pure_trace].
    - cbn [step fst snd mk source consume priv gstream gpos].
      f_equal. apply (IH sd (p + snd (sem c f (fun i => fam sd (p + i)))) g gp).
    - cbn [step fst snd mk priv]. apply (IH sd p g' gp').
  Qed.

  Theorem seeded_independent_of_global_lemma (evs : list eventT) seed g gp f :
    trace' evs (seeded seed g gp, f) = pure' (calls_of evs) seed 0 f.
  Proof. apply (seeded_trace_is_pure evs seed 0 g gp f). Qed.

  Theorem same_seed_same_outputs_lemma (evs1 evs2 : list eventT) seed (w1 w2 : worldT) f :
    priv w1 = Some (seed, 0) -> priv w2 = Some (seed, 0) -> calls_of evs1 = calls_of evs2 ->
    trace' evs1 (w1, f) = trace' evs2 (w2, f).
  Proof.
    intros H1 H2 Hc. destruct w1 as [p1 g1 gp1], w2 as [p2 g2 gp2]. cbn in H1, H2. subst p1 p2.
    pose proof (seeded_trace_is_pure evs1 seed 0 g1 gp1 f) as E1.
    pose proof (seeded_trace_is_pure evs2 seed 0 g2 gp2 f) as E2.
    unfold mk in E1, E2. rewrite E1, E2, Hc. reflexivity.
  Qed.

  (* a call moves the private position forward by what it consumed, and the next
     call reads the stream BEYOND that point *)
  Theorem successive_draws_consume_lemma c sd p g gp f :
    let w := mk sd p g gp in
    let n := snd (sem c f (source fam w)) in
    let w' := fst (step' (w, f) (Call c)) in
    position w' = p + n /\
    (forall i, source fam w' i = fam sd (p + n + i)) /\
    (0 < n -> position w < position w') /\
    gstream w' = g /\ gpos w' = gp.
  Proof.
    cbn [mk step fst snd source consume priv position gstream gpos].
    repeat split; auto. intros H. lia.
  Qed.

  (* along any history the private position never goes back *)
  Lemma position_monotone (evs : list eventT) : forall sd p g gp f,
    p <= position (fst (final' evs (mk sd p g gp, f))) /\
    exists p' g' gp', fst (final' evs (mk sd p g gp, f)) = mk sd p' g' gp'.
  Proof.
    unfold final_state.
    induction evs as [|e evs IH]; intros sd p g gp f; cbn [fold_left].
    - split; [cbn; lia|]. exists p, g, gp. reflexivity.
    - destruct e as [c|g' gp'].
      + cbn [step fst snd mk source consume priv gstream gpos].
        destruct (IH sd (p + snd (sem c f (fun i => fam sd (p + i)))) g gp
                     (fst (sem c f (fun i => fam sd (p + i))))) as [Hle Hex].
        split; [|exact Hex]. unfold mk in *. lia.
      + cbn [step fst snd mk priv]. apply (IH sd p g' gp').
  Qed.

  (* a seeded simulator never touches numpy's global generator *)
  Lemma seeded_leaves_global_untouched_lemma (cs : list C) : forall sd p g gp f,
    gstream (fst (final' (map (@Call V C) cs) (mk sd p g gp, f))) = g /\
    gpos (fst (final' (map (@Call V C) cs) (mk sd p g gp, f))) = gp.
  Proof.
    unfold final_state.
    induction cs as [|c cs IH]; intros sd p g gp f; cbn [map fold_left]; [split; reflexivity|].
    cbn [step fst snd mk source consume priv gstream gpos].
    apply (IH sd (p + snd (sem c f (fun i => fam sd (p + i)))) g gp).
  Qed.
End RngFacts.

(* F12: a `new` that draws from the global generator although a seed was given
   makes two identically seeded simulators differ *)
Lemma datasets_refuted_lemma :
  exists (fam : nat -> nat -> nat) (sem : unit -> nat -> (nat -> nat) -> nat * nat)
         (seed : nat) (g1 g2 : nat -> nat),
    trace_global sem [Call tt] (seeded seed g1 0, 0) <> trace_global sem [Call tt] (seeded seed g2 0, 0)
    /\ trace fam sem [Call tt] (seeded seed g1 0, 0) = trace fam sem [Call tt] (seeded seed g2 0, 0).
Proof.
  exists (fun _ _ => 0), (fun _ _ src => (src 0, 1)), 3, (fun _ => 1), (fun _ => 2).
  split; [vm_compute; discriminate|reflexivity].
Qed.
