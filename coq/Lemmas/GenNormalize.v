(* Lemmas/GenNormalize.v — the per-observation map TRANSLATED from IrregularArgvals.normalization (Gen/Normalize.v,
   regenerated from /repo's source on every run) is the model's [norm_with]; hence [norm_irr] is that translated map
   applied to every observation with the object's own global range. *)
From Coq Require Import List Bool QArith.
From FDAV Require Import Model.Normalize Gen.Normalize.
Import ListNotations.
Local Open Scope Q_scope.

Theorem gen_norm_obs_is_model : forall mn mx xs, gen_norm_obs mn mx xs = norm_with mn mx xs.
Proof. intros mn mx xs. unfold gen_norm_obs, norm_with. destruct (Qeq_bool mn mx); reflexivity. Qed.

Theorem norm_irr_is_source : forall obs, norm_irr obs = map (gen_norm_obs (gmin obs) (gmax obs)) obs.
Proof. intro obs. unfold norm_irr. apply map_ext. intro xs. symmetry. apply gen_norm_obs_is_model. Qed.

(* dense data: the translated DenseArgvals.normalization is the model's [norm_dense] *)
Theorem gen_norm_dense_is_model : forall xs, gen_norm_dense xs = norm_dense xs.
Proof. intro xs. reflexivity. Qed.
Theorem norm_dense_length : forall xs, length (norm_dense xs) = length xs.
Proof. intro xs. unfold norm_dense. apply map_length. Qed.
