(* Lemmas/CovScale.v — the sample mean and the sample covariance have no absolute scale (C09): the same curves in other
   units (every value times a) have the mean times a and the covariance times a^2 — for every a, in particular for the tiny
   factors of curves recorded in small units. *)
From Coq Require Import List Bool Reals Lra Lia Arith.
From FDAV Require Import Base.Num Base.Vec Model.Stats Lemmas.Vec Lemmas.Gram Lemmas.Stats Lemmas.Scores.
Import ListNotations.
Local Open Scope R_scope.

Lemma vscale_vadd a (u : list R) : forall v, vscaleR a (vaddR u v) = vaddR (vscaleR a u) (vscaleR a v).
Proof.
  induction u as [|x u IH]; intros [|y v]; try reflexivity.
  unfold vscale, vadd in *. cbn [map2 map]. rewrite IH. f_equal. cbn [oadd omul opsR]. lra.
Qed.
Lemma vscale_zerosR a n : vscaleR a (zerosR n) = zerosR n.
Proof. induction n as [|n IH]; [reflexivity|]. unfold zeros, vscale in *. cbn [repeat map]. rewrite IH. f_equal. cbn. lra. Qed.

Lemma colsum_scale a m X : colsum opsR m (map (vscaleR a) X) = vscaleR a (colsum opsR m X).
Proof.
  unfold colsum. induction X as [|r X IH]; cbn [map fold_right].
  - symmetry. apply vscale_zerosR.
  - rewrite IH. symmetry. apply vscale_vadd.
Qed.

Lemma colmean_scale a m X : colmean opsR m (map (vscaleR a) X) = vscaleR a (colmean opsR m X).
Proof.
  unfold colmean. rewrite map_length, colsum_scale. unfold vscale. rewrite !map_map. apply map_ext. intros s.
  cbn [omul odiv opsR]. unfold Rdiv0. destruct (Req_EM_T (oofnat opsR (length X)) 0); [lra|]. unfold Rdiv. ring.
Qed.

Lemma vscale_vsub a (u : list R) : forall v, vscaleR a (vsubR u v) = vsubR (vscaleR a u) (vscaleR a v).
Proof.
  induction u as [|x u IH]; intros [|y v]; try reflexivity.
  unfold vscale, vsub in *. cbn [map2 map]. rewrite IH. f_equal. unfold osub. cbn [oadd omul oopp opsR]. lra.
Qed.

Theorem mean_scale a m X : mean opsR m (map (vscaleR a) X) = vscaleR a (mean opsR m X).
Proof. apply colmean_scale. Qed.

Theorem center_scale a m X : center opsR m (map (vscaleR a) X) = map (vscaleR a) (center opsR m X).
Proof.
  unfold center, center_rows. rewrite colmean_scale, !map_map. apply map_ext. intros r. symmetry. apply vscale_vsub.
Qed.

Lemma transpose_scale a m X : transpose m (map (vscaleR a) X) = map (vscaleR a) (transpose m X).
Proof.
  unfold transpose. induction X as [|r X IH]; cbn [map fold_right].
  - induction m as [|m IHm]; [reflexivity|]. cbn [repeat map]. rewrite <- IHm. reflexivity.
  - rewrite IH. generalize (fold_right (map2 cons) (repeat [] m) X). clear IH.
    unfold vscale. induction r as [|x r IHr]; intros [|c cs]; try reflexivity.
    cbn [map2 map]. rewrite IHr. reflexivity.
Qed.

Theorem cov_scale a m X : cov opsR m (map (vscaleR a) X) = mscale opsR (a * a) (cov opsR m X).
Proof.
  unfold cov. rewrite map_length. pose proof (center_scale a m X) as E. unfold center in E. rewrite E.
  unfold cols. rewrite transpose_scale. set (Ct := transpose m (center_rows opsR m X)).
  unfold cov_of_cols, mscale. rewrite !map_map. apply map_ext. intros cs.
  unfold vscale at 3. rewrite !map_map. apply map_ext. intros ct.
  rewrite dot_vscale_l, dot_vscale_r. cbn [omul odiv opsR]. unfold Rdiv0.
  destruct (Req_EM_T (oofnat opsR (pred (length X))) 0); [lra|]. unfold Rdiv. ring.
Qed.
