(* Lemmas/Fcptpa.v — proofs about Model/Fcptpa.v.
   Part 1: the loop skeleton (discrete; closed under the global context).
   Part 2: rank-one tensors, deflation and the energy identity, scores and
           eigenimages, the normalize option (real instance), transfer of the Q run. *)
From Coq Require Import List Bool Arith Lia Reals Lra QArith Qreals.
From FDAV Require Import Base.Num Base.Vec Base.Quad Lemmas.Vec Lemmas.Quad Model.Fcptpa.
Import ListNotations.
Local Open Scope nat_scope.

(* ================================================================== *)
(* 1. the loop                                                         *)
(* ================================================================== *)
Section Loop.
  Variable conv : nat -> nat -> bool.
  Variable maxit : nat.
  Variable adapt : bool.

  (* the explicit measure: 0 once the exit is forced, else bound - n_iter *)
  Definition mu (st : lstate) : nat :=
    if l_forced st then 0 else loop_bound maxit adapt - l_iter st.
  (* invariant that makes the measure meaningful *)
  Definition linv (st : lstate) : Prop :=
    l_forced st = false -> l_iter st < loop_bound maxit adapt.

  Lemma loop_bound_le : loop_bound maxit adapt <= 2 * maxit + 1.
  Proof. unfold loop_bound. destruct adapt; lia. Qed.
  Lemma loop_bound_pos : 0 < loop_bound maxit adapt.
  Proof. unfold loop_bound. destruct adapt; lia. Qed.
  Lemma loop_bound_exact : 1 <= maxit ->
    loop_bound maxit adapt = if adapt then 2 * maxit else maxit + 1.
  Proof. unfold loop_bound. destruct adapt; lia. Qed.

  Lemma linv_init level : linv (l_init level).
  Proof. intros _. simpl. apply loop_bound_pos. Qed.

  Lemma test_true_unforced st : loop_test conv st = true -> l_forced st = false.
  Proof. unfold loop_test. destruct (l_forced st); simpl; congruence. Qed.

  Lemma body_iter st : l_iter (loop_body maxit adapt st) = S (l_iter st).
  Proof.
    unfold loop_body. destruct (maxit <? S (l_iter st)); [|reflexivity].
    destruct (adapt && (S (l_iter st) <? 2 * maxit)); reflexivity.
  Qed.

  (* every pass through the body strictly decreases the measure and keeps the invariant *)
  Lemma body_decreases st : loop_test conv st = true -> linv st ->
    linv (loop_body maxit adapt st) /\ mu (loop_body maxit adapt st) < mu st.
  Proof.
    intros Ht Hi. pose proof (test_true_unforced _ Ht) as Hf. specialize (Hi Hf).
    destruct st as [n lv f]. cbn [l_forced l_iter l_level] in *. subst f.
    unfold linv, mu, loop_body, loop_bound in *. cbn [l_forced l_iter l_level].
    destruct (Nat.ltb_spec maxit (S n)) as [E1|E1].
    - destruct adapt; cbn [andb].
      + destruct (Nat.ltb_spec (S n) (2 * maxit)) as [E2|E2]; cbn [l_forced l_iter l_level].
        * split; [intros _|]; lia.
        * split; [discriminate|lia].
      + cbn [l_forced l_iter l_level]. split; [discriminate|lia].
    - cbn [l_forced l_iter l_level]. split; [intros _|]; destruct adapt; lia.
  Qed.

  (* termination, by induction on the measure *)
  Lemma runs_from m : forall st, mu st <= m -> linv st ->
    exists k st', Runs conv maxit adapt st k st' /\ k <= mu st /\
                  l_iter st' = l_iter st + k /\ loop_test conv st' = false.
  Proof.
    induction m as [|m IH]; intros st Hm Hi.
    - destruct (loop_test conv st) eqn:Ht.
      + destruct (body_decreases st Ht Hi) as [_ Hd]. lia.
      + exists 0, st. repeat split; [constructor; exact Ht|lia|lia|exact Ht].
    - destruct (loop_test conv st) eqn:Ht.
      + destruct (body_decreases st Ht Hi) as [Hi' Hd].
        destruct (IH (loop_body maxit adapt st)) as (k & st' & Hr & Hk & Hn & He); [lia|exact Hi'|].
        exists (S k), st'. repeat split.
        * econstructor; eassumption.
        * lia.
        * rewrite Hn, body_iter. lia.
        * exact He.
      + exists 0, st. repeat split; [constructor; exact Ht|lia|lia|exact Ht].
  Qed.

  Lemma Runs_deterministic st k1 s1 : Runs conv maxit adapt st k1 s1 ->
    forall k2 s2, Runs conv maxit adapt st k2 s2 -> k1 = k2 /\ s1 = s2.
  Proof.
    induction 1 as [st Ht|st k st' Ht Hr IH]; intros k2 s2 H2; inversion H2; subst; try congruence.
    - split; reflexivity.
    - destruct (IH _ _ H0). split; congruence.
  Qed.

  Lemma Runs_run_loop st k st' : Runs conv maxit adapt st k st' ->
    forall fuel, k < fuel -> run_loop fuel conv maxit adapt st = Some st'.
  Proof.
    induction 1 as [st Ht|st k st' Ht Hr IH]; intros [|fuel] Hf; try lia; simpl; rewrite Ht.
    - reflexivity.
    - apply IH. lia.
  Qed.

  Lemma run_loop_Runs fuel : forall st st', run_loop fuel conv maxit adapt st = Some st' ->
    exists k, Runs conv maxit adapt st k st' /\ k < fuel.
  Proof.
    induction fuel as [|fuel IH]; intros st st' H; [discriminate|]. simpl in H.
    destruct (loop_test conv st) eqn:Ht.
    - destruct (IH _ _ H) as (k & Hr & Hk). exists (S k). split; [econstructor; eassumption|lia].
    - inversion H; subst. exists 0. split; [constructor; exact Ht|lia].
  Qed.

  (* the tolerance can only have been changed once n_iter exceeded max_iteration *)
  Definition tinv (level : nat) (st : lstate) : Prop :=
    l_level st = level \/ (adapt = true /\ maxit <= l_iter st).
  Lemma body_tinv level st : tinv level st -> tinv level (loop_body maxit adapt st).
  Proof.
    unfold tinv. intros H. rewrite body_iter.
    destruct st as [n lv f]. unfold loop_body. cbn [l_forced l_iter l_level] in *.
    destruct (Nat.ltb_spec maxit (S n)) as [E1|E1].
    - destruct adapt; cbn [andb].
      + destruct (Nat.ltb_spec (S n) (2 * maxit)) as [E2|E2]; cbn [l_level].
        * right. split; [reflexivity|lia].
        * destruct H as [H|[_ H]]; [left; exact H|right; split; [reflexivity|lia]].
      + cbn [l_level]. destruct H as [H|[H _]]; [left; exact H|discriminate].
    - cbn [l_level]. destruct H as [H|[Ha H]]; [left; exact H|right; split; [exact Ha|lia]].
  Qed.
  Lemma Runs_tinv level st k st' : Runs conv maxit adapt st k st' -> tinv level st -> tinv level st'.
  Proof. induction 1; intros Hi; [exact Hi|]. apply IHRuns. apply body_tinv. exact Hi. Qed.
End Loop.

(* ---- the statements used by Props/C17.v ---- *)

(* For EVERY convergence oracle, every max_iteration, with and without
   adapt_tolerance, from every tolerance level: the loop performs a definite
   number k of updates (big-step semantics, no fuel), k = n_iter,
   k <= loop_bound <= 2*max_iteration + 1, the exit test is false in the final
   state, and the executable version returns that very state for every fuel > k —
   in particular for the fuel [component_loop] uses. *)
Theorem loop_terminates_bound : forall conv maxit adapt level,
  exists k st,
    Runs conv maxit adapt (l_init level) k st /\
    l_iter st = k /\
    k <= loop_bound maxit adapt /\ loop_bound maxit adapt <= 2 * maxit + 1 /\
    loop_test conv st = false /\
    (forall fuel, k < fuel -> run_loop fuel conv maxit adapt (l_init level) = Some st) /\
    component_loop conv maxit adapt level = Some st.
Proof.
  intros conv maxit adapt level.
  destruct (runs_from conv maxit adapt (mu maxit adapt (l_init level)) (l_init level))
    as (k & st & Hr & Hk & Hn & He); [lia|apply linv_init|].
  assert (Hb : k <= loop_bound maxit adapt) by (unfold mu in Hk; simpl in Hk; lia).
  exists k, st. repeat split; try assumption.
  - apply loop_bound_le.
  - intros fuel Hf. eapply Runs_run_loop; eassumption.
  - unfold component_loop, loop_fuel. eapply Runs_run_loop; [eassumption|].
    pose proof (loop_bound_le maxit adapt). lia.
Qed.

(* the same with the bounds spelled out for max_iteration >= 1 *)
Theorem loop_updates_le : forall conv maxit adapt level k st, 1 <= maxit ->
  Runs conv maxit adapt (l_init level) k st ->
  k <= (if adapt then 2 * maxit else maxit + 1) /\ k <= 2 * maxit + 1.
Proof.
  intros conv maxit adapt level k st Hm Hr.
  destruct (loop_terminates_bound conv maxit adapt level) as (k' & st' & Hr' & _ & Hb & Hb2 & _).
  destruct (Runs_deterministic _ _ _ _ _ _ Hr _ _ Hr') as [-> _].
  rewrite <- (loop_bound_exact maxit adapt Hm). lia.
Qed.

Theorem loop_deterministic : forall conv maxit adapt st k1 s1 k2 s2,
  Runs conv maxit adapt st k1 s1 -> Runs conv maxit adapt st k2 s2 -> k1 = k2 /\ s1 = s2.
Proof. intros. eapply Runs_deterministic; eassumption. Qed.

(* the executable loop never runs out of fuel and agrees with the semantics *)
Theorem component_loop_sound : forall conv maxit adapt level st,
  component_loop conv maxit adapt level = Some st <->
  exists k, Runs conv maxit adapt (l_init level) k st.
Proof.
  intros conv maxit adapt level st. split.
  - intros H. destruct (run_loop_Runs _ _ _ _ _ _ H) as (k & Hr & _). exists k. exact Hr.
  - intros [k Hr].
    destruct (loop_terminates_bound conv maxit adapt level) as (k' & st' & Hr' & _ & _ & _ & _ & _ & Hc).
    destruct (Runs_deterministic _ _ _ _ _ _ Hr _ _ Hr') as [_ ->]. exact Hc.
Qed.

(* "Reset tolerance if necessary" really restores the user's tolerance, whatever happened *)
Theorem tolerance_restored : forall conv maxit adapt level k st,
  Runs conv maxit adapt (l_init level) k st -> restore maxit adapt level st = level.
Proof.
  intros conv maxit adapt level k st Hr.
  assert (Hi : tinv maxit adapt level st).
  { eapply Runs_tinv; [exact Hr|]. left. reflexivity. }
  unfold restore. destruct Hi as [H|[Ha H]].
  - destruct (adapt && (maxit <=? l_iter st)); congruence.
  - rewrite Ha. apply Nat.leb_le in H. rewrite H. reflexivity.
Qed.

(* without adapt_tolerance the tolerance is never touched *)
Theorem tolerance_untouched : forall conv maxit level k st,
  Runs conv maxit false (l_init level) k st -> l_level st = level.
Proof.
  intros conv maxit level k st Hr.
  assert (Hi : tinv maxit false level st) by (eapply Runs_tinv; [exact Hr|left; reflexivity]).
  destruct Hi as [H|[Ha _]]; [exact H|discriminate].
Qed.

(* all components: never out of fuel, every component starts from the user's
   tolerance, every count is within the bound *)
Theorem fit_loop_total : forall ncomp k0 convs maxit adapt level,
  exists counts,
    fit_loop_from ncomp k0 convs maxit adapt level = Some (counts, level) /\
    length counts = ncomp /\
    Forall (fun c => c <= loop_bound maxit adapt /\ c <= 2 * maxit + 1) counts /\
    (forall j, j < ncomp -> exists st,
        Runs (convs (k0 + j)) maxit adapt (l_init level) (nth j counts 0) st).
Proof.
  induction ncomp as [|n IH]; intros k0 convs maxit adapt level.
  - exists []. simpl. repeat split; [constructor|intros j Hj; lia].
  - destruct (loop_terminates_bound (convs k0) maxit adapt level)
      as (k & st & Hr & Hn & Hb & Hb2 & _ & _ & Hc).
    destruct (IH (S k0) convs maxit adapt level) as (cs & Hf & Hl & Hall & Hj).
    exists (k :: cs). simpl. rewrite Hc, (tolerance_restored _ _ _ _ _ _ Hr), Hf, Hn.
    repeat split.
    + simpl. congruence.
    + constructor; [lia|exact Hall].
    + intros [|j] Hlt.
      * exists st. rewrite Nat.add_0_r. exact Hr.
      * destruct (Hj j) as [st' Hs]; [lia|]. exists st'.
        replace (k0 + S j) with (S k0 + j) by lia. exact Hs.
Qed.

(* ================================================================== *)
(* 2. algebra (real instance)                                          *)
(* ================================================================== *)
Local Open Scope R_scope.

Notation kronR := (kron opsR).
Notation sqnormR := (sqnorm opsR).
Notation rank1R := (rank1 opsR).
Notation vdivsR := (vdivs opsR).
Notation deflate1R := (deflate1 opsR).
Notation coefsR := (coefs opsR).
Notation residualR := (residual opsR).
Notation reconR := (recon opsR).
Notation mscaleR := (mscale opsR).

(* ---------- small vector facts missing from Lemmas/Vec.v ---------- *)
Lemma vsub_length x y : length (vsubR x y) = Nat.min (length x) (length y).
Proof. apply map2_length. Qed.

Lemma vscale_cons c a x : vscaleR c (a :: x) = c * a :: vscaleR c x.
Proof. reflexivity. Qed.
Lemma vscale_app c x y : vscaleR c (x ++ y) = vscaleR c x ++ vscaleR c y.
Proof. apply map_app. Qed.
Lemma vscale_vscale c d x : vscaleR c (vscaleR d x) = vscaleR (c * d) x.
Proof. unfold vscale. rewrite map_map. apply map_ext. intros a. cbn. lra. Qed.
Lemma vscale_one x : vscaleR 1 x = x.
Proof. unfold vscale. rewrite <- (map_id x) at 2. apply map_ext. intros a. cbn. lra. Qed.
Lemma vscale_zeros c n : vscaleR c (zerosR n) = zerosR n.
Proof.
  induction n as [|n IH]; [reflexivity|].
  change (zerosR (S n)) with (0 :: zerosR n). rewrite vscale_cons, IH. f_equal. lra.
Qed.

Lemma vsub_as_vadd x : forall y, vsubR x y = vaddR x (vscaleR (-1) y).
Proof.
  induction x as [|a x IH]; intros [|b y]; try reflexivity.
  change (vsubR (a :: x) (b :: y)) with (a - b :: vsubR x y).
  change (vaddR (a :: x) (vscaleR (-1) (b :: y))) with (a + -1 * b :: vaddR x (vscaleR (-1) y)).
  rewrite IH. f_equal. lra.
Qed.

Lemma dot_vsub_l u v x : length u = length v -> dotR (vsubR u v) x = dotR u x - dotR v x.
Proof.
  intros H. rewrite vsub_as_vadd, dot_vadd_l by (rewrite vscale_length; exact H).
  rewrite dot_vscale_l. lra.
Qed.
Lemma dot_vsub_r x u v : length u = length v -> dotR x (vsubR u v) = dotR x u - dotR x v.
Proof. intros H. rewrite dot_comm, dot_vsub_l, (dot_comm u), (dot_comm v) by exact H. reflexivity. Qed.

Lemma dot_app x1 : forall y1 x2 y2, length x1 = length y1 ->
  dotR (x1 ++ x2) (y1 ++ y2) = dotR x1 y1 + dotR x2 y2.
Proof.
  induction x1 as [|a x1 IH]; intros [|b y1] x2 y2 H; simpl in H; try discriminate.
  - simpl app. rewrite dot_nil_l. lra.
  - simpl app. rewrite !dot_cons, IH by lia. lra.
Qed.

Lemma vadd_vscale_distr c p : forall q, vaddR (vscaleR c p) (vscaleR c q) = vscaleR c (vaddR p q).
Proof.
  induction p as [|a p IH]; intros [|b q]; try reflexivity.
  change (vaddR (vscaleR c (a :: p)) (vscaleR c (b :: q)))
    with (c * a + c * b :: vaddR (vscaleR c p) (vscaleR c q)).
  change (vscaleR c (vaddR (a :: p) (b :: q))) with (c * (a + b) :: vscaleR c (vaddR p q)).
  rewrite IH. f_equal. lra.
Qed.

Lemma vsub_vsub x : forall a b, length x = length a -> length a = length b ->
  vsubR (vsubR x a) b = vsubR x (vaddR a b).
Proof.
  induction x as [|c x IH]; intros [|p a] [|q b] H1 H2; simpl in H1, H2; try discriminate; try reflexivity.
  change (vsubR (vsubR (c :: x) (p :: a)) (q :: b)) with (c - p - q :: vsubR (vsubR x a) b).
  change (vsubR (c :: x) (vaddR (p :: a) (q :: b))) with (c - (p + q) :: vsubR x (vaddR a b)).
  rewrite IH by lia. f_equal. lra.
Qed.
Lemma vsub_zeros x : vsubR x (zerosR (length x)) = x.
Proof.
  induction x as [|a x IH]; [reflexivity|].
  change (vsubR (a :: x) (zerosR (length (a :: x)))) with (a - 0 :: vsubR x (zerosR (length x))).
  rewrite IH. f_equal. lra.
Qed.

(* ---------- Kronecker products: rank-one tensors ---------- *)
Lemma kron_cons a x b : kronR (a :: x) b = vscaleR a b ++ kronR x b.
Proof. reflexivity. Qed.
Lemma kron_length x b : length (kronR x b) = (length x * length b)%nat.
Proof.
  induction x as [|a x IH]; [reflexivity|].
  rewrite kron_cons, app_length, vscale_length, IH. simpl. reflexivity.
Qed.
Lemma rank1_length u v w : length (rank1R u v w) = (length u * (length v * length w))%nat.
Proof. unfold rank1. rewrite !kron_length. reflexivity. Qed.

Lemma dot_kron a : forall c b d, length b = length d ->
  dotR (kronR a b) (kronR c d) = dotR a c * dotR b d.
Proof.
  induction a as [|x a IH]; intros [|y c] b d H.
  - cbn. lra.
  - cbn. lra.
  - rewrite dot_nil_r. change (kronR [] d) with (@nil R). rewrite dot_nil_r. lra.
  - rewrite !kron_cons, dot_app by (rewrite !vscale_length; exact H).
    rewrite IH by exact H. rewrite dot_vscale_l, dot_vscale_r, dot_cons. lra.
Qed.

(* ||u (x) v (x) w||^2 = ||u||^2 ||v||^2 ||w||^2 *)
Theorem rank_one_sqnorm u v w : sqnormR (rank1R u v w) = sqnormR u * sqnormR v * sqnormR w.
Proof.
  unfold sqnorm, rank1. rewrite dot_kron by reflexivity. rewrite dot_kron by reflexivity. lra.
Qed.
Theorem rank_one_unit u v w : sqnormR u = 1 -> sqnormR v = 1 -> sqnormR w = 1 ->
  sqnormR (rank1R u v w) = sqnormR u * sqnormR v * sqnormR w /\ sqnormR (rank1R u v w) = 1.
Proof. intros Hu Hv Hw. rewrite rank_one_sqnorm, Hu, Hv, Hw. split; lra. Qed.

(* <X, u(x)v(x)w> is trilinear; in particular the einsum "ijk,i,j,k" of the code *)
Lemma vdivs_vscale s x : s <> 0 -> vdivsR s x = vscaleR (/ s) x.
Proof.
  intros Hs. unfold vdivs, vscale. apply map_ext. intros a. cbn. rewrite Rdiv0_nz by exact Hs.
  unfold Rdiv. lra.
Qed.
Lemma vdivs_length s x : length (vdivsR s x) = length x.
Proof. apply map_length. Qed.

(* dividing a non-zero vector by (an oracle value of) its norm gives a unit vector *)
Theorem vdivs_unit s x : 0 < s -> s * s = sqnormR x -> sqnormR (vdivsR s x) = 1.
Proof.
  intros Hs E. unfold sqnorm in *. rewrite vdivs_vscale by lra.
  rewrite dot_vscale_l, dot_vscale_r, <- E. field. lra.
Qed.

Definition good_comp (c : rawcomp R) : Prop :=
  let '((u, v, w), (su, sv, sw)) := c in
  0 < su /\ 0 < sv /\ 0 < sw /\ su * su = sqnormR u /\ sv * sv = sqnormR v /\ sw * sw = sqnormR w.

(* every extracted component is a unit-norm rank-one tensor, whatever non-zero
   vectors the update step returned *)
Theorem unit_tensor_unit c : good_comp c ->
  sqnormR (unit_u opsR c) = 1 /\ sqnormR (unit_v opsR c) = 1 /\ sqnormR (unit_w opsR c) = 1 /\
  sqnormR (unit_tensor opsR c) = 1.
Proof.
  destruct c as [[[u v] w] [[su sv] sw]]. intros (H1 & H2 & H3 & E1 & E2 & E3).
  unfold unit_tensor, unit_u, unit_v, unit_w. cbn [fst snd].
  pose proof (vdivs_unit su u H1 E1) as U1. pose proof (vdivs_unit sv v H2 E2) as U2.
  pose proof (vdivs_unit sw w H3 E3) as U3.
  repeat split; try assumption. apply rank_one_unit; assumption.
Qed.

(* ---------- one deflation step ---------- *)
Lemma deflate1_length r e : length r = length e -> length (deflate1R r e) = length r.
Proof. intros H. unfold deflate1. rewrite vsub_length, vscale_length. lia. Qed.

Theorem deflation_energy r e : length r = length e -> sqnormR e = 1 ->
  sqnormR (deflate1R r e) = sqnormR r - dotR r e * dotR r e.
Proof.
  intros Hl He. unfold sqnorm, deflate1 in *.
  assert (Hl' : length r = length (vscaleR (dotR r e) e)) by (rewrite vscale_length; exact Hl).
  rewrite dot_vsub_l by exact Hl'. rewrite !dot_vsub_r by exact Hl'.
  rewrite !dot_vscale_l, !dot_vscale_r, He, (dot_comm e r). ring.
Qed.

(* the new residual is orthogonal to the extracted component *)
Theorem deflation_orthogonal r e : length r = length e -> sqnormR e = 1 ->
  dotR (deflate1R r e) e = 0.
Proof.
  intros Hl He. unfold sqnorm, deflate1 in *.
  rewrite dot_vsub_l by (rewrite vscale_length; exact Hl). rewrite dot_vscale_l, He. ring.
Qed.

(* the coefficient is the least-squares optimal one: any other coefficient leaves
   at least as much energy *)
Theorem deflation_optimal r e t : length r = length e -> sqnormR e = 1 ->
  sqnormR (deflate1R r e) <= sqnormR (vsubR r (vscaleR t e)).
Proof.
  intros Hl He. rewrite deflation_energy by assumption. unfold sqnorm in *.
  assert (Hl' : length r = length (vscaleR t e)) by (rewrite vscale_length; exact Hl).
  rewrite dot_vsub_l by exact Hl'. rewrite !dot_vsub_r by exact Hl'.
  rewrite !dot_vscale_l, !dot_vscale_r, He, (dot_comm e r).
  pose proof (Rle_0_sqr (t - dotR r e)) as H. unfold Rsqr in H. lra.
Qed.

(* ---------- the whole sequence ---------- *)
Lemma deflate_fold es : forall pre r,
  fold_left (deflate_step opsR) es (pre, r) =
  (pre ++ fst (fold_left (deflate_step opsR) es ([], r)), snd (fold_left (deflate_step opsR) es ([], r))).
Proof.
  induction es as [|e es IH]; intros pre r.
  - simpl. rewrite app_nil_r. reflexivity.
  - simpl. unfold deflate_step at 2 4 6. cbn [fst snd].
    rewrite (IH (pre ++ [dotR r e])), (IH ([] ++ [dotR r e])). cbn [fst snd].
    rewrite <- app_assoc. reflexivity.
Qed.

Lemma coefs_cons X e es : coefsR X (e :: es) = dotR X e :: coefsR (deflate1R X e) es.
Proof.
  unfold coefs, deflate_seq. simpl. unfold deflate_step at 2. cbn [fst snd].
  rewrite deflate_fold. reflexivity.
Qed.
Lemma residual_cons X e es : residualR X (e :: es) = residualR (deflate1R X e) es.
Proof.
  unfold residual, deflate_seq. simpl. unfold deflate_step at 2. cbn [fst snd].
  rewrite deflate_fold. reflexivity.
Qed.
Lemma coefs_nil X : coefsR X [] = [].
Proof. reflexivity. Qed.
Lemma residual_nil X : residualR X [] = X.
Proof. reflexivity. Qed.

Lemma coefs_length es : forall X, length (coefsR X es) = length es.
Proof. induction es as [|e es IH]; intros X; [reflexivity|]. rewrite coefs_cons. simpl. rewrite IH. reflexivity. Qed.

Lemma residual_app es1 : forall X es2, residualR X (es1 ++ es2) = residualR (residualR X es1) es2.
Proof.
  induction es1 as [|e es1 IH]; intros X es2; [reflexivity|].
  rewrite <- app_comm_cons, !residual_cons. apply IH.
Qed.
Lemma coefs_app es1 : forall X es2,
  coefsR X (es1 ++ es2) = coefsR X es1 ++ coefsR (residualR X es1) es2.
Proof.
  induction es1 as [|e es1 IH]; intros X es2; [reflexivity|].
  rewrite <- app_comm_cons, !coefs_cons, residual_cons, IH. reflexivity.
Qed.

Definition units (n : nat) (es : list (list R)) : Prop :=
  Forall (fun e => length e = n /\ sqnormR e = 1) es.

Lemma residual_length n es : forall X, length X = n -> units n es -> length (residualR X es) = n.
Proof.
  induction es as [|e es IH]; intros X HX Hu; [exact HX|].
  inversion Hu as [|? ? [Hl He] Hu']; subst. rewrite residual_cons. apply IH; [|exact Hu'].
  rewrite deflate1_length; congruence.
Qed.

(* ||r_K||^2 = ||X||^2 - sum_k c_k^2  for the algorithm's own residual sequence *)
Theorem residual_energy n es : forall X, length X = n -> units n es ->
  sqnormR (residualR X es) = sqnormR X - sqnormR (coefsR X es).
Proof.
  induction es as [|e es IH]; intros X HX Hu.
  - rewrite residual_nil, coefs_nil. unfold sqnorm. rewrite dot_nil_l. lra.
  - inversion Hu as [|? ? [Hl He] Hu']; subst.
    rewrite residual_cons, coefs_cons.
    rewrite IH; [|rewrite deflate1_length; congruence|exact Hu'].
    rewrite deflation_energy by congruence. unfold sqnorm at 4. rewrite dot_cons. unfold sqnorm. lra.
Qed.

Lemma recon_cons n c cs e es : reconR n (c :: cs) (e :: es) = vaddR (vscaleR c e) (reconR n cs es).
Proof. reflexivity. Qed.
Lemma recon_length n es : forall cs, Forall (fun e => length e = n) es -> length (reconR n cs es) = n.
Proof. intros cs H. unfold recon. apply mtv_length. exact H. Qed.

(* the final residual IS the data minus the rank-one reconstruction *)
Theorem residual_is_data_minus_recon n es : forall X, length X = n -> units n es ->
  residualR X es = vsubR X (reconR n (coefsR X es) es).
Proof.
  induction es as [|e es IH]; intros X HX Hu.
  - rewrite residual_nil, coefs_nil. unfold recon, mtv. simpl. rewrite <- HX, vsub_zeros. reflexivity.
  - inversion Hu as [|? ? [Hl He] Hu']; subst.
    assert (Hun : Forall (fun e0 => length e0 = length X) es).
    { eapply Forall_impl; [|exact Hu']. intros a [H _]. exact H. }
    rewrite residual_cons, coefs_cons, recon_cons.
    rewrite IH; [|rewrite deflate1_length; congruence|exact Hu'].
    unfold deflate1 at 1. rewrite vsub_vsub.
    + reflexivity.
    + rewrite vscale_length. congruence.
    + rewrite vscale_length, recon_length by exact Hun. exact Hl.
Qed.

(* the energy identity as the property states it *)
Theorem energy_identity n es X : length X = n -> units n es ->
  sqnormR (vsubR X (reconR n (coefsR X es) es)) = sqnormR X - sqnormR (coefsR X es).
Proof.
  intros HX Hu. rewrite <- residual_is_data_minus_recon by assumption.
  apply (residual_energy n); assumption.
Qed.

(* adding components never increases the error (and it is never negative) *)
Theorem error_nonincreasing n es1 es2 X : length X = n -> units n (es1 ++ es2) ->
  sqnormR (residualR X (es1 ++ es2)) <= sqnormR (residualR X es1).
Proof.
  intros HX Hu. unfold units in Hu. apply Forall_app in Hu. destruct Hu as [H1 H2].
  rewrite residual_app.
  rewrite (residual_energy n es2) by (try apply residual_length; assumption).
  pose proof (dot_self_nonneg (coefsR (residualR X es1) es2)) as Hn.
  fold (sqnormR (coefsR (residualR X es1) es2)) in Hn. lra.
Qed.
Lemma Forall_firstn_keep {A} (P : A -> Prop) k : forall l, Forall P l -> Forall P (firstn k l).
Proof.
  induction k as [|k IH]; intros [|a l] H; simpl; try constructor; inversion H; subst; auto.
Qed.
Theorem error_prefix_monotone n es X j k : length X = n -> units n es -> (j <= k)%nat ->
  sqnormR (residualR X (firstn k es)) <= sqnormR (residualR X (firstn j es)).
Proof.
  intros HX Hu Hjk.
  replace (firstn j es) with (firstn j (firstn k es)).
  2:{ rewrite firstn_firstn. f_equal. lia. }
  rewrite <- (firstn_skipn j (firstn k es)) at 1.
  apply (error_nonincreasing n); [exact HX|].
  rewrite firstn_skipn. apply Forall_firstn_keep. exact Hu.
Qed.
Theorem bessel n es X : length X = n -> units n es -> sqnormR (coefsR X es) <= sqnormR X.
Proof.
  intros HX Hu. pose proof (residual_energy n es X HX Hu) as H.
  pose proof (dot_self_nonneg (residualR X es)). unfold sqnorm in *. lra.
Qed.

(* the algorithm: raw vectors from the update oracle, normalised, then deflated *)
Lemma unit_tensors_units n1 n2 n3 comps :
  Forall (fun c => good_comp c /\ length (fst (fst (fst c))) = n1 /\
                   length (snd (fst (fst c))) = n2 /\ length (snd (fst c)) = n3) comps ->
  units (n1 * (n2 * n3)) (map (unit_tensor opsR) comps).
Proof.
  intros H. unfold units. apply Forall_map. eapply Forall_impl; [|exact H].
  intros c (Hg & L1 & L2 & L3). split.
  - unfold unit_tensor. rewrite rank1_length. unfold unit_u, unit_v, unit_w.
    rewrite !vdivs_length. congruence.
  - apply unit_tensor_unit. exact Hg.
Qed.

Theorem fit_energy_identity n1 n2 n3 comps X :
  length X = (n1 * (n2 * n3))%nat ->
  Forall (fun c => good_comp c /\ length (fst (fst (fst c))) = n1 /\
                   length (snd (fst (fst c))) = n2 /\ length (snd (fst c)) = n3) comps ->
  let cs := fst (fit_num opsR X comps) in
  let es := map (unit_tensor opsR) comps in
  snd (fit_num opsR X comps) = vsubR X (reconR (n1 * (n2 * n3)) cs es) /\
  sqnormR (vsubR X (reconR (n1 * (n2 * n3)) cs es)) = sqnormR X - sqnormR cs /\
  0 <= sqnormR X - sqnormR cs.
Proof.
  intros HX Hc cs es. pose proof (unit_tensors_units _ _ _ _ Hc) as Hu.
  repeat split.
  - apply (residual_is_data_minus_recon _ _ _ HX Hu).
  - apply (energy_identity _ _ _ HX Hu).
  - pose proof (bessel _ _ _ HX Hu). unfold cs, fit_num, coefs in *. lra.
Qed.

(* ---------- scores and eigenimages reproduce the rank-one reconstruction ---------- *)
Lemma concat_outer v w : concat (outer opsR v w) = kronR v w.
Proof. unfold outer, kron. rewrite flat_map_concat_map. reflexivity. Qed.

Lemma kron_vscale_l c u : forall b, kronR (vscaleR c u) b = vscaleR c (kronR u b).
Proof.
  induction u as [|x u IH]; intros b; [reflexivity|].
  rewrite vscale_cons, !kron_cons, vscale_app, IH, vscale_vscale. reflexivity.
Qed.
Lemma kron_vscale_r c u : forall b, kronR u (vscaleR c b) = vscaleR c (kronR u b).
Proof.
  induction u as [|x u IH]; intros b; [reflexivity|].
  rewrite !kron_cons, vscale_app, IH, !vscale_vscale. f_equal. f_equal. lra.
Qed.

Theorem scores_reconstruct n comps : forall cs,
  recon_scores opsR n (score_cols opsR cs (map (unit_u opsR) comps))
               (map (fun c => concat (eigenimage opsR (unit_v opsR c) (unit_w opsR c))) comps) =
  reconR n cs (map (unit_tensor opsR) comps).
Proof.
  induction comps as [|c comps IH]; intros [|a cs]; try reflexivity.
  unfold recon_scores, score_cols in *. simpl map. cbn [map2 fold_right].
  rewrite recon_cons. rewrite IH. f_equal.
  unfold eigenimage. rewrite concat_outer, kron_vscale_l. reflexivity.
Qed.

(* ---------- the normalize option ---------- *)
Theorem normalize_keeps_reconstruction n ns : forall S imgs,
  Forall (fun s => s <> 0) ns -> length ns = length S ->
  recon_scores opsR n (norm_scores opsR ns S) (norm_images_flat opsR ns imgs) =
  recon_scores opsR n S imgs.
Proof.
  induction ns as [|s ns IH]; intros [|Sk S] [|img imgs] Hs Hl; simpl in Hl; try discriminate; try reflexivity.
  inversion Hs as [|? ? Hs1 Hs2]; subst.
  unfold recon_scores, norm_scores, norm_images_flat in *. cbn [map2 fold_right].
  rewrite IH by (try assumption; lia). f_equal.
  rewrite vdivs_vscale by exact Hs1.
  rewrite kron_vscale_l, kron_vscale_r, vscale_vscale.
  replace (s * / s) with 1 by (field; exact Hs1). apply vscale_one.
Qed.

(* normalising the matrix and flattening commute *)
Lemma concat_norm_image s F : concat (norm_image opsR s F) = vdivsR s (concat F).
Proof. unfold norm_image, vdivs. rewrite concat_map. reflexivity. Qed.

Lemma map_lin_vscale (h : R -> R) c z : (forall s, h (c * s) = c * h s) ->
  map h (vscaleR c z) = vscaleR c (map h z).
Proof. intros H. unfold vscale. rewrite !map_map. apply map_ext. intros s. apply H. Qed.

Lemma trapz_rows_mscale c x : forall Y n,
  trapz_rows opsR x (mscaleR c Y) n = vscaleR c (trapz_rows opsR x Y n).
Proof.
  induction x as [|a x IH]; intros Y n.
  - cbn [trapz_rows]. symmetry. apply vscale_zeros.
  - destruct x as [|b x].
    + cbn [trapz_rows]. symmetry. apply vscale_zeros.
    + destruct Y as [|ya [|yb Y]]; try (cbn [trapz_rows mscale map]; symmetry; apply vscale_zeros).
      change (mscaleR c (ya :: yb :: Y)) with (vscaleR c ya :: vscaleR c yb :: mscaleR c Y).
      rewrite !trapz_rows_cons2.
      change (vscaleR c yb :: mscaleR c Y) with (mscaleR c (yb :: Y)).
      rewrite IH, vadd_vscale_distr, map_lin_vscale, vadd_vscale_distr; [reflexivity|].
      intros s. rewrite !ohalfR. cbn. lra.
Qed.

Lemma trapz2_mscale c x1 x2 Y : trapz2 opsR x1 x2 (mscaleR c Y) = c * trapz2 opsR x1 x2 Y.
Proof. unfold trapz2. rewrite trapz_rows_mscale. apply trapz_vscale. Qed.

Lemma vmul_vscale2 c f : forall g, vmulR (vscaleR c f) (vscaleR c g) = vscaleR (c * c) (vmulR f g).
Proof.
  induction f as [|a f IH]; intros [|b g]; try reflexivity.
  change (vmulR (vscaleR c (a :: f)) (vscaleR c (b :: g)))
    with (c * a * (c * b) :: vmulR (vscaleR c f) (vscaleR c g)).
  change (vscaleR (c * c) (vmulR (a :: f) (b :: g))) with (c * c * (a * b) :: vscaleR (c * c) (vmulR f g)).
  rewrite IH. f_equal. lra.
Qed.

Theorem image_normsq_homogeneous c x1 x2 F :
  image_normsq opsR x1 x2 (mscaleR c F) = c * c * image_normsq opsR x1 x2 F.
Proof.
  unfold image_normsq, inner2. rewrite <- trapz2_mscale. f_equal.
  induction F as [|f F IH]; [reflexivity|].
  change (mscaleR c (f :: F)) with (vscaleR c f :: mscaleR c F). cbn [map2].
  rewrite IH, vmul_vscale2. reflexivity.
Qed.

(* after the normalize option every eigenimage has unit L2 (trapezoid) norm *)
Theorem normalize_unit_L2 s x1 x2 F : 0 < s -> s * s = image_normsq opsR x1 x2 F ->
  image_normsq opsR x1 x2 (norm_image opsR s F) = 1.
Proof.
  intros Hs E. replace (norm_image opsR s F) with (mscaleR (/ s) F).
  - rewrite image_normsq_homogeneous, <- E. field. lra.
  - unfold norm_image, mscale. apply map_ext. intros r. symmetry. apply vdivs_vscale. lra.
Qed.

(* ---------- transfer: the Q run is the R model on the same numbers ---------- *)
Theorem deflate_seq_transfer (X : list Q) (es : list (list Q)) :
  deflate_seq opsR (map Q2R X) (map (map Q2R) es) =
  (map Q2R (fst (deflate_seq opsQ X es)), map Q2R (snd (deflate_seq opsQ X es))).
Proof.
  pose proof (deflate_seq_R Q R QR opsQ opsR opsQR X _ (list_QR X) es _ (llist_QR es)) as H.
  destruct H as [a b ra c d rc]. cbn [fst snd].
  apply list_QR_inv in ra. apply list_QR_inv in rc. subst. reflexivity.
Qed.
