(* Lemmas/ArithMore.v — neutral scalars (C12): a + 0, a - 0, a * 1, a / 1 have the values of a (the RESULT is nevertheless
   a new object in the implementation — aliasing is the subject of the correspondence run's neutral-scalar monitor). *)
From Coq Require Import List Reals Lra.
From FDAV Require Import Base.Num Model.Arith Lemmas.Arith.
Import ListNotations.
Local Open Scope R_scope.

Lemma scalar_neutral (f : bop) (c : R) (a : fd R) :
  (forall x, apply_bop opsR f x c = x) -> scalar_op opsR f a c = a.
Proof.
  intro H. apply fd_ext; [apply scalar_kind|apply scalar_sampling|].
  rewrite scalar_values. rewrite <- (map_id (values a)) at 2. apply map_ext. intros r.
  rewrite <- (map_id r) at 2. apply map_ext. intros x. apply H.
Qed.

Theorem add_zero (a : fd R) : scalar_op opsR Add a 0 = a.
Proof. apply scalar_neutral. intro x. rewrite apply_addR. lra. Qed.
Theorem sub_zero (a : fd R) : scalar_op opsR Sub a 0 = a.
Proof. apply scalar_neutral. intro x. rewrite apply_subR. lra. Qed.
Theorem div_one (a : fd R) : scalar_op opsR Div a 1 = a.
Proof.
  apply scalar_neutral. intro x. cbn [apply_bop odiv opsR]. unfold Rdiv0.
  destruct (Req_EM_T 1 0) as [E|_]; [lra|]. field.
Qed.
