(* Lemmas/Normalize.v — proofs about Model/Normalize.v (C11). *)
From Coq Require Import List Bool QArith Qminmax.
From FDAV Require Import Model.Normalize.
Import ListNotations.
Local Open Scope Q_scope.

Lemma nth_map_in_range : forall (A B : Type) (f : A -> B) (l : list A) (i : nat) (d : A) (e : B),
  (i < length l)%nat -> nth i (map f l) e = f (nth i l d).
Proof.
  intros A B f l i d e H. rewrite (nth_indep (map f l) e (f d)) by now rewrite map_length.
  apply map_nth.
Qed.

(* the subset has the parent's range  ==>  restriction and normalisation commute *)
Theorem norm_select_same_range : forall idx obs,
  Forall (fun i => (i < length obs)%nat) idx ->
  gmin (select idx obs) = gmin obs -> gmax (select idx obs) = gmax obs ->
  norm_irr (select idx obs) = select idx (norm_irr obs).
Proof.
  intros idx obs Hin Hmin Hmax. unfold norm_irr. rewrite Hmin, Hmax. unfold select. rewrite map_map.
  apply map_ext_in. intros i Hi. rewrite Forall_forall in Hin.
  symmetry. apply nth_map_in_range. now apply Hin.
Qed.

(* shape: one standardised observation per observation, of the same length unless the range is a point *)
Theorem norm_irr_length : forall obs, length (norm_irr obs) = length obs.
Proof. intro obs. unfold norm_irr. apply map_length. Qed.
Theorem norm_irr_npoints : forall obs, Qeq_bool (gmin obs) (gmax obs) = false ->
  map (@length Q) (norm_irr obs) = map (@length Q) obs.
Proof.
  intros obs H. unfold norm_irr. rewrite map_map. apply map_ext. intro xs.
  unfold norm_with. rewrite H. apply map_length.
Qed.

Theorem norm_select_refuted :
  norm_irr (select [1%nat] c11_parent) = [[0; 1 # 2; 1]] /\
  select [1%nat] (norm_irr c11_parent) = [[1 # 4; 1 # 2; 3 # 4]] /\
  norm_irr (select [1%nat] c11_parent) <> select [1%nat] (norm_irr c11_parent) /\
  (* ... and a subset holding both end points keeps the parent's standardisation *)
  norm_irr (select [2%nat; 0%nat] c11_parent) = select [2%nat; 0%nat] (norm_irr c11_parent).
Proof. vm_compute. repeat split; discriminate. Qed.

