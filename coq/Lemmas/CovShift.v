(* Lemmas/CovShift.v — the sample covariance does not depend on the level of the curves (C09):
   adding the same function c to every curve leaves the centred curves, hence the covariance, unchanged. *)
From Coq Require Import List Bool Reals Lra Lia Arith.
From FDAV Require Import Base.Num Base.Vec Model.Stats Lemmas.Vec Lemmas.Gram Lemmas.Stats Lemmas.Scores.
Import ListNotations.
Local Open Scope R_scope.

Lemma colsum_shift m (c : list R) : length c = m -> forall X, Forall (fun r => length r = m) X ->
  colsum opsR m (map (fun r => vaddR r c) X) = vaddR (colsum opsR m X) (vscaleR (INR (length X)) c).
Proof.
  intros Hc X HX. induction HX as [|r X Hr HX IH].
  - unfold colsum. cbn [map fold_right length INR].
    apply list_eq_nth; [rewrite vadd_length, vscale_length, zeros_length, Hc; lia|].
    intros j Hj. rewrite zeros_length in Hj.
    rewrite nth_vadd by (rewrite ?zeros_length, ?vscale_length, ?Hc; lia).
    rewrite nth_zeros, nth_vscale by (rewrite Hc; lia). lra.
  - unfold colsum in *. cbn [map fold_right]. rewrite IH.
    pose proof (colsum_length m X HX) as LS. unfold colsum in LS.
    apply list_eq_nth.
    + rewrite !vadd_length, !vscale_length, !LS, !Hr, !Hc. lia.
    + intros j Hj. rewrite !vadd_length, !vscale_length, !LS, !Hr, !Hc in Hj.
      assert (j < m)%nat by lia.
      repeat (rewrite nth_vadd by (rewrite ?vadd_length, ?vscale_length, ?LS, ?Hr, ?Hc; lia)).
      rewrite !nth_vscale by (rewrite Hc; lia). cbn [length]. rewrite S_INR. lra.
Qed.

Theorem center_shift m (c : list R) X : X <> [] -> length c = m -> Forall (fun r => length r = m) X ->
  center opsR m (map (fun r => vaddR r c) X) = center opsR m X.
Proof.
  intros Hne Hc HX. unfold center, center_rows, colmean. rewrite map_map, map_length.
  rewrite (colsum_shift m c Hc X HX).
  pose proof (colsum_length m X HX) as LS.
  assert (Nn : INR (length X) <> 0).
  { destruct X as [|r0 X0]; [contradiction|]. cbn [length]. rewrite S_INR. pose proof (pos_INR (length X0)). lra. }
  apply map_ext_in. intros r Hr. rewrite Forall_forall in HX. specialize (HX r Hr).
  unfold vsub. apply list_eq_nth.
  - rewrite !map2_length, !map_length, !vadd_length, vscale_length, LS, HX, Hc. lia.
  - intros j Hj. rewrite map2_length, map_length, !vadd_length, vscale_length, LS, HX, Hc in Hj.
    assert (Hjm : (j < m)%nat) by lia.
    rewrite !(nth_map2 _ _ _ j 0 0 0) by (rewrite ?map_length, ?vadd_length, ?vscale_length, ?LS, ?HX, ?Hc; lia).
    rewrite !(nth_map_in _ _ j 0 0) by (rewrite ?vadd_length, ?vscale_length, ?LS, ?Hc; lia).
    rewrite !nth_vadd by (rewrite ?vscale_length, ?LS, ?HX, ?Hc; lia).
    rewrite nth_vscale by (rewrite Hc; lia).
    rewrite !oofnatR, !odivR by exact Nn. cbn [osub oadd oopp opsR]. unfold osub. cbn [oadd oopp opsR]. field. exact Nn.
Qed.

Theorem cov_shift m (c : list R) X : X <> [] -> length c = m -> Forall (fun r => length r = m) X ->
  cov opsR m (map (fun r => vaddR r c) X) = cov opsR m X.
Proof.
  intros Hne Hc HX. unfold cov. rewrite map_length.
  pose proof (center_shift m c X Hne Hc HX) as E. unfold center in E. rewrite E. reflexivity.
Qed.
