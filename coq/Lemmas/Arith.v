(* Lemmas/Arith.v — proofs about Model/Arith.v at the real instance (property C12). *)
From Coq Require Import List Bool Reals Lra Lia QArith.
From FDAV Require Import Base.Num Base.Vec Model.Arith.
Import ListNotations.
Local Open Scope R_scope.

(* ------------------------------------------------------------ all2b, map2 *)
Lemma all2b_Forall2 {A B} (f : A -> B -> bool) l : forall m,
  all2b f l m = true <-> Forall2 (fun a b => f a b = true) l m.
Proof.
  induction l as [|a l IH]; intros [|b m]; simpl; split; intros H;
    try discriminate; try constructor; try (inversion H; fail).
  - apply andb_true_iff in H. apply H.
  - apply IH. apply andb_true_iff in H. apply H.
  - inversion H; subst. apply andb_true_iff. split; [assumption|apply IH; assumption].
Qed.
Lemma all2b_eq {A} (f : A -> A -> bool) :
  (forall a b, f a b = true <-> a = b) -> forall l m, all2b f l m = true <-> l = m.
Proof.
  intros Hf l m. rewrite all2b_Forall2. split.
  - induction 1 as [|a b l m H _ IH]; [reflexivity|]. apply Hf in H. congruence.
  - intros <-. induction l; constructor; [apply Hf; reflexivity|assumption].
Qed.
Lemma vec_eqb_eq u v : vec_eqb opsR u v = true <-> u = v.
Proof. apply all2b_eq. intros a b. apply Reqb_true. Qed.
Lemma args_eqb_eq u v : args_eqb opsR u v = true <-> u = v.
Proof. apply all2b_eq. exact vec_eqb_eq. Qed.
Lemma sampling_eqb_eq a b : sampling_eqb opsR a b = true <-> sampling a = sampling b.
Proof. apply all2b_eq. exact args_eqb_eq. Qed.

Lemma map2_len {A B C} (f : A -> B -> C) x : forall y, length (map2 f x y) = Nat.min (length x) (length y).
Proof. induction x as [|a x IH]; intros [|b y]; simpl; auto. Qed.
Lemma map2_nth {A B C} (f : A -> B -> C) x : forall y i da db dc,
  (i < length x)%nat -> (i < length y)%nat -> nth i (map2 f x y) dc = f (nth i x da) (nth i y db).
Proof.
  induction x as [|a x IH]; intros [|b y] [|i] da db dc Hx Hy; simpl in *; try lia; try reflexivity.
  apply IH; lia.
Qed.
Lemma map2_comm {A C} (f : A -> A -> C) : (forall x y, f x y = f y x) ->
  forall l m, map2 f l m = map2 f m l.
Proof. intros Hf. induction l as [|a l IH]; intros [|b m]; simpl; try reflexivity. rewrite Hf, IH. reflexivity. Qed.
Lemma map2_map_distr {A} (f : A -> A -> A) (g : A -> A) :
  (forall x y, f (g x) (g y) = g (f x y)) ->
  forall l m, map2 f (map g l) (map g m) = map g (map2 f l m).
Proof. intros H. induction l as [|a l IH]; intros [|b m]; simpl; try reflexivity. rewrite H, IH. reflexivity. Qed.
Lemma map_fst_map2 {A B C} (g : A * B -> A * C -> B) (l : list (A * B)) : forall (m : list (A * C)),
  length l = length m -> map fst (map2 (fun x y => (fst x, g x y)) l m) = map fst l.
Proof.
  induction l as [|a l IH]; intros [|b m] H; simpl in *; try discriminate; try reflexivity.
  f_equal. apply IH. lia.
Qed.
Lemma map_snd_map2 {A B} (g : B -> B -> B) (l : list (A * B)) : forall (m : list (A * B)),
  map snd (map2 (fun x y => (fst x, g (snd x) (snd y))) l m) = map2 g (map snd l) (map snd m).
Proof. induction l as [|a l IH]; intros [|b m]; simpl; try reflexivity. f_equal. apply IH. Qed.
Lemma fst_snd_ext {A B} (l m : list (A * B)) : map fst l = map fst m -> map snd l = map snd m -> l = m.
Proof.
  revert m. induction l as [|[a b] l IH]; intros [|[a' b'] m] H1 H2; simpl in *; try discriminate; try reflexivity.
  inversion H1; inversion H2; subst. f_equal. apply IH; assumption.
Qed.

(* ------------------------------------------------------- the real instance *)
Lemma oabsR a : oabs opsR a = Rabs a.
Proof.
  unfold oabs. cbn [oleb o0 oopp opsR]. destruct (Rleb 0 a) eqn:E.
  - apply Rleb_true in E. rewrite Rabs_right; [reflexivity|lra].
  - apply Rleb_false in E. rewrite Rabs_left; [reflexivity|lra].
Qed.
Lemma closeR rtol atol x y :
  close opsR rtol atol x y = true <-> Rabs (x - y) <= atol + rtol * Rabs y.
Proof.
  unfold close. rewrite !oabsR. cbn [oleb oadd omul opsR]. rewrite Rleb_true.
  change (osub opsR x y) with (x - y). reflexivity.
Qed.
Lemma apply_addR x y : apply_bop opsR Add x y = x + y. Proof. reflexivity. Qed.
Lemma apply_subR x y : apply_bop opsR Sub x y = x - y. Proof. reflexivity. Qed.
Lemma apply_mulR x y : apply_bop opsR Mul x y = x * y. Proof. reflexivity. Qed.

(* ------------------------------------------------ structure of a dataset *)
Lemma same_kind_refl {T} (a : fd T) : same_kind a a = true.
Proof. destruct a; reflexivity. Qed.
Lemma same_kind_sym {T} (a b : fd T) : same_kind a b = same_kind b a.
Proof. destruct a, b; reflexivity. Qed.
Lemma same_kind_trans {T} (a b c : fd T) : same_kind a b = true -> same_kind b c = true -> same_kind a c = true.
Proof. destruct a, b, c; simpl; auto. Qed.
Lemma n_dim_sampling {T} (a : fd T) : n_dim a = length (hd [] (sampling a)).
Proof. destruct a as [ar av|[|x ob]]; reflexivity. Qed.
Lemma n_obs_values {T} (a : fd T) : n_obs a = length (values a).
Proof. destruct a; simpl; [reflexivity|rewrite map_length; reflexivity]. Qed.

(* a dataset is its kind, its sampling points and its values *)
Lemma fd_ext {T} (a b : fd T) :
  same_kind a b = true -> sampling a = sampling b -> values a = values b -> a = b.
Proof.
  destruct a as [ar av|ao], b as [br bv|bo]; simpl; try discriminate; intros _ Hs Hv.
  - inversion Hs; subst. reflexivity.
  - f_equal. apply fst_snd_ext; assumption.
Qed.

Section Combine.
  Context {T : Type} (o : ops T).
  Lemma combine_kind f (a b : fd T) : same_kind a b = true -> same_kind (combine_vals o f a b) a = true.
  Proof. destruct a, b; simpl; try discriminate; reflexivity. Qed.
  Lemma combine_values f (a b : fd T) : same_kind a b = true ->
    values (combine_vals o f a b) = map2 (map2 (apply_bop o f)) (values a) (values b).
  Proof. destruct a, b; simpl; try discriminate; intros _; [reflexivity|apply map_snd_map2]. Qed.
  Lemma combine_sampling f (a b : fd T) : same_kind a b = true -> n_obs a = n_obs b ->
    sampling (combine_vals o f a b) = sampling a.
  Proof.
    destruct a as [ar av|ao], b as [br bv|bo]; simpl; try discriminate; intros _ H; [reflexivity|].
    apply (map_fst_map2 (fun x y => map2 (apply_bop o f) (snd x) (snd y))). exact H.
  Qed.
  Lemma scalar_kind f (a : fd T) c : same_kind (scalar_op o f a c) a = true.
  Proof. destruct a; reflexivity. Qed.
  Lemma scalar_sampling f (a : fd T) c : sampling (scalar_op o f a c) = sampling a.
  Proof. destruct a as [ar av|ao]; simpl; [reflexivity|]. rewrite map_map. reflexivity. Qed.
  Lemma scalar_values f (a : fd T) c :
    values (scalar_op o f a c) = map (map (fun x => apply_bop o f x c)) (values a).
  Proof. destruct a as [ar av|ao]; simpl; [reflexivity|]. rewrite !map_map. reflexivity. Qed.
End Combine.

(* --------------------------------------------- the guard of the operators *)
Lemma binop_inv f (a b r : fd R) : binop opsR f a b = Res r ->
  same_kind a b = true /\ n_obs a = n_obs b /\ n_dim a = n_dim b /\ sampling a = sampling b /\
  r = combine_vals opsR f a b.
Proof.
  unfold binop, compatible.
  destruct (same_kind a b) eqn:K; [|discriminate].
  destruct (Nat.eqb (n_obs a) (n_obs b)) eqn:N; [|discriminate].
  destruct (Nat.eqb (n_dim a) (n_dim b)) eqn:D; [|discriminate].
  destruct (sampling_eqb opsR a b) eqn:S; [|discriminate].
  simpl. intros H; inversion H; subst.
  apply Nat.eqb_eq in N. apply Nat.eqb_eq in D. apply sampling_eqb_eq in S. auto.
Qed.
Lemma binop_ok f (a b : fd R) :
  same_kind a b = true -> n_obs a = n_obs b -> sampling a = sampling b ->
  binop opsR f a b = Res (combine_vals opsR f a b).
Proof.
  intros K N S. unfold binop, compatible. rewrite K. simpl.
  rewrite N, Nat.eqb_refl. simpl.
  rewrite !n_dim_sampling, S, Nat.eqb_refl. simpl.
  apply sampling_eqb_eq in S. rewrite S. reflexivity.
Qed.

(* ============================================================== theorems *)
(* the result is the pointwise combination, on the sampling points and with the type of the
   left operand *)
Theorem binop_pointwise f (a b r : fd R) : binop opsR f a b = Res r ->
  values r = map2 (map2 (apply_bop opsR f)) (values a) (values b).
Proof. intros H. apply binop_inv in H. destruct H as (K & _ & _ & _ & ->). apply combine_values. exact K. Qed.
Theorem binop_pointwise_entry f (a b r : fd R) i j : binop opsR f a b = Res r ->
  (i < n_obs a)%nat -> (j < length (nth i (values a) []))%nat -> (j < length (nth i (values b) []))%nat ->
  nth j (nth i (values r) []) 0 =
  apply_bop opsR f (nth j (nth i (values a) []) 0) (nth j (nth i (values b) []) 0).
Proof.
  intros H Hi Hj Hj'. rewrite (binop_pointwise _ _ _ _ H).
  apply binop_inv in H. destruct H as (_ & N & _).
  rewrite !n_obs_values in *.
  rewrite (map2_nth _ _ _ i [] [] []) by lia. apply map2_nth; assumption.
Qed.
Theorem binop_keeps_argvals_type f (a b r : fd R) : binop opsR f a b = Res r ->
  same_kind r a = true /\ sampling r = sampling a /\ n_obs r = n_obs a.
Proof.
  intros H. apply binop_inv in H. destruct H as (K & N & _ & _ & ->).
  split; [apply combine_kind; exact K|]. split; [apply combine_sampling; assumption|].
  rewrite !n_obs_values, combine_values, map2_len by exact K. rewrite !n_obs_values in N. lia.
Qed.
(* operands are values in the model; the operation hands them back unchanged *)
Theorem operands_untouched f (a b : fd R) :
  fst (fst (binop_full opsR f a b)) = a /\ snd (fst (binop_full opsR f a b)) = b.
Proof. split; reflexivity. Qed.
Theorem scalar_keeps_argvals_type f (a : fd R) c :
  same_kind (scalar_op opsR f a c) a = true /\ sampling (scalar_op opsR f a c) = sampling a /\
  values (scalar_op opsR f a c) = map (map (fun x => apply_bop opsR f x c)) (values a).
Proof. split; [apply scalar_kind|]. split; [apply scalar_sampling|apply scalar_values]. Qed.

(* --- incompatible operands are rejected, one theorem per way of being incompatible --- *)
Theorem incompatible_type f (a b : fd R) : same_kind a b = false -> binop opsR f a b = ErrType.
Proof. intros K. unfold binop, compatible. rewrite K. reflexivity. Qed.
Theorem incompatible_nobs f (a b : fd R) : same_kind a b = true -> n_obs a <> n_obs b ->
  binop opsR f a b = ErrValue.
Proof.
  intros K N. unfold binop, compatible. rewrite K. simpl.
  apply Nat.eqb_neq in N. rewrite N. reflexivity.
Qed.
Theorem incompatible_dimension f (a b : fd R) : same_kind a b = true -> n_dim a <> n_dim b ->
  binop opsR f a b = ErrValue.
Proof.
  intros K D. unfold binop, compatible. rewrite K. simpl.
  destruct (Nat.eqb (n_obs a) (n_obs b)); [|reflexivity]. simpl.
  apply Nat.eqb_neq in D. rewrite D. reflexivity.
Qed.
Theorem incompatible_sampling f (a b : fd R) : same_kind a b = true -> sampling a <> sampling b ->
  binop opsR f a b = ErrValue.
Proof.
  intros K S. unfold binop, compatible. rewrite K. simpl.
  destruct (Nat.eqb (n_obs a) (n_obs b)); [|reflexivity]. simpl.
  destruct (Nat.eqb (n_dim a) (n_dim b)); [|reflexivity]. simpl.
  destruct (sampling_eqb opsR a b) eqn:E; [|reflexivity].
  apply sampling_eqb_eq in E. contradiction.
Qed.
Theorem binop_guard f (a b r : fd R) : binop opsR f a b = Res r ->
  same_kind a b = true /\ n_obs a = n_obs b /\ n_dim a = n_dim b /\ sampling a = sampling b.
Proof. intros H. apply binop_inv in H. tauto. Qed.

(* --- the usual identities (exact arithmetic) --- *)
Definition shape_eq {T} (a b : fd T) : Prop :=
  Forall2 (fun r s => length r = length s) (values a) (values b).

Lemma add_sub_rows (u : list R) : forall v, length u = length v ->
  map2 (apply_bop opsR Sub) (map2 (apply_bop opsR Add) u v) v = u.
Proof.
  induction u as [|x u IH]; intros [|y v] H; simpl in *; try discriminate; try reflexivity.
  rewrite IH by lia. f_equal. lra.
Qed.
Lemma add_sub_vals (U : list (list R)) : forall V, Forall2 (fun r s => length r = length s) U V ->
  map2 (map2 (apply_bop opsR Sub)) (map2 (map2 (apply_bop opsR Add)) U V) V = U.
Proof.
  intros V H. induction H as [|u v U V Huv _ IH]; simpl; [reflexivity|].
  rewrite IH, add_sub_rows by exact Huv. reflexivity.
Qed.

Theorem add_sub_cancel (a b s : fd R) : shape_eq a b ->
  binop opsR Add a b = Res s -> binop opsR Sub s b = Res a.
Proof.
  intros Sh H. pose proof (binop_keeps_argvals_type _ _ _ _ H) as (Ks & Ss & Ns).
  pose proof (binop_pointwise _ _ _ _ H) as Vs.
  apply binop_inv in H. destruct H as (K & N & _ & S & _).
  assert (Ksb : same_kind s b = true) by (eapply same_kind_trans; eauto).
  rewrite (binop_ok Sub s b Ksb) by congruence. f_equal.
  apply fd_ext.
  - eapply same_kind_trans; [apply combine_kind; exact Ksb|exact Ks].
  - rewrite combine_sampling by (try exact Ksb; congruence). exact Ss.
  - rewrite combine_values by exact Ksb. rewrite Vs. apply add_sub_vals. exact Sh.
Qed.

Theorem mul_one (a : fd R) : scalar_op opsR Mul a 1 = a.
Proof.
  apply fd_ext; [apply scalar_kind|apply scalar_sampling|].
  rewrite scalar_values. rewrite <- (map_id (values a)) at 2. apply map_ext. intros r.
  rewrite <- (map_id r) at 2. apply map_ext. intros x. rewrite apply_mulR. lra.
Qed.

Lemma binop_comm_gen f (a b r : fd R) : (forall x y, apply_bop opsR f x y = apply_bop opsR f y x) ->
  binop opsR f a b = Res r -> binop opsR f b a = Res r.
Proof.
  intros Hf H. pose proof (binop_keeps_argvals_type _ _ _ _ H) as (Kr & Sr & Nr).
  pose proof (binop_pointwise _ _ _ _ H) as Vr.
  apply binop_inv in H. destruct H as (K & N & _ & S & _).
  assert (K' : same_kind b a = true) by (rewrite same_kind_sym; exact K).
  rewrite (binop_ok f b a K') by congruence. f_equal. symmetry. apply fd_ext.
  - rewrite same_kind_sym. eapply same_kind_trans; [apply combine_kind; exact K'|].
    rewrite same_kind_sym. eapply same_kind_trans; [exact Kr|exact K].
  - rewrite combine_sampling by (try exact K'; congruence). congruence.
  - rewrite combine_values by exact K'. rewrite Vr. apply map2_comm. intros u v. apply map2_comm. exact Hf.
Qed.
Theorem add_comm (a b r : fd R) : binop opsR Add a b = Res r -> binop opsR Add b a = Res r.
Proof. apply binop_comm_gen. intros x y. cbn [apply_bop oadd opsR]. lra. Qed.
Theorem mul_comm (a b r : fd R) : binop opsR Mul a b = Res r -> binop opsR Mul b a = Res r.
Proof. apply binop_comm_gen. intros x y. cbn [apply_bop omul opsR]. lra. Qed.

(* c*(a+b) = c*a + c*b   (c*x is x.__rmul__(c) = x*c) *)
Theorem scalar_distributes (a b s : fd R) c : binop opsR Add a b = Res s ->
  binop opsR Add (scalar_op opsR Mul a c) (scalar_op opsR Mul b c) = Res (scalar_op opsR Mul s c).
Proof.
  intros H. pose proof (binop_keeps_argvals_type _ _ _ _ H) as (Ks & Ss & Ns).
  pose proof (binop_pointwise _ _ _ _ H) as Vs.
  apply binop_inv in H. destruct H as (K & N & _ & S & _).
  set (a' := scalar_op opsR Mul a c). set (b' := scalar_op opsR Mul b c).
  assert (K' : same_kind a' b' = true).
  { eapply same_kind_trans; [apply scalar_kind|]. eapply same_kind_trans; [exact K|].
    rewrite same_kind_sym. apply scalar_kind. }
  assert (N' : n_obs a' = n_obs b').
  { unfold a', b'. rewrite !n_obs_values, !scalar_values, !map_length. rewrite <- !n_obs_values. exact N. }
  assert (S' : sampling a' = sampling b') by (unfold a', b'; rewrite !scalar_sampling; exact S).
  rewrite (binop_ok Add a' b' K' N' S'). f_equal. apply fd_ext.
  - eapply same_kind_trans; [apply combine_kind; exact K'|].
    eapply same_kind_trans; [apply scalar_kind|].
    rewrite same_kind_sym. eapply same_kind_trans; [apply scalar_kind|exact Ks].
  - rewrite combine_sampling by assumption. unfold a'. rewrite !scalar_sampling. congruence.
  - rewrite combine_values by exact K'. unfold a', b'. rewrite !scalar_values, Vs.
    apply map2_map_distr. intros u v. apply map2_map_distr. intros x y.
    cbn [apply_bop oadd omul opsR]. lra.
Qed.

(* --- equality --- *)
Definition values_close (rtol atol : R) (a b : fd R) : Prop :=
  Forall2 (Forall2 (fun x y => Rabs (x - y) <= atol + rtol * Rabs y)) (values a) (values b).

Theorem eqb_total rtol atol (a b : fd R) :
  fd_eqb opsR rtol atol a b = true \/ fd_eqb opsR rtol atol a b = false.
Proof. destruct (fd_eqb opsR rtol atol a b); auto. Qed.

Theorem eqb_spec rtol atol (a b : fd R) :
  fd_eqb opsR rtol atol a b = true <->
  same_kind a b = true /\ sampling a = sampling b /\ values_close rtol atol a b.
Proof.
  unfold fd_eqb, values_close. rewrite !andb_true_iff, sampling_eqb_eq, all2b_Forall2.
  assert (E : forall U V, Forall2 (fun u v => all2b (close opsR rtol atol) u v = true) U V <->
                          Forall2 (Forall2 (fun x y => Rabs (x - y) <= atol + rtol * Rabs y)) U V).
  { intros U V. split; induction 1 as [|u v U V H _ IH]; constructor; try assumption.
    - apply all2b_Forall2 in H. induction H; constructor; [apply closeR; assumption|assumption].
    - apply all2b_Forall2. induction H; constructor; [apply closeR; assumption|assumption]. }
  rewrite E. tauto.
Qed.

Theorem eqb_refl rtol atol (a : fd R) : 0 <= rtol -> 0 <= atol -> fd_eqb opsR rtol atol a a = true.
Proof.
  intros Hr Ha. apply eqb_spec. split; [apply same_kind_refl|]. split; [reflexivity|].
  unfold values_close. induction (values a) as [|u U IH]; constructor; [|exact IH].
  induction u as [|x u IHu]; constructor; [|exact IHu].
  replace (x - x) with 0 by lra. rewrite Rabs_R0. pose proof (Rabs_pos x). nra.
Qed.

Lemma Forall2_len {A B} (P : A -> B -> Prop) l m : Forall2 P l m -> length l = length m.
Proof. induction 1; simpl; congruence. Qed.

(* different shapes, different grids, different kinds compare unequal (no exception) *)
Theorem eqb_false_cases rtol atol (a b : fd R) :
  (same_kind a b = false \/ sampling a <> sampling b \/ n_obs a <> n_obs b \/ ~ shape_eq a b) ->
  fd_eqb opsR rtol atol a b = false.
Proof.
  intros H. destruct (fd_eqb opsR rtol atol a b) eqn:E; [|reflexivity].
  apply eqb_spec in E. destruct E as (K & S & V). exfalso.
  destruct H as [H|[H|[H|H]]].
  - congruence.
  - contradiction.
  - apply H. rewrite !n_obs_values. eapply Forall2_len; eauto.
  - apply H. unfold shape_eq. unfold values_close in V.
    induction V as [|u v U W Huv _ IH]; constructor; [eapply Forall2_len; eauto|exact IH].
Qed.

(* --- membership and removal --- *)
Section Remove.
  Context {X : Type} (eqf : X -> X -> bool).
  Lemma remove_aux_some l : forall x l', mv_remove_aux eqf l x = Some l' <->
    exists l1 e l2, l = l1 ++ e :: l2 /\ eqf e x = true /\
                    Forall (fun e' => eqf e' x = false) l1 /\ l' = l1 ++ l2.
  Proof.
    induction l as [|e l IH]; intros x l'; simpl.
    - split; [discriminate|]. intros (l1 & e & l2 & H & _). destruct l1; discriminate.
    - destruct (eqf e x) eqn:E.
      + split.
        * intros H; inversion H; subst. exists [], e, l'. repeat split; auto.
        * intros (l1 & e' & l2 & H & He & Hl1 & ->). destruct l1 as [|e1 l1]; simpl in *.
          -- inversion H; subst. reflexivity.
          -- inversion H; subst. inversion Hl1; subst. congruence.
      + destruct (mv_remove_aux eqf l x) as [r|] eqn:R.
        * split.
          -- intros H; inversion H; subst. destruct (proj1 (IH x r) R) as (l1 & e' & l2 & -> & He & Hl1 & ->).
             exists (e :: l1), e', l2. repeat split; auto.
          -- intros (l1 & e' & l2 & H & He & Hl1 & ->). destruct l1 as [|e1 l1]; simpl in *.
             ++ inversion H; subst. congruence.
             ++ inversion H; subst. inversion Hl1; subst. f_equal. f_equal.
                assert (Q : mv_remove_aux eqf (l1 ++ e' :: l2) x = Some (l1 ++ l2)).
                { apply IH. exists l1, e', l2. repeat split; auto. }
                congruence.
        * split; [discriminate|].
          intros (l1 & e' & l2 & H & He & Hl1 & ->). destruct l1 as [|e1 l1]; simpl in *.
          -- inversion H; subst. congruence.
          -- inversion H; subst. inversion Hl1; subst.
             assert (Q : mv_remove_aux eqf (l1 ++ e' :: l2) x = Some (l1 ++ l2)).
             { apply IH. exists l1, e', l2. repeat split; auto. }
             congruence.
  Qed.
  Lemma remove_aux_none l x : mv_remove_aux eqf l x = None <-> existsb (fun e => eqf e x) l = false.
  Proof.
    induction l as [|e l IH]; simpl; [tauto|]. destruct (eqf e x); simpl; [split; discriminate|].
    destruct (mv_remove_aux eqf l x); [split; [discriminate|]|tauto].
    intros H. apply IH in H. discriminate.
  Qed.
End Remove.

(* removal never fails in another way than "not in list"; it deletes the FIRST element equal
   to x and nothing else *)
Theorem remove_spec rtol atol (l l' : list (fd R)) x : mv_remove opsR rtol atol l x = Some l' <->
  exists l1 e l2, l = l1 ++ e :: l2 /\ fd_eqb opsR rtol atol e x = true /\
                  Forall (fun e' => fd_eqb opsR rtol atol e' x = false) l1 /\ l' = l1 ++ l2.
Proof. apply remove_aux_some. Qed.
Theorem mem_remove_total rtol atol (l : list (fd R)) x :
  (mv_mem opsR rtol atol x l = true /\ exists l', mv_remove opsR rtol atol l x = Some l') \/
  (mv_mem opsR rtol atol x l = false /\ mv_remove opsR rtol atol l x = None).
Proof.
  unfold mv_mem, mv_remove. destruct (mv_remove_aux _ l x) as [r|] eqn:E.
  - left. split; [|eauto]. destruct (existsb _ l) eqn:M; [reflexivity|].
    apply remove_aux_none in M. congruence.
  - right. split; [apply remove_aux_none; exact E|reflexivity].
Qed.
Theorem mem_spec rtol atol (l : list (fd R)) x :
  mv_mem opsR rtol atol x l = true <-> exists e, In e l /\ fd_eqb opsR rtol atol e x = true.
Proof. apply existsb_exists. Qed.
Theorem mem_in rtol atol (l : list (fd R)) x : 0 <= rtol -> 0 <= atol -> In x l ->
  mv_mem opsR rtol atol x l = true.
Proof. intros Hr Ha H. apply mem_spec. exists x. split; [exact H|apply eqb_refl; assumption]. Qed.

(* ------------------------------------------------------ the open defect F8 *)
Local Close Scope R_scope.
Local Open Scope Q_scope.
Definition rtolQ : Q := 1 # 100000.
Definition atolQ : Q := 1 # 100000000.

(* two irregular datasets on the same points with different values compared equal *)
Theorem irregular_eq_ignores_values_refuted : exists a b : fd Q,
  fd_eqb_defect opsQ rtolQ atolQ a b = Some true /\ fd_eqb opsQ rtolQ atolQ a b = false.
Proof.
  exists (Irreg [([[0; 1]], [1; 2]); ([[0; 1; 2]], [3; 4; 5])]),
         (Irreg [([[0; 1]], [7; 7]); ([[0; 1; 2]], [3; 4; 5])]).
  split; vm_compute; reflexivity.
Qed.
(* dense data of different shapes: the comparison raised instead of answering False *)
Theorem dense_eq_partial_refuted : exists a b : fd Q,
  fd_eqb_defect opsQ rtolQ atolQ a b = None /\ fd_eqb opsQ rtolQ atolQ a b = false.
Proof.
  exists (Dense [[0; 1; 2]] [[1; 2; 3]; [4; 5; 6]]), (Dense [[0; 1]] [[1; 2]; [4; 5]]).
  split; vm_compute; reflexivity.
Qed.
(* hence removal from / membership in a multivariate object raised *)
Theorem remove_defect_refuted : exists (l : list (fd Q)) (x : fd Q),
  mv_remove_defect opsQ rtolQ atolQ l x = None /\
  mv_remove opsQ rtolQ atolQ l x = Some [Dense [[0; 1; 2]] [[1; 2; 3]; [4; 5; 6]]].
Proof.
  exists [Dense [[0; 1; 2]] [[1; 2; 3]; [4; 5; 6]]; Dense [[0; 1]] [[1; 2]; [4; 5]]],
         (Dense [[0; 1]] [[1; 2]; [4; 5]]).
  split; vm_compute; reflexivity.
Qed.
