(* Lemmas/Repr.v — changing representation does not change the data (C14), at R. *)
From Coq Require Import List Bool Reals Lra Lia Arith.
From FDAV Require Import Base.Num Base.Vec Base.Quad Model.Stats Model.Basis Model.Pspline Model.Repr
  Lemmas.Vec Lemmas.Quad Lemmas.Gram Lemmas.Stats Lemmas.Ufpca Lemmas.Scores Lemmas.Pspline.
Import ListNotations.
Local Open Scope R_scope.

Notation to_gridR := (to_grid opsR).

(* evaluation on the grid is linear in the coefficients *)
Theorem to_grid_linear m Phi a b c c' : Forall (fun r => length r = m) Phi -> length c = length c' ->
  mtvR m Phi (vaddR (vscaleR a c) (vscaleR b c')) = vaddR (vscaleR a (mtvR m Phi c)) (vscaleR b (mtvR m Phi c')).
Proof. apply recon_linear. Qed.

Lemma mtv_vscale m Phi a c : Forall (fun r => length r = m) Phi ->
  mtvR m Phi (vscaleR a c) = vscaleR a (mtvR m Phi c).
Proof.
  intros H. apply list_eq_nth; [rewrite vscale_length, !mtv_length by exact H; reflexivity|].
  intros j Hj. rewrite mtv_length in Hj by exact H.
  rewrite nth_vscale by (rewrite mtv_length by exact H; exact Hj).
  rewrite !mtv_nth by assumption. apply dot_vscale_l.
Qed.
Lemma mtv_vsub m Phi c c' : Forall (fun r => length r = m) Phi -> length c = length c' ->
  mtvR m Phi (vsubR c c') = vsubR (mtvR m Phi c) (mtvR m Phi c').
Proof.
  intros H HL. apply list_eq_nth; [rewrite vsub_length, !mtv_length by exact H; lia|].
  intros j Hj. rewrite mtv_length in Hj by exact H.
  unfold vsub at 2. rewrite (nth_map2 _ _ _ j 0 0 0) by (rewrite mtv_length by exact H; exact Hj).
  rewrite !mtv_nth by assumption. rewrite dot_vsub_l by exact HL. reflexivity.
Qed.

(* the mean of the evaluated curves is the evaluation of the mean coefficients *)
Theorem mean_commutes m K Phi C : C <> [] -> Forall (fun r => length r = m) Phi ->
  Forall (fun c => length c = K) C ->
  colmean opsR m (to_gridR m Phi C) = mtvR m Phi (coef_mean opsR K C).
Proof.
  intros Hne HP HC.
  assert (HG : Forall (fun r => length r = m) (to_gridR m Phi C)).
  { unfold to_grid. rewrite Forall_map. apply Forall_forall. intros c _. apply mtv_length. exact HP. }
  assert (Hlen : length (to_gridR m Phi C) = length C) by (unfold to_grid; apply map_length).
  pose proof (INR_len_pos C Hne) as Hp.
  apply list_eq_nth.
  - unfold colmean. rewrite map_length, colsum_length, mtv_length by assumption. reflexivity.
  - intros j Hj. unfold colmean in Hj. rewrite map_length, colsum_length in Hj by exact HG.
    fold (mean opsR m (to_gridR m Phi C)).
    assert (Hne' : to_gridR m Phi C <> []) by (unfold to_grid; destruct C; [contradiction|discriminate]).
    rewrite (mean_pointwise m (to_gridR m Phi C) j Hne' HG Hj).
    rewrite Hlen. rewrite mtv_nth by assumption.
    unfold to_grid. rewrite map_map.
    rewrite (map_ext_in _ (fun c => dotR c (map (fun phi => nth j phi 0) Phi))) by (intros c _; apply mtv_nth; assumption).
    change (map (fun c => dotR c (map (fun phi => nth j phi 0) Phi)) C) with (mvR C (map (fun phi => nth j phi 0) Phi)).
    rewrite (vsum_mv K) by exact HC.
    unfold coef_mean, colmean. rewrite oofnatR.
    rewrite (map_ext (fun s => odiv opsR s (INR (length C))) (fun s => omul opsR (/ INR (length C)) s))
      by (intros s; rewrite odivR by lra; cbn; unfold Rdiv; lra).
    change (map (fun s => omul opsR (/ INR (length C)) s) (colsum opsR K C)) with (vscaleR (/ INR (length C)) (colsum opsR K C)).
    rewrite dot_vscale_l. unfold Rdiv. lra.
Qed.

(* centering commutes: evaluate(c_i - mean coefficients) = evaluate(c_i) - mean curve *)
Theorem center_commutes m K Phi C c : C <> [] -> Forall (fun r => length r = m) Phi ->
  Forall (fun c0 => length c0 = K) C -> length c = K ->
  mtvR m Phi (vsubR c (coef_mean opsR K C)) = vsubR (mtvR m Phi c) (colmean opsR m (to_gridR m Phi C)).
Proof.
  intros Hne HP HC Hc. rewrite (mean_commutes m K) by assumption.
  apply mtv_vsub; [exact HP|]. unfold coef_mean, colmean. rewrite map_length, colsum_length by exact HC. exact Hc.
Qed.

(* inner products and norms computed from the coefficients with the basis Gram matrix equal those of
   the evaluated curves *)
Theorem inner_commutes m x Phi c c' : Forall (fun r => length r = m) Phi ->
  coef_inner opsR (gram_spec opsR x Phi) c c' = inner opsR x (mtvR m Phi c) (mtvR m Phi c').
Proof. intros H. unfold coef_inner. apply gram_bilinear. exact H. Qed.
Theorem norm_commutes m x Phi c : Forall (fun r => length r = m) Phi ->
  coef_inner opsR (gram_spec opsR x Phi) c c = normsq opsR x (mtvR m Phi c).
Proof. intros H. unfold normsq. apply inner_commutes. exact H. Qed.
(* normalising / rescaling the coefficients scales the evaluated curve alike *)
Theorem scaling_commutes m Phi a c : Forall (fun r => length r = m) Phi ->
  mtvR m Phi (vscaleR a c) = vscaleR a (mtvR m Phi c).
Proof. apply mtv_vscale. Qed.

(* spline expansion with zero penalty returns the coefficients of a curve lying in the spline space *)
Theorem zero_penalty_exact nb B w D beta0 : wfB nb B -> wfB nb D ->
  Aop opsR nb B w [(0, D)] beta0 = rhs opsR nb B w (fitted opsR B beta0).
Proof.
  intros HB HD. unfold Aop, rhs, fitted. rewrite pen_cons, pen_nil.
  assert (Z : vaddR (vscaleR 0 (mtvR nb D (mvR D beta0))) (zerosR nb) = zerosR nb).
  { apply list_eq_nth; [rewrite vadd_length, vscale_length, mtv_length, zeros_length by exact HD; lia|].
    intros j Hj. rewrite vadd_length, vscale_length, mtv_length, zeros_length in Hj by exact HD.
    rewrite nth_vadd, nth_vscale, nth_zeros by (rewrite ?vscale_length, ?mtv_length, ?zeros_length by exact HD; lia). lra. }
  rewrite Z.
  assert (L : length (mtvR nb B (vmulR w (mvR B beta0))) = nb) by (apply mtv_length; exact HB).
  rewrite <- L at 2. apply vadd_zeros_r.
Qed.

(* ---------- long format ---------- *)
Lemma to_long_rows_length m : forall (X : list (list R)) s,
  length (flat_map (fun ir => map (fun j => (fst ir, j, nth j (snd ir) 0)) (seq 0 m)) (combine (seq s (length X)) X))
  = (length X * m)%nat.
Proof.
  induction X as [|r X IH]; intros s; [reflexivity|].
  simpl length. simpl seq. simpl combine. simpl flat_map.
  rewrite app_length, map_length, seq_length, IH. lia.
Qed.
Theorem to_long_length m (X : list (list R)) : length (to_long opsR m X) = (length X * m)%nat.
Proof. unfold to_long. apply to_long_rows_length. Qed.

Lemma to_long_rows_nth m : forall (X : list (list R)) s i j, (i < length X)%nat -> (j < m)%nat ->
  nth (i * m + j)
      (flat_map (fun ir => map (fun j0 => (fst ir, j0, nth j0 (snd ir) 0)) (seq 0 m)) (combine (seq s (length X)) X))
      (0%nat, 0%nat, 0) = ((s + i)%nat, j, nth j (nth i X []) 0).
Proof.
  induction X as [|r X IH]; intros s i j Hi Hj; simpl in Hi; [lia|].
  simpl length. simpl seq. simpl combine. simpl flat_map.
  destruct i as [|i].
  - simpl Nat.mul. simpl Nat.add. rewrite app_nth1 by (rewrite map_length, seq_length; exact Hj).
    rewrite (nth_indep _ _ ((fun j0 => (s, j0, nth j0 r 0)) 0%nat)) by (rewrite map_length, seq_length; exact Hj).
    rewrite (map_nth (fun j0 => (s, j0, nth j0 r 0))), seq_nth by exact Hj.
    simpl. rewrite Nat.add_0_r. reflexivity.
  - rewrite app_nth2 by (rewrite map_length, seq_length; simpl; lia).
    rewrite map_length, seq_length.
    replace (S i * m + j - m)%nat with (i * m + j)%nat by (simpl; lia).
    rewrite IH by lia. simpl. f_equal. f_equal. lia.
Qed.
(* entry number i*m + j of the long table is exactly (observation i, point j, value X_ij):
   every (observation, point) occurs once, in row-major order, with its value *)
Theorem to_long_nth m (X : list (list R)) i j : (i < length X)%nat -> (j < m)%nat ->
  nth (i * m + j) (to_long opsR m X) (0%nat, 0%nat, 0) = (i, j, nth j (nth i X []) 0).
Proof. intros Hi Hj. unfold to_long. rewrite to_long_rows_nth by assumption. reflexivity. Qed.

(* ---------- CSV loading: missing cells dropped, the others kept in order with their abscissae ---------- *)
Theorem ragged_spec {V} (absc : list nat) : forall (row : list (option V)) t v, length absc = length row ->
  (In (t, v) (ragged absc row) <->
   exists j, (j < length row)%nat /\ nth j absc 0%nat = t /\ nth j row None = Some v).
Proof.
  induction absc as [|a absc IH]; intros [|c row] t v H; simpl in H; try discriminate.
  - simpl. split; [contradiction|]. intros (j & Hj & _). lia.
  - assert (IH' := IH row t v ltac:(lia)).
    destruct c as [v0|]; simpl.
    + split.
      * intros [E|Hin].
        -- injection E as <- <-. exists 0%nat. split; [simpl; lia|]. split; reflexivity.
        -- apply IH' in Hin. destruct Hin as (j & Hj & E1 & E2). exists (S j). split; [simpl; lia|]. split; assumption.
      * intros (j & Hj & E1 & E2). destruct j as [|j].
        -- simpl in E1, E2. injection E2 as <-. left. congruence.
        -- right. apply IH'. exists j. split; [simpl in Hj; lia|]. split; assumption.
    + split.
      * intros Hin. apply IH' in Hin. destruct Hin as (j & Hj & E1 & E2). exists (S j). split; [simpl; lia|]. split; assumption.
      * intros (j & Hj & E1 & E2). destruct j as [|j]; [simpl in E2; discriminate|].
        apply IH'. exists j. split; [simpl in Hj; lia|]. split; assumption.
Qed.
Theorem ragged_length {V} (absc : list nat) : forall (row : list (option V)), length absc = length row ->
  length (ragged absc row) = length (filter is_present row).
Proof.
  induction absc as [|a absc IH]; intros [|c row] H; simpl in H; try discriminate; [reflexivity|].
  destruct c; simpl; rewrite IH by lia; reflexivity.
Qed.
Theorem csv_complete_spec {V} (rows : list (list (option V))) :
  csv_complete rows = true <-> forall row c, In row rows -> In c row -> c <> None.
Proof.
  unfold csv_complete. rewrite forallb_forall. split.
  - intros H row c Hr Hc. specialize (H row Hr). rewrite forallb_forall in H. specialize (H c Hc).
    destruct c; [discriminate|discriminate].
  - intros H row Hr. apply forallb_forall. intros c Hc. specialize (H row c Hr Hc). destruct c; [reflexivity|contradiction].
Qed.
