(* Lemmas/Eigen.v — proofs about Model/Eigen.v at the real-number instance,
   and transfer of the executable Q instance. *)
From Coq Require Import List Bool Reals Lra Lia Sorted Permutation QArith Qreals.
From FDAV Require Import Base.Num Model.Eigen.
Import ListNotations.
Local Open Scope R_scope.

Notation pr := (R * list R)%type.
Definition geP (a b : pr) : Prop := fst a >= fst b.

(* ---------- clip ---------- *)
Lemma clip1_nonneg e : 0 <= clip1 opsR e.
Proof. unfold clip1; cbn. destruct (Rleb e 0) eqn:E; [lra|]. apply Rleb_false in E. lra. Qed.
Lemma clip1_mono a b : a >= b -> clip1 opsR a >= clip1 opsR b.
Proof.
  unfold clip1; cbn. intros H.
  destruct (Rleb a 0) eqn:Ea, (Rleb b 0) eqn:Eb;
    rewrite ?Rleb_true, ?Rleb_false in *; lra.
Qed.
Lemma clip1_id e : 0 <= e -> clip1 opsR e = e.
Proof. unfold clip1; cbn. intros H. destruct (Rleb e 0) eqn:E; [|reflexivity]. apply Rleb_true in E. lra. Qed.

Lemma clip_nonneg l : Forall (fun p : pr => 0 <= fst p) (clip opsR l).
Proof. unfold clip. induction l; simpl; constructor; [apply clip1_nonneg|assumption]. Qed.
Lemma clip_snd l : map snd (clip opsR l) = map snd l.
Proof. unfold clip. rewrite map_map. reflexivity. Qed.
Lemma clip_length l : length (clip opsR l) = length l.
Proof. unfold clip. apply map_length. Qed.

Lemma clip_sorted l : StronglySorted geP l -> StronglySorted geP (clip opsR l).
Proof.
  induction 1 as [|a l Hs IH Hf]; simpl; constructor; [exact IH|].
  unfold clip. rewrite Forall_map. eapply Forall_impl; [|exact Hf].
  intros b Hb. unfold geP in *; simpl. apply clip1_mono; exact Hb.
Qed.

(* ---------- sorting ---------- *)
Lemma insert_desc_perm (l : list pr) p : Permutation (p :: l) (insert_desc opsR l p).
Proof.
  induction l as [|q l IH]; simpl; [reflexivity|].
  destruct (Rleb (fst p) (fst q)); [|reflexivity].
  rewrite perm_swap. constructor. exact IH.
Qed.

Lemma fold_insert_perm (l acc : list pr) :
  Permutation (l ++ acc) (fold_left (insert_desc opsR) l acc).
Proof.
  revert acc; induction l as [|p l IH]; intros acc; simpl; [reflexivity|].
  rewrite <- IH. rewrite <- insert_desc_perm. apply Permutation_middle.
Qed.

Lemma sort_desc_perm (l : list pr) : Permutation l (sort_desc opsR l).
Proof. unfold sort_desc. rewrite <- fold_insert_perm. rewrite app_nil_r. reflexivity. Qed.

Lemma geP_trans : forall a b c : pr, geP a b -> geP b c -> geP a c.
Proof. unfold geP; intros; lra. Qed.

Lemma insert_desc_sorted (l : list pr) p :
  StronglySorted geP l -> StronglySorted geP (insert_desc opsR l p).
Proof.
  induction 1 as [|q l Hs IH Hf]; simpl.
  - constructor; constructor.
  - destruct (Rleb (fst p) (fst q)) eqn:E.
    + apply Rleb_true in E. constructor; [exact IH|].
      eapply Permutation_Forall; [apply insert_desc_perm|].
      constructor; [unfold geP; lra|exact Hf].
    + apply Rleb_false in E. constructor; [constructor; assumption|].
      constructor; [unfold geP; lra|].
      eapply Forall_impl; [|exact Hf]. intros b Hb. unfold geP in *. lra.
Qed.

Lemma fold_insert_sorted (l acc : list pr) :
  StronglySorted geP acc -> StronglySorted geP (fold_left (insert_desc opsR) l acc).
Proof.
  revert acc; induction l as [|p l IH]; intros acc H; simpl; [exact H|].
  apply IH. apply insert_desc_sorted. exact H.
Qed.

Lemma sort_desc_sorted (l : list pr) : StronglySorted geP (sort_desc opsR l).
Proof. apply fold_insert_sorted. constructor. Qed.

(* stability: elements with equal keys keep their relative order *)
Lemma insert_desc_filter (l : list pr) p (k : R) :
  StronglySorted geP l ->
  filter (fun q => Reqb (fst q) k) (insert_desc opsR l p) =
  filter (fun q => Reqb (fst q) k) (l ++ [p]).
Proof.
  induction 1 as [|q l Hs IH Hf]; simpl; [reflexivity|].
  destruct (Rleb (fst p) (fst q)) eqn:E; simpl.
  - rewrite IH. reflexivity.
  - apply Rleb_false in E.
    destruct (Reqb (fst p) k) eqn:Ep.
    + apply Reqb_true in Ep.
      assert (Hq : Reqb (fst q) k = false) by (apply Reqb_false; lra).
      rewrite Hq.
      assert (Hl : filter (fun q0 : pr => Reqb (fst q0) k) l = []).
      { clear IH Hs. induction l as [|r l IHl]; simpl; [reflexivity|].
        pose proof (Forall_inv Hf) as Hr. pose proof (Forall_inv_tail Hf) as Hf'. unfold geP in Hr.
        assert (Hrk : Reqb (fst r) k = false) by (apply Reqb_false; lra).
        rewrite Hrk. apply IHl. exact Hf'. }
      rewrite filter_app, Hl. simpl. apply Reqb_true in Ep. rewrite Ep. reflexivity.
    + rewrite filter_app. simpl. rewrite Ep, app_nil_r. reflexivity.
Qed.

Lemma sort_desc_stable (l : list pr) (k : R) :
  filter (fun q => Reqb (fst q) k) (sort_desc opsR l) = filter (fun q => Reqb (fst q) k) l.
Proof.
  unfold sort_desc.
  assert (G : forall acc, StronglySorted geP acc ->
    filter (fun q => Reqb (fst q) k) (fold_left (insert_desc opsR) l acc) =
    filter (fun q => Reqb (fst q) k) (acc ++ l)).
  { induction l as [|p l IH]; intros acc Ha; simpl; [rewrite app_nil_r; reflexivity|].
    rewrite IH by (apply insert_desc_sorted; exact Ha).
    rewrite !filter_app, insert_desc_filter by exact Ha.
    rewrite filter_app. simpl. rewrite <- app_assoc. destruct (Reqb (fst p) k); reflexivity. }
  apply (G [] (SSorted_nil _)).
Qed.

(* ---------- prefix selection ---------- *)
Lemma firstn_sorted {A} (R0 : A -> A -> Prop) k (l : list A) :
  StronglySorted R0 l -> StronglySorted R0 (firstn k l).
Proof.
  revert k; induction l as [|a l IH]; intros k H; destruct k; simpl; try constructor.
  - inversion H; subst. apply IH; assumption.
  - inversion H as [|? ? _ Hf]; subst. rewrite <- (firstn_skipn k l) in Hf.
    apply Forall_app in Hf. tauto.
Qed.

Lemma firstn_Forall {A} (P : A -> Prop) k (l : list A) : Forall P l -> Forall P (firstn k l).
Proof.
  intros H. rewrite <- (firstn_skipn k l) in H. apply Forall_app in H. tauto.
Qed.

Lemma sorted_split_ge (l : list pr) k a b :
  StronglySorted geP l -> In a (firstn k l) -> In b (skipn k l) -> fst a >= fst b.
Proof.
  revert k; induction l as [|x l IH]; intros k H Ha Hb.
  - rewrite firstn_nil in Ha. contradiction.
  - destruct k; simpl in *; [contradiction|].
    inversion H as [|? ? Hs Hf]; subst.
    destruct Ha as [<-|Ha].
    + rewrite Forall_forall in Hf. apply Hf.
      rewrite <- (firstn_skipn k l). apply in_or_app. right; exact Hb.
    + eapply IH; eauto.
Qed.

(* ---------- the summed-variance (fraction) rule ---------- *)
Fixpoint sumR (l : list R) : R := match l with [] => 0 | x :: l' => x + sumR l' end.

Lemma fold_left_sumR l a : fold_left Rplus l a = a + sumR l.
Proof. revert a; induction l as [|x l IH]; intros a; simpl; [lra|]. rewrite IH. lra. Qed.
Lemma total_sumR l : total opsR l = sumR l.
Proof. unfold total. cbn. rewrite fold_left_sumR. lra. Qed.

Lemma cumsum_from_length l a : length (cumsum_from opsR l a) = length l.
Proof. revert a; induction l; intros; simpl; [reflexivity|]. f_equal. apply IHl. Qed.

Lemma cumsum_from_nth l : forall a j, (j < length l)%nat ->
  nth j (cumsum_from opsR l a) 0 = a + sumR (firstn (S j) l).
Proof.
  induction l as [|x l IH]; intros a j Hj; simpl in Hj; [lia|].
  destruct j; cbn [cumsum_from nth oadd opsR].
  - simpl. lra.
  - rewrite IH by lia. change (firstn (S (S j)) (x :: l)) with (x :: firstn (S j) l).
    cbn [sumR]. lra.
Qed.

Lemma cumsum_from_lower l : forall a, Forall (fun x => 0 <= x) l ->
  Forall (fun c => a <= c) (cumsum_from opsR l a).
Proof.
  induction l as [|x l IH]; intros a H; simpl; constructor; inversion H; subst.
  - cbn. lra.
  - eapply Forall_impl; [|apply IH; assumption]. cbn. intros c Hc. lra.
Qed.

Lemma count_lt_cons x c cs :
  count_lt opsR x (c :: cs) =
  if Rleb x c then count_lt opsR x cs else S (count_lt opsR x cs).
Proof. unfold count_lt, oltb. cbn. destruct (Rleb x c); reflexivity. Qed.

Lemma count_lt_all_ge x l : Forall (fun c => x <= c) l -> count_lt opsR x l = 0%nat.
Proof.
  induction 1 as [|c l Hc _ IH]; [reflexivity|].
  rewrite count_lt_cons. replace (Rleb x c) with true by (symmetry; apply Rleb_true; exact Hc).
  exact IH.
Qed.

Lemma count_lt_spec x l : forall a, Forall (fun y => 0 <= y) l ->
  let cs := cumsum_from opsR l a in
  let c := count_lt opsR x cs in
  (forall j, (j < c)%nat -> nth j cs 0 < x) /\
  ((c < length l)%nat -> x <= nth c cs 0) /\ (c <= length l)%nat.
Proof.
  induction l as [|y l IH]; intros a H; cbn zeta.
  - unfold count_lt; simpl. repeat split; intros; lia.
  - inversion H as [|? ? Hy Hl]; subst.
    cbn [cumsum_from oadd opsR]. rewrite count_lt_cons.
    destruct (Rleb x (a + y)) eqn:E.
    + apply Rleb_true in E.
      rewrite count_lt_all_ge.
      2:{ eapply Forall_impl; [|apply cumsum_from_lower; exact Hl]. cbn. intros; lra. }
      repeat split; intros; try lia. simpl. exact E.
    + apply Rleb_false in E. cbn [length].
      destruct (IH (a + y) Hl) as (I1 & I2 & I3). cbn zeta in *.
      repeat split.
      * intros j Hj. destruct j; simpl; [exact E|]. apply I1. lia.
      * intros Hc. simpl. apply I2. lia.
      * lia.
Qed.

Lemma sumR_firstn_all l k : (length l <= k)%nat -> sumR (firstn k l) = sumR l.
Proof. intros H. rewrite firstn_all2 by exact H. reflexivity. Qed.

Theorem frac_rule_minimal (p : R) (evs : list R) :
  0 < p < 1 -> Forall (fun y => 0 <= y) evs -> 0 < sumR evs ->
  let k := npc opsR (SelFrac p) evs in
  (1 <= k <= length evs)%nat /\
  p * sumR evs <= sumR (firstn k evs) /\
  (forall j, (j < k)%nat -> sumR (firstn j evs) < p * sumR evs).
Proof.
  intros Hp Hnn Hpos. cbn zeta. unfold npc. cbn [omul opsR]. rewrite total_sumR.
  unfold cumsum. cbn [o0 opsR].
  set (x := p * sumR evs).
  destruct (count_lt_spec x evs 0 Hnn) as (I1 & I2 & I3). cbn zeta in *.
  set (c := count_lt opsR x (cumsum_from opsR evs 0)) in *.
  assert (Hx : x < sumR evs) by (unfold x; nra).
  assert (Hc : (c < length evs)%nat).
  { destruct (Nat.eq_dec c (length evs)) as [e|]; [|lia]. exfalso.
    destruct evs as [|y evs']; [simpl in Hpos; lra|].
    assert (Hlast : (length evs' < c)%nat) by (rewrite e; simpl; lia).
    specialize (I1 _ Hlast). rewrite cumsum_from_nth in I1 by (simpl; lia).
    rewrite sumR_firstn_all in I1 by (simpl; lia). lra. }
  repeat split; try lia.
  - specialize (I2 Hc). rewrite cumsum_from_nth in I2 by exact Hc. lra.
  - intros j Hj. destruct j.
    + rewrite firstn_O. simpl. unfold x. nra.
    + assert (Hj' : (j < c)%nat) by lia. specialize (I1 _ Hj').
      rewrite cumsum_from_nth in I1 by lia. lra.
Qed.

(* ---------- the main statements about compute_eigen ---------- *)
Lemma compute_eigen_nonneg spec s :
  Forall (fun p : pr => 0 <= fst p) (compute_eigen opsR spec s).
Proof. unfold compute_eigen, select. apply firstn_Forall. apply clip_nonneg. Qed.

Lemma compute_eigen_sorted spec s : StronglySorted geP (compute_eigen opsR spec s).
Proof.
  unfold compute_eigen, select. apply firstn_sorted. apply clip_sorted. apply sort_desc_sorted.
Qed.

Lemma compute_eigen_all spec :
  compute_eigen opsR spec SelAll = clip opsR (sort_desc opsR spec).
Proof. unfold compute_eigen, select, npc. rewrite map_length. apply firstn_all. Qed.

Lemma compute_eigen_prefix spec s :
  compute_eigen opsR spec s =
  firstn (npc opsR s (map fst (compute_eigen opsR spec SelAll))) (compute_eigen opsR spec SelAll).
Proof. rewrite compute_eigen_all. reflexivity. Qed.

Lemma compute_eigen_count spec k :
  compute_eigen opsR spec (SelCount k) = firstn k (compute_eigen opsR spec SelAll).
Proof. rewrite compute_eigen_prefix. reflexivity. Qed.

Lemma compute_eigen_paired spec s :
  exists full, Permutation (clip opsR spec) full /\
               compute_eigen opsR spec s = firstn (length (compute_eigen opsR spec s)) full.
Proof.
  exists (clip opsR (sort_desc opsR spec)). split.
  - unfold clip. apply Permutation_map. apply sort_desc_perm.
  - unfold compute_eigen, select.
    rewrite firstn_length. set (l := clip opsR (sort_desc opsR spec)).
    set (n := npc opsR s (map fst l)).
    destruct (Nat.le_ge_cases n (length l)).
    + rewrite Nat.min_l by assumption. reflexivity.
    + rewrite Nat.min_r by assumption. rewrite !firstn_all2 by lia. reflexivity.
Qed.

Lemma compute_eigen_topk spec s a b :
  In a (compute_eigen opsR spec s) ->
  In b (skipn (npc opsR s (map fst (compute_eigen opsR spec SelAll))) (compute_eigen opsR spec SelAll)) ->
  fst a >= fst b.
Proof.
  rewrite (compute_eigen_prefix spec s). intros Ha Hb.
  eapply sorted_split_ge; eauto. apply compute_eigen_sorted.
Qed.

Lemma compute_eigen_frac spec p :
  0 < p < 1 -> 0 < sumR (map fst (compute_eigen opsR spec SelAll)) ->
  let full := map fst (compute_eigen opsR spec SelAll) in
  let kept := map fst (compute_eigen opsR spec (SelFrac p)) in
  (1 <= length kept <= length full)%nat /\
  kept = firstn (length kept) full /\
  p * sumR full <= sumR kept /\
  (forall j, (j < length kept)%nat -> sumR (firstn j full) < p * sumR full).
Proof.
  intros Hp Hpos. cbn zeta.
  rewrite (compute_eigen_prefix spec (SelFrac p)).
  set (fullp := compute_eigen opsR spec SelAll) in *.
  set (full := map fst fullp) in *.
  assert (Hnn : Forall (fun y => 0 <= y) full).
  { unfold full. rewrite Forall_map. apply compute_eigen_nonneg. }
  destruct (frac_rule_minimal p full Hp Hnn Hpos) as (K1 & K2 & K3). cbn zeta in *.
  set (k := npc opsR (SelFrac p) full) in *.
  assert (Hlen : length (map fst (firstn k fullp)) = k).
  { rewrite map_length, firstn_length. unfold full in K1. rewrite map_length in K1. lia. }
  rewrite Hlen. rewrite <- firstn_map. fold full.
  repeat split; try lia; assumption.
Qed.

(* post-processing keeps order and pairing *)
Lemma post_scale_val_sorted c (l : list pr) :
  0 <= c -> StronglySorted geP l -> StronglySorted geP (post_scale_val opsR c l).
Proof.
  intros Hc. induction 1 as [|a l Hs IH Hf]; simpl; constructor; [exact IH|].
  unfold post_scale_val. rewrite Forall_map. eapply Forall_impl; [|exact Hf].
  unfold geP; cbn. intros b Hb. nra.
Qed.
Lemma post_scale_val_snd c (l : list pr) : map snd (post_scale_val opsR c l) = map snd l.
Proof. unfold post_scale_val. rewrite map_map. reflexivity. Qed.
Lemma post_map_vec_fst f (l : list pr) : map fst (post_map_vec f l) = map fst l.
Proof. unfold post_map_vec. rewrite map_map. reflexivity. Qed.
Lemma post_map_vec_snd f (l : list pr) : map snd (post_map_vec f l) = map f (map snd l).
Proof. unfold post_map_vec. rewrite !map_map. reflexivity. Qed.
Lemma post_commutes_with_prefix c f k (l : list pr) :
  post_scale_val opsR c (post_map_vec f (firstn k l)) =
  firstn k (post_scale_val opsR c (post_map_vec f l)).
Proof. unfold post_scale_val, post_map_vec. rewrite !firstn_map. reflexivity. Qed.

(* ---------- the unrepaired helper: what survives, what does not ---------- *)
Lemma nosort_nonneg spec s : Forall (fun p : pr => 0 <= fst p) (compute_eigen_nosort opsR spec s).
Proof. unfold compute_eigen_nosort, select. apply firstn_Forall. apply clip_nonneg. Qed.

Lemma nosort_prefix spec s :
  compute_eigen_nosort opsR spec s =
  firstn (npc opsR s (map fst (compute_eigen_nosort opsR spec SelAll)))
         (compute_eigen_nosort opsR spec SelAll).
Proof.
  unfold compute_eigen_nosort at 2 3. unfold select, npc at 2 3.
  rewrite map_length, firstn_all. reflexivity.
Qed.

Lemma nosort_agrees_when_sorted spec s :
  StronglySorted geP spec -> NoDup (map fst spec) ->
  map fst (compute_eigen_nosort opsR spec s) = map fst (compute_eigen opsR spec s).
Proof.
  intros Hs _. unfold compute_eigen, compute_eigen_nosort.
  replace (sort_desc opsR spec) with spec; [reflexivity|].
  unfold sort_desc.
  assert (G : forall l acc, StronglySorted geP (acc ++ l) ->
              fold_left (insert_desc opsR) l acc = acc ++ l).
  { induction l as [|p l IH]; intros acc H; simpl; [rewrite app_nil_r; reflexivity|].
    assert (E : insert_desc opsR acc p = acc ++ [p]).
    { clear IH. revert H. induction acc as [|q acc IHa]; intros H; simpl; [reflexivity|].
      simpl in H. inversion H as [|? ? Hs' Hf]; subst.
      assert (Hqp : geP q p).
      { rewrite Forall_forall in Hf. apply Hf. apply in_or_app. right; left; reflexivity. }
      unfold geP in Hqp.
      replace (Rleb (fst p) (fst q)) with true by (symmetry; apply Rleb_true; lra).
      f_equal. apply IHa. exact Hs'. }
    rewrite E. rewrite IH; rewrite <- app_assoc; [reflexivity|exact H]. }
  symmetry. apply (G spec []). exact Hs.
Qed.

Definition witness_spec : list pr := [(1, [1;0;0]); (3, [0;1;0]); (2, [0;0;1])].

Lemma nosort_not_sorted :
  ~ StronglySorted geP (compute_eigen_nosort opsR witness_spec (SelCount 2)).
Proof.
  unfold compute_eigen_nosort, select, npc, witness_spec. cbn [map fst firstn clip snd].
  rewrite !clip1_id by lra.
  intros H. inversion H as [|? ? _ Hf]; subst. inversion Hf as [|? ? Hg _]; subst.
  unfold geP in Hg; simpl in Hg. lra.
Qed.

Lemma nosort_not_topk :
  exists a b, In a (compute_eigen_nosort opsR witness_spec (SelCount 2)) /\
              In b (skipn 2 (compute_eigen_nosort opsR witness_spec SelAll)) /\
              fst a < fst b.
Proof.
  exists (1, [1;0;0]), (2, [0;0;1]).
  unfold compute_eigen_nosort, select, npc, witness_spec. cbn [map fst firstn skipn clip snd length].
  rewrite !clip1_id by lra. simpl. repeat split; auto; lra.
Qed.

(* ---------- transfer: the Q run is the R model on the same numbers ---------- *)
Definition pQ2R (p : Q * list Q) : pr := (Q2R (fst p), map Q2R (snd p)).

Lemma spec_QR (l : list (Q * list Q)) :
  list_R _ _ (prod_R Q R QR (list Q) (list R) (list_R Q R QR)) l (map pQ2R l).
Proof.
  induction l as [|[a v] l IH]; simpl; constructor; [|exact IH].
  constructor; [reflexivity|apply list_QR].
Qed.
Lemma spec_QR_inv l l' :
  list_R _ _ (prod_R Q R QR (list Q) (list R) (list_R Q R QR)) l l' -> l' = map pQ2R l.
Proof.
  induction 1 as [|a b r l l' _ IH]; simpl; [reflexivity|].
  destruct r as [x y rx v w rv]. unfold QR in rx. apply list_QR_inv in rv. subst y w l'. reflexivity.
Qed.

Definition selQ2R (s : sel Q) : sel R :=
  match s with SelAll => SelAll | SelCount k => SelCount k | SelFrac p => SelFrac (Q2R p) end.
Lemma sel_QR s : sel_R Q R QR s (selQ2R s).
Proof. destruct s; simpl; constructor; [apply nat_R_refl|reflexivity]. Qed.

Theorem compute_eigen_transfer spec s :
  map pQ2R (compute_eigen opsQ spec s) = compute_eigen opsR (map pQ2R spec) (selQ2R s).
Proof.
  symmetry. apply spec_QR_inv.
  exact (compute_eigen_R Q R QR opsQ opsR opsQR spec _ (spec_QR spec) s _ (sel_QR s)).
Qed.

Theorem compute_eigen_nosort_transfer spec s :
  map pQ2R (compute_eigen_nosort opsQ spec s) =
  compute_eigen_nosort opsR (map pQ2R spec) (selQ2R s).
Proof.
  symmetry. apply spec_QR_inv.
  exact (compute_eigen_nosort_R Q R QR opsQ opsR opsQR spec _ (spec_QR spec) s _ (sel_QR s)).
Qed.
