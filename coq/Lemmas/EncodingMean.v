(* Lemmas/EncodingMean.v — the pooled mean of Model/Encoding.v on COMPLETE data (C15, second sentence):
   when no sample is missing, every grid point carries one observation per curve, so the layout
   handed to the P-spline mean has weight n_obs everywhere and its values are the dense column means
   — the mean of the equivalent dense dataset.  Also: the weights always count the observations. *)
From Coq Require Import List Bool Lia QArith.
From FDAV Require Import Model.Encoding.
Import ListNotations.
Local Close Scope Q_scope.

Section Proofs.
  Context {A V : Type} (eqb : A -> A -> bool).
  Hypothesis eqb_spec : forall x y, eqb x y = true <-> x = y.

  Lemma lookup_nth : forall (c : @curve A V) j dA dV,
    NoDup (map fst c) -> j < length c ->
    lookup eqb (nth j (map fst c) dA) c = Some (nth j (map snd c) dV).
  Proof.
    induction c as [|[t v] c IH]; intros j dA dV Hnd Hj; [simpl in Hj; lia|].
    simpl in Hnd. apply NoDup_cons_iff in Hnd. destruct Hnd as [Hnin Hnd].
    destruct j as [|j]; cbn [map fst snd nth lookup].
    - assert (E : eqb t t = true) by now apply eqb_spec. now rewrite E.
    - simpl in Hj.
      destruct (eqb t (nth j (map fst c) dA)) eqn:E.
      + apply eqb_spec in E. exfalso. apply Hnin. rewrite E. apply nth_In. rewrite map_length. lia.
      + apply IH; [assumption | lia].
  Qed.

  Lemma obs_at_complete : forall grid (ct : @content A V) j dA dV,
    NoDup grid -> Forall (fun c => map fst c = grid) ct -> j < length grid ->
    obs_at eqb (nth j grid dA) ct = map (fun r => nth j r dV) (dense_values ct).
  Proof.
    intros grid ct j dA dV Hnd Hall Hj. unfold obs_at, dense_values. rewrite map_map.
    induction Hall as [|c ct Hc Hall IH]; [reflexivity|].
    cbn [flat_map map]. rewrite IH. rewrite <- Hc at 1.
    rewrite (lookup_nth c j dA dV).
    - reflexivity.
    - now rewrite Hc.
    - rewrite <- (map_length fst c), Hc. exact Hj.
  Qed.
End Proofs.

Lemma map_seq_ext : forall (X Y : Type) (g : X -> Y) (h : nat -> Y) (l : list X) (d : X),
  (forall j, (j < length l)%nat -> g (nth j l d) = h j) -> map g l = map h (seq 0 (length l)).
Proof.
  intros X Y g h l d. revert h. induction l as [|x l IH]; intros h H; [reflexivity|].
  cbn [map length seq]. f_equal.
  - exact (H 0%nat (Nat.lt_0_succ _)).
  - rewrite <- seq_shift, map_map. apply IH. intros j Hj. apply (H (S j)). simpl. lia.
Qed.

Local Open Scope Q_scope.

(* the weights of the pooled layout always count the observations available at each grid point *)
Theorem pooled_weights_count : forall eqb grid (ct : @content Q Q),
  map snd (format_pooled eqb grid ct)
  = map (fun t => inject_Z (Z.of_nat (length (obs_at eqb t ct)))) grid.
Proof.
  intros eqb grid ct. unfold format_pooled. rewrite map_map. apply map_ext. intro t.
  destruct (obs_at eqb t ct); reflexivity.
Qed.

(* complete data: weight n_obs at every grid point, value = the dense column mean *)
Theorem pooled_complete_is_dense_mean : forall eqb, (forall x y, eqb x y = true <-> x = y) ->
  forall grid (ct : @content Q Q), NoDup grid -> Forall (fun c => map fst c = grid) ct -> ct <> [] ->
  format_pooled eqb grid ct
  = map (fun j => (Qred (qsum (map (fun r => nth j r 0) (dense_values ct)) / inject_Z (Z.of_nat (length ct))),
                   inject_Z (Z.of_nat (length ct))))
        (seq 0 (length grid)).
Proof.
  intros eqb Hspec grid ct Hnd Hall Hne.
  unfold format_pooled.
  apply (map_seq_ext _ _ _ _ grid 0). intros j Hj. cbv beta zeta.
  rewrite (obs_at_complete eqb Hspec grid ct j 0 0 Hnd Hall Hj).
  rewrite !map_length. unfold dense_values. rewrite !map_length.
  destruct ct as [|c ct']; [contradiction|]. reflexivity.
Qed.

Corollary mean_pooled_complete_is_dense_mean : forall eqb, (forall x y, eqb x y = true <-> x = y) ->
  forall grid (ct : @content Q Q), NoDup grid -> Forall (fun c => map fst c = grid) ct -> ct <> [] ->
  mean_pooled eqb grid ct
  = map (fun j => Qred (qsum (map (fun r => nth j r 0) (dense_values ct)) / inject_Z (Z.of_nat (length ct))))
        (seq 0 (length grid)).
Proof.
  intros eqb Hspec grid ct Hnd Hall Hne. unfold mean_pooled.
  rewrite (pooled_complete_is_dense_mean eqb Hspec grid ct Hnd Hall Hne), map_map. reflexivity.
Qed.

(* the pooled layout is a function of the content: both encodings give the same layout *)
Theorem pooled_encoding_independent : forall eqb (grid : list Q) (ct : @content Q Q),
  format_pooled eqb grid (dec_ragged (enc_ragged ct)) = format_pooled eqb grid ct.
Proof.
  intros eqb grid ct. f_equal. unfold dec_ragged, enc_ragged. rewrite map_map. cbn [fst snd].
  rewrite <- (map_id ct) at 2. apply map_ext. intro c.
  induction c as [|[t v] c IH]; simpl; [reflexivity | now rewrite IH].
Qed.
