(* Lemmas/Heap.v — frame facts about Model/Heap.v (plain stdlib, no axioms). *)
From Coq Require Import List Arith Bool Lia.
From FDAV Require Import Model.Heap.
Import ListNotations.

Lemma mem_In l ls : mem l ls = true <-> In l ls.
Proof.
  unfold mem. rewrite existsb_exists. split.
  - intros (x & Hx & E). apply Nat.eqb_eq in E. subst. exact Hx.
  - intros H. exists l. split; [exact H|apply Nat.eqb_refl].
Qed.
Lemma mem_false l ls : mem l ls = false <-> ~ In l ls.
Proof.
  rewrite <- mem_In. destruct (mem l ls); split; intros H; try congruence; try reflexivity.
Qed.

Lemma upd_other s l v l' : l' <> l -> upd s l v l' = s l'.
Proof. intros H. unfold upd. apply Nat.eqb_neq in H. rewrite H. reflexivity. Qed.
Lemma upd_same s l v : upd s l v l = v.
Proof. unfold upd. rewrite Nat.eqb_refl. reflexivity. Qed.

Lemma write_all_other ws : forall s l, ~ In l (map fst ws) -> write_all s ws l = s l.
Proof.
  induction ws as [|[l0 v0] ws IH]; intros s l H; [reflexivity|].
  simpl in *. unfold write_all in *. simpl. rewrite IH by tauto. apply upd_other. intros E. apply H. left. congruence.
Qed.

Lemma alloc_other g fresh : forall s l, ~ In l fresh -> alloc g s fresh l = s l.
Proof.
  induction fresh as [|f fresh IH]; intros s l H; [reflexivity|].
  simpl in *. unfold alloc in *. simpl. rewrite IH by tauto. apply upd_other. intros E. apply H. left. congruence.
Qed.

Lemma max_list_ge ls l : In l ls -> l <= max_list ls.
Proof. induction ls as [|a ls IH]; simpl; [tauto|]. intros [->|H]; [lia|specialize (IH H); lia]. Qed.

Lemma exec_next_mono g h e : h_next h <= h_next (exec g h e).
Proof. destruct e; simpl; lia. Qed.
Lemma run_next_mono g es : forall h, h_next h <= h_next (run g h es).
Proof.
  induction es as [|e es IH]; intros h; simpl; [lia|].
  unfold run in *. simpl. etransitivity; [apply (exec_next_mono g h e)|apply IH].
Qed.
Lemma run_app g es1 es2 h : run g h (es1 ++ es2) = run g (run g h es1) es2.
Proof. unfold run. apply fold_left_app. Qed.

(* one admissible call leaves every previously allocated location alone *)
Lemma pure_frame frozen g h U c l : call_ok frozen (h_next h) U c = true -> l < h_next h ->
  h_store (exec g h (Pure c)) l = h_store h l.
Proof.
  unfold call_ok. rewrite !andb_true_iff, !forallb_forall. intros [[Hf Hw] _] Hl.
  assert (Hnf : ~ In l (c_fresh c)).
  { intros Hin. specialize (Hf _ Hin). apply Nat.leb_le in Hf. lia. }
  simpl. rewrite write_all_other, alloc_other; [reflexivity|exact Hnf|].
  intros Hin. apply in_map_iff in Hin. destruct Hin as ([l0 v0] & E & Hin). simpl in E. subst l0.
  specialize (Hw _ Hin). simpl in Hw. apply mem_In in Hw. contradiction.
Qed.

(* general frame lemma: an admissible history changes a previously allocated location only
   through an in-place operation of the user on it *)
Lemma history_frame_unmutated frozen g es : forall h U l,
  history_ok frozen g h U es = true -> l < h_next h -> ~ In l (mutated es) ->
  h_store (run g h es) l = h_store h l.
Proof.
  induction es as [|e es IH]; intros h U l H Hl Hm; [reflexivity|].
  simpl in H. apply andb_true_iff in H. destruct H as [He Hes].
  unfold run. simpl. fold (run g (exec g h e) es).
  rewrite (IH _ _ l Hes).
  - destruct e as [c|ws].
    + eapply pure_frame; eassumption.
    + simpl. apply write_all_other. intros Hin. apply Hm. simpl. apply in_or_app. left. exact Hin.
  - pose proof (exec_next_mono g h e). lia.
  - intros Hin. apply Hm. simpl. apply in_or_app. right. exact Hin.
Qed.

(* with the alias condition: a location allocated before the history and not (yet) handed to
   the user can never be reached by a legitimate in-place operation *)
Lemma history_frame frozen g es : forall h U l,
  history_ok frozen g h U es = true -> l < h_next h -> mem l U = false ->
  h_store (run g h es) l = h_store h l.
Proof.
  induction es as [|e es IH]; intros h U l H Hl HU; [reflexivity|].
  simpl in H. apply andb_true_iff in H. destruct H as [He Hes].
  unfold run. simpl. fold (run g (exec g h e) es).
  rewrite (IH _ _ l Hes).
  - destruct e as [c|ws].
    + eapply pure_frame; eassumption.
    + simpl in *. apply write_all_other. intros Hin. apply in_map_iff in Hin.
      destruct Hin as ([l0 v0] & E & Hin). simpl in E. subst l0.
      rewrite forallb_forall in He. specialize (He _ Hin). simpl in He. congruence.
  - pose proof (exec_next_mono g h e). lia.
  - destruct e as [c|ws]; [|exact HU]. simpl.
    apply mem_false. intros Hin. apply in_app_or in Hin. destruct Hin as [Hin|Hin].
    + apply filter_In in Hin. destruct Hin as [Hr Hfz]. apply negb_true_iff in Hfz.
      simpl in He. unfold call_ok in He. rewrite !andb_true_iff, !forallb_forall in He.
      destruct He as [[Hf _] Hroots]. specialize (Hroots _ Hr).
      rewrite Hfz in Hroots. rewrite orb_false_r in Hroots. apply orb_true_iff in Hroots.
      destruct Hroots as [Hfr|HUa].
      * apply mem_In in Hfr. specialize (Hf _ Hfr). apply Nat.leb_le in Hf. lia.
      * apply andb_true_iff in HUa. destruct HUa as [HUa _]. congruence.
    + apply mem_false in HU. contradiction.
Qed.

Lemma history_ok_app frozen g es1 : forall es2 h U,
  history_ok frozen g h U (es1 ++ es2) = true ->
  history_ok frozen g h U es1 = true /\
  history_ok frozen g (run g h es1) (fold_left (grow frozen) es1 U) es2 = true.
Proof.
  induction es1 as [|e es1 IH]; intros es2 h U H; simpl in *; [split; [reflexivity|exact H]|].
  apply andb_true_iff in H. destruct H as [He H]. destruct (IH _ _ _ H) as [H1 H2].
  split; [rewrite He, H1; reflexivity|exact H2].
Qed.

(* ---- the theorem of property C16 ---- *)
Theorem frame_lifts_to_histories : forall frozen g es1 es2 h,
  history_ok frozen g h [] (es1 ++ es2) = true ->
  (* every input, every configuration object: all that existed before the history *)
  (forall l, l < h_next h -> h_store (run g h (es1 ++ es2)) l = h_store h l) /\
  (* every earlier result: all that existed after es1 is left alone by everything that
     follows, unless the user operates on that very location in place *)
  (forall l, l < h_next (run g h es1) -> ~ In l (mutated es2) ->
             h_store (run g h (es1 ++ es2)) l = h_store (run g h es1) l).
Proof.
  intros frozen g es1 es2 h H. split.
  - intros l Hl. apply (history_frame frozen g (es1 ++ es2) h [] l H Hl). reflexivity.
  - intros l Hl Hm. destruct (history_ok_app _ _ _ _ _ _ H) as [_ H2].
    rewrite run_app. eapply history_frame_unmutated; eassumption.
Qed.

(* calls only (no in-place operation by the user): nothing that ever existed changes *)
Theorem pure_history_immutable : forall frozen g es1 es2 h,
  history_ok frozen g h [] (es1 ++ es2) = true -> mutated es2 = [] ->
  forall l, l < h_next (run g h es1) -> h_store (run g h (es1 ++ es2)) l = h_store (run g h es1) l.
Proof.
  intros frozen g es1 es2 h H Hm l Hl.
  destruct (frame_lifts_to_histories frozen g es1 es2 h H) as [_ H2]. apply H2; [exact Hl|].
  rewrite Hm. intros [].
Qed.
