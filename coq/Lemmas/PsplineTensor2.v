(* Lemmas/PsplineTensor2.v — products of quadratics are reproduced by 2-D P-splines (penalty order >= 3, degrees >= 2). *)
From Coq Require Import List Bool Reals Lra Lia Arith.
From FDAV Require Import Base.Num Base.Vec Model.Basis Model.Pspline
  Lemmas.Vec Lemmas.Gram Lemmas.Stats Lemmas.Basis Lemmas.Pspline Lemmas.Fcptpa Lemmas.PsplineConst Lemmas.PsplineQuadratic
  Lemmas.PsplineTensor.
Import ListNotations.
Local Open Scope R_scope.

Theorem biquadratic_reproduced a1 b1 nseg1 p1 a2 b2 nseg2 p2 :
  a1 < b1 -> (0 < nseg1)%nat -> (2 <= p1)%nat -> a2 < b2 -> (0 < nseg2)%nat -> (2 <= p2)%nat ->
  forall al1 be1 ga1 al2 be2 ga2 l1 l2 d w xs1 xs2 beta k,
  Forall (fun x => a1 <= x <= b1) xs1 -> Forall (fun x => a2 <= x <= b2) xs2 ->
  length beta = ((nseg1 + p1) * (nseg2 + p2))%nat -> Forall (fun v => 0 <= v) w -> 0 <= l1 -> 0 <= l2 ->
  let R1 := design a1 b1 nseg1 p1 xs1 in let R2 := design a2 b2 nseg2 p2 xs2 in
  let y := kronR (map (fun x => al1 + be1 * x + ga1 * (x * x)) xs1) (map (fun x => al2 + be2 * x + ga2 * (x * x)) xs2) in
  AopR ((nseg1 + p1) * (nseg2 + p2)) (design2 opsR R1 R2) w (pens2 opsR (nseg1 + p1) (nseg2 + p2) (S (S (S d))) l1 l2) beta
    = rhsR ((nseg1 + p1) * (nseg2 + p2)) (design2 opsR R1 R2) w y ->
  (k < length xs1 * length xs2)%nat -> (k < length w)%nat -> 0 < nth k w 0 ->
  nth k (fitted opsR (design2 opsR R1 R2) beta) 0 = nth k y 0.
Proof.
  intros Ha1 Hs1 Hp1 Ha2 Hs2 Hp2 al1 be1 ga1 al2 be2 ga2 l1 l2 d w xs1 xs2 beta k Hx1 Hx2 Lb Hw Hl1 Hl2 R1 R2 y E Hk Hkw Hpos.
  set (c1 := quad_coef a1 b1 nseg1 p1 al1 be1 ga1). set (c2 := quad_coef a2 b2 nseg2 p2 al2 be2 ga2).
  assert (D1 : mvR R1 c1 = map (fun x => al1 + be1 * x + ga1 * (x * x)) xs1) by (apply design_quadratic; assumption).
  assert (D2 : mvR R2 c2 = map (fun x => al2 + be2 * x + ga2 * (x * x)) xs2) by (apply design_quadratic; assumption).
  unfold y. rewrite <- D1, <- D2.
  apply (tensor_reproduced (nseg1 + p1) (nseg2 + p2) (S (S (S d))) l1 l2 R1 R2 c1 c2 w beta k).
  - apply design_wf; [assumption|lia].
  - apply design_wf; [assumption|lia].
  - unfold c1, quad_coef. rewrite map_length, seq_length. reflexivity.
  - unfold c2, quad_coef. rewrite map_length, seq_length. reflexivity.
  - destruct (quad_coef_is_quadratic a1 b1 nseg1 p1 Hs1 Hp1 al1 be1 ga1) as [A0 [B0 [C0 Eq]]]. unfold c1. rewrite Eq. apply diffmat_quadratic.
  - destruct (quad_coef_is_quadratic a2 b2 nseg2 p2 Hs2 Hp2 al2 be2 ga2) as [A0 [B0 [C0 Eq]]]. unfold c2. rewrite Eq. apply diffmat_quadratic.
  - exact Lb.
  - exact Hw.
  - exact Hl1.
  - exact Hl2.
  - rewrite D1, D2. exact E.
  - unfold R1, R2. rewrite !(design_rows _ _ _ _) by (try assumption; lia). rewrite !map_length. exact Hk.
  - exact Hkw.
  - exact Hpos.
Qed.
