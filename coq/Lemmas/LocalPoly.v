(* Lemmas/LocalPoly.v — kernels and local polynomial regression (C06), at R.  The least-squares
   consequences are instances of Lemmas/Pspline.v with an empty penalty list. *)
From Coq Require Import List Bool Reals Lra Lia Arith.
From FDAV Require Import Base.Num Base.Vec Model.Basis Model.Pspline Model.LocalPoly
  Lemmas.Vec Lemmas.Gram Lemmas.Stats Lemmas.Pspline.
Import ListNotations.
Local Open Scope R_scope.

Lemma three_quarters : odiv opsR (oofnat opsR 3) (oofnat opsR 4) = 3 / 4.
Proof. rewrite !oofnatR. simpl INR. rewrite odivR by lra. lra. Qed.

Lemma k_epan_val t : k_epan opsR t = if Rle_dec t 1 then 3 / 4 * (1 - t * t) else 0.
Proof.
  unfold k_epan. rewrite three_quarters. unfold osq, osub. cbn.
  destruct (Rle_dec t 1) as [H|H].
  - replace (Rleb t 1) with true by (symmetry; apply Rleb_true; exact H). lra.
  - replace (Rleb t 1) with false by (symmetry; apply Rleb_false; lra). reflexivity.
Qed.
Lemma k_epan_strict_val t : k_epan_strict opsR t = if Rlt_dec t 1 then 3 / 4 * (1 - t * t) else 0.
Proof.
  unfold k_epan_strict, oltb. rewrite three_quarters. unfold osq, osub. cbn.
  destruct (Rlt_dec t 1) as [H|H].
  - replace (Rleb 1 t) with false by (symmetry; apply Rleb_false; exact H). cbn. lra.
  - replace (Rleb 1 t) with true by (symmetry; apply Rleb_true; lra). reflexivity.
Qed.
Lemma k_tricube_val t : k_tricube opsR t =
  if Rlt_dec t 1 then (1 - t * (t * t)) * ((1 - t * (t * t)) * (1 - t * (t * t))) else 0.
Proof.
  unfold k_tricube, oltb, cube, osub. cbn.
  destruct (Rlt_dec t 1) as [H|H].
  - replace (Rleb 1 t) with false by (symmetry; apply Rleb_false; exact H). cbn. lra.
  - replace (Rleb 1 t) with true by (symmetry; apply Rleb_true; lra). reflexivity.
Qed.
Lemma k_bisquare_val t : k_bisquare opsR t = if Rlt_dec t 1 then (1 - t * t) * (1 - t * t) else 0.
Proof.
  unfold k_bisquare, oltb, osq, osub. cbn.
  destruct (Rlt_dec t 1) as [H|H].
  - replace (Rleb 1 t) with false by (symmetry; apply Rleb_false; exact H). cbn. lra.
  - replace (Rleb 1 t) with true by (symmetry; apply Rleb_true; lra). reflexivity.
Qed.

(* kernels are non-negative (for t >= 0), vanish beyond one bandwidth, and the two support
   conventions (<= 1, < 1) give the same Epanechnikov weights *)
Lemma cube_pos a : 0 <= a -> 0 <= a * (a * a).
Proof. intros H. apply Rmult_le_pos; [exact H|apply Rmult_le_pos; exact H]. Qed.
Theorem kernels_nonneg t : 0 <= t ->
  0 <= k_epan opsR t /\ 0 <= k_tricube opsR t /\ 0 <= k_bisquare opsR t.
Proof.
  intros Ht. rewrite k_epan_val, k_tricube_val, k_bisquare_val. repeat split.
  - destruct (Rle_dec t 1); [|lra]. assert (t * t <= 1) by nra. lra.
  - destruct (Rlt_dec t 1); [|lra]. apply cube_pos.
    assert (t * t <= 1) by nra. assert (t * (t * t) <= 1) by nra. lra.
  - destruct (Rlt_dec t 1); [|lra]. apply Rle_0_sqr.
Qed.
Theorem kernels_compact t : 1 <= t ->
  k_epan opsR t = 0 /\ k_tricube opsR t = 0 /\ k_bisquare opsR t = 0.
Proof.
  intros Ht. rewrite k_epan_val, k_tricube_val, k_bisquare_val.
  destruct (Rle_dec t 1), (Rlt_dec t 1); repeat split; try lra. assert (t = 1) by lra. subst. lra.
Qed.
Theorem epan_support_convention_irrelevant t : k_epan opsR t = k_epan_strict opsR t.
Proof.
  rewrite k_epan_val, k_epan_strict_val. destruct (Rle_dec t 1), (Rlt_dec t 1); try lra.
  assert (t = 1) by lra. subst. lra.
Qed.
(* even: the weight depends on x - x0 only through |x - x0| *)
Theorem dist_even x0 h d : dist1 opsR x0 h (x0 + d) = dist1 opsR x0 h (x0 - d).
Proof.
  unfold dist1, scaled, oabs, osub. cbn.
  replace (x0 + d + - x0) with d by lra. replace (x0 - d + - x0) with (- d) by lra.
  unfold Rdiv0. destruct (Req_EM_T h 0); [reflexivity|].
  replace (- d / h) with (- (d / h)) by (field; assumption).
  destruct (Rleb 0 (d / h)) eqn:E1, (Rleb 0 (- (d / h))) eqn:E2;
    rewrite ?Rleb_true, ?Rleb_false in *; lra.
Qed.
(* Gaussian kernel (reals only): strictly positive *)
Definition k_gauss (t : R) : R := exp (- (t * t) / 2) / sqrt (2 * PI).
Theorem gaussian_pos t : 0 < k_gauss t.
Proof.
  unfold k_gauss. apply Rdiv_lt_0_compat; [apply exp_pos|]. apply sqrt_lt_R0. pose proof PI_RGT_0. lra.
Qed.

(* invariance under a common shift / rescaling of sampling points, query point and bandwidth:
   the scaled variable — hence design, weights, estimate — does not change *)
Theorem scaled_invariant a b x0 h x : a <> 0 -> h <> 0 ->
  scaled opsR (a * x0 + b) (a * h) (a * x + b) = scaled opsR x0 h x.
Proof.
  intros Ha Hh. unfold scaled, osub. cbn. rewrite !Rdiv0_nz by (try apply Rmult_integral_contrapositive_currified; assumption).
  field. split; assumption.
Qed.
Theorem design_invariant p a b x0 h xs : a <> 0 -> h <> 0 ->
  design_1d opsR p (a * x0 + b) (a * h) (map (fun x => a * x + b) xs) = design_1d opsR p x0 h xs.
Proof.
  intros Ha Hh. unfold design_1d. rewrite map_map. apply map_ext. intros x.
  rewrite scaled_invariant by assumption. reflexivity.
Qed.
Theorem weights_invariant k a b x0 h xs : 0 < a -> h <> 0 ->
  weights_1d opsR k (a * x0 + b) (a * h) (map (fun x => a * x + b) xs) = weights_1d opsR k x0 h xs.
Proof.
  intros Ha Hh. unfold weights_1d, dist1. rewrite map_map. apply map_ext. intros x.
  rewrite scaled_invariant by (try assumption; lra). reflexivity.
Qed.

(* ---------- least-squares consequences (empty penalty list) ---------- *)
Lemma wfP_nil nb : wfP nb [].
Proof. constructor. Qed.

Theorem lp_linear_in_y nb D w a b y y' beta beta' : wfB nb D ->
  length y = length y' -> length beta = length beta' ->
  Aop opsR nb D w [] beta = rhs opsR nb D w y -> Aop opsR nb D w [] beta' = rhs opsR nb D w y' ->
  Aop opsR nb D w [] (vadd opsR (vscale opsR a beta) (vscale opsR b beta')) =
  rhs opsR nb D w (vadd opsR (vscale opsR a y) (vscale opsR b y')).
Proof. intros. apply fit_linear_in_y; auto. apply wfP_nil. Qed.

(* reproduces polynomials up to the fitted degree: if the responses are D c (a polynomial of degree
   <= p in the scaled variable, i.e. in x), then c solves the local problem, so the estimate is the
   polynomial's value at the query point (u = 0: the intercept c_0) *)
Theorem lp_reproduces_poly nb D w c : wfB nb D ->
  Aop opsR nb D w [] c = rhs opsR nb D w (fitted opsR D c).
Proof. intros. apply reproduces_null_space'; auto; constructor. Qed.

(* responses outside the window (zero weight) do not matter *)
Theorem lp_local nb D w y y' :
  Forall2 (fun wy y'k => fst wy = 0 \/ snd wy = y'k) (combine w y) y' -> length y = length y' ->
  length w = length y -> rhs opsR nb D w y = rhs opsR nb D w y'.
Proof. apply zero_weight_ignored. Qed.

(* the estimate is unique when the weighted design is of full rank *)
Theorem lp_unique nb D w beta beta' : wfB nb D -> length beta = nb -> length beta' = nb ->
  (forall c, length c = nb -> dot opsR c (Aop opsR nb D w [] c) = 0 -> c = zeros opsR nb) ->
  Aop opsR nb D w [] beta = Aop opsR nb D w [] beta' -> vsub opsR beta beta' = zeros opsR nb.
Proof. intros. apply (coef_unique nb D w []); auto. apply wfP_nil. Qed.

(* the first entry of a design row is 1: the intercept IS the fitted value at the query point *)
Lemma pows_hd u p : nth 0 (pows opsR u p) 0 = 1.
Proof.
  induction p as [|p IH]; [reflexivity|]. cbn [pows].
  rewrite app_nth1; [exact IH|]. clear. induction p; simpl; [lia|]. rewrite app_length. simpl. lia.
Qed.
