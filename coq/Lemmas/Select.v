(* Lemmas/Select.v — proofs about Model/Select.v (discrete; stdlib + lia only). *)
From Coq Require Import ZArith List Bool Lia.
From FDAV Require Import Model.PyIndex Model.Select Lemmas.PyIndex.
Import ListNotations.
Local Open Scope Z_scope.

(* cut points a <= c1 <= c2 <= ... <= cm = n *)
Fixpoint chain (a : Z) (cuts : list Z) (n : Z) : Prop :=
  match cuts with
  | [] => a = n
  | b :: cuts' => a <= b /\ chain b cuts' n
  end.

Section Proofs.
  Context {obs : Type}.
  Notation dataset := (@dataset obs).

  (* ------------------------------------------------------------ list facts *)
  Lemma map_snd_combine : forall (A B : Type) (a : list A) (b : list B),
    length a = length b -> map snd (combine a b) = b.
  Proof.
    induction a as [|x a IH]; intros [|y b] H; simpl in *; try discriminate; try reflexivity.
    f_equal. apply IH. lia.
  Qed.
  Lemma map_fst_combine : forall (A B : Type) (a : list A) (b : list B),
    length a = length b -> map fst (combine a b) = a.
  Proof.
    induction a as [|x a IH]; intros [|y b] H; simpl in *; try discriminate; try reflexivity.
    f_equal. apply IH. lia.
  Qed.

  Lemma fresh_labels_length : forall n, length (fresh_labels n) = n.
  Proof. intros. unfold fresh_labels. now rewrite map_length, seq_length. Qed.

  Lemma content_fresh : forall l : list obs, content (fresh l) = l.
  Proof. intros. unfold content, fresh. apply map_snd_combine. apply fresh_labels_length. Qed.

  Lemma labels_fresh : forall l : list obs, labels (fresh l) = fresh_labels (length l).
  Proof. intros. unfold labels, fresh. apply map_fst_combine. apply fresh_labels_length. Qed.

  Lemma length_fresh : forall l : list obs, length (fresh l) = length l.
  Proof.
    intros. unfold fresh. rewrite combine_length, fresh_labels_length. lia.
  Qed.

  Lemma length_content : forall d : dataset, length (content d) = length d.
  Proof. intros. unfold content. apply map_length. Qed.

  Lemma fresh_content_fresh : forall l : list obs, fresh (content (fresh l)) = fresh l.
  Proof. intros. now rewrite content_fresh. Qed.

  (* ------------------------------------------------------------ pick *)
  Lemma pick_cons : forall (l : list obs) p ps x,
    nth_error l (Z.to_nat p) = Some x -> pick l (p :: ps) = x :: pick l ps.
  Proof. intros. unfold pick. simpl. now rewrite H. Qed.

  Lemma pick_valid : forall (l : list obs) ps,
    Forall (fun p => 0 <= p < Z.of_nat (length l)) ps ->
    length (pick l ps) = length ps /\
    forall r, (r < length ps)%nat ->
      nth_error (pick l ps) r = nth_error l (Z.to_nat (nth r ps 0)).
  Proof.
    intros l ps. induction ps as [|p ps IH]; intro V.
    - split; [reflexivity | intros; simpl in *; lia].
    - inversion V as [|? ? Hp Hps]; subst.
      destruct (nth_error l (Z.to_nat p)) as [x|] eqn:E.
      + rewrite (pick_cons _ _ _ _ E). destruct (IH Hps) as [L N]. split.
        * simpl. now rewrite L.
        * intros [|r] R; simpl; [now symmetry | apply N; simpl in R; lia].
      + apply nth_error_None in E. lia.
  Qed.

  Lemma skipn_nth_cons : forall (l : list obs) s x,
    nth_error l s = Some x -> skipn s l = x :: skipn (S s) l.
  Proof.
    induction l as [|y l IH]; intros [|s] x H; simpl in *; try discriminate.
    - now injection H as ->.
    - now apply IH.
  Qed.

  Lemma pick_seq : forall (l : list obs) c s, (s + c <= length l)%nat ->
    pick l (map Z.of_nat (seq s c)) = firstn c (skipn s l).
  Proof.
    intros l c. induction c as [|c IH]; intros s H; [reflexivity|].
    simpl seq. simpl map.
    destruct (nth_error l s) as [x|] eqn:E.
    - rewrite (pick_cons l (Z.of_nat s) _ x) by (now rewrite Nat2Z.id).
      rewrite (skipn_nth_cons _ _ _ E). simpl. f_equal. apply IH. lia.
    - apply nth_error_None in E. lia.
  Qed.

  Lemma skipn_add : forall (l : list obs) x y, skipn (x + y) l = skipn x (skipn y l).
  Proof.
    intros l x y. revert l. induction y as [|y IH]; intro l.
    - now rewrite Nat.add_0_r.
    - rewrite Nat.add_succ_r. destruct l as [|a l]; simpl.
      + now destruct x.
      + apply IH.
  Qed.

  Lemma seq_add_start : forall c s a,
    map Z.of_nat (seq (a + s) c) = map (fun m => Z.of_nat a + Z.of_nat m) (seq s c).
  Proof.
    induction c as [|c IH]; intros s a; [reflexivity|]. simpl. f_equal; [lia|].
    rewrite <- IH. f_equal. f_equal. lia.
  Qed.

  (* ------------------------------------------------------------ positions *)
  Lemma select_positions_valid : forall n ix ps,
    select_positions n ix = Ok ps -> Forall (fun p => 0 <= p < Z.of_nat n) ps.
  Proof.
    intros n [i|s|a] ps H; simpl in H.
    - destruct (wrap_index (Z.of_nat n) i) eqn:E; [|discriminate]. injection H as <-.
      apply wrap_index_spec in E. constructor; [lia | constructor].
    - unfold slice_positions in H.
      destruct (slice_indices (Z.of_nat n) s) as [[[i j] k]|] eqn:E; [|discriminate].
      injection H as <-.
      apply slice_indices_spec in E; [|lia]. tauto.
    - destruct (wrap_all (Z.of_nat n) a) eqn:E; [|discriminate]. injection H as <-.
      apply wrap_all_spec in E. tauto.
  Qed.

  (* ------------------------------------------------------------ getitem *)
  Theorem getitem_selects_exactly : forall (d d' : dataset) ix,
    getitem d ix = Ok d' ->
    exists ps, select_positions (length d) ix = Ok ps /\
      Forall (fun p => 0 <= p < Z.of_nat (length d)) ps /\
      length d' = length ps /\
      (forall r, (r < length ps)%nat ->
         nth_error (content d') r = nth_error (content d) (Z.to_nat (nth r ps 0))) /\
      labels d' = fresh_labels (length ps).
  Proof.
    intros d d' ix H. unfold getitem in H.
    destruct (select_positions (length d) ix) as [ps|e] eqn:E; [|discriminate].
    injection H as <-. exists ps. split; [reflexivity|].
    pose proof (select_positions_valid _ _ _ E) as V. split; [assumption|].
    rewrite <- length_content in V. destruct (pick_valid _ _ V) as [L N].
    rewrite length_fresh, content_fresh, labels_fresh, L. auto.
  Qed.

  (* what an index may fail with *)
  Lemma getitem_errors : forall (d : dataset) ix e, getitem d ix = Err e ->
    match ix with
    | IInt i => e = IndexError /\ wrap_index (Z.of_nat (length d)) i = None
    | ISlice s => e = ValueError /\ step_of s = 0
    | IArr a => e = IndexError /\ wrap_all (Z.of_nat (length d)) a = None
    end.
  Proof.
    intros d [i|s|a] e H; unfold getitem in H; simpl in H.
    - destruct (wrap_index _ i); [discriminate|]. now injection H as <-.
    - destruct (slice_positions _ s) eqn:E; [discriminate|]. injection H as <-. split; [reflexivity|].
      unfold slice_positions in E.
      destruct (slice_indices (Z.of_nat (length d)) s) as [[[? ?] ?]|] eqn:F; [discriminate|].
      now apply slice_indices_none in F.
    - destruct (wrap_all _ a); [discriminate|]. now injection H as <-.
  Qed.

  Lemma getitem_int : forall (d : dataset) r x, nth_error (content d) r = Some x ->
    getitem d (IInt (Z.of_nat r)) = Ok (fresh [x]).
  Proof.
    intros d r x H. unfold getitem. simpl.
    assert (R : (r < length d)%nat).
    { rewrite <- length_content. apply nth_error_Some. congruence. }
    rewrite wrap_index_nonneg by lia.
    unfold pick. simpl. rewrite Nat2Z.id, H. reflexivity.
  Qed.

  Lemma getitem_slice_ab : forall (d : dataset) a b,
    0 <= a -> a <= b -> b <= Z.of_nat (length d) ->
    getitem d (slice_ab a b)
    = Ok (fresh (firstn (Z.to_nat (b - a)) (skipn (Z.to_nat a) (content d)))).
  Proof.
    intros d a b Ha Hab Hb. unfold getitem, slice_ab. cbn [select_positions].
    rewrite slice_positions_ab by assumption. f_equal. f_equal.
    replace (map (fun m => a + Z.of_nat m) (seq 0 (Z.to_nat (b - a))))
      with (map Z.of_nat (seq (Z.to_nat a) (Z.to_nat (b - a)))).
    - apply pick_seq. rewrite length_content. lia.
    - rewrite <- (Nat.add_0_r (Z.to_nat a)) at 1. rewrite seq_add_start.
      apply map_ext. intros. lia.
  Qed.

  (* ------------------------------------------------------------ iteration *)
  Theorem iter_is_all_singletons : forall d : dataset,
    length (iter d) = length d /\
    (forall r, (r < length d)%nat ->
       getitem d (IInt (Z.of_nat r)) = Ok (nth r (iter d) [])) /\
    concat (map content (iter d)) = content d /\
    Forall (fun s => labels s = [0]) (iter d).
  Proof.
    intro d. unfold iter. repeat split.
    - now rewrite map_length, length_content.
    - intros r R. rewrite <- length_content in R.
      destruct (nth_error (content d) r) as [x|] eqn:E; [|apply nth_error_None in E; lia].
      rewrite (getitem_int _ _ _ E). f_equal.
      symmetry. apply nth_error_nth. now rewrite nth_error_map, E.
    - induction (content d) as [|x l IH]; [reflexivity|]. simpl. now rewrite IH.
    - apply Forall_forall. intros s I. apply in_map_iff in I. destruct I as [x [<- _]]. reflexivity.
  Qed.

  (* the sequence protocol (getitem 0, 1, ... until IndexError) enumerates exactly iter *)
  Lemma seq_iter_from : forall (d : dataset) r fuel,
    (r <= length d)%nat -> (length d - r < fuel)%nat ->
    seq_iter fuel (fun i => getitem d (IInt i)) (Z.of_nat r) = Ok (skipn r (iter d)).
  Proof.
    intros d r fuel. revert r. induction fuel as [|f IH]; intros r R F; [lia|].
    simpl. destruct (nth_error (content d) r) as [x|] eqn:E.
    - rewrite (getitem_int _ _ _ E).
      assert (R' : (r < length d)%nat).
      { rewrite <- length_content. apply nth_error_Some. congruence. }
      replace (Z.of_nat r + 1) with (Z.of_nat (S r)) by lia.
      rewrite IH by lia. f_equal.
      assert (N : nth_error (iter d) r = Some (fresh [x])).
      { unfold iter. now rewrite nth_error_map, E. }
      clear - N. revert r N. induction (iter d) as [|y l IHl]; intros [|r] N; simpl in *; try discriminate.
      + now injection N as ->.
      + now apply IHl.
    - apply nth_error_None in E. rewrite length_content in E.
      assert (r = length d) by lia. subst r.
      unfold getitem. simpl. rewrite wrap_index_out by lia.
      f_equal. symmetry. apply skipn_all2. unfold iter. rewrite map_length, length_content. lia.
  Qed.

  Theorem seq_protocol_iterates_all : forall d : dataset,
    seq_iter (S (length d)) (fun i => getitem d (IInt i)) 0 = Ok (iter d).
  Proof. intro d. apply (seq_iter_from d 0%nat); lia. Qed.

  (* ------------------------------------------------------------ concatenation *)
  Theorem concat_labels_fresh : forall ds : list dataset,
    labels (concatenate ds) = fresh_labels (length (concat (map content ds))) /\
    length (concatenate ds) = fold_right (fun d n => (length d + n)%nat) 0%nat ds.
  Proof.
    intro ds. unfold concatenate. rewrite labels_fresh, length_fresh. split; [reflexivity|].
    induction ds as [|d ds IH]; [reflexivity|]. simpl. rewrite app_length, IH, length_content. reflexivity.
  Qed.

  Lemma concatenate_fresh_pieces : forall ls : list (list obs),
    concatenate (map fresh ls) = fresh (concat ls).
  Proof.
    intro ls. unfold concatenate. f_equal. rewrite map_map.
    induction ls as [|l ls IH]; [reflexivity|]. simpl. now rewrite content_fresh, IH.
  Qed.

  Lemma pieces_content : forall (d : dataset) cuts a,
    0 <= a -> chain a cuts (Z.of_nat (length d)) ->
    exists ps, res_all (pieces d a cuts) = Ok ps /\
               concat (map content ps) = skipn (Z.to_nat a) (content d).
  Proof.
    intros d cuts. induction cuts as [|b cuts IH]; intros a Ha C; simpl in C.
    - exists []. split; [reflexivity|]. simpl. subst a. rewrite Nat2Z.id.
      symmetry. apply skipn_all2. rewrite length_content. lia.
    - destruct C as [Hab C].
      assert (Hb : b <= Z.of_nat (length d)).
      { clear - C. revert b C. induction cuts as [|c cuts IHc]; intros b C; simpl in C; [lia|].
        destruct C as [? C]. apply IHc in C. lia. }
      destruct (IH b ltac:(lia) C) as [ps [P Q]].
      eexists. split.
      { cbn [pieces res_all]. rewrite getitem_slice_ab by assumption. rewrite P. reflexivity. }
      cbn [map concat]. rewrite content_fresh, Q.
      replace (Z.to_nat b) with (Z.to_nat (b - a) + Z.to_nat a)%nat by lia.
      rewrite skipn_add. apply firstn_skipn.
  Qed.

  (* cutting a dataset at ANY increasing sequence of cut points 0 <= c1 <= ... <= n
     and concatenating the pieces gives back the freshly built dataset with the
     same content in the same order; so does concatenating what iteration yields *)
  Theorem concat_of_partition : forall (d : dataset) cuts,
    chain 0 cuts (Z.of_nat (length d)) ->
    (exists ps, res_all (pieces d 0 cuts) = Ok ps /\ concatenate ps = fresh (content d))
    /\ concatenate (iter d) = fresh (content d).
  Proof.
    intros d cuts C. split.
    - destruct (pieces_content d cuts 0 ltac:(lia) C) as [ps [P Q]].
      exists ps. split; [assumption|]. unfold concatenate. now rewrite Q.
    - unfold concatenate. f_equal. apply iter_is_all_singletons.
  Qed.

  (* a fresh dataset is its own canonical form: the original is recovered *)
  Lemma fresh_is_canonical : forall l : list obs, fresh (content (fresh l)) = fresh l.
  Proof. exact fresh_content_fresh. Qed.

  (* ------------------------------------------------------------ first-class *)
  (* every subset / iteration item / concatenation IS the freshly built dataset
     with its content, hence indistinguishable from it by any operation *)
  Theorem subset_is_fresh_dataset :
    (forall (d d' : dataset) ix, getitem d ix = Ok d' -> d' = fresh (content d')) /\
    (forall (d s : dataset), In s (iter d) -> s = fresh (content s)) /\
    (forall ds : list dataset, concatenate ds = fresh (content (concatenate ds))) /\
    (forall (A : Type) (op : dataset -> A) (d d' : dataset) ix,
        getitem d ix = Ok d' -> op d' = op (fresh (content d'))).
  Proof.
    assert (G : forall (d d' : dataset) ix, getitem d ix = Ok d' -> d' = fresh (content d')).
    { intros d d' ix H. unfold getitem in H.
      destruct (select_positions (length d) ix); [|discriminate]. injection H as <-.
      now rewrite content_fresh. }
    repeat split.
    - exact G.
    - intros d s I. unfold iter in I. apply in_map_iff in I. destruct I as [x [<- _]].
      now rewrite content_fresh.
    - intro ds. unfold concatenate. now rewrite content_fresh.
    - intros A op d d' ix H. f_equal. eapply G; eassumption.
  Qed.
End Proofs.

(* ---------------------------------------------------------------- defect F9 *)
Lemma analysis_keyerror_from_none : forall ls p,
  analysis_keyerror_from p ls = None <-> ls = map (fun m => p + Z.of_nat m) (seq 0 (length ls)).
Proof.
  induction ls as [|l ls IH]; intro p; simpl; [tauto|].
  destruct (l =? p) eqn:E.
  - apply Z.eqb_eq in E. subst l. rewrite IH. rewrite <- seq_shift, map_map.
    replace (p + 0) with p by lia.
    assert (M : map (fun m : nat => p + 1 + Z.of_nat m) (seq 0 (length ls))
                = map (fun x : nat => p + Z.of_nat (S x)) (seq 0 (length ls)))
      by (apply map_ext; intros; lia).
    rewrite M. split; intro H.
    + f_equal. exact H.
    + injection H as H. exact H.
  - apply Z.eqb_neq in E. split; [discriminate|]. intro H. injection H as H _. lia.
Qed.

(* the defect predicate: a label-pairing method completes iff the labels, in
   iteration order, are 0..k-1; otherwise KeyError at the first deviating position *)
Theorem analysis_keyerror_iff : forall ls,
  analysis_keyerror ls = None <-> ls = fresh_labels (length ls).
Proof.
  intro ls. unfold analysis_keyerror, fresh_labels. rewrite analysis_keyerror_from_none.
  split; intro H; rewrite H at 1; apply map_ext; intros; lia.
Qed.

Lemma analysis_keyerror_from_some : forall ls p q,
  analysis_keyerror_from p ls = Some q ->
  p <= q < p + Z.of_nat (length ls) /\ nth (Z.to_nat (q - p)) ls 0 <> q /\
  forall r, (r < Z.to_nat (q - p))%nat -> nth r ls 0 = p + Z.of_nat r.
Proof.
  induction ls as [|l ls IH]; intros p q H; simpl in H; [discriminate|].
  destruct (l =? p) eqn:E.
  - apply Z.eqb_eq in E. subst l. apply IH in H. destruct H as [B [N F]].
    replace (Z.to_nat (q - p)) with (S (Z.to_nat (q - (p + 1)))) by lia.
    repeat split; simpl length; try lia.
    + exact N.
    + intros [|r] R; simpl; [lia|]. rewrite F by lia. lia.
  - apply Z.eqb_neq in E. injection H as <-. replace (p - p) with 0 by lia.
    split; [simpl length; lia|]. split; [simpl; congruence|]. intros r R. simpl in R. lia.
Qed.

Theorem analysis_keyerror_first : forall ls q, analysis_keyerror ls = Some q ->
  0 <= q < Z.of_nat (length ls) /\ nth (Z.to_nat q) ls 0 <> q /\
  forall r, (r < Z.to_nat q)%nat -> nth r ls 0 = Z.of_nat r.
Proof.
  intros ls q H. apply analysis_keyerror_from_some in H.
  replace (q - 0) with q in H by lia. destruct H as [B [N F]].
  split; [lia|]. split; [exact N|]. intros r R. rewrite F by exact R. lia.
Qed.

Lemma fresh_has_no_keyerror : forall (obs : Type) (l : list obs),
  analysis_keyerror (labels (fresh l)) = None.
Proof.
  intros. apply analysis_keyerror_iff. rewrite labels_fresh. now rewrite fresh_labels_length.
Qed.

(* witnesses on observations 10, 11, 12 *)
Definition wd : @dataset nat := fresh [10; 11; 12]%nat.

Theorem getitem_keep_labels_refuted :
  exists ix d1 d2, getitem wd ix = Ok d1 /\ getitem_keep_labels wd ix = Ok d2 /\
    content d1 = content d2 /\ labels d1 = [0; 1] /\ labels d2 = [1; 2] /\
    analysis_keyerror (labels d1) = None /\ analysis_keyerror (labels d2) = Some 0.
Proof.
  exists (ISlice (mkslice (Some 1) (Some 3) None)). eexists. eexists.
  repeat split; vm_compute; reflexivity.
Qed.

Theorem negative_index_refuted :
  getitem wd (IInt (-1)) = Ok (fresh [12%nat]) /\
  getitem_keep_labels wd (IInt (-1)) = Err (KeyError (-1)) /\
  getitem wd (IArr [-1]) = Ok (fresh [12%nat]) /\
  getitem_keep_labels wd (IArr [-1]) = Err TypeError /\
  getitem wd (IInt 3) = Err IndexError /\
  getitem_keep_labels wd (IInt 3) = Err (KeyError 3).
Proof. repeat split; vm_compute; reflexivity. Qed.

(* duplicates in an index array collapse under the keep-labels rule *)
Theorem duplicate_index_refuted :
  (length (content (fresh [10; 10; 11]%nat)) = 3)%nat /\
  getitem wd (IArr [0; 0; 1]) = Ok (fresh [10; 10; 11]%nat) /\
  getitem_keep_labels wd (IArr [0; 0; 1]) = Ok [(0, 10%nat); (1, 11%nat)].
Proof. repeat split; vm_compute; reflexivity. Qed.

(* concatenate(a[0], a[1], a[0]) under the `len + key` rule: labels [0, 2] and
   observation 11 is LOST (overwritten), where the correct result has 3 observations *)
Theorem relabel_shift_refuted :
  exists a0 a1 : @dataset nat,
    getitem_keep_labels wd (IInt 0) = Ok a0 /\ getitem_keep_labels wd (IInt 1) = Ok a1 /\
    concatenate [a0; a1; a0] = fresh [10; 11; 10]%nat /\
    relabel_shift [a0; a1; a0] = [(0, 10%nat); (2, 10%nat)] /\
    ~ In 11%nat (content (relabel_shift [a0; a1; a0])).
Proof.
  eexists. eexists. repeat split; try (vm_compute; reflexivity).
  vm_compute. intros [H|[H|[]]]; discriminate.
Qed.

(* concatenating what iteration yields (multivariate `normalize`): gapped labels *)
Theorem relabel_shift_gapped :
  labels (relabel_shift (iter_keep_labels wd)) = [0; 2; 4] /\
  labels (concatenate (iter wd)) = [0; 1; 2] /\
  content (relabel_shift (iter_keep_labels wd)) = content wd.
Proof. repeat split; vm_compute; reflexivity. Qed.

(* the sequence protocol over label look-ups ends in KeyError instead of stopping *)
Theorem seq_iter_keep_labels_refuted :
  seq_iter 4 (fun i => getitem_keep_labels wd (IInt i)) 0 = Err (KeyError 3) /\
  seq_iter 4 (fun i => getitem wd (IInt i)) 0 = Ok (iter wd).
Proof. split; vm_compute; reflexivity. Qed.
