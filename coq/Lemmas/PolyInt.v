(* Lemmas/PolyInt.v — the exact polynomial integral of Model/Poly.v IS the Riemann integral:
   is_RInt (peval p) (-1) 1 (pint11 p), for every coefficient list p (Coquelicot). *)
From Coq Require Import List Reals Lra Lia Arith.
From Coquelicot Require Import Coquelicot.
From FDAV Require Import Base.Num Base.Vec Model.Basis Model.Poly Lemmas.Vec Lemmas.Stats Lemmas.Legendre.
Import ListNotations.
Local Open Scope R_scope.

Notation pevalR := (peval opsR).

(* x^(i+1) * (sum_k p_k/(i+k+1) x^k) has derivative x^i * p(x) *)
Lemma anti_from_derive : forall (p : list R) (i : nat) (x : R),
  is_derive (fun x => x ^ (S i) * pevalR (anti_from opsR p i) x) x (x ^ i * pevalR p x).
Proof.
  induction p as [|a p IH]; intros i x.
  - cbn [anti_from peval]. cbn [o0 opsR].
    apply (is_derive_ext (fun _ => 0)); [intros t; change (@eq R 0 (t ^ S i * 0)); ring|].
    replace (x ^ i * 0) with 0 by ring. apply @is_derive_const.
  - cbn [anti_from]. rewrite !peval_cons.
    rewrite oofnatR, odivR by (apply not_0_INR; lia).
    apply (is_derive_ext (fun t => a / INR (S i) * t ^ (S i) + t ^ (S (S i)) * pevalR (anti_from opsR p (S i)) t)).
    { intros t. change (@eq R (a / INR (S i) * t ^ S i + t ^ S (S i) * pevalR (anti_from opsR p (S i)) t)
                          (t ^ S i * (a / INR (S i) + t * pevalR (anti_from opsR p (S i)) t))). simpl pow. ring. }
    replace (x ^ i * (a + x * pevalR p x)) with (a / INR (S i) * (INR (S i) * x ^ i) + x ^ (S i) * pevalR p x)
      by (simpl pow; field; apply not_0_INR; lia).
    apply @is_derive_plus.
    + apply is_derive_scal. 
      replace (INR (S i) * x ^ i) with (INR (S i) * 1 * x ^ (pred (S i))) by (simpl pred; ring).
      apply (is_derive_pow (fun t => t) (S i) x 1). apply @is_derive_id.
    + apply IH.
Qed.

Lemma peval_anti p x : pevalR (anti opsR p) x = x ^ 1 * pevalR (anti_from opsR p 0) x.
Proof. unfold anti. rewrite peval_cons. cbn [o0 opsR]. simpl pow. ring. Qed.

Lemma anti_derive p x : is_derive (fun x => pevalR (anti opsR p) x) x (pevalR p x).
Proof.
  apply (is_derive_ext (fun t => t ^ 1 * pevalR (anti_from opsR p 0) t)); [intros t; symmetry; apply peval_anti|].
  replace (pevalR p x) with (x ^ 0 * pevalR p x) by (simpl pow; ring). apply anti_from_derive.
Qed.

Lemma peval_continuous p x : continuous (fun x => pevalR p x) x.
Proof.
  induction p as [|a p IH].
  - cbn [peval]. apply continuous_const.
  - apply (continuous_ext (fun t => a + t * pevalR p t)); [intros t; symmetry; apply peval_cons|].
    apply (continuous_plus (fun _ => a) (fun t => t * pevalR p t)); [apply continuous_const|].
    apply (continuous_mult (fun t => t) (fun t => pevalR p t)); [apply continuous_id|exact IH].
Qed.

Theorem pint11_is_RInt p : is_RInt (fun x => pevalR p x) (-1) 1 (pint11 opsR p).
Proof.
  unfold pint11. rewrite osubR. cbn [o1 oopp opsR].
  apply (is_RInt_derive (fun x => pevalR (anti opsR p) x) (fun x => pevalR p x)).
  - intros x _. apply anti_derive.
  - intros x _. apply peval_continuous.
Qed.

(* Legendre polynomials (the values of Bonnet's recurrence, Model/Basis.v) are orthogonal on [-1,1] as RIEMANN
   integrals, with squared norm 2/(2k+1) — for all degrees <= 15 (the property's range) *)
Theorem legendre_RInt_orthogonal j k : (j <= 15)%nat -> (k <= 15)%nat -> j <> k ->
  is_RInt (fun x => legendre opsR j x * legendre opsR k x) (-1) 1 0.
Proof.
  intros Hj Hk Hne.
  apply (is_RInt_ext (fun x => pevalR (pmul opsR (leg_poly opsR j) (leg_poly opsR k)) x)).
  - intros x _. apply leg_product_eval.
  - rewrite <- (legendre_orthogonal_upto15 j k Hj Hk Hne). apply pint11_is_RInt.
Qed.
Theorem legendre_RInt_norm k : (k <= 15)%nat ->
  is_RInt (fun x => legendre opsR k x * legendre opsR k x) (-1) 1 (2 / INR (2 * k + 1)).
Proof.
  intros Hk.
  apply (is_RInt_ext (fun x => pevalR (pmul opsR (leg_poly opsR k) (leg_poly opsR k)) x)).
  - intros x _. apply leg_product_eval.
  - rewrite <- (legendre_norm_upto15 k Hk). apply pint11_is_RInt.
Qed.
