(* Lemmas/CovPerm.v — the sample covariance does not depend on the order of the observations (C09). *)
From Coq Require Import List Bool Reals Lra Lia Arith Permutation.
From FDAV Require Import Base.Num Base.Vec Model.Stats Lemmas.Vec Lemmas.Gram Lemmas.Stats Lemmas.Scores.
Import ListNotations.
Local Open Scope R_scope.

Lemma nth_map2_cons (r : list R) : forall (T : list (list R)) s, length r = length T -> (s < length r)%nat ->
  nth s (map2 cons r T) [] = nth s r 0 :: nth s T [].
Proof.
  induction r as [|a r IH]; intros [|t T] s H Hs; simpl in *; try lia.
  destruct s as [|s]; [reflexivity|]. apply IH; lia.
Qed.

Lemma transpose_nth m : forall (X : list (list R)) s, Forall (fun r => length r = m) X -> (s < m)%nat ->
  nth s (transpose m X) [] = map (fun r => nth s r 0) X.
Proof.
  induction X as [|r X IH]; intros s HX Hs.
  - unfold transpose. simpl. rewrite nth_repeat. reflexivity.
  - pose proof (Forall_inv HX) as Hr. pose proof (Forall_inv_tail HX) as HX'. cbv beta in Hr.
    destruct (transpose_rows m X HX') as [TL _].
    change (transpose m (r :: X)) with (map2 cons r (transpose m X)).
    rewrite nth_map2_cons by lia. rewrite IH by assumption. reflexivity.
Qed.

Lemma dot_map_map {A} (f g : A -> R) (l : list A) :
  dotR (map f l) (map g l) = vsumR (map (fun a => f a * g a) l).
Proof. induction l as [|a l IH]; [reflexivity|]. simpl map. rewrite dot_cons, vsum_cons, IH. reflexivity. Qed.

Lemma vsum_perm l l' : Permutation l l' -> vsumR l = vsumR l'.
Proof.
  induction 1 as [|a l l' _ IH|a b l|l l' l'' _ IH1 _ IH2]; try reflexivity.
  - rewrite !vsum_cons, IH. reflexivity.
  - rewrite !vsum_cons. lra.
  - congruence.
Qed.

(* entries of the covariance as sums over the centred observations *)
Theorem cov_entry_rows m X s t : Forall (fun r => length r = m) X -> (2 <= length X)%nat ->
  (s < m)%nat -> (t < m)%nat ->
  ent (cov opsR m X) s t =
  vsumR (map (fun r => nth s r 0 * nth t r 0) (center opsR m X)) / INR (length X - 1).
Proof.
  intros HX Hn Hs Ht. unfold cov, cols.
  pose proof (center_rows_length m X HX) as HC. unfold center in HC.
  destruct (transpose_rows m (center_rows opsR m X) HC) as [TL _].
  rewrite cov_entry by (rewrite ?TL; assumption).
  rewrite !transpose_nth by assumption. rewrite dot_map_map. reflexivity.
Qed.

Lemma center_rows_perm m X X' : Permutation X X' -> Permutation (center opsR m X) (center opsR m X').
Proof.
  intros H. unfold center, center_rows. fold (mean opsR m X). fold (mean opsR m X').
  rewrite (mean_perm m X X' H). apply Permutation_map. exact H.
Qed.

Theorem cov_perm_entry m X X' s t : Permutation X X' -> Forall (fun r => length r = m) X ->
  (2 <= length X)%nat -> (s < m)%nat -> (t < m)%nat ->
  ent (cov opsR m X) s t = ent (cov opsR m X') s t.
Proof.
  intros HP HX Hn Hs Ht.
  assert (HX' : Forall (fun r => length r = m) X') by (eapply Permutation_Forall; eauto).
  rewrite !cov_entry_rows by (try assumption; rewrite <- (Permutation_length HP); assumption).
  rewrite (Permutation_length HP). f_equal. apply vsum_perm. apply Permutation_map. apply center_rows_perm. exact HP.
Qed.
