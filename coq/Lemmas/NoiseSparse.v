(* Lemmas/NoiseSparse.v — proofs about Model/NoiseSparse.v.
   Part 1 (numeric, real instance): noise.  Part 2 (discrete, no axioms):
   sparsification and the fault machine. *)
From Coq Require Import List Bool Arith Lia.
From FDAV Require Import Base.Num Base.Vec Model.NoiseSparse.
Import ListNotations.

(* ====================================================================== *)
(* Part 2 first: it must stay free of the real numbers.                    *)
(* ====================================================================== *)

Section SparseFacts.
  Context {A : Type}.
  Implicit Types (x : list A) (m : list bool).

  Lemma sparsify_length m : forall x, length m = length x -> length (sparsify m x) = length x.
  Proof.
    induction m as [|b m IH]; intros [|v x] H; simpl in *; try discriminate; auto.
  Qed.

  (* every kept cell has its source value, every other cell is missing *)
  Lemma sparsify_nth m : forall x k (d : A), length m = length x -> k < length x ->
    nth k (sparsify m x) None = if nth k m false then Some (nth k x d) else None.
  Proof.
    induction m as [|b m IH]; intros [|v x] k d H Hk; simpl in *; try discriminate; try lia.
    destruct k as [|k].
    - destruct b; reflexivity.
    - apply IH; lia.
  Qed.

  Lemma sparsify_cell m : forall x k c, length m = length x ->
    nth_error (sparsify m x) k = Some c ->
    exists b v, nth_error m k = Some b /\ nth_error x k = Some v /\
                c = if b then Some v else None.
  Proof.
    induction m as [|b m IH]; intros [|v x] k c H Hc; simpl in *; try discriminate;
      try (destruct k; discriminate).
    destruct k as [|k]; simpl in *.
    - exists b, v. inversion Hc. auto.
    - apply IH; auto.
  Qed.

  Lemma count_kept_sparsify m : forall x, length m = length x ->
    count_kept (sparsify m x) = count_true m.
  Proof.
    unfold count_kept, count_true.
    induction m as [|b m IH]; intros [|v x] H; simpl in *; try discriminate; auto.
    destruct b; simpl; rewrite IH by lia; reflexivity.
  Qed.

  Lemma set_true_length m : forall i, length (set_true m i) = length m.
  Proof. induction m as [|b m IH]; intros [|i]; simpl; auto. Qed.

  Lemma set_true_nth m : forall i k, i < length m ->
    nth k (set_true m i) false = if k =? i then true else nth k m false.
  Proof.
    induction m as [|b m IH]; intros [|i] [|k] H; simpl in *; try lia; auto.
    apply IH. lia.
  Qed.

  Lemma count_true_ge2 m : forall i j, i < length m -> j < length m -> i <> j ->
    nth i m false = true -> nth j m false = true -> 2 <= count_true m.
  Proof.
    unfold count_true.
    induction m as [|b m IH]; intros i j Hi Hj Hij Ei Ej; simpl in *; try lia.
    destruct i as [|i], j as [|j]; try lia.
    - subst b. simpl. clear IH Hi Hij.
      assert (1 <= length (filter (fun b : bool => b) m)); [|lia].
      revert j Hj Ej. induction m as [|c m IHm]; intros j Hj Ej; simpl in *; try lia.
      destruct j as [|j]; [subst c; simpl; lia|].
      destruct c; simpl; [lia|]. apply (IHm j); [lia|exact Ej].
    - subst b. simpl. clear IH Hj Hij.
      assert (1 <= length (filter (fun b : bool => b) m)); [|lia].
      revert i Hi Ei. induction m as [|c m IHm]; intros i Hi Ei; simpl in *; try lia.
      destruct i as [|i]; [subst c; simpl; lia|].
      destruct c; simpl; [lia|]. apply (IHm i); [lia|exact Ei].
    - assert (2 <= length (filter (fun b : bool => b) m)) by (apply (IH i j); auto; lia).
      destruct b; simpl; lia.
  Qed.

  Lemma min_two_length m p : length (min_two m p) = length m.
  Proof.
    unfold min_two. destruct (count_true m <? 2); [|reflexivity].
    rewrite !set_true_length. reflexivity.
  Qed.

  Lemma min_two_count m p : distinct_pair (length m) p = true -> 2 <= count_true (min_two m p).
  Proof.
    unfold distinct_pair, min_two. destruct p as [i j]. cbn [fst snd]. intros H.
    apply andb_prop in H. destruct H as [H Hd]. apply andb_prop in H. destruct H as [Hi Hj].
    apply Nat.ltb_lt in Hi, Hj. apply negb_true_iff, Nat.eqb_neq in Hd.
    destruct (count_true m <? 2) eqn:E; [|apply Nat.ltb_ge in E; exact E].
    apply (count_true_ge2 _ i j); rewrite ?set_true_length; auto.
    - rewrite set_true_nth by (rewrite set_true_length; exact Hj).
      destruct (i =? j) eqn:Eij; [reflexivity|].
      rewrite set_true_nth by exact Hi. rewrite Nat.eqb_refl. reflexivity.
    - rewrite set_true_nth by (rewrite set_true_length; exact Hj).
      rewrite Nat.eqb_refl. reflexivity.
  Qed.

  (* the rule only ever adds samples: what the drawn mask kept stays kept *)
  Lemma min_two_keeps m p k : nth k m false = true -> nth k (min_two m p) false = true.
  Proof.
    unfold min_two. destruct (count_true m <? 2); [|auto]. intros H.
    assert (G : forall m' i k', nth k' m' false = true -> nth k' (set_true m' i) false = true).
    { clear. induction m' as [|b m' IH]; intros [|i] [|k'] Hk; simpl in *; auto; discriminate. }
    apply G, G, H.
  Qed.

  Theorem sparsify_keeps_subset_lemma m p x k (d : A) :
    length m = length x -> k < length x ->
    nth k (sparsify_curve m p x) None =
      if nth k (min_two m p) false then Some (nth k x d) else None.
  Proof.
    intros H Hk. unfold sparsify_curve. apply sparsify_nth; [|exact Hk].
    rewrite min_two_length. exact H.
  Qed.

  Theorem sparsify_at_least_two_lemma m p x :
    2 <= length x -> length m = length x -> distinct_pair (length x) p = true ->
    2 <= count_kept (sparsify_curve m p x) /\ length (sparsify_curve m p x) = length x.
  Proof.
    intros _ H Hp. unfold sparsify_curve. split.
    - rewrite count_kept_sparsify by (rewrite min_two_length; exact H).
      apply min_two_count. rewrite H. exact Hp.
    - apply sparsify_length. rewrite min_two_length. exact H.
  Qed.
End SparseFacts.

(* F13(b): with replacement the two fallback positions can coincide *)
Lemma fallback_with_replacement_refuted_lemma :
  exists (m : list bool) (p : nat * nat) (x : list nat),
    2 <= length x /\ length m = length x /\ any_pair (length x) p = true /\
    count_kept (sparsify_curve m p x) < 2.
Proof.
  exists [false; false; false], (1, 1), [10; 20; 30]. vm_compute. repeat split; auto.
Qed.

Section MachineFacts.
  Context {D Sp : Type}.
  Context (noisef : D -> D) (sparsef : D -> option Sp) (is2d : D -> bool).
  Notation simT := (sim D Sp).
  Notation run' := (run noisef sparsef is2d).
  Notation exec1' := (exec1 noisef sparsef is2d).
  Notation combined' := (combined noisef sparsef is2d).
  Notation do_call' := (do_call noisef sparsef is2d).
  Notation run_calls' := (run_calls noisef sparsef is2d).

  Lemma exec1_data i (s : simT) : data (final (exec1' i s)) = data s.
  Proof.
    destruct i; cbn [exec1]; try reflexivity;
      destruct (data s) as [d|] eqn:E; cbn [final data]; rewrite ?E; try reflexivity.
    - destruct (is2d d); cbn [final]; exact E.
    - destruct (sparsef d); cbn [final data]; rewrite ?E; reflexivity.
  Qed.

  (* no internal call of add_noise / sparsify writes the clean data: by
     induction over the list of calls, for every fault schedule *)
  Lemma run_data p : forall k (s : simT), data (final (fst (run' p k s))) = data s.
  Proof.
    induction p as [|i p IH]; intros k s; [reflexivity|].
    cbn [run]. destruct k as [[|n]|].
    - reflexivity.
    - pose proof (exec1_data i s) as E. destruct (exec1' i s) as [s'|s']; cbn [final] in E.
      + rewrite IH. exact E.
      + exact E.
    - pose proof (exec1_data i s) as E. destruct (exec1' i s) as [s'|s']; cbn [final] in E.
      + rewrite IH. exact E.
      + exact E.
  Qed.

  Theorem clean_data_restored_lemma p1 p2 k (s : simT) :
    data (final (combined' p1 p2 k s)) = data s.
  Proof.
    unfold combined. pose proof (run_data p1 k s) as E1.
    destruct (run' p1 k s) as [[s1|s1] k1]; cbn [fst final] in *; [|exact E1].
    destruct (run' p2 k1 (set_data s1 (noisy s1))) as [[s2|s2] k2]; cbn [final set_data data]; exact E1.
  Qed.

  (* the same, phrased with an explicit fault position: whichever of the calls
     fails (positions beyond the end mean "none fails") *)
  Corollary clean_data_restored_at_every_position p1 p2 (s : simT) :
    forall n, data (final (combined' p1 p2 (Some n) s)) = data s.
  Proof. intros n. apply clean_data_restored_lemma. Qed.

  (* without injected faults the operation succeeds on supported data and
     stores sparsify(noisy) *)
  Lemma run_calls_only a : forall k (s : simT), k = None \/ (exists n, k = Some n /\ a <= n) ->
    run' (repeat ICall a) k s = (Done s, match k with Some n => Some (n - a) | None => None end).
  Proof.
    induction a as [|a IH]; intros k s Hk; cbn [repeat run].
    - destruct k as [n|]; [rewrite Nat.sub_0_r|]; reflexivity.
    - destruct k as [[|n]|].
      + destruct Hk as [Hk|[m [Hm Hle]]]; [discriminate|]. inversion Hm; subst. lia.
      + cbn [exec1 pred_fault]. rewrite IH.
        * reflexivity.
        * right. destruct Hk as [Hk|[m [Hm Hle]]]; [discriminate|]. inversion Hm; subst.
          exists n. split; [reflexivity|lia].
      + cbn [exec1 pred_fault]. rewrite IH by (left; reflexivity). reflexivity.
  Qed.

  Lemma run_app p : forall q k (s : simT),
    run' (p ++ q) k s =
    match run' p k s with
    | (Done s', k') => run' q k' s'
    | (Raised s', k') => (Raised s', k')
    end.
  Proof.
    induction p as [|i p IH]; intros q k s; cbn [app run]; [reflexivity|].
    destruct k as [[|n]|]; try reflexivity.
    - destruct (exec1' i s); [apply IH|reflexivity].
    - destruct (exec1' i s); [apply IH|reflexivity].
  Qed.

  Lemma add_noise_body_ok a (s : simT) d : data s = Some d ->
    run' (add_noise_body a) None s =
    (Done {| data := Some d; noisy := Some (noisef d); sparse := sparse s |}, None).
  Proof.
    intros Hd. unfold add_noise_body. cbn [run exec1 pred_fault]. rewrite Hd.
    rewrite run_app, run_calls_only by (left; reflexivity).
    cbn [run exec1 pred_fault]. rewrite Hd. reflexivity.
  Qed.

  Lemma sparsify_body_ok b (s : simT) d r : data s = Some d -> is2d d = false -> sparsef d = Some r ->
    run' (sparsify_body b) None s =
    (Done {| data := Some d; noisy := noisy s; sparse := Some r |}, None).
  Proof.
    intros Hd H2 Hr. unfold sparsify_body. cbn [run exec1 pred_fault]. rewrite Hd.
    cbn [run exec1 pred_fault]. rewrite Hd, H2.
    rewrite run_app, run_calls_only by (left; reflexivity).
    cbn [run exec1 pred_fault]. rewrite Hd, Hr. reflexivity.
  Qed.

  Lemma sparsify_body_2d b (s : simT) d : data s = Some d -> is2d d = true ->
    run' (sparsify_body b) None s = (Raised s, None).
  Proof.
    intros Hd H2. unfold sparsify_body. cbn [run exec1 pred_fault]. rewrite Hd.
    cbn [run exec1 pred_fault]. rewrite Hd, H2. reflexivity.
  Qed.

  Theorem combined_is_sparsify_of_noisy_lemma a b (s : simT) d r :
    data s = Some d -> is2d (noisef d) = false -> sparsef (noisef d) = Some r ->
    combined' (add_noise_body a) (sparsify_body b) None s =
    Done {| data := Some d; noisy := Some (noisef d); sparse := Some r |}.
  Proof.
    intros Hd H2 Hr. unfold combined. rewrite (add_noise_body_ok a s d Hd).
    cbn [data noisy set_data sparse].
    rewrite (sparsify_body_ok b _ (noisef d) r); cbn [data noisy set_data sparse]; auto.
  Qed.

  (* the natural failure: 2-D data make _check_dimension raise inside sparsify,
     while the noisy data are swapped in; the clean data come back *)
  Theorem natural_2d_failure_lemma a b (s : simT) d :
    data s = Some d -> is2d (noisef d) = true ->
    combined' (add_noise_body a) (sparsify_body b) None s =
    Raised {| data := Some d; noisy := Some (noisef d); sparse := sparse s |}.
  Proof.
    intros Hd H2. unfold combined. rewrite (add_noise_body_ok a s d Hd).
    cbn [data noisy set_data sparse].
    rewrite (sparsify_body_2d b _ (noisef d)); cbn [data noisy set_data sparse]; auto.
  Qed.

  (* histories: add_noise, sparsify and the combined operation, in any order,
     each with any fault schedule, the simulator being reused after exceptions *)
  Lemma do_call_data c (s : simT) : data (final (do_call' c s)) = data s.
  Proof.
    destruct c as [[a|b|a b] k]; unfold do_call; cbn [fst snd].
    - apply run_data.
    - apply run_data.
    - apply clean_data_restored_lemma.
  Qed.

  Theorem source_untouched_lemma cs : forall s : simT, data (run_calls' cs s) = data s.
  Proof.
    unfold run_calls. induction cs as [|c cs IH]; intros s; cbn [fold_left]; [reflexivity|].
    rewrite IH. apply do_call_data.
  Qed.
End MachineFacts.

(* F13(a): without try/finally the natural 2-D failure leaves the noisy data in [data] *)
Lemma swap_without_finally_refuted_lemma :
  exists (noisef : nat -> nat) (sparsef : nat -> option nat) (is2d : nat -> bool)
         (k : option nat) (s : sim nat nat),
    data (final (combined_nofinally noisef sparsef is2d (add_noise_body 1) (sparsify_body 1) k s))
    <> data s.
Proof.
  exists (fun d => d + 1), (fun d => Some d), (fun _ => true), None,
         {| data := Some 7; noisy := None; sparse := None |}.
  vm_compute. discriminate.
Qed.
(* ... and so does an injected fault in a supported (1-D) configuration *)
Lemma swap_without_finally_refuted_fault_lemma :
  exists (k : option nat) (s : sim nat nat),
    data (final (combined_nofinally (fun d => d + 1) (fun d => Some d) (fun _ => false)
                                    (add_noise_body 1) (sparsify_body 1) k s))
    <> data s.
Proof.
  exists (Some 4), {| data := Some 7; noisy := None; sparse := None |}.
  vm_compute. discriminate.
Qed.

(* ====================================================================== *)
(* Part 1: noise, at the real-number instance (and transfer of the Q run)  *)
(* ====================================================================== *)
From Coq Require Import Reals Lra QArith Qreals.
From FDAV Require Import Lemmas.Vec.
Local Open Scope R_scope.

Lemma add_noise_nil_l s x : add_noise opsR s [] x = [].
Proof. destruct x; reflexivity. Qed.
Lemma add_noise_cons s a z b x :
  add_noise opsR s (a :: z) (b :: x) = (b + s * a) :: add_noise opsR s z x.
Proof. reflexivity. Qed.

Lemma add_noise_length s : forall z x, length z = length x -> length (add_noise opsR s z x) = length x.
Proof.
  induction z as [|a z IH]; intros [|b x] H; simpl in H; try discriminate; [reflexivity|].
  rewrite add_noise_cons. simpl. rewrite IH by lia. reflexivity.
Qed.

(* result - source = s * z, pointwise *)
Lemma noise_difference s : forall z x, length z = length x ->
  vsub opsR (add_noise opsR s z x) x = vscale opsR s z.
Proof.
  induction z as [|a z IH]; intros [|b x] H; simpl in H; try discriminate; [reflexivity|].
  rewrite add_noise_cons.
  change (vsub opsR ((b + s * a) :: add_noise opsR s z x) (b :: x))
    with ((b + s * a - b) :: vsub opsR (add_noise opsR s z x) x).
  change (vscale opsR s (a :: z)) with (s * a :: vscale opsR s z).
  rewrite IH by lia. f_equal. ring.
Qed.

Lemma sqrt_oracle s v : 0 <= s -> s * s = v -> s = sqrt v.
Proof. intros Hs <-. symmetry. apply sqrt_square. exact Hs. Qed.

Theorem noise_difference_is_draw_lemma v s z x :
  0 <= s -> s * s = v -> length z = length x ->
  vsub opsR (add_noise opsR s z x) x = vscale opsR (sqrt v) z.
Proof. intros Hs Hv H. rewrite <- (sqrt_oracle s v Hs Hv). apply noise_difference. exact H. Qed.

Theorem noise_difference_nth v s z x k :
  0 <= s -> s * s = v -> length z = length x ->
  nth k (add_noise opsR s z x) 0 - nth k x 0 = sqrt v * nth k z 0.
Proof.
  intros Hs Hv. rewrite <- (sqrt_oracle s v Hs Hv). clear Hv Hs. revert x k.
  induction z as [|a z IH]; intros [|b x] k H; simpl in H; try discriminate.
  - destruct k; cbn; lra.
  - rewrite add_noise_cons. destruct k as [|k]; cbn [nth]; [lra|]. apply IH. lia.
Qed.

Theorem noise_zero_variance_identity_lemma s z x :
  0 <= s -> s * s = 0 -> length z = length x -> add_noise opsR s z x = x.
Proof.
  intros Hs H0 H. assert (s = 0) by nra. subst s. clear Hs H0. revert x H.
  induction z as [|a z IH]; intros [|b x] H; simpl in H; try discriminate; [reflexivity|].
  rewrite add_noise_cons, IH by lia. f_equal. ring.
Qed.

(* same grid, same shape: dataset level *)
Lemma add_noise_m_shape s : forall Z X, map (@length R) Z = map (@length R) X ->
  map (@length R) (add_noise_m opsR s Z X) = map (@length R) X.
Proof.
  unfold add_noise_m.
  induction Z as [|z Z IH]; intros [|x X] H; simpl in H; try discriminate; [reflexivity|].
  inversion H. cbn [map2 map]. rewrite add_noise_length by assumption. rewrite IH by assumption.
  reflexivity.
Qed.

Theorem noise_same_grid_lemma s Z (d : list R * list (list R)) :
  map (@length R) Z = map (@length R) (snd d) ->
  fst (add_noise_ds opsR s Z d) = fst d /\
  length (snd (add_noise_ds opsR s Z d)) = length (snd d) /\
  map (@length R) (snd (add_noise_ds opsR s Z d)) = map (@length R) (snd d).
Proof.
  intros H. unfold add_noise_ds. cbn [fst snd]. split; [reflexivity|].
  pose proof (add_noise_m_shape s Z (snd d) H) as E. split; [|exact E].
  rewrite <- (map_length (@length R)), E, map_length. reflexivity.
Qed.

(* dataset level: every curve differs from its source by s * its draw *)
Theorem noise_difference_dataset v s : forall Z X, 0 <= s -> s * s = v ->
  map (@length R) Z = map (@length R) X ->
  map2 (vsub opsR) (add_noise_m opsR s Z X) X = map (vscale opsR (sqrt v)) Z.
Proof.
  intros Z X Hs Hv. unfold add_noise_m. revert X.
  induction Z as [|z Z IH]; intros [|x X] H; simpl in H; try discriminate; [reflexivity|].
  inversion H. cbn [map2 map]. rewrite IH by assumption.
  rewrite (noise_difference_is_draw_lemma v s z x) by assumption. reflexivity.
Qed.

(* the executable run on rationals IS this model on the same numbers *)
Theorem add_noise_transfer (s : Q) (z x : list Q) :
  map Q2R (add_noise opsQ s z x) = add_noise opsR (Q2R s) (map Q2R z) (map Q2R x).
Proof.
  symmetry. apply list_QR_inv.
  exact (add_noise_R Q R QR opsQ opsR opsQR s _ eq_refl z _ (list_QR z) x _ (list_QR x)).
Qed.
