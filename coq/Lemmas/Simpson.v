(* Lemmas/Simpson.v — facts about the Simpson model (Model/Simpson.v) at R:
   the three-point rule and the last-interval correction integrate every quadratic exactly, the
   composite rule therefore too (odd and even numbers of points, arbitrary spacings); the rule is
   linear in the integrand and factorises over product grids. *)
From Coq Require Import List Bool Reals Lra Lia Arith.
From FDAV Require Import Base.Num Base.Vec Lemmas.Vec Lemmas.Stats.
From FDAV Require Import Model.Simpson.
Import ListNotations.
Local Open Scope R_scope.

Notation simp3R := (simp3 opsR).
Notation cartR := (cart opsR).
Notation simp_pairsR := (simp_pairs opsR).
Notation cart_lastR := (cart_last opsR).
Notation simpsonR := (simpson opsR).

Lemma n2 : oofnat opsR 2 = 2. Proof. rewrite oofnatR. simpl. lra. Qed.
Lemma n3 : oofnat opsR 3 = 3. Proof. rewrite oofnatR. simpl. lra. Qed.
Lemma n6 : oofnat opsR 6 = 6. Proof. rewrite oofnatR. simpl. lra. Qed.

Ltac nz := match goal with
  | |- _ * _ <> 0 => apply Rmult_integral_contrapositive_currified; nz
  | |- _ <> 0 => let E := fresh in intro E; lra
  end.

Lemma simp3_val x0 x1 x2 y0 y1 y2 : x1 - x0 <> 0 -> x2 - x1 <> 0 ->
  simp3R x0 x1 x2 y0 y1 y2 =
  (x2 - x0) / 6 * (y0 * (2 - (x2 - x1) / (x1 - x0)) + y1 * ((x2 - x0) * (x2 - x0) / ((x1 - x0) * (x2 - x1)))
                   + y2 * (2 - (x1 - x0) / (x2 - x1))).
Proof.
  intros H0 H1. unfold simp3, osub. cbv zeta. rewrite n2, n6. cbn [oadd omul oopp opsR].
  rewrite !odivR by nz.
  field. split; assumption.
Qed.

Lemma cart_val x0 x1 x2 y0 y1 y2 : x1 - x0 <> 0 -> x2 - x0 <> 0 ->
  cartR x0 x1 x2 y0 y1 y2 =
  (2 * ((x2 - x1) * (x2 - x1)) + 3 * ((x1 - x0) * (x2 - x1))) / (6 * (x2 - x0)) * y2
  + ((x2 - x1) * (x2 - x1) + 3 * ((x1 - x0) * (x2 - x1))) / (6 * (x1 - x0)) * y1
  - ((x2 - x1) * ((x2 - x1) * (x2 - x1))) / (6 * (x1 - x0) * (x2 - x0)) * y0.
Proof.
  intros H0 H1. unfold cart, osub. cbv zeta. rewrite n2, n3, n6. cbn [oadd omul oopp opsR].
  rewrite !odivR by nz.
  field. split; assumption.
Qed.

(* quadratic integrand and its antiderivative *)
Definition P2 (a b c x : R) : R := a + b * x + c * (x * x).
Definition F2 (a b c x : R) : R := a * x + b * (x * x) / 2 + c * (x * (x * x)) / 3.

Theorem simp3_exact_quadratic a b c x0 x1 x2 : x1 - x0 <> 0 -> x2 - x1 <> 0 ->
  simp3R x0 x1 x2 (P2 a b c x0) (P2 a b c x1) (P2 a b c x2) = F2 a b c x2 - F2 a b c x0.
Proof. intros H0 H1. rewrite simp3_val by assumption. unfold P2, F2. field. split; assumption. Qed.

Theorem cart_exact_quadratic a b c x0 x1 x2 : x1 - x0 <> 0 -> x2 - x0 <> 0 ->
  cartR x0 x1 x2 (P2 a b c x0) (P2 a b c x1) (P2 a b c x2) = F2 a b c x2 - F2 a b c x1.
Proof. intros H0 H1. rewrite cart_val by assumption. unfold P2, F2. field. split; assumption. Qed.

(* linearity of the two local rules *)
Lemma simp3_vscale c x0 x1 x2 y0 y1 y2 :
  simp3R x0 x1 x2 (c * y0) (c * y1) (c * y2) = c * simp3R x0 x1 x2 y0 y1 y2.
Proof. unfold simp3, osub. cbv zeta. cbn [oadd omul oopp opsR]. ring. Qed.
Lemma simp3_vadd x0 x1 x2 y0 y1 y2 z0 z1 z2 :
  simp3R x0 x1 x2 (y0 + z0) (y1 + z1) (y2 + z2) = simp3R x0 x1 x2 y0 y1 y2 + simp3R x0 x1 x2 z0 z1 z2.
Proof. unfold simp3, osub. cbv zeta. cbn [oadd omul oopp opsR]. ring. Qed.
Lemma cart_vscale c x0 x1 x2 y0 y1 y2 :
  cartR x0 x1 x2 (c * y0) (c * y1) (c * y2) = c * cartR x0 x1 x2 y0 y1 y2.
Proof. unfold cart, osub. cbv zeta. cbn [oadd omul oopp opsR]. ring. Qed.
Lemma cart_vadd x0 x1 x2 y0 y1 y2 z0 z1 z2 :
  cartR x0 x1 x2 (y0 + z0) (y1 + z1) (y2 + z2) = cartR x0 x1 x2 y0 y1 y2 + cartR x0 x1 x2 z0 z1 z2.
Proof. unfold cart, osub. cbv zeta. cbn [oadd omul oopp opsR]. ring. Qed.

(* ---------- the composite rule ---------- *)
Lemma simp_pairs_cons3 x0 x1 x2 r y0 y1 y2 s :
  simp_pairsR (x0 :: x1 :: x2 :: r) (y0 :: y1 :: y2 :: s) =
  simp3R x0 x1 x2 y0 y1 y2 + simp_pairsR (x2 :: r) (y2 :: s).
Proof. reflexivity. Qed.

Lemma simp_pairs_vscale c : forall n x y, (length x <= n)%nat ->
  simp_pairsR x (vscaleR c y) = c * simp_pairsR x y.
Proof.
  induction n as [|n IH]; intros x y H.
  - destruct x; [cbn; lra|simpl in H; lia].
  - destruct x as [|x0 [|x1 [|x2 r]]]; try (cbn; lra).
    destruct y as [|y0 [|y1 [|y2 s]]]; try (cbn; lra).
    change (vscaleR c (y0 :: y1 :: y2 :: s)) with (c * y0 :: c * y1 :: c * y2 :: vscaleR c s).
    rewrite !simp_pairs_cons3.
    change (c * y2 :: vscaleR c s) with (vscaleR c (y2 :: s)).
    rewrite IH by (simpl in *; lia). rewrite simp3_vscale. lra.
Qed.

Lemma simp_pairs_vadd : forall n x y z, (length x <= n)%nat -> length y = length z ->
  simp_pairsR x (vaddR y z) = simp_pairsR x y + simp_pairsR x z.
Proof.
  induction n as [|n IH]; intros x y z H L.
  - destruct x; [cbn; lra|simpl in H; lia].
  - destruct x as [|x0 [|x1 [|x2 r]]]; try (cbn; lra).
    destruct y as [|y0 [|y1 [|y2 s]]], z as [|z0 [|z1 [|z2 u]]]; simpl in L; try discriminate; try (cbn; lra).
    change (vaddR (y0 :: y1 :: y2 :: s) (z0 :: z1 :: z2 :: u)) with ((y0 + z0) :: (y1 + z1) :: (y2 + z2) :: vaddR s u).
    rewrite !simp_pairs_cons3.
    change ((y2 + z2) :: vaddR s u) with (vaddR (y2 :: s) (z2 :: u)).
    rewrite IH by (simpl in *; lia). rewrite simp3_vadd. lra.
Qed.

Lemma cart_last_3 x0 x1 x2 y0 y1 y2 : cart_lastR [x0; x1; x2] [y0; y1; y2] = cartR x0 x1 x2 y0 y1 y2.
Proof. reflexivity. Qed.
Lemma cart_last_cons x0 x1 x2 x3 r y0 y1 y2 y3 s :
  cart_lastR (x0 :: x1 :: x2 :: x3 :: r) (y0 :: y1 :: y2 :: y3 :: s) = cart_lastR (x1 :: x2 :: x3 :: r) (y1 :: y2 :: y3 :: s).
Proof. reflexivity. Qed.

Lemma cart_last_vscale c : forall x y, length y = length x ->
  cart_lastR x (vscaleR c y) = c * cart_lastR x y.
Proof.
  induction x as [|x0 x IH]; intros y L; [destruct y; cbn; lra|].
  destruct x as [|x1 [|x2 [|x3 r]]].
  - destruct y as [|y0 [|]]; simpl in L; try discriminate. cbn. lra.
  - destruct y as [|y0 [|y1 [|]]]; simpl in L; try discriminate. cbn. lra.
  - destruct y as [|y0 [|y1 [|y2 [|]]]]; simpl in L; try discriminate.
    change (vscaleR c [y0; y1; y2]) with [c * y0; c * y1; c * y2]. rewrite !cart_last_3. apply cart_vscale.
  - destruct y as [|y0 [|y1 [|y2 [|y3 s]]]]; simpl in L; try discriminate.
    change (vscaleR c (y0 :: y1 :: y2 :: y3 :: s)) with (c * y0 :: c * y1 :: c * y2 :: c * y3 :: vscaleR c s).
    rewrite !cart_last_cons.
    change (c * y1 :: c * y2 :: c * y3 :: vscaleR c s) with (vscaleR c (y1 :: y2 :: y3 :: s)).
    apply IH. simpl in *. lia.
Qed.

Lemma cart_last_vadd : forall x y z, length y = length x -> length z = length x ->
  cart_lastR x (vaddR y z) = cart_lastR x y + cart_lastR x z.
Proof.
  induction x as [|x0 x IH]; intros y z L M; [destruct y, z; cbn; lra|].
  destruct x as [|x1 [|x2 [|x3 r]]].
  - destruct y as [|y0 [|]], z as [|z0 [|]]; simpl in L, M; try discriminate. cbn. lra.
  - destruct y as [|y0 [|y1 [|]]], z as [|z0 [|z1 [|]]]; simpl in L, M; try discriminate. cbn. lra.
  - destruct y as [|y0 [|y1 [|y2 [|]]]], z as [|z0 [|z1 [|z2 [|]]]]; simpl in L, M; try discriminate.
    change (vaddR [y0; y1; y2] [z0; z1; z2]) with [y0 + z0; y1 + z1; y2 + z2]. rewrite !cart_last_3. apply cart_vadd.
  - destruct y as [|y0 [|y1 [|y2 [|y3 s]]]], z as [|z0 [|z1 [|z2 [|z3 u]]]]; simpl in L, M; try discriminate.
    change (vaddR (y0 :: y1 :: y2 :: y3 :: s) (z0 :: z1 :: z2 :: z3 :: u))
      with ((y0 + z0) :: (y1 + z1) :: (y2 + z2) :: (y3 + z3) :: vaddR s u).
    rewrite !cart_last_cons.
    change ((y1 + z1) :: (y2 + z2) :: (y3 + z3) :: vaddR s u) with (vaddR (y1 :: y2 :: y3 :: s) (z1 :: z2 :: z3 :: u)).
    apply IH; simpl in *; lia.
Qed.

Lemma simpson_general x y : length x <> 2%nat ->
  simpsonR x y = if Nat.even (length x) then simp_pairsR x y + cart_lastR x y else simp_pairsR x y.
Proof.
  intros H. destruct x as [|x0 [|x1 [|x2 r]]]; try reflexivity. exfalso. apply H. reflexivity.
Qed.
Lemma simpson_two x0 x1 y0 y1 : simpsonR [x0; x1] [y0; y1] = (x1 - x0) * (y0 + y1) / 2.
Proof. unfold simpson. rewrite ohalfR, osubR. reflexivity. Qed.

Theorem simpson_vscale c x y : length y = length x -> simpsonR x (vscaleR c y) = c * simpsonR x y.
Proof.
  intros L. destruct (Nat.eq_dec (length x) 2) as [E|E].
  - destruct x as [|x0 [|x1 [|]]]; simpl in E; try discriminate.
    destruct y as [|y0 [|y1 [|]]]; simpl in L; try discriminate.
    change (vscaleR c [y0; y1]) with [c * y0; c * y1]. rewrite !simpson_two. lra.
  - rewrite !simpson_general by exact E.
    rewrite (simp_pairs_vscale c (length x)) by lia. rewrite cart_last_vscale by exact L.
    destruct (Nat.even (length x)); lra.
Qed.

Theorem simpson_vadd x y z : length y = length x -> length z = length x ->
  simpsonR x (vaddR y z) = simpsonR x y + simpsonR x z.
Proof.
  intros L M. destruct (Nat.eq_dec (length x) 2) as [E|E].
  - destruct x as [|x0 [|x1 [|]]]; simpl in E; try discriminate.
    destruct y as [|y0 [|y1 [|]]]; simpl in L; try discriminate.
    destruct z as [|z0 [|z1 [|]]]; simpl in M; try discriminate.
    change (vaddR [y0; y1] [z0; z1]) with [y0 + z0; y1 + z1]. rewrite !simpson_two. lra.
  - rewrite !simpson_general by exact E.
    rewrite (simp_pairs_vadd (length x)) by lia. rewrite cart_last_vadd by assumption.
    destruct (Nat.even (length x)); lra.
Qed.

(* ---------- exactness for quadratics, any strictly increasing grid with >= 3 points ---------- *)
Fixpoint incr (x : list R) : Prop :=
  match x with
  | a :: ((b :: _) as x') => a < b /\ incr x'
  | _ => True
  end.
Fixpoint lastS (x : list R) (d : R) : R := match x with [] => d | a :: x' => lastS x' a end.

Lemma simp_pairs_exact_odd a b c : forall n x0 r, (length r <= n)%nat -> incr (x0 :: r) -> Nat.even (length r) = true ->
  simp_pairsR (x0 :: r) (map (P2 a b c) (x0 :: r)) = F2 a b c (lastS r x0) - F2 a b c x0.
Proof.
  induction n as [|n IH]; intros x0 r L I E.
  - destruct r; [cbn; lra|simpl in L; lia].
  - destruct r as [|x1 [|x2 r]]; [cbn; lra|discriminate|].
    cbn [map]. rewrite simp_pairs_cons3.
    destruct I as [I1 [I2 I3]].
    rewrite simp3_exact_quadratic by lra.
    change (P2 a b c x2 :: map (P2 a b c) r) with (map (P2 a b c) (x2 :: r)).
    rewrite IH; [|simpl in L; lia|exact (conj I2 I3) || (destruct r; [exact I|exact I3])|exact E].
    cbn [lastS]. lra.
Qed.

Lemma incr_tail a x : incr (a :: x) -> incr x.
Proof. destruct x as [|b x]; [trivial|]. intros [_ H]. exact H. Qed.
Lemma incr_lt_last : forall r a, incr (a :: r) -> a <= lastS r a.
Proof.
  induction r as [|b r IH]; intros a I; [cbn; lra|].
  destruct I as [I1 I2]. cbn [lastS]. specialize (IH b I2). lra.
Qed.

Lemma simpson_exact_even a b c : forall n x0 x1 x2 x3 r, (length r <= n)%nat -> incr (x0 :: x1 :: x2 :: x3 :: r) ->
  Nat.even (length r) = true ->
  simp_pairsR (x0 :: x1 :: x2 :: x3 :: r) (map (P2 a b c) (x0 :: x1 :: x2 :: x3 :: r))
  + cart_lastR (x0 :: x1 :: x2 :: x3 :: r) (map (P2 a b c) (x0 :: x1 :: x2 :: x3 :: r))
  = F2 a b c (lastS r x3) - F2 a b c x0.
Proof.
  induction n as [|n IH]; intros x0 x1 x2 x3 r L I E.
  - destruct r; [|simpl in L; lia].
    destruct I as [I1 [I2 [I3 _]]].
    cbn [map]. rewrite simp_pairs_cons3, cart_last_cons, cart_last_3.
    rewrite simp3_exact_quadratic, cart_exact_quadratic by lra.
    change (simp_pairsR [x2; x3] [P2 a b c x2; P2 a b c x3]) with 0. cbn [lastS]. lra.
  - destruct r as [|x4 [|x5 r]]; [apply (IH x0 x1 x2 x3 []); [simpl; lia|exact I|reflexivity]|discriminate|].
    destruct I as [I1 [I2 I3]].
    cbn [map]. rewrite simp_pairs_cons3. do 2 rewrite cart_last_cons.
    rewrite simp3_exact_quadratic by lra.
    change (P2 a b c x2 :: P2 a b c x3 :: P2 a b c x4 :: P2 a b c x5 :: map (P2 a b c) r)
      with (map (P2 a b c) (x2 :: x3 :: x4 :: x5 :: r)).
    specialize (IH x2 x3 x4 x5 r). rewrite Rplus_assoc, IH; [|simpl in L; lia|exact I3|exact E].
    cbn [lastS]. lra.
Qed.

(* Simpson's rule as scipy computes it integrates every polynomial of degree <= 2 exactly on every
   strictly increasing grid with at least three points — odd or even number of points, any spacings *)
Theorem simpson_exact_quadratic a b c x0 r : incr (x0 :: r) -> (2 <= length r)%nat ->
  simpsonR (x0 :: r) (map (P2 a b c) (x0 :: r)) = F2 a b c (lastS r x0) - F2 a b c x0.
Proof.
  intros I L. rewrite simpson_general by (simpl; lia).
  destruct (Nat.even (length (x0 :: r))) eqn:E.
  - destruct r as [|x1 [|x2 [|x3 r]]]; try (simpl in L; lia); [discriminate|].
    cbn [lastS]. apply (simpson_exact_even a b c (length r) x0 x1 x2 x3 r); [lia|exact I|].
    change (length (x0 :: x1 :: x2 :: x3 :: r)) with (S (S (S (S (length r))))) in E.
    rewrite !Nat.even_succ_succ in E. exact E.
  - apply (simp_pairs_exact_odd a b c (length r)); [lia|exact I|].
    change (length (x0 :: r)) with (S (length r)) in E. rewrite Nat.even_succ in E.
    rewrite <- Nat.negb_odd. rewrite E. reflexivity.
Qed.

(* ---------- product grids ---------- *)
Lemma map2_map_map {A B C D} (h : B -> C -> D) (f : A -> B) (g : A -> C) (l : list A) :
  map2 h (map f l) (map g l) = map (fun e => h (f e) (g e)) l.
Proof. induction l as [|e l IH]; [reflexivity|]. cbn [map map2]. rewrite IH. reflexivity. Qed.

Lemma transpose_outer g : forall f,
  transpose (length g) (outer opsR f g) = map (fun gj => vscaleR gj f) g.
Proof.
  induction f as [|fa f IH].
  - unfold transpose. cbn [outer map fold_right]. induction g as [|gj g IHg]; [reflexivity|].
    cbn [length repeat map]. rewrite IHg. reflexivity.
  - change (outer opsR (fa :: f) g) with (vscaleR fa g :: outer opsR f g).
    change (transpose (length g) (vscaleR fa g :: outer opsR f g))
      with (map2 cons (vscaleR fa g) (transpose (length g) (outer opsR f g))).
    rewrite IH. unfold vscale at 1. rewrite map2_map_map. apply map_ext. intros gj.
    cbn [vscale map omul opsR]. f_equal. apply Rmult_comm.
Qed.

Theorem simpson_product_grid x1 x2 f g : length f = length x1 -> length g = length x2 ->
  simpson2 opsR x1 x2 (outer opsR f g) = simpsonR x1 f * simpsonR x2 g.
Proof.
  intros H1 H2. unfold simpson2, simpson_rows. rewrite <- H2, transpose_outer, map_map.
  rewrite (map_ext _ (fun gj => simpsonR x1 f * gj)).
  2:{ intros gj. rewrite simpson_vscale by exact H1. apply Rmult_comm. }
  change (map (fun gj => simpsonR x1 f * gj) g) with (vscaleR (simpsonR x1 f) g).
  apply simpson_vscale. exact H2.
Qed.

(* ---------- the normalisation option of the basis constructor (C18): values / sqrt(simpson(values^2)) ---------- *)
Lemma vmul_vscale_both c : forall f g, vmulR (vscaleR c f) (vscaleR c g) = vscaleR (c * c) (vmulR f g).
Proof.
  induction f as [|a f IH]; intros [|b g]; try reflexivity.
  change (vmulR (vscaleR c (a :: f)) (vscaleR c (b :: g))) with (c * a * (c * b) :: vmulR (vscaleR c f) (vscaleR c g)).
  rewrite IH. change (vscaleR (c * c) (vmulR (a :: f) (b :: g))) with (c * c * (a * b) :: vscaleR (c * c) (vmulR f g)).
  f_equal. ring.
Qed.
Lemma vmul_length f : forall g, length g = length f -> length (vmulR f g) = length f.
Proof. induction f as [|a f IH]; intros [|b g] H; simpl in H; try discriminate; [reflexivity|]. cbn [vmul map2 length]. f_equal. apply IH. lia. Qed.

Theorem simpson_normalised_unit x f r : length f = length x -> r <> 0 -> r * r = simpsonR x (vmulR f f) ->
  simpsonR x (vmulR (vscaleR (/ r) f) (vscaleR (/ r) f)) = 1.
Proof.
  intros L Hr E. rewrite vmul_vscale_both, simpson_vscale by (rewrite vmul_length; auto).
  rewrite <- E. field. exact Hr.
Qed.

(* ---------- on two EQUAL adjacent intervals the three-point rule is also exact for cubics (classical Simpson) ---------- *)
Definition P3 (a b c d x : R) : R := a + b * x + c * (x * x) + d * (x * (x * x)).
Definition F3 (a b c d x : R) : R := a * x + b * (x * x) / 2 + c * (x * (x * x)) / 3 + d * (x * x * (x * x)) / 4.
Theorem simp3_exact_cubic_equal_spacing a b c d x0 h : h <> 0 ->
  simp3R x0 (x0 + h) (x0 + 2 * h) (P3 a b c d x0) (P3 a b c d (x0 + h)) (P3 a b c d (x0 + 2 * h))
  = F3 a b c d (x0 + 2 * h) - F3 a b c d x0.
Proof.
  intros Hh. rewrite simp3_val by (intro E; apply Hh; lra).
  unfold P3, F3. field. repeat split; try assumption; intro E; apply Hh; lra.
Qed.

(* composite Simpson on unequal spacings has a negative weight once a spacing exceeds twice its neighbour:
   the "squared norm" of a non-negative integrand can be negative (so its square root is NaN in floating point) *)
Theorem simp3_last_weight_negative x0 x1 x2 y2 : 0 < x2 - x1 -> 2 * (x2 - x1) < x1 - x0 -> 0 < y2 ->
  simp3R x0 x1 x2 0 0 y2 < 0.
Proof.
  intros H1 H2 Hy. rewrite simp3_val by lra.
  assert (E : (x2 - x0) / 6 * (0 * (2 - (x2 - x1) / (x1 - x0)) + 0 * ((x2 - x0) * (x2 - x0) / ((x1 - x0) * (x2 - x1))) + y2 * (2 - (x1 - x0) / (x2 - x1)))
              = - ((x2 - x0) / 6 * y2 * ((x1 - x0 - 2 * (x2 - x1)) / (x2 - x1)))) by (field; lra).
  rewrite E. apply Ropp_lt_gt_0_contravar. apply Rmult_gt_0_compat.
  - apply Rmult_gt_0_compat; lra.
  - apply Rdiv_lt_0_compat; lra.
Qed.
Theorem simpson_weight_negative : simpsonR [0; 8; 9] [0; 0; 1] < 0.
Proof.
  rewrite simpson_general by (simpl; lia). cbn [length Nat.even simp_pairs]. 
  cbn [oadd o0 opsR]. pose proof (simp3_last_weight_negative 0 8 9 1) as H. lra.
Qed.
