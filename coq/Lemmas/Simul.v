(* Lemmas/Simul.v — proofs about Model/Simul.v.
   Part 1: cluster labels (discrete, no axioms).  Part 2: Karhunen-Loève
   structure, eigenvalue families, Brownian facts, grid decision (reals). *)
From Coq Require Import List Bool Arith Lia Sorted.
From FDAV Require Import Base.Num Base.Vec Model.Simul.
Import ListNotations.

(* ====================================================================== *)
(* Part 1: labels                                                          *)
(* ====================================================================== *)
Section Blocks.
  Variable f : nat -> nat.
  Notation blocks l := (flat_map (fun idx => repeat idx (f idx)) l).

  Lemma blocks_length : forall l, length (blocks l) = list_sum (map f l).
  Proof.
    induction l as [|a l IH]; simpl; [reflexivity|].
    rewrite app_length, repeat_length, IH. reflexivity.
  Qed.

  Lemma repeat_app_sorted s m : forall rest, StronglySorted le rest -> Forall (fun x => s <= x) rest ->
    StronglySorted le (repeat s m ++ rest) /\ Forall (fun x => s <= x) (repeat s m ++ rest).
  Proof.
    induction m as [|m IH]; intros rest Hs Hf; simpl; [split; assumption|].
    destruct (IH rest Hs Hf) as [S1 F1]. split.
    - constructor; assumption.
    - constructor; [lia|assumption].
  Qed.

  Lemma blocks_sorted : forall k s,
    StronglySorted le (blocks (seq s k)) /\ Forall (fun x => s <= x) (blocks (seq s k)).
  Proof.
    induction k as [|k IH]; intros s; simpl.
    - split; constructor.
    - destruct (IH (S s)) as [S1 F1]. apply repeat_app_sorted; [exact S1|].
      eapply Forall_impl; [|exact F1]. intros; simpl in *; lia.
  Qed.

  Lemma blocks_count x : forall k s,
    count_occ Nat.eq_dec (blocks (seq s k)) x = if (s <=? x) && (x <? s + k) then f x else 0.
  Proof.
    induction k as [|k IH]; intros s; simpl.
    - destruct (s <=? x) eqn:E1; simpl; [|reflexivity].
      destruct (x <? s + 0) eqn:E2; [|reflexivity].
      apply Nat.leb_le in E1. apply Nat.ltb_lt in E2. lia.
    - rewrite count_occ_app, IH. destruct (Nat.eq_dec x s) as [->|Hne].
      + rewrite count_occ_repeat_eq by reflexivity.
        replace (S s <=? s) with false by (symmetry; apply Nat.leb_gt; lia).
        replace (s <=? s) with true by (symmetry; apply Nat.leb_le; lia).
        replace (s <? s + S k) with true by (symmetry; apply Nat.ltb_lt; lia).
        simpl. lia.
      + rewrite count_occ_repeat_neq by exact Hne. rewrite Nat.add_0_l.
        destruct (Nat.leb_spec0 s x), (Nat.leb_spec0 (S s) x), (Nat.ltb_spec0 x (s + S k)),
                 (Nat.ltb_spec0 x (S s + k)); cbn [andb]; try reflexivity; lia.
  Qed.
End Blocks.

Lemma sum_sizes q r : forall m,
  list_sum (map (fun idx => q + (if idx <? r then 1 else 0)) (seq 0 m)) = m * q + Nat.min m r.
Proof.
  induction m as [|m IH]; [reflexivity|].
  rewrite seq_S, map_app, list_sum_app, IH. cbn -[Nat.ltb Nat.mul Nat.min].
  destruct (Nat.ltb_spec0 m r); nia.
Qed.

Lemma group_size_sum n k : 1 <= k -> list_sum (map (group_size n k) (seq 0 k)) = n.
Proof.
  intros Hk. unfold group_size. rewrite sum_sizes.
  pose proof (Nat.mod_upper_bound n k ltac:(lia)) as Hr.
  pose proof (Nat.div_mod n k ltac:(lia)) as Hd.
  rewrite Nat.min_r by lia. lia.
Qed.

Theorem labels_in_order_near_equal_lemma n k : 1 <= n -> 1 <= k ->
  length (labels n k) = n /\
  StronglySorted le (labels n k) /\
  (forall idx, idx < k -> count_occ Nat.eq_dec (labels n k) idx = group_size n k idx) /\
  (forall x, In x (labels n k) -> x < k) /\
  list_sum (map (group_size n k) (seq 0 k)) = n /\
  (forall i j, i < k -> j < k -> group_size n k i <= group_size n k j + 1) /\
  (forall i j, i <= j -> group_size n k j <= group_size n k i).
Proof.
  intros Hn Hk. unfold labels. repeat split.
  - rewrite blocks_length. apply group_size_sum. exact Hk.
  - apply blocks_sorted.
  - intros idx Hi. rewrite blocks_count. simpl. replace (idx <? k) with true; [reflexivity|].
    symmetry. apply Nat.ltb_lt. exact Hi.
  - intros x Hx. apply in_flat_map in Hx. destruct Hx as [idx [Hs Hr]].
    apply repeat_spec in Hr. subst x. apply in_seq in Hs. lia.
  - apply group_size_sum. exact Hk.
  - intros i j _ _. unfold group_size. destruct (i <? n mod k), (j <? n mod k); lia.
  - intros i j Hij. unfold group_size.
    destruct (i <? n mod k) eqn:Ei, (j <? n mod k) eqn:Ej; try lia.
    apply Nat.ltb_ge in Ei. apply Nat.ltb_lt in Ej. lia.
Qed.

(* ====================================================================== *)
(* Part 2: numeric structure, at the real instance                          *)
(* ====================================================================== *)
From Coq Require Import Reals Lra QArith Qreals.
From FDAV Require Import Lemmas.Vec.
Local Open Scope R_scope.

Lemma oofnat_INR n : oofnat opsR n = INR n.
Proof. induction n as [|n IH]; [reflexivity|]. cbn [oofnat]. rewrite IH, S_INR. cbn. lra. Qed.
Lemma odivR_nz a b : b <> 0 -> odiv opsR a b = a / b.
Proof. intros H. cbn. apply Rdiv0_nz. exact H. Qed.
Lemma INR_ge1 k : (1 <= k)%nat -> 1 <= INR k.
Proof. intros H. apply le_INR in H. simpl in H. exact H. Qed.

(* ---------- Karhunen-Loève: linear combination = matrix product, entrywise ---------- *)
Lemma nth_vadd : forall u v j, length u = length v -> nth j (vaddR u v) 0 = nth j u 0 + nth j v 0.
Proof.
  induction u as [|a u IH]; intros [|b v] j H; simpl in H; try discriminate.
  - destruct j; cbn; lra.
  - change (vaddR (a :: u) (b :: v)) with (a + b :: vaddR u v).
    destruct j as [|j]; cbn [nth]; [reflexivity|]. apply IH. lia.
Qed.
Lemma nth_vscale c : forall r j, nth j (vscaleR c r) 0 = c * nth j r 0.
Proof.
  induction r as [|a r IH]; intros j.
  - destruct j; cbn; lra.
  - change (vscaleR c (a :: r)) with (c * a :: vscaleR c r).
    destruct j as [|j]; cbn [nth]; [reflexivity|]. apply IH.
Qed.
Lemma nth_zeros n j : nth j (zerosR n) 0 = 0.
Proof.
  revert j. induction n as [|n IH]; intros j; [destruct j; reflexivity|].
  change (zerosR (S n)) with (0 :: zerosR n). destruct j; [reflexivity|apply IH].
Qed.

Lemma mtv_nth n A : forall y j, Forall (fun r => length r = n) A ->
  nth j (mtvR n A y) 0 = dotR y (column opsR j A).
Proof.
  induction A as [|r A IH]; intros y j H.
  - unfold mtv. destruct y; simpl; rewrite nth_zeros; [reflexivity|]. symmetry. apply dot_nil_r.
  - inversion H as [|? ? Hr HA]; subst. destruct y as [|b y].
    + unfold mtv. simpl. rewrite nth_zeros. reflexivity.
    + change (mtvR (length r) (r :: A) (b :: y)) with (vaddR (vscaleR b r) (mtvR (length r) A y)).
      rewrite nth_vadd by (rewrite vscale_length, mtv_length by exact HA; reflexivity).
      rewrite nth_vscale, IH by exact HA.
      change (column opsR j (r :: A)) with (nth j r 0 :: column opsR j A).
      rewrite dot_cons. reflexivity.
Qed.

Theorem kl_is_coef_times_basis_lemma m (C B : list (list R)) i j :
  Forall (fun r => length r = m) B -> (i < length C)%nat ->
  nth j (nth i (kl_data opsR m C B) []) 0 = dotR (nth i C []) (column opsR j B).
Proof.
  intros HB Hi. unfold kl_data.
  rewrite (nth_indep _ [] (mtvR m B [])) by (rewrite map_length; exact Hi).
  rewrite (map_nth (mtvR m B)). apply mtv_nth. exact HB.
Qed.

Lemma kl_data_shape m (C B : list (list R)) :
  Forall (fun r => length r = m) B ->
  length (kl_data opsR m C B) = length C /\ Forall (fun r => length r = m) (kl_data opsR m C B).
Proof.
  intros HB. unfold kl_data. split; [apply map_length|].
  apply Forall_forall. intros r Hr. apply in_map_iff in Hr. destruct Hr as [c [<- _]].
  apply mtv_length. exact HB.
Qed.

Lemma map2_nth {A B C} (f : A -> B -> C) (da : A) (db : B) (dc : C) : forall x y p,
  (p < length x)%nat -> (p < length y)%nat -> nth p (map2 f x y) dc = f (nth p x da) (nth p y db).
Proof.
  induction x as [|a x IH]; intros [|b y] p Hx Hy; simpl in *; try lia.
  destruct p as [|p]; [reflexivity|]. apply IH; lia.
Qed.

(* every component of a multivariate simulation is built from the SAME coefficients *)
Theorem kl_multivariate_same_coef_lemma ms (C : list (list R)) Bs p :
  (p < length ms)%nat -> (p < length Bs)%nat ->
  nth p (kl_multi opsR ms C Bs) [] = kl_data opsR (nth p ms 0%nat) C (nth p Bs []).
Proof. intros H1 H2. unfold kl_multi. apply (map2_nth (fun m b => kl_data opsR m C b) 0%nat [] []); assumption. Qed.

Theorem kl_multivariate_entries ms (C : list (list R)) Bs p i j :
  (p < length ms)%nat -> (p < length Bs)%nat -> (i < length C)%nat ->
  Forall (fun r => length r = nth p ms 0%nat) (nth p Bs []) ->
  nth j (nth i (nth p (kl_multi opsR ms C Bs) []) []) 0 = dotR (nth i C []) (column opsR j (nth p Bs [])).
Proof.
  intros H1 H2 Hi HB. rewrite kl_multivariate_same_coef_lemma by assumption.
  apply kl_is_coef_times_basis_lemma; assumption.
Qed.

(* ---------- eigenvalue families: positive and non-increasing, for all n ---------- *)
Definition pos_noninc (l : list R) : Prop :=
  Forall (fun x => 0 < x) l /\ StronglySorted (fun a b => a >= b) l.

Lemma map_seq_pos_noninc (f : nat -> R) : forall n s,
  (forall k, (s <= k < s + n)%nat -> 0 < f k) ->
  (forall a b, (s <= a)%nat -> (a <= b)%nat -> (b < s + n)%nat -> f b <= f a) ->
  pos_noninc (map f (seq s n)).
Proof.
  induction n as [|n IH]; intros s Hp Ha; [split; constructor|].
  destruct (IH (S s)) as [P1 S1].
  - intros k Hk. apply Hp. lia.
  - intros a b H1 H2 H3. apply Ha; lia.
  - split; cbn [seq map]; constructor; auto.
    + apply Hp. lia.
    + apply Forall_forall. intros y Hy. apply in_map_iff in Hy. destruct Hy as [b [<- Hb]].
      apply in_seq in Hb. apply Rle_ge. apply Ha; lia.
Qed.

Lemma rev_seq1 : forall n, rev (seq 1 n) = map (fun k => (n + 1 - k)%nat) (seq 1 n).
Proof.
  induction n as [|n IH]; [reflexivity|].
  rewrite seq_S at 1. rewrite rev_app_distr. cbn [rev app plus].
  cbn [seq map]. f_equal; [lia|].
  rewrite <- (seq_shift n 1), map_map, IH. apply map_ext. intros k. lia.
Qed.

(* the model's linear family IS the code's formula (n - k + 1) / n, k = 1..n *)
Lemma eig_linear_formula n : (1 <= n)%nat ->
  eig_linear opsR n = map (fun k => INR (n - k + 1) / INR n) (seq 1 n).
Proof.
  intros Hn. unfold eig_linear. rewrite rev_seq1, map_map. apply map_ext_in. intros k Hk.
  apply in_seq in Hk. unfold eigf_linear. rewrite !oofnat_INR.
  rewrite odivR_nz by (pose proof (INR_ge1 n Hn); lra).
  replace (n + 1 - k)%nat with (n - k + 1)%nat by lia. reflexivity.
Qed.
Lemma eig_inverse_formula n : eig_inverse opsR n = map (fun k => 1 / INR k) (seq 1 n).
Proof.
  unfold eig_inverse. apply map_ext_in. intros k Hk. apply in_seq in Hk.
  unfold eigf_inverse. rewrite oofnat_INR, odivR_nz by (pose proof (INR_ge1 k ltac:(lia)); lra).
  reflexivity.
Qed.
Lemma eig_quadratic_formula n : eig_quadratic opsR n = map (fun k => 1 / (INR k * INR k)) (seq 1 n).
Proof.
  unfold eig_quadratic. apply map_ext_in. intros k Hk. apply in_seq in Hk.
  unfold eigf_quadratic. rewrite oofnat_INR.
  pose proof (INR_ge1 k ltac:(lia)).
  rewrite odivR_nz by (cbn; nra). reflexivity.
Qed.

Theorem eig_linear_pos_noninc n : pos_noninc (eig_linear opsR n).
Proof.
  destruct n as [|n]; [split; constructor|].
  rewrite eig_linear_formula by lia. set (N := S n).
  assert (HN : 1 <= INR N) by (apply INR_ge1; unfold N; lia).
  apply map_seq_pos_noninc.
  - intros k Hk. apply Rdiv_lt_0_compat; [|lra].
    apply lt_0_INR. unfold N in *. lia.
  - intros a b H1 H2 H3. unfold Rdiv. apply Rmult_le_compat_r.
    + apply Rlt_le, Rinv_0_lt_compat. lra.
    + apply le_INR. unfold N in *. lia.
Qed.

Theorem eig_inverse_pos_noninc n : pos_noninc (eig_inverse opsR n).
Proof.
  rewrite eig_inverse_formula. apply map_seq_pos_noninc.
  - intros k Hk. pose proof (INR_ge1 k ltac:(lia)). apply Rdiv_lt_0_compat; lra.
  - intros a b H1 H2 H3. pose proof (INR_ge1 a ltac:(lia)). pose proof (le_INR a b H2).
    unfold Rdiv. rewrite !Rmult_1_l. apply Rinv_le_contravar; lra.
Qed.

Theorem eig_quadratic_pos_noninc n : pos_noninc (eig_quadratic opsR n).
Proof.
  rewrite eig_quadratic_formula. apply map_seq_pos_noninc.
  - intros k Hk. pose proof (INR_ge1 k ltac:(lia)). apply Rdiv_lt_0_compat; nra.
  - intros a b H1 H2 H3. pose proof (INR_ge1 a ltac:(lia)). pose proof (le_INR a b H2).
    unfold Rdiv. rewrite !Rmult_1_l. apply Rinv_le_contravar; nra.
Qed.

Theorem eig_exponential_pos_noninc n : pos_noninc (eig_exponential n).
Proof.
  unfold eig_exponential. apply map_seq_pos_noninc.
  - intros k _. apply exp_pos.
  - intros a b _ H2 _. unfold eigf_exponential. pose proof (le_INR a b H2) as H.
    destruct (Req_dec (INR a) (INR b)) as [E|N]; [rewrite E; lra|].
    apply Rlt_le, exp_increasing. lra.
Qed.

Theorem eig_sqrt_pos_noninc n : pos_noninc (eig_sqrt n).
Proof.
  unfold eig_sqrt. apply map_seq_pos_noninc.
  - intros k Hk. unfold eigf_sqrt. apply Rinv_0_lt_compat, sqrt_lt_R0.
    pose proof (INR_ge1 k ltac:(lia)). lra.
  - intros a b H1 H2 _. unfold eigf_sqrt. pose proof (INR_ge1 a ltac:(lia)) as Ha.
    pose proof (le_INR a b H2) as H. apply Rinv_le_contravar.
    + apply sqrt_lt_R0. lra.
    + apply sqrt_le_1_alt. exact H.
Qed.

Theorem eig_wiener_pos_noninc n : pos_noninc (eig_wiener n).
Proof.
  unfold eig_wiener. pose proof PI_RGT_0 as Hpi.
  assert (Hc : forall k, (1 <= k)%nat -> 0 < PI / 2 * (2 * INR k - 1)).
  { intros k Hk. pose proof (INR_ge1 k Hk). apply Rmult_lt_0_compat; lra. }
  apply map_seq_pos_noninc.
  - intros k Hk. unfold eigf_wiener. apply Rinv_0_lt_compat.
    pose proof (Hc k ltac:(lia)). nra.
  - intros a b H1 H2 _. unfold eigf_wiener.
    pose proof (Hc a ltac:(lia)) as Ca. pose proof (Hc b ltac:(lia)) as Cb.
    assert (PI / 2 * (2 * INR a - 1) <= PI / 2 * (2 * INR b - 1)).
    { apply Rmult_le_compat_l; [lra|]. pose proof (le_INR a b H2). lra. }
    apply Rinv_le_contravar; nra.
Qed.

(* entry k of a family is the pointwise function at k: what the numeric
   comparison of the correspondence run evaluates *)
Lemma eig_exponential_nth n k : (k < n)%nat -> nth k (eig_exponential n) 0 = eigf_exponential (INR k).
Proof.
  intros H. unfold eig_exponential.
  rewrite (nth_indep _ 0 (eigf_exponential (INR 0))) by (rewrite map_length, seq_length; exact H).
  rewrite (map_nth (fun k => eigf_exponential (INR k))), seq_nth by exact H. reflexivity.
Qed.
Lemma eig_sqrt_nth n k : (k < n)%nat -> nth k (eig_sqrt n) 0 = eigf_sqrt (INR (S k)).
Proof.
  intros H. unfold eig_sqrt.
  rewrite (nth_indep _ 0 (eigf_sqrt (INR 0))) by (rewrite map_length, seq_length; exact H).
  rewrite (map_nth (fun k => eigf_sqrt (INR k))), seq_nth by exact H. reflexivity.
Qed.
Lemma eig_wiener_nth n k : (k < n)%nat -> nth k (eig_wiener n) 0 = eigf_wiener (INR (S k)).
Proof.
  intros H. unfold eig_wiener.
  rewrite (nth_indep _ 0 (eigf_wiener (INR 0))) by (rewrite map_length, seq_length; exact H).
  rewrite (map_nth (fun k => eigf_wiener (INR k))), seq_nth by exact H. reflexivity.
Qed.

(* ---------- Brownian motions ---------- *)
Lemma walk_from_cons sd z zs a :
  walk_from opsR sd (z :: zs) a = a :: walk_from opsR sd zs (a + sd * z).
Proof. reflexivity. Qed.

Theorem std_brownian_starts_at_lemma init sd zs :
  nth 0 (std_brownian opsR init sd zs) 0 = init /\
  length (std_brownian opsR init sd zs) = S (length zs) /\
  (forall i, (i < length zs)%nat ->
     nth (S i) (std_brownian opsR init sd zs) 0 - nth i (std_brownian opsR init sd zs) 0
     = sd * nth i zs 0).
Proof.
  unfold std_brownian. revert init. induction zs as [|z zs IH]; intros init.
  - repeat split; simpl; intros; lia.
  - rewrite walk_from_cons. destruct (IH (init + sd * z)) as [H0 [HL HI]].
    repeat split.
    + simpl. rewrite HL. reflexivity.
    + intros [|i] Hi.
      * cbn [nth]. rewrite H0. ring.
      * cbn [nth]. apply HI. simpl in Hi. lia.
Qed.

Lemma geo_positive : forall es init, 0 < init -> Forall (fun e => 0 < e) es ->
  Forall (fun v => 0 < v) (geo_brownian opsR init es) /\
  length (geo_brownian opsR init es) = length es.
Proof.
  unfold geo_brownian. induction es as [|e es IH]; intros init Hi He; [split; constructor|].
  inversion He; subst.
  change (cumprod_from opsR (e :: es) init) with (init * e :: cumprod_from opsR es (init * e)).
  assert (0 < init * e) by (apply Rmult_lt_0_compat; assumption).
  destruct (IH (init * e)) as [F L]; auto. split; [constructor; assumption|simpl; rewrite L; reflexivity].
Qed.

(* whatever the draws, drift and volatility: the path init * cumprod(exp(...)) is positive *)
Theorem geo_brownian_positive_lemma init xs : 0 < init ->
  Forall (fun v => 0 < v) (geo_brownian opsR init (map exp xs)).
Proof.
  intros Hi. apply geo_positive; [exact Hi|].
  apply Forall_forall. intros e He. apply in_map_iff in He. destruct He as [x [<- _]]. apply exp_pos.
Qed.

(* ---------- regular-grid decision ---------- *)
Lemma oabsR a : oabs opsR a = Rabs a.
Proof.
  unfold oabs. cbn. destruct (Rleb 0 a) eqn:E.
  - apply Rleb_true in E. rewrite Rabs_right; lra.
  - apply Rleb_false in E. rewrite Rabs_left; lra.
Qed.
Lemma iscloseR rtol atol a b :
  isclose opsR rtol atol a b = Rleb (Rabs (a - b)) (atol + rtol * Rabs b).
Proof. unfold isclose. rewrite !oabsR. reflexivity. Qed.

Theorem irregular_grid_rejected_lemma rtol atol xs d0 ds d :
  diffs opsR xs = d0 :: ds -> In d ds -> atol + rtol * Rabs d0 < Rabs (d - d0) ->
  brownian_accepts opsR rtol atol (Some xs) = false.
Proof.
  intros Hd Hin Hgt. cbn [brownian_accepts]. unfold regular_grid. rewrite Hd.
  destruct (forallb (fun d1 => isclose opsR rtol atol d1 d0) (d0 :: ds)) eqn:E; [|reflexivity].
  rewrite forallb_forall in E. specialize (E d (or_intror Hin)).
  rewrite iscloseR in E. apply Rleb_true in E. lra.
Qed.

Theorem regular_grid_accepted_lemma rtol atol xs d0 :
  0 <= rtol -> 0 <= atol -> Forall (fun d => d = d0) (diffs opsR xs) ->
  brownian_accepts opsR rtol atol (Some xs) = true.
Proof.
  intros Hr Ha Hall. cbn [brownian_accepts]. unfold regular_grid.
  destruct (diffs opsR xs) as [|e ds] eqn:Hd; [reflexivity|].
  apply forallb_forall. intros d Hin. rewrite iscloseR. apply Rleb_true.
  rewrite Forall_forall in Hall. rewrite (Hall d Hin), (Hall e (or_introl eq_refl)).
  replace (d0 - d0) with 0 by ring. rewrite Rabs_R0. pose proof (Rabs_pos d0). nra.
Qed.

(* ---------- transfer: the Q runs are the R models on the same numbers ---------- *)
Theorem eig_linear_transfer n : map Q2R (eig_linear opsQ n) = eig_linear opsR n.
Proof. symmetry. apply list_QR_inv. exact (eig_linear_R Q R QR opsQ opsR opsQR n n (nat_R_refl n)). Qed.
Theorem eig_inverse_transfer n : map Q2R (eig_inverse opsQ n) = eig_inverse opsR n.
Proof. symmetry. apply list_QR_inv. exact (eig_inverse_R Q R QR opsQ opsR opsQR n n (nat_R_refl n)). Qed.
Theorem eig_quadratic_transfer n : map Q2R (eig_quadratic opsQ n) = eig_quadratic opsR n.
Proof. symmetry. apply list_QR_inv. exact (eig_quadratic_R Q R QR opsQ opsR opsQR n n (nat_R_refl n)). Qed.
Theorem kl_data_transfer m (C B : list (list Q)) :
  map (map Q2R) (kl_data opsQ m C B) = kl_data opsR m (map (map Q2R) C) (map (map Q2R) B).
Proof.
  symmetry. apply llist_QR_inv.
  exact (kl_data_R Q R QR opsQ opsR opsQR m m (nat_R_refl m) C _ (llist_QR C) B _ (llist_QR B)).
Qed.
