"""C05 — P-spline fits equal the explicit penalised least-squares solution in any dimension."""
from __future__ import annotations

import warnings

import numpy as np

from harness import common as C
from harness import fd

IMPORTS = "From FDAV Require Import Base.Num Base.Vec Base.Cmp Model.Basis Model.Pspline Tie.C05."
RULE = ("1-D, 2-D and 3-D response arrays on sorted uniform and non-uniform dyadic grids; n_segments (1..6 quick, 1..25 thorough in 1-D) and "
        "degree (1..3 / 1..5) chosen INDEPENDENTLY per dimension, order_penalty 1..3, penalties 2^-20..2^20, unit / binary / real weights: "
        "the implementation's beta_hat, y_hat and hat-matrix diagonal are checked exactly in Q against the model's normal equations (basis = "
        "Cox-de Boor model of C18, Kronecker rows, difference penalties), predict(x_fit) and predict(other points) against B_new beta; "
        "monitors on the implementation: linearity in y, zero-weight observations ignored, reproduction of polynomials of degree < order, "
        "leverages in [0,1]. Non-trivial: >= 2 segments in some dimension; distinct by all inputs.")
ASSUME = ["exact-arithmetic specification; the implementation's solution is verified as a CERTIFICATE (residual of the model's normal "
          "equations <= 1e-8 * scale); closeness to the exact solution then follows from C05_fitted_unique for well-conditioned systems",
          "candidate solves z_i of A z = b_i for the leverages come from numpy and are verified the same way"]


def diffmat(nb, d):
    return np.diff(np.eye(nb), n=d, axis=0)


def np_model(xs_list, nsegs, degs, d, lams, w, y, doms):
    """Independent NumPy reference (explicit Kronecker normal equations); used for scales and for z_i."""
    from FDApy.misc.basis import _basis_bsplines
    Rs = []
    for x, ns, p, (a, b) in zip(xs_list, nsegs, degs, doms):
        with warnings.catch_warnings():
            warnings.simplefilter("ignore")
            Rs.append(np.asarray(_basis_bsplines(x, n_functions=ns + p, degree=p, domain_min=a, domain_max=b)).T)
    B = Rs[0]
    for R in Rs[1:]:
        B = np.kron(B, R)
    nbs = [ns + p for ns, p in zip(nsegs, degs)]
    P = np.zeros((B.shape[1], B.shape[1]))
    for k, lam in enumerate(lams):
        mats = [np.eye(n) for n in nbs]
        D = diffmat(nbs[k], d)
        mats[k] = D.T @ D
        M = mats[0]
        for m_ in mats[1:]:
            M = np.kron(M, m_)
        P += lam * M
    A = B.T @ (w[:, None] * B) + P
    return B, A


def one_case(rng, runq, todo, rep, dim, quick, idx):
    from FDApy.preprocessing.smoothing.psplines import PSplines
    max_seg = {1: 6 if quick else 25, 2: 3 if quick else 6, 3: 2 if quick else 3}[dim]
    max_deg = {1: 3 if quick else 5, 2: 2 if quick else 3, 3: 2}[dim]
    npts = {1: (6, 14 if quick else 40), 2: (4, 7 if quick else 10), 3: (3, 5)}[dim]
    nsegs = [int(rng.integers(1, max_seg + 1)) for _ in range(dim)]
    degs = [int(rng.integers(1, max_deg + 1)) for _ in range(dim)]
    d = int(rng.integers(1, 4))
    tiny = dim == 1 and idx % 5 == 4
    if tiny:
        # fewer basis functions than the order of the differences: the penalty matrix is EMPTY (no penalty at all), the fit is
        # plain weighted least squares in the spline space — and still reproduces polynomials of degree < order in that space
        nsegs[0], degs[0], d = [(1, 1, 2), (1, 1, 3), (1, 2, 3), (2, 1, 3)][(idx // 5) % 4]
    for k in range(dim):                       # otherwise at least d+1 basis functions
        while not tiny and nsegs[k] + degs[k] <= d:
            nsegs[k] += 1
    xs_list = []
    for k in range(dim):
        m = int(rng.integers(npts[0], npts[1] + 1))
        kind = ["uniform-dyadic", "nonuniform", "shifted"][int(rng.integers(3))]
        xs_list.append(fd.grid(rng, m, kind))
    if dim >= 2 and idx % 3 == 2 and idx % 4 != 3:
        # two dimensions sampled at the SAME points (a covariance surface) but with their own number of segments: each
        # dimension still gets its own marginal basis
        xs_list[1] = xs_list[0].copy()
        if nsegs[1] == nsegs[0]:
            nsegs[1] = nsegs[0] % max_seg + 1
        while nsegs[1] + degs[1] <= d:
            nsegs[1] += 1
        if nsegs[1] == nsegs[0] and degs[1] == degs[0]:
            degs[1] += 1
    doms = [(float(x[0]), float(x[-1])) for x in xs_list]
    explicit_dom = idx % 7 == 6          # an explicit spline domain wider than the grid (kwargs domain_min / domain_max)
    if explicit_dom:
        doms = [(a - 0.5, b + 0.25) for a, b in doms]
    scalar_cfg = dim >= 2 and idx % 4 == 3   # one integer for all dimensions (n_segments=5, degree=3 style)
    if scalar_cfg:
        nsegs, degs = [nsegs[0]] * dim, [degs[0]] * dim
    shape = tuple(len(x) for x in xs_list)
    y = np.round(rng.normal(size=shape) * 16) / 16 + 1.0 + sum(
        np.sin(xs_list[k] - xs_list[k][0]).reshape([-1 if j == k else 1 for j in range(dim)]) for k in range(dim))
    y = np.round(y * 256) / 256
    y[y == 0] = 1 / 256
    lams = [float(2.0 ** int(rng.integers(-20, 21))) for _ in range(dim)]
    default_pen = idx % 5 == 4           # penalty left to its default (1 in every dimension)
    if default_pen:
        lams = [1.0] * dim
    wkind = ["unit", "binary", "real"][idx % 3]
    default_w = wkind == "unit" and idx % 2 == 1     # sample_weights left to its default (all ones)
    if wkind == "unit":
        w = np.ones(shape)
    elif wkind == "binary":
        w = (rng.uniform(size=shape) < 0.8).astype(float)
    else:
        w = np.round(rng.uniform(0.25, 2.0, size=shape) * 8) / 8

    def make():
        return PSplines(n_segments=nsegs[0] if (dim == 1 or scalar_cfg) else np.array(nsegs),
                        degree=degs[0] if (dim == 1 or scalar_cfg) else np.array(degs), order_penalty=d)

    def fitx(q, yy, ww):
        kw = {}
        if not (default_w and ww is w):
            kw["sample_weights"] = ww
        if not default_pen:
            kw["penalty"] = lams[0] if dim == 1 else tuple(lams)
        if explicit_dom:
            kw["domain_min"] = [a for a, _ in doms]
            kw["domain_max"] = [b for _, b in doms]
        q.fit(yy, xs_list[0] if dim == 1 else xs_list, **kw)
        return q

    with warnings.catch_warnings():
        warnings.simplefilter("ignore")
        try:
            ps = fitx(make(), y, w)
            yhat = np.asarray(ps.y_hat, float)
            beta = np.asarray(ps.beta_hat, float)
            H = np.asarray(ps.diagnostics["hat_matrix"], float)
            ypred_fit = np.asarray(ps.predict(xs_list[0] if dim == 1 else xs_list), float)
        except Exception as e:  # noqa: BLE001
            rep.case((dim, tuple(nsegs), tuple(degs), d, y.tobytes()), kind=f"{dim}-D/fit-raised")
            rep.violation(f"PSplines fit / predict of a legitimate {dim}-D problem (n_segments={nsegs}, degree={degs}, order_penalty={d}, "
                          f"grid sizes {[len(x) for x in xs_list]}) raised {type(e).__name__}: {e}"[:400],
                          {"dim": dim, "n_segments": nsegs, "degree": degs, "order_penalty": d, "x": [C.hexf(x) for x in xs_list],
                           "y": C.hexf(y), "w": C.hexf(w)})
            return
    opts = {"dim": dim, "n_segments": nsegs, "degree": degs, "order_penalty": d, "penalties": lams, "weights": wkind,
            "shape": list(shape), "defaults": {"weights": bool(default_w), "penalty": bool(default_pen)},
            "scalar_configuration": bool(scalar_cfg), "explicit_domain": bool(explicit_dom)}
    key = (dim, tuple(nsegs), tuple(degs), d, tuple(lams), y.tobytes(), w.tobytes())
    replay = {**opts, "x": [C.hexf(x) for x in xs_list], "y": C.hexf(y), "w": C.hexf(w)}
    wf, yf = w.ravel(), y.ravel()
    B, A = np_model(xs_list, nsegs, degs, d, lams, wf, yf, doms)
    nb = B.shape[1]
    cond = np.linalg.cond(A)
    if not np.isfinite(cond) or cond > 1e12:
        rep.dist["rejected-ill-conditioned"] = rep.dist.get("rejected-ill-conditioned", 0) + 1
        return
    Z = np.linalg.solve(A, B.T).T                                   # candidates for A z_i = b_i
    scaleA = float(np.max(np.abs(A)) * max(1.0, np.max(np.abs(beta))) * nb + np.max(np.abs(B.T @ (wf * yf))))
    scaleZ = float(np.max(np.abs(A)) * max(1.0, np.max(np.abs(Z))) * nb + 1.0)
    tolA = 1e-8 * max(scaleA, scaleZ)
    tolY = 1e-8 * max(1.0, float(np.max(np.abs(yhat))))
    rows = [f"(rows1 {C.qlit(a)} {C.qlit(b)} {ns}%nat {p}%nat {C.qlist(x)})"
            for x, ns, p, (a, b) in zip(xs_list, nsegs, degs, doms)]
    nbs = [ns + p for ns, p in zip(nsegs, degs)]
    if dim == 1:
        Bt = rows[0]
        pens = f"(pens1 opsQ {nbs[0]}%nat {d}%nat {C.qlit(lams[0])})"
    elif dim == 2:
        Bt = f"(design2 opsQ {rows[0]} {rows[1]})"
        pens = f"(pens2 opsQ {nbs[0]}%nat {nbs[1]}%nat {d}%nat {C.qlit(lams[0])} {C.qlit(lams[1])})"
    else:
        Bt = f"(design3 opsQ {rows[0]} {rows[1]} {rows[2]})"
        pens = (f"(pens3 opsQ {nbs[0]}%nat {nbs[1]}%nat {nbs[2]}%nat {d}%nat {C.qlit(lams[0])} {C.qlit(lams[1])} "
                f"{C.qlit(lams[2])})")
    # exact leverage certificates: all observations in 1-D, a sample otherwise (each costs one exact A z);
    # the remaining ones are compared with the NumPy reference below
    n_obs = B.shape[0]
    budget = {1: n_obs, 2: 6 if quick else 20, 3: 3 if quick else 8}[dim]
    sel = np.sort(rng.choice(n_obs, size=min(budget, n_obs), replace=False))
    t = runq.add(f"fit_ok_sel {C.qlit(tolA)} {C.qlit(tolY)} {C.qlit(1e-7 * max(1.0, cond * 1e-9))} {nb}%nat {Bt} {pens} {runq.vec(wf)} {runq.vec(yf)} "
                 f"{runq.vec(beta.ravel())} {runq.vec(yhat.ravel())} {C.natlist(sel)} {runq.mat(Z[sel])} {runq.vec(H.ravel()[sel])}")
    todo.append((t, "beta_hat / y_hat / hat-matrix diagonal solve the model's penalised weighted least-squares normal equations",
                 key, opts, replay))
    xnew = [np.sort(np.round(rng.uniform(x[0], x[-1], size=3) * 64) / 64).clip(x[0], x[-1]) for x in xs_list]
    with warnings.catch_warnings():
        warnings.simplefilter("ignore")
        try:
            ypn = np.asarray(ps.predict(xnew[0] if dim == 1 else xnew), float)
        except Exception as e:  # noqa: BLE001
            rep.violation(f"PSplines.predict at new points inside the fit domain ({dim}-D, n_segments={nsegs}, degree={degs}, grid sizes "
                          f"{[len(x) for x in xs_list]}) raised {type(e).__name__}: {e}"[:400],
                          {**replay, "x_new": [C.hexf(x) for x in xnew]})
            return
    rowsn = [f"(rows1 {C.qlit(a)} {C.qlit(b)} {ns}%nat {p}%nat {C.qlist(x)})"
             for x, ns, p, (a, b) in zip(xnew, nsegs, degs, doms)]
    Bn = rowsn[0] if dim == 1 else (f"(design2 opsQ {rowsn[0]} {rowsn[1]})" if dim == 2
                                    else f"(design3 opsQ {rowsn[0]} {rowsn[1]} {rowsn[2]})")
    t = runq.add(f"predict_ok {C.qlit(tolY)} {Bn} {C.qlist(beta.ravel())} {C.qlist(ypn.ravel())}")
    todo.append((t, "predict(new points) = B_new beta_hat on the fit domain", key, opts,
                 {**replay, "x_new": [C.hexf(x) for x in xnew]}))
    # ---- monitors on the implementation
    mon = []
    if np.max(np.abs(ypred_fit - yhat)) > 1e-9 * max(1.0, np.max(np.abs(yhat))):
        mon.append("predict at the fitting grid differs from the fitted values")
    slack = max(1.0, cond * 1e-9)
    Href = wf * np.einsum("ij,ij->i", B, Z)
    if np.max(np.abs(H.ravel() - Href)) > 1e-7 * slack:
        mon.append(f"hat-matrix diagonal differs from w_i b_i^T A^-1 b_i (max dev {np.max(np.abs(H.ravel() - Href)):.3g})")
    Hpos = H[w > 0]
    if Hpos.size and (Hpos.min() < -1e-8 * slack or Hpos.max() > 1 + 1e-8 * slack):    # rounding grows with cond(A)
        mon.append(f"leverages outside [0,1]: min {Hpos.min():.3g}, max {Hpos.max():.3g}")

    def refit(yy, ww=w):
        with warnings.catch_warnings():
            warnings.simplefilter("ignore")
            return np.asarray(fitx(make(), yy, ww).y_hat, float)

    # history independence: an object already fitted on ANOTHER grid/data, refitted here, gives the fresh answer
    xs_other = [np.round((x - x[0]) * 1.75 * 64) / 64 + x[0] - 0.5 for x in xs_list]
    if all(np.all(np.diff(x) > 0) for x in xs_other):
        with warnings.catch_warnings():
            warnings.simplefilter("ignore")
            old = make()
            old.fit(1.0 + 0.5 * y, xs_other[0] if dim == 1 else xs_other, sample_weights=np.ones(shape),
                    penalty=lams[0] if dim == 1 else tuple(lams))
            fitx(old, y, w)
            d_hist = max(float(np.max(np.abs(np.asarray(old.y_hat, float) - yhat))),
                         float(np.max(np.abs(np.asarray(old.beta_hat, float) - beta))),
                         float(np.max(np.abs(np.asarray(old.predict(xnew[0] if dim == 1 else xnew), float) - ypn))))
        if d_hist > 1e-9 * max(1.0, np.max(np.abs(yhat)), np.max(np.abs(beta))) * slack:
            mon.append(f"a fit depends on what the object was fitted on before (re-fit on this grid after a fit on another "
                       f"grid differs from a fresh fit by {d_hist:.3g})")
    y2 = np.round(rng.normal(size=shape) * 8) / 8 + 2.0
    lin = refit(1.5 * y - 0.5 * y2) - (1.5 * yhat - 0.5 * refit(y2))
    if np.max(np.abs(lin)) > 1e-7 * max(1.0, np.max(np.abs(y)), np.max(np.abs(y2))) * slack:
        mon.append("smoother is not linear in the responses")
    c2 = 2.0 ** -30                # responses in small units: the smoother has no absolute scale
    small = refit(c2 * y) - c2 * yhat
    if not np.all(np.isfinite(small)) or np.max(np.abs(small)) > 1e-7 * c2 * max(1.0, np.max(np.abs(y))) * slack:
        mon.append(f"the fit of the responses times 2^-30 is not 2^-30 times the fit (max deviation {np.max(np.abs(small)):.3g})")
    if wkind == "binary" and np.any(w == 0):
        y3 = y.copy()
        y3[w == 0] += 5.0
        if np.max(np.abs(refit(y3) - yhat)) > 1e-7 * max(1.0, np.max(np.abs(yhat))) * slack:
            mon.append("zero-weight observations influence the fit")
    deg_pol = min(d - 1, min(degs))
    pol = np.zeros(shape)
    for k in range(dim):
        u = (xs_list[k] - xs_list[k][0]) / (xs_list[k][-1] - xs_list[k][0])
        pol = pol + (1.0 + (k + 1) * u ** deg_pol).reshape([-1 if j == k else 1 for j in range(dim)])
    if np.count_nonzero(w) >= nb:
        rp = refit(pol)
        err = float(np.max(np.abs(rp - pol)[w > 0]))
        if err > 1e-6 * slack:
            mon.append(f"polynomial of degree {deg_pol} < order {d} is not reproduced (max err {err:.3g})")
    if mon:
        rep.violation("P-splines: " + "; ".join(mon), replay)


def run(rep, props, replay=None):
    quick = C.tier() == "quick"
    rng = np.random.default_rng([C.seed(), 5])
    runq = C.CoqRun("C05", IMPORTS, shard=2)
    todo = []
    plan = [(1, 12), (2, 6), (3, 2)] if quick else [(1, 150), (2, 60), (3, 15)]
    idx = 0
    for dim, cnt in plan:
        for _ in range(cnt):
            one_case(rng, runq, todo, rep, dim, quick, idx)
            idx += 1
    res = runq.run()
    seen = set()
    for t, what, key, opts, replay_d in todo:
        if key not in seen:
            seen.add(key)
            rep.case(key, nontrivial=max(opts["n_segments"]) >= 2, kind=f"{opts['dim']}-D/{opts['weights']}", sample=opts)
        if not res[t]:
            rep.disagreements_checked += 1
            rep.violation(what + " — fails", {**replay_d, "claim": what})
