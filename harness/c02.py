"""C02 — UFPCA eigenpairs solve the discretised covariance / Gram eigenproblem."""
from __future__ import annotations

import warnings

import numpy as np

from harness import common as C
from harness import fd

IMPORTS = "From FDAV Require Import Base.Num Base.Vec Base.Quad Base.Cmp Model.Ufpca Model.Stats Tie.C02 Tie.C09."
RULE = ("dense 1-D datasets (n_obs 3..10 / 3..40, 4..12 / 4..40 points; uniform, dyadic, non-uniform, day-of-year, shifted grids; offsets "
        "and scales), UFPCA with method covariance and inner-product, n_components in {1, 2, k, None}: the implementation's eigenvalues, "
        "eigenfunctions, covariance and Gram eigenvectors are fed to the model-level certificates evaluated exactly in Q (orthonormality for the "
        "trapezoid weights, integral eigen-equation against the covariance surface, Mercer sum = reported covariance (= surface when all "
        "components are kept), Gram route phi = X^T v / sqrt(l) with G v = l v, mutual orthogonality) and, for separated spectra, compared "
        "up to sign with the model's back-transform of an independent numpy eigh of W^1/2 C W^1/2. Non-trivial: >= 2 retained components "
        "or a non-uniform grid; distinct by data bytes, method, n_components.")
F1B_WHAT = ("UFPCA(method='covariance', n_components=None) on a rank-deficient covariance (n_obs-1 < n_points): the null-space "
            "eigenfunctions returned by np.linalg.eig are not mutually orthogonal (same root cause as F1: eig instead of the symmetric solver)")
ASSUME = ["exact-arithmetic model; certificates evaluated in Q with tolerance 1e-7*scale on the implementation's float output",
          "eigen-solver and sqrt are oracles: their outputs are re-checked by the certificates, not trusted"]


def run(rep, props, replay=None):
    from FDApy.preprocessing.dim_reduction.ufpca import UFPCA
    from FDApy.misc.utils import _integration_weights
    quick = C.tier() == "quick"
    rng = np.random.default_rng([C.seed(), 2])
    runq = C.CoqRun("C02", IMPORTS, shard=12)
    todo = []
    defect = {}
    def _ev(d, meth):
        f = UFPCA(n_components=2, method=meth)
        f.fit(d, method_smoothing=None)
        return np.concatenate([np.asarray(f.eigenvalues, float).ravel(), np.abs(np.asarray(f.eigenfunctions.values, float)).ravel(),
                               np.asarray(f.covariance.values, float).ravel()])
    fd.dtype_monitor(rep, rng, {"UFPCA(covariance) eigenvalues / |eigenfunctions| / covariance": lambda d: _ev(d, "covariance"),
                                "UFPCA(inner-product) eigenvalues / |eigenfunctions| / covariance": lambda d: _ev(d, "inner-product")},
                     "UFPCA")
    kinds = ["uniform", "uniform-dyadic", "nonuniform", "doy", "shifted"]
    n_cases = 10 if quick else 60
    for i in range(n_cases):
        kind = kinds[i % len(kinds)]
        n = int(rng.integers(3, 11 if quick else 30))
        m = int(rng.integers(4, 13 if quick else 24))
        x = fd.grid(rng, m, kind)
        X = fd.smooth_curves(rng, n, x, rough=(i % 2 == 0), offset=float(rng.choice([0.0, 5.0])),
                             scale=float(rng.choice([1.0, 10.0, 0.1]))) + 0.05 * rng.normal(size=(n, m))
        X = np.round(X * 1024) / 1024
        if i % 10 == 3:
            X = X * 1e-6                      # "any scale": curves in small units
        elif i % 10 == 8:
            X = X * 2.0 ** -40                # picometre-sized units: every eigenvalue is below machine epsilon
        elif i % 5 == 4:
            X = X * 1e4
        d = fd.dense(x, X)
        w = _integration_weights(x, method="trapz")
        qx = C.qlist(x)
        qw = f"(trapz_w opsQ {qx})"
        with warnings.catch_warnings():
            warnings.simplefilter("ignore")
            Csurf = np.asarray(d.center().covariance(center=False).values)[0]
        cs = max(1e-300, float(np.max(np.abs(Csurf))))
        # a second grid with the SAME number of points and the SAME end points, other interior points (the same curve values):
        # nothing computed for the first grid may be reused for it
        if m >= 4:
            x2 = x.copy()
            x2[1:-1] = x[1:-1] + np.round(0.375 * np.diff(x)[1:] * 1024) / 1024
            d2 = fd.dense(x2, X)
            with warnings.catch_warnings():
                warnings.simplefilter("ignore")
                f2 = UFPCA(n_components=2, method="covariance")
                f2.fit(d2, method_smoothing=None)
            lam2 = np.asarray(f2.eigenvalues, float)
            phi2 = np.asarray(f2.eigenfunctions.values, float)
            ps2 = max(1.0, float(np.max(np.abs(phi2))))
            qw2 = f"(trapz_w opsQ {C.qlist(x2)})"
            key2 = (kind, X.tobytes(), "covariance/second-grid", "2")
            ta = runq.add(f"orthonormal_w {C.qlit(1e-7 * ps2 * ps2 * max(1.0, np.ptp(x2)))} {qw2} {C.qmat(phi2)}")
            tb = runq.add(f"eigen_equation {C.qlit(1e-7 * cs * ps2 * max(1.0, np.ptp(x2)))} {qw2} {C.qmat(Csurf)} {C.qlist(lam2)} {C.qmat(phi2)}")
            todo += [(ta, "cov: eigenfunctions orthonormal for the trapezoid weights (second grid, same size and end points)", key2, 2),
                     (tb, "cov: integral eigen-equation (second grid, same size and end points)", key2, 2)]
        for ncomp in ([1, 2, None] if quick else [1, 2, 3, min(5, n - 1), None]):
            if isinstance(ncomp, int) and ncomp > min(n - 1, m):
                continue
            # ---------------- covariance method
            with warnings.catch_warnings():
                warnings.simplefilter("ignore")
                f = UFPCA(n_components=ncomp, method="covariance")
                f.fit(d, method_smoothing=None)
            lam = np.asarray(f.eigenvalues, float)
            phi = np.asarray(f.eigenfunctions.values, float)
            ps = max(1.0, float(np.max(np.abs(phi))))
            merc = np.asarray(f.covariance.values)[0]
            key = (kind, X.tobytes(), "covariance", repr(ncomp))
            t1 = runq.add(f"orthonormal_w {C.qlit(1e-7 * ps * ps * max(1.0, np.ptp(x)))} {qw} {C.qmat(phi)}")
            t1d = runq.add(f"orthonormal_w_nonnull {C.qlit(1e-7 * ps * ps * max(1.0, np.ptp(x)))} {C.qlit(1e-9 * cs * max(1.0, np.ptp(x)))} "
                           f"{qw} {C.qlist(lam)} {C.qmat(phi)}")
            defect[t1] = t1d
            t2 = runq.add(f"eigen_equation {C.qlit(1e-7 * cs * ps * max(1.0, np.ptp(x)))} {qw} {C.qmat(Csurf)} {C.qlist(lam)} {C.qmat(phi)}")
            t3 = runq.add(f"mclose {C.qlit(1e-8 * cs)} (mercer opsQ {m}%nat {C.qlist(lam)} {C.qmat(phi)}) {C.qmat(merc)}")
            todo += [(t1, "cov: eigenfunctions orthonormal for the trapezoid weights", key, ncomp),
                     (t2, "cov: integral eigen-equation", key, ncomp),
                     (t3, "cov: reported covariance is the Mercer sum", key, ncomp)]
            if ncomp is None:
                t4 = runq.add(f"mclose {C.qlit(1e-7 * cs)} (mercer opsQ {m}%nat {C.qlist(lam)} {C.qmat(phi)}) {C.qmat(Csurf)}")
                todo.append((t4, "cov: Mercer sum with all components reproduces the covariance surface", key, ncomp))
            # scoring afterwards leaves the fitted decomposition alone: the reported covariance is still the Mercer sum
            if ncomp in (2, None) and i % 2 == 0:
                def _state(est):
                    return [np.array(np.asarray(est.covariance.values), copy=True), np.array(np.asarray(est.eigenvalues), copy=True),
                            np.array(np.asarray(est.eigenfunctions.values), copy=True), np.array(np.asarray(est.mean.values), copy=True)]
                before = _state(f)
                for sm in ("PACE", "NumInt"):
                    try:
                        with warnings.catch_warnings():
                            warnings.simplefilter("ignore")
                            f.transform(method=sm)
                            f.transform(method=sm)
                    except Exception as e:  # noqa: BLE001
                        rep.notes.append(f"UFPCA(covariance).transform(method={sm}) raised {type(e).__name__}: {e}"[:160]) \
                            if len(rep.notes) < 12 else None
                        continue
                    names = ["covariance", "eigenvalues", "eigenfunctions", "mean"]
                    changed = [nm for nm, a0, a1 in zip(names, before, _state(f)) if not np.array_equal(a0, a1, equal_nan=True)]
                    rep.case(("after-transform", sm, X.tobytes(), repr(ncomp)), kind="history/after-transform")
                    if changed:
                        rep.violation(f"UFPCA(covariance, n_components={ncomp}): transform(method='{sm}') changed the fitted {changed}: "
                                      f"the reported covariance is no longer the Mercer sum of the reported eigenpairs",
                                      {"x": C.hexf(x), "X": C.hexf(X), "n_components": ncomp, "score_method": sm, "changed": changed})
                        break
            # direct tie with the model's back-transform of an independent eigh
            s = np.sqrt(w)
            M = (s[:, None] * Csurf) * s[None, :]
            ew, ev = np.linalg.eigh((M + M.T) / 2)
            for kk in range(len(lam)):
                j = int(np.argmin(np.abs(ew - lam[kk])))
                others = np.delete(ew, j)
                if lam[kk] > 1e-8 * cs and (len(others) == 0 or np.min(np.abs(others - ew[j])) > 1e-5 * cs * np.ptp(x)):
                    t5 = runq.add(f"roots_ok {C.qlit(1e-12 * max(1.0, np.max(w)))} {C.qlist(s)} {qw} && "
                                  f"qclose {C.qlit(1e-7 * cs * np.ptp(x))} {C.qlit(ew[j])} {C.qlit(lam[kk])} && "
                                  f"vclose_sign {C.qlit(1e-6 * ps)} (back opsQ {C.qlist(s)} {C.qlist(ev[:, j])}) {C.qlist(phi[kk])}")
                    todo.append((t5, "cov: eigenfunction = W^-1/2 u of an independent eigen-decomposition", key, ncomp))
            # history: an estimator object already fitted on OTHER data (other grid, other size) gives, refitted here,
            # exactly what a fresh object gives
            if ncomp in (2, None):
                xo = fd.grid(rng, m + 3, kinds[(i + 1) % len(kinds)])
                do = fd.dense(xo, np.round(fd.smooth_curves(rng, n + 2, xo) * 64) / 64)
                for meth, fresh in (("covariance", f), ("inner-product", None)):
                    with warnings.catch_warnings():
                        warnings.simplefilter("ignore")
                        if fresh is None:
                            fresh = UFPCA(n_components=ncomp, method=meth)
                            fresh.fit(d, method_smoothing=None)
                        h = UFPCA(n_components=ncomp, method=meth)
                        h.fit(do, method_smoothing=None)
                        try:                      # use the first fit before refitting (fills whatever is cached lazily)
                            h.inverse_transform(h.transform(None, method="NumInt" if meth == "covariance" else "InnPro"))
                        except Exception:  # noqa: BLE001
                            pass
                        h.fit(d, method_smoothing=None)
                        # ... after a fit on OTHER CURVES ON THE SAME GRID (other mean, other scale)
                        h3 = UFPCA(n_components=ncomp, method=meth)
                        h3.fit(fd.dense(x, np.round((X[::-1] * 0.5 + 3.0 + np.sin(x)[None, :]) * 1024) / 1024), method_smoothing=None)
                        h3.fit(d, method_smoothing=None)
                        if not (np.array_equal(np.asarray(h3.eigenvalues, float), np.asarray(fresh.eigenvalues, float), equal_nan=True)
                                and np.array_equal(np.asarray(h3.eigenfunctions.values, float),
                                                   np.asarray(fresh.eigenfunctions.values, float), equal_nan=True)
                                and np.array_equal(np.asarray(h3.mean.values, float), np.asarray(fresh.mean.values, float), equal_nan=True)
                                and np.array_equal(np.asarray(h3.covariance.values, float),
                                                   np.asarray(fresh.covariance.values, float), equal_nan=True)):
                            rep.violation(f"UFPCA({meth}, n_components={ncomp}): a fit on this dataset after a fit on other curves on the "
                                          f"same grid differs from a fresh fit (the estimator keeps state from the earlier fit)",
                                          {"grid": kind, "method": meth, "n_components": ncomp, "x": C.hexf(x), "X": C.hexf(X)})
                        # ... and the other way round: this dataset first, then the bigger one
                        h2 = UFPCA(n_components=ncomp, method=meth)
                        h2.fit(d, method_smoothing=None)
                        h2.fit(do, method_smoothing=None)
                        fresh_o = UFPCA(n_components=ncomp, method=meth)
                        fresh_o.fit(do, method_smoothing=None)
                    same_o = (np.array_equal(np.asarray(fresh_o.eigenvalues, float), np.asarray(h2.eigenvalues, float), equal_nan=True)
                              and np.array_equal(np.asarray(fresh_o.eigenfunctions.values, float),
                                                 np.asarray(h2.eigenfunctions.values, float), equal_nan=True)
                              and np.array_equal(np.asarray(fresh_o.covariance.values, float), np.asarray(h2.covariance.values, float),
                                                 equal_nan=True))
                    if not same_o:
                        rep.violation(f"UFPCA({meth}, n_components={ncomp}): a fit on a bigger dataset after a fit on this dataset differs "
                                      f"from a fresh fit (the estimator keeps state from the earlier fit)",
                                      {"grid": kind, "method": meth, "n_components": ncomp, "x": C.hexf(x), "X": C.hexf(X)})
                    rep.case((kind, X.tobytes(), meth, repr(ncomp), "refit"), kind=f"history-refit/{meth}")
                    e1, e2 = np.asarray(fresh.eigenvalues, float), np.asarray(h.eigenvalues, float)
                    p1, p2 = np.asarray(fresh.eigenfunctions.values, float), np.asarray(h.eigenfunctions.values, float)
                    m1, m2 = np.asarray(fresh.mean.values, float), np.asarray(h.mean.values, float)
                    same = (e1.shape == e2.shape and p1.shape == p2.shape and np.array_equal(e1, e2, equal_nan=True)
                            and np.array_equal(p1, p2, equal_nan=True) and np.array_equal(m1, m2, equal_nan=True)
                            and np.array_equal(np.asarray(fresh.covariance.values, float), np.asarray(h.covariance.values, float),
                                               equal_nan=True))
                    if not same:
                        rep.violation(f"UFPCA({meth}, n_components={ncomp}): a fit on this dataset after a fit on another dataset differs "
                                      f"from a fresh fit (the estimator keeps state from the earlier fit)",
                                      {"grid": kind, "method": meth, "n_components": ncomp, "x": C.hexf(x), "X": C.hexf(X)})
            # ---------------- inner-product method
            if ncomp is None:
                continue            # zero Gram eigenvalues: phi = X^T v / sqrt(0) is outside the stated relations
            with warnings.catch_warnings():
                warnings.simplefilter("ignore")
                g = UFPCA(n_components=ncomp, method="inner-product")
                g.fit(d, method_smoothing=None)
            Xc = np.asarray(g._training_data.values, float)
            nv = float(g._noise_variance)
            ls = np.asarray(g.eigenvalues, float) * n
            Gref = (Xc * w) @ Xc.T - nv * np.eye(n)               # the Gram matrix of the model (noise-corrected diagonal)
            top = float(np.max(np.linalg.eigvalsh((Gref + Gref.T) / 2)))
            if top <= 1e-9 * float(np.max(np.abs(Gref))):
                continue            # the noise correction leaves no positive eigenvalue: nothing is stated
            # Which k of the eigenvalues a k-component fit keeps is F1's matter (C01: solver order, a zero one may come
            # first).  What is judged here: when the model's Gram matrix has at least two clearly positive eigenvalues, a
            # fit asking for all but one component cannot come back without any positive eigenvalue.
            if not np.all(np.isfinite(ls)) or ls.max() <= 0:
                evs = np.linalg.eigvalsh((Gref + Gref.T) / 2)
                n_pos = int(np.sum(evs > 1e-6 * top))
                if ncomp == 1 and n_pos >= 2 and n >= 3:
                    with warnings.catch_warnings():
                        warnings.simplefilter("ignore")
                        g_all = UFPCA(n_components=n - 1, method="inner-product")
                        g_all.fit(d, method_smoothing=None)
                    la = np.asarray(g_all.eigenvalues, float)
                    if not np.any(la[np.isfinite(la)] > 0):
                        rep.violation(f"gram: no positive Gram eigenvalue among the {n - 1} requested although the Gram matrix has "
                                      f"{n_pos} (grid={kind}, data scale {float(np.max(np.abs(X))):.3g})",
                                      {"grid": kind, "method": "inner-product", "n_components": n - 1, "x": C.hexf(x), "X": C.hexf(X)})
                continue
            if np.any(ls <= 1e-9 * ls.max()):
                continue
            rs = np.sqrt(ls)
            vs = np.asarray(g._eigenvectors, float).T
            phis = np.asarray(g.eigenfunctions.values, float)
            ps = max(1.0, float(np.max(np.abs(phis))), float(np.max(np.abs(Xc))))
            gs = float(ls.max())
            key = (kind, X.tobytes(), "inner-product", repr(ncomp))
            t6 = runq.add(f"gram_route {C.qlit(1e-7 * max(1.0, float(np.max(np.abs(phis)))))} {C.qlit(1e-7 * gs)} {m}%nat {C.qmat(Xc)} (gram opsQ {qx} {C.qmat(Xc)} {C.qlit(nv)}) "
                          f"{C.qlist(ls)} {C.qlist(rs)} {C.qmat(vs)} {C.qmat(phis)}")
            t7 = runq.add(f"orthogonal_w {C.qlit(1e-7 * ps * ps * max(1.0, np.ptp(x)))} {qw} {C.qmat(phis)}")
            todo += [(t6, "gram: phi = X^T v / sqrt(l), G v = l v", key, ncomp),
                     (t7, "gram: eigenfunctions mutually orthogonal", key, ncomp)]
    res = runq.run()
    seen = set()
    for t, what, key, ncomp in todo:
        if (key, what) not in seen:
            seen.add((key, what))
            rep.case((key, what), nontrivial=(ncomp is None or ncomp >= 2 or key[0] != "uniform"), kind=f"{key[2]}/{key[0]}",
                     sample={"grid": key[0], "method": key[2], "n_components": ncomp, "certificate": what})
        if not res[t]:
            rep.disagreements_checked += 1
            if t in defect and res[defect[t]]:
                rep.known_finding("F1b", F1B_WHAT, {"grid": key[0], "method": key[2], "n_components": ncomp})
                continue
            rep.violation(what + f" — fails (method={key[2]}, n_components={ncomp}, grid={key[0]})",
                          {"grid": key[0], "method": key[2], "n_components": ncomp, "certificate": what,
                           "X": C.hexf(np.frombuffer(key[1]))})
