"""C08 — integration, norms and Gram matrices form a consistent L2 geometry."""
from __future__ import annotations

import numpy as np

from harness import common as C
from harness import fd

IMPORTS = "From FDAV Require Import Base.Num Base.Vec Base.Quad Base.Cmp Model.Simpson Tie.C08."

RULE = ("helpers _integration_weights/_integrate/_inner_product on 1-D, 2-D, 3-D integrands over uniform, dyadic, non-uniform, "
        "day-of-year, shifted and negative grids (model: trapz, trapz_w, trapz2, trapz3, inner evaluated exactly in Q); "
        "DenseFunctionalData.norm / inner_product(noise_variance=0) vs normsq / gram on the centred rows; monitors on the "
        "implementation: linearity (trapz and simpson), Cauchy-Schwarz, triangle, homogeneity, Gram symmetric / PSD / diagonal / "
        "zero row sums / permutation equivariance / multivariate sum; basis data through centred coefficients. "
        "Non-trivial = at least 3 grid points and a non-constant integrand; distinct by input bytes.")
ASSUME = ["exact-arithmetic model; comparison tolerance 1e-10*scale (1e-9*scale for Gram matrices after centring)",
          "Simpson rule: Model/Simpson.v (scipy composite rule for unequal spacings) compared exactly, 1-D and 2-D"]


def tol_of(*arrs, rel=1e-10):
    s = max([1.0] + [float(np.max(np.abs(a))) for a in arrs if np.size(a)])
    return rel * s * s + 1e-13


def stol_of(x, y):
    hh = np.diff(x)
    ratio = float(np.max(np.maximum(hh[1:] / hh[:-1], hh[:-1] / hh[1:]))) if len(x) >= 3 else 1.0
    return 1e-9 * max(1.0, float(np.ptp(x))) * max(1.0, float(np.max(np.abs(y)))) * (1.0 + ratio) ** 2


def helper_level(rep, rng, quick):
    from FDApy.misc.utils import _integrate, _integration_weights, _inner_product
    run = C.CoqRun("C08", IMPORTS)
    todo = []
    fd.dtype_monitor(rep, rng, {
        "norm()": lambda d: d.norm(), "norm(squared, simpson)": lambda d: d.norm(squared=True, method_integration="simpson"),
        "inner_product(noise_variance=0)": lambda d: d.inner_product(noise_variance=0),
        "inner_product(simpson)": lambda d: d.inner_product(method_integration="simpson", noise_variance=0)}, "L2 geometry")
    n_cases = 40 if quick else 600
    for i in range(n_cases):
        kind = fd.GRID_KINDS[i % len(fd.GRID_KINDS)]
        m = int(rng.integers(2, 9 if quick else 40))
        x = fd.grid(rng, m, kind)
        y = fd.dyadic_matrix(rng, 1, m)[0] if i % 3 else np.cos(3 * x) * 2.5
        g = fd.dyadic_matrix(rng, 1, m)[0]
        w = _integration_weights(x, method="trapz")
        wtol = 1e-12 * max(1.0, float(np.max(np.abs(x))))
        t = run.add(f"vclose {C.qlit(wtol)} (trapz_w opsQ {C.qlist(x)}) {C.qlist(w)}")
        todo.append((t, "weights", kind, {"x": x, "impl": w}))
        v = _integrate(y, x, method="trapz")
        t = run.add(f"qclose {C.qlit(tol_of(x, y))} (trapz opsQ {C.qlist(x)} {C.qlist(y)}) {C.qlit(v)}")
        todo.append((t, "integrate-1d", kind, {"x": x, "y": y, "impl": v}))
        if m >= 4:
            # a second grid with the same number of points and the same end points (other interior points), right afterwards
            x2 = x.copy()
            x2[1:-1] = x[1:-1] + np.round(0.375 * np.diff(x)[1:] * 1024) / 1024
            w2 = _integration_weights(x2, method="trapz")
            t = run.add(f"vclose {C.qlit(wtol)} (trapz_w opsQ {C.qlist(x2)}) {C.qlist(w2)}")
            todo.append((t, "weights", kind + "/second-grid-same-ends", {"x": x2, "impl": w2}))
            for meth in ("trapz", "simpson"):
                v2 = _integrate(y, x2, method=meth)
                model = "trapz" if meth == "trapz" else "simpson"
                t = run.add(f"qclose {C.qlit(stol_of(x2, y) if meth == 'simpson' else tol_of(x2, y))} "
                            f"({model} opsQ {C.qlist(x2)} {C.qlist(y)}) {C.qlit(v2)}")
                todo.append((t, f"{'integrate' if meth == 'trapz' else 'simpson'}-1d", kind + "/second-grid-same-ends",
                             {"x": x2, "y": y, "impl": v2}))
        v = _inner_product(y, g, x, method="trapz")
        t = run.add(f"qclose {C.qlit(tol_of(x, y * g))} (inner opsQ {C.qlist(x)} {C.qlist(y)} {C.qlist(g)}) {C.qlit(v)}")
        todo.append((t, "inner-1d", kind, {"x": x, "f": y, "g": g, "impl": v}))
        # Simpson's rule against the exact model (scipy's composite rule for unequal spacings: N = 2 trapezoid, N odd,
        # N even with the correction for the last interval), 1-D and 2-D
        hh = np.diff(x)
        ratio = float(np.max(np.maximum(hh[1:] / hh[:-1], hh[:-1] / hh[1:]))) if m >= 3 else 1.0
        stol = 1e-9 * max(1.0, float(np.ptp(x))) * max(1.0, float(np.max(np.abs(y)))) * (1.0 + ratio) ** 2
        v = _integrate(y, x, method="simpson")
        t = run.add(f"qclose {C.qlit(stol)} (simpson opsQ {C.qlist(x)} {C.qlist(y)}) {C.qlit(v)}")
        todo.append((t, "simpson-1d", kind, {"x": x, "y": y, "impl": v}))
        if i % 2 == 1:
            xs2 = fd.grid(rng, int(rng.integers(2, 7)), fd.GRID_KINDS[(i + 3) % len(fd.GRID_KINDS)])
            Ys = fd.dyadic_matrix(rng, m, len(xs2))
            h2 = np.diff(xs2)
            ratio2 = float(np.max(np.maximum(h2[1:] / h2[:-1], h2[:-1] / h2[1:]))) if len(xs2) >= 3 else 1.0
            v2 = _integrate(Ys, x, xs2, method="simpson")
            t = run.add(f"qclose {C.qlit(stol * max(1.0, float(np.ptp(xs2))) * (1.0 + ratio2) ** 2 * max(1.0, float(np.max(np.abs(Ys)))))} "
                        f"(simpson2 opsQ {C.qlist(x)} {C.qlist(xs2)} {C.qmat(Ys)}) {C.qlit(v2)}")
            todo.append((t, "simpson-2d", kind, {"x1": x, "x2": xs2, "Y": Ys, "impl": v2}))
        # monitors: linearity, weights agreement, simpson linearity
        a, b = 1.5, -0.25
        for meth in ("trapz", "simpson"):
            if m < 3 and meth == "simpson":
                continue
            lhs = _integrate(a * y + b * g, x, method=meth)
            rhs = a * _integrate(y, x, method=meth) + b * _integrate(g, x, method=meth)
            if abs(lhs - rhs) > 1e-9 * max(1.0, abs(lhs), float(np.max(np.abs(x)))):
                rep.violation(f"_integrate({meth}) is not linear", {"x": C.hexf(x), "y": C.hexf(y), "g": C.hexf(g),
                                                                     "lhs": lhs, "rhs": rhs})
        if abs(float(np.dot(w, y)) - _integrate(y, x, method="trapz")) > tol_of(x, y, rel=1e-9):
            rep.violation("trapz integration disagrees with its own quadrature weights",
                          {"x": C.hexf(x), "y": C.hexf(y)})
        # 2-D and 3-D
        if i % 2 == 0:
            m2 = int(rng.integers(2, 6 if quick else 12))
            x2 = fd.grid(rng, m2, fd.GRID_KINDS[(i + 2) % len(fd.GRID_KINDS)])
            Y = fd.dyadic_matrix(rng, m, m2)
            v = _integrate(Y, x, x2, method="trapz")
            t = run.add(f"qclose {C.qlit(tol_of(x, Y) * max(1.0, np.max(np.abs(x2))))} "
                        f"(trapz2 opsQ {C.qlist(x)} {C.qlist(x2)} {C.qmat(Y)}) {C.qlit(v)}")
            todo.append((t, "integrate-2d", kind, {"x1": x, "x2": x2, "Y": Y, "impl": v}))
            # product grid monitor
            f1, g1 = fd.dyadic_matrix(rng, 1, m)[0], fd.dyadic_matrix(rng, 1, m2)[0]
            lhs = _integrate(np.outer(f1, g1), x, x2, method="trapz")
            rhs = _integrate(f1, x, method="trapz") * _integrate(g1, x2, method="trapz")
            if abs(lhs - rhs) > 1e-9 * max(1.0, abs(rhs)):
                rep.violation("integration does not factorise over a product grid",
                              {"x1": C.hexf(x), "x2": C.hexf(x2), "f": C.hexf(f1), "g": C.hexf(g1), "lhs": lhs, "rhs": rhs})
            # the same for Simpson's rule, 2-D and 3-D, with at least 3 points on every axis
            if m >= 3:
                xb = fd.grid(rng, int(rng.integers(3, 8)), "nonuniform")
                xc = fd.grid(rng, int(rng.integers(3, 6)), "shifted")
                fb, fc = fd.dyadic_matrix(rng, 1, len(xb))[0] + 0.5, fd.dyadic_matrix(rng, 1, len(xc))[0] - 0.25
                try:
                    i1, i2, i3 = (_integrate(f1, x, method="simpson"), _integrate(fb, xb, method="simpson"),
                                  _integrate(fc, xc, method="simpson"))
                    l2 = _integrate(np.outer(f1, fb), x, xb, method="simpson")
                    l3 = _integrate(np.einsum("i,j,k->ijk", f1, fb, fc), x, xb, xc, method="simpson")
                    l3t = _integrate(np.einsum("i,j,k->ijk", f1, fb, fc), x, xb, xc, method="trapz")
                    t3 = (_integrate(f1, x, method="trapz") * _integrate(fb, xb, method="trapz") * _integrate(fc, xc, method="trapz"))
                except Exception as e:  # noqa: BLE001
                    rep.violation(f"_integrate of a product integrand over grids of sizes {(len(x), len(xb), len(xc))} raised "
                                  f"{type(e).__name__}: {e}"[:300],
                                  {"x1": C.hexf(x), "x2": C.hexf(xb), "x3": C.hexf(xc), "f1": C.hexf(f1), "f2": C.hexf(fb), "f3": C.hexf(fc)})
                    continue
                if abs(l3t - t3) > 1e-9 * max(1.0, abs(t3)):
                    rep.violation(f"trapezoid integration does not factorise over a 3-D product grid: {l3t!r} vs {t3!r}",
                                  {"x1": C.hexf(x), "x2": C.hexf(xb), "x3": C.hexf(xc), "f1": C.hexf(f1), "f2": C.hexf(fb), "f3": C.hexf(fc)})
                rep.case(("simpson-product", x.tobytes(), xb.tobytes(), xc.tobytes(), f1.tobytes()), kind="integrate-product/simpson")
                bads = []
                if abs(l2 - i1 * i2) > 1e-9 * max(1.0, abs(i1 * i2)):
                    bads.append(f"2-D: {l2!r} vs product of the 1-D integrals {i1 * i2!r}")
                if abs(l3 - i1 * i2 * i3) > 1e-9 * max(1.0, abs(i1 * i2 * i3)):
                    bads.append(f"3-D: {l3!r} vs product of the 1-D integrals {i1 * i2 * i3!r}")
                if bads:
                    rep.violation("Simpson integration does not factorise over a product grid: " + "; ".join(bads),
                                  {"x1": C.hexf(x), "x2": C.hexf(xb), "x3": C.hexf(xc), "f1": C.hexf(f1), "f2": C.hexf(fb), "f3": C.hexf(fc)})
        if i % 6 == 0:
            m2, m3 = int(rng.integers(2, 5)), int(rng.integers(2, 5))
            if i % 12 == 6:
                m3 = m2                   # equal sizes on the 2nd and 3rd axes, different grids: a swap of axes would go unnoticed by shapes
            x2, x3 = fd.grid(rng, m2, "nonuniform"), fd.grid(rng, m3, "uniform-dyadic")
            Y = np.round(rng.uniform(-2, 2, size=(m, m2, m3)) * 8) / 8
            try:
                v = _integrate(Y, x, x2, x3, method="trapz")
            except Exception as e:  # noqa: BLE001
                rep.violation(f"_integrate of a 3-D integrand of shape {Y.shape} over grids of sizes {(m, m2, m3)} raised "
                              f"{type(e).__name__}: {e}"[:300], {"x1": C.hexf(x), "x2": C.hexf(x2), "x3": C.hexf(x3), "Y": C.hexf(Y)})
                continue
            yl = "[" + "; ".join(C.qmat(Y[k]) for k in range(m)) + "]"
            t = run.add(f"qclose {C.qlit(1e-9 * max(1.0, abs(v)) * max(1.0, np.max(np.abs(x))))} "
                        f"(trapz3 opsQ {C.qlist(x)} {C.qlist(x2)} {C.qlist(x3)} {yl}) {C.qlit(v)}")
            todo.append((t, "integrate-3d", kind, {"shape": Y.shape, "impl": v}))
    # the TRANSLATED source of _integration_weights (Gen/TrapzWeights.v, regenerated on this run) executed in Q on the same grids:
    # validates the translator; in its own run, because the generated file does not load when the translator rejects the source
    rung = C.CoqRun("C08", IMPORTS.replace("Tie.C08.", "Gen.TrapzWeights Tie.C08."), shard=1)
    gtodo = []
    for t, what, kind, info in todo:
        if what == "weights" and len(gtodo) < 24:
            x_, w_ = info["x"], info["impl"]
            gt = rung.add(f"vclose {C.qlit(1e-12 * max(1.0, float(np.max(np.abs(x_)))))} (gen_trapz_weights opsQ {C.qlist(x_)}) {C.qlist(w_)}")
            gtodo.append((gt, kind, x_, w_))
    try:
        resg = rung.run()
    except RuntimeError as e:
        rep.notes.append(("translated _integration_weights could not be evaluated (Gen/TrapzWeights.v does not load): " + str(e))[:300])
        resg, gtodo = {}, []
    for gt, kind, x_, w_ in gtodo:
        rep.case(("translated-weights", kind, x_.tobytes()), nontrivial=len(x_) >= 3, kind="translated-weights",
                 sample={"what": "translated _integration_weights", "grid": kind, "n": int(len(x_))})
        if not resg[gt]:
            rep.disagreements_checked += 1
            rep.violation("translator check: the Gallina translation of _integration_weights(method='trapz') evaluated in Q differs "
                          "from the running code on the same grid", {"x": C.hexf(x_), "impl": C.hexf(w_)})
    res = run.run()
    for t, what, kind, info in todo:
        key = (what, kind) + tuple(np.asarray(v).tobytes() for v in info.values() if isinstance(v, np.ndarray))
        nontriv = any(isinstance(v, np.ndarray) and v.size >= 3 for v in info.values())
        rep.case(key, nontrivial=nontriv, kind=f"{what}/{kind}",
                 sample={"what": what, "grid": kind, **{k: (np.asarray(v).tolist() if isinstance(v, np.ndarray) and v.size <= 12 else str(np.shape(v)))
                                                         for k, v in info.items()}})
        if not res[t]:
            rep.disagreements_checked += 1
            rep.violation(f"{what}: implementation differs from the exact trapezoid model",
                          {"what": what, "grid": kind, **{k: C.hexf(v) for k, v in info.items() if k != "shape"}})


def object_level(rep, rng, quick):
    run = C.CoqRun("C08", IMPORTS)
    todo = []
    n_cases = 14 if quick else 150
    for i in range(n_cases):
        kind = fd.GRID_KINDS[i % len(fd.GRID_KINDS)]
        n = int(rng.integers(1, 7 if quick else 40))
        m = int(rng.integers(3, 8 if quick else 30))
        x = fd.grid(rng, m, kind)
        X = fd.dyadic_matrix(rng, n, m) if i % 2 else fd.smooth_curves(rng, n, x, rough=True, offset=3.0)
        d = fd.dense(x, X)
        nsq = d.norm(squared=True)
        t = run.add(f"vclose {C.qlit(tol_of(x, X))} (map (normsq opsQ {C.qlist(x)}) {C.qmat(X)}) {C.qlist(nsq)}")
        todo.append((t, "dense-normsq", kind, {"x": x, "X": X, "impl": nsq}))
        G = d.inner_product(noise_variance=0)
        t = run.add(f"mclose {C.qlit(tol_of(x, X, rel=1e-9))} (gram_centred {C.qlist(x)} {C.qmat(X)} 0) {C.qmat(G)}")
        todo.append((t, "dense-gram", kind, {"x": x, "X": X, "impl": G}))
        monitors_gram(rep, d, G, x, X, "dense-1d", rng)
        if m >= 3:
            Gs = d.inner_product(method_integration="simpson", noise_variance=0)
            cen_s = d.center(method_smoothing=None)
            nsq_s = cen_s.norm(squared=True, method_integration="simpson")
            ss = max(1.0, float(np.max(np.abs(Gs))))
            bad_s = []
            if np.max(np.abs(Gs - Gs.T)) > 1e-10 * ss:
                bad_s.append("not symmetric")
            if np.max(np.abs(np.diag(Gs) - nsq_s)) > 1e-9 * ss:
                bad_s.append("diagonal is not the squared (Simpson) norm of the centred curves")
            if np.max(np.abs(Gs.sum(axis=1))) > 1e-8 * ss * n:
                bad_s.append("rows do not sum to zero")
            from FDApy.misc.utils import _inner_product as _ip
            Xc = np.asarray(cen_s.values)
            if n >= 2 and abs(Gs[0, 1] - _ip(Xc[0], Xc[1], x, method="simpson")) > 1e-9 * ss:
                bad_s.append("off-diagonal entry is not the Simpson inner product of the centred curves")
            rep.case(("simpson-gram", X.tobytes()), kind="dense-gram/simpson")
            if bad_s:
                rep.violation("dense Gram matrix with method_integration='simpson': " + "; ".join(bad_s),
                              {"x": C.hexf(x), "X": C.hexf(X)})
        monitors_norm(rep, rng, x, X)
        # history: the Gram matrix is a function of the curves the object holds NOW — statistics computed before the
        # curves were replaced through the `values` setter must not leak into it
        from FDApy.representation.values import DenseValues
        Xn = np.round((X[::-1] * 0.5 + 3.0 + fd.dyadic_matrix(rng, n, m)) * 64) / 64
        dh = fd.dense(x, X)
        dh.mean(); dh.center(); dh.norm(); dh.inner_product(noise_variance=0)
        dh.values = DenseValues(Xn)
        Gh = dh.inner_product(noise_variance=0)
        Gf = fd.dense(x, Xn).inner_product(noise_variance=0)
        rep.case(("gram-history", X.tobytes()), kind="dense-gram/after-values-setter")
        if not np.array_equal(Gh, Gf):
            rep.violation(f"Gram matrix after replacing the curves through the values setter differs from the Gram matrix of a fresh "
                          f"dataset with the same curves (max {np.max(np.abs(Gh - Gf)):.3g}; rows sum to {np.max(np.abs(Gh.sum(axis=1))):.3g})",
                          {"x": C.hexf(x), "X_before": C.hexf(X), "X_after": C.hexf(Xn)})
        if i % 3 == 0:
            # 2-D dense data
            m2 = int(rng.integers(3, 6))
            x2 = fd.grid(rng, m2, "nonuniform")
            X2 = np.round(rng.uniform(-2, 2, size=(n, m, m2)) * 8) / 8
            d2 = fd.dense([x, x2], X2)
            nsq2 = d2.norm(squared=True)
            terms = "[" + "; ".join(f"normsq2 {C.qlist(x)} {C.qlist(x2)} {C.qmat(X2[k])}" for k in range(n)) + "]"
            t = run.add(f"vclose {C.qlit(tol_of(x, X2) * max(1.0, np.max(np.abs(x2))))} {terms} {C.qlist(nsq2)}")
            todo.append((t, "dense2d-normsq", kind, {"shape": X2.shape, "impl": nsq2}))
            G2 = d2.inner_product(noise_variance=0)
            monitors_gram(rep, d2, G2, None, X2, "dense-2d", rng)
            # multivariate: Gram is the sum of the component matrices, norm the sum of norms
            mv = fd.multivariate([d, d2])
            try:
                Gm = mv.inner_product(noise_variance=[0, 0])
                if np.max(np.abs(Gm - (G + G2))) > 1e-9 * max(1.0, np.max(np.abs(Gm))):
                    rep.violation("multivariate Gram matrix is not the sum of the component Gram matrices",
                                  {"X1": C.hexf(X), "X2": C.hexf(X2), "x": C.hexf(x), "x2": C.hexf(x2)})
                if m >= 3:      # ... for the non-default integration rule as well
                    Gms = mv.inner_product(method_integration="simpson", noise_variance=[0, 0])
                    Gsum = (d.inner_product(method_integration="simpson", noise_variance=0)
                            + d2.inner_product(method_integration="simpson", noise_variance=0))
                    nsum = (d.center().norm(squared=True, method_integration="simpson")
                            + d2.center().norm(squared=True, method_integration="simpson"))
                    if np.max(np.abs(Gms - Gsum)) > 1e-9 * max(1.0, np.max(np.abs(Gsum))):
                        rep.violation("multivariate Gram matrix (simpson) is not the sum of the component Gram matrices (simpson)",
                                      {"X1": C.hexf(X), "X2": C.hexf(X2), "x": C.hexf(x), "x2": C.hexf(x2)})
                    elif np.max(np.abs(np.diag(Gms) - nsum)) > 1e-8 * max(1.0, np.max(np.abs(nsum))):
                        rep.violation("multivariate Gram matrix (simpson): diagonal is not the squared norm of the centred observations",
                                      {"X1": C.hexf(X), "X2": C.hexf(X2), "x": C.hexf(x), "x2": C.hexf(x2)})
                if np.max(np.abs(mv.norm(squared=True) - (nsq + nsq2))) > 1e-9 * max(1.0, np.max(nsq + nsq2)):
                    rep.violation("multivariate squared norm is not the sum of the component squared norms",
                                  {"X1": C.hexf(X), "X2": C.hexf(X2)})
                # ... under every option of the norm (integration rule, standardised sampling points)
                for kwn in ({"method_integration": "simpson"}, {"use_argvals_stand": True},
                            {"method_integration": "simpson", "use_argvals_stand": True}):
                    if m < 3 and "method_integration" in kwn:
                        continue
                    want = d.norm(squared=True, **kwn) + d2.norm(squared=True, **kwn)
                    got = mv.norm(squared=True, **kwn)
                    if np.max(np.abs(got - want)) > 1e-9 * max(1.0, float(np.max(np.abs(want)))):
                        rep.violation(f"multivariate squared norm {kwn} is not the sum of the component squared norms with the same options",
                                      {"X1": C.hexf(X), "X2": C.hexf(X2), "x": C.hexf(x), "x2": C.hexf(x2), "options": kwn})
                rep.case(("mv", X.tobytes(), X2.tobytes()), kind="multivariate-gram")
            except Exception as e:  # noqa: BLE001
                rep.violation(f"multivariate inner_product raised {type(e).__name__}: {e}",
                              {"X1": C.hexf(X), "X2": C.hexf(X2)})
        if i % 4 == 1:
            basis_monitor(rep, rng, n)
    res = run.run()
    for t, what, kind, info in todo:
        key = (what, kind) + tuple(np.asarray(v).tobytes() for v in info.values() if isinstance(v, np.ndarray))
        rep.case(key, kind=f"{what}/{kind}", sample={"what": what, "grid": kind,
                 **{k: str(np.shape(v)) for k, v in info.items()}})
        if not res[t]:
            rep.disagreements_checked += 1
            rep.violation(f"{what}: implementation differs from the exact model",
                          {"what": what, "grid": kind, **{k: C.hexf(v) for k, v in info.items() if k != "shape"}})


def monitors_norm(rep, rng, x, X):
    d = fd.dense(x, X)
    nrm = d.norm()
    c = float(np.round(rng.uniform(-3, 3), 2))
    nc = fd.dense(x, c * X).norm()
    if np.max(np.abs(nc - abs(c) * nrm)) > 1e-9 * max(1.0, np.max(nrm)):
        rep.violation("norm is not absolutely homogeneous", {"x": C.hexf(x), "X": C.hexf(X), "c": c})
    from FDApy.misc.utils import _integrate
    for meth in ("trapz", "simpson"):
        # the grid in other units (times 2^-30, exact): the integral scales with the unit
        try:
            i1, i2 = float(_integrate(X[0], x, method=meth)), float(_integrate(X[0], x * 2.0 ** -30, method=meth))
            if abs(i2 - 2.0 ** -30 * i1) > 1e-12 * 2.0 ** -30 * max(1.0, float(np.ptp(x))) * max(1.0, float(np.max(np.abs(X[0])))):
                rep.violation(f"integration ({meth}): the integral over the grid times 2^-30 is not 2^-30 times the integral",
                              {"x": C.hexf(x), "y": C.hexf(X[0]), "int": i1, "int_small_grid": i2})
        except Exception as e:  # noqa: BLE001
            rep.violation(f"_integrate({meth}) raised {type(e).__name__}: {e} on a grid in small units"[:200], {"x": C.hexf(x * 2.0 ** -30)})
    nsm = fd.dense(x * 2.0 ** -30, X).norm(squared=True)
    if np.max(np.abs(nsm - 2.0 ** -30 * nrm ** 2)) > 1e-9 * 2.0 ** -30 * max(1.0, float(np.max(nrm ** 2))):
        rep.violation("squared norm on the grid times 2^-30 is not 2^-30 times the squared norm", {"x": C.hexf(x), "X": C.hexf(X)})
    for k2 in (24, 48):
        # a power of two scales every intermediate of the quadrature exactly: small curves are as homogeneous as large ones
        c2 = 2.0 ** (-k2)
        n2 = fd.dense(x, c2 * X).norm()
        if np.max(np.abs(n2 - c2 * nrm)) > 1e-9 * c2 * max(1.0, np.max(nrm)):
            rep.violation(f"norm is not absolutely homogeneous for the factor 2^-{k2} (small curves)",
                          {"x": C.hexf(x), "X": C.hexf(X), "c": c2})
        for meth in ("trapz", "simpson"):
            try:
                i1, i2 = float(_integrate(X[0], x, method=meth)), float(_integrate(c2 * X[0], x, method=meth))
            except Exception as e:  # noqa: BLE001
                rep.violation(f"_integrate({meth}) raised {type(e).__name__}: {e}"[:200], {"x": C.hexf(x), "y": C.hexf(X[0])})
                continue
            if abs(i2 - c2 * i1) > 1e-12 * c2 * max(1.0, float(np.ptp(x))) * max(1.0, float(np.max(np.abs(X[0])))):
                rep.violation(f"integration ({meth}) is not linear: integral(c*y) != c*integral(y) for c = 2^-{k2}",
                              {"x": C.hexf(x), "y": C.hexf(X[0]), "c": c2, "int_y": i1, "int_cy": i2})
    if X.shape[0] >= 2:
        from FDApy.misc.utils import _inner_product
        f, g = X[0], X[1]
        ip = _inner_product(f, g, x)
        nf, ng = nrm[0], nrm[1]
        nfg = fd.dense(x, (f + g)[None, :]).norm()[0]
        if abs(ip) > nf * ng * (1 + 1e-9) + 1e-12:
            rep.violation("Cauchy-Schwarz fails", {"x": C.hexf(x), "f": C.hexf(f), "g": C.hexf(g)})
        if nfg > (nf + ng) * (1 + 1e-9) + 1e-12:
            rep.violation("triangle inequality fails", {"x": C.hexf(x), "f": C.hexf(f), "g": C.hexf(g)})


def monitors_gram(rep, d, G, x, X, what, rng):
    n = G.shape[0]
    s = max(1.0, float(np.max(np.abs(G))))
    bad = []
    if np.max(np.abs(G - G.T)) > 1e-10 * s:
        bad.append("not symmetric")
    if np.min(np.linalg.eigvalsh((G + G.T) / 2)) < -1e-8 * s:
        bad.append("not positive semi-definite")
    if np.max(np.abs(G.sum(axis=1))) > 1e-8 * s * n:
        bad.append("rows do not sum to zero")
    cen = d.center(method_smoothing=None) if hasattr(d, "center") else d
    nsq = cen.norm(squared=True)
    if np.max(np.abs(np.diag(G) - nsq)) > 1e-9 * s:
        bad.append("diagonal is not the squared norm of the centred curves")
    if n >= 2:
        p = rng.permutation(n)
        Gp = d[p].inner_product(noise_variance=0) if what != "dense-2d" else type(d)(d.argvals, type(d.values)(np.asarray(d.values)[p])).inner_product(noise_variance=0)
        if np.max(np.abs(Gp - G[np.ix_(p, p)])) > 1e-9 * s:
            bad.append("not equivariant under permutation of the observations")
    if bad:
        rep.violation(f"{what} Gram matrix: " + "; ".join(bad),
                      {"x": C.hexf(x) if x is not None else None, "X": C.hexf(X), "monitors": bad})


def basis_monitor(rep, rng, n):
    from FDApy.representation.basis import Basis
    from FDApy.representation.functional_data import BasisFunctionalData
    from FDApy.representation.argvals import DenseArgvals
    # the basis lives on ITS sampling points: a regular grid of [0,1], or unequally spaced points of another interval
    t = np.linspace(0, 1, 41) if rng.uniform() < 0.34 else \
        np.unique(np.concatenate([[2.0, 5.0], 2.0 + 3.0 * np.round(rng.uniform(0, 1, size=40) ** 2 * 256) / 256]))
    name = ["fourier", "bsplines", "legendre", "wiener"][int(rng.integers(4))]
    nf = int(rng.integers(4, 8))
    try:
        basis = Basis(name=name, n_functions=nf, argvals=DenseArgvals({"input_dim_0": t}))
        coef = fd.dyadic_matrix(rng, max(n, 2), nf)
        bd = BasisFunctionalData(basis=basis, coefficients=coef)
        G = bd.center().inner_product()
    except ModuleNotFoundError as e:
        rep.notes.append(f"basis Gram skipped: {e}")
        return
    s = max(1.0, float(np.max(np.abs(G))))
    bad = []
    if np.max(np.abs(G - G.T)) > 1e-10 * s:
        bad.append("not symmetric")
    if np.min(np.linalg.eigvalsh((G + G.T) / 2)) < -1e-8 * s:
        bad.append("not positive semi-definite")
    if np.max(np.abs(G.sum(axis=1))) > 1e-8 * s * len(G):
        bad.append("rows do not sum to zero")
    if np.max(np.abs(np.diag(G) - bd.center().norm(squared=True))) > 1e-9 * s:
        bad.append("diagonal is not the squared norm")
    try:
        for meth in ("simpson", "trapz"):
            Gm = np.asarray(bd.inner_product(method_integration=meth), float)
            nm = np.asarray(bd.norm(squared=True, method_integration=meth), float)
            if np.max(np.abs(np.diag(Gm) - nm)) > 1e-9 * max(1.0, float(np.max(np.abs(Gm)))):
                bad.append(f"squared norms ({meth}) are not the diagonal of the inner-product matrix computed with the same rule "
                           f"(max deviation {np.max(np.abs(np.diag(Gm) - nm)):.3g})")
            ev = np.asarray(bd.to_grid().norm(squared=True, method_integration=meth), float)
            if np.max(np.abs(ev - nm)) > 1e-8 * max(1.0, float(np.max(np.abs(ev)))):
                bad.append(f"squared norms ({meth}) from the coefficients differ from those of the evaluated curves")
    except ModuleNotFoundError:
        pass
    rep.case(("basis", name, coef.tobytes()), kind=f"basis-gram/{name}")
    if bad:
        rep.violation("basis-expansion Gram matrix (centred coefficients): " + "; ".join(bad),
                      {"basis": name, "n_functions": nf, "coefficients": C.hexf(coef)})


def run(rep, props, replay=None):
    quick = C.tier() == "quick"
    rng = np.random.default_rng([C.seed(), 8])
    if replay is not None:
        print("replay: the stored inputs are hex floats; re-run ./check C08 (deterministic under VERIF_SEED)")
        return
    helper_level(rep, rng, quick)
    object_level(rep, rng, quick)
