"""C19 — simulations are reproducible and have the advertised structure.

Tie (models = coq/Model/Rng.v, coq/Model/Simul.v; glue = coq/Tie/C19.v):
  * reproducibility: every simulator kind x bounded call sequences over
    {new, add_noise, sparsify, add_noise_and_sparsify} x seeds: two instances with
    the same seed are driven by the same calls while numpy's GLOBAL generator is
    reseeded / advanced between the calls and (through a proxy of the private
    generator) DURING the calls of one of them; data, noisy_data, sparse_data must
    be identical after every call; a seeded simulator must leave the global
    generator state untouched and must advance its own generator whenever it
    draws; successive `new` calls differ; unseeded simulators are functions of the
    global state;
  * structure: data == coefficients @ basis (exact recomputation + exact Q model),
    coefficients == what the generator drew, shared by all components of a
    multivariate simulation; labels == model `labels n k` for all n<=30, k<=4;
    eigenvalue families vs the model (Q-exact for linear/inverse/quadratic,
    numerically at 1e-12 and by `interval` against the Reals definitions for
    exponential/sqrt/wiener), positive and non-increasing;
  * Brownian: standard path == init + cumulated sqrt(delta)*draws (first value
    exactly init), geometric path == init*cumprod(exp(..)) > 0, irregular grids
    rejected exactly when the model's np.isclose decision says so.
"""
from __future__ import annotations

import math
import shutil
import tempfile
from fractions import Fraction
from pathlib import Path

import numpy as np

from harness import common as C
from harness import c20 as S      # simulator builders / snapshots / generator proxy (own file of the same builder)

IMPORTS = "From Coq Require Import Uint63.\nFrom FDAV Require Import Base.Num Base.Vec Base.Cmp Model.Simul Tie.C19."

RULE = ("simulators {KarhunenLoeve univariate/multivariate, 1-D/2-D/mixed, bases fourier, legendre, wiener, bsplines; Brownian standard, "
        "geometric, fractional; Datasets zhang_chen} x call sequences of length 1..6 over {new, add_noise, sparsify, add_noise_and_sparsify} "
        "(incl. calls before new and calls that raise) x seeds; two identically seeded instances under different perturbations of the global "
        "NumPy generator (np.random.seed(other); np.random.random(k)) between and during the calls; n_obs 1..30 x n_clusters 1..4 for the "
        "labels; eigenvalue families n = 1..12; Brownian grids regular / irregular (one step off by a relative 1e-3..0.5, far from the "
        "np.isclose threshold; near-threshold grids are not generated). Non-trivial = at least one drawing call succeeded; distinct by "
        "configuration, seed and call sequence.")
ASSUME = ["the generator is an oracle: draws are observed at the generator interface (proxy restored in `finally`)",
          "np.sqrt / np.exp are oracles in the Brownian models (values recomputed by the harness with the same numpy function)",
          "exact-arithmetic model; numeric comparisons at 1e-12*scale (3e-16 for the rational eigenvalue families: nearest doubles)",
          "fractional Brownian motion (FFT construction) is not modelled: reproducibility and parameter guards only",
          "Datasets zhang_chen: only the generator threading is modelled, not the mean/covariance structure"]

FAMILIES_Q = {"linear": 0, "inverse": 1, "quadratic": 2}
FAMILIES_R = ("exponential", "sqrt", "wiener")


# ---------------------------------------------------------------------------
# helpers
# ---------------------------------------------------------------------------
def snap_any(fdata):
    """Snapshot of dense / irregular / multivariate data (grids + values, NaN kept)."""
    from FDApy.representation.functional_data import IrregularFunctionalData
    if fdata is None:
        return None
    out = []
    for c in S.components(fdata):
        if isinstance(c, IrregularFunctionalData):
            vals = dict(c.values)
            out.append(("irr", [(S.grid_of_argvals(c.argvals[i]), np.array(np.asarray(vals[i], dtype=float), copy=True))
                                for i in sorted(vals)]))
        else:
            out.append(("dense", S.grid_of(c), np.array(np.asarray(c.values, dtype=float), copy=True)))
    return out


def same_any(a, b):
    if a is None or b is None:
        return a is b
    if len(a) != len(b):
        return False
    for x, y in zip(a, b):
        if x[0] != y[0]:
            return False
        if x[0] == "dense":
            if not S.same_grids(x[1], y[1]) or x[2].shape != y[2].shape or not np.array_equal(x[2], y[2], equal_nan=True):
                return False
        else:
            if len(x[1]) != len(y[1]):
                return False
            for (g1, v1), (g2, v2) in zip(x[1], y[1]):
                if not S.same_grids(g1, g2) or v1.shape != v2.shape or not np.array_equal(v1, v2, equal_nan=True):
                    return False
    return True


def outputs(sim):
    return {k: snap_any(getattr(sim, k, None)) for k in ("data", "noisy_data", "sparse_data")}


def gen_state(sim):
    rs = getattr(sim, "random_state", None)
    if rs is None:
        return None
    if isinstance(rs, PerturbingProxy):
        rs = rs.__dict__["_gen"]
    return repr(rs.bit_generator.state)


def global_state():
    st = np.random.get_state()
    return (st[0], st[1].tobytes(), st[2], st[3], st[4])


class PerturbingProxy:
    """Private generator of a simulator; every draw is preceded by a use of the GLOBAL generator."""

    def __init__(self, gen):
        self.__dict__["_gen"] = gen

    def __getattr__(self, name):
        attr = getattr(self.__dict__["_gen"], name)
        if callable(attr) and name in S.RECORDED:
            def wrapped(*a, **k):
                np.random.random(3)
                return attr(*a, **k)
            return wrapped
        return attr


def do_call(sim, call):
    """call = [name, args...]; returns the exception class name or None."""
    name = call[0]
    try:
        if name == "new":
            kw = dict(call[1])
            if "argvals_n" in kw:
                kw["argvals"] = np.linspace(0, 1, int(kw.pop("argvals_n")))
            sim.new(**kw)
        elif name == "add_noise":
            sim.add_noise(noise_variance=call[1])
        elif name == "sparsify":
            sim.sparsify(percentage=call[1], epsilon=call[2])
        else:
            sim.add_noise_and_sparsify(noise_variance=call[1], percentage=call[2], epsilon=call[3])
        return None
    except Exception as e:  # noqa: BLE001
        return type(e).__name__


def new_kwargs(spec, rng, n_obs=None):
    kw = {"n_obs": int(n_obs if n_obs is not None else rng.integers(1, 9))}
    if spec["kind"] == "kl":
        kw["n_clusters"] = int(rng.integers(1, 5))
        if rng.integers(3) == 0:
            kw["clusters_std"] = str(rng.choice(["linear", "exponential", "wiener", "quadratic", "inverse", "sqrt"]))
    elif spec["kind"] == "brownian":
        kw["argvals_n"] = int(spec["n_points"])
        kw.update(spec.get("kwargs", {}))
    else:
        kw["argvals_n"] = int(spec["n_points"])
    return kw


def gen_calls(spec, rng, quick):
    length = int(rng.integers(1, 5 if quick else 7))
    calls = []
    start_with_new = rng.integers(8) != 0          # sometimes a call arrives before new (ValueError, both instances alike)
    for i in range(length):
        if i == 0 and start_with_new:
            op = "new"
        else:
            op = ["new", "add_noise", "sparsify", "add_noise_and_sparsify"][int(rng.integers(4))]
        if op == "new":
            calls.append(["new", new_kwargs(spec, rng)])
        elif op == "add_noise":
            calls.append(["add_noise", float(rng.choice([0.0, 0.25, 1.0, 2.5]))])
        elif op == "sparsify":
            calls.append(["sparsify", float(rng.choice([0.0, 0.3, 0.9, 1.0])), float(rng.choice([0.0, 0.05, 0.3]))])
        else:
            calls.append(["add_noise_and_sparsify", float(rng.choice([0.0, 0.5, 1.0])), float(rng.choice([0.05, 0.5, 0.9])),
                          float(rng.choice([0.0, 0.05]))])
    return calls


def gen_specs(rng, quick):
    specs = []
    for name in ["fourier", "legendre", "wiener", "bsplines"]:
        for _ in range(1 if quick else 3):
            nfun = int(rng.integers(4, 7)) if name == "bsplines" else int(rng.integers(1, 6))
            specs.append({"kind": "kl", "components": [[[name, nfun, int(rng.integers(4, 12))]]]})
        other = str(rng.choice(["fourier", "legendre", "wiener"]))
        specs.append({"kind": "kl", "components": [[[name, 4 if name == "bsplines" else 2, int(rng.integers(4, 7))], [other, 2, int(rng.integers(3, 6))]]]})
    for _ in range(2 if quick else 6):
        nfun = int(rng.integers(2, 5))
        names = [str(x) for x in rng.choice(["fourier", "legendre", "wiener"], size=int(rng.integers(2, 4)))]
        specs.append({"kind": "kl", "multivariate": True,
                      "components": [[[nm, nfun, int(rng.integers(4, 9))]] for nm in names]})
    specs.append({"kind": "kl", "multivariate": True,
                  "components": [[["fourier", 2, 3], ["legendre", 2, 4]], [["legendre", 2, 4], ["fourier", 2, 3]]]})
    specs.append({"kind": "kl", "multivariate": True,
                  "components": [[["fourier", 2, 3], ["legendre", 2, 3]], [["bsplines", 4, 6]]]})
    for name, kw in [("standard", {}), ("standard", {"init_point": 2.5}), ("geometric", {}),
                     ("geometric", {"init_point": 0.5, "mu": 0.25, "sigma": 0.5}), ("fractional", {}), ("fractional", {"hurst": 0.75})]:
        specs.append({"kind": "brownian", "name": name, "n_points": int(rng.integers(3, 12)), "kwargs": kw})
    specs.append({"kind": "datasets", "n_points": int(rng.integers(4, 10))})
    if not quick:
        specs.append({"kind": "datasets", "n_points": 21})
    doms = [[2.0, 10.0], [-1.0, 1.0], [1.0, 365.0]]             # simulation grids that do not span [0, 1]
    for j, sp in enumerate(specs):
        if j % 3 == 2:
            sp["domain"] = doms[(j // 3) % len(doms)]
    return specs


# ---------------------------------------------------------------------------
# 1. reproducibility
# ---------------------------------------------------------------------------
def fresh(spec, seed):
    sp = dict(spec)
    sp["seed"] = seed
    return S.build_sim(sp, do_new=False)


def reproducibility(rep, rng, specs, quick, dd):
    n_seeds = 2 if quick else 5
    n_seq = 2 if quick else 6
    for spec in specs:
        for si in range(n_seeds + 1):
            # boundary seeds are seeds too: 0 (falsy), 2**32 - 1 (largest legacy seed)
            seed = int(rng.integers(0, 2 ** 31)) if si < n_seeds else (0 if specs.index(spec) % 2 == 0 or not quick else 2 ** 32 - 1)
            for _ in range(n_seq if si < n_seeds else 1):
                calls = gen_calls(spec, rng, quick)
                pert = [(int(rng.integers(0, 2 ** 31)), int(rng.integers(0, 7))) for _ in range(len(calls) + 1)]
                info = {"spec": spec, "seed": seed, "calls": calls}
                saved_global = np.random.get_state()
                try:
                    # instance A: global generator perturbed before, between and DURING the calls
                    np.random.seed(pert[0][0]); np.random.random(pert[0][1])
                    a = fresh(spec, seed)
                    a.random_state = PerturbingProxy(a.random_state)
                    # instance B: other perturbations, between the calls only (so that its global state can be monitored)
                    np.random.seed(pert[0][0] ^ 0x5A5A5A); np.random.random(1 + pert[0][1])
                    b = fresh(spec, seed)
                    drew = False
                    prev_new = None
                    for i, call in enumerate(calls):
                        np.random.seed(pert[i + 1][0]); np.random.random(pert[i + 1][1])
                        ea = do_call(a, call)
                        np.random.seed(pert[i + 1][0] + 17); np.random.random(pert[i + 1][1] + 2)
                        g0, s0 = global_state(), gen_state(b)
                        pre = outputs(b)
                        eb = do_call(b, call)
                        g1, s1 = global_state(), gen_state(b)
                        oa, ob = outputs(a), outputs(b)
                        if ea != eb:
                            dd.violation("repro-exc", f"same seed, same calls: call {i} {call[0]} raised {ea} in one instance and {eb} in the other",
                                         {**info, "at": i})
                            break
                        # only `new` draws the data; add_noise / sparsify derive NEW objects and leave `data` (for KL: coefficients
                        # times basis functions) as drawn; sparsify also leaves the noisy data alone
                        keep = [] if call[0] == "new" else (["data", "noisy_data"] if call[0] == "sparsify" else ["data"])
                        over = [k for k in keep if not same_any(pre[k], ob[k])]
                        if over:
                            dd.violation(f"overwrite-{call[0]}",
                                         f"{call[0]} changed the simulator's {over} (the drawn data no longer equal what `new` produced"
                                         + (", e.g. NaN written into them)" if any(
                                             np.isnan(c[2]).any() for k in over for c in (ob[k] or []) if c[0] == "dense") else ")"),
                                         {**info, "at": i, "changed": over})
                            break
                        bad = [k for k in oa if not same_any(oa[k], ob[k])]
                        if bad:
                            dd.violation(f"repro-{spec['kind']}",
                                         f"two {spec['kind']} simulators with seed {seed} driven by the same calls differ in {bad} after call {i} "
                                         f"({call[0]}) when the global NumPy generator is perturbed"
                                         + (" — matches the defect model trace_global (F12: draws from the global generator)"
                                            if g0 != g1 else ""),
                                         {**info, "at": i, "differs": bad})
                            break
                        if g0 != g1:
                            dd.violation(f"global-{spec['kind']}",
                                         f"a seeded {spec['kind']} simulator changed the state of the global NumPy generator during {call[0]}",
                                         {**info, "at": i})
                            break
                        if eb is None:
                            if s0 == s1:
                                dd.violation("no-consume", f"{call[0]} succeeded without advancing the simulator's generator "
                                             f"(successive draws would repeat)", {**info, "at": i})
                                break
                            drew = True
                            if call[0] == "new":
                                if prev_new is not None and same_any(prev_new, ob["data"]):
                                    dd.violation("new-repeat", "two successive `new` calls of one simulator produced identical data",
                                                 {**info, "at": i})
                                    break
                                prev_new = ob["data"]
                    rep.case(("repro", repr(spec), seed, repr(calls)), nontrivial=drew,
                             kind=f"repro/{spec['kind']}{'-' + spec['name'] if 'name' in spec else ''}"
                                  f"{'-mv' if spec.get('multivariate') else ''}{'-2d' if S.spec_is_2d(spec) else ''}",
                             sample={"spec": spec, "seed": seed, "calls": calls})
                finally:
                    np.random.set_state(saved_global)
    # successive draws of ONE simulator differ (every kind), and unseeded simulators are functions of the global state
    for spec in specs:
        seed = int(rng.integers(0, 2 ** 31))
        sim = fresh(spec, seed)
        kw = new_kwargs(spec, rng, n_obs=3)
        kw.pop("clusters_std", None)
        e1 = do_call(sim, ["new", kw]); d1 = snap_any(sim.data)
        e2 = do_call(sim, ["new", kw]); d2 = snap_any(sim.data)
        if e1 or e2:
            dd.violation("new-raised", f"new({kw}) raised {e1 or e2}", {"spec": spec, "seed": seed, "kw": kw})
        elif same_any(d1, d2):
            dd.violation("new-repeat", "two successive `new` calls of one simulator produced identical data",
                         {"spec": spec, "seed": seed, "calls": [["new", kw], ["new", kw]]})
        rep.case(("succ", repr(spec), seed), kind="successive-new")
        if not S.spec_is_2d(spec):
            outs = []
            for k in range(2):
                if do_call(sim, ["add_noise", 1.0]) is None and do_call(sim, ["sparsify", 0.5, 0.2]) is None:
                    outs.append((snap_any(sim.noisy_data), snap_any(sim.sparse_data)))
            if len(outs) == 2 and same_any(outs[0][0], outs[1][0]):
                dd.violation("noise-repeat", "two successive add_noise calls produced identical noisy data",
                             {"spec": spec, "seed": seed})
        saved_global = np.random.get_state()
        try:
            res = []
            for k in range(2):
                np.random.seed(4242)
                u = fresh(spec, None)
                do_call(u, ["new", kw]); do_call(u, ["add_noise", 0.5])
                res.append(outputs(u))
            np.random.seed(4243)
            u = fresh(spec, None)
            do_call(u, ["new", kw])
            other = outputs(u)
            if any(not same_any(res[0][k], res[1][k]) for k in res[0]):
                dd.violation("unseeded", "an unseeded simulator is not a function of the global generator state",
                             {"spec": spec, "kw": kw})
            if same_any(res[0]["data"], other["data"]):
                dd.violation("unseeded", "an unseeded simulator does not depend on the global generator state",
                             {"spec": spec, "kw": kw})
            rep.case(("unseeded", repr(spec)), kind="unseeded")
        finally:
            np.random.set_state(saved_global)


# ---------------------------------------------------------------------------
# 2. Karhunen-Loève structure, labels, eigenvalues
# ---------------------------------------------------------------------------
def kl_structure(rep, rng, specs, quick, dd, run, todo):
    from FDApy.representation.functional_data import MultivariateFunctionalData
    kl_specs = [s for s in specs if s["kind"] == "kl"]
    for spec in kl_specs:
        for rep_i in range(1 if quick else 3):
            seed = int(rng.integers(0, 2 ** 31))
            n_obs = int(rng.integers(1, 7))
            k = int(rng.integers(1, 5))
            fam = [None, "linear", "exponential", "wiener", "quadratic", "inverse", "sqrt"][int(rng.integers(7))]
            sim = fresh(spec, seed)
            info = {"spec": spec, "seed": seed, "n_obs": n_obs, "n_clusters": k, "clusters_std": fam}
            log = []
            orig = sim.random_state
            sim.random_state = S.GenProxy(orig, log)
            try:
                kw = {"clusters_std": fam} if fam else {}
                sim.new(n_obs=n_obs, n_clusters=k, **kw)
            except Exception as e:  # noqa: BLE001
                dd.violation("kl-new", f"KarhunenLoeve.new raised {type(e).__name__}: {e}", info)
                continue
            finally:
                sim.random_state = orig
            multi = isinstance(sim.data, MultivariateFunctionalData)
            dcomps = S.components(sim.data)
            bcomps = list(sim.data_basis.data) if multi else [sim.data_basis]
            C0 = np.asarray(bcomps[0].coefficients, dtype=float)
            # coefficients are what the generator drew, cluster by cluster, in order
            draws = [r[3] for r in log if r[0] == "multivariate_normal"]
            if draws:
                drawn = np.vstack([np.asarray(d, dtype=float).reshape(-1, C0.shape[1]) for d in draws])
                if drawn.shape != C0.shape or not np.array_equal(drawn, C0):
                    dd.violation("kl-coef-draw", "the coefficients are not the values drawn by the generator (in order)", info)
            else:
                note = "KarhunenLoeve.new: coefficient draws not visible as multivariate_normal calls; not compared with the draws"
                if note not in rep.notes:
                    rep.notes.append(note)
            for p, (dc, bc) in enumerate(zip(dcomps, bcomps)):
                Cp = np.asarray(bc.coefficients, dtype=float)
                if not np.array_equal(Cp, C0):
                    dd.violation("kl-shared", f"component {p} of a multivariate simulation has other coefficients than component 0", info)
                B = np.asarray(bc.basis.values, dtype=float)
                X = np.asarray(dc.values, dtype=float)
                if not S.same_grids(S.grid_of(dc), S.grid_of(bc.basis)):
                    dd.violation("kl-grid", f"component {p}: the data are not on the grid of the basis", info)
                ref = np.einsum("ij,j...->i...", Cp, B)
                if ref.shape != X.shape or not np.array_equal(ref, X):
                    dd.violation("kl-product", f"component {p}: data != coefficients @ basis recomputed from the observable attributes "
                                 f"(max |diff| = {np.max(np.abs(ref - X)) if ref.shape == X.shape else 'shape'})",
                                 {**info, "component": p})
                Bf, Xf = B.reshape(B.shape[0], -1), X.reshape(X.shape[0], -1)
                tol = 1e-12 * max(1.0, float(np.max(np.abs(C0))) * float(np.max(np.abs(Bf))) * Bf.shape[0])
                t = run.add(f"kl_check {S.ql(tol)} {Bf.shape[1]}%nat {S.qmat(C0)} {S.qmat(Bf)} {S.qmat(Xf)}")
                todo.append((t, "kl-model", f"component {p}: data differ from the model kl_data (component-0 coefficients x basis)",
                             {**info, "component": p, "coef": C.hexf(C0), "basis": C.hexf(Bf), "data": C.hexf(Xf)}))
            lab = np.asarray(sim.labels).astype(int).tolist()
            t = run.add(f"labels_eq {n_obs}%nat {k}%nat {C.natlist(lab)}")
            todo.append((t, "labels-model", f"labels {lab} differ from the model labels {n_obs} {k}", {**info, "labels": lab}))
            ev = np.asarray(sim.eigenvalues, dtype=float)
            nfe = C0.shape[1]
            if fam is None:
                if not np.array_equal(ev, np.ones(nfe)):
                    dd.violation("eig-default", f"eigenvalues without clusters_std are {ev.tolist()}, expected ones", info)
            else:
                eig_terms(run, todo, dd, fam, nfe, ev, info, where="KarhunenLoeve.eigenvalues")
            rep.case(("kl", repr(spec), seed, n_obs, k, fam), kind=f"kl-structure{'-mv' if multi else ''}",
                     sample={**info, "labels": lab})
    # labels for ALL n_obs 1..30, n_clusters 1..4 (through the public API)
    sim = fresh({"kind": "kl", "components": [[["fourier", 2, 4]]]}, 7)
    chunk = []
    for n in range(1, 31):
        for k in range(1, 5):
            try:
                sim.new(n_obs=n, n_clusters=k)
                lab = np.asarray(sim.labels).astype(int).tolist()
            except Exception as e:  # noqa: BLE001
                dd.violation("labels-raise", f"new(n_obs={n}, n_clusters={k}) raised {type(e).__name__}: {e}", {"n_obs": n, "n_clusters": k})
                continue
            sizes = np.bincount(lab, minlength=k)
            if len(lab) != n or sorted(lab) != lab or sizes.max() - sizes.min() > 1 or sizes.sum() != n or max(lab) >= k:
                dd.violation("labels-monitor", f"labels for n_obs={n}, n_clusters={k} are not an in-order near-equal split: {lab}",
                             {"n_obs": n, "n_clusters": k, "labels": lab})
            chunk.append((n, k, lab))
            rep.case(("labels", n, k), nontrivial=n > 1, kind="labels")
    for i in range(0, len(chunk), 24):
        part = chunk[i:i + 24]
        term = " && ".join(f"labels_eq {n}%nat {k}%nat {C.natlist(lab)}" for n, k, lab in part)
        t = run.add(term)
        todo.append((t, "labels-model", f"labels differ from the model for some (n_obs, n_clusters) in {[(n, k) for n, k, _ in part]}",
                     {"cases": [[n, k, lab] for n, k, lab in part]}))


def ref_family(name, n):
    """Independent reference in exact / high-precision arithmetic."""
    if name == "linear":
        return [Fraction(n - k + 1, n) for k in range(1, n + 1)]
    if name == "inverse":
        return [Fraction(1, k) for k in range(1, n + 1)]
    if name == "quadratic":
        return [Fraction(1, k * k) for k in range(1, n + 1)]
    if name == "exponential":
        return [math.exp(-k / 2) for k in range(n)]
    if name == "sqrt":
        return [1 / math.sqrt(k) for k in range(1, n + 1)]
    if name == "wiener":
        return [1 / ((math.pi / 2) * (2 * k - 1)) ** 2 for k in range(1, n + 1)]
    raise ValueError(name)


REAL_GOALS = []   # (label, Coq statement, unfold) collected for one `interval` run


def eig_terms(run, todo, dd, fam, n, ev, info, where):
    ev = np.asarray(ev, dtype=float)
    if len(ev) != n:
        dd.violation("eig-length", f"{where}: {fam} family has {len(ev)} values, expected {n}", info)
        return
    if not (np.all(ev > 0) and np.all(np.diff(ev) <= 0)):
        dd.violation("eig-monitor", f"{where}: {fam} eigenvalues are not positive and non-increasing: {ev.tolist()}", info)
    ref = ref_family(fam, n)
    if max(abs(float(r) - float(v)) for r, v in zip(ref, ev)) > 1e-12:
        dd.violation("eig-numeric", f"{where}: {fam} eigenvalues differ from the reference formula by more than 1e-12: {ev.tolist()}", info)
    if fam in FAMILIES_Q:
        t = run.add(f"eig_check {FAMILIES_Q[fam]}%nat {n}%nat {S.ql(3e-16)} {S.qlist(ev)} && pos_noninc_b {S.qlist(ev)}")
        todo.append((t, "eig-model", f"{where}: {fam} eigenvalues {ev.tolist()} differ from the exact model (n={n})",
                     {**info, "family": fam, "n": n, "impl": C.hexf(ev)}))
    else:
        for k, v in enumerate(ev):
            arg = k if fam == "exponential" else k + 1
            num, den = float(v).as_integer_ratio()
            REAL_GOALS.append((f"{where}: {fam}[{k}] (n={n}) = {float(v)!r}",
                               f"Rabs (eigf_{fam} {arg} - {num} / {den}) <= 1 / 1000000000000", f"eigf_{fam}"))


def eigen_families(rep, rng, quick, dd, run, todo):
    from FDApy.simulation.karhunen import _simulate_eigenvalues
    nmax = 8 if quick else 12
    for fam in list(FAMILIES_Q) + list(FAMILIES_R):
        for n in range(1, nmax + 1):
            try:
                ev = _simulate_eigenvalues(fam, n)
            except Exception as e:  # noqa: BLE001
                dd.violation("eig-raise", f"_simulate_eigenvalues({fam!r}, {n}) raised {type(e).__name__}: {e}", {"family": fam, "n": n})
                continue
            eig_terms(run, todo, dd, fam, n, ev, {"family": fam, "n": n}, where="_simulate_eigenvalues")
            rep.case(("eig", fam, n), nontrivial=n > 1, kind=f"eigenvalues/{fam}")


def run_real_goals(rep, dd):
    """Prove |model_R - implementation float| <= 1e-12 with `interval` against the Reals definitions."""
    goals = []
    seen = set()
    for g in REAL_GOALS:
        if g[1] not in seen:
            seen.add(g[1])
            goals.append(g)
    REAL_GOALS.clear()
    if not goals:
        return
    header = ("From Coq Require Import Reals.\nFrom Interval Require Import Tactic.\nFrom FDAV Require Import Model.Simul.\n"
              "Local Open Scope R_scope.\n")
    d = Path(tempfile.mkdtemp(prefix="C19_", dir=C._scratch()))
    try:
        def prove(idx_goals, fname):
            body = [header]
            for i, (_, stmt, unf) in idx_goals:
                body.append(f"Lemma g{i} : {stmt}.\nProof. unfold {unf}. interval with (i_prec 80). Qed.")
            f = d / fname
            f.write_text("\n".join(body) + "\n")
            rc, out = C._run(["timeout", "600", "coqc", "-Q", str(C.COQ), "FDAV", "-Q", str(d), "Cases", str(f)], cwd=d, timeout=700)
            return rc == 0, out
        indexed = list(enumerate(goals))
        shards = [indexed[i::4] for i in range(4)]
        from concurrent.futures import ThreadPoolExecutor
        with ThreadPoolExecutor(max_workers=4) as ex:
            results = list(ex.map(lambda a: prove(a[1], f"real_{a[0]}.v"), [(j, s) for j, s in enumerate(shards) if s]))
        rep.extra["interval_goals"] = len(goals)
        if all(ok for ok, _ in results):
            rep.extra["interval_goals_proved"] = len(goals)
            return
        failed = []
        for i, g in indexed:            # rare path: find the goals that do not check
            ok, out = prove([(i, g)], f"one_{i}.v")
            if not ok:
                failed.append((g[0], out[-300:]))
        rep.extra["interval_goals_proved"] = len(goals) - len(failed)
        for label, out in failed:
            rep.disagreements_checked += 1
            dd.violation("eig-real-model", f"{label} is not within 1e-12 of the model defined with Coq's exp / sqrt / PI", {"goal": label, "coq": out})
    finally:
        shutil.rmtree(d, ignore_errors=True)


# ---------------------------------------------------------------------------
# 3. Brownian motions and the grid decision
# ---------------------------------------------------------------------------
def brownian(rep, rng, quick, dd, run, todo):
    from FDApy.simulation.brownian import Brownian
    n_cases = 6 if quick else 40
    for i in range(n_cases):
        m = int(rng.integers(2, 9))
        lo = float(rng.choice([0.0, -1.0, 2.0]))
        hi = lo + float(rng.choice([1.0, 0.5, 3.0]))
        t = np.linspace(lo, hi, m)
        if i % 3 == 2:
            t = np.arange(int(lo), int(lo) + m)          # a regular grid with an INTEGER dtype (days, indices)
        n_obs = int(rng.integers(1, 4))
        seed = int(rng.integers(0, 2 ** 31))
        delta = float(np.max(t) - np.min(t)) / np.size(t)
        sd = float(np.sqrt(delta))
        # ---- standard
        init = float(rng.choice([0.0, 1.5, -2.25, 10.0]))
        sim = Brownian("standard", random_state=seed)
        info = {"name": "standard", "argvals": C.hexf(t), "n_obs": n_obs, "seed": seed, "init_point": init}
        with S.observe(sim) as log:
            sim.new(n_obs=n_obs, argvals=t, init_point=init)
        zs = [float(np.asarray(r[3]).reshape(-1)[0]) for r in log if r[0] == "normal" and np.size(r[3]) == 1]
        X = np.asarray(sim.data.values, dtype=float)
        if not np.array_equal(X[:, 0], np.full(n_obs, init)):
            dd.violation("brownian-start", f"standard Brownian paths start at {X[:, 0].tolist()}, requested {init}", info)
        if not S.same_grids(S.grid_of(sim.data), [t]):
            dd.violation("brownian-grid", "standard Brownian data are not on the requested grid", info)
        tq = run.add(f"delta_check {S.ql(1e-15 * max(1.0, delta))} {S.qlist(t)} {S.ql(delta)} && "
                     f"qclose {S.ql(1e-15 * max(1.0, delta))} {S.ql(sd)} {S.ql(sd)}")
        todo.append((tq, "brownian-delta", "step size differs from the model (max - min) / size", info))
        if len(zs) == n_obs * (m - 1):
            for r in range(n_obs):
                z = zs[r * (m - 1):(r + 1) * (m - 1)]
                tol = 1e-12 * max(1.0, abs(init), float(np.max(np.abs(X[r]))))
                tq = run.add(f"std_check {S.ql(tol)} {S.ql(init)} {S.ql(sd)} {S.qlist(z)} {S.qlist(X[r])}")
                todo.append((tq, "brownian-std-model", f"standard Brownian path {r} differs from init + cumsum(sqrt(delta) * draws)",
                             {**info, "path": r, "draws": C.hexf(z), "values": C.hexf(X[r])}))
        else:
            note = "standard Brownian: draws not visible as scalar normal() calls; recurrence not compared with the model"
            if note not in rep.notes:
                rep.notes.append(note)
        rep.case(("bm-std", t.tobytes(), seed, init), kind="brownian/standard", sample={k: v for k, v in info.items() if k != "argvals"})
        # ---- geometric
        init_g = float(rng.choice([1.0, 0.25, 3.0]))
        mu, sigma = float(rng.choice([0.0, 0.5, -1.0])), float(rng.choice([1.0, 0.25, 2.0]))
        sim = Brownian("geometric", random_state=seed)
        info = {"name": "geometric", "argvals": C.hexf(t), "n_obs": n_obs, "seed": seed, "init_point": init_g, "mu": mu, "sigma": sigma}
        with S.observe(sim) as log:
            sim.new(n_obs=n_obs, argvals=t, init_point=init_g, mu=mu, sigma=sigma)
        X = np.asarray(sim.data.values, dtype=float)
        if not np.all(X > 0):
            dd.violation("brownian-geo-pos", f"geometric Brownian path is not positive: min {X.min()}", info)
        recs = [np.asarray(r[3], dtype=float).reshape(-1) for r in log if r[0] == "normal" and np.size(r[3]) == m]
        if len(recs) == n_obs:
            for r in range(n_obs):
                es = np.exp((mu - sigma ** 2 / 2) * delta + sigma * recs[r])
                tol = 1e-12 * max(1.0, float(np.max(np.abs(X[r]))))
                tq = run.add(f"geo_check {S.ql(tol)} {S.ql(init_g)} {S.qlist(es)} {S.qlist(X[r])} && pos_noninc_b [{S.ql(float(np.min(X[r])))}]")
                todo.append((tq, "brownian-geo-model", f"geometric Brownian path {r} differs from init * cumprod(exp(..)) or is not positive",
                             {**info, "path": r, "exp": C.hexf(es), "values": C.hexf(X[r])}))
        rep.case(("bm-geo", t.tobytes(), seed, init_g, mu, sigma), kind="brownian/geometric",
                 sample={k: v for k, v in info.items() if k != "argvals"})
    # guards
    for name, kw in [("geometric", {"init_point": 0.0}), ("geometric", {"init_point": -1.0}), ("fractional", {"hurst": 0.0}),
                     ("fractional", {"hurst": -0.5})]:
        sim = Brownian(name, random_state=1)
        try:
            sim.new(n_obs=2, argvals=np.linspace(0, 1, 5), **kw)
            dd.violation("brownian-guard", f"Brownian({name!r}).new(**{kw}) did not raise", {"name": name, "kwargs": kw})
        except ValueError:
            pass
        rep.case(("bm-guard", name, repr(kw)), nontrivial=False, kind="brownian/guards")
    # regular-grid decision
    n_grids = 16 if quick else 120
    for i in range(n_grids):
        m = int(rng.integers(3, 10))
        lo = float(rng.choice([0.0, -3.0, 100.0]))
        step = float(rng.choice([0.05, 0.125, 1.0, 2.5]))
        t = lo + step * np.arange(m)
        kind = ["regular", "one-step-off", "jitter", "geometric", "linspace", "reversed-step", "interior-point-moved"][i % 7]
        if kind == "interior-point-moved":
            # end points and first step kept (so the MEAN step equals the first step), one interior point moved
            m = max(m, 5)
            t = lo + step * np.arange(m)
            j = int(rng.integers(2, m - 1))
            t[j] += step * float(rng.choice([0.4, -0.4, 0.25]))
        if kind == "one-step-off":
            j = int(rng.integers(1, m))
            t[j:] += step * float(rng.choice([1e-3, 0.01, 0.5, -0.3]))
        elif kind == "jitter":
            t = t + step * rng.uniform(0.05, 0.3, size=m) * rng.choice([-1, 1], size=m)
            t = np.sort(t)
        elif kind == "geometric":
            t = lo + step * (1.5 ** np.arange(m))
        elif kind == "linspace":
            t = np.linspace(lo, lo + step * (m - 1), m)
        elif kind == "reversed-step":
            t[-1] = t[-2] + 2 * step
        d = np.diff(t)
        margin = np.abs(d - d[0]) - (1e-8 + 1e-5 * abs(d[0]))
        if np.any(np.abs(margin) < 1e-9 * max(1.0, abs(d[0]))):          # too close to the np.isclose threshold: ambiguous in floats
            rep.extra["ambiguous_grids_skipped"] = rep.extra.get("ambiguous_grids_skipped", 0) + 1
            continue
        for name in (["standard", "geometric", "fractional"] if i % 3 == 0 else ["standard"]):
            sim = Brownian(name, random_state=5)
            sim.new(n_obs=2, argvals=np.linspace(0, 1, 4))
            d0, snap0, st0 = sim.data, S.snapshot(sim.data), gen_state(sim)
            try:
                sim.new(n_obs=2, argvals=t)
                accepted, err = True, None
            except ValueError as e:
                accepted, err = False, e
            except Exception as e:  # noqa: BLE001
                dd.violation("grid-exc", f"Brownian({name!r}).new on a {kind} grid raised {type(e).__name__}: {e}", {"argvals": C.hexf(t)})
                continue
            info = {"name": name, "grid_kind": kind, "argvals": C.hexf(t), "accepted": accepted}
            expect = bool(np.all(margin <= 0))
            if accepted != expect:
                dd.violation("grid-monitor", f"Brownian({name!r}).new {'accepted' if accepted else 'rejected'} a {kind} grid whose steps "
                             f"{'differ' if not expect else 'agree'} beyond np.isclose: diffs {d.tolist()}", info)
            if not accepted and not (sim.data is d0 and S.same_snapshot(S.snapshot(sim.data), snap0) and gen_state(sim) == st0):
                dd.violation("grid-state", "a rejected grid changed the simulator (data or generator state)", info)
            tq = run.add(f"grid_check {S.ql(1e-5)} {S.ql(1e-8)} {S.qlist(t)} {C.blit(accepted)}")
            todo.append((tq, "grid-model", f"Brownian({name!r}).new {'accepted' if accepted else 'rejected'} a {kind} grid; the model's "
                         f"regular-grid decision says the opposite (diffs {d.tolist()})", info))
            rep.case(("grid", name, t.tobytes()), kind=f"grid/{kind}", sample={"name": name, "kind": kind, "accepted": accepted})


# ---------------------------------------------------------------------------
def run(rep, props, replay=None):
    quick = C.tier() == "quick"
    rng = np.random.default_rng([C.seed(), 19])
    dd = S.Dedup(rep)
    if replay is not None:
        if "spec" in replay and "calls" in replay and "seed" in replay:
            specs = [replay["spec"]]
            rng2 = np.random.default_rng(0)
            # drive the stored call sequence under perturbation of the global generator
            a, b = fresh(replay["spec"], replay["seed"]), fresh(replay["spec"], replay["seed"])
            for i, call in enumerate(replay["calls"]):
                np.random.seed(1000 + i); np.random.random(3)
                ea = do_call(a, call)
                np.random.seed(2000 + i); np.random.random(5)
                eb = do_call(b, call)
                oa, ob = outputs(a), outputs(b)
                bad = [k for k in oa if not same_any(oa[k], ob[k])]
                print(f"replay: call {i} {call[0]} -> {ea}/{eb}, differing outputs: {bad}")
                if bad or ea != eb:
                    dd.violation("repro-replay", f"replay: identically seeded simulators differ in {bad} after call {i}", replay)
                    break
        else:
            print("replay: re-run ./check C19 (deterministic under VERIF_SEED); this record carries no call sequence")
        return
    specs = gen_specs(rng, quick)
    run_ = C.CoqRun("C19", IMPORTS, shard=24)
    todo = []
    reproducibility(rep, rng, specs, quick, dd)
    kl_structure(rep, rng, specs, quick, dd, run_, todo)
    eigen_families(rep, rng, quick, dd, run_, todo)
    brownian(rep, rng, quick, dd, run_, todo)
    from concurrent.futures import ThreadPoolExecutor
    with ThreadPoolExecutor(max_workers=2) as ex:
        fut = ex.submit(run_real_goals, rep, dd)
        res = run_.run()
        fut.result()
    for t, cls, what, info in todo:
        if not res[t]:
            rep.disagreements_checked += 1
            dd.violation(cls, what, info)
    dd.summary()
